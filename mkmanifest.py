#!/usr/bin/env python3
"""Regenerates MANIFEST.json from the table below (kept next to run.py's registry)."""
import json, subprocess

HOOK_COMMITS = subprocess.run("git -C /repo log --format=%H --grep='^verif hooks'", shell=True,
                              capture_output=True, text=True).stdout.split()

TECH = "Coq model + machine-checked theorems (invariants / refinement / codec round-trip); layout regenerated from source; vm_compute correspondence against the Go implementation"

CORR = " The executable model is tied to the implementation by evaluating it inside Coq (vm_compute) on recorded operation histories and foreign images and comparing results, in-memory header and descriptors, cached minimum IDs and all backing bytes after every step; the property's predicate is also evaluated directly on the implementation (oracle) to find the replay when something breaks."
NOTE = "Trusted: Coq kernel+VM; hand-written model (coq/Image.v, Machine.v) tied to the Go code only by the correspondence on the cases counted in the evidence; harness, Exec.v comparison, run.py. Hypotheses visible in the theorems: arguments have their Go types (wf_dinput, time_ok), the image stays below 2^62 bytes (add_fits), the digest function returns 32 bytes."

CLAIMED = {
 "C01": dict(
   text="Proof: CreateContainer with any well-typed options stores every object exactly (theorem create_inv: all descriptor attributes, content bytes, alignment, ID = position+1, launch script/ID/times), a later accepted add likewise (add_inv), no later operation changes an undeleted object (step_persist), GetData returns the stored region, reading after a fresh load is the same (load_image = handle), OCI digests are taken over exactly the stored bytes. Unbounded in number, size, alignment and mix of objects." + CORR,
   note=NOTE, ref="5 (C01)"),
 "C02": dict(
   text="Proof: for every state reachable by any history from any creation or well-formed foreign image: live IDs are unique and non-zero, free+used=capacity (invariant); a live object keeps slot, ID, attributes and content until deleted and set-operations touch only metadata/mtime of their target (persistence theorem over all operations); at most one primary partition and header arch = its arch / unknown (invariant under typed partition metadata; the raw-metadata class is refuted by a computed witness = known finding F7); modification times are the requested ones; any rejected operation leaves handle, header bytes, table bytes and every object's content unchanged; AddObject succeeds exactly when the stated conditions hold (iff), DeleteObjects removes exactly the selected objects or changes nothing; the foreign-ID-numbering class is refuted by a computed witness (known finding F5). The abstract reference model is the conjunction of these theorems (no offsets/padding in the conclusions); an explicit abstract machine with a commuting-diagram proof is not yet written." + CORR,
   note=NOTE, ref="5 (C02)"),
 "C03": dict(
   text="Proof: in every reachable state the table lies between header and data, live regions lie in the declared data section and in the file and are pairwise disjoint (invariant, by induction over operations); a new object goes to the aligned offset at/after all data and leaves every earlier byte alone; delete keeps survivors' bytes, compaction ends the file exactly at the data end, zeroing leaves zeros in exactly the deleted regions; no operation disturbs a bystander's descriptor or bytes; nextAligned is correct for every non-negative offset and every alignment, with the overflow error exactly when the result exceeds MaxInt64." + CORR,
   note=NOTE, ref="5 (C03)"),
 "C12": dict(
   text="Proof: with the clock and the random-ID source as explicit inputs of the model, any history whose operations each carry the deterministic option / an explicit time or meet a deterministic image yields the same results and the same final state (handle and all bytes) for all clock readings (induction over the history); creation options that fix ID and time make the created image independent of clock and random source, in any option order; the deterministic option gives nil ID and zero time, and while no time is supplied explicitly every header and object time stays zero; explicit times land in the header modification time only (creation time and ID untouched); backend independence is C14's theorem. The option-resolution model is run against the library with options in random order; every history is executed twice across a wall-clock second boundary on memory and file backends and compared byte for byte. The model of Sign (Sign.v) is run against the library for deterministic / explicit-time / default signing and the signed bytes compared, with the envelope bytes as an oracle table. Partial: reproducibility of the envelope bytes themselves (go-crypto, sigstore) is outside the model.",
   note=NOTE, ref="5 (C12)"),
 "C14": dict(
   text="Proof: sif.Buffer is transliterated line by line from buffer.go and proved bisimilar to a POSIX file model on every call inside its documented contract (any seek, non-empty write at any position incl. past the end, empty write inside the data, non-empty positioned read, shrinking truncate); every storage call the library issues on an image with >=1 descriptor slot is proved to be inside that contract (no empty write, no upward truncate); hence every operation history gives equal results and byte-identical contents on both backends (induction over histories). Capacity 0 is refuted by a computed witness (known finding F4b). The file model is validated against a real os.File, and the transliteration against the real sif.Buffer, on random call sequences (also outside the contract), and histories are run in lock-step on both backends.",
   note=NOTE + " The POSIX file model (Backends.file_step) is validated against this sandbox's kernel/filesystem only.", ref="5 (C14)"),
 "C08": dict(
   text="Proof: in every reachable state (any creation or well-formed foreign image, any history incl. rejected operations) LoadContainer on the file's current bytes returns exactly the open handle - header, descriptors and cached minimum IDs (canonical form) - so every function of handle and storage is answered identically; reload is the identity step." + CORR,
   note=NOTE, ref="5 (C08)"),
 "C11": dict(
   text="Proof: the struct layouts/constants regenerated from the source on every run are proved equal to the SIF v1 tables (reflexivity), the layout-driven codec is proved to round-trip in both directions for every layout, value and byte string, and header/descriptor/table instances follow. The executable model of create/add/delete/set/load is tied to the implementation by evaluating it inside Coq on recorded histories and comparing all backing bytes after every step.",
   note="Trusted: Coq kernel+VM, translator (reflection hook + go/ast), SpecV1 transcription, correspondence harness and Exec.v comparison. The Go code itself is modelled, not verified.",
   ref="5 (C11), 3.1"),
 "C13": dict(
   text="Proof: for every handle state and every selector list, GetDescriptors returns exactly the in-use descriptors that satisfy all selectors, in table order (theorem over the model's collect/multi_eval, no invariant needed); the single-object form's not-found/multiple-found outcomes are characterised by the number of matches; empty image; zero ID/group is an error whenever a live object reaches that selector; the unconditional form is refuted by a vm_compute witness (known finding F8). The model's queries are tied to the implementation by evaluating selector tuples of length 0-3 (incl. erroring caller predicates) after every step of recorded histories.",
   note="Trusted: Coq kernel+VM, correspondence harness and Exec.v. The meaning of each selector is the model's sel_eval (SelectFacts.v states each as an iff).",
   ref="5 (C13)"),
}

CORR_I = " The integrity model (coq/Integrity.v, Sign.v) is evaluated inside Coq on recorded verification/signing cases (oracle tables for envelope opening and JSON parsing computed with go-crypto / sigstore / encoding/json directly) and compared with pkg/integrity on NewVerifier, Verify, every callback report, AnySignedBy/AllSignedBy and the signed bytes; a Go-side oracle written from the property's wording searches the same cases for a concrete failing input."
NOTE_I = "Trusted: Coq kernel+VM, correspondence harness (key material, oracle tables, error-code mapping) and ExecI.v; cryptography and JSON are parameters of the model (nothing assumed; collision-freedom appears as an explicit disjunct). The Go code is modelled, not verified."
CLAIMED.update({
 "C04": dict(
   text="Proof: for every byte string LoadContainer accepts, every current-format request and any behaviour of the cryptographic parameters: if Verify returns nil then every reported result belongs to a signature attached to a requested group that was opened under the supplied keys, and for whoever computed the opened metadata from an image, launch script/magic/version/ID and, per verified object, type, used flag, relative ID, link, size, creation time, uid, gid, name, extra and content coincide - or two distinct inputs with equal digest are exhibited; the integrity streams are proved to determine exactly those fields (injectivity of the stream encodings), and the field lists/digest table/hash allow-list/payload type extracted from the source on every run are proved equal to the model's." + CORR_I + " Cases: every single-bit flip of one base image per run (all of them in thorough) against the protected-view oracle, sampled flips of every region and a field-rewrite/swap/splice catalogue through model and oracle, for 7 base images (PGP, DSSE with RSA/ECDSA/Ed25519, one and two groups, co-signed, object subsets).",
   note=NOTE_I, ref="5 (C04)"),
 "C05": dict(
   text="Proof: if default NewVerifier/Verify returns nil then every live object outside all groups is a signature, at least one group exists, and every group present has at least one current-format signature, every such signature (none skipped) opened under the supplied keys, names exactly the current members (both inclusions) and matches header, descriptors and contents; stated also as refusals (ungrouped object, unsigned group, uncovered member, missing signed object, no groups). The clause 'removing a signed object makes verification fail' is refuted by an evaluated witness for the removal of a whole group (known finding F6)." + CORR_I + " Cases: API-level edits after signing (add to a signed group / new group / no group, delete, set-metadata, delete group, delete signatures) and a descriptor-table catalogue (used flag, ID, group, link, type of every slot, duplicated/retargeted signatures, pairs), judged by a specification-side re-implementation of the property's wording.",
   note=NOTE_I, ref="5 (C05)"),
 "C06": dict(
   text="Proof: over the executable model of NewSigner/Sign (Sign.v, byte-exact against the library on every run): on any handle satisfying the image invariant, signing a whole group and then requesting that group yields NewVerifier's task and Verify = nil with every attached signature (earlier acceptable ones included) reporting exactly the group's objects, and signing only adds one ungrouped signature object linked to the group, every other descriptor staying in place; the appended signature is accepted for every request it covers (whole set, or any object subset under OptVerifyObject); the whole-group signer covers exactly the group in table order; adding any object outside the group afterwards keeps members, relative IDs, minimum ID, protected header fields, every live object's bytes and hence the verdict on every existing signature; the verdict is a function of the protected view only. Hypotheses (explicit, no axioms): the metadata survives JSON, the sealed envelope opens under the supplied keys to the sealed payload, a recorded fingerprint is well formed. The clause 'after further parties co-sign' is refuted for two different object-subset signatures on one group (known finding F13)." + CORR_I + " Cases: generated images (1-4 groups, 1-6 objects each, all types, empty objects, deletions before signing), PGP and DSSE (RSA/ECDSA/Ed25519, 1-3 signers), default/group/object selections, deterministic/explicit/default time; same-handle and reloaded verification, co-signing, later adds/deletes in other groups, relocated data, shifted IDs, renamed group, changed unprotected fields; refused signing requests; the signed bytes are compared with the model's.",
   note=NOTE_I + " Reload-independence is C08's theorem (handle = reload in every reachable state); images with shifted IDs/renamed groups are covered by the view-only theorem plus the correspondence cases, not by a dedicated theorem.", ref="5 (C06)"),
 "C09": dict(
   text="Proof: an operation is the list of storage calls it issues; a crash leaves the file after any prefix of them, the last write cut at any byte (POSIX file semantics). For every state satisfying the image invariant and every add / delete (all options) / set-primary / set-metadata / set-OCI-digest, accepted or rejected, every crash image still loads, has the same number of slots, and every object the operation was not aimed at keeps its descriptor in its slot and its bytes - by a general preservation principle (a byte range survives every crash point if each overlapping write re-writes what is there and each truncation stays beyond it) applied to the header fields LoadContainer depends on, each bystander's table slot and each bystander's data, with the calls of every operation characterised as data calls beyond / disjoint from those ranges followed by the table and header writes. The call lists of the model are compared call by call with the calls the library issues (recording ReadWriter) on (pre-state, operation) pairs from random histories; crash images at every call boundary and torn prefixes at sector granularity (every byte for table/header writes in thorough) are reconstructed from the recorded calls and loaded with the real LoadContainer; every call is also failed once (full failure and short write) and the error must reach the caller. Partial: 'an object being added is absent or completely present at call boundaries' and error propagation are checked on the implementation by the crash family, not stated as theorems; signing is covered as the AddObject it performs.",
   note="Trusted: Coq kernel+VM, correspondence harness (recording/fault-injecting ReadWriter, POSIX replay of recorded calls) and Exec.v; the crash model is the POSIX-file model of Store.v validated against os.File (C14). Torn writes are modelled as byte prefixes of a write call; reordering of calls by the OS cache is not modelled.", ref="5 (C09)"),
 "C07": dict(
   text="Proof: a nil Verify examined every signature attached to every requested task (none skipped), each of a recognised format and of a scheme for which key material was supplied, each opened by the opener under the supplied keys; the keys/entity reported for a result are exactly what the opener returned, DSSE identities come only from the DSSE opener and PGP identities only from the clear-sign opener, and a PGP signature's descriptor names that same entity." + CORR_I + " Cases: (signing set, trusted set) pairs over 7 DSSE keys (RSA/ECDSA/Ed25519) and 3 PGP entities incl. disjoint/overlapping/superset/empty/nil, every kind of fingerprint value in the descriptor, both schemes on one group with key material for one, foreign payload types made by the trusted key, unrecognised formats; reported signers are compared with an independent re-opening of each signature with every key the harness has.",
   note=NOTE_I + " What 'valid under a key' means is go-crypto's and sigstore's answer (oracle tables), not modelled.", ref="5 (C07)"),
 "C16": dict(
   text="Proof: group tasks examine only signatures of the requested kind; a legacy task never accepts a signature whose payload is JSON; an accepted legacy signature was opened under the supplied keys with the descriptor naming the signer, and the named object's content is byte for byte what the signed digest is of (or a collision is exhibited); for groups only the concatenation is covered (partial) and the per-object statement is refuted: the verdict is proved to depend on the concatenation alone (known finding F9)." + CORR_I + " Cases: the 6 shipped legacy images and generated ones (hand-made clear-signed SIFHASH messages on groups and objects, alone and mixed with current signatures) under 8 request modes, with bit flips, catalogue edits and boundary shifts under each accepting legacy mode.",
   note=NOTE_I, ref="5 (C16)"),
 "C17": dict(
   text="Proof: AnySignedBy/AllSignedBy return a strictly sorted, duplicate-free list containing exactly the fingerprints recorded on the signatures attached to some / to every selected task (tasks without signatures contribute nothing), without touching the image; after a successful Verify a fingerprint recorded on a clear-signed signature is that of the entity whose supplied key validated it (partial); for DSSE signatures the statement is refuted by an evaluated witness (known finding F10)." + CORR_I + " Cases: generated multi-group images with 0-3 PGP signers per group, DSSE and legacy signatures mixed in, forged fingerprints, under default / group / object / legacy selections, compared with a specification-side computation of union and intersection.",
   note=NOTE_I, ref="5 (C17)"),
})
 
CLAIMED["C18"] = dict(
   text="Proof (partial, by the nature of the property): in the model every read-only facility (descriptor queries, header accessors, content reads, integrity streams, signer listings, full verification) is a function of handle and storage that returns the state unchanged, hence for every schedule interleaving the calls of any number of clients each call returns what it returns alone and a client's view is independent of the other clients (induction over schedules). That the source's read paths are like that is re-established on every run: the translator follows calls from the read-only entry points of pkg/sif and pkg/integrity and extracts every assignment through a pointer to FileImage/Buffer/Verifier/rawDescriptor/header or to a package variable and every method call on a package variable; the generated lists are proved empty. The model's answers are tied to the implementation by the query and verification correspondence families. Data-race freedom of the compiled code is a runtime property the model cannot exhibit: it is searched with the race detector (12 goroutines x GOMAXPROCS 1/2/4/16 x mixed readers on freshly loaded shared handles, memory and file backends, every result compared with the sequential one), not proved.",
   note="Trusted: Coq kernel, the translator's syntactic call-graph (calls by name inside a package, an over-approximation; calls through interfaces into other packages are not followed), the Go race detector and scheduler for the search. Level is proof for the sequential-equivalence statement of the model and for the emptiness of the extracted write sets; the runtime claim itself is tested.",
   ref="5 (C18)")

CLAIMED["C10"] = dict(
   text="Proof (partial, by the nature of the property): the model of LoadContainer and of the read paths is a total executable specification; it answers on every byte string, every field it decodes is in range, the descriptor table it decodes lies inside the input (count x 585 <= input length), GetData returns exactly Size bytes all present in the input, a reader yields at most what the input holds whatever Size claims, and the integrity streams have fixed size - nothing the specification builds is out of proportion to the input. The model is compared with the library (result, error class, handle, queries, verification outcome) on hostile images: header mutants, foreign images, corpus, bit-flipped and field-rewritten signed images. Absence of panics, loops and over-allocation in the Go code is a runtime property the model cannot exhibit: it is searched by running every accessor, selector, object read, integrity stream, signer listing, verification mode and the siftool header/list/info/dump commands on ~4000 inputs per run (boundary values 0, 1, -1, min/max int64, around the file size, 2^31, 2^32, 2^40 in every numeric header and descriptor field singly and in pairs; byte fields without NUL / all ones / all zero; single-bit flips; truncations; corpus; random bytes) in a child process with capped address space, with wall-time and allocation limits per input.",
   note="Trusted: Coq kernel+VM, the harness (child-process supervision, limits: 3 s and 96 MiB + 64 x input size per input, 6 GB address space). Level is proof for the boundedness of the executable specification; the runtime claim about the Go code is tested. Coverage-guided fuzzing is not run (go test -fuzz needs no network but is left to the thorough tier's larger grids).",
   ref="5 (C10)")

CLAIMED["C15"] = dict(
   text="Proof: over the model of the commands (coq/Siftool.v: the flag-to-option translation of add, every command as LoadContainer - one library call - UnloadContainer): add, del and setprim are exactly AddObject / DeleteObject / SetPrimPart of the translated arguments, and arguments the translation refuses never reach the file; a command that fails leaves the header bytes, the descriptor table and every object's bytes unchanged (from the rejected-operation theorem of C02, for every image satisfying the invariant); dump emits exactly the object's Size bytes whatever they are; dump, info, list and header never change the file. The model is compared with the siftool binary built from /repo's working tree on random command histories (new, then add with every flag combination incl. invalid ones, del, setprim, dump, info, list, header, with valid and invalid IDs): exit status, the file after every command, dump's standard output; the clock each command used is read back from what it stamped and must lie in the interval the process ran in. The property is also judged directly on the implementation: failing commands exit non-zero with a message and leave header and objects unchanged, dump equals the object's bytes (binary, empty and multi-megabyte payloads), header/list/info show the true values.",
   note="Trusted: Coq kernel+VM, the harness (process execution, independent SIF decoder) and ExecS.v. The text layout of header/list/info is not modelled: only the values they must contain are checked on the implementation. Histories with multi-megabyte payloads are judged on the implementation only (not sent through the Coq model).",
   ref="5 (C15)")

REASON_PENDING = "check not yet built in this revision (model exists; theorem file and families pending) - see DESIGN.md section 10"

def main():
    props = [json.loads(l) for l in open("properties.jsonl")]
    checks, na = [], []
    for p in props:
        pid = p["id"]
        if pid in CLAIMED:
            c = CLAIMED[pid]
            checks.append({
                "property_id": pid,
                "quick_cmd": "python3 run.py %s --tier quick" % pid,
                "thorough_cmd": "python3 run.py %s --tier thorough" % pid,
                "evidence_file": "/verif/evidence/%s.json" % pid,
                "replay_cmd_template": "python3 run.py replay {path}",
                "engine": "coq-model",
                "level_claimed": {"category": "proof", "text": c["text"], "design_ref": "DESIGN.md section " + c["ref"]},
                "level_note": c["note"],
                "technique": TECH,
            })
        else:
            na.append({"property_id": pid, "reason": REASON_PENDING})
    m = {
        "version": 1,
        "setup_cmd": "python3 run.py setup",
        "hooks": {
            "guard": "verif",
            "enable": "go build -tags verif (the harness module replaces github.com/sylabs/sif/v2 by /repo)",
            "baseline_off_cmd": "cd /repo && GOFLAGS=-mod=mod go test -json -vet=off -count=1 -timeout 25m ./...",
            "source_commits": HOOK_COMMITS,
            "add_only": True,
        },
        "engines": [{
            "name": "coq-model", "path": "/verif/coq",
            "serves_properties": sorted(CLAIMED),
            "kind_free_text": "Coq 8.16.1 development: executable Gallina model of pkg/sif (+integrity), theorems per property in coq/Properties, correspondence by vm_compute on cases recorded by the Go harness in /verif/harness",
        }],
        "checks": checks,
        "not_applicable": na,
        "notes": "Fix commits in /repo: see known_findings.json (fixed entries). run.py rebuilds harness, regenerated Coq tables and proofs from /repo's working tree on every invocation.",
    }
    json.dump(m, open("MANIFEST.json", "w"), indent=1)

main()

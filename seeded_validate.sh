#!/bin/bash
# usage: seeded_validate.sh <seed-dir> <dest-dir>   (validates one mutation in a scratch worktree)
set -u
export GOFLAGS=-mod=mod GOPROXY=off GOSUMDB=off GOTOOLCHAIN=local
src=$1; dst=$2
wt=$(mktemp -d /tmp/val-XXXXXX); rmdir $wt
git -C /repo worktree add -q --detach $wt HEAD || exit 9
cd $wt
res="ok"
git apply --check $src/patch.diff 2>/dev/null || { res="patch-does-not-apply"; }
demo=$(ls $src | grep -E '_test\.go$|main\.go$' | head -1)
place=$(python3 -c "import json;m=json.load(open('$src/meta.json'));print((m.get('demo_place','') or '').split()[0] if m.get('demo_place') else '')")
# normalise demo_place to a directory inside the worktree
placedir=$(echo "$place" | sed -E 's#^/tmp/wt-C[0-9]+/##; s#[^/]*_test\.go$##; s#/$##')
[ -z "$placedir" ] && placedir="pkg/sif"
runpat="^($(grep -oE 'func (Test[A-Za-z0-9_]+)' $src/$demo | awk '{print $2}' | paste -sd'|'))\$"
if [ "$res" = ok ]; then
  git apply $src/patch.diff
  go build ./... >/dev/null 2>&1 || res="does-not-build"
  if [ "$res" = ok ]; then
    go test -vet=off -count=1 ./... >$wt/suite.log 2>&1 || res="suite-fails-with-mutation"
  fi
  cp $src/$demo $placedir/zz_seed_demo_test.go
  go test -vet=off -count=1 -run "$runpat" ./$placedir >$wt/demo_mut.log 2>&1 && { [ "$res" = ok ] && res="demo-passes-with-mutation"; }
  git apply -R $src/patch.diff
  go test -vet=off -count=1 -run "$runpat" ./$placedir >$wt/demo_clean.log 2>&1 || { [ "$res" = ok ] && res="demo-fails-on-clean-tree"; }
fi
echo "$src $res demo=$demo place=$placedir run=$runpat"
if [ "$res" = ok ]; then
  mkdir -p $dst
  cp $src/patch.diff $dst/patch.diff
  cp $src/$demo $dst/$demo
  python3 - "$src/meta.json" "$dst/meta.json" "$placedir" "$runpat" "$demo" <<'PY'
import json,sys
m=json.load(open(sys.argv[1]))
m['demo_place']=sys.argv[3]+'/'+sys.argv[5]
m['demo_cmd']="go test -vet=off -count=1 -run '%s' ./%s"%(sys.argv[4],sys.argv[3])
m['validated']=["scratch worktree of /repo HEAD: patch applies; go build ./... ok; full suite passes with mutation; demo fails with mutation; demo passes on clean tree"]
json.dump(m,open(sys.argv[2],'w'),indent=1)
PY
fi
cd /; git -C /repo worktree remove --force $wt

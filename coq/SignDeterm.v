(* SignDeterm.v — signing is reproducible (C12): with the deterministic option
   or a fixed signature time, or on an image that is already deterministic,
   the signed image does not depend on the wall clock; with the deterministic
   option it does not depend on the signature-time function either. *)
From Coq Require Import List ZArith Lia Bool.
From Coq.Init Require Import Byte.
From Sif Require Import Bytes Store Format Image Machine Integrity Sign Determ.
Import ListNotations.
Local Open Scope Z_scope.

Section SignDeterm.

Variable hash : halg -> list byte -> list byte.
Variable sha256 : list byte -> list byte.
Variable encode_md : imd -> list byte.
Variable seal : list byte -> list byte * Z.
Variable signer_fp : option (list byte).

Notation sign_input := (sign_input hash encode_md seal signer_fp).
Notation sign_all := (sign_all hash sha256 encode_md seal signer_fp).
Notation sign := (sign hash sha256 encode_md seal signer_fp).

(* the clock is not consulted: an option other than the default one, or an
   image whose ID is nil and whose time fields are all zero *)
Definition sign_clock_free (s : state) (o : topt) : Prop :=
  o <> TDefault \/ zero_times (s_mem s).

Lemma sign_input_no_time m st gs di :
  sign_input m st gs = inl di -> di_time di = None.
Proof.
  unfold Sign.sign_input. destruct (group_min_id m (gs_group gs)); [|discriminate].
  destruct (image_metadata _ _ _ _ _ _); [|discriminate].
  destruct (seal _). intros [= <-]. reflexivity.
Qed.

Lemma add_keeps_clock_free s di o n s' r :
  di_time di = None -> sign_clock_free s o ->
  step sha256 s (OpAdd di o n) = (s', r) -> sign_clock_free s' o.
Proof.
  intros T [N|Zt] St; [now left|].
  destruct o as [| |t]; [| |left; discriminate]; right.
  all: unfold step in St;
    destruct (plan_op sha256 (s_mem s) _) as [[m' r'] evs] eqn:P;
    assert (Z' : zero_times m') by
      (apply (plan_keeps_zero_times sha256 _ _ _ _ _ Zt) in P; [exact P| cbn; auto | discriminate]);
    unfold exec in St; destruct (run_events (s_backend s) evs (s_io s)) as [io' [|]];
    inversion St; subst; exact Z'.
Qed.

Lemma sign_all_clock_free gss : forall s o n1 n2,
  sign_clock_free s o -> sign_all s gss o n1 = sign_all s gss o n2.
Proof.
  induction gss as [|gs r IH]; intros s o n1 n2 H; cbn [Sign.sign_all]; [reflexivity|].
  destruct (sign_input (s_mem s) (f_bytes (s_io s)) gs) as [di|e] eqn:SI; [|reflexivity].
  assert (CF : clock_free (m_hdr (s_mem s)) (OpAdd di o 0)).
  { unfold clock_free. cbn [topt_of]. destruct o; [|exact Logic.I|exact Logic.I].
    destruct H as [N|[D _]]; [congruence|exact D]. }
  pose proof (step_clock_free sha256 s (OpAdd di o 0) n1 n2 CF) as E. cbn [set_now] in E.
  rewrite E. destruct (step sha256 s (OpAdd di o n2)) as [s' [|e]] eqn:St; [|reflexivity].
  apply IH. exact (add_keeps_clock_free s di o n2 s' Ok (sign_input_no_time _ _ _ _ SI) H St).
Qed.

Theorem sign_clock_independent s so n1 n2 :
  sign_clock_free s (so_time so) -> sign s so n1 = sign s so n2.
Proof.
  intro H. unfold Sign.sign. destruct (new_signer (s_mem s) so); [|reflexivity].
  now apply sign_all_clock_free.
Qed.

(* the options as the caller gives them *)
Theorem sign_reproducible s groups objects det tf n1 n2 :
  det = true \/ tf <> None \/ zero_times (s_mem s) ->
  sign s (mkSO groups objects (sign_topt det tf)) n1 =
  sign s (mkSO groups objects (sign_topt det tf)) n2.
Proof.
  intro H. apply sign_clock_independent. cbn [so_time]. unfold sign_clock_free, sign_topt.
  destruct det; [left; discriminate|]. destruct tf as [t|]; [left; discriminate|].
  destruct H as [H|[H|H]]; [discriminate|congruence|now right].
Qed.

Theorem sign_deterministic_ignores_time s groups objects tf1 tf2 n1 n2 :
  sign s (mkSO groups objects (sign_topt true tf1)) n1 =
  sign s (mkSO groups objects (sign_topt true tf2)) n2.
Proof. apply sign_clock_independent. left. discriminate. Qed.

(* and what a deterministic signing writes: a deterministic image stays so *)
Theorem sign_all_keeps_zero_times gss : forall s o n s' r,
  (o = TDeterministic \/ o = TDefault) -> zero_times (s_mem s) ->
  sign_all s gss o n = (s', r) -> zero_times (s_mem s').
Proof.
  induction gss as [|gs rest IH]; intros s o n s' r Ho Zt H; cbn [Sign.sign_all] in H.
  - inversion H; subst; exact Zt.
  - destruct (sign_input (s_mem s) (f_bytes (s_io s)) gs) as [di|e] eqn:SI;
      [|inversion H; subst; exact Zt].
    destruct (step sha256 s (OpAdd di o n)) as [s1 r1] eqn:St.
    assert (Z1 : zero_times (s_mem s1)).
    { unfold step in St. destruct (plan_op sha256 (s_mem s) _) as [[m' r'] evs] eqn:P.
      assert (Z' : zero_times m').
      { apply (plan_keeps_zero_times sha256 _ _ _ _ _ Zt) in P; [exact P| |discriminate].
        cbn. rewrite (sign_input_no_time _ _ _ _ SI). tauto. }
      unfold exec in St. destruct (run_events (s_backend s) evs (s_io s)) as [io' [|]];
        inversion St; subst; exact Z'. }
    destruct r1; [eapply IH; eauto | inversion H; subst; exact Z1].
Qed.

End SignDeterm.

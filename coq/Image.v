(* Image.v — executable model of pkg/sif: the in-memory image handle and every
   mutator and query, transcribed from the Go source (DESIGN.md Appendix A).

   A mutator is modelled in two layers:
     plan_*  : mem -> arguments -> mem' * result * list event
               the in-memory transition and the storage calls it issues, in
               order, assuming no storage call fails;
     step    : runs the calls on the backend (Backends.v); the one call that
               can fail without a fault being injected is Buffer.Truncate
               beyond the end.
   Nothing here is proved; proofs are in the *Facts / Inv* / Properties files. *)
From Coq Require Import List ZArith Lia Bool.
From Coq.Init Require Import Byte.
From Sif Require Import Bytes Store Format.
Import ListNotations.
Local Open Scope Z_scope.

(* ---------- errors ---------- *)

Inductive err :=
| ENoObjects | ENotFound | EMultiple | EInvalidObjectID | EInvalidGroupID
| ECapacity | EPrimaryExists | ENameTooLarge | EExtraTooLarge | EMarshal
| ENotPartition | ENotSystem | EUnexpectedType | EAlignOverflow | EReader
| ETruncRange | ELaunchLen | ECapNotSupported
| EInvalidMagic | EBadVersion | EBadCount | EShortHeader | EShortTable
| ENegOffset | EIo | ECustom | EBadSize | EShortData | EIDOverflow.

Inductive result := Ok | Err (e : err).

Definition err_eqb (a b : err) : bool :=
  match a, b with
  | ENoObjects, ENoObjects | ENotFound, ENotFound | EMultiple, EMultiple
  | EInvalidObjectID, EInvalidObjectID | EInvalidGroupID, EInvalidGroupID
  | ECapacity, ECapacity | EPrimaryExists, EPrimaryExists
  | ENameTooLarge, ENameTooLarge | EExtraTooLarge, EExtraTooLarge
  | EMarshal, EMarshal | ENotPartition, ENotPartition | ENotSystem, ENotSystem
  | EUnexpectedType, EUnexpectedType | EAlignOverflow, EAlignOverflow
  | EReader, EReader | ETruncRange, ETruncRange | ELaunchLen, ELaunchLen
  | ECapNotSupported, ECapNotSupported | EInvalidMagic, EInvalidMagic
  | EBadVersion, EBadVersion | EBadCount, EBadCount | EShortHeader, EShortHeader
  | EShortTable, EShortTable | ENegOffset, ENegOffset | EIo, EIo
  | ECustom, ECustom | EBadSize, EBadSize | EShortData, EShortData
  | EIDOverflow, EIDOverflow => true
  | _, _ => false
  end.

Definition result_eqb (a b : result) : bool :=
  match a, b with
  | Ok, Ok => true
  | Err x, Err y => err_eqb x y
  | _, _ => false
  end.

(* ---------- the in-memory handle ---------- *)

(* FileImage.h, FileImage.rds, FileImage.minIDs (association list kept sorted
   by key so that it has a canonical form) *)
Record mem := mkM { m_hdr : header; m_rds : list rdesc; m_minids : list (Z * Z) }.

Fixpoint minid_lookup (g : Z) (m : list (Z * Z)) : option Z :=
  match m with
  | [] => None
  | (k, v) :: r => if k =? g then Some v else minid_lookup g r
  end.

Fixpoint minid_set (g v : Z) (m : list (Z * Z)) : list (Z * Z) :=
  match m with
  | [] => [(g, v)]
  | (k, w) :: r =>
      if k =? g then (g, v) :: r
      else if g <? k then (g, v) :: (k, w) :: r
      else (k, w) :: minid_set g v r
  end.

(* if minID, ok := minIDs[group]; !ok || id < minID { minIDs[group] = id } *)
Definition minid_note (g id : Z) (m : list (Z * Z)) : list (Z * Z) :=
  match minid_lookup g m with
  | None => minid_set g id m
  | Some v => if id <? v then minid_set g id m else m
  end.

(* populateMinIDs: over in-use descriptors, keyed by the raw group field *)
Definition populate_minids (rds : list rdesc) : list (Z * Z) :=
  fold_left (fun m d => if d_used d then minid_note (d_group d) (d_id d) m else m) rds [].

(* descriptorFromRaw: relativeID = rd.ID - minIDs[rd.GroupID]  (uint32) *)
Definition relative_id (m : list (Z * Z)) (d : rdesc) : Z :=
  wrap_u32 (d_id d - match minid_lookup (d_group d) m with Some v => v | None => 0 end).

(* ---------- time ---------- *)

Inductive topt := TDefault | TDeterministic | TExplicit (t : Z).

Definition is_deterministic (h : header) : bool :=
  bytes_eqb (h_id h) nil_uuid && (h_ctime h =? zero_time) && (h_mtime h =? zero_time).

Definition resolve_time (h : header) (o : topt) (now : Z) : Z :=
  match o with
  | TDefault => if is_deterministic h then zero_time else now
  | TDeterministic => zero_time
  | TExplicit t => t
  end.

(* ---------- selectors ---------- *)

Inductive custom := CTrue | CFalse | CSizeGe (n : Z) | CNameNonEmpty | CErrOnID (id : Z).

Inductive selector :=
| SType (t : Z) | SID (id : Z) | SNoGroup | SGroup (g : Z)
| SLinkedID (id : Z) | SLinkedGroup (g : Z) | SPartType (pt : Z)
| SOCIDigest (text : list byte) | SCustom (c : custom).

Inductive sres := SMatch (b : bool) | SErr (e : err).

Definition is_oci_type (t : Z) : bool := (t =? DataOCIRootIndex) || (t =? DataOCIBlob).

Definition custom_eval (c : custom) (d : rdesc) : sres :=
  match c with
  | CTrue => SMatch true
  | CFalse => SMatch false
  | CSizeGe n => SMatch (n <=? d_size d)
  | CNameNonEmpty => SMatch (negb (all_zero (d_name d)))
  | CErrOnID id => if d_id d =? id then SErr ECustom else SMatch true
  end.

Definition sel_eval (s : selector) (d : rdesc) : sres :=
  match s with
  | SType t => SMatch (d_type d =? t)
  | SID id => if id =? 0 then SErr EInvalidObjectID else SMatch (d_id d =? id)
  | SNoGroup => SMatch (group_of_raw (d_group d) =? 0)
  | SGroup g => if g =? 0 then SErr EInvalidGroupID
                else SMatch (group_of_raw (d_group d) =? g)
  | SLinkedID id =>
      if id =? 0 then SErr EInvalidObjectID
      else SMatch (negb (raw_is_group (d_link d)) && (group_of_raw (d_link d) =? id))
  | SLinkedGroup g =>
      if g =? 0 then SErr EInvalidGroupID
      else SMatch (raw_is_group (d_link d) && (group_of_raw (d_link d) =? g))
  | SPartType pt => SMatch (is_partition_of_type d pt)
  | SOCIDigest text =>
      SMatch (is_oci_type (d_type d) &&
              (let t := cut_nul (d_extra d) in valid_digest_text t && bytes_eqb t text))
  | SCustom c => custom_eval c d
  end.

(* multiSelectorFunc: left to right, stop at the first false or error *)
Fixpoint multi_eval (sels : list selector) (d : rdesc) : sres :=
  match sels with
  | [] => SMatch true
  | s :: r =>
      match sel_eval s d with
      | SMatch true => multi_eval r d
      | other => other
      end
  end.

(* withDescriptors + append: in-use descriptors on which f holds, table order;
   the first selector error aborts *)
Fixpoint collect (f : rdesc -> sres) (rds : list rdesc) : list rdesc + err :=
  match rds with
  | [] => inl []
  | d :: r =>
      if negb (d_used d) then collect f r
      else match f d with
           | SErr e => inr e
           | SMatch false => collect f r
           | SMatch true =>
               match collect f r with
               | inl l => inl (d :: l)
               | inr e => inr e
               end
           end
  end.

(* FileImage.GetDescriptors *)
Definition get_descriptors (m : mem) (sels : list selector) : list (rdesc * Z) + err :=
  if h_free (m_hdr m) =? h_total (m_hdr m) then inr ENoObjects
  else match collect (multi_eval sels) (m_rds m) with
       | inl l => inl (map (fun d => (d, relative_id (m_minids m) d)) l)
       | inr e => inr e
       end.

(* FileImage.getDescriptor: index and descriptor of the unique match *)
Fixpoint find_one_from (f : rdesc -> sres) (rds : list rdesc) (i : nat)
         (acc : option (nat * rdesc)) : (nat * rdesc) + err :=
  match rds with
  | [] => match acc with Some x => inl x | None => inr ENotFound end
  | d :: r =>
      if negb (d_used d) then find_one_from f r (S i) acc
      else match f d with
           | SErr e => inr e
           | SMatch false => find_one_from f r (S i) acc
           | SMatch true =>
               match acc with
               | Some _ => inr EMultiple
               | None => find_one_from f r (S i) (Some (i, d))
               end
           end
  end.

Definition find_one (f : rdesc -> sres) (rds : list rdesc) : (nat * rdesc) + err :=
  find_one_from f rds 0 None.

(* FileImage.GetDescriptor *)
Definition get_descriptor (m : mem) (sels : list selector) : (rdesc * Z) + err :=
  if h_free (m_hdr m) =? h_total (m_hdr m) then inr ENoObjects
  else match find_one (multi_eval sels) (m_rds m) with
       | inl (_, d) => inl (d, relative_id (m_minids m) d)
       | inr e => inr e
       end.

(* ---------- layout arithmetic ---------- *)

(* nextAligned (Go's % is the truncated remainder) *)
Definition next_aligned (off align : Z) : option Z :=
  if (align <=? 0) || (Z.rem off align =? 0) then Some off
  else let a := align - Z.rem off align in
       if max_i64 - off <? a then None else Some (off + a).

(* calculatedDataSize *)
Definition data_end (h : header) (rds : list rdesc) : Z :=
  fold_left (fun e d => if d_used d then Z.max e (d_off d + d_size d) else e)
            rds (h_dataoff h).
Definition calc_data_size (h : header) (rds : list rdesc) : Z :=
  data_end h rds - h_dataoff h.

Fixpoint first_unused (rds : list rdesc) : nat :=
  match rds with
  | [] => O
  | d :: r => if d_used d then S (first_unused r) else O
  end.

Fixpoint set_nth {A} (i : nat) (x : A) (l : list A) : list A :=
  match l, i with
  | [], _ => []
  | _ :: r, O => x :: r
  | y :: r, S i' => y :: set_nth i' x r
  end.

(* ---------- storage calls ---------- *)

Definition write_if_nonempty (bs : list byte) : list event :=
  match bs with [] => [] | _ => [EvWrite bs] end.

(* writeDescriptors; writeHeader *)
Definition ev_table (h : header) (rds : list rdesc) : list event :=
  [EvSeek (Z.to_nat (h_descoff h)); EvWrite (enc_table rds)].
Definition ev_header (h : header) : list event :=
  [EvSeek 0; EvWrite (enc_header h)].

(* ---------- descriptor inputs ---------- *)

Inductive metadata :=
| MdNone                                    (* no metadata: "extra" is left as it is *)
| MdPart (fs pt : Z) (arch : list byte)     (* OptPartitionMetadata *)
| MdRaw (bs : list byte)                    (* any marshaler yielding bs *)
| MdOCI                                     (* digest accumulated while the blob is written *)
| MdErr.                                    (* a marshaler that fails *)

Inductive link := LNone | LObject (id : Z) | LGroup (g : Z).

Definition link_raw (l : link) : Z :=
  match l with
  | LNone => 0
  | LObject id => id
  | LGroup g => Z.lor g group_mask
  end.

Record dinput := mkDI {
  di_type : Z;
  di_content : list byte;
  di_fail : option nat;        (* the source reader fails after this many bytes *)
  di_group : Z;                (* 0 = no group *)
  di_link : link;
  di_align : Z;
  di_name : list byte;
  di_md : metadata;
  di_time : option Z }.

Section WithDigest.

(* SHA-256, used only to say which bytes an OCI blob digest is taken over *)
Variable sha256 : list byte -> list byte.

Definition oci_text (content : list byte) : list byte :=
  sha256_prefix ++ hex_of (sha256 content).

(* setExtra *)
Definition new_extra (old : list byte) (md : metadata) (content : list byte)
  : list byte + err :=
  match md with
  | MdNone => inl old
  | MdErr => inr EMarshal
  | MdPart fs pt arch => inl (pad_to 384 (enc_partition fs pt arch))
  | MdRaw bs => if (384 <? length bs)%nat then inr EExtraTooLarge else inl (pad_to 384 bs)
  | MdOCI => inl (pad_to 384 (oci_text content))
  end.

Definition has_primary (m : mem) : bool :=
  if h_free (m_hdr m) =? h_total (m_hdr m) then false
  else existsb (fun d => d_used d && is_partition_of_type d PartPrimSys) (m_rds m).

(* FileImage.writeDataObject (after the "fix:" commit: the handle is only
   changed once the object has been accepted) *)
Definition plan_write_object (i : nat) (di : dinput) (t : Z) (m : mem)
  : mem * result * list event :=
  let h := m_hdr m in
  let rds := m_rds m in
  match nth_error rds i with
  | None => (m, Err ECapacity, [])
  | Some slot =>
      if max_u32 <=? Z.of_nat i then (m, Err EIDOverflow, []) else
      let prim := match di_md di with
                  | MdPart _ pt _ => pt =? PartPrimSys
                  | _ => false
                  end in
      if prim && has_primary m then (m, Err EPrimaryExists, [])
      else
        let arch := match di_md di with
                    | MdPart _ pt a => if pt =? PartPrimSys then a else h_arch h
                    | _ => h_arch h
                    end in
        let ds := calc_data_size h rds in
        let unaligned := h_dataoff h + ds in
        match next_aligned unaligned (di_align di) with
        | None => (m, Err EAlignOverflow, [])
        | Some off =>
            let seek := [EvSeek (Z.to_nat off)] in
            match di_fail di with
            | Some k => (m, Err EReader, seek ++ write_if_nonempty (firstn k (di_content di)))
            | None =>
                let evs := seek ++ write_if_nonempty (di_content di) in
                let n := Z.of_nat (length (di_content di)) in
                let t' := match di_time di with
                          | Some z => if z =? zero_time then t else z
                          | None => t
                          end in
                if (128 <? length (di_name di))%nat then (m, Err ENameTooLarge, evs)
                else
                  match new_extra (d_extra slot) (di_md di) (di_content di) with
                  | inr e => (m, Err e, evs)
                  | inl extra =>
                      let d := mkD (di_type di) true (Z.of_nat i + 1)
                                   (Z.lor (di_group di) group_mask) (link_raw (di_link di))
                                   off n (off - unaligned + n) t' t' 0 0
                                   (pad_to 128 (di_name di)) extra in
                      let h' := mkH (h_launch h) (h_magic h) (h_version h) arch (h_id h)
                                    (h_ctime h) (h_mtime h) (h_free h - 1) (h_total h)
                                    (h_descoff h) (h_descsize h) (h_dataoff h)
                                    (ds + d_sizepad d) in
                      (mkM h' (set_nth i d rds)
                           (minid_note (d_group d) (d_id d) (m_minids m)),
                       Ok, evs)
                  end
            end
        end
  end.

Definition set_mtime (h : header) (t : Z) : header :=
  mkH (h_launch h) (h_magic h) (h_version h) (h_arch h) (h_id h) (h_ctime h) t
      (h_free h) (h_total h) (h_descoff h) (h_descsize h) (h_dataoff h) (h_datasize h).

Definition set_arch (h : header) (a : list byte) : header :=
  mkH (h_launch h) (h_magic h) (h_version h) a (h_id h) (h_ctime h) (h_mtime h)
      (h_free h) (h_total h) (h_descoff h) (h_descsize h) (h_dataoff h) (h_datasize h).

Definition set_free (h : header) (f : Z) : header :=
  mkH (h_launch h) (h_magic h) (h_version h) (h_arch h) (h_id h) (h_ctime h) (h_mtime h)
      f (h_total h) (h_descoff h) (h_descsize h) (h_dataoff h) (h_datasize h).

Definition set_datasize (h : header) (s : Z) : header :=
  mkH (h_launch h) (h_magic h) (h_version h) (h_arch h) (h_id h) (h_ctime h) (h_mtime h)
      (h_free h) (h_total h) (h_descoff h) (h_descsize h) (h_dataoff h) s.

(* the common tail of every mutator: write the table, stamp the header, write it *)
Definition finish (m : mem) (t : Z) (evs : list event) : mem * result * list event :=
  let h' := set_mtime (m_hdr m) t in
  (mkM h' (m_rds m) (m_minids m), Ok,
   evs ++ ev_table (m_hdr m) (m_rds m) ++ ev_header h').

(* FileImage.AddObject *)
Definition plan_add (m : mem) (di : dinput) (o : topt) (now : Z)
  : mem * result * list event :=
  let t := resolve_time (m_hdr m) o now in
  let i := first_unused (m_rds m) in
  match plan_write_object i di t m with
  | (m1, Ok, evs) => finish m1 t evs
  | (_, Err e, evs) => (m, Err e, evs)
  end.

(* ---------- create ---------- *)

Record copts := mkCO {
  co_launch : list byte;
  co_id : list byte;
  co_cap : Z;
  co_time : Z;
  co_dis : list dinput }.

Definition new_header (co : copts) : header :=
  mkH (pad_to 32 (co_launch co)) magic version_bytes arch_unknown (co_id co)
      (co_time co) (co_time co) (co_cap co) (co_cap co)
      default_descoff (585 * co_cap co) (default_descoff + 585 * co_cap co) 0.

Fixpoint create_objects (dis : list dinput) (i : nat) (t : Z) (m : mem) (evs : list event)
  : mem * result * list event :=
  match dis with
  | [] => (m, Ok, evs)
  | di :: r =>
      match plan_write_object i di t m with
      | (m1, Ok, e1) => create_objects r (S i) t m1 (evs ++ e1)
      | (_, Err e, e1) => (m, Err e, evs ++ e1)
      end
  end.

(* CreateContainer; None = no handle is returned *)
Definition plan_create (co : copts) : option mem * result * list event :=
  if (32 <=? length (co_launch co))%nat then (None, Err ELaunchLen, [])
  else if max_u32 <=? co_cap co then (None, Err ECapNotSupported, [])
  else
    let m0 := mkM (new_header co) (repeat zero_desc (Z.to_nat (co_cap co))) [] in
    match create_objects (co_dis co) 0 (co_time co) m0 [] with
    | (m1, Ok, evs) =>
        (Some m1, Ok, evs ++ ev_table (m_hdr m1) (m_rds m1) ++ ev_header (m_hdr m1))
    | (_, Err e, evs) => (None, Err e, evs)
    end.

(* the options of CreateContainer, applied in the order given to the defaults
   (random ID, capacity 48, time now); the clock reading and the random bytes
   are inputs *)
Inductive copt :=
| CODeterministic                       (* OptCreateDeterministic: nil ID, zero time *)
| COWithID (id : list byte)             (* OptCreateWithID *)
| COWithTime (t : Z)                    (* OptCreateWithTime *)
| COWithLaunch (l : list byte)          (* OptCreateWithLaunchScript *)
| COWithCapacity (n : Z)                (* OptCreateWithDescriptorCapacity *)
| COWithDescriptors (dis : list dinput). (* OptCreateWithDescriptors (appends) *)

Definition apply_copt (co : copts) (o : copt) : copts :=
  match o with
  | CODeterministic => mkCO (co_launch co) nil_uuid (co_cap co) zero_time (co_dis co)
  | COWithID id => mkCO (co_launch co) id (co_cap co) (co_time co) (co_dis co)
  | COWithTime t => mkCO (co_launch co) (co_id co) (co_cap co) t (co_dis co)
  | COWithLaunch l => mkCO l (co_id co) (co_cap co) (co_time co) (co_dis co)
  | COWithCapacity n => mkCO (co_launch co) (co_id co) n (co_time co) (co_dis co)
  | COWithDescriptors dis => mkCO (co_launch co) (co_id co) (co_cap co) (co_time co) (co_dis co ++ dis)
  end.

Definition resolve_copts (opts : list copt) (now : Z) (rnd : list byte) : copts :=
  fold_left apply_copt opts (mkCO [] rnd default_capacity now []).

(* ---------- delete ---------- *)

(* zero(): Seek(Offset) then CopyN of Size zero bytes (no Write when Size = 0) *)
Definition ev_zero (d : rdesc) : list event :=
  EvSeek (Z.to_nat (d_off d)) :: write_if_nonempty (zeros (Z.to_nat (d_size d))).

(* the second loop of DeleteObjects: delete every in-use descriptor the
   selector holds on (the first loop has established that the selector fails
   on none); returns the new header and descriptors, whether anything was
   deleted, and the calls issued *)
Fixpoint delete_loop (sel : selector) (zero : bool) (rds : list rdesc) (h : header)
         (evs : list event) : header * list rdesc * list event :=
  match rds with
  | [] => (h, [], evs)
  | d :: r =>
      if d_used d && (match sel_eval sel d with SMatch true => true | _ => false end) then
        let evs1 := if zero then evs ++ ev_zero d else evs in
        let h1 := set_free h (h_free h + 1) in
        let h2 := if is_partition_of_type d PartPrimSys then set_arch h1 arch_unknown else h1 in
        let '(h', r', e') := delete_loop sel zero r h2 evs1 in
        (h', zero_desc :: r', e')
      else
        let '(h', r', e') := delete_loop sel zero r h evs in
        (h', d :: r', e')
  end.

(* FileImage.DeleteObjects (after the "fix:" commits: objects are selected
   before anything is modified; minIDs recomputed; the storage is resized, not
   truncated, when compacting) *)
Definition plan_delete (m : mem) (sel : selector) (zero compact : bool) (o : topt) (now : Z)
  : mem * result * list event :=
  let t := resolve_time (m_hdr m) o now in
  match collect (sel_eval sel) (m_rds m) with
  | inr e => (m, Err e, [])
  | inl [] => (m, Err ENotFound, [])
  | inl _ =>
      let '(h1, rds1, evs) := delete_loop sel zero (m_rds m) (m_hdr m) [] in
      let mids := populate_minids rds1 in
      let h2 := set_mtime h1 t in
      let h3 := if compact then set_datasize h2 (calc_data_size h2 rds1) else h2 in
      let evs1 := if compact
                  then evs ++ [EvResize (Z.to_nat (h_dataoff h3 + h_datasize h3))]
                  else evs in
      (mkM h3 rds1 mids, Ok, evs1 ++ ev_table h3 rds1 ++ ev_header h3)
  end.

(* ---------- set ---------- *)

Definition set_extra_mtime (d : rdesc) (extra : list byte) (t : Z) : rdesc :=
  mkD (d_type d) (d_used d) (d_id d) (d_group d) (d_link d) (d_off d) (d_size d)
      (d_sizepad d) (d_ctime d) t (d_uid d) (d_gid d) (d_name d) extra.

(* p.Parttype = pt; d.setExtra(p) : re-marshal the partition record *)
Definition with_parttype (d : rdesc) (pt : Z) (t : Z) : rdesc :=
  set_extra_mtime d
    (pad_to 384 (enc_partition (part_fs (d_extra d)) pt (part_arch (d_extra d)))) t.

(* FileImage.SetPrimPart *)
Definition plan_setprim (m : mem) (id : Z) (o : topt) (now : Z)
  : mem * result * list event :=
  let t := resolve_time (m_hdr m) o now in
  match find_one (sel_eval (SID id)) (m_rds m) with
  | inr e => (m, Err e, [])
  | inl (i, d) =>
      if negb (d_type d =? DataPartition) then (m, Err ENotPartition, [])
      else if part_type (d_extra d) =? PartPrimSys then (m, Ok, [])
      else if negb (part_type (d_extra d) =? PartSystem) then (m, Err ENotSystem, [])
      else
        let demoted :=
          match find_one (sel_eval (SPartType PartPrimSys)) (m_rds m) with
          | inl (j, dj) => inl (set_nth j (with_parttype dj PartSystem t) (m_rds m))
          | inr ENotFound => inl (m_rds m)
          | inr e => inr e
          end in
        match demoted with
        | inr e => (m, Err e, [])
        | inl rds1 =>
            let rds2 := set_nth i (with_parttype d PartPrimSys t) rds1 in
            let h1 := m_hdr m in
            let h2 := set_mtime (set_arch h1 (part_arch (d_extra d))) t in
            (mkM h2 rds2 (m_minids m), Ok, ev_table h1 rds2 ++ ev_header h2)
        end
  end.

(* FileImage.SetMetadata *)
Definition plan_setmeta (m : mem) (id : Z) (md : metadata) (o : topt) (now : Z)
  : mem * result * list event :=
  let t := resolve_time (m_hdr m) o now in
  match find_one (sel_eval (SID id)) (m_rds m) with
  | inr e => (m, Err e, [])
  | inl (i, d) =>
      match new_extra (d_extra d) md [] with
      | inr e => (m, Err e, [])
      | inl extra =>
          finish (mkM (m_hdr m) (set_nth i (set_extra_mtime d extra t) (m_rds m)) (m_minids m))
                 t []
      end
  end.

(* FileImage.SetOCIBlobDigest; text is the marshalled "alg:hex" *)
Definition plan_setoci (m : mem) (id : Z) (text : list byte) (o : topt) (now : Z)
  : mem * result * list event :=
  match find_one (sel_eval (SID id)) (m_rds m) with
  | inr e => (m, Err e, [])
  | inl (i, d) =>
      if negb (is_oci_type (d_type d)) then (m, Err EUnexpectedType, [])
      else plan_setmeta m id (MdRaw text) o now
  end.

End WithDigest.

(* ---------- load ---------- *)

(* the bytes at [off, off+n) if they are all present (ReadAll of a section
   reader followed by the length check); guards keep nat conversions small *)
Definition zread (off n : Z) (st : store) : option (list byte) :=
  if (off <? 0) || (n <? 0) then None
  else if Z.of_nat (length st) <? off + n then None
  else Some (nread (Z.to_nat off) (Z.to_nat n) st).

(* loadContainer (after the "fix:" commit) *)
Definition load_image (st : store) : mem + err :=
  if (length st <? 128)%nat then inr EShortHeader
  else
    let h := dec_header (nread 0 128 st) in
    if negb (bytes_eqb (h_magic h) magic) then inr EInvalidMagic
    else if negb (bytes_eqb (h_version h) version_bytes) then inr EBadVersion
    else if (h_total h <? 0) || (h_descsize h <? 0) || (h_descsize h / 585 <? h_total h)
         then inr EBadCount
    else if h_total h =? 0 then inl (mkM h [] [])
    else if h_descoff h <? 0 then inr ENegOffset
    else
      match zread (h_descoff h) (h_total h * 585) st with
      | None => inr EShortTable
      | Some bs =>
          let rds := dec_table (Z.to_nat (h_total h)) bs in
          inl (mkM h rds (populate_minids rds))
      end.

(* ---------- reading data ---------- *)

(* Descriptor.GetData (after the "fix:" commit) *)
Definition get_data (d : rdesc) (st : store) : list byte + err :=
  if d_size d <? 0 then inr EBadSize
  else if d_size d =? 0 then inl []
  else if d_off d <? 0 then inr ENegOffset
  else match zread (d_off d) (d_size d) st with
       | Some bs => inl bs
       | None => inr EShortData
       end.

(* Descriptor.GetReader: an io.SectionReader over [Offset, Offset+Size); reading
   it to the end yields what is actually there (no error when the file is
   shorter); a negative offset makes the underlying ReadAt fail; a negative
   size is refused on first use (before the fix of F14 io.NewSectionReader's
   limit test wrapped: the section ran to the end of the file, and with a
   negative offset as well its Read panicked) *)
Definition section_bytes (d : rdesc) (st : store) : list byte + err :=
  if d_size d <? 0 then inr EBadSize
  else if d_size d =? 0 then inl []
  else if d_off d <? 0 then inr ENegOffset
  else if Z.of_nat (length st) <=? d_off d then inl []
  else inl (nread (Z.to_nat (d_off d))
                  (Z.to_nat (Z.min (d_size d) (Z.of_nat (length st) - d_off d))) st).

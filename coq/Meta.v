(* Meta.v — the typed attribute accessors of a descriptor (pkg/sif/descriptor.go:
   Name, GroupID, LinkedID, PartitionMetadata, SignatureMetadata,
   CryptoMessageMetadata, SBOMMetadata, OCIBlobDigest), the architecture tables
   of arch.go and the option encoders of descriptor_input.go
   (OptPartitionMetadata, OptSignatureMetadata, OptCryptoMessageMetadata,
   OptSBOMMetadata).  Definitions only; the facts are in MetaFacts.v.  Run
   against the implementation by the `QMeta` queries of Exec.v. *)
From Coq Require Import List ZArith Bool.
From Coq.Init Require Import Byte.
From Sif Require Import Bytes Store Format Image.
Import ListNotations.
Local Open Scope Z_scope.

(* strings.TrimRight(s, "\x00"): cut where everything that follows is NUL *)
Fixpoint trim_nul (bs : list byte) : list byte :=
  match bs with
  | [] => []
  | b :: r => if all_zero bs then [] else b :: trim_nul r
  end.

(* bytes.Cut(b, {0}): what precedes the first NUL *)
Fixpoint upto_nul (bs : list byte) : list byte :=
  match bs with
  | [] => []
  | b :: r => if Byte.eqb b x00 then [] else b :: upto_nul r
  end.

Definition name_of (d : rdesc) : list byte := trim_nul (d_name d).
Definition group_of (d : rdesc) : Z := group_of_raw (d_group d).
Definition linked_of (d : rdesc) : Z * bool := (group_of_raw (d_link d), raw_is_group (d_link d)).

(* arch.go: Go architecture name <-> three-byte code *)
Definition arch_names : list (list byte * list byte) :=
  [ ([x33; x38; x36], [x30; x31; x00]);                          (* 386 *)
    ([x61; x6d; x64; x36; x34], [x30; x32; x00]);                (* amd64 *)
    ([x61; x72; x6d], [x30; x33; x00]);                          (* arm *)
    ([x61; x72; x6d; x36; x34], [x30; x34; x00]);                (* arm64 *)
    ([x70; x70; x63; x36; x34], [x30; x35; x00]);                (* ppc64 *)
    ([x70; x70; x63; x36; x34; x6c; x65], [x30; x36; x00]);      (* ppc64le *)
    ([x6d; x69; x70; x73], [x30; x37; x00]);                     (* mips *)
    ([x6d; x69; x70; x73; x6c; x65], [x30; x38; x00]);           (* mipsle *)
    ([x6d; x69; x70; x73; x36; x34], [x30; x39; x00]);           (* mips64 *)
    ([x6d; x69; x70; x73; x36; x34; x6c; x65], [x31; x30; x00]); (* mips64le *)
    ([x73; x33; x39; x30; x78], [x31; x31; x00]);                (* s390x *)
    ([x72; x69; x73; x63; x76; x36; x34], [x31; x32; x00]) ].    (* riscv64 *)

Definition name_unknown : list byte := [x75; x6e; x6b; x6e; x6f; x77; x6e].   (* "unknown" *)

(* getSIFArch *)
Definition get_sif_arch (name : list byte) : list byte :=
  match find (fun p => bytes_eqb (fst p) name) arch_names with
  | Some p => snd p
  | None => arch_unknown
  end.

(* archType.GoArch *)
Definition go_arch (code : list byte) : list byte :=
  match find (fun p => bytes_eqb (snd p) code) arch_names with
  | Some p => fst p
  | None => name_unknown
  end.

(* sifHashType / getHashType: crypto.Hash numbers 5 SHA256, 6 SHA384, 7 SHA512,
   16 BLAKE2s_256, 17 BLAKE2b_256 <-> SIF hash types 1..5 *)
Definition hash_pairs : list (Z * Z) := [(5, 1); (6, 2); (7, 3); (16, 4); (17, 5)].

Definition sif_hash_type (h : Z) : Z :=
  match find (fun p => fst p =? h) hash_pairs with Some p => snd p | None => 0 end.

Definition get_hash_type (ht : Z) : option Z :=
  match find (fun p => snd p =? ht) hash_pairs with Some p => Some (fst p) | None => None end.

(* ---------- option encoders (what MarshalBinary yields) ---------- *)

(* signature{Hashtype; Entity [256]byte} with copy(Entity[:], fp) *)
Definition enc_signature (ht : Z) (fp : list byte) : list byte := le_enc 4 ht ++ pad_to 256 fp.
Definition enc_crypto (ft mt : Z) : list byte := le_enc 4 ft ++ le_enc 4 mt.
Definition enc_sbom (f : Z) : list byte := le_enc 4 f.

(* the options, as the `metadata` a descriptor input carries; None = the option refuses
   (wrong data type, unknown architecture) *)
Definition opt_partition (t fs pt : Z) (arch_name : list byte) : option metadata :=
  if negb (t =? DataPartition) then None
  else let a := get_sif_arch arch_name in
       if bytes_eqb a arch_unknown then None else Some (MdPart fs pt a).
Definition opt_signature (t h : Z) (fp : list byte) : option metadata :=
  if t =? DataSignature then Some (MdRaw (enc_signature (sif_hash_type h) fp)) else None.
Definition opt_crypto (t ft mt : Z) : option metadata :=
  if t =? DataCryptoMessage then Some (MdRaw (enc_crypto ft mt)) else None.
Definition opt_sbom (t f : Z) : option metadata :=
  if t =? DataSBOM then Some (MdRaw (enc_sbom f)) else None.

(* ---------- accessors ---------- *)

Inductive merr := MWrongType | MHashUnsupported | MBadDigest.

Definition partition_metadata (d : rdesc) : (Z * Z * list byte) + merr :=
  if d_type d =? DataPartition
  then inl (part_fs (d_extra d), part_type (d_extra d), go_arch (part_arch (d_extra d)))
  else inr MWrongType.

Definition signature_metadata (d : rdesc) : (Z * option (list byte)) + merr :=
  if d_type d =? DataSignature then
    match get_hash_type (sig_hashtype (d_extra d)) with
    | Some h => inl (h, sig_fingerprint (d_extra d))
    | None => inr MHashUnsupported
    end
  else inr MWrongType.

Definition crypto_metadata (d : rdesc) : (Z * Z) + merr :=
  if d_type d =? DataCryptoMessage
  then inl (sle_dec (nread 0 4 (d_extra d)), sle_dec (nread 4 4 (d_extra d)))
  else inr MWrongType.

Definition sbom_metadata (d : rdesc) : Z + merr :=
  if d_type d =? DataSBOM then inl (sle_dec (nread 0 4 (d_extra d))) else inr MWrongType.

(* OCIBlobDigest: the text before the first NUL must be "sha256:" + 64 lower-case hex digits
   (v1.Hash.UnmarshalText) *)
Definition oci_digest (d : rdesc) : list byte + merr :=
  if (d_type d =? DataOCIRootIndex) || (d_type d =? DataOCIBlob) then
    let t := upto_nul (d_extra d) in
    if valid_digest_text t then inl t else inr MBadDigest
  else inr MWrongType.

(* ---------- everything at once, as numbers and byte strings (the QMeta answer) ---------- *)

Definition merr_code {A} (r : A + merr) : Z :=
  match r with inl _ => 0 | inr MWrongType => 1 | inr MHashUnsupported => 2 | inr MBadDigest => 3 end.

Record mview := mkMV {
  mv_name : list byte;
  mv_nums : list Z;       (* type, group, link, link-is-group, offset, size, ctime, mtime,
                             partition err, fs, part type, signature err, hash, fingerprint present,
                             crypto err, format, message, sbom err, sbom format, digest err *)
  mv_arch : list byte;
  mv_fp : list byte;
  mv_digest : list byte }.

Definition meta_view (d : rdesc) : mview :=
  let p := partition_metadata d in
  let s := signature_metadata d in
  let c := crypto_metadata d in
  let b := sbom_metadata d in
  let o := oci_digest d in
  mkMV (name_of d)
       ([ d_type d; group_of d; fst (linked_of d); if snd (linked_of d) then 1 else 0;
          d_off d; d_size d; d_ctime d; d_mtime d ] ++
        (match p with inl (fs, pt, _) => [0; fs; pt] | inr _ => [merr_code p; 0; 0] end) ++
        (match s with
         | inl (h, fp) => [0; h; match fp with Some _ => 1 | None => 0 end]
         | inr _ => [merr_code s; 0; 0]
         end) ++
        (match c with inl (f, m) => [0; f; m] | inr _ => [merr_code c; 0; 0] end) ++
        (match b with inl f => [0; f] | inr _ => [merr_code b; 0] end) ++
        [merr_code o])
       (match p with inl (_, _, a) => a | inr _ => [] end)
       (match s with inl (_, Some fp) => fp | _ => [] end)
       (match o with inl t => t | inr _ => [] end).

(* ---------- header accessors (sif.go: LaunchScript, Version, PrimaryArch, ID, times, section bounds) ---------- *)

Definition launch_of (h : header) : list byte := trim_nul (h_launch h).
Definition version_of (h : header) : list byte := trim_nul (h_version h).
Definition primary_arch (h : header) : list byte := go_arch (h_arch h).

Record hview := mkHV {
  hv_launch : list byte; hv_version : list byte; hv_arch : list byte; hv_id : list byte;
  hv_nums : list Z }.     (* ctime, mtime, free, total, descoff, descsize, dataoff, datasize *)

Definition header_view (h : header) : hview :=
  mkHV (launch_of h) (version_of h) (primary_arch h) (h_id h)
       [h_ctime h; h_mtime h; h_free h; h_total h; h_descoff h; h_descsize h; h_dataoff h; h_datasize h].

(* Refine.v — C02: every operation of the library, on any state satisfying the
   image invariant, does on the abstract view exactly what the reference model
   (Abstract.v) does: same result, and the abstraction of the new state is the
   reference model's new state. *)
From Coq Require Import List ZArith Lia Bool.
From Coq.Init Require Import Byte.
From Sif Require Import Bytes BytesFacts Store StoreFacts Format FormatFacts Image ImageFacts Machine
     SelectFacts AlignFacts Inv InvCommon InvSet InvDelete InvAdd InvLoad InvCreate LoadFacts Persist Reach C02Facts Abstract.
Import ListNotations.
Local Open Scope Z_scope.

(* ---------- erasing the place in the file changes nothing the model looks at ---------- *)

Lemma sel_eval_erase s d : sel_eval s (erase d) = sel_eval s d.
Proof. destruct s; reflexivity. Qed.

Lemma multi_eval_erase sels d : multi_eval sels (erase d) = multi_eval sels d.
Proof. induction sels as [|s r IH]; cbn [multi_eval]; [reflexivity|]. now rewrite sel_eval_erase, IH. Qed.

Lemma first_unused_erase rds : first_unused (map erase rds) = first_unused rds.
Proof. induction rds as [|d r IH]; cbn [map first_unused]; [reflexivity|]. cbn [erase d_used]. now rewrite IH. Qed.

Lemma collect_erase sel rds :
  collect (sel_eval sel) (map erase rds) =
  match collect (sel_eval sel) rds with inl l => inl (map erase l) | inr e => inr e end.
Proof.
  induction rds as [|d r IH]; cbn [map collect]; [reflexivity|].
  cbn [erase d_used]. fold (erase d). rewrite sel_eval_erase, IH.
  destruct (negb (d_used d)); [reflexivity|].
  destruct (sel_eval sel d) as [[|]|e]; try reflexivity.
  destruct (collect (sel_eval sel) r); reflexivity.
Qed.

Lemma find_one_from_erase f rds i acc :
  (forall d, f (erase d) = f d) ->
  find_one_from f (map erase rds) i (option_map (fun p => (fst p, erase (snd p))) acc) =
  match find_one_from f rds i acc with inl (j, d) => inl (j, erase d) | inr e => inr e end.
Proof.
  intro Hf. revert i acc. induction rds as [|d r IH]; intros i acc; cbn [map find_one_from].
  - destruct acc as [[j x]|]; reflexivity.
  - cbn [erase d_used]. fold (erase d). rewrite Hf.
    destruct (negb (d_used d)); [apply IH|].
    destruct (f d) as [[|]|e]; [|apply IH|reflexivity].
    destruct acc as [[j x]|]; cbn [option_map]; [reflexivity|].
    apply (IH (S i) (Some (i, d))).
Qed.

Lemma find_one_erase sel rds :
  find_one (sel_eval sel) (map erase rds) =
  match find_one (sel_eval sel) rds with inl (j, d) => inl (j, erase d) | inr e => inr e end.
Proof. unfold find_one. apply (find_one_from_erase _ rds 0 None). apply sel_eval_erase. Qed.

Lemma existsb_erase (f : rdesc -> bool) rds : (forall d, f (erase d) = f d) -> existsb f (map erase rds) = existsb f rds.
Proof. intro H. induction rds as [|d r IH]; cbn [map existsb]; [reflexivity|]. now rewrite H, IH. Qed.

Lemma resolve_time_abs h o now : a_resolve_time (abs_hdr h) o now = resolve_time h o now.
Proof. reflexivity. Qed.

Lemma a_descs_abs s : a_descs (abs s) = map erase (m_rds (s_mem s)).
Proof. unfold a_descs, abs. cbn [as_slots]. rewrite map_map. reflexivity. Qed.

Lemma filter_len_le_r {A} (f : A -> bool) l : (length (filter f l) <= length l)%nat.
Proof. induction l as [|x l IH]; cbn; [lia|]. destruct (f x); cbn; lia. Qed.

Lemma has_primary_abs m :
  wf_mem m -> has_primary m = existsb (fun d => d_used d && is_partition_of_type d PartPrimSys) (m_rds m).
Proof.
  intro W. unfold has_primary. destruct (Z.eqb_spec (h_free (m_hdr m)) (h_total (m_hdr m))) as [E|]; [|reflexivity].
  symmetry. apply not_true_is_false. intro H. apply existsb_exists in H as (d & Hin & Hd).
  apply andb_true_iff in Hd as [Hu _].
  rewrite (wf_free _ W), (wf_total _ W) in E.
  assert (count_unused (m_rds m) < length (m_rds m))%nat; [|lia].
  clear - Hin Hu. induction (m_rds m) as [|x r IH]; [contradiction|]. unfold count_unused in *. cbn [filter length].
  destruct Hin as [->|Hin].
  - rewrite Hu. cbn [negb]. pose proof (filter_len_le_r (fun d => negb (d_used d)) r). lia.
  - specialize (IH Hin). destruct (negb (d_used x)); cbn [length]; lia.
Qed.

(* ---------- helpers on the slot row ---------- *)

Lemma obj_content_live m st i d :
  wf_mem m -> coherent m st -> used_at (m_rds m) i d ->
  obj_content d st = nread (Z.to_nat (d_off d)) (Z.to_nat (d_size d)) st.
Proof. intros _ _ [_ U]. unfold obj_content. now rewrite U. Qed.

Lemma map_nth_error_ext {A B} (f g : A -> B) (l l' : list A) :
  length l = length l' ->
  (forall j x y, nth_error l j = Some x -> nth_error l' j = Some y -> f x = g y) ->
  map f l = map g l'.
Proof.
  revert l'. induction l as [|x l IH]; intros [|y l'] L H; try discriminate; [reflexivity|].
  cbn [map]. f_equal.
  - apply (H O x y); reflexivity.
  - apply IH; [cbn in L; lia|]. intros j a b Ha Hb. apply (H (S j) a b); assumption.
Qed.

Lemma map_set_nth_slots {A B} (f : A -> B) i x l : map f (set_nth i x l) = set_nth i (f x) (map f l).
Proof.
  revert i. induction l as [|y l IH]; intros [|i]; cbn [set_nth map]; try reflexivity. now rewrite IH.
Qed.

Lemma run_events_total b evs io :
  Forall (fun ev => match ev with EvTrunc _ => False | _ => True end) evs ->
  exists io', run_events b evs io = (io', true).
Proof.
  revert io. induction evs as [|ev r IH]; intros io F; cbn [run_events]; [eauto|].
  pose proof (Forall_inv F) as H. pose proof (Forall_inv_tail F) as F'.
  destruct b; cbn [backend_apply].
  - apply IH. exact F'.
  - destruct ev; cbn [buf_apply]; try contradiction; try (apply IH; exact F').
    destruct (Nat.ltb _ _); [apply IH; exact F'|]. destruct (Nat.ltb _ _); apply IH; exact F'.
Qed.

Section Refinement.

Variable sha256 : list byte -> list byte.
Variable sha_len : forall c, length (sha256 c) = 32%nat.

(* a state with the same handle and, for every live object, the same bytes has the same abstraction *)
Lemma abs_same_objects s s' :
  s_mem s' = s_mem s ->
  (forall i d, used_at (m_rds (s_mem s)) i d ->
     nread (Z.to_nat (d_off d)) (Z.to_nat (d_size d)) (f_bytes (s_io s')) =
     nread (Z.to_nat (d_off d)) (Z.to_nat (d_size d)) (f_bytes (s_io s))) ->
  abs s' = abs s.
Proof.
  intros Em Hb. unfold abs. rewrite Em. f_equal.
  apply map_nth_error_ext; [reflexivity|]. intros j x y Hx Hy. rewrite Hx in Hy. injection Hy as <-.
  f_equal. unfold obj_content. destruct (d_used x) eqn:U; [|reflexivity]. apply (Hb j x). split; assumption.
Qed.


(* ----- AddObject ----- *)

Lemma next_aligned_fits m di :
  wf_mem m -> add_fits m di -> exists off, next_aligned (data_end (m_hdr m) (m_rds m)) (di_align di) = Some off.
Proof.
  intros W Fit. unfold add_fits in Fit.
  pose proof (data_end_bound m W) as [B0 _].
  destruct (next_aligned (data_end (m_hdr m) (m_rds m)) (di_align di)) as [off|] eqn:A; [eauto|].
  exfalso. pose proof (wf_bound _ W) as Wb. pose proof (data_end_bound m W) as [_ B1].
  apply next_aligned_none in A; [|unfold max_i64; lia].
  destruct A as (Ha & _ & Hm). unfold max_i64 in Hm.
  pose proof (Z.mod_pos_bound (data_end (m_hdr m) (m_rds m)) (di_align di) Ha).
  pose proof (Zle_0_nat (length (di_content di))). lia.
Qed.

Theorem add_refines s di o now s' r :
  Inv s -> wf_op s (OpAdd di o now) -> step sha256 s (OpAdd di o now) = (s', r) ->
  a_step sha256 (abs s) (OpAdd di o now) = (abs s', r).
Proof.
  intros I Wo St. pose proof Wo as (Tm & Wd & Fit). destruct I as [W C]. assert (I : Inv s) by (split; assumption).
  cbn [a_step]. unfold a_add. rewrite a_descs_abs, first_unused_erase.
  change (as_hdr (abs s)) with (abs_hdr (m_hdr (s_mem s))). rewrite resolve_time_abs.
  change (as_slots (abs s)) with (map (fun d => (erase d, obj_content d (f_bytes (s_io s)))) (m_rds (s_mem s))).
  rewrite nth_error_map.
  set (m := s_mem s) in *. set (st := f_bytes (s_io s)) in *.
  set (i := first_unused (m_rds m)). set (t := resolve_time (m_hdr m) o now).
  (* what the library decides, step by step *)
  destruct (add_inv sha256 sha_len s di o now s' r I Tm Wd Fit St) as (I' & _ & Fr & Rej & Acc).
  assert (Same : r <> Ok -> abs s' = abs s).
  { intro Hr. destruct (rejected_changes_nothing sha256 sha_len s _ s' r I Wo St Hr) as (Em & _ & _ & Hb).
    now apply abs_same_objects. }
  unfold step in St. cbn [plan_op] in St. unfold plan_add in St. cbv zeta in St. fold m i t in St.
  unfold plan_write_object in St. cbv zeta in St.
  destruct (nth_error (m_rds m) i) as [slot|] eqn:N; cbn [option_map].
  2:{ unfold exec in St. cbn [run_events] in St. injection St as <- <-. now rewrite Same by discriminate. }
  cbn [erase d_extra fst]. fold (erase slot).
  destruct (max_u32 <=? Z.of_nat i) eqn:Ov.
  { unfold exec in St. cbn [run_events] in St. injection St as <- <-. now rewrite Same by discriminate. }
  assert (HP : a_has_primary (abs s) = has_primary m).
  { unfold a_has_primary. rewrite a_descs_abs, (has_primary_abs m W). apply existsb_erase. intro d. reflexivity. }
  rewrite HP.
  destruct ((match di_md di with MdPart _ pt _ => pt =? PartPrimSys | _ => false end) && has_primary m) eqn:Pr.
  { unfold exec in St. cbn [run_events] in St. injection St as <- <-. now rewrite Same by discriminate. }
  unfold calc_data_size in St.
  replace (h_dataoff (m_hdr m) + (data_end (m_hdr m) (m_rds m) - h_dataoff (m_hdr m)))
    with (data_end (m_hdr m) (m_rds m)) in St by lia.
  destruct (next_aligned_fits m di W Fit) as [off Al]. rewrite Al in St.
  destruct (di_fail di) as [k|] eqn:Fl.
  { unfold exec in St.
    destruct (run_write_if_nonempty (s_backend s) (Z.to_nat off) (firstn k (di_content di)) (s_io s)) as [p Rw].
    cbn [app] in St. rewrite Rw in St. injection St as <- <-. now rewrite Same by discriminate. }
  (* the remaining refusals happen after the content has been copied *)
  assert (Rw : forall bs m0 e, exists io',
             exec (s_backend s) (s_io s) (m0, Err e, [EvSeek (Z.to_nat off)] ++ write_if_nonempty bs) = (m0, Err e, io')).
  { intros bs m0 e. unfold exec. cbn [app].
    destruct (run_write_if_nonempty (s_backend s) (Z.to_nat off) bs (s_io s)) as [p ->]. eauto. }
  destruct (Nat.ltb_spec 128 (length (di_name di))) as [Hn|Hn].
  { destruct (Rw (di_content di) m ENameTooLarge) as [io' E]. rewrite E in St. injection St as <- <-.
    now rewrite Same by discriminate. }
  destruct (new_extra sha256 (d_extra slot) (di_md di) (di_content di)) as [extra|e] eqn:X.
  2:{ destruct (Rw (di_content di) m e) as [io' E]. rewrite E in St. injection St as <- <-.
      now rewrite Same by discriminate. }
  (* accepted *)
  unfold finish in St. cbn [m_hdr m_rds m_minids] in St.
  match type of St with context [exec _ _ (?mm, Ok, ?ee)] => set (m' := mm) in St; set (evs := ee) in St end.
  assert (Tot : exists io', run_events (s_backend s) evs (s_io s) = (io', true)).
  { apply run_events_total. unfold evs, ev_table, ev_header.
    repeat (apply Forall_app; split); try (repeat constructor).
    destruct (di_content di); repeat constructor. }
  destruct Tot as [io' Tot]. unfold exec in St. rewrite Tot in St. injection St as <- <-.
  destruct (Acc eq_refl) as (slot2 & off2 & extra2 & N2 & Al2 & X2 & _ & _ & _ & Content). clear Acc.
  fold m i in N2, Al2, X2. cbn [s_io f_bytes] in Content, Fr.
  rewrite N in N2. injection N2 as <-. rewrite Al in Al2. injection Al2 as <-.
  rewrite X in X2. injection X2 as <-.
  f_equal. unfold abs. cbn [s_mem s_io m_hdr m_rds m']. f_equal.
  rewrite map_set_nth_slots. f_equal.
  - (* the new object *)
    f_equal. unfold obj_content. cbn [d_used d_off d_size]. rewrite Nat2Z.id. symmetry. exact Content.
  - (* every other slot *)
    apply map_nth_error_ext; [reflexivity|]. intros j x y Hx Hy. rewrite Hx in Hy. injection Hy as <-.
    f_equal. unfold obj_content. destruct (d_used x) eqn:U; [|reflexivity].
    destruct (Z_lt_le_dec 0 (d_size x)) as [Sp|Sz]; [|replace (Z.to_nat (d_size x)) with O by lia; reflexivity].
    pose proof (coh_infile _ _ C j x (conj Hx U) Sp) as Inf.
    destruct (wf_layout _ W j x (conj Hx U)) as (L1 & L2 & L3).
    pose proof (data_end_member (m_hdr m) (m_rds m) x (nth_error_In _ _ Hx) U).
    pose proof (wf_dataoff _ W). pose proof (wf_descoff _ W). pose proof (wf_descsize _ W). pose proof (wf_total _ W).
    symmetry. apply Fr; fold m st; lia.
Qed.


(* ----- DeleteObjects ----- *)

Lemma state_eta s : mkS (s_mem s) (s_io s) (s_backend s) = s.
Proof. destruct s; reflexivity. Qed.

Theorem delete_refines s sel zero compact o now s' r :
  Inv s -> wf_op s (OpDelete sel zero compact o now) ->
  step sha256 s (OpDelete sel zero compact o now) = (s', r) ->
  a_step sha256 (abs s) (OpDelete sel zero compact o now) = (abs s', r).
Proof.
  intros I Tm St. cbn [wf_op] in Tm.
  destruct (delete_inv sha256 s sel zero compact o now s' r I Tm St) as (I' & Rej & Acc).
  destruct I as [W C].
  cbn [a_step]. unfold a_delete. rewrite a_descs_abs, collect_erase.
  change (as_hdr (abs s)) with (abs_hdr (m_hdr (s_mem s))). rewrite resolve_time_abs.
  change (as_slots (abs s)) with (map (fun d => (erase d, obj_content d (f_bytes (s_io s)))) (m_rds (s_mem s))).
  set (m := s_mem s) in *. set (t := resolve_time (m_hdr m) o now).
  unfold step in St. cbn [plan_op] in St. unfold plan_delete in St. cbv zeta in St. fold m t in St.
  destruct (collect (sel_eval sel) (m_rds m)) as [[|d0 l0]|e] eqn:Col.
  - unfold exec in St. cbn [run_events] in St. injection St as <- <-. reflexivity.
  - cbn [map].
    pose proof (delete_loop_spec sel zero (m_rds m) (m_hdr m) []) as LS.
    destruct (delete_loop sel zero (m_rds m) (m_hdr m) []) as [[h1 rds1] ev0].
    destruct LS as (E1 & E2 & E3 & E4 & E5 & E6 & E7 & E8 & E9 & E10 & E11 & E12 & E13 & E14 & E15).
    set (h2 := set_mtime h1 t) in *.
    set (h3 := if compact then set_datasize h2 (calc_data_size h2 rds1) else h2) in *.
    match type of St with context [exec _ _ (?mm, Ok, ?ee)] => set (m' := mm) in St; set (evs := ee) in St end.
    assert (Tot : exists io', run_events (s_backend s) evs (s_io s) = (io', true)).
    { apply run_events_total. unfold evs, ev_table, ev_header.
      assert (Z0 : Forall (fun ev => match ev with EvTrunc _ => False | _ => True end) ev0).
      { rewrite E2. cbn [app]. destruct zero; [|constructor]. apply Forall_forall. intros ev Hev.
        apply in_flat_map in Hev as (d & _ & Hd). unfold ev_zero in Hd. destruct Hd as [<-|Hd]; [exact Logic.I|].
        destruct (zeros (Z.to_nat (d_size d))); cbn in Hd; [contradiction|]. destruct Hd as [<-|[]]. exact Logic.I. }
      destruct compact; repeat (apply Forall_app; split); try exact Z0; repeat constructor. }
    destruct Tot as [io' Tot]. unfold exec in St. rewrite Tot in St. injection St as <- <-.
    destruct (Acc eq_refl) as (_ & Surv & _). cbn [s_mem s_io f_bytes m_rds m'] in Surv.
    f_equal. unfold abs. cbn [s_mem s_io m_hdr m_rds m' f_bytes]. f_equal.
    + (* header *)
      assert (Ah : abs_hdr h3 = mkAH (h_launch (m_hdr m)) (h_id (m_hdr m)) (h_arch h1) (h_ctime (m_hdr m)) t).
      { unfold h3, h2. destruct compact; unfold abs_hdr; cbn; congruence. }
      rewrite Ah, E4. unfold any_primary_deleted.
      rewrite (existsb_erase (fun d => a_del sel d && is_partition_of_type d PartPrimSys)).
      2:{ intro d. unfold a_del. rewrite sel_eval_erase. reflexivity. }
      change (fun d => a_del sel d && is_partition_of_type d PartPrimSys)
        with (fun d => del sel d && is_partition_of_type d PartPrimSys).
      destruct (existsb _ (m_rds m)); reflexivity.
    + (* slots *)
      rewrite E1. unfold after_del. rewrite !map_map.
      apply map_nth_error_ext; [reflexivity|]. intros j x y Hx Hy. rewrite Hx in Hy. injection Hy as <-.
      cbn [fst]. unfold a_del. rewrite sel_eval_erase. cbn [erase d_used]. fold (del sel x).
      destruct (del sel x) eqn:D; [reflexivity|].
      f_equal. unfold obj_content. destruct (d_used x) eqn:U; [|reflexivity].
      symmetry. apply (Surv j). rewrite E1. apply used_at_survives; [split; assumption | exact D].
  - unfold exec in St. cbn [run_events] in St. injection St as <- <-. reflexivity.
Qed.


(* ----- the set operations ----- *)

Lemma map_slots_set_nth rds st st' i d d2 :
  nth_error rds i = Some d -> d_used d2 = d_used d -> d_off d2 = d_off d -> d_size d2 = d_size d ->
  (forall j x, nth_error rds j = Some x -> d_used x = true ->
     nread (Z.to_nat (d_off x)) (Z.to_nat (d_size x)) st' = nread (Z.to_nat (d_off x)) (Z.to_nat (d_size x)) st) ->
  map (fun x => (erase x, obj_content x st')) (set_nth i d2 rds) =
  set_nth i (erase d2, obj_content d st) (map (fun x => (erase x, obj_content x st)) rds).
Proof.
  intros N Hu Ho Hs Fr. rewrite map_set_nth_slots. f_equal.
  - f_equal. unfold obj_content. rewrite Hu, Ho, Hs. destruct (d_used d) eqn:U; [|reflexivity]. now apply (Fr i).
  - apply map_nth_error_ext; [reflexivity|]. intros j x y Hx Hy. rewrite Hx in Hy. injection Hy as <-.
    f_equal. unfold obj_content. destruct (d_used x) eqn:U; [|reflexivity]. now apply (Fr j).
Qed.

(* the frame the set operations give, restricted to the live objects *)
Lemma live_frame s s' :
  Inv s ->
  (forall a n, (a + n <= length (f_bytes (s_io s)))%nat ->
               (Z.to_nat (h_dataoff (m_hdr (s_mem s))) <= a)%nat ->
               nread a n (f_bytes (s_io s')) = nread a n (f_bytes (s_io s))) ->
  forall j x, nth_error (m_rds (s_mem s)) j = Some x -> d_used x = true ->
    nread (Z.to_nat (d_off x)) (Z.to_nat (d_size x)) (f_bytes (s_io s')) =
    nread (Z.to_nat (d_off x)) (Z.to_nat (d_size x)) (f_bytes (s_io s)).
Proof.
  intros [W C] Fr j x N U.
  destruct (Z_lt_le_dec 0 (d_size x)) as [Sp|Sz]; [|replace (Z.to_nat (d_size x)) with O by lia; reflexivity].
  pose proof (coh_infile _ _ C j x (conj N U) Sp). destruct (wf_layout _ W j x (conj N U)) as (L1 & _).
  pose proof (wf_dataoff _ W). pose proof (wf_descoff _ W). pose proof (wf_descsize _ W). pose proof (wf_total _ W).
  apply Fr; lia.
Qed.

Lemma a_update_abs s i d f :
  nth_error (m_rds (s_mem s)) i = Some d ->
  a_update (abs s) i f =
  set_nth i (f (erase d), obj_content d (f_bytes (s_io s)))
          (map (fun x => (erase x, obj_content x (f_bytes (s_io s)))) (m_rds (s_mem s))).
Proof.
  intro N. unfold a_update.
  change (as_slots (abs s)) with (map (fun x => (erase x, obj_content x (f_bytes (s_io s)))) (m_rds (s_mem s))).
  rewrite nth_error_map, N. reflexivity.
Qed.

Lemma table_header_total b h rds' h' io :
  exists io', run_events b ([] ++ ev_table h rds' ++ ev_header h') io = (io', true).
Proof. apply run_events_total. unfold ev_table, ev_header. cbn [app]. repeat constructor. Qed.

Theorem setmeta_refines s id md o now s' r :
  Inv s -> wf_op s (OpSetMeta id md o now) ->
  step sha256 s (OpSetMeta id md o now) = (s', r) ->
  a_step sha256 (abs s) (OpSetMeta id md o now) = (abs s', r).
Proof.
  intros I [Tm Hmd] St.
  destruct (setmeta_inv sha256 sha_len s id md o now s' r I Tm Hmd St) as (_ & _ & Fr).
  pose proof (live_frame s s' I Fr) as LF.
  cbn [a_step]. unfold a_setmeta. rewrite a_descs_abs, find_one_erase.
  change (as_hdr (abs s)) with (abs_hdr (m_hdr (s_mem s))). rewrite resolve_time_abs.
  unfold step in St. cbn [plan_op] in St. unfold plan_setmeta in St.
  set (t := resolve_time (m_hdr (s_mem s)) o now) in *.
  destruct (find_one (sel_eval (SID id)) (m_rds (s_mem s))) as [[i d]|e] eqn:F.
  2:{ unfold exec in St. cbn [run_events] in St. injection St as <- <-. reflexivity. }
  cbn [erase d_extra]. fold (erase d).
  destruct (new_extra sha256 (d_extra d) md []) as [extra|e] eqn:X.
  2:{ unfold exec in St. cbn [run_events] in St. injection St as <- <-. reflexivity. }
  pose proof (find_one_used _ _ _ _ F) as [N U].
  unfold finish in St. cbn [m_hdr m_rds m_minids] in St. unfold exec in St.
  destruct (table_header_total (s_backend s) (m_hdr (s_mem s))
              (set_nth i (set_extra_mtime d extra t) (m_rds (s_mem s))) (set_mtime (m_hdr (s_mem s)) t) (s_io s)) as [io' Tot].
  rewrite Tot in St. injection St as <- <-. f_equal.
  unfold abs at 2. cbn [s_mem s_io m_hdr m_rds f_bytes]. f_equal.
  rewrite (a_update_abs s i d _ N).
  symmetry. apply map_slots_set_nth; try reflexivity; [exact N|].
  intros j x Hx Ux. apply (LF j x Hx Ux).
Qed.

Theorem setoci_refines s id text o now s' r :
  Inv s -> wf_op s (OpSetOCI id text o now) ->
  step sha256 s (OpSetOCI id text o now) = (s', r) ->
  a_step sha256 (abs s) (OpSetOCI id text o now) = (abs s', r).
Proof.
  intros I Tm St. cbn [wf_op] in Tm.
  cbn [a_step]. unfold a_setoci. rewrite a_descs_abs, find_one_erase.
  pose proof St as St0. unfold step in St. cbn [plan_op] in St. unfold plan_setoci in St.
  destruct (find_one (sel_eval (SID id)) (m_rds (s_mem s))) as [[i d]|e] eqn:F.
  2:{ unfold exec in St. cbn [run_events] in St. injection St as <- <-. reflexivity. }
  cbn [erase d_type].
  destruct (negb (is_oci_type (d_type d))) eqn:T.
  { unfold exec in St. cbn [run_events] in St. injection St as <- <-. reflexivity. }
  apply (setmeta_refines s id (MdRaw text) o now s' r I (conj Tm Logic.I)).
  unfold step. cbn [plan_op]. exact St.
Qed.


Theorem setprim_refines s id o now s' r :
  Inv s -> wf_op s (OpSetPrim id o now) ->
  step sha256 s (OpSetPrim id o now) = (s', r) ->
  a_step sha256 (abs s) (OpSetPrim id o now) = (abs s', r).
Proof.
  intros I Tm St. cbn [wf_op] in Tm.
  destruct (setprim_inv sha256 s id o now s' r I Tm St) as (_ & _ & Fr).
  pose proof (live_frame s s' I Fr) as LF.
  cbn [a_step]. unfold a_setprim. rewrite a_descs_abs, !find_one_erase.
  change (as_hdr (abs s)) with (abs_hdr (m_hdr (s_mem s))). rewrite resolve_time_abs.
  unfold step in St. cbn [plan_op] in St. unfold plan_setprim in St.
  set (t := resolve_time (m_hdr (s_mem s)) o now) in *.
  set (rds := m_rds (s_mem s)) in *. set (st := f_bytes (s_io s)) in *.
  destruct (find_one (sel_eval (SID id)) rds) as [[i d]|e] eqn:F.
  2:{ unfold exec in St. cbn [run_events] in St. injection St as <- <-. reflexivity. }
  cbn [erase d_type d_extra]. fold (erase d).
  destruct (negb (d_type d =? DataPartition)).
  { unfold exec in St. cbn [run_events] in St. injection St as <- <-. reflexivity. }
  destruct (part_type (d_extra d) =? PartPrimSys) eqn:Pp.
  { unfold exec in St. cbn [run_events] in St. injection St as <- <-. reflexivity. }
  destruct (negb (part_type (d_extra d) =? PartSystem)).
  { unfold exec in St. cbn [run_events] in St. injection St as <- <-. reflexivity. }
  pose proof (find_one_used _ _ _ _ F) as [Ni Ui].
  destruct (find_one (sel_eval (SPartType PartPrimSys)) rds) as [[j dj]|e] eqn:F2.
  - pose proof (find_one_used _ _ _ _ F2) as [Nj Uj]. pose proof (find_one_prim _ _ _ F2) as Pj.
    assert (Nij : i <> j).
    { intro; subst j. assert (dj = d) by congruence. subst dj.
      unfold is_partition_of_type in Pj. apply andb_true_iff in Pj as [_ Pj]. congruence. }
    unfold exec in St.
    match type of St with context [ev_table ?hh ?rr ++ ev_header ?h2] =>
      destruct (table_header_total (s_backend s) hh rr h2 (s_io s)) as [io' Tot] end.
    cbn [app] in Tot, St. rewrite Tot in St. injection St as <- <-. f_equal.
    unfold abs at 2. cbn [s_mem s_io m_hdr m_rds f_bytes]. f_equal.
    set (dj2 := with_parttype dj PartSystem t). set (d2 := with_parttype d PartPrimSys t).
    (* the reference model's two updates *)
    rewrite (a_update_abs s j dj _ Nj). fold rds st.
    unfold a_update. cbn [as_slots].
    rewrite nth_error_set_nth_neq by congruence. rewrite nth_error_map. fold rds. rewrite Ni. cbn [option_map].
    (* the library's two updates *)
    symmetry.
    rewrite (map_slots_set_nth (set_nth j dj2 rds) st (f_bytes io') i d d2); try reflexivity.
    + f_equal. apply (map_slots_set_nth rds st st j dj dj2); try reflexivity; try exact Nj.
    + rewrite nth_error_set_nth_neq by congruence. exact Ni.
    + intros k x Hx Ux. rewrite nth_error_set_nth in Hx. destruct (Nat.eqb_spec j k) as [->|Ne].
      * assert (Lj : Nat.ltb k (length rds) = true) by (apply Nat.ltb_lt, nth_error_Some; congruence).
        rewrite Lj in Hx. injection Hx as <-. unfold dj2. cbn [with_parttype set_extra_mtime d_off d_size].
        apply (LF k dj Nj Uj).
      * apply (LF k x Hx Ux).
  - destruct e; try (unfold exec in St; cbn [run_events] in St; injection St as <- <-; reflexivity).
    unfold exec in St.
    match type of St with context [ev_table ?hh ?rr ++ ev_header ?h2] =>
      destruct (table_header_total (s_backend s) hh rr h2 (s_io s)) as [io' Tot] end.
    cbn [app] in Tot, St. rewrite Tot in St. injection St as <- <-. f_equal.
    unfold abs at 2. cbn [s_mem s_io m_hdr m_rds f_bytes]. f_equal.
    rewrite (a_update_abs s i d _ Ni). fold rds st.
    symmetry. apply map_slots_set_nth; try reflexivity; [exact Ni|].
    intros k x Hx Ux. apply (LF k x Hx Ux).
Qed.

(* ----- every operation ----- *)

Theorem step_refines s x s' r :
  Inv s -> wf_op s x -> step sha256 s x = (s', r) ->
  a_step sha256 (abs s) x = (abs s', r).
Proof.
  intros I Wo St. destruct x.
  - now apply add_refines.
  - now apply delete_refines.
  - now apply setprim_refines.
  - now apply setmeta_refines.
  - now apply setoci_refines.
  - (* reload: the handle is what the file says (C08), so nothing changes *)
    cbn [a_step]. unfold step in St.
    rewrite (load_coherent _ _ (proj1 I) (proj2 I)) in St. injection St as <- <-. reflexivity.
Qed.

(* whole histories: the library and the reference model stay in step *)
Fixpoint a_run (a : astate) (ops : list op) : astate * list result :=
  match ops with
  | [] => (a, [])
  | x :: r => let '(a1, r1) := a_step sha256 a x in
              let '(a2, rs) := a_run a1 r in (a2, r1 :: rs)
  end.

Theorem run_refines ops : forall s,
  Inv s -> wf_ops sha256 s ops ->
  a_run (abs s) ops = (abs (fst (run sha256 s ops)), snd (run sha256 s ops)).
Proof.
  induction ops as [|x ops IH]; intros s I Wo; [reflexivity|].
  cbn [a_run run]. destruct Wo as [Wx Wr].
  destruct (step sha256 s x) as [s1 r1] eqn:St.
  rewrite (step_refines s x s1 r1 I Wx St).
  pose proof (step_inv sha256 sha_len s x s1 r1 I Wx St) as I1.
  specialize (IH s1 I1). cbn [fst] in Wr. rewrite (IH Wr).
  destruct (run sha256 s1 ops) as [s2 rs]. reflexivity.
Qed.

End Refinement.

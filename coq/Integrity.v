(* Integrity.v — executable model of pkg/integrity: integrity streams, image
   metadata, selection of signatures, verification tasks, Verify, the signer
   listings and Sign; transcribed from the Go source (DESIGN.md Appendix A).

   Cryptography and third-party parsers are parameters (section variables):
   what go-crypto, sigstore and encoding/json return for given bytes under the
   caller's key material.  Nothing is assumed about them here. *)
From Coq Require Import List ZArith Lia Bool.
From Coq.Init Require Import Byte.
From Sif Require Import Bytes Store Format Image.
Import ListNotations.
Local Open Scope Z_scope.

(* ---------- integrity streams ---------- *)

(* header.GetIntegrityReader: launch script, magic, version, image ID *)
Definition header_stream (h : header) : list byte :=
  h_launch h ++ h_magic h ++ h_version h ++ h_id h.

(* Descriptor.GetIntegrityReader: type, used, relative ID, link, size, creation
   time, uid, gid (little endian), name, extra.  Not covered: absolute ID,
   group, offset, size with padding, modification time. *)
Definition desc_stream (d : rdesc) (relid : Z) : list byte :=
  le_enc 4 (d_type d) ++ enc_bool (d_used d) ++ le_enc 4 relid ++ le_enc 4 (d_link d) ++
  le_enc 8 (d_size d) ++ le_enc 8 (d_ctime d) ++ le_enc 8 (d_uid d) ++ le_enc 8 (d_gid d) ++
  d_name d ++ d_extra d.

(* ---------- digests and metadata ---------- *)

Inductive halg := SHA224 | SHA256 | SHA384 | SHA512 | SHA512_224 | SHA512_256.

Definition halg_eqb (a b : halg) : bool :=
  match a, b with
  | SHA224, SHA224 | SHA256, SHA256 | SHA384, SHA384 | SHA512, SHA512
  | SHA512_224, SHA512_224 | SHA512_256, SHA512_256 => true
  | _, _ => false
  end.

Definition halg_size (a : halg) : nat :=
  match a with SHA224 | SHA512_224 => 28 | SHA256 | SHA512_256 => 32 | SHA384 => 48 | SHA512 => 64 end.

Record digest := mkDg { dg_alg : halg; dg_val : list byte }.

Definition digest_eqb (a b : digest) : bool :=
  halg_eqb (dg_alg a) (dg_alg b) && bytes_eqb (dg_val a) (dg_val b).

(* objectMetadata / imageMetadata as carried in the signed JSON *)
Record omd := mkOMD { om_relid : Z; om_desc : digest; om_obj : digest }.
Record imd := mkIMD { im_version : Z; im_header : digest; im_objects : list omd }.

(* ---------- errors ---------- *)

Inductive ierr :=
| ISif (e : err)                 (* an error of pkg/sif, wrapped *)
| INonGroupedObject | IGroupNotFound | INoGroupsFound
| ISigNotFound | INoKeyDSSE | INoKeyPGP | IFormatNotRecognized
| ISigNotValid                   (* SignatureNotValidError: envelope or JSON *)
| IFingerprintMismatch | IObjectNotSigned | ISignedObjectNotFound
| IHeaderIntegrity | IDescriptorIntegrity (id : Z) | IObjectIntegrity (id : Z)
| IHashUnsupported | IDigestMalformed | IMinimumIDInvalid | IUnexpectedGroupID
| INoObjectsSpecified | INoKeyMaterial | ICapacity (e : err).

(* signature-object content classes *)
Inductive sigkind := KDSSE | KClearsign | KUnknown.

(* the kind of hash the signature descriptor names (SignatureMetadata) *)
Definition hash_of_hashtype (ht : Z) : option halg :=
  if ht =? 1 then Some SHA256 else if ht =? 2 then Some SHA384 else if ht =? 3 then Some SHA512
  else None.  (* BLAKE2 types are accepted by SignatureMetadata but unsupported as digests *)

Definition hashtype_known (ht : Z) : bool := (1 <=? ht) && (ht <=? 5).

Section Crypto.

(* the digest functions *)
Variable hash : halg -> list byte -> list byte.

(* what the signature object's bytes are, structurally *)
Variable classify : list byte -> sigkind.      (* isDSSESignature / isClearsignSignature *)
Variable is_legacy : list byte -> bool.        (* isLegacySignature *)

(* opening an envelope under the key material the caller supplied: the payload
   and who validated it (DSSE: the accepted public keys, as opaque numbers;
   PGP: the 20-byte primary-key fingerprint of the signing entity) *)
Variable open_dsse : Z -> list byte -> option (list byte * list Z).  (* hash type of the descriptor *)
Variable open_pgp : list byte -> option (list byte * list byte).

(* encoding/json on the metadata *)
Variable parse_md : list byte -> option imd.

(* key material supplied? (Verifier.dsse / Verifier.cs non-nil) *)
Variable has_dsse_keys : bool.
Variable has_pgp_keys : bool.

(* ---------- helpers over the image ---------- *)

Definition live (m : mem) : list rdesc := filter d_used (m_rds m).

(* getGroupMinObjectID: computed afresh from the descriptors *)
Definition group_min_id (m : mem) (g : Z) : option Z :=
  fold_left (fun acc d =>
               if group_of_raw (d_group d) =? g then
                 match acc with Some v => Some (Z.min v (d_id d)) | None => Some (d_id d) end
               else acc)
            (live m) None.

Fixpoint insert_sorted (x : Z) (l : list Z) : list Z :=
  match l with
  | [] => [x]
  | y :: r => if x <? y then x :: l else if x =? y then l else y :: insert_sorted x r
  end.

(* getGroupIDs *)
Definition group_ids (m : mem) : list Z :=
  fold_left (fun acc d => let g := group_of_raw (d_group d) in
                          if g =? 0 then acc else insert_sorted g acc) (live m) [].

Definition data_of (d : rdesc) (st : store) : list byte + err := get_data d st.

(* getGroupObjects: GetDescriptors(WithGroupID(g)); empty => group not found *)
Definition group_objects (m : mem) (g : Z) : list (rdesc * Z) + ierr :=
  match get_descriptors m [SGroup g] with
  | inr e => inr (ISif e)
  | inl [] => inr IGroupNotFound
  | inl l => inl l
  end.

(* getGroupSignatures: signature objects linked to group g whose legacy-ness
   equals the mode; reading a signature's data may fail, which aborts *)
Fixpoint sigs_filter (st : store) (legacy : bool) (l : list rdesc) : list rdesc + err :=
  match l with
  | [] => inl []
  | d :: r =>
      match data_of d st with
      | inr e => inr e
      | inl c =>
          match sigs_filter st legacy r with
          | inr e => inr e
          | inl r' => if Bool.eqb (is_legacy c) legacy then inl (d :: r') else inl r'
          end
      end
  end.

Definition linked_sigs (m : mem) (sel : selector) : list rdesc + err :=
  if h_free (m_hdr m) =? h_total (m_hdr m) then inr ENoObjects
  else collect (multi_eval [SType DataSignature; sel]) (m_rds m).

Definition group_signatures (m : mem) (st : store) (g : Z) (legacy : bool) : list rdesc + ierr :=
  match linked_sigs m (SLinkedGroup g) with
  | inr e => inr (ISif e)
  | inl l =>
      match sigs_filter st legacy l with
      | inr e => inr (ISif e)
      | inl [] => inr ISigNotFound
      | inl l' => inl l'
      end
  end.

(* getObjectSignatures: not filtered by kind *)
Definition object_signatures (m : mem) (id : Z) : list rdesc + ierr :=
  match linked_sigs m (SLinkedID id) with
  | inr e => inr (ISif e)
  | inl [] => inr ISigNotFound
  | inl l => inl l
  end.

(* ---------- metadata of an image ---------- *)

Definition digest_of (a : halg) (bs : list byte) : digest := mkDg a (hash a bs).

(* digest.matches *)
Definition digest_matches (dg : digest) (bs : list byte) : bool :=
  bytes_eqb (dg_val dg) (hash (dg_alg dg) bs).

(* getImageMetadata: for the objects ods (with the relative IDs the handle
   computed), relative to minID, with hash a.  Data that cannot be read hashes
   as far as it goes (io.Copy of a section reader): modelled by safe reads. *)
Definition obj_bytes (d : rdesc) (st : store) : list byte :=
  match section_bytes d st with inl c => c | inr _ => [] end.

Definition image_metadata (m : mem) (st : store) (minid : Z) (ods : list (rdesc * Z)) (a : halg)
  : imd + ierr :=
  if existsb (fun p => d_id (fst p) <? minid) ods then inr IMinimumIDInvalid
  else inl (mkIMD 1 (digest_of a (header_stream (m_hdr m)))
                  (map (fun p => mkOMD (wrap_u32 (d_id (fst p) - minid))
                                        (digest_of a (desc_stream (fst p) (snd p)))
                                        (digest_of a (obj_bytes (fst p) st))) ods)).

(* ---------- verification tasks ---------- *)

Inductive task :=
| TGroup (g : Z) (ods : list (rdesc * Z)) (subset_ok : bool)
| TLegacyGroup (g : Z) (ods : list (rdesc * Z))
| TLegacyObject (od : rdesc * Z).

Record vopts := mkVO {
  vo_groups : list Z;       (* OptVerifyGroup, in call order *)
  vo_objects : list Z;      (* OptVerifyObject, in call order *)
  vo_legacy : bool;
  vo_legacy_all : bool }.

Fixpoint sort_ids (l : list Z) : list Z :=
  match l with [] => [] | x :: r => insert_sorted x (sort_ids r) end.

Fixpoint map_err {A B E} (f : A -> B + E) (l : list A) : list B + E :=
  match l with
  | [] => inl []
  | x :: r =>
      match f x with
      | inr e => inr e
      | inl y => match map_err f r with inr e => inr e | inl ys => inl (y :: ys) end
      end
  end.

Definition get_descriptor_i (m : mem) (id : Z) : (rdesc * Z) + ierr :=
  match get_descriptor m [SID id] with inl p => inl p | inr e => inr (ISif e) end.

(* NewVerifier: the task list is fixed at construction *)
Definition new_verifier (m : mem) (vo : vopts) : list task + ierr :=
  if existsb (fun g => g =? 0) (vo_groups vo) then inr (ISif EInvalidGroupID)
  else if existsb (fun i => i =? 0) (vo_objects vo) then inr (ISif EInvalidObjectID)
  else
    let groups0 := sort_ids (vo_groups vo) in
    let objects0 := sort_ids (vo_objects vo) in
    let objects1 :=
      if vo_legacy_all vo then
        fold_left (fun acc d =>
                     if negb (d_type d =? DataSignature) && negb (group_of_raw (d_group d) =? 0)
                     then insert_sorted (d_id d) acc else acc) (live m) objects0
      else objects0 in
    let groups1 :=
      match groups0, objects1 with
      | [], [] => match group_ids m with [] => inr INoGroupsFound | l => inl l end
      | _, _ => inl groups0
      end in
    match groups1 with
    | inr e => inr e
    | inl groups =>
        let gtask g :=
          match group_objects m g with
          | inr e => inr e
          | inl ods => inl (if vo_legacy vo then TLegacyGroup g ods else TGroup g ods false)
          end in
        let otask id :=
          match get_descriptor_i m id with
          | inr e => inr e
          | inl od =>
              if vo_legacy vo then inl (TLegacyObject od)
              else inl (TGroup (group_of_raw (d_group (fst od))) [od] true)
          end in
        match map_err gtask groups with
        | inr e => inr e
        | inl t1 => match map_err otask objects1 with
                    | inr e => inr e
                    | inl t2 => inl (t1 ++ t2)
                    end
        end
    end.

Definition task_signatures (m : mem) (st : store) (t : task) : list rdesc + ierr :=
  match t with
  | TGroup g _ _ => group_signatures m st g false
  | TLegacyGroup g _ => group_signatures m st g true
  | TLegacyObject od => object_signatures m (d_id (fst od))
  end.

(* ---------- verifying one signature ---------- *)

(* SignatureMetadata of the signature descriptor: hash type must be known *)
Definition sig_meta (sig : rdesc) : (Z * option (list byte)) + ierr :=
  if negb (d_type sig =? DataSignature) then inr (ISif EUnexpectedType)
  else let ht := sig_hashtype (d_extra sig) in
       if hashtype_known ht then inl (ht, sig_fingerprint (d_extra sig)) else inr IHashUnsupported.

(* what opening the envelope yields: payload, accepted keys, PGP entity fingerprint *)
Record opened := mkOp { op_payload : list byte; op_keys : list Z; op_entity : option (list byte) }.

Definition open_sig (kind : sigkind) (ht : Z) (c : list byte) : option opened :=
  match kind with
  | KDSSE => match open_dsse ht c with Some (p, ks) => Some (mkOp p ks None) | None => None end
  | KClearsign => match open_pgp c with Some (p, fp) => Some (mkOp p [] (Some fp)) | None => None end
  | KUnknown => None
  end.

(* bytes.Equal(e.PrimaryKey.Fingerprint, fp) with fp nil when absent *)
Definition fp_matches (entity : option (list byte)) (fp : option (list byte)) : bool :=
  match entity with
  | None => true
  | Some e => bytes_eqb e (match fp with Some f => f | None => [] end)
  end.

(* imageMetadata.objectIDsMatch: the IDs of ods are exactly the signed ones *)
Definition object_ids_match (signed : list Z) (ods : list (rdesc * Z)) : option ierr :=
  if negb (forallb (fun p => existsb (Z.eqb (d_id (fst p))) signed) ods) then Some IObjectNotSigned
  else if negb (forallb (fun id => existsb (fun p => d_id (fst p) =? id) ods) signed)
       then Some ISignedObjectNotFound
  else None.

(* imageMetadata.matches: header digest, then per object (in the order of
   ods) descriptor digest and content digest; the objects checked before the
   first failure are still reported as verified *)
Fixpoint objects_match (st : store) (signed : list (Z * omd)) (ods : list (rdesc * Z))
  : list Z * option ierr :=
  match ods with
  | [] => ([], None)
  | (d, rel) :: r =>
      match find (fun s => fst s =? d_id d) signed with
      | None => ([], Some IObjectNotSigned)
      | Some (_, om) =>
          if negb (digest_matches (om_desc om) (desc_stream d rel)) then ([], Some (IDescriptorIntegrity (d_id d)))
          else match section_bytes d st with
               | inr e => ([], Some (ISif e))          (* the read itself failed *)
               | inl c => if negb (digest_matches (om_obj om) c) then ([], Some (IObjectIntegrity (d_id d)))
                          else let '(v, e) := objects_match st signed r in (d_id d :: v, e)
               end
      end
  end.

(* what one verified signature reports (VerifyResult) *)
Record vresult := mkVR {
  vr_sig : Z;                      (* ID of the signature object *)
  vr_verified : list Z;            (* IDs of the objects verified *)
  vr_keys : list Z;
  vr_entity : option (list byte);
  vr_err : option ierr }.

(* groupVerifier.verifySignature *)
Definition verify_group_sig (m : mem) (st : store) (g : Z) (ods : list (rdesc * Z)) (subset_ok : bool)
           (sig : rdesc) (kind : sigkind) : vresult :=
  let fail e keys ent := mkVR (d_id sig) [] keys ent (Some e) in
  match sig_meta sig with
  | inr e => fail e [] None
  | inl (ht, fp) =>
      match open_sig kind ht (obj_bytes sig st) with
      | None => fail ISigNotValid [] None
      | Some o =>
          match parse_md (op_payload o) with
          | None => fail ISigNotValid (op_keys o) (op_entity o)
          | Some im =>
              match group_min_id m g with
              | None => fail IGroupNotFound (op_keys o) (op_entity o)
              | Some minid =>
                  let signed := map (fun om => (wrap_u32 (minid + om_relid om), om)) (im_objects im) in
                  if negb (fp_matches (op_entity o) fp) then fail IFingerprintMismatch (op_keys o) (op_entity o)
                  else
                    match (if subset_ok then None else object_ids_match (map fst signed) ods) with
                    | Some e => fail e (op_keys o) (op_entity o)
                    | None =>
                        if negb (digest_matches (im_header im) (header_stream (m_hdr m)))
                        then fail IHeaderIntegrity (op_keys o) (op_entity o)
                        else let '(v, e) := objects_match st signed ods in
                             mkVR (d_id sig) v (op_keys o) (op_entity o) e
                    end
              end
          end
      end
  end.

(* newLegacyDigest: "SIFHASH:\n" <hex> ["\n"] *)
Definition sifhash_prefix : list byte := [x53; x49; x46; x48; x41; x53; x48; x3a; x0a].

Definition trim_prefix (p bs : list byte) : list byte :=
  if bytes_eqb (firstn (length p) bs) p then skipn (length p) bs else bs.

Definition trim_suffix_nl (bs : list byte) : list byte :=
  match rev bs with x0a :: r => rev r | _ => bs end.

Definition hex_val (b : byte) : option Z :=
  let z := byte_to_Z b in
  if (48 <=? z) && (z <=? 57) then Some (z - 48)
  else if (97 <=? z) && (z <=? 102) then Some (z - 87)
  else if (65 <=? z) && (z <=? 70) then Some (z - 55)
  else None.

Fixpoint hex_decode (bs : list byte) : option (list byte) :=
  match bs with
  | [] => Some []
  | a :: b :: r =>
      match hex_val a, hex_val b, hex_decode r with
      | Some x, Some y, Some t => Some (Z_to_byte (16 * x + y) :: t)
      | _, _, _ => None
      end
  | _ => None
  end.

Definition legacy_digest (ht : Z) (payload : list byte) : digest + ierr :=
  let body := trim_suffix_nl (trim_prefix sifhash_prefix payload) in
  match hex_decode body with
  | None => inr IDigestMalformed
  | Some v =>
      match hash_of_hashtype ht with
      | None => inr IHashUnsupported
      | Some a => if Nat.eqb (length v) (halg_size a) then inl (mkDg a v) else inr IDigestMalformed
      end
  end.

(* legacyGroupVerifier / legacyObjectVerifier .verifySignature: the digest is
   over the concatenation of the objects' contents *)
Definition verify_legacy_sig (st : store) (ods : list (rdesc * Z)) (errid : Z)
           (sig : rdesc) (kind : sigkind) : vresult :=
  let fail e keys ent := mkVR (d_id sig) [] keys ent (Some e) in
  match open_sig kind 1 (obj_bytes sig st) with   (* crypto.SHA256 *)
  | None => fail ISigNotValid [] None
  | Some o =>
      match sig_meta sig with
      | inr e => fail e (op_keys o) (op_entity o)
      | inl (ht, fp) =>
          if negb (fp_matches (op_entity o) fp) then fail IFingerprintMismatch (op_keys o) (op_entity o)
          else match legacy_digest ht (op_payload o) with
               | inr e => fail e (op_keys o) (op_entity o)
               | inl dg =>
                   match map_err (fun p => section_bytes (fst p) st) ods with
                   | inr e => fail (ISif e) (op_keys o) (op_entity o)
                   | inl cs =>
                       if digest_matches dg (concat cs)
                       then mkVR (d_id sig) (map (fun p => d_id (fst p)) ods) (op_keys o) (op_entity o) None
                       else fail (IObjectIntegrity errid) (op_keys o) (op_entity o)
                   end
               end
      end
  end.

Definition verify_sig (m : mem) (st : store) (t : task) (sig : rdesc) (kind : sigkind) : vresult :=
  match t with
  | TGroup g ods sub => verify_group_sig m st g ods sub sig kind
  | TLegacyGroup _ ods => verify_legacy_sig st ods 0 sig kind
  | TLegacyObject od => verify_legacy_sig st [od] (d_id (fst od)) sig kind
  end.

(* ---------- Verify ---------- *)

(* the loop over the signatures of one task; `ignore` is the callback's answer
   (true = ignore the error); results are reported in order *)
Fixpoint verify_sigs (m : mem) (st : store) (t : task) (ignore : vresult -> bool)
         (sigs : list rdesc) (acc : list vresult) : list vresult * option ierr :=
  match sigs with
  | [] => (acc, None)
  | sig :: r =>
      let c := obj_bytes sig st in
      match classify c with
      | KUnknown => (acc, Some IFormatNotRecognized)
      | KDSSE =>
          if negb has_dsse_keys then (acc, Some INoKeyDSSE)
          else let vr := verify_sig m st t sig KDSSE in
               match vr_err vr with
               | Some e => if ignore vr then verify_sigs m st t ignore r (acc ++ [vr]) else (acc ++ [vr], Some e)
               | None => verify_sigs m st t ignore r (acc ++ [vr])
               end
      | KClearsign =>
          if negb has_pgp_keys then (acc, Some INoKeyPGP)
          else let vr := verify_sig m st t sig KClearsign in
               match vr_err vr with
               | Some e => if ignore vr then verify_sigs m st t ignore r (acc ++ [vr]) else (acc ++ [vr], Some e)
               | None => verify_sigs m st t ignore r (acc ++ [vr])
               end
      end
  end.

Fixpoint verify_tasks (m : mem) (st : store) (ignore : vresult -> bool) (ts : list task)
         (acc : list vresult) : list vresult * option ierr :=
  match ts with
  | [] => (acc, None)
  | t :: r =>
      match task_signatures m st t with
      | inr e => (acc, Some e)
      | inl sigs =>
          match verify_sigs m st t ignore sigs acc with
          | (acc', Some e) => (acc', Some e)
          | (acc', None) => verify_tasks m st ignore r acc'
          end
      end
  end.

(* Verifier.Verify: every ungrouped object must be a signature; then the tasks *)
Definition verify (m : mem) (st : store) (ignore : vresult -> bool) (ts : list task)
  : list vresult * option ierr :=
  match get_descriptors m [SNoGroup] with
  | inr e => ([], Some (ISif e))
  | inl ods =>
      if negb (forallb (fun p => d_type (fst p) =? DataSignature) ods) then ([], Some INonGroupedObject)
      else verify_tasks m st ignore ts []
  end.

(* ---------- signer listings ---------- *)

Fixpoint bytes_ltb (a b : list byte) : bool :=
  match a, b with
  | [], [] => false
  | [], _ => true
  | _, [] => false
  | x :: a', y :: b' =>
      if byte_to_Z x <? byte_to_Z y then true
      else if byte_to_Z y <? byte_to_Z x then false else bytes_ltb a' b'
  end.

Fixpoint insert_fp (x : list byte) (l : list (list byte)) : list (list byte) :=
  match l with
  | [] => [x]
  | y :: r => if bytes_ltb x y then x :: l else if bytes_eqb x y then l else y :: insert_fp x r
  end.

(* getFingerprints: sorted, duplicate-free fingerprints on the signatures *)
Fixpoint sig_fingerprints (sigs : list rdesc) (acc : list (list byte)) : list (list byte) + ierr :=
  match sigs with
  | [] => inl acc
  | s :: r =>
      match sig_meta s with
      | inr e => inr e
      | inl (_, Some fp) => sig_fingerprints r (insert_fp fp acc)
      | inl (_, None) => sig_fingerprints r acc
      end
  end.

Fixpoint task_fingerprints (m : mem) (st : store) (ts : list task) : list (list (list byte)) + ierr :=
  match ts with
  | [] => inl []
  | t :: r =>
      let sigs := match task_signatures m st t with
                  | inl l => inl l
                  | inr ISigNotFound => inl []
                  | inr e => inr e
                  end in
      match sigs with
      | inr e => inr e
      | inl l =>
          match sig_fingerprints l [] with
          | inr e => inr e
          | inl fps => match task_fingerprints m st r with inr e => inr e | inl rest => inl (fps :: rest) end
          end
      end
  end.

Definition count_in (fp : list byte) (l : list (list (list byte))) : nat :=
  length (filter (fun fps => existsb (bytes_eqb fp) fps) l).

(* Verifier.fingerprints(anyTask) *)
Definition signed_by (m : mem) (st : store) (ts : list task) (any : bool) : list (list byte) + ierr :=
  match task_fingerprints m st ts with
  | inr e => inr e
  | inl per_task =>
      let all := fold_left (fun acc fps => fold_left (fun a fp => insert_fp fp a) fps acc) per_task [] in
      inl (filter (fun fp => any || Nat.eqb (count_in fp per_task) (length ts)) all)
  end.

End Crypto.

(* StreamFacts.v — the integrity streams determine the protected fields:
   equal header streams mean equal launch script, magic, version and ID; equal
   descriptor streams mean equal type, used flag, relative ID, link, size,
   creation time, uid, gid, name and extra. *)
From Coq Require Import List ZArith Lia Bool.
From Coq.Init Require Import Byte.
From Sif Require Import Bytes BytesFacts Store Format Image Integrity.
Import ListNotations.
Local Open Scope Z_scope.

Lemma app_inj_len {A} (a a' b b' : list A) :
  length a = length a' -> a ++ b = a' ++ b' -> a = a' /\ b = b'.
Proof.
  revert a'. induction a as [|x a IH]; intros [|y a'] L E; try discriminate.
  - auto.
  - cbn in L, E. injection E as -> E. destruct (IH a' ltac:(lia) E) as [-> ->]. auto.
Qed.

Lemma le_enc_inj_i32 v w : in_i32 v -> in_i32 w -> le_enc 4 v = le_enc 4 w -> v = w.
Proof. intros Hv Hw E. rewrite <- (sle_dec_le_enc_i32 v Hv), <- (sle_dec_le_enc_i32 w Hw). now rewrite E. Qed.

Lemma le_enc_inj_u32 v w : in_u32 v -> in_u32 w -> le_enc 4 v = le_enc 4 w -> v = w.
Proof. intros Hv Hw E. rewrite <- (le_dec_le_enc_u32 v Hv), <- (le_dec_le_enc_u32 w Hw). now rewrite E. Qed.

Lemma le_enc_inj_i64 v w : in_i64 v -> in_i64 w -> le_enc 8 v = le_enc 8 w -> v = w.
Proof. intros Hv Hw E. rewrite <- (sle_dec_le_enc_i64 v Hv), <- (sle_dec_le_enc_i64 w Hw). now rewrite E. Qed.

(* what the header stream protects *)
Definition header_protected_eq (h h' : header) : Prop :=
  h_launch h = h_launch h' /\ h_magic h = h_magic h' /\ h_version h = h_version h' /\ h_id h = h_id h'.

Lemma header_stream_inj h h' :
  wf_header h -> wf_header h' -> header_stream h = header_stream h' -> header_protected_eq h h'.
Proof.
  intros (L1 & L2 & L3 & _ & L5 & _) (L1' & L2' & L3' & _ & L5' & _) E. unfold header_stream in E.
  apply app_inj_len in E as [E1 E]; [|congruence].
  apply app_inj_len in E as [E2 E]; [|congruence].
  apply app_inj_len in E as [E3 E]; [|congruence].
  repeat split; assumption.
Qed.

(* what the descriptor stream protects: everything but absolute ID, group,
   offset, padded size and modification time *)
Definition desc_protected_eq (d : rdesc) (r : Z) (d' : rdesc) (r' : Z) : Prop :=
  d_type d = d_type d' /\ d_used d = d_used d' /\ r = r' /\ d_link d = d_link d' /\
  d_size d = d_size d' /\ d_ctime d = d_ctime d' /\ d_uid d = d_uid d' /\ d_gid d = d_gid d' /\
  d_name d = d_name d' /\ d_extra d = d_extra d'.

Lemma enc_bool_inj a b : enc_bool a = enc_bool b -> a = b.
Proof. unfold enc_bool. destruct a, b; intro H; try reflexivity; discriminate. Qed.

Lemma desc_stream_inj d r d' r' :
  wf_desc d -> wf_desc d' -> in_u32 r -> in_u32 r' ->
  desc_stream d r = desc_stream d' r' -> desc_protected_eq d r d' r'.
Proof.
  intros (T & _ & _ & Lk & _ & Sz & _ & Ct & _ & Ui & Gi & Nm & Ex)
         (T' & _ & _ & Lk' & _ & Sz' & _ & Ct' & _ & Ui' & Gi' & Nm' & Ex') Hr Hr' E.
  unfold desc_stream in E.
  apply app_inj_len in E as [E1 E]; [|now rewrite !length_le_enc].
  apply app_inj_len in E as [E2 E]; [|reflexivity].
  apply app_inj_len in E as [E3 E]; [|now rewrite !length_le_enc].
  apply app_inj_len in E as [E4 E]; [|now rewrite !length_le_enc].
  apply app_inj_len in E as [E5 E]; [|now rewrite !length_le_enc].
  apply app_inj_len in E as [E6 E]; [|now rewrite !length_le_enc].
  apply app_inj_len in E as [E7 E]; [|now rewrite !length_le_enc].
  apply app_inj_len in E as [E8 E]; [|now rewrite !length_le_enc].
  apply app_inj_len in E as [E9 E]; [|congruence].
  unfold desc_protected_eq.
  split; [now apply le_enc_inj_i32|]. split; [now apply enc_bool_inj|].
  split; [now apply le_enc_inj_u32|]. split; [now apply le_enc_inj_u32|].
  split; [now apply le_enc_inj_i64|]. split; [now apply le_enc_inj_i64|].
  split; [now apply le_enc_inj_i64|]. split; [now apply le_enc_inj_i64|].
  split; assumption.
Qed.

(* the converse: equal protected fields give equal streams (what relocating,
   renumbering or regrouping an object keeps) *)
Lemma desc_stream_of_protected d r d' r' :
  desc_protected_eq d r d' r' -> desc_stream d r = desc_stream d' r'.
Proof.
  intros (E1 & E2 & E3 & E4 & E5 & E6 & E7 & E8 & E9 & E10). unfold desc_stream.
  now rewrite E1, E2, E3, E4, E5, E6, E7, E8, E9, E10.
Qed.

Lemma header_stream_of_protected h h' :
  header_protected_eq h h' -> header_stream h = header_stream h'.
Proof. intros (E1 & E2 & E3 & E4). unfold header_stream. now rewrite E1, E2, E3, E4. Qed.

(* InvDelete.v — DeleteObjects preserves the invariant; a rejected delete
   leaves the state untouched; surviving objects keep descriptor and content. *)
From Coq Require Import List ZArith Lia Bool.
From Coq.Init Require Import Byte.
From Sif Require Import Bytes BytesFacts Store StoreFacts Format FormatFacts Image ImageFacts
     SelectFacts Machine Inv InvCommon InvSet.
Import ListNotations.
Local Open Scope Z_scope.

(* the objects a delete removes *)
Definition del (sel : selector) (d : rdesc) : bool :=
  d_used d && match sel_eval sel d with SMatch true => true | _ => false end.

Definition after_del (sel : selector) (rds : list rdesc) : list rdesc :=
  map (fun d => if del sel d then zero_desc else d) rds.

Definition any_primary_deleted (sel : selector) (rds : list rdesc) : bool :=
  existsb (fun d => del sel d && is_partition_of_type d PartPrimSys) rds.

Lemma delete_loop_spec sel zero rds h evs :
  let '(h', rds', evs') := delete_loop sel zero rds h evs in
  rds' = after_del sel rds /\
  evs' = evs ++ (if zero then flat_map ev_zero (filter (del sel) rds) else []) /\
  h_free h' = h_free h + Z.of_nat (length (filter (del sel) rds)) /\
  h_arch h' = (if any_primary_deleted sel rds then arch_unknown else h_arch h) /\
  h_launch h' = h_launch h /\ h_magic h' = h_magic h /\ h_version h' = h_version h /\
  h_id h' = h_id h /\ h_ctime h' = h_ctime h /\ h_mtime h' = h_mtime h /\
  h_total h' = h_total h /\ h_descoff h' = h_descoff h /\ h_descsize h' = h_descsize h /\
  h_dataoff h' = h_dataoff h /\ h_datasize h' = h_datasize h.
Proof.
  revert h evs; induction rds as [|d r IH]; intros h evs; cbn [delete_loop].
  - destruct zero; cbn; rewrite ?app_nil_r; repeat split; lia.
  - unfold after_del, any_primary_deleted. cbn [map filter existsb flat_map]. fold (del sel d).
    destruct (del sel d) eqn:D.
    + set (h2 := if is_partition_of_type d PartPrimSys then _ else _).
      set (evs1 := if zero then evs ++ ev_zero d else evs).
      specialize (IH h2 evs1).
      destruct (delete_loop sel zero r h2 evs1) as [[h' r'] e'].
      destruct IH as (E1 & E2 & E3 & E4 & E5 & E6 & E7 & E8 & E9 & E10 & E11 & E12 & E13 & E14 & E15).
      assert (H2 : h_free h2 = h_free h + 1 /\
                   h_arch h2 = (if is_partition_of_type d PartPrimSys then arch_unknown else h_arch h) /\
                   h_launch h2 = h_launch h /\ h_magic h2 = h_magic h /\ h_version h2 = h_version h /\
                   h_id h2 = h_id h /\ h_ctime h2 = h_ctime h /\ h_mtime h2 = h_mtime h /\
                   h_total h2 = h_total h /\ h_descoff h2 = h_descoff h /\ h_descsize h2 = h_descsize h /\
                   h_dataoff h2 = h_dataoff h /\ h_datasize h2 = h_datasize h).
      { unfold h2. destruct (is_partition_of_type d PartPrimSys); cbn; repeat split; reflexivity. }
      destruct H2 as (F1 & F2 & F3 & F4 & F5 & F6 & F7 & F8 & F9 & F10 & F11 & F12 & F13).
      split; [now rewrite E1|]. split.
      { rewrite E2. unfold evs1. destruct zero; [now rewrite <- app_assoc | reflexivity]. }
      split; [cbn [length]; lia|]. split.
      { rewrite E4, F2. cbn [andb]. fold (any_primary_deleted sel r).
        destruct (is_partition_of_type d PartPrimSys); cbn [orb]; [|reflexivity].
        destruct (any_primary_deleted sel r); reflexivity. }
      repeat split; congruence.
    + specialize (IH h evs).
      destruct (delete_loop sel zero r h evs) as [[h' r'] e'].
      destruct IH as (E1 & E2 & E3 & E4 & E5).
      split; [now rewrite E1|]. split; [exact E2|]. split; [exact E3|]. split; [|exact E5].
      rewrite E4. cbn [andb orb]. reflexivity.
Qed.

(* ---------- storage effect of the zeroing writes ---------- *)

Definition zero_store (dels : list rdesc) (st : store) : store :=
  fold_left (fun st d => bwrite BFile (Z.to_nat (d_off d)) (zeros (Z.to_nat (d_size d))) st) dels st.

Lemma run_zero_events b dels io :
  exists p, run_events b (flat_map ev_zero dels) io = (mkF (zero_store dels (f_bytes io)) p, true).
Proof.
  revert io; induction dels as [|d r IH]; intro io; cbn [flat_map zero_store fold_left].
  - destruct io; simpl; eauto.
  - rewrite run_events_app. unfold ev_zero at 1.
    destruct (run_write_if_nonempty b (Z.to_nat (d_off d)) (zeros (Z.to_nat (d_size d))) io) as [p ->].
    destruct (IH (mkF (bwrite BFile (Z.to_nat (d_off d)) (zeros (Z.to_nat (d_size d))) (f_bytes io)) p)) as [q E].
    simpl f_bytes in E. rewrite E. eauto.
Qed.

(* every deleted non-empty object lies in the file: lengths do not change and
   regions disjoint from all of them are untouched *)
Lemma zero_store_spec dels st :
  (forall d, In d dels -> 0 < d_size d ->
             0 <= d_off d /\ d_off d + d_size d <= Z.of_nat (length st)) ->
  length (zero_store dels st) = length st /\
  (forall a n, (a + n <= length st)%nat ->
     (forall d, In d dels -> 0 < d_size d ->
                Z.of_nat (a + n) <= d_off d \/ d_off d + d_size d <= Z.of_nat a) ->
     nread a n (zero_store dels st) = nread a n st).
Proof.
  revert st; induction dels as [|d r IH]; intros st H; cbn [zero_store fold_left].
  - auto.
  - set (st1 := bwrite BFile (Z.to_nat (d_off d)) (zeros (Z.to_nat (d_size d))) st).
    assert (L1 : length st1 = length st).
    { unfold st1, bwrite. destruct (zeros (Z.to_nat (d_size d))) eqn:Z; [reflexivity|].
      rewrite <- Z. rewrite length_nwrite, length_zeros.
      assert (0 < d_size d).
      { destruct (Z_lt_le_dec 0 (d_size d)); [assumption|].
        replace (Z.to_nat (d_size d)) with O in Z by lia. discriminate. }
      destruct (H d (or_introl eq_refl) H0). lia. }
    destruct (IH st1) as [IL IF].
    { intros x Hx Sx. rewrite L1. apply H; [right; exact Hx | exact Sx]. }
    fold (zero_store r st1). split; [congruence|].
    intros a n Hin Hdis. rewrite IF.
    + unfold st1. destruct (Z_lt_le_dec 0 (d_size d)) as [S|S].
      * apply bwrite_frame; [exact Hin|]. rewrite length_zeros.
        destruct (Hdis d (or_introl eq_refl) S); destruct (H d (or_introl eq_refl) S); lia.
      * replace (Z.to_nat (d_size d)) with O by lia. reflexivity.
    + rewrite L1. exact Hin.
    + intros x Hx Sx. apply Hdis; [right; exact Hx | exact Sx].
Qed.

Lemma in_filter_del sel rds d :
  In d (filter (del sel) rds) -> In d rds /\ d_used d = true /\ del sel d = true.
Proof.
  intro H. apply filter_In in H as [H1 H2]. split; [exact H1|]. split; [|exact H2].
  unfold del in H2. now apply andb_true_iff in H2 as [H2 _].
Qed.

(* ---------- descriptors after the delete ---------- *)

Lemma nth_error_after_del sel rds i :
  nth_error (after_del sel rds) i =
  match nth_error rds i with
  | Some d => Some (if del sel d then zero_desc else d)
  | None => None
  end.
Proof. unfold after_del. apply nth_error_map. Qed.

Lemma used_at_after_del sel rds i d :
  used_at (after_del sel rds) i d -> used_at rds i d /\ del sel d = false.
Proof.
  intros [Hn Hu]. rewrite nth_error_after_del in Hn.
  destruct (nth_error rds i) as [x|] eqn:E; [|discriminate].
  destruct (del sel x) eqn:D; inversion Hn; subst.
  - discriminate.
  - repeat split; auto.
Qed.

Lemma used_at_survives sel rds i d :
  used_at rds i d -> del sel d = false -> used_at (after_del sel rds) i d.
Proof.
  intros [Hn Hu] D. split; [|exact Hu]. rewrite nth_error_after_del, Hn, D. reflexivity.
Qed.

Lemma count_unused_after_del_nat sel rds :
  count_unused (after_del sel rds) = (count_unused rds + length (filter (del sel) rds))%nat.
Proof.
  unfold count_unused, after_del. induction rds as [|d r IH]; [reflexivity|].
  cbn [map filter]. destruct (del sel d) eqn:D.
  - assert (U : d_used d = true) by (unfold del in D; now apply andb_true_iff in D as [D _]).
    rewrite U. simpl. rewrite IH. lia.
  - destruct (d_used d); simpl; rewrite IH; lia.
Qed.

Lemma count_unused_after_del sel rds :
  Z.of_nat (count_unused (after_del sel rds)) =
  Z.of_nat (count_unused rds) + Z.of_nat (length (filter (del sel) rds)).
Proof. rewrite count_unused_after_del_nat. lia. Qed.

Lemma wf_after_del sel rds : Forall wf_desc rds -> Forall wf_desc (after_del sel rds).
Proof.
  intro H. unfold after_del. apply Forall_forall. intros x Hx. apply in_map_iff in Hx as (d & <- & Hd).
  destruct (del sel d); [apply wf_zero_desc|]. eapply Forall_forall; eauto.
Qed.

Lemma in_after_del_used sel rds d :
  In d (after_del sel rds) -> d_used d = true -> In d rds /\ del sel d = false.
Proof.
  intros Hin Hu. apply In_nth_error in Hin as [i Hi].
  destruct (used_at_after_del sel rds i d (conj Hi Hu)) as [[Hn _] D].
  split; [eapply nth_error_In; eauto | exact D].
Qed.

Section WithDigest.
Variable sha256 : list byte -> list byte.

Theorem delete_inv s sel zero compact o now s' r :
  Inv s -> time_ok o now ->
  step sha256 s (OpDelete sel zero compact o now) = (s', r) ->
  Inv s' /\ (r <> Ok -> s' = s) /\
  (r = Ok ->
   m_rds (s_mem s') = after_del sel (m_rds (s_mem s)) /\
   (* every surviving object keeps its bytes *)
   (forall i d, used_at (m_rds (s_mem s')) i d ->
      nread (Z.to_nat (d_off d)) (Z.to_nat (d_size d)) (f_bytes (s_io s')) =
      nread (Z.to_nat (d_off d)) (Z.to_nat (d_size d)) (f_bytes (s_io s))) /\
   (* a compacting delete ends the file exactly at the end of the data section *)
   (compact = true ->
      Z.of_nat (length (f_bytes (s_io s'))) = data_end (m_hdr (s_mem s')) (m_rds (s_mem s'))) /\
   (* a zeroing delete leaves zeros where the deleted objects were *)
   (zero = true -> compact = false -> forall d, In d (m_rds (s_mem s)) -> del sel d = true ->
      0 < d_size d ->
      nread (Z.to_nat (d_off d)) (Z.to_nat (d_size d)) (f_bytes (s_io s')) = zeros (Z.to_nat (d_size d)))).
Proof.
  intros [W C] Ht. unfold step, plan_op, plan_delete.
  destruct s as [m io b]; cbn [s_mem s_io s_backend] in *.
  assert (I0 : Inv (mkS m io b)) by (split; assumption).
  destruct (collect (sel_eval sel) (m_rds m)) as [[|x l]|e] eqn:Col.
  - cbn. intro H; inversion H; subst. split; [exact I0|]. split; [reflexivity|]. discriminate.
  - pose proof (delete_loop_spec sel zero (m_rds m) (m_hdr m) []) as LS.
    destruct (delete_loop sel zero (m_rds m) (m_hdr m) []) as [[h1 rds1] evs].
    destruct LS as (E1 & E2 & E3 & E4 & E5 & E6 & E7 & E8 & E9 & E10 & E11 & E12 & E13 & E14 & E15).
    subst rds1. cbn [app] in E2.
    set (t := resolve_time (m_hdr m) o now).
    assert (Lt : in_i64 t) by (apply resolve_time_ok; exact Ht).
    set (rds1 := after_del sel (m_rds m)).
    set (h2 := set_mtime h1 t).
    set (h3 := if compact then set_datasize h2 (calc_data_size h2 rds1) else h2).
    set (dels := filter (del sel) (m_rds m)).
    (* facts about the new header *)
    assert (H3 : h_launch h3 = h_launch (m_hdr m) /\ h_magic h3 = h_magic (m_hdr m) /\
                 h_version h3 = h_version (m_hdr m) /\ h_id h3 = h_id (m_hdr m) /\
                 h_ctime h3 = h_ctime (m_hdr m) /\ h_mtime h3 = t /\
                 h_free h3 = h_free (m_hdr m) + Z.of_nat (length dels) /\
                 h_total h3 = h_total (m_hdr m) /\ h_descoff h3 = h_descoff (m_hdr m) /\
                 h_descsize h3 = h_descsize (m_hdr m) /\ h_dataoff h3 = h_dataoff (m_hdr m) /\
                 h_arch h3 = h_arch h1 /\
                 h_datasize h3 = (if compact then data_end (m_hdr m) rds1 - h_dataoff (m_hdr m)
                                  else h_datasize (m_hdr m))).
    { assert (Hd2 : h_dataoff h2 = h_dataoff (m_hdr m)) by (unfold h2; cbn; exact E14).
      unfold h3. destruct compact.
      - cbn [set_datasize h_launch h_magic h_version h_id h_ctime h_mtime h_free h_total h_descoff
             h_descsize h_dataoff h_arch h_datasize].
        unfold calc_data_size, data_end. rewrite Hd2. unfold h2, dels. cbn.
        repeat split; auto; try congruence.
      - unfold h2, dels. cbn. repeat split; auto; try congruence. }
    destruct H3 as (G1 & G2 & G3 & G4 & G5 & G6 & G7 & G8 & G9 & G10 & G11 & G12 & G13).
    (* surviving objects *)
    assert (Surv : forall i d, used_at rds1 i d -> used_at (m_rds m) i d /\ del sel d = false)
      by (intros i d; apply used_at_after_del).
    assert (EndLe : data_end (m_hdr m) rds1 <= h_dataoff (m_hdr m) + h_datasize (m_hdr m)).
    { apply data_end_upper.
      - pose proof (wf_datasize _ W). lia.
      - intros d Hin Hu. destruct (in_after_del_used _ _ _ Hin Hu) as [Hin' _].
        apply In_nth_error in Hin' as [i Hi]. apply (wf_layout _ W i d (conj Hi Hu)). }
    assert (EndGe : h_dataoff (m_hdr m) <= data_end (m_hdr m) rds1) by apply data_end_ge.
    assert (W' : wf_mem (mkM h3 rds1 (populate_minids rds1))).
    { pose proof (wf_h _ W) as Wh. unfold wf_header in Wh.
      pose proof (count_unused_after_del sel (m_rds m)) as CU. fold rds1 dels in CU.
      pose proof (count_unused_le rds1) as CL.
      assert (Len : length rds1 = length (m_rds m)) by (unfold rds1, after_del; apply map_length).
      pose proof (wf_free _ W) as Wf. pose proof (wf_total _ W) as Wt.
      pose proof (wf_bound _ W) as Wb. pose proof (wf_datasize _ W) as Wz.
      pose proof (wf_dataoff _ W) as Wo. pose proof (wf_descoff _ W) as Wdo.
      pose proof (wf_descsize _ W) as Wds.
      constructor; cbn [m_hdr m_rds m_minids].
      - unfold wf_header. rewrite G1, G2, G3, G4, G5, G6, G7, G8, G9, G10, G11, G12, G13.
        assert (length (h_arch h1) = 3%nat).
        { rewrite E4. destruct (any_primary_deleted sel (m_rds m)); [reflexivity | tauto]. }
        unfold in_i64 in *. destruct compact; repeat split; try tauto; try lia.
      - rewrite G2. apply (wf_magic _ W).
      - rewrite G3. apply (wf_version _ W).
      - apply wf_after_del, (wf_rds _ W).
      - rewrite G8, Len. exact Wt.
      - rewrite G8, G10. exact Wds.
      - rewrite G9. exact Wdo.
      - rewrite G9, G10, G11. exact Wo.
      - rewrite G7. lia.
      - rewrite G13. destruct compact; lia.
      - rewrite G11, G13. destruct compact; lia.
      - intros i d U. destruct (Surv i d U) as [U0 _]. apply (wf_ids _ W i d U0).
      - intros i d U. destruct (Surv i d U) as [U0 _].
        destruct (wf_layout _ W i d U0) as (L1 & L2 & L3). rewrite G11, G13.
        split; [exact L1|]. split; [exact L2|]. destruct compact; [|exact L3].
        assert (d_off d + d_size d <= data_end (m_hdr m) rds1).
        { destruct U as [Hn Hu]. apply data_end_member; [eapply nth_error_In; eauto | exact Hu]. }
        lia.
      - intros i j di dj Nij Ui Uj Si Sj. destruct (Surv i di Ui) as [Ui0 _], (Surv j dj Uj) as [Uj0 _].
        apply (wf_disjoint _ W i j); auto.
      - apply populate_ok.
      - apply populate_sorted. }
    pose proof (wf_descoff _ W) as Wdo. pose proof (wf_dataoff _ W) as Wo.
    pose proof (wf_descsize _ W) as Wds. pose proof (wf_total _ W) as Wt.
    assert (Dnn : 0 <= h_dataoff (m_hdr m)) by lia.
    (* the storage *)
    set (n := Z.to_nat (h_dataoff h3 + h_datasize h3)).
    set (evs1 := if compact then evs ++ [EvResize n] else evs).
    set (st := f_bytes io) in *.
    set (stz := if zero then zero_store dels st else st).
    set (str := if compact then resized n stz else stz).
    assert (Run : exists p, run_events b evs1 io = (mkF str p, true)).
    { unfold evs1, str. assert (Rz : exists p, run_events b evs io = (mkF stz p, true)).
      { rewrite E2. unfold stz. destruct zero.
        - apply run_zero_events.
        - destruct io; simpl; eauto. }
      destruct Rz as [pz Rz]. destruct compact.
      - rewrite run_events_app, Rz. destruct (run_resize b n (mkF stz pz)) as [p ->]. eauto.
      - eauto. }
    destruct Run as [pr Run].
    assert (Hoff : h_descoff h3 = h_descoff h3) by reflexivity.
    unfold exec.
    destruct (run_table_header b h3 h3 rds1 evs1 io (mkF str pr) Hoff Run) as [p E].
    fold evs1. rewrite E. cbn [f_bytes].
    intro H; inversion H; subst s' r; clear H. unfold Inv. cbn [s_mem s_io m_hdr m_rds f_bytes].
    (* deleted objects with data lie in the file and are disjoint from survivors *)
    assert (DelIn : forall d, In d dels -> 0 < d_size d ->
                     0 <= d_off d /\ d_off d + d_size d <= Z.of_nat (length st)).
    { intros d Hd Sd. destruct (in_filter_del _ _ _ Hd) as (Hin & Hu & _).
      apply In_nth_error in Hin as [i Hi].
      pose proof (wf_layout _ W i d (conj Hi Hu)) as (L1 & _).
      pose proof (coh_infile _ _ C i d (conj Hi Hu) Sd). lia. }
    destruct (zero_store_spec dels st DelIn) as [ZL ZF].
    assert (LenZ : length stz = length st) by (unfold stz; destruct zero; auto).
    (* regions below the data section, and regions of survivors, pass through the zeroing *)
    assert (ZLow : forall a k, (a + k <= length st)%nat ->
                    Z.of_nat (a + k) <= h_dataoff (m_hdr m) -> nread a k stz = nread a k st).
    { intros a k Hin Hlow. unfold stz. destruct zero; [|reflexivity]. apply ZF; [exact Hin|].
      intros d Hd Sd. left. destruct (in_filter_del _ _ _ Hd) as (Hi & Hu & _).
      apply In_nth_error in Hi as [i Hi]. pose proof (wf_layout _ W i d (conj Hi Hu)) as (L1 & _). lia. }
    assert (ZSurv : forall i d, used_at rds1 i d -> 0 < d_size d ->
                    nread (Z.to_nat (d_off d)) (Z.to_nat (d_size d)) stz =
                    nread (Z.to_nat (d_off d)) (Z.to_nat (d_size d)) st).
    { intros i d U S. destruct (Surv i d U) as [U0 D0]. unfold stz. destruct zero; [|reflexivity].
      destruct (live_region_nat m st i d W C U0 S) as [R1 R2].
      apply ZF; [lia|]. intros y Hx Sx. destruct (in_filter_del _ _ _ Hx) as (Hi & Hu & Dx).
      apply In_nth_error in Hi as [j Hj].
      assert (Nij : i <> j).
      { intro; subst j. destruct U0 as [Hn _]. assert (y = d) by congruence. subst y. congruence. }
      pose proof (wf_layout _ W i d U0) as (L1 & _).
      destruct (wf_disjoint _ W i j d y Nij U0 (conj Hj Hu) S Sx); lia. }
    (* table and header regions *)
    pose proof (coherent_len_hdr _ _ W C) as LH.
    assert (Nge : compact = true -> h_dataoff (m_hdr m) <= Z.of_nat n).
    { intro Cc. unfold n. rewrite G11, G13, Cc. lia. }
    assert (RLow : forall a k, (a + k <= length st)%nat ->
                    Z.of_nat (a + k) <= h_dataoff (m_hdr m) -> nread a k str = nread a k st).
    { intros a k Hin Hlow. unfold str. destruct compact; [|now apply ZLow].
      rewrite resized_frame; [now apply ZLow | lia | specialize (Nge eq_refl); lia]. }
    assert (RSurv : forall i d, used_at rds1 i d -> 0 < d_size d ->
                    nread (Z.to_nat (d_off d)) (Z.to_nat (d_size d)) str =
                    nread (Z.to_nat (d_off d)) (Z.to_nat (d_size d)) st).
    { intros i d U S. destruct (Surv i d U) as [U0 D0].
      destruct (live_region_nat m st i d W C U0 S) as [R1 R2].
      unfold str. destruct compact eqn:Cc; [|now apply (ZSurv i)].
      rewrite resized_frame; [now apply (ZSurv i) | lia |].
      unfold n. rewrite G11, G13.
      assert (d_off d + d_size d <= data_end (m_hdr m) rds1).
      { destruct U as [Hn Hu]. apply data_end_member; [eapply nth_error_In; eauto | exact Hu]. }
      pose proof (wf_layout _ W i d U0) as (L1 & _). lia. }
    assert (LenR : (length st <= length str \/ compact = true)%nat).
    { unfold str. destruct compact; [right; reflexivity | left; lia]. }
    assert (InR : forall i d, used_at rds1 i d -> 0 < d_size d ->
                  d_off d + d_size d <= Z.of_nat (length str)).
    { intros i d U S. destruct (Surv i d U) as [U0 _].
      pose proof (coh_infile _ _ C i d U0 S) as I1. fold st in I1.
      unfold str. destruct compact eqn:Cc; [|lia].
      rewrite length_resized. unfold n. rewrite G11, G13.
      assert (d_off d + d_size d <= data_end (m_hdr m) rds1).
      { destruct U as [Hn Hu]. apply data_end_member; [eapply nth_error_In; eauto | exact Hu]. }
      lia. }
    assert (Ho : 128 <= h_descoff h3) by (rewrite G9; exact Wdo).
    destruct (after_table_header_spec b h3 rds1 str (wf_h _ W') (wf_rds _ W') Ho) as (S1 & S2 & S3 & S4).
    set (st' := after_table_header b h3 rds1 str) in *.
    assert (Len1 : length rds1 = length (m_rds m)) by (unfold rds1, after_del; apply map_length).
    split; [split; [exact W'|]|].
    { constructor; cbn [m_hdr m_rds]; [exact S1 | exact S2 |].
      intros i d U S. specialize (InR i d U S). lia. }
    split; [congruence|]. intros _.
    split; [reflexivity|]. split; [|split].
    + (* survivors keep their bytes *)
      intros i d U. destruct (Z_lt_le_dec 0 (d_size d)) as [S|S].
      * destruct (Surv i d U) as [U0 _].
        destruct (live_region_nat m st i d W C U0 S) as [R1 R2].
        rewrite S4; [now apply (RSurv i) | specialize (InR i d U S); lia |].
        rewrite G9, Len1. exact R2.
      * replace (Z.to_nat (d_size d)) with O by lia. reflexivity.
    + (* compaction: the file ends at the end of the data section *)
      intro Cc.
      assert (Ls : length str = n) by (unfold str; rewrite Cc; apply length_resized).
      assert (Le : (length st' = length str)%nat).
      { (* table and header are rewritten inside the file *)
        unfold st', after_table_header.
        assert (T : (Z.to_nat (h_descoff h3) + length (enc_table rds1) <= length str)%nat).
        { rewrite length_enc_table by apply (wf_rds _ W'). rewrite Ls, G9, Len1.
          specialize (Nge Cc). lia. }
        rewrite length_bwrite_inside; rewrite length_bwrite_inside; auto.
        rewrite length_enc_header by apply (wf_h _ W'). rewrite Ls. specialize (Nge Cc). lia. }
      rewrite Le, Ls. unfold n. rewrite G11, G13, Cc. unfold data_end at 2. rewrite G11.
      fold (data_end (m_hdr m) rds1). lia.
    + (* zeroing *)
      intros Zc Cc d Hin Dd Sd.
      assert (Hd : In d dels) by (apply filter_In; auto).
      destruct (DelIn d Hd Sd) as [Od Ed].
      assert (Hu : d_used d = true) by (unfold del in Dd; now apply andb_true_iff in Dd as [Dd _]).
      apply In_nth_error in Hin as [i Hi].
      pose proof (wf_layout _ W i d (conj Hi Hu)) as (L1 & _).
      rewrite S4.
      * unfold str, stz. rewrite Cc, Zc.
        (* the zero write of d survives the zero writes of the others *)
        clear - Hd Sd DelIn W Hi Hu dels Od Ed.
        assert (G : forall l (s0 : store),
                  (forall x, In x l -> 0 < d_size x -> 0 <= d_off x /\ d_off x + d_size x <= Z.of_nat (length s0)) ->
                  (forall x, In x l -> 0 < d_size x ->
                       (d_off d + d_size d <= d_off x \/ d_off x + d_size x <= d_off d) \/
                       (d_off x = d_off d /\ d_size x = d_size d)) ->
                  (In d l \/ nread (Z.to_nat (d_off d)) (Z.to_nat (d_size d)) s0 = zeros (Z.to_nat (d_size d))) ->
                  d_off d + d_size d <= Z.of_nat (length s0) ->
                  nread (Z.to_nat (d_off d)) (Z.to_nat (d_size d)) (zero_store l s0) = zeros (Z.to_nat (d_size d))).
        { induction l as [|x l IH]; intros s0 Hin Hdis Hor He; cbn [zero_store fold_left].
          - destruct Hor as [[]|Hz]. exact Hz.
          - fold (zero_store l (bwrite BFile (Z.to_nat (d_off x)) (zeros (Z.to_nat (d_size x))) s0)).
            set (s1 := bwrite BFile (Z.to_nat (d_off x)) (zeros (Z.to_nat (d_size x))) s0).
            assert (L1 : length s1 = length s0).
            { unfold s1. destruct (Z_lt_le_dec 0 (d_size x)) as [Sx|Sx].
              - apply length_bwrite_inside. rewrite length_zeros.
                destruct (Hin x (or_introl eq_refl) Sx). lia.
              - replace (Z.to_nat (d_size x)) with O by lia. reflexivity. }
            apply IH.
            + intros y Hy Sy. rewrite L1. apply Hin; [right; exact Hy | exact Sy].
            + intros y Hy. apply Hdis. right; exact Hy.
            + assert (Wr : d_off x = d_off d /\ d_size x = d_size d ->
                           nread (Z.to_nat (d_off d)) (Z.to_nat (d_size d)) s1 = zeros (Z.to_nat (d_size d))).
              { intros [Eo Es]. unfold s1. rewrite Eo, Es.
                pose proof (bwrite_read_same BFile (Z.to_nat (d_off d)) (zeros (Z.to_nat (d_size d))) s0) as R.
                rewrite length_zeros in R. exact R. }
              destruct Hor as [[Hx|Hl]|Hz].
              * right. apply Wr. subst x. auto.
              * left. exact Hl.
              * right. destruct (Z_lt_le_dec 0 (d_size x)) as [Sx|Sx].
                -- destruct (Hdis x (or_introl eq_refl) Sx) as [Dj|Same]; [|now apply Wr].
                   unfold s1. rewrite bwrite_frame; [exact Hz | lia |]. rewrite length_zeros.
                   destruct (Hin x (or_introl eq_refl) Sx). lia.
                -- unfold s1. replace (Z.to_nat (d_size x)) with O by lia. exact Hz.
            + rewrite L1. exact He. }
        apply G; auto.
        intros x Hx Sx. destruct (in_filter_del _ _ _ Hx) as (Hix & Hux & _).
        apply In_nth_error in Hix as [j Hj].
        destruct (Nat.eq_dec i j) as [<-|Nij].
        -- right. assert (x = d) by congruence. subst x. auto.
        -- left. destruct (wf_disjoint _ W i j d x Nij (conj Hi Hu) (conj Hj Hux) Sd Sx); lia.
      * assert (length str = length st) by (unfold str; rewrite Cc; exact LenZ). lia.
      * rewrite G9, Len1. lia.
  - cbn. intro H; inversion H; subst. split; [exact I0|]. split; [reflexivity|]. discriminate.
Qed.

End WithDigest.

(* MetaStored.v — from "object di is stored as descriptor d" (InvCreate.stored,
   established by create and add, C01) to what the typed accessors of d
   return: the name, group, and type-specific metadata that were given. *)
From Coq Require Import List ZArith Bool Lia.
From Coq.Init Require Import Byte.
From Sif Require Import Bytes BytesFacts Store Format Image Meta MetaFacts InvSet InvAdd InvCreate SignFacts.
Import ListNotations.
Local Open Scope Z_scope.

(* adding (or creating with) a primary system partition for architecture `name` makes
   PrimaryArch() answer `name`; any other object leaves the answer as it was *)
Theorem primary_arch_of_new_partition h h' di fs name :
  opt_partition (di_type di) fs PartPrimSys name = Some (di_md di) ->
  h_arch h' = new_arch h di -> primary_arch h' = name.
Proof.
  intros O E. unfold opt_partition in O.
  destruct (Z.eqb_spec (di_type di) DataPartition) as [T|]; [|discriminate]. cbn [negb] in O.
  destruct (bytes_eqb (get_sif_arch name) arch_unknown) eqn:U; [discriminate|].
  inversion O as [M]. apply primary_arch_roundtrip.
  - intro C. rewrite C, bytes_eqb_refl in U. discriminate.
  - rewrite E. unfold new_arch. rewrite <- M. now rewrite Z.eqb_refl.
Qed.

Theorem primary_arch_unchanged h h' di :
  (forall fs a, di_md di <> MdPart fs PartPrimSys a) ->
  h_arch h' = new_arch h di -> primary_arch h' = primary_arch h.
Proof.
  intros N E. unfold primary_arch. rewrite E. unfold new_arch.
  destruct (di_md di) as [|fs pt a| | |] eqn:M; try reflexivity.
  destruct (Z.eqb_spec pt PartPrimSys) as [->|]; [exfalso; now apply (N fs a)|reflexivity].
Qed.

Section WithDigest.
Variable sha256 : list byte -> list byte.
Variable sha_len : forall c, length (sha256 c) = 32%nat.

Lemma stored_raw_extra di t old d st bs :
  stored sha256 di t old d st -> di_md di = MdRaw bs -> (length bs <= 384)%nat ->
  d_extra d = pad_to 384 bs.
Proof.
  intros S E L. pose proof (sto_extra _ _ _ _ _ _ S) as X. rewrite E in X. cbn [new_extra] in X.
  destruct (Nat.ltb_spec 384 (length bs)); [lia|]. now inversion X.
Qed.

Theorem stored_name di t old d st :
  stored sha256 di t old d st ->
  (length (di_name di) <= 128)%nat -> last (di_name di) x01 <> x00 ->
  name_of d = di_name di.
Proof. intros S L N. apply name_roundtrip; [exact L | exact N | apply (sto_name _ _ _ _ _ _ S)]. Qed.

Theorem stored_group di t old d st :
  stored sha256 di t old d st -> 0 <= di_group di < 2 ^ 28 -> group_of d = di_group di.
Proof. intros S R. unfold group_of. rewrite (sto_group _ _ _ _ _ _ S). now apply group_of_raw_lor. Qed.

Theorem stored_partition di t old d st fs pt name :
  stored sha256 di t old d st ->
  opt_partition (di_type di) fs pt name = Some (di_md di) -> in_i32 fs -> in_i32 pt ->
  partition_metadata d = inl (fs, pt, name).
Proof.
  intros S O Hf Hp. unfold opt_partition in O.
  destruct (Z.eqb_spec (di_type di) DataPartition) as [T|]; [|discriminate]. cbn [negb] in O.
  destruct (bytes_eqb (get_sif_arch name) arch_unknown) eqn:U; [discriminate|].
  inversion O as [M]. apply partition_roundtrip; try assumption.
  - now rewrite (sto_type _ _ _ _ _ _ S).
  - intro C. rewrite C, bytes_eqb_refl in U. discriminate.
  - pose proof (sto_extra _ _ _ _ _ _ S) as X. rewrite <- M in X. cbn [new_extra] in X. now inversion X.
Qed.

Theorem stored_signature di t old d st h fp :
  stored sha256 di t old d st ->
  opt_signature (di_type di) h fp = Some (di_md di) ->
  supported_hash h -> length fp = 20%nat -> all_zero fp = false ->
  signature_metadata d = inl (h, Some fp).
Proof.
  intros S O Hh L NZ. unfold opt_signature in O.
  destruct (Z.eqb_spec (di_type di) DataSignature) as [T|]; [|discriminate]. inversion O as [M].
  apply signature_roundtrip; try assumption.
  - now rewrite (sto_type _ _ _ _ _ _ S).
  - apply (stored_raw_extra _ _ _ _ _ _ S (eq_sym M)).
    unfold enc_signature. rewrite app_length, length_le_enc, length_pad_to by lia. lia.
Qed.

Theorem stored_crypto di t old d st ft mt :
  stored sha256 di t old d st ->
  opt_crypto (di_type di) ft mt = Some (di_md di) -> in_i32 ft -> in_i32 mt ->
  crypto_metadata d = inl (ft, mt).
Proof.
  intros S O Hf Hm. unfold opt_crypto in O.
  destruct (Z.eqb_spec (di_type di) DataCryptoMessage) as [T|]; [|discriminate]. inversion O as [M].
  apply crypto_roundtrip; try assumption.
  - now rewrite (sto_type _ _ _ _ _ _ S).
  - apply (stored_raw_extra _ _ _ _ _ _ S (eq_sym M)).
    unfold enc_crypto. rewrite app_length, !length_le_enc. lia.
Qed.

Theorem stored_sbom di t old d st f :
  stored sha256 di t old d st ->
  opt_sbom (di_type di) f = Some (di_md di) -> in_i32 f ->
  sbom_metadata d = inl f.
Proof.
  intros S O Hf. unfold opt_sbom in O.
  destruct (Z.eqb_spec (di_type di) DataSBOM) as [T|]; [|discriminate]. inversion O as [M].
  apply sbom_roundtrip; try assumption.
  - now rewrite (sto_type _ _ _ _ _ _ S).
  - apply (stored_raw_extra _ _ _ _ _ _ S (eq_sym M)). unfold enc_sbom. rewrite length_le_enc. lia.
Qed.

Lemma hex_of_byte_lower b : forallb is_lower_hex (hex_of_byte b) = true.
Proof. destruct b; vm_compute; reflexivity. Qed.

Lemma hex_of_lower bs : forallb is_lower_hex (hex_of bs) = true.
Proof.
  induction bs as [|b r IH]; [reflexivity|].
  unfold hex_of. cbn [flat_map]. rewrite forallb_app, hex_of_byte_lower. exact IH.
Qed.

Lemma oci_text_valid c : valid_digest_text (oci_text sha256 c) = true.
Proof.
  unfold valid_digest_text, oci_text, sha256_prefix. cbn [app firstn skipn length].
  rewrite bytes_eqb_refl, length_hex_of, sha_len, hex_of_lower. reflexivity.
Qed.

(* OCI blobs and root indexes: OCIBlobDigest() is "sha256:" + hex(sha256(content stored)) *)
Theorem stored_oci_digest di t old d st :
  stored sha256 di t old d st -> di_md di = MdOCI ->
  di_type di = DataOCIBlob \/ di_type di = DataOCIRootIndex ->
  oci_digest d = inl (oci_text sha256 (di_content di)).
Proof.
  intros S M T. apply oci_digest_roundtrip.
  - now rewrite (sto_type _ _ _ _ _ _ S).
  - apply oci_text_valid.
  - apply (stored_oci sha256 _ _ _ _ _ S M).
Qed.

End WithDigest.

(* C04Facts.v — tamper evidence: whatever Verify accepts is, field by field
   and byte by byte, what the opened signature's metadata was computed from —
   or a collision of the digest function has been exhibited. *)
From Coq Require Import List ZArith Lia Bool.
From Coq.Init Require Import Byte.
From Sif Require Import Bytes BytesFacts Store Format Image SelectFacts Integrity StreamFacts IntegFacts.
Import ListNotations.
Local Open Scope Z_scope.

Section C04.

Variable hash : halg -> list byte -> list byte.
Variable classify : list byte -> sigkind.
Variable is_legacy : list byte -> bool.
Variable open_dsse : Z -> list byte -> option (list byte * list Z).
Variable open_pgp : list byte -> option (list byte * list byte).
Variable parse_md : list byte -> option imd.
Variable has_dsse_keys : bool.
Variable has_pgp_keys : bool.

Local Notation dmatch := (digest_matches hash).
Local Notation vfy := (verify hash classify is_legacy open_dsse open_pgp parse_md has_dsse_keys has_pgp_keys).
Local Notation accepted := (sig_accepted hash open_dsse open_pgp parse_md).

(* two different inputs with the same digest *)
Definition collision (a : halg) : Prop := exists x y, x <> y /\ hash a x = hash a y.

Lemma hash_eq_or_collision a x y : hash a x = hash a y -> x = y \/ collision a.
Proof.
  intro H. destruct (bytes_eqb x y) eqn:E.
  - left. now apply bytes_eqb_eq.
  - right. exists x, y. split; [|exact H]. intro Heq. apply bytes_eqb_eq in Heq. congruence.
Qed.

Lemma digest_matches_of a x y : dmatch (digest_of hash a x) y = true -> hash a x = hash a y.
Proof. unfold digest_matches, digest_of. cbn [dg_val dg_alg]. apply bytes_eqb_eq. Qed.

Lemma Forall_or {A} (P : A -> Prop) (C : Prop) l : Forall (fun x => C \/ P x) l -> C \/ Forall P l.
Proof.
  induction 1 as [|x l [Hc|Hx] _ [IHc|IH]]; auto.
Qed.

(* what getImageMetadata puts into the signed payload *)
Definition omd_of (a : halg) (st0 : store) (minid0 : Z) (p0 : rdesc * Z) : omd :=
  mkOMD (wrap_u32 (d_id (fst p0) - minid0))
        (digest_of hash a (desc_stream (fst p0) (snd p0)))
        (digest_of hash a (obj_bytes (fst p0) st0)).

Lemma image_metadata_shape m0 st0 minid0 ods0 a im :
  image_metadata hash m0 st0 minid0 ods0 a = inl im ->
  im_header im = digest_of hash a (header_stream (m_hdr m0)) /\
  im_objects im = map (omd_of a st0 minid0) ods0 /\
  Forall (fun p0 => minid0 <= d_id (fst p0)) ods0.
Proof.
  unfold image_metadata. destruct (existsb _ ods0) eqn:E; [discriminate|]. intros [= <-].
  cbn [im_header im_objects]. split; [reflexivity|]. split; [reflexivity|].
  apply Forall_forall. intros p0 Hin.
  destruct (Z.ltb_spec (d_id (fst p0)) minid0) as [Hlt|Hge]; [|exact Hge].
  exfalso. assert (existsb (fun p => d_id (fst p) <? minid0) ods0 = true); [|congruence].
  apply existsb_exists. exists p0. split; [exact Hin|]. now apply Z.ltb_lt.
Qed.

Definition wf_ods (ods : list (rdesc * Z)) : Prop :=
  Forall (fun p => wf_desc (fst p) /\ in_u32 (snd p)) ods.

(* one verified object against the signer's objects *)
Definition same_as_signed (st st0 : store) (minid minid0 : Z) (ods0 : list (rdesc * Z)) (p : rdesc * Z) : Prop :=
  exists p0, In p0 ods0 /\
             d_id (fst p) = wrap_u32 (minid + wrap_u32 (d_id (fst p0) - minid0)) /\
             desc_protected_eq (fst p) (snd p) (fst p0) (snd p0) /\
             section_bytes (fst p) st = inl (obj_bytes (fst p0) st0).

Theorem tamper_evidence m st g ods sub sig kind o im minid m0 st0 minid0 ods0 a :
  accepted m st g ods sub sig kind o im minid ->
  image_metadata hash m0 st0 minid0 ods0 a = inl im ->
  wf_header (m_hdr m) -> wf_header (m_hdr m0) -> wf_ods ods -> wf_ods ods0 ->
  collision a \/
  (header_protected_eq (m_hdr m) (m_hdr m0) /\ Forall (same_as_signed st st0 minid minid0 ods0) ods).
Proof.
  intros A IM Wh Wh0 Wo Wo0. destruct (image_metadata_shape _ _ _ _ _ _ IM) as (Hh & Hobj & _).
  (* header *)
  pose proof (sa_header _ _ _ _ _ _ _ _ _ _ _ _ _ _ A) as HD. rewrite Hh in HD.
  apply digest_matches_of in HD. apply hash_eq_or_collision in HD as [HD|C]; [|now left].
  assert (HP : header_protected_eq (m_hdr m) (m_hdr m0)).
  { apply header_stream_inj; auto. }
  (* objects *)
  pose proof (sa_objects _ _ _ _ _ _ _ _ _ _ _ _ _ _ A) as HO. rewrite Hobj in HO.
  assert (HF : Forall (fun p => collision a \/ same_as_signed st st0 minid minid0 ods0 p) ods).
  { apply Forall_forall. intros p Hp.
    rewrite Forall_forall in HO. destruct (HO p Hp) as (id & om & c & F & D1 & S & D2).
    apply find_some in F as [Fin Fid]. cbn [fst] in Fid. apply Z.eqb_eq in Fid.
    apply in_map_iff in Fin as (om' & [= <- <-] & Hom).
    apply in_map_iff in Hom as (p0 & <- & Hp0).
    unfold omd_of in D1, D2, Fid. cbn [om_desc om_obj om_relid] in D1, D2, Fid.
    apply digest_matches_of in D1. apply digest_matches_of in D2.
    apply hash_eq_or_collision in D1 as [D1|C]; [|now left].
    apply hash_eq_or_collision in D2 as [D2|C]; [|now left].
    right. exists p0. split; [exact Hp0|]. split; [now symmetry|].
    unfold wf_ods in Wo, Wo0. rewrite Forall_forall in Wo, Wo0.
    destruct (Wo p Hp) as [Wd Wr]. destruct (Wo0 p0 Hp0) as [Wd0 Wr0]. split.
    - symmetry in D1. apply desc_stream_inj in D1; auto.
    - rewrite S. now rewrite D2. }
  apply Forall_or in HF as [C|HF]; [now left|]. right. auto.
Qed.

(* end to end: a successful strict Verify over current-format tasks *)
Definition group_task (t : task) : Prop := match t with TGroup _ _ _ => True | _ => False end.

Theorem verified_results_are_accepted m st ts rs vr :
  vfy m st strict ts = (rs, None) -> Forall group_task ts -> In vr rs ->
  exists g ods sub sig o im minid,
    In (TGroup g ods sub) ts /\
    (exists sigs, group_signatures is_legacy m st g false = inl sigs /\ In sig sigs) /\
    key_available has_dsse_keys has_pgp_keys (classify (obj_bytes sig st)) /\
    accepted m st g ods sub sig (classify (obj_bytes sig st)) o im minid /\
    vr = mkVR (d_id sig) (map (fun p => d_id (fst p)) ods) (op_keys o) (op_entity o) None.
Proof.
  intros V G Hin. destruct (verify_ok _ _ _ _ _ _ _ _ _ _ _ _ V) as (_ & -> & Hall).
  apply in_all_results in Hin as (t & sigs & sig & Ht & TS & Hs & ->).
  rewrite Forall_forall in G, Hall. specialize (G t Ht).
  destruct t as [g ods sub| |]; try contradiction.
  destruct (Hall _ Ht) as (sigs' & TS' & _ & Hok). rewrite TS in TS'. injection TS' as <-.
  rewrite Forall_forall in Hok. destruct (Hok sig Hs) as [Hk He].
  unfold sig_result in He |- *. cbn [verify_sig] in He |- *.
  destruct (verify_group_sig_sound _ _ _ _ _ _ _ _ _ _ _ He) as (o & im & minid & A & ->).
  exists g, ods, sub, sig, o, im, minid.
  split; [exact Ht|]. split; [exists sigs; auto|]. split; [exact Hk|]. split; [exact A | reflexivity].
Qed.

End C04.

(* ImageFacts.v — facts about the helper functions of Image.v: slot update,
   first unused slot, the minimum-ID cache, data_end. *)
From Coq Require Import List ZArith Lia Bool.
From Coq.Init Require Import Byte.
From Sif Require Import Bytes BytesFacts Store Format FormatFacts Image.
Import ListNotations.
Local Open Scope Z_scope.

(* ---------- set_nth ---------- *)

Lemma length_set_nth {A} i (x : A) l : length (set_nth i x l) = length l.
Proof. revert i; induction l as [|y l IH]; intros [|i]; simpl; auto. Qed.

Lemma nth_error_set_nth_eq {A} i (x : A) l :
  (i < length l)%nat -> nth_error (set_nth i x l) i = Some x.
Proof.
  revert i; induction l as [|y l IH]; intros [|i] H; simpl in *; try lia; auto.
  apply IH. lia.
Qed.

Lemma nth_error_set_nth_neq {A} i j (x : A) l :
  i <> j -> nth_error (set_nth i x l) j = nth_error l j.
Proof.
  revert i j; induction l as [|y l IH]; intros [|i] [|j] H; simpl; auto; try congruence.
Qed.

Lemma nth_error_set_nth {A} i j (x : A) l :
  nth_error (set_nth i x l) j =
    if Nat.eqb i j then (if Nat.ltb i (length l) then Some x else None) else nth_error l j.
Proof.
  destruct (Nat.eqb_spec i j) as [->|N].
  - destruct (Nat.ltb_spec j (length l)).
    + now apply nth_error_set_nth_eq.
    + apply nth_error_None. rewrite length_set_nth. lia.
  - now apply nth_error_set_nth_neq.
Qed.

Lemma Forall_set_nth {A} (P : A -> Prop) i x l :
  Forall P l -> P x -> Forall P (set_nth i x l).
Proof.
  intros Hl Hx. revert i; induction Hl as [|y l Hy Hl IH]; intros [|i]; simpl;
    try constructor; auto.
Qed.

Lemma In_set_nth {A} i (x y : A) l :
  In y (set_nth i x l) -> y = x \/ In y l.
Proof.
  revert i; induction l as [|z l IH]; intros [|i]; simpl; try tauto.
  - intros [<-|H]; auto.
  - intros [<-|H]; auto. destruct (IH _ H); auto.
Qed.

(* ---------- first_unused ---------- *)

Lemma first_unused_le rds : (first_unused rds <= length rds)%nat.
Proof. induction rds as [|d r IH]; simpl; [lia|]. destruct (d_used d); simpl; lia. Qed.

Lemma first_unused_spec rds :
  (forall j d, (j < first_unused rds)%nat -> nth_error rds j = Some d -> d_used d = true) /\
  (forall d, nth_error rds (first_unused rds) = Some d -> d_used d = false).
Proof.
  induction rds as [|x r [IH1 IH2]].
  - split; [intros j d H; simpl in H; lia | intros d H; discriminate].
  - cbn [first_unused]. destruct (d_used x) eqn:U.
    + split.
      * intros [|j] d Hj Hn; cbn [nth_error] in Hn.
        -- now inversion Hn; subst.
        -- apply (IH1 j); [lia|exact Hn].
      * intros d Hn. cbn [nth_error] in Hn. now apply IH2.
    + split; [intros j d H; simpl in H; lia|]. intros d Hn. simpl in Hn. now inversion Hn; subst.
Qed.

(* ---------- counting ---------- *)

Definition count_unused (rds : list rdesc) : nat :=
  length (filter (fun d => negb (d_used d)) rds).

Lemma count_unused_set_nth i d' rds d :
  nth_error rds i = Some d ->
  Z.of_nat (count_unused (set_nth i d' rds)) =
  Z.of_nat (count_unused rds) - (if d_used d then 0 else 1) + (if d_used d' then 0 else 1).
Proof.
  unfold count_unused. revert i; induction rds as [|x r IH]; intros [|i] H;
    cbn [nth_error set_nth filter] in *; try discriminate.
  - inversion H; subst. destruct (d_used d), (d_used d'); cbn [negb length]; lia.
  - specialize (IH _ H). destruct (d_used x); cbn [negb length]; lia.
Qed.

Lemma count_unused_le rds : (count_unused rds <= length rds)%nat.
Proof.
  unfold count_unused. induction rds as [|d r IH]; simpl; [lia|].
  destruct (negb (d_used d)); simpl; lia.
Qed.

Lemma count_unused_repeat_zero n : count_unused (repeat zero_desc n) = n.
Proof. unfold count_unused. induction n; simpl; auto. Qed.

(* ---------- minimum-ID cache ---------- *)

Lemma minid_lookup_set g g' v m :
  minid_lookup g (minid_set g' v m) = if g' =? g then Some v else minid_lookup g m.
Proof.
  induction m as [|[k w] r IH]; simpl.
  - reflexivity.
  - destruct (Z.eqb_spec k g') as [->|Nk].
    + simpl. destruct (Z.eqb_spec g' g); reflexivity.
    + destruct (Z.ltb_spec g' k).
      * simpl. destruct (Z.eqb_spec g' g); [reflexivity|]. reflexivity.
      * simpl. rewrite IH. destruct (Z.eqb_spec k g) as [->|]; [|reflexivity].
        destruct (Z.eqb_spec g' g); [congruence|reflexivity].
Qed.

(* keys strictly increasing: the canonical form *)
Fixpoint keys_above (lo : Z) (m : list (Z * Z)) : Prop :=
  match m with
  | [] => True
  | (k, _) :: r => lo < k /\ keys_above k r
  end.
Definition keys_sorted (m : list (Z * Z)) : Prop :=
  match m with [] => True | (k, _) :: r => keys_above k r end.

Lemma keys_above_weaken lo lo' m : lo' <= lo -> keys_above lo m -> keys_above lo' m.
Proof. destruct m as [|[k v] r]; simpl; [auto|]. intros H [H1 H2]. split; [lia|auto]. Qed.

Lemma keys_above_set lo g v m : lo < g -> keys_above lo m -> keys_above lo (minid_set g v m).
Proof.
  revert lo; induction m as [|[k w] r IH]; intros lo Hg Hm; simpl in *.
  - auto.
  - destruct Hm as [Hk Hr]. destruct (Z.eqb_spec k g) as [->|Nk]; simpl; [auto|].
    destruct (Z.ltb_spec g k); simpl.
    + repeat split; auto.
    + split; [auto|]. apply IH; [lia|auto].
Qed.

Lemma keys_sorted_set g v m : keys_sorted m -> keys_sorted (minid_set g v m).
Proof.
  destruct m as [|[k w] r]; simpl; [auto|]. intro H.
  destruct (Z.eqb_spec k g) as [->|Nk]; simpl; [auto|].
  destruct (Z.ltb_spec g k); simpl.
  - split; auto.
  - apply keys_above_set; [lia|auto].
Qed.

Lemma keys_sorted_note g id m : keys_sorted m -> keys_sorted (minid_note g id m).
Proof.
  intro H. unfold minid_note. destruct (minid_lookup g m); [destruct (id <? z)|]; auto using keys_sorted_set.
Qed.

Lemma keys_above_lookup_none lo g m : g <= lo -> keys_above lo m -> minid_lookup g m = None.
Proof.
  revert lo; induction m as [|[k w] r IH]; intros lo Hg Hm; simpl in *; [reflexivity|].
  destruct Hm as [Hk Hr]. destruct (Z.eqb_spec k g); [lia|]. apply (IH k); [lia|auto].
Qed.

(* two sorted caches with the same lookups are the same list *)
Lemma keys_above_ext lo m1 m2 :
  keys_above lo m1 -> keys_above lo m2 ->
  (forall g, minid_lookup g m1 = minid_lookup g m2) -> m1 = m2.
Proof.
  revert lo m2; induction m1 as [|[k1 v1] r1 IH]; intros lo [|[k2 v2] r2] H1 H2 E; simpl in *.
  - reflexivity.
  - specialize (E k2). simpl in E. rewrite Z.eqb_refl in E. discriminate.
  - specialize (E k1). simpl in E. rewrite Z.eqb_refl in E. discriminate.
  - destruct H1 as [Hk1 Hr1], H2 as [Hk2 Hr2].
    assert (k1 = k2).
    { destruct (Z.lt_trichotomy k1 k2) as [L|[Q|G]]; [|exact Q|].
      - pose proof (E k1) as E1. simpl in E1. rewrite Z.eqb_refl in E1.
        destruct (Z.eqb_spec k2 k1); [lia|].
        rewrite (keys_above_lookup_none k2 k1 r2) in E1 by (auto; lia). discriminate.
      - pose proof (E k2) as E2. simpl in E2. rewrite Z.eqb_refl in E2.
        destruct (Z.eqb_spec k1 k2); [lia|].
        rewrite (keys_above_lookup_none k1 k2 r1) in E2 by (auto; lia). discriminate. }
    subst k2.
    assert (v1 = v2).
    { specialize (E k1). simpl in E. rewrite Z.eqb_refl in E. now inversion E. }
    subst v2. f_equal. apply (IH k1); auto.
    intro g. specialize (E g). simpl in E. destruct (Z.eqb_spec k1 g) as [->|]; [|exact E].
    rewrite (keys_above_lookup_none g g r1), (keys_above_lookup_none g g r2) by (auto; lia).
    reflexivity.
Qed.

Lemma keys_sorted_ext m1 m2 :
  keys_sorted m1 -> keys_sorted m2 ->
  (forall g, minid_lookup g m1 = minid_lookup g m2) -> m1 = m2.
Proof.
  intros H1 H2 E. destruct m1 as [|[k1 v1] r1], m2 as [|[k2 v2] r2]; simpl in *.
  - reflexivity.
  - specialize (E k2). simpl in E. rewrite Z.eqb_refl in E. discriminate.
  - specialize (E k1). simpl in E. rewrite Z.eqb_refl in E. discriminate.
  - apply (keys_above_ext (Z.min k1 k2 - 1)); simpl; auto; split; try lia;
      [apply H1 | apply H2].
Qed.

(* what the cache must say: the minimum ID over live members of each raw group *)
Definition minids_ok (m : list (Z * Z)) (rds : list rdesc) : Prop :=
  forall g,
    match minid_lookup g m with
    | Some v =>
        (exists d, In d rds /\ d_used d = true /\ d_group d = g /\ d_id d = v) /\
        (forall d, In d rds -> d_used d = true -> d_group d = g -> v <= d_id d)
    | None => forall d, In d rds -> d_used d = true -> d_group d <> g
    end.

Lemma minids_ok_unique m1 m2 rds :
  minids_ok m1 rds -> minids_ok m2 rds -> forall g, minid_lookup g m1 = minid_lookup g m2.
Proof.
  intros H1 H2 g. specialize (H1 g). specialize (H2 g).
  destruct (minid_lookup g m1) as [v1|], (minid_lookup g m2) as [v2|]; auto.
  - destruct H1 as [(d1 & I1 & U1 & G1 & E1) L1], H2 as [(d2 & I2 & U2 & G2 & E2) L2].
    specialize (L1 d2 I2 U2 G2). specialize (L2 d1 I1 U1 G1). f_equal. lia.
  - destruct H1 as [(d1 & I1 & U1 & G1 & E1) _]. exfalso. exact (H2 d1 I1 U1 G1).
  - destruct H2 as [(d2 & I2 & U2 & G2 & E2) _]. exfalso. exact (H1 d2 I2 U2 G2).
Qed.

(* noting a new live member keeps the cache right *)
Lemma minids_ok_note m rds rds' d :
  minids_ok m rds -> d_used d = true -> In d rds' ->
  (forall x, In x rds' -> x = d \/ In x rds) ->
  (forall x, In x rds -> d_used x = true -> In x rds') ->
  minids_ok (minid_note (d_group d) (d_id d) m) rds'.
Proof.
  intros Hm Hu Inew Hfwd Hbwd g. unfold minid_note.
  pose proof (Hm (d_group d)) as Hd. pose proof (Hm g) as Hg.
  (* the other groups are unaffected *)
  assert (Other : d_group d <> g ->
            match minid_lookup g m with
            | Some v =>
                (exists x, In x rds' /\ d_used x = true /\ d_group x = g /\ d_id x = v) /\
                (forall x, In x rds' -> d_used x = true -> d_group x = g -> v <= d_id x)
            | None => forall x, In x rds' -> d_used x = true -> d_group x <> g
            end).
  { intro Ng. destruct (minid_lookup g m) as [w|].
    - destruct Hg as [(x & Ix & Ux & Gx & Ex) Lx]. split.
      + exists x. repeat split; auto.
      + intros y Iy Uy Gy. destruct (Hfwd y Iy) as [->|Iy']; [congruence|]. auto.
    - intros y Iy Uy. destruct (Hfwd y Iy) as [->|Iy']; [auto|]. auto. }
  destruct (minid_lookup (d_group d) m) as [v|] eqn:L.
  - destruct (Z.ltb_spec (d_id d) v) as [Lt|Ge].
    + rewrite minid_lookup_set. destruct (Z.eqb_spec (d_group d) g) as [<-|Ng]; [|now apply Other].
      split; [exists d; auto|]. intros x Ix Ux Gx. destruct (Hfwd x Ix) as [->|Ix']; [lia|].
      destruct Hd as [_ Hd]. specialize (Hd x Ix' Ux Gx). lia.
    + destruct (Z.eqb_spec (d_group d) g) as [<-|Ng]; [|now apply Other].
      rewrite L. destruct Hd as [(x & Ix & Ux & Gx & Ex) Lx]. split.
      * exists x. repeat split; auto.
      * intros y Iy Uy Gy. destruct (Hfwd y Iy) as [->|Iy']; [lia|]. auto.
  - rewrite minid_lookup_set. destruct (Z.eqb_spec (d_group d) g) as [<-|Ng]; [|now apply Other].
    split; [exists d; auto|]. intros x Ix Ux Gx. destruct (Hfwd x Ix) as [->|Ix']; [lia|].
    exfalso. exact (Hd x Ix' Ux Gx).
Qed.

(* populate_minids computes a right and sorted cache *)
Lemma populate_sorted_gen rds m :
  keys_sorted m ->
  keys_sorted (fold_left (fun m d => if d_used d then minid_note (d_group d) (d_id d) m else m) rds m).
Proof.
  revert m; induction rds as [|d r IH]; intros m H; simpl; [auto|].
  apply IH. destruct (d_used d); auto using keys_sorted_note.
Qed.

Lemma populate_sorted rds : keys_sorted (populate_minids rds).
Proof. apply populate_sorted_gen. exact I. Qed.

Lemma populate_ok_gen done rest m :
  minids_ok m done ->
  minids_ok (fold_left (fun m d => if d_used d then minid_note (d_group d) (d_id d) m else m) rest m)
            (done ++ rest).
Proof.
  revert done m; induction rest as [|d r IH]; intros done m H; simpl.
  - now rewrite app_nil_r.
  - replace (done ++ d :: r) with ((done ++ [d]) ++ r) by now rewrite <- app_assoc.
    apply IH. destruct (d_used d) eqn:U.
    + apply (minids_ok_note m done); auto.
      * apply in_app_iff. right. simpl. auto.
      * intros x Hx. apply in_app_iff in Hx as [Hx|Hx]; [auto|]. simpl in Hx. destruct Hx as [<-|[]]. auto.
      * intros x Hx _. apply in_app_iff. auto.
    + intro g. specialize (H g). destruct (minid_lookup g m) as [v|].
      * destruct H as [(x & Ix & Ux & Gx & Ex) Lx]. split.
        -- exists x. repeat split; auto. apply in_app_iff; auto.
        -- intros y Iy Uy Gy. apply in_app_iff in Iy as [Iy|Iy]; [auto|].
           simpl in Iy. destruct Iy as [<-|[]]. congruence.
      * intros y Iy Uy. apply in_app_iff in Iy as [Iy|Iy]; [auto|].
        simpl in Iy. destruct Iy as [<-|[]]. congruence.
Qed.

Lemma populate_ok rds : minids_ok (populate_minids rds) rds.
Proof.
  unfold populate_minids. apply (populate_ok_gen [] rds []).
  intro g. simpl. intros d [].
Qed.

(* ---------- data_end ---------- *)

Lemma data_end_fold_ge rds e :
  e <= fold_left (fun e d => if d_used d then Z.max e (d_off d + d_size d) else e) rds e.
Proof.
  revert e; induction rds as [|d r IH]; intro e; simpl; [lia|].
  destruct (d_used d); [|apply IH]. etransitivity; [|apply IH]. lia.
Qed.

Lemma data_end_fold_mono rds e e' :
  e <= e' ->
  fold_left (fun e d => if d_used d then Z.max e (d_off d + d_size d) else e) rds e <=
  fold_left (fun e d => if d_used d then Z.max e (d_off d + d_size d) else e) rds e'.
Proof.
  revert e e'; induction rds as [|d r IH]; intros e e' H; simpl; [lia|].
  apply IH. destruct (d_used d); lia.
Qed.

Lemma data_end_fold_member rds e d :
  In d rds -> d_used d = true ->
  d_off d + d_size d <=
  fold_left (fun e d => if d_used d then Z.max e (d_off d + d_size d) else e) rds e.
Proof.
  revert e; induction rds as [|x r IH]; intros e Hin Hu; simpl in *; [contradiction|].
  destruct Hin as [->|Hin].
  - rewrite Hu. etransitivity; [|apply data_end_fold_ge]. lia.
  - now apply IH.
Qed.

Lemma data_end_ge h rds : h_dataoff h <= data_end h rds.
Proof. apply data_end_fold_ge. Qed.

Lemma data_end_member h rds d :
  In d rds -> d_used d = true -> d_off d + d_size d <= data_end h rds.
Proof. apply data_end_fold_member. Qed.

(* data_end is the start of the data section or the end of some live object *)
Lemma data_end_fold_witness rds e :
  let r := fold_left (fun e d => if d_used d then Z.max e (d_off d + d_size d) else e) rds e in
  r = e \/ exists d, In d rds /\ d_used d = true /\ r = d_off d + d_size d.
Proof.
  revert e; induction rds as [|x r IH]; intro e; simpl; [auto|].
  destruct (d_used x) eqn:U.
  - destruct (IH (Z.max e (d_off x + d_size x))) as [E|(d & I & Ud & E)].
    + destruct (Z.max_spec e (d_off x + d_size x)) as [[_ M]|[_ M]].
      * right. exists x. rewrite E, M. auto.
      * left. rewrite E, M. reflexivity.
    + right. exists d. auto.
  - destruct (IH e) as [E|(d & I & Ud & E)]; [auto|]. right. exists d. auto.
Qed.

Lemma data_end_upper h rds b :
  h_dataoff h <= b ->
  (forall d, In d rds -> d_used d = true -> d_off d + d_size d <= b) ->
  data_end h rds <= b.
Proof.
  intros Hb H. unfold data_end.
  destruct (data_end_fold_witness rds (h_dataoff h)) as [E|(d & I & U & E)]; rewrite E; auto.
Qed.

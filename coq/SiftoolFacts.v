(* SiftoolFacts.v — C15: the commands are the library calls; a failing command
   leaves header, table and every object unchanged; dump emits the object. *)
From Coq Require Import List ZArith Lia Bool.
From Coq.Init Require Import Byte.
From Sif Require Import Bytes BytesFacts Store StoreFacts Format Image Machine SelectFacts Inv InvSet InvAdd
     Reach C02Facts Integrity SignFrame Siftool.
Import ListNotations.
Local Open Scope Z_scope.

Section Facts.

Variable sha256 : list byte -> list byte.
Variable sha_len : forall c, length (sha256 c) = 32%nat.

(* the modifying commands are one library call between load and unload *)
Theorem modifying_command_is_library_call bytes c now rnd :
  (exists fl content, c = CAdd fl content) \/ (exists id, c = CDel id) \/ (exists id, c = CSetPrim id) ->
  run_cmd sha256 bytes c now rnd =
  match cmd_op c now with
  | Some x => with_image sha256 bytes x
  | None => (bytes, Failed)
  end.
Proof. intros [(fl & content & ->)|[(id & ->)|(id & ->)]]; reflexivity. Qed.

(* the read-only commands never change the file *)
Theorem inspecting_command_keeps_file bytes c now rnd :
  (exists id, c = CDump id) \/ (exists id, c = CInfo id) \/ c = CList \/ c = CHeader ->
  fst (run_cmd sha256 bytes c now rnd) = bytes.
Proof.
  intros [(id & ->)|[(id & ->)|[->| ->]]]; cbn [run_cmd].
  - destruct (load_image bytes) as [m|]; [|reflexivity].
    destruct (get_descriptor m [SID id]) as [[d r]|]; [|reflexivity].
    destruct (section_bytes d bytes) as [c|]; [|reflexivity].
    destruct (Z.of_nat (length c) =? d_size d); reflexivity.
  - destruct (load_image bytes) as [m|]; [|reflexivity].
    destruct (get_descriptor m [SID id]); reflexivity.
  - destruct (load_image bytes); reflexivity.
  - destruct (load_image bytes); reflexivity.
Qed.

(* a command that fails leaves the header bytes, the descriptor table bytes and
   the bytes of every object as they were *)
Theorem failed_command_keeps_image bytes c now rnd bytes' m :
  c <> CNew ->
  load_image bytes = inl m -> Inv (mkS m (mkF bytes 0) BFile) ->
  (forall x, cmd_op c now = Some x -> wf_op (mkS m (mkF bytes 0) BFile) x) ->
  run_cmd sha256 bytes c now rnd = (bytes', Failed) ->
  nread 0 128 bytes' = nread 0 128 bytes /\
  nread (Z.to_nat (h_descoff (m_hdr m))) (585 * length (m_rds m)) bytes' =
  nread (Z.to_nat (h_descoff (m_hdr m))) (585 * length (m_rds m)) bytes /\
  forall i d, used_at (m_rds m) i d ->
    nread (Z.to_nat (d_off d)) (Z.to_nat (d_size d)) bytes' = nread (Z.to_nat (d_off d)) (Z.to_nat (d_size d)) bytes.
Proof.
  intros Hc L I Wo R.
  assert (Same : bytes' = bytes ->
    nread 0 128 bytes' = nread 0 128 bytes /\
    nread (Z.to_nat (h_descoff (m_hdr m))) (585 * length (m_rds m)) bytes' =
    nread (Z.to_nat (h_descoff (m_hdr m))) (585 * length (m_rds m)) bytes /\
    forall i d, used_at (m_rds m) i d ->
      nread (Z.to_nat (d_off d)) (Z.to_nat (d_size d)) bytes' = nread (Z.to_nat (d_off d)) (Z.to_nat (d_size d)) bytes)
    by (intros ->; repeat split; reflexivity).
  assert (Mod : forall x, cmd_op c now = Some x -> with_image sha256 bytes x = (bytes', Failed) ->
    nread 0 128 bytes' = nread 0 128 bytes /\
    nread (Z.to_nat (h_descoff (m_hdr m))) (585 * length (m_rds m)) bytes' =
    nread (Z.to_nat (h_descoff (m_hdr m))) (585 * length (m_rds m)) bytes /\
    forall i d, used_at (m_rds m) i d ->
      nread (Z.to_nat (d_off d)) (Z.to_nat (d_size d)) bytes' = nread (Z.to_nat (d_off d)) (Z.to_nat (d_size d)) bytes).
  { intros x Hx. unfold with_image. rewrite L.
    destruct (step sha256 (mkS m (mkF bytes 0) BFile) x) as [s' r] eqn:St.
    destruct r as [|e]; [discriminate|]. intros [= <-].
    destruct (rejected_changes_nothing sha256 sha_len _ x s' (Err e) I (Wo x Hx) St ltac:(discriminate))
      as (_ & H1 & H2 & H3). cbn [s_mem s_io f_bytes] in H1, H2, H3. auto. }
  destruct c as [|fl content|id|id|id|id| | |]; [contradiction| | | | | | | |]; cbn [run_cmd] in R.
  - destruct (cmd_op (CAdd fl content) now) as [x|] eqn:E; [apply (Mod x eq_refl R) | apply Same; congruence].
  - apply (Mod _ eq_refl R).
  - apply (Mod _ eq_refl R).
  - apply Same. pose proof (inspecting_command_keeps_file bytes (CDump id) now rnd) as K.
    cbn [run_cmd] in K. rewrite R in K. cbn [fst] in K. apply K. left. eauto.
  - apply Same. pose proof (inspecting_command_keeps_file bytes (CInfo id) now rnd) as K.
    cbn [run_cmd] in K. rewrite R in K. cbn [fst] in K. apply K. right. left. eauto.
  - apply Same. pose proof (inspecting_command_keeps_file bytes CList now rnd) as K.
    cbn [run_cmd] in K. rewrite R in K. cbn [fst] in K. apply K. auto.
  - apply Same. pose proof (inspecting_command_keeps_file bytes CHeader now rnd) as K.
    cbn [run_cmd] in K. rewrite R in K. cbn [fst] in K. apply K. auto.
  - apply Same. now injection R.
Qed.

(* dump writes exactly the object's bytes: all Size of them, for any content *)
Theorem dump_emits_the_object bytes id now rnd bytes' out m :
  load_image bytes = inl m -> Inv (mkS m (mkF bytes 0) BFile) ->
  run_cmd sha256 bytes (CDump id) now rnd = (bytes', Done out) ->
  bytes' = bytes /\
  exists i d r, get_descriptor m [SID id] = inl (d, r) /\ used_at (m_rds m) i d /\ d_id d = id /\
                out = nread (Z.to_nat (d_off d)) (Z.to_nat (d_size d)) bytes /\
                Z.of_nat (length out) = d_size d.
Proof.
  intros L [W C] R. cbn [run_cmd] in R. rewrite L in R.
  destruct (get_descriptor m [SID id]) as [[d r]|] eqn:G; [|discriminate].
  destruct (section_bytes d bytes) as [c|] eqn:S; [|discriminate].
  destruct (Z.eqb_spec (Z.of_nat (length c)) (d_size d)) as [E|]; [|discriminate].
  injection R as <- <-. split; [reflexivity|].
  assert (Hne : h_free (m_hdr m) <> h_total (m_hdr m)).
  { intro E0. rewrite (get_descriptor_empty _ _ E0) in G. discriminate. }
  destruct (get_descriptor_single m [SID id] Hne) as [H1 _]. destruct (H1 d r G) as [HM _].
  assert (Hin : In d (matching (multi_eval [SID id]) (m_rds m))) by (rewrite HM; now left).
  unfold matching in Hin. apply filter_In in Hin as [Hin Hm]. apply andb_true_iff in Hm as [Hu Hm].
  apply is_match_multi in Hm. inversion Hm as [|? ? S0 _]; subst. apply sat_SID in S0 as [_ Hid].
  apply In_nth_error in Hin as [i Ni]. exists i, d, r. split; [reflexivity|]. split; [split; assumption|].
  split; [exact Hid|]. cbn [s_mem s_io f_bytes] in *.
  rewrite (section_bytes_live m bytes i d W C (conj Ni Hu)) in S. injection S as <-. auto.
Qed.

End Facts.

(* Sha2.v — executable SHA-256 on 63-bit machine integers.  Used only to run
   the model in the correspondence checks (OCI blob digests, integrity
   metadata); no theorem depends on it: in theorems the hash is a variable. *)
From Coq Require Import List ZArith Uint63.
From Coq.Init Require Import Byte.
From Sif Require Import Bytes.
Import ListNotations.
Local Open Scope uint63_scope.

Definition m32 : int := 0xffffffff.
Definition add32 (a b : int) : int := (a + b) land m32.
Definition rotr (n : int) (x : int) : int := ((x >> n) lor (x << (32 - n))) land m32.
Definition not32 (x : int) : int := x lxor m32.

Definition ch (x y z : int) := (x land y) lxor (not32 x land z).
Definition maj (x y z : int) := (x land y) lxor (x land z) lxor (y land z).
Definition bsig0 x := rotr 2 x lxor rotr 13 x lxor rotr 22 x.
Definition bsig1 x := rotr 6 x lxor rotr 11 x lxor rotr 25 x.
Definition ssig0 x := rotr 7 x lxor rotr 18 x lxor (x >> 3).
Definition ssig1 x := rotr 17 x lxor rotr 19 x lxor (x >> 10).

Definition K256 : list int :=
 [0x428a2f98;0x71374491;0xb5c0fbcf;0xe9b5dba5;0x3956c25b;0x59f111f1;0x923f82a4;0xab1c5ed5;
  0xd807aa98;0x12835b01;0x243185be;0x550c7dc3;0x72be5d74;0x80deb1fe;0x9bdc06a7;0xc19bf174;
  0xe49b69c1;0xefbe4786;0x0fc19dc6;0x240ca1cc;0x2de92c6f;0x4a7484aa;0x5cb0a9dc;0x76f988da;
  0x983e5152;0xa831c66d;0xb00327c8;0xbf597fc7;0xc6e00bf3;0xd5a79147;0x06ca6351;0x14292967;
  0x27b70a85;0x2e1b2138;0x4d2c6dfc;0x53380d13;0x650a7354;0x766a0abb;0x81c2c92e;0x92722c85;
  0xa2bfe8a1;0xa81a664b;0xc24b8b70;0xc76c51a3;0xd192e819;0xd6990624;0xf40e3585;0x106aa070;
  0x19a4c116;0x1e376c08;0x2748774c;0x34b0bcb5;0x391c0cb3;0x4ed8aa4a;0x5b9cca4f;0x682e6ff3;
  0x748f82ee;0x78a5636f;0x84c87814;0x8cc70208;0x90befffa;0xa4506ceb;0xbef9a3f7;0xc67178f2].

Definition H256_init : list int :=
 [0x6a09e667;0xbb67ae85;0x3c6ef372;0xa54ff53a;0x510e527f;0x9b05688c;0x1f83d9ab;0x5be0cd19].
Definition H224_init : list int :=
 [0xc1059ed8;0x367cd507;0x3070dd17;0xf70e5939;0xffc00b31;0x68581511;0x64f98fa7;0xbefa4fa4].

Definition nth_i (l : list int) (n : nat) : int := nth n l 0.

Record regs := mkR { ra : int; rb : int; rc : int; rd : int; re : int; rf : int; rg : int; rh : int }.

(* one round; win holds W[t .. t+15] *)
Definition round (k : int) (st : list int * regs) : list int * regs :=
  let (win, r) := st in
  let wt := nth_i win 0 in
  let t1 := add32 (add32 (add32 (add32 (rh r) (bsig1 (re r))) (ch (re r) (rf r) (rg r))) k) wt in
  let t2 := add32 (bsig0 (ra r)) (maj (ra r) (rb r) (rc r)) in
  let nw := add32 (add32 (add32 (ssig1 (nth_i win 14)) (nth_i win 9)) (ssig0 (nth_i win 1))) wt in
  (tl win ++ [nw],
   mkR (add32 t1 t2) (ra r) (rb r) (rc r) (add32 (rd r) t1) (re r) (rf r) (rg r)).

Definition compress (h : list int) (block : list int) : list int :=
  let r0 := mkR (nth_i h 0) (nth_i h 1) (nth_i h 2) (nth_i h 3)
                (nth_i h 4) (nth_i h 5) (nth_i h 6) (nth_i h 7) in
  let (_, r) := fold_left (fun st k => round k st) K256 (block, r0) in
  [add32 (nth_i h 0) (ra r); add32 (nth_i h 1) (rb r); add32 (nth_i h 2) (rc r);
   add32 (nth_i h 3) (rd r); add32 (nth_i h 4) (re r); add32 (nth_i h 5) (rf r);
   add32 (nth_i h 6) (rg r); add32 (nth_i h 7) (rh r)].

Definition int_of_byte (b : byte) : int := Uint63.of_Z (byte_to_Z b).
Definition byte_of_int (i : int) : byte := Z_to_byte (Uint63.to_Z (i land 0xff)).

(* big-endian 32-bit words of a byte string whose length is a multiple of 4 *)
Fixpoint words_be (bs : list byte) : list int :=
  match bs with
  | a :: b :: c :: d :: r =>
      ((int_of_byte a << 24) lor (int_of_byte b << 16) lor (int_of_byte c << 8) lor int_of_byte d)
        :: words_be r
  | _ => []
  end.

Definition word_bytes (w : int) : list byte :=
  [byte_of_int (w >> 24); byte_of_int (w >> 16); byte_of_int (w >> 8); byte_of_int w].

Fixpoint be_bytes (k : nat) (z : Z) (acc : list byte) : list byte :=
  match k with
  | O => acc
  | S k' => be_bytes k' (z / 256) (Z_to_byte z :: acc)
  end.

Definition pad256 (msg : list byte) : list byte :=
  let l := length msg in
  let r := Nat.modulo (l + 1) 64 in
  let z := if Nat.leb r 56 then (56 - r)%nat else (120 - r)%nat in
  msg ++ x80 :: repeat x00 z ++ be_bytes 8 (8 * Z.of_nat l) [].

Fixpoint blocks (fuel : nat) (ws : list int) (h : list int) : list int :=
  match fuel with
  | O => h
  | S f =>
      match ws with
      | [] => h
      | _ => blocks f (skipn 16 ws) (compress h (firstn 16 ws))
      end
  end.

Definition sha2_32 (init : list int) (outw : nat) (msg : list byte) : list byte :=
  let ws := words_be (pad256 msg) in
  flat_map word_bytes (firstn outw (blocks (S (length ws / 16)) ws init)).

Definition sha256 (msg : list byte) : list byte := sha2_32 H256_init 8 msg.
Definition sha224 (msg : list byte) : list byte := sha2_32 H224_init 7 msg.


(* ---------- SHA-384 / SHA-512: 64-bit words as (high, low) pairs of 32-bit
   values in machine integers ---------- *)

Definition w64 := (int * int)%type.

Definition add64 (a b : w64) : w64 :=
  let lo := snd a + snd b in
  ((fst a + fst b + (lo >> 32)) land m32, lo land m32).
Definition xor64 (a b : w64) : w64 := (fst a lxor fst b, snd a lxor snd b).
Definition and64 (a b : w64) : w64 := (fst a land fst b, snd a land snd b).
Definition not64 (a : w64) : w64 := (not32 (fst a), not32 (snd a)).
(* rotate right by n, 0 < n < 64, n <> 32 *)
Definition rotr64 (n : int) (a : w64) : w64 :=
  if (n <? 32)%uint63 then
    (((fst a >> n) lor (snd a << (32 - n))) land m32, ((snd a >> n) lor (fst a << (32 - n))) land m32)
  else
    let k := n - 32 in
    (((snd a >> k) lor (fst a << (32 - k))) land m32, ((fst a >> k) lor (snd a << (32 - k))) land m32).
(* shift right by n < 32 *)
Definition shr64 (n : int) (a : w64) : w64 :=
  (fst a >> n, ((snd a >> n) lor (fst a << (32 - n))) land m32).

Definition ch64 x y z := xor64 (and64 x y) (and64 (not64 x) z).
Definition maj64 x y z := xor64 (xor64 (and64 x y) (and64 x z)) (and64 y z).
Definition bsig0_64 x := xor64 (xor64 (rotr64 28 x) (rotr64 34 x)) (rotr64 39 x).
Definition bsig1_64 x := xor64 (xor64 (rotr64 14 x) (rotr64 18 x)) (rotr64 41 x).
Definition ssig0_64 x := xor64 (xor64 (rotr64 1 x) (rotr64 8 x)) (shr64 7 x).
Definition ssig1_64 x := xor64 (xor64 (rotr64 19 x) (rotr64 61 x)) (shr64 6 x).

Definition K512 : list w64 := [(0x428a2f98,0xd728ae22);(0x71374491,0x23ef65cd);(0xb5c0fbcf,0xec4d3b2f);(0xe9b5dba5,0x8189dbbc);(0x3956c25b,0xf348b538);(0x59f111f1,0xb605d019);(0x923f82a4,0xaf194f9b);(0xab1c5ed5,0xda6d8118);(0xd807aa98,0xa3030242);(0x12835b01,0x45706fbe);(0x243185be,0x4ee4b28c);(0x550c7dc3,0xd5ffb4e2);(0x72be5d74,0xf27b896f);(0x80deb1fe,0x3b1696b1);(0x9bdc06a7,0x25c71235);(0xc19bf174,0xcf692694);(0xe49b69c1,0x9ef14ad2);(0xefbe4786,0x384f25e3);(0x0fc19dc6,0x8b8cd5b5);(0x240ca1cc,0x77ac9c65);(0x2de92c6f,0x592b0275);(0x4a7484aa,0x6ea6e483);(0x5cb0a9dc,0xbd41fbd4);(0x76f988da,0x831153b5);(0x983e5152,0xee66dfab);(0xa831c66d,0x2db43210);(0xb00327c8,0x98fb213f);(0xbf597fc7,0xbeef0ee4);(0xc6e00bf3,0x3da88fc2);(0xd5a79147,0x930aa725);(0x06ca6351,0xe003826f);(0x14292967,0x0a0e6e70);(0x27b70a85,0x46d22ffc);(0x2e1b2138,0x5c26c926);(0x4d2c6dfc,0x5ac42aed);(0x53380d13,0x9d95b3df);(0x650a7354,0x8baf63de);(0x766a0abb,0x3c77b2a8);(0x81c2c92e,0x47edaee6);(0x92722c85,0x1482353b);(0xa2bfe8a1,0x4cf10364);(0xa81a664b,0xbc423001);(0xc24b8b70,0xd0f89791);(0xc76c51a3,0x0654be30);(0xd192e819,0xd6ef5218);(0xd6990624,0x5565a910);(0xf40e3585,0x5771202a);(0x106aa070,0x32bbd1b8);(0x19a4c116,0xb8d2d0c8);(0x1e376c08,0x5141ab53);(0x2748774c,0xdf8eeb99);(0x34b0bcb5,0xe19b48a8);(0x391c0cb3,0xc5c95a63);(0x4ed8aa4a,0xe3418acb);(0x5b9cca4f,0x7763e373);(0x682e6ff3,0xd6b2b8a3);(0x748f82ee,0x5defb2fc);(0x78a5636f,0x43172f60);(0x84c87814,0xa1f0ab72);(0x8cc70208,0x1a6439ec);(0x90befffa,0x23631e28);(0xa4506ceb,0xde82bde9);(0xbef9a3f7,0xb2c67915);(0xc67178f2,0xe372532b);(0xca273ece,0xea26619c);(0xd186b8c7,0x21c0c207);(0xeada7dd6,0xcde0eb1e);(0xf57d4f7f,0xee6ed178);(0x06f067aa,0x72176fba);(0x0a637dc5,0xa2c898a6);(0x113f9804,0xbef90dae);(0x1b710b35,0x131c471b);(0x28db77f5,0x23047d84);(0x32caab7b,0x40c72493);(0x3c9ebe0a,0x15c9bebc);(0x431d67c4,0x9c100d4c);(0x4cc5d4be,0xcb3e42b6);(0x597f299c,0xfc657e2a);(0x5fcb6fab,0x3ad6faec);(0x6c44198c,0x4a475817)].
Definition H512_init : list w64 := [(0x6a09e667,0xf3bcc908);(0xbb67ae85,0x84caa73b);(0x3c6ef372,0xfe94f82b);(0xa54ff53a,0x5f1d36f1);(0x510e527f,0xade682d1);(0x9b05688c,0x2b3e6c1f);(0x1f83d9ab,0xfb41bd6b);(0x5be0cd19,0x137e2179)].
Definition H384_init : list w64 := [(0xcbbb9d5d,0xc1059ed8);(0x629a292a,0x367cd507);(0x9159015a,0x3070dd17);(0x152fecd8,0xf70e5939);(0x67332667,0xffc00b31);(0x8eb44a87,0x68581511);(0xdb0c2e0d,0x64f98fa7);(0x47b5481d,0xbefa4fa4)].

Definition nth_w (l : list w64) (n : nat) : w64 := nth n l (0, 0).

Record regs64 := mkR64 { qa : w64; qb : w64; qc : w64; qd : w64; qe : w64; qf : w64; qg : w64; qh : w64 }.

Definition round64 (k : w64) (st : list w64 * regs64) : list w64 * regs64 :=
  let (win, r) := st in
  let wt := nth_w win 0 in
  let t1 := add64 (add64 (add64 (add64 (qh r) (bsig1_64 (qe r))) (ch64 (qe r) (qf r) (qg r))) k) wt in
  let t2 := add64 (bsig0_64 (qa r)) (maj64 (qa r) (qb r) (qc r)) in
  let nw := add64 (add64 (add64 (ssig1_64 (nth_w win 14)) (nth_w win 9)) (ssig0_64 (nth_w win 1))) wt in
  (tl win ++ [nw],
   mkR64 (add64 t1 t2) (qa r) (qb r) (qc r) (add64 (qd r) t1) (qe r) (qf r) (qg r)).

Definition compress64 (h : list w64) (block : list w64) : list w64 :=
  let r0 := mkR64 (nth_w h 0) (nth_w h 1) (nth_w h 2) (nth_w h 3) (nth_w h 4) (nth_w h 5) (nth_w h 6) (nth_w h 7) in
  let (_, r) := fold_left (fun st k => round64 k st) K512 (block, r0) in
  [add64 (nth_w h 0) (qa r); add64 (nth_w h 1) (qb r); add64 (nth_w h 2) (qc r); add64 (nth_w h 3) (qd r);
   add64 (nth_w h 4) (qe r); add64 (nth_w h 5) (qf r); add64 (nth_w h 6) (qg r); add64 (nth_w h 7) (qh r)].

Fixpoint pair_words (ws : list int) : list w64 :=
  match ws with
  | a :: b :: r => (a, b) :: pair_words r
  | _ => []
  end.

Definition pad512 (msg : list byte) : list byte :=
  let l := length msg in
  let r := Nat.modulo (l + 1) 128 in
  let z := if Nat.leb r 112 then (112 - r)%nat else (240 - r)%nat in
  msg ++ x80 :: repeat x00 z ++ be_bytes 16 (8 * Z.of_nat l) [].

Fixpoint blocks64 (fuel : nat) (ws : list w64) (h : list w64) : list w64 :=
  match fuel with
  | O => h
  | S f => match ws with [] => h | _ => blocks64 f (skipn 16 ws) (compress64 h (firstn 16 ws)) end
  end.

Definition sha2_64 (init : list w64) (outbytes : nat) (msg : list byte) : list byte :=
  let ws := pair_words (words_be (pad512 msg)) in
  firstn outbytes (flat_map (fun w => word_bytes (fst w) ++ word_bytes (snd w))
                            (blocks64 (S (length ws / 16)) ws init)).

Definition sha512 (msg : list byte) : list byte := sha2_64 H512_init 64 msg.
Definition sha384 (msg : list byte) : list byte := sha2_64 H384_init 48 msg.

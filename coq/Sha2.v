(* Sha2.v — executable SHA-256 on 63-bit machine integers.  Used only to run
   the model in the correspondence checks (OCI blob digests, integrity
   metadata); no theorem depends on it: in theorems the hash is a variable. *)
From Coq Require Import List ZArith Uint63.
From Coq.Init Require Import Byte.
From Sif Require Import Bytes.
Import ListNotations.
Local Open Scope uint63_scope.

Definition m32 : int := 0xffffffff.
Definition add32 (a b : int) : int := (a + b) land m32.
Definition rotr (n : int) (x : int) : int := ((x >> n) lor (x << (32 - n))) land m32.
Definition not32 (x : int) : int := x lxor m32.

Definition ch (x y z : int) := (x land y) lxor (not32 x land z).
Definition maj (x y z : int) := (x land y) lxor (x land z) lxor (y land z).
Definition bsig0 x := rotr 2 x lxor rotr 13 x lxor rotr 22 x.
Definition bsig1 x := rotr 6 x lxor rotr 11 x lxor rotr 25 x.
Definition ssig0 x := rotr 7 x lxor rotr 18 x lxor (x >> 3).
Definition ssig1 x := rotr 17 x lxor rotr 19 x lxor (x >> 10).

Definition K256 : list int :=
 [0x428a2f98;0x71374491;0xb5c0fbcf;0xe9b5dba5;0x3956c25b;0x59f111f1;0x923f82a4;0xab1c5ed5;
  0xd807aa98;0x12835b01;0x243185be;0x550c7dc3;0x72be5d74;0x80deb1fe;0x9bdc06a7;0xc19bf174;
  0xe49b69c1;0xefbe4786;0x0fc19dc6;0x240ca1cc;0x2de92c6f;0x4a7484aa;0x5cb0a9dc;0x76f988da;
  0x983e5152;0xa831c66d;0xb00327c8;0xbf597fc7;0xc6e00bf3;0xd5a79147;0x06ca6351;0x14292967;
  0x27b70a85;0x2e1b2138;0x4d2c6dfc;0x53380d13;0x650a7354;0x766a0abb;0x81c2c92e;0x92722c85;
  0xa2bfe8a1;0xa81a664b;0xc24b8b70;0xc76c51a3;0xd192e819;0xd6990624;0xf40e3585;0x106aa070;
  0x19a4c116;0x1e376c08;0x2748774c;0x34b0bcb5;0x391c0cb3;0x4ed8aa4a;0x5b9cca4f;0x682e6ff3;
  0x748f82ee;0x78a5636f;0x84c87814;0x8cc70208;0x90befffa;0xa4506ceb;0xbef9a3f7;0xc67178f2].

Definition H256_init : list int :=
 [0x6a09e667;0xbb67ae85;0x3c6ef372;0xa54ff53a;0x510e527f;0x9b05688c;0x1f83d9ab;0x5be0cd19].
Definition H224_init : list int :=
 [0xc1059ed8;0x367cd507;0x3070dd17;0xf70e5939;0xffc00b31;0x68581511;0x64f98fa7;0xbefa4fa4].

Definition nth_i (l : list int) (n : nat) : int := nth n l 0.

Record regs := mkR { ra : int; rb : int; rc : int; rd : int; re : int; rf : int; rg : int; rh : int }.

(* one round; win holds W[t .. t+15] *)
Definition round (k : int) (st : list int * regs) : list int * regs :=
  let (win, r) := st in
  let wt := nth_i win 0 in
  let t1 := add32 (add32 (add32 (add32 (rh r) (bsig1 (re r))) (ch (re r) (rf r) (rg r))) k) wt in
  let t2 := add32 (bsig0 (ra r)) (maj (ra r) (rb r) (rc r)) in
  let nw := add32 (add32 (add32 (ssig1 (nth_i win 14)) (nth_i win 9)) (ssig0 (nth_i win 1))) wt in
  (tl win ++ [nw],
   mkR (add32 t1 t2) (ra r) (rb r) (rc r) (add32 (rd r) t1) (re r) (rf r) (rg r)).

Definition compress (h : list int) (block : list int) : list int :=
  let r0 := mkR (nth_i h 0) (nth_i h 1) (nth_i h 2) (nth_i h 3)
                (nth_i h 4) (nth_i h 5) (nth_i h 6) (nth_i h 7) in
  let (_, r) := fold_left (fun st k => round k st) K256 (block, r0) in
  [add32 (nth_i h 0) (ra r); add32 (nth_i h 1) (rb r); add32 (nth_i h 2) (rc r);
   add32 (nth_i h 3) (rd r); add32 (nth_i h 4) (re r); add32 (nth_i h 5) (rf r);
   add32 (nth_i h 6) (rg r); add32 (nth_i h 7) (rh r)].

Definition int_of_byte (b : byte) : int := Uint63.of_Z (byte_to_Z b).
Definition byte_of_int (i : int) : byte := Z_to_byte (Uint63.to_Z (i land 0xff)).

(* big-endian 32-bit words of a byte string whose length is a multiple of 4 *)
Fixpoint words_be (bs : list byte) : list int :=
  match bs with
  | a :: b :: c :: d :: r =>
      ((int_of_byte a << 24) lor (int_of_byte b << 16) lor (int_of_byte c << 8) lor int_of_byte d)
        :: words_be r
  | _ => []
  end.

Definition word_bytes (w : int) : list byte :=
  [byte_of_int (w >> 24); byte_of_int (w >> 16); byte_of_int (w >> 8); byte_of_int w].

Fixpoint be_bytes (k : nat) (z : Z) (acc : list byte) : list byte :=
  match k with
  | O => acc
  | S k' => be_bytes k' (z / 256) (Z_to_byte z :: acc)
  end.

Definition pad256 (msg : list byte) : list byte :=
  let l := length msg in
  let r := Nat.modulo (l + 1) 64 in
  let z := if Nat.leb r 56 then (56 - r)%nat else (120 - r)%nat in
  msg ++ x80 :: repeat x00 z ++ be_bytes 8 (8 * Z.of_nat l) [].

Fixpoint blocks (fuel : nat) (ws : list int) (h : list int) : list int :=
  match fuel with
  | O => h
  | S f =>
      match ws with
      | [] => h
      | _ => blocks f (skipn 16 ws) (compress h (firstn 16 ws))
      end
  end.

Definition sha2_32 (init : list int) (outw : nat) (msg : list byte) : list byte :=
  let ws := words_be (pad256 msg) in
  flat_map word_bytes (firstn outw (blocks (S (length ws / 16)) ws init)).

Definition sha256 (msg : list byte) : list byte := sha2_32 H256_init 8 msg.
Definition sha224 (msg : list byte) : list byte := sha2_32 H224_init 7 msg.

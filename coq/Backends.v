(* Backends.v — sif.Buffer transliterated line by line from buffer.go, a POSIX
   file as os.File presents it, and their bisimulation on the calls inside
   the Buffer's documented contract (C14). *)
From Coq Require Import List ZArith Lia Bool.
From Coq.Init Require Import Byte.
From Sif Require Import Bytes BytesFacts Store StoreFacts.
Import ListNotations.
Local Open Scope Z_scope.

(* storage: contents and current position (Buffer.buf / Buffer.pos; file
   contents / file offset) *)
Record stor := mkSt { st_bytes : list byte; st_pos : Z }.

Inductive whence := SeekStart | SeekCurrent | SeekEnd | SeekBad.
Inductive ioerr := ErrNegOffset | ErrNegPos | ErrWhence | ErrTruncRange | ErrEOF | ErrInval.

(* the calls of the sif.ReadWriter interface *)
Inductive call :=
| CReadAt (n : nat) (off : Z)        (* ReadAt(p, off) with len(p) = n *)
| CWrite (p : list byte)
| CSeek (offset : Z) (w : whence)
| CTruncate (n : Z).

(* what a call returns: data read, a number (bytes written / new position),
   and an error class *)
Record reply := mkReply { r_data : list byte; r_n : Z; r_err : option ioerr }.

Definition len (s : stor) : Z := Z.of_nat (length (st_bytes s)).

(* ---------- sif.Buffer (buffer.go) ---------- *)

Definition buf_step (b : stor) (c : call) : stor * reply :=
  match c with
  | CReadAt n off =>
      (* if off < 0 { return 0, errNegativeOffset } *)
      if off <? 0 then (b, mkReply [] 0 (Some ErrNegOffset))
      (* if off >= int64(len(b.buf)) { return 0, io.EOF } *)
      else if len b <=? off then (b, mkReply [] 0 (Some ErrEOF))
      else
        (* n := copy(p, b.buf[off:]); if n < len(p) { return n, io.EOF } *)
        let got := firstn n (skipn (Z.to_nat off) (st_bytes b)) in
        if (length got <? n)%nat then (b, mkReply got (Z.of_nat (length got)) (Some ErrEOF))
        else (b, mkReply got (Z.of_nat (length got)) None)
  | CWrite p =>
      (* if b.pos < 0 { return 0, errNegativePosition } *)
      if st_pos b <? 0 then (b, mkReply [] 0 (Some ErrNegPos))
      else
        let have := len b - st_pos b in
        let need := Z.of_nat (length p) in
        (* if have < need { b.buf = append(b.buf, make([]byte, need-have)...) } *)
        let buf1 := if have <? need then st_bytes b ++ zeros (Z.to_nat (need - have)) else st_bytes b in
        (* n := copy(b.buf[b.pos:], p); b.pos += int64(n) *)
        let pos := Z.to_nat (st_pos b) in
        let buf2 := firstn pos buf1 ++ p ++ skipn (pos + length p) buf1 in
        (mkSt buf2 (st_pos b + need), mkReply [] need None)
  | CSeek offset w =>
      let abs := match w with
                 | SeekStart => Some offset
                 | SeekCurrent => Some (st_pos b + offset)
                 | SeekEnd => Some (len b + offset)
                 | SeekBad => None
                 end in
      match abs with
      | None => (b, mkReply [] 0 (Some ErrWhence))
      | Some a => if a <? 0 then (b, mkReply [] 0 (Some ErrNegPos))
                  else (mkSt (st_bytes b) a, mkReply [] a None)
      end
  | CTruncate n =>
      (* if n < 0 || n > int64(len(b.buf)) { return errTruncateRange } *)
      if (n <? 0) || (len b <? n) then (b, mkReply [] 0 (Some ErrTruncRange))
      else (mkSt (firstn (Z.to_nat n) (st_bytes b)) (st_pos b), mkReply [] 0 None)
  end.

(* ---------- *os.File on a POSIX file system ---------- *)

Definition file_step (f : stor) (c : call) : stor * reply :=
  match c with
  | CReadAt n off =>
      (* os.File.ReadAt: negative offset is an error; then pread until the
         buffer is full or EOF: a short read reports io.EOF *)
      if off <? 0 then (f, mkReply [] 0 (Some ErrNegOffset))
      else if (n =? 0)%nat then (f, mkReply [] 0 None)
      else
        let got := if len f <=? off then [] else firstn n (skipn (Z.to_nat off) (st_bytes f)) in
        if (length got <? n)%nat then (f, mkReply got (Z.of_nat (length got)) (Some ErrEOF))
        else (f, mkReply got (Z.of_nat (length got)) None)
  | CWrite p =>
      (* write(2) at the file offset: zero-fills a hole; nothing for len 0 *)
      match p with
      | [] => (f, mkReply [] 0 None)
      | _ => (mkSt (nwrite (Z.to_nat (st_pos f)) p (st_bytes f)) (st_pos f + Z.of_nat (length p)),
              mkReply [] (Z.of_nat (length p)) None)
      end
  | CSeek offset w =>
      let abs := match w with
                 | SeekStart => Some offset
                 | SeekCurrent => Some (st_pos f + offset)
                 | SeekEnd => Some (len f + offset)
                 | SeekBad => None
                 end in
      match abs with
      | None => (f, mkReply [] 0 (Some ErrInval))
      | Some a => if a <? 0 then (f, mkReply [] 0 (Some ErrInval))
                  else (mkSt (st_bytes f) a, mkReply [] a None)
      end
  | CTruncate n =>
      (* ftruncate(2): shrinks, or extends with zeros *)
      if n <? 0 then (f, mkReply [] 0 (Some ErrInval))
      else (mkSt (ntrunc (Z.to_nat n) (st_bytes f)) (st_pos f), mkReply [] 0 None)
  end.

(* ---------- the Buffer's documented contract ---------- *)

(* absolute seeks; writes of any non-empty length at any position (also past
   the end) and empty writes at a position inside the data; non-empty
   positioned reads anywhere; truncation to any length up to the current
   size.  (Growth by truncate, and a seek past the end followed by an empty
   write, are outside it.) *)
Definition in_contract (s : stor) (c : call) : Prop :=
  match c with
  | CReadAt n _ => (0 < n)%nat
  | CWrite p => p <> [] \/ st_pos s <= len s
  | CSeek _ w => w <> SeekBad
  | CTruncate n => n <= len s
  end.

(* errors are compared by class: both fail or both succeed; EOF is EOF *)
Definition err_class (e : option ioerr) : Z :=
  match e with None => 0 | Some ErrEOF => 1 | Some _ => 2 end.

Definition same_reply (a b : reply) : Prop :=
  r_data a = r_data b /\ r_n a = r_n b /\ err_class (r_err a) = err_class (r_err b).

(* positions are never negative *)
Definition pos_ok (s : stor) : Prop := 0 <= st_pos s.

Lemma firstn_zeros a k : firstn a (zeros k) = zeros (Nat.min a k).
Proof.
  unfold zeros. revert k; induction a as [|a IH]; intros [|k]; cbn; try reflexivity. now rewrite IH.
Qed.

Lemma buf_write_is_nwrite b p :
  0 <= st_pos b ->
  fst (buf_step b (CWrite p)) =
  mkSt (nwrite (Z.to_nat (st_pos b)) p (st_bytes b)) (st_pos b + Z.of_nat (length p)).
Proof.
  intro Hp. unfold buf_step. destruct (Z.ltb_spec (st_pos b) 0); [lia|]. cbn [fst]. f_equal.
  unfold nwrite, len. set (pos := Z.to_nat (st_pos b)). set (l := st_bytes b).
  assert (Hpos : st_pos b = Z.of_nat pos) by (unfold pos; lia). rewrite Hpos.
  destruct (Z.ltb_spec (Z.of_nat (length l) - Z.of_nat pos) (Z.of_nat (length p))) as [L|L].
  - (* the buffer is extended first: it then ends exactly at pos + len(p) *)
    replace (Z.to_nat (Z.of_nat (length p) - (Z.of_nat (length l) - Z.of_nat pos)))
      with (pos + length p - length l)%nat by lia.
    rewrite firstn_app, firstn_zeros.
    replace (Nat.min (pos - length l) (pos + length p - length l)) with (pos - length l)%nat by lia.
    rewrite (skipn_all2 (l ++ zeros (pos + length p - length l)))
      by (rewrite app_length, length_zeros; lia).
    rewrite (skipn_all2 l) by lia.
    now rewrite <- app_assoc.
  - (* the write fits inside the buffer *)
    replace (pos - length l)%nat with O by lia. reflexivity.
Qed.

Theorem buffer_file_bisim s c :
  pos_ok s -> in_contract s c ->
  fst (buf_step s c) = fst (file_step s c) /\
  same_reply (snd (buf_step s c)) (snd (file_step s c)) /\
  pos_ok (fst (buf_step s c)).
Proof.
  intros Hp Hc. destruct c as [n off|p|offset w|n]; cbn [in_contract] in Hc.
  - (* ReadAt *)
    unfold buf_step, file_step, same_reply.
    destruct (Z.ltb_spec off 0); [cbn; auto|].
    destruct (Nat.eqb_spec n 0); [lia|].
    destruct (Z.leb_spec (len s) off) as [L|L].
    + cbn [length]. destruct (Nat.ltb_spec 0 n); [|lia]. cbn. auto.
    + destruct (Nat.ltb_spec (length (firstn n (skipn (Z.to_nat off) (st_bytes s)))) n); cbn; auto.
  - (* Write *)
    split; [|split].
    + rewrite buf_write_is_nwrite by exact Hp. unfold file_step.
      destruct p as [|x p]; [|reflexivity].
      (* an empty write inside the data changes nothing *)
      destruct Hc as [Hc|Hc]; [congruence|]. unfold len in Hc.
      destruct s as [l pos]. cbn in *. f_equal; [|lia].
      unfold nwrite. cbn. replace (Z.to_nat pos - length l)%nat with O by lia. cbn.
      rewrite Nat.add_0_r. apply firstn_skipn.
    + unfold buf_step, file_step, same_reply. destruct (Z.ltb_spec (st_pos s) 0); [unfold pos_ok in Hp; lia|].
      destruct p; cbn; auto.
    + rewrite buf_write_is_nwrite by exact Hp. unfold pos_ok in *. cbn. lia.
  - (* Seek *)
    unfold buf_step, file_step, same_reply, pos_ok in *.
    destruct w; try congruence;
      match goal with |- context [?a <? 0] => destruct (Z.ltb_spec a 0) end; cbn; auto; lia.
  - (* Truncate, shrinking *)
    unfold buf_step, file_step, same_reply, pos_ok in *.
    destruct (Z.ltb_spec n 0); cbn [orb]; [cbn; auto|].
    destruct (Z.ltb_spec (len s) n); [lia|]. cbn [fst snd]. split; [|cbn; auto].
    f_equal. unfold ntrunc, len in *. replace (Z.to_nat n - length (st_bytes s))%nat with O by lia.
    cbn. now rewrite app_nil_r.
Qed.

(* outside the contract the two really differ: the known finding F4b *)
Example outside_contract_differs :
  let s := mkSt [x01; x02] 5 in
  st_bytes (fst (buf_step s (CWrite []))) <> st_bytes (fst (file_step s (CWrite []))).
Proof. cbv. discriminate. Qed.

(* InvAdd.v — writing a data object (the core of AddObject and of
   CreateContainer): what the new descriptor is, where the data goes, that
   well-formedness of the handle is preserved, and that a rejected object
   leaves the handle untouched. *)
From Coq Require Import List ZArith Lia Bool.
From Coq.Init Require Import Byte.
From Sif Require Import Bytes BytesFacts Store StoreFacts Format FormatFacts Image ImageFacts
     SelectFacts AlignFacts Machine Inv InvCommon InvSet.
Import ListNotations.
Local Open Scope Z_scope.

(* ---------- bit-or of two uint32 values is a uint32 ---------- *)

Lemma lor_u32 a b : in_u32 a -> in_u32 b -> in_u32 (Z.lor a b).
Proof.
  unfold in_u32. intros [Ha1 Ha2] [Hb1 Hb2]. split.
  - apply Z.lor_nonneg. auto.
  - destruct (Z.eq_dec (Z.lor a b) 0) as [E|E]; [rewrite E; lia|].
    apply Z.log2_lt_pow2.
    + assert (0 <= Z.lor a b) by (apply Z.lor_nonneg; auto). lia.
    + rewrite Z.log2_lor by lia.
      destruct (Z.eq_dec a 0) as [->|Na]; destruct (Z.eq_dec b 0) as [->|Nb].
      * simpl. lia.
      * apply Z.max_lub_lt; [simpl; lia | apply Z.log2_lt_pow2; lia].
      * apply Z.max_lub_lt; [apply Z.log2_lt_pow2; lia | simpl; lia].
      * apply Z.max_lub_lt; apply Z.log2_lt_pow2; lia.
Qed.

Lemma group_mask_u32 : in_u32 group_mask.
Proof. unfold in_u32, group_mask. lia. Qed.

(* ---------- well-formed descriptor inputs ---------- *)

Definition link_ok (l : link) : Prop :=
  match l with LNone => True | LObject id => in_u32 id | LGroup g => in_u32 g end.

(* the Go types of the arguments, and: the image does not grow beyond 2^62 *)
Record wf_dinput (di : dinput) : Prop := {
  wdi_type : in_i32 (di_type di);
  wdi_group : in_u32 (di_group di);
  wdi_link : link_ok (di_link di);
  wdi_time : match di_time di with Some z => in_i64 z | None => True end;
  wdi_md : md_ok (di_md di) }.

Definition add_fits (m : mem) (di : dinput) : Prop :=
  data_end (m_hdr m) (m_rds m) + Z.max 0 (di_align di) + Z.of_nat (length (di_content di)) <= 2 ^ 62.

Lemma link_raw_u32 l : link_ok l -> in_u32 (link_raw l).
Proof.
  destruct l; simpl; intro H; [unfold in_u32; lia | exact H | apply lor_u32; [exact H | apply group_mask_u32]].
Qed.

Section WithDigest.
Variable sha256 : list byte -> list byte.
Variable sha_len : forall c, length (sha256 c) = 32%nat.

(* the descriptor an accepted object gets *)
Definition new_desc (i : nat) (di : dinput) (t : Z) (unaligned off : Z) (extra : list byte) : rdesc :=
  let n := Z.of_nat (length (di_content di)) in
  let t' := match di_time di with Some z => if z =? zero_time then t else z | None => t end in
  mkD (di_type di) true (Z.of_nat i + 1) (Z.lor (di_group di) group_mask) (link_raw (di_link di))
      off n (off - unaligned + n) t' t' 0 0 (pad_to 128 (di_name di)) extra.

Definition new_arch (h : header) (di : dinput) : list byte :=
  match di_md di with
  | MdPart _ pt a => if pt =? PartPrimSys then a else h_arch h
  | _ => h_arch h
  end.

(* Shape of plan_write_object: either it is accepted, with the descriptor and
   header below and exactly one positioned write of the content; or it is
   rejected, the handle is untouched, and at most a prefix of the content has
   been written at or beyond the end of the data. *)
Lemma write_object_shape i di t m m1 r evs :
  plan_write_object sha256 i di t m = (m1, r, evs) ->
  let h := m_hdr m in
  let unaligned := data_end h (m_rds m) in
  match r with
  | Ok =>
      exists slot off extra,
        nth_error (m_rds m) i = Some slot /\ Z.of_nat i < max_u32 /\
        next_aligned unaligned (di_align di) = Some off /\
        di_fail di = None /\ (length (di_name di) <= 128)%nat /\
        new_extra sha256 (d_extra slot) (di_md di) (di_content di) = inl extra /\
        evs = EvSeek (Z.to_nat off) :: write_if_nonempty (di_content di) /\
        let d := new_desc i di t unaligned off extra in
        m1 = mkM (mkH (h_launch h) (h_magic h) (h_version h) (new_arch h di) (h_id h)
                      (h_ctime h) (h_mtime h) (h_free h - 1) (h_total h)
                      (h_descoff h) (h_descsize h) (h_dataoff h)
                      (unaligned - h_dataoff h + d_sizepad d))
                 (set_nth i d (m_rds m))
                 (minid_note (d_group d) (d_id d) (m_minids m))
  | Err _ =>
      m1 = m /\
      (evs = [] \/
       exists off bs, next_aligned unaligned (di_align di) = Some off /\
                      evs = EvSeek (Z.to_nat off) :: write_if_nonempty bs)
  end.
Proof.
  unfold plan_write_object. cbv zeta.
  destruct (nth_error (m_rds m) i) as [slot|] eqn:N; [|intro H; inversion H; subst; auto].
  destruct (Z.leb_spec max_u32 (Z.of_nat i)) as [Hge|Hlt]; [intro H; inversion H; subst; auto|].
  destruct (_ && has_primary m); [intro H; inversion H; subst; auto|].
  unfold calc_data_size.
  replace (h_dataoff (m_hdr m) + (data_end (m_hdr m) (m_rds m) - h_dataoff (m_hdr m)))
    with (data_end (m_hdr m) (m_rds m)) by lia.
  destruct (next_aligned (data_end (m_hdr m) (m_rds m)) (di_align di)) as [off|] eqn:A;
    [|intro H; inversion H; subst; auto].
  destruct (di_fail di) as [k|] eqn:Fl.
  { intro H; inversion H; subst. split; [reflexivity|]. right. eauto. }
  destruct (Nat.ltb_spec 128 (length (di_name di))) as [Hn|Hn].
  { intro H; inversion H; subst. split; [reflexivity|]. right. eauto. }
  destruct (new_extra sha256 (d_extra slot) (di_md di) (di_content di)) as [extra|e] eqn:X.
  - intro H; inversion H; subst; clear H.
    exists slot, off, extra. repeat split; auto; try lia.
  - intro H; inversion H; subst. split; [reflexivity|]. right. eauto.
Qed.

(* an accepted object keeps the handle well formed *)
Lemma write_object_wf i di t m m1 evs :
  wf_mem m -> i = first_unused (m_rds m) -> wf_dinput di -> add_fits m di -> in_i64 t ->
  plan_write_object sha256 i di t m = (m1, Ok, evs) ->
  wf_mem m1 /\ h_mtime (m_hdr m1) = h_mtime (m_hdr m).
Proof.
  intros W Hi Wd Fit Lt P. pose proof (write_object_shape _ _ _ _ _ _ _ P) as S. cbv zeta in S.
  destruct S as (slot & off & extra & N & Hmax & A & Fl & Ln & X & Ev & ->).
  set (h := m_hdr m) in *. set (rds := m_rds m) in *.
  set (unaligned := data_end h rds) in *.
  set (d := new_desc i di t unaligned off extra).
  pose proof (wf_h _ W) as Wh. unfold wf_header in Wh. fold h in Wh.
  pose proof (wf_descoff _ W) as Wdo. pose proof (wf_dataoff _ W) as Wo.
  pose proof (wf_descsize _ W) as Wds. pose proof (wf_total _ W) as Wt.
  pose proof (wf_bound _ W) as Wb. pose proof (wf_datasize _ W) as Wz.
  fold h rds in Wdo, Wo, Wds, Wt, Wb, Wz.
  assert (Ue : h_dataoff h <= unaligned) by apply data_end_ge.
  assert (Uu : unaligned <= h_dataoff h + h_datasize h).
  { apply data_end_upper; [lia|]. intros x Hin Hu. apply In_nth_error in Hin as [j Hj].
    apply (wf_layout _ W j x (conj Hj Hu)). }
  assert (Urange : 0 <= unaligned <= max_i64) by (unfold max_i64; lia).
  destruct (next_aligned_some _ _ _ Urange A) as (O1 & O2 & O3 & O4).
  unfold add_fits in Fit. fold h rds unaligned in Fit.
  set (n := Z.of_nat (length (di_content di))) in *.
  assert (Ooff : off <= unaligned + Z.max 0 (di_align di)).
  { destruct (Z_lt_le_dec 0 (di_align di)) as [Pa|Pa]; [destruct (O4 Pa); lia | rewrite (O3 Pa); lia]. }
  assert (Slot_unused : d_used slot = false).
  { subst i. destruct (first_unused_spec rds) as [_ F2]. now apply F2. }
  assert (Ilt : (i < length rds)%nat) by (apply nth_error_Some; congruence).
  assert (Wslot : wf_desc slot).
  { eapply Forall_forall; [apply (wf_rds _ W)|]. eapply nth_error_In; eauto. }
  assert (Le : length extra = 384%nat).
  { eapply new_extra_length; eauto; [apply (wdi_md _ Wd) | apply Wslot]. }
  assert (Wnew : wf_desc d).
  { pose proof (wdi_time _ Wd) as Tm.
    assert (T1 : in_i64 (match di_time di with Some z => if z =? zero_time then t else z | None => t end)).
    { destruct (di_time di) as [z|]; [destruct (z =? zero_time)|]; auto. }
    assert (T2 : in_i32 (di_type di)) by apply (wdi_type _ Wd).
    assert (T3 : in_u32 (Z.of_nat i + 1)) by (unfold in_u32, max_u32 in *; lia).
    assert (T4 : in_u32 (Z.lor (di_group di) group_mask))
      by (apply lor_u32; [apply (wdi_group _ Wd) | apply group_mask_u32]).
    assert (T5 : in_u32 (link_raw (di_link di))) by (apply link_raw_u32, (wdi_link _ Wd)).
    assert (T6 : in_i64 off) by (unfold in_i64; lia).
    assert (T7 : in_i64 n) by (unfold in_i64, n; lia).
    assert (T8 : in_i64 (off - unaligned + n)) by (unfold in_i64; lia).
    assert (T9 : in_i64 0) by (unfold in_i64; lia).
    assert (T10 : length (pad_to 128 (di_name di)) = 128%nat) by (apply length_pad_to; lia).
    unfold wf_desc, d, new_desc. cbn. fold n. tauto. }
  assert (Dused : d_used d = true) by reflexivity.
  assert (Doff : d_off d = off) by reflexivity.
  assert (Dsize : d_size d = n) by reflexivity.
  assert (Did : d_id d = Z.of_nat i + 1) by reflexivity.
  (* live descriptors of the new table *)
  assert (UA : forall j x, used_at (set_nth i d rds) j x ->
                 (j = i /\ x = d) \/ (j <> i /\ used_at rds j x)).
  { intros j x [Hn Hu]. rewrite nth_error_set_nth in Hn.
    destruct (Nat.eqb_spec i j) as [->|Nj].
    - assert (Il : Nat.ltb j (length rds) = true) by (apply Nat.ltb_lt; exact Ilt).
      rewrite Il in Hn. left. split; [reflexivity | congruence].
    - right. split; [lia|]. split; assumption. }
  split; [|reflexivity].
  constructor; cbn [m_hdr m_rds m_minids].
  - unfold wf_header. cbn.
    assert (length (new_arch h di) = 3%nat).
    { unfold new_arch. pose proof (wdi_md _ Wd) as Mo. destruct (di_md di); try tauto.
      destruct (pt =? PartPrimSys); [exact Mo | tauto]. }
    pose proof (wf_free _ W) as Wf. fold h rds in Wf.
    pose proof (count_unused_le rds). unfold in_i64 in *.
    repeat split; try tauto; try lia.
  - cbn. apply (wf_magic _ W).
  - cbn. apply (wf_version _ W).
  - apply Forall_set_nth; [apply (wf_rds _ W) | exact Wnew].
  - cbn. rewrite length_set_nth. exact Wt.
  - cbn. exact Wds.
  - cbn. exact Wdo.
  - cbn. exact Wo.
  - cbn. pose proof (count_unused_set_nth i d rds slot N) as CU.
    rewrite Slot_unused, Dused in CU. pose proof (wf_free _ W) as Wf. fold h rds in Wf. lia.
  - cbn. lia.
  - cbn. lia.
  - intros j x U. destruct (UA j x U) as [[-> ->]|[Nj U0]]; [exact Did | apply (wf_ids _ W j x U0)].
  - intros j x U. cbn. destruct (UA j x U) as [[-> ->]|[Nj U0]].
    + rewrite Doff, Dsize. lia.
    + destruct (wf_layout _ W j x U0) as (L1 & L2 & L3). fold h in L1, L3.
      assert (d_off x + d_size x <= unaligned).
      { destruct U0 as [Hn Hu]. apply data_end_member; [eapply nth_error_In; eauto | exact Hu]. }
      lia.
  - intros j k dj dk Njk Uj Uk Sj Sk.
    destruct (UA j dj Uj) as [[-> ->]|[Nj Uj0]]; destruct (UA k dk Uk) as [[-> ->]|[Nk Uk0]].
    + congruence.
    + right. rewrite Doff.
      destruct Uk0 as [Hn Hu]. pose proof (data_end_member h rds dk (nth_error_In _ _ Hn) Hu). fold unaligned in H. lia.
    + left. rewrite Doff.
      destruct Uj0 as [Hn Hu]. pose proof (data_end_member h rds dj (nth_error_In _ _ Hn) Hu). fold unaligned in H. lia.
    + apply (wf_disjoint _ W j k); auto.
  - apply (minids_ok_note (m_minids m) rds); auto.
    + apply (wf_minids _ W).
    + eapply nth_error_In. apply nth_error_set_nth_eq. exact Ilt.
    + intros x Hx. apply In_set_nth in Hx. exact Hx.
    + intros x Hx Hu. apply In_nth_error in Hx as [j Hj].
      assert (j <> i) by (intro; subst j; congruence).
      eapply nth_error_In. rewrite nth_error_set_nth_neq; eauto.
  - apply keys_sorted_note, (wf_minids_sorted _ W).
Qed.

End WithDigest.

(* ---------- AddObject at the level of the state machine ---------- *)

Section AddStep.
Variable sha256 : list byte -> list byte.
Variable sha_len : forall c, length (sha256 c) = 32%nat.

Lemma offsets_nat m :
  wf_mem m ->
  0 <= h_descoff (m_hdr m) /\
  (Z.to_nat (h_descoff (m_hdr m)) + 585 * length (m_rds m) <= Z.to_nat (h_dataoff (m_hdr m)))%nat /\
  (128 <= Z.to_nat (h_descoff (m_hdr m)))%nat.
Proof.
  intro W. pose proof (wf_descoff _ W). pose proof (wf_dataoff _ W).
  pose proof (wf_descsize _ W). pose proof (wf_total _ W). repeat split; lia.
Qed.

(* writing anything at or beyond the end of the data keeps handle and storage coherent *)
Lemma coherent_write_beyond m st off bs :
  wf_mem m -> coherent m st -> data_end (m_hdr m) (m_rds m) <= off ->
  let st1 := bwrite BFile (Z.to_nat off) bs st in
  coherent m st1 /\ (length st <= length st1)%nat /\
  (forall a n, (a + n <= length st)%nat -> Z.of_nat (a + n) <= off -> nread a n st1 = nread a n st).
Proof.
  intros W C Hoff st1.
  destruct (offsets_nat m W) as (O1 & O2 & O3).
  pose proof (data_end_ge (m_hdr m) (m_rds m)) as De.
  pose proof (wf_dataoff _ W). pose proof (wf_descoff _ W).
  assert (Fr : forall a n, (a + n <= length st)%nat -> Z.of_nat (a + n) <= off ->
                           nread a n st1 = nread a n st).
  { intros a n Hin Hle. unfold st1. apply bwrite_frame; [exact Hin|]. left. lia. }
  assert (Ln : (length st <= length st1)%nat) by apply length_bwrite_ge.
  split; [|split; [exact Ln | exact Fr]].
  constructor.
  - rewrite Fr; [apply (coh_hdr _ _ C) | pose proof (coherent_len_hdr _ _ W C); lia | lia].
  - destruct (m_rds m) as [|x r] eqn:E.
    + reflexivity.
    + rewrite Fr.
      * rewrite <- E. apply (coh_tab _ _ C).
      * pose proof (coherent_len_tab _ _ W C) as T. rewrite E in T. apply T. discriminate.
      * cbn [length] in *. lia.
  - intros i d U S. pose proof (coh_infile _ _ C i d U S). lia.
Qed.

Theorem add_inv s di o now s' r :
  Inv s -> time_ok o now -> wf_dinput di -> add_fits (s_mem s) di ->
  step sha256 s (OpAdd di o now) = (s', r) ->
  let m := s_mem s in
  let st := f_bytes (s_io s) in
  let st' := f_bytes (s_io s') in
  let unaligned := data_end (m_hdr m) (m_rds m) in
  Inv s' /\ (length st <= length st')%nat /\
  (* everything up to the end of the data, in particular every live object, is untouched *)
  (forall a n, (a + n <= length st)%nat -> (Z.to_nat (h_dataoff (m_hdr m)) <= a)%nat ->
               Z.of_nat (a + n) <= unaligned -> nread a n st' = nread a n st) /\
  (r <> Ok -> s_mem s' = m) /\
  (r = Ok ->
   let i := first_unused (m_rds m) in
   let t := resolve_time (m_hdr m) o now in
   exists slot off extra,
     nth_error (m_rds m) i = Some slot /\
     next_aligned unaligned (di_align di) = Some off /\
     new_extra sha256 (d_extra slot) (di_md di) (di_content di) = inl extra /\
     let d := new_desc i di t unaligned off extra in
     m_rds (s_mem s') = set_nth i d (m_rds m) /\
     h_mtime (m_hdr (s_mem s')) = t /\
     h_arch (m_hdr (s_mem s')) = new_arch (m_hdr m) di /\
     (* the content is stored exactly, at the aligned offset *)
     nread (Z.to_nat off) (length (di_content di)) st' = di_content di).
Proof.
  intros [W C] Ht Wd Fit. unfold step, plan_op, plan_add.
  destruct s as [m io b]; cbn [s_mem s_io s_backend] in *. cbv zeta.
  set (t := resolve_time (m_hdr m) o now).
  assert (Lt : in_i64 t) by (apply resolve_time_ok; exact Ht).
  set (i := first_unused (m_rds m)).
  set (st := f_bytes io) in *.
  destruct (plan_write_object sha256 i di t m) as [[m1 r1] evs] eqn:P.
  pose proof (write_object_shape sha256 _ _ _ _ _ _ _ P) as Sh. cbv zeta in Sh.
  destruct (offsets_nat m W) as (O1 & O2 & O3).
  pose proof (data_end_ge (m_hdr m) (m_rds m)) as De.
  pose proof (wf_dataoff _ W) as Wo. pose proof (wf_descoff _ W) as Wdo.
  destruct r1 as [|e].
  - (* accepted *)
    destruct (write_object_wf sha256 sha_len i di t m m1 evs W eq_refl Wd Fit Lt P) as [W1 Mt].
    destruct Sh as (slot & off & extra & N & Hmax & A & Fl & Ln & X & Ev & M1).
    set (unaligned := data_end (m_hdr m) (m_rds m)) in *.
    set (d := new_desc i di t unaligned off extra) in *.
    assert (Urange : 0 <= unaligned <= max_i64).
    { pose proof (wf_bound _ W). pose proof (wf_datasize _ W).
      assert (unaligned <= h_dataoff (m_hdr m) + h_datasize (m_hdr m)).
      { apply data_end_upper; [lia|]. intros x Hin Hu. apply In_nth_error in Hin as [j Hj].
        apply (wf_layout _ W j x (conj Hj Hu)). }
      unfold max_i64. lia. }
    destruct (next_aligned_some _ _ _ Urange A) as (Of1 & Of2 & _ & _).
    unfold finish.
    set (h2 := set_mtime (m_hdr m1) t).
    set (st1 := bwrite BFile (Z.to_nat off) (di_content di) st).
    assert (Run : exists p, run_events b evs io = (mkF st1 p, true)).
    { rewrite Ev. apply run_write_if_nonempty. }
    destruct Run as [p1 Run].
    assert (Hoff : h_descoff (m_hdr m1) = h_descoff h2) by reflexivity.
    unfold exec.
    destruct (run_table_header b (m_hdr m1) h2 (m_rds m1) evs io (mkF st1 p1) Hoff Run) as [p E].
    rewrite E. cbn [f_bytes].
    intro H; inversion H; subst s' r; clear H. unfold Inv. cbn [s_mem s_io m_hdr m_rds m_minids f_bytes].
    set (st' := after_table_header b h2 (m_rds m1) st1).
    (* the final handle is well formed *)
    assert (W2 : wf_mem (mkM h2 (m_rds m1) (m_minids m1))).
    { apply (wf_mem_same_core m1 h2 (m_rds m1) W1).
      - apply hdr_same_layout_mtime.
      - cbn. pose proof (wf_h _ W1) as Wh. unfold wf_header in Wh. tauto.
      - exact Lt.
      - apply Forall2_refl, same_core_refl.
      - apply (wf_rds _ W1). }
    assert (Ho : 128 <= h_descoff h2).
    { cbn. rewrite M1. cbn. exact Wdo. }
    destruct (after_table_header_spec b h2 (m_rds m1) st1 (wf_h _ W2) (wf_rds _ W2) Ho) as (S1 & S2 & S3 & S4).
    fold st' in S1, S2, S3, S4.
    destruct (coherent_write_beyond m st off (di_content di) W C) as (C1 & L1 & F1); [lia|].
    fold st1 in C1, L1, F1.
    assert (R1 : m_rds m1 = set_nth i d (m_rds m)) by (rewrite M1; reflexivity).
    assert (H2off : h_descoff h2 = h_descoff (m_hdr m)) by (cbn; rewrite M1; reflexivity).
    assert (Len1 : length (m_rds m1) = length (m_rds m)) by (rewrite R1; apply length_set_nth).
    assert (TabEnd : (Z.to_nat (h_descoff h2) + 585 * length (m_rds m1) <= Z.to_nat off)%nat).
    { rewrite H2off, Len1. lia. }
    assert (Ilt : (i < length (m_rds m))%nat) by (apply nth_error_Some; congruence).
    (* the content as stored *)
    assert (Cont : nread (Z.to_nat off) (length (di_content di)) st' = di_content di).
    { destruct (di_content di) as [|c0 cs] eqn:Ec; [reflexivity|].
      rewrite S4.
      - unfold st1. rewrite ?Ec. apply bwrite_read_same.
      - unfold st1. rewrite ?Ec. apply length_bwrite_end. discriminate.
      - exact TabEnd. }
    split; [split; [exact W2|]|].
    { constructor; cbn [m_hdr m_rds]; [exact S1 | exact S2 |].
      intros j x [Hn Hu] S. rewrite R1, nth_error_set_nth in Hn.
      destruct (Nat.eqb_spec i j) as [->|Nj].
      - assert (Il : Nat.ltb j (length (m_rds m)) = true) by (apply Nat.ltb_lt; exact Ilt).
        rewrite Il in Hn. inversion Hn; subst x. unfold d, new_desc in *. cbn [d_off d_size] in *.
        assert ((Z.to_nat off + length (di_content di) <= length st1)%nat).
        { unfold st1. apply length_bwrite_end. intro E0. rewrite E0 in S. simpl in S. lia. }
        lia.
      - pose proof (coh_infile _ _ C j x (conj Hn Hu) S). lia. }
    split; [lia|]. split.
    { intros a n Hin Ha Hle. rewrite S4; [apply F1; [exact Hin | lia] | lia |].
      rewrite H2off, Len1. lia. }
    split; [congruence|]. intros _.
    exists slot, off, extra. repeat split; auto.
    + cbn. rewrite M1. reflexivity.
  - (* rejected: the handle is untouched, storage may have grown beyond the data *)
    destruct Sh as [-> Hev]. unfold exec.
    destruct Hev as [->|(off & bs & A & ->)].
    + cbn. intro H; inversion H; subst s' r; clear H. unfold Inv. cbn [s_mem s_io f_bytes].
      split; [split; assumption|]. split; [unfold st; lia|]. split; [intros; reflexivity|].
      split; [reflexivity | discriminate].
    + set (unaligned := data_end (m_hdr m) (m_rds m)) in *.
      assert (Urange : 0 <= unaligned <= max_i64).
      { pose proof (wf_bound _ W). pose proof (wf_datasize _ W).
        assert (unaligned <= h_dataoff (m_hdr m) + h_datasize (m_hdr m)).
        { apply data_end_upper; [lia|]. intros x Hin Hu. apply In_nth_error in Hin as [j Hj].
          apply (wf_layout _ W j x (conj Hj Hu)). }
        unfold max_i64. lia. }
      destruct (next_aligned_some _ _ _ Urange A) as (Of1 & _).
      destruct (run_write_if_nonempty b (Z.to_nat off) bs io) as [p ->].
      intro H; inversion H; subst s' r; clear H. unfold Inv. cbn [s_mem s_io f_bytes].
      destruct (coherent_write_beyond m st off bs W C) as (C1 & L1 & F1); [lia|].
      split; [split; assumption|]. split; [exact L1|]. split.
      * intros a n Hin Ha Hle. apply F1; [exact Hin | lia].
      * split; [reflexivity | discriminate].
Qed.

End AddStep.

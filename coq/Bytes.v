(* Bytes.v — bytes, little-endian fixed-width integers, two's complement.
   Model conventions: a byte is Coq.Init.Byte.byte, byte strings are lists,
   integers are Z.  Proofs about these definitions are in BytesFacts.v. *)
From Coq Require Import List ZArith Lia Bool.
From Coq.Init Require Import Byte.
Import ListNotations.
Local Open Scope Z_scope.

Definition byte_to_Z (b : byte) : Z := Z.of_N (Byte.to_N b).

Definition Z_to_byte (z : Z) : byte :=
  match Byte.of_N (Z.to_N (z mod 256)) with
  | Some b => b
  | None => x00
  end.

(* k-byte little-endian encoding of v modulo 2^(8k); for negative v this is
   the two's-complement encoding, because Z's division is floored. *)
Fixpoint le_enc (k : nat) (v : Z) : list byte :=
  match k with
  | O => []
  | S k' => Z_to_byte v :: le_enc k' (v / 256)
  end.

(* unsigned little-endian decoding *)
Fixpoint le_dec (bs : list byte) : Z :=
  match bs with
  | [] => 0
  | b :: r => byte_to_Z b + 256 * le_dec r
  end.

(* signed (two's complement) decoding of a k-byte string *)
Definition sle_dec (bs : list byte) : Z :=
  let u := le_dec bs in
  let m := 2 ^ (8 * Z.of_nat (length bs)) in
  if u <? m / 2 then u else u - m.

Definition zeros (n : nat) : list byte := repeat x00 n.

(* copy bs into a zeroed field of n bytes (Go: copy + clear the rest);
   callers check length bs <= n first *)
Definition pad_to (n : nat) (bs : list byte) : list byte :=
  firstn n bs ++ zeros (n - length bs).

Definition byte_eqb (a b : byte) : bool := Byte.eqb a b.

Fixpoint bytes_eqb (a b : list byte) : bool :=
  match a, b with
  | [], [] => true
  | x :: a', y :: b' => Byte.eqb x y && bytes_eqb a' b'
  | _, _ => false
  end.

(* bytes.TrimRight(s, "\x00") *)
Fixpoint trim_right_nul (bs : list byte) : list byte :=
  match bs with
  | [] => []
  | b :: r =>
      match trim_right_nul r with
      | [] => if Byte.eqb b x00 then [] else [b]
      | r' => b :: r'
      end
  end.

(* bytes.Cut(b, "\x00"): everything before the first NUL (all of b if none) *)
Fixpoint cut_nul (bs : list byte) : list byte :=
  match bs with
  | [] => []
  | b :: r => if Byte.eqb b x00 then [] else b :: cut_nul r
  end.

Definition all_zero (bs : list byte) : bool := forallb (fun b => Byte.eqb b x00) bs.

(* lower-case hex of a byte string *)
Definition hex_digit (n : Z) : byte :=
  Z_to_byte (if n <? 10 then 48 + n else 87 + n).
Definition hex_of_byte (b : byte) : list byte :=
  let z := byte_to_Z b in [hex_digit (z / 16); hex_digit (z mod 16)].
Definition hex_of (bs : list byte) : list byte := flat_map hex_of_byte bs.

Definition is_lower_hex (b : byte) : bool :=
  let z := byte_to_Z b in ((48 <=? z) && (z <=? 57)) || ((97 <=? z) && (z <=? 102)).

(* integer ranges of the Go types that appear in the format *)
Definition in_i32 (z : Z) : Prop := - 2 ^ 31 <= z < 2 ^ 31.
Definition in_u32 (z : Z) : Prop := 0 <= z < 2 ^ 32.
Definition in_i64 (z : Z) : Prop := - 2 ^ 63 <= z < 2 ^ 63.
Definition in_i32b (z : Z) : bool := (- 2 ^ 31 <=? z) && (z <? 2 ^ 31).
Definition in_u32b (z : Z) : bool := (0 <=? z) && (z <? 2 ^ 32).
Definition in_i64b (z : Z) : bool := (- 2 ^ 63 <=? z) && (z <? 2 ^ 63).

Definition max_i64 : Z := 2 ^ 63 - 1.
Definition wrap_u32 (z : Z) : Z := z mod 2 ^ 32.
Definition wrap_i64 (z : Z) : Z := (z + 2 ^ 63) mod 2 ^ 64 - 2 ^ 63.

(* BytesFacts.v — round-trip facts for the integer codec. *)
From Coq Require Import List ZArith Lia Bool.
From Coq.Init Require Import Byte.
From Sif Require Import Bytes.
Import ListNotations.
Local Open Scope Z_scope.

Ltac divmod_lia := (let H := fresh in idtac); Z.div_mod_to_equations; lia.

Lemma byte_to_Z_range b : 0 <= byte_to_Z b < 256.
Proof.
  unfold byte_to_Z. pose proof (Byte.to_N_bounded b). lia.
Qed.

Lemma Z_to_byte_to_Z z : byte_to_Z (Z_to_byte z) = z mod 256.
Proof.
  unfold Z_to_byte, byte_to_Z.
  assert (H : 0 <= z mod 256 < 256) by (apply Z.mod_pos_bound; lia).
  destruct (Byte.of_N (Z.to_N (z mod 256))) as [b|] eqn:E.
  - apply Byte.to_of_N in E. rewrite E. lia.
  - apply Byte.of_N_None_iff in E. lia.
Qed.

Lemma byte_to_Z_to_byte b : Z_to_byte (byte_to_Z b) = b.
Proof.
  unfold Z_to_byte, byte_to_Z.
  pose proof (Byte.to_N_bounded b) as Hb.
  rewrite Z.mod_small by lia.
  rewrite N2Z.id. rewrite Byte.of_to_N. reflexivity.
Qed.

Lemma byte_to_Z_inj a b : byte_to_Z a = byte_to_Z b -> a = b.
Proof.
  intro H. rewrite <- (byte_to_Z_to_byte a), <- (byte_to_Z_to_byte b), H. reflexivity.
Qed.

Lemma length_le_enc k v : length (le_enc k v) = k.
Proof. revert v; induction k as [|k IH]; intro v; simpl; [reflexivity | now rewrite IH]. Qed.

Lemma le_dec_range bs : 0 <= le_dec bs < 2 ^ (8 * Z.of_nat (length bs)).
Proof.
  induction bs as [|b r IH].
  - simpl. lia.
  - cbn [le_dec length]. pose proof (byte_to_Z_range b) as Hb.
    replace (8 * Z.of_nat (S (length r))) with (8 + 8 * Z.of_nat (length r)) by lia.
    rewrite Z.pow_add_r by lia. change (2 ^ 8) with 256. nia.
Qed.

Lemma le_dec_le_enc k v : le_dec (le_enc k v) = v mod 2 ^ (8 * Z.of_nat k).
Proof.
  revert v; induction k as [|k IH]; intro v.
  - simpl. now rewrite Z.mod_1_r.
  - cbn [le_enc le_dec]. rewrite Z_to_byte_to_Z, IH.
    replace (8 * Z.of_nat (S k)) with (8 + 8 * Z.of_nat k) by lia.
    rewrite Z.pow_add_r by lia. change (2 ^ 8) with 256.
    set (m := 2 ^ (8 * Z.of_nat k)).
    assert (Hm : 0 < m) by (apply Z.pow_pos_nonneg; lia).
    rewrite (Z.rem_mul_r v 256 m) by lia. reflexivity.
Qed.

Lemma le_enc_le_dec bs : le_enc (length bs) (le_dec bs) = bs.
Proof.
  induction bs as [|b r IH].
  - reflexivity.
  - cbn [length le_enc le_dec]. pose proof (byte_to_Z_range b) as Hb.
    f_equal.
    + rewrite <- (byte_to_Z_to_byte b) at 2. unfold Z_to_byte.
      replace ((byte_to_Z b + 256 * le_dec r) mod 256) with (byte_to_Z b mod 256)
        by divmod_lia.
      reflexivity.
    + replace ((byte_to_Z b + 256 * le_dec r) / 256) with (le_dec r) by divmod_lia.
      exact IH.
Qed.

(* unsigned round trip *)
Lemma le_dec_le_enc_unsigned k v :
  0 <= v < 2 ^ (8 * Z.of_nat k) -> le_dec (le_enc k v) = v.
Proof. intro H. rewrite le_dec_le_enc. now apply Z.mod_small. Qed.

(* signed round trip *)
Lemma sle_dec_le_enc k v :
  (0 < k)%nat ->
  - 2 ^ (8 * Z.of_nat k - 1) <= v < 2 ^ (8 * Z.of_nat k - 1) ->
  sle_dec (le_enc k v) = v.
Proof.
  intros Hk Hv. unfold sle_dec. rewrite length_le_enc, le_dec_le_enc.
  set (m := 2 ^ (8 * Z.of_nat k)).
  assert (Hm : m = 2 * 2 ^ (8 * Z.of_nat k - 1)).
  { unfold m. rewrite <- Z.pow_succ_r by lia. f_equal. lia. }
  assert (Hp : 0 < 2 ^ (8 * Z.of_nat k - 1)) by (apply Z.pow_pos_nonneg; lia).
  assert (Hh : m / 2 = 2 ^ (8 * Z.of_nat k - 1)).
  { rewrite Hm. rewrite Z.mul_comm. apply Z.div_mul. lia. }
  rewrite Hh.
  destruct (Z_lt_le_dec v 0) as [Hneg|Hpos].
  - assert (E : v mod m = v + m).
    { symmetry. apply Z.mod_unique with (q := -1); lia. }
    rewrite E. destruct (Z.ltb_spec (v + m) (2 ^ (8 * Z.of_nat k - 1))); lia.
  - rewrite Z.mod_small by lia.
    destruct (Z.ltb_spec v (2 ^ (8 * Z.of_nat k - 1))); lia.
Qed.

Lemma sle_dec_le_enc_i32 v : in_i32 v -> sle_dec (le_enc 4 v) = v.
Proof. intro H. apply sle_dec_le_enc; [lia|]. unfold in_i32 in H. simpl Z.of_nat. change (8*4-1) with 31. exact H. Qed.

Lemma sle_dec_le_enc_i64 v : in_i64 v -> sle_dec (le_enc 8 v) = v.
Proof. intro H. apply sle_dec_le_enc; [lia|]. unfold in_i64 in H. simpl Z.of_nat. change (8*8-1) with 63. exact H. Qed.

Lemma le_dec_le_enc_u32 v : in_u32 v -> le_dec (le_enc 4 v) = v.
Proof. intro H. apply le_dec_le_enc_unsigned. exact H. Qed.

(* re-encoding a decoded signed value gives the original bytes *)
Lemma le_enc_sle_dec bs : le_enc (length bs) (sle_dec bs) = bs.
Proof.
  unfold sle_dec. set (m := 2 ^ (8 * Z.of_nat (length bs))).
  destruct (le_dec bs <? m / 2).
  - apply le_enc_le_dec.
  - rewrite <- (le_enc_le_dec bs) at 3.
    (* le_enc depends on v only modulo m *)
    assert (G : forall k v w, v mod 2 ^ (8 * Z.of_nat k) = w mod 2 ^ (8 * Z.of_nat k) ->
                         le_enc k v = le_enc k w).
    { clear. intros k v w H.
      rewrite <- (le_enc_le_dec (le_enc k v)), <- (le_enc_le_dec (le_enc k w)).
      rewrite !length_le_enc, !le_dec_le_enc, H. reflexivity. }
    apply G. fold m.
    replace (le_dec bs - m) with (le_dec bs + (-1) * m) by lia.
    apply Z.mod_add.
    unfold m. pose proof (Z.pow_pos_nonneg 2 (8 * Z.of_nat (length bs))). lia.
Qed.

Lemma sle_dec_range bs :
  (0 < length bs)%nat ->
  - 2 ^ (8 * Z.of_nat (length bs) - 1) <= sle_dec bs < 2 ^ (8 * Z.of_nat (length bs) - 1).
Proof.
  intro Hl. unfold sle_dec. pose proof (le_dec_range bs) as Hr.
  set (k := Z.of_nat (length bs)) in *.
  assert (Hk : 0 < k) by (unfold k; lia).
  set (m := 2 ^ (8 * k)) in *.
  assert (Hm : m = 2 * 2 ^ (8 * k - 1)).
  { unfold m. rewrite <- Z.pow_succ_r by lia. f_equal. lia. }
  assert (Hh : m / 2 = 2 ^ (8 * k - 1)).
  { rewrite Hm. rewrite Z.mul_comm. apply Z.div_mul. lia. }
  rewrite Hh. destruct (Z.ltb_spec (le_dec bs) (2 ^ (8 * k - 1))); lia.
Qed.

Lemma length_zeros n : length (zeros n) = n.
Proof. apply repeat_length. Qed.

Lemma length_pad_to n bs : (length bs <= n)%nat -> length (pad_to n bs) = n.
Proof.
  intro H. unfold pad_to. rewrite app_length, firstn_length, length_zeros. lia.
Qed.

Lemma pad_to_full n bs : length bs = n -> pad_to n bs = bs.
Proof.
  intro H. unfold pad_to. rewrite firstn_all2 by lia.
  replace (n - length bs)%nat with O by lia. simpl. apply app_nil_r.
Qed.

Lemma bytes_eqb_eq a b : bytes_eqb a b = true <-> a = b.
Proof.
  revert b; induction a as [|x a IH]; intros [|y b]; simpl; split; intro H;
    try reflexivity; try discriminate.
  - apply andb_true_iff in H as [H1 H2]. apply Byte.byte_dec_bl in H1.
    apply IH in H2. now subst.
  - inversion H; subst. apply andb_true_iff. split.
    + apply Byte.byte_dec_lb. reflexivity.
    + now apply IH.
Qed.

Lemma bytes_eqb_refl a : bytes_eqb a a = true.
Proof. now apply bytes_eqb_eq. Qed.

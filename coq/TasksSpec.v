(* TasksSpec.v — which tasks NewVerifier builds (C05/C16/C17): exactly one per
   named group and per named object (OptVerifyLegacyAll names every grouped
   non-signature object), and with nothing named one per group present. *)
From Coq Require Import List ZArith Lia Bool.
From Coq.Init Require Import Byte.
From Sif Require Import Bytes BytesFacts Store Format Image SelectFacts Integrity StreamFacts IntegFacts
     C04Facts C05Facts C07Facts LegacyCover.
Import ListNotations.
Local Open Scope Z_scope.

Lemma sort_ids_In x l : In x (sort_ids l) <-> In x l.
Proof.
  induction l as [|y l IH]; cbn [sort_ids]; [tauto|].
  rewrite In_insert_sorted, IH. cbn. intuition.
Qed.

Lemma map_err_In {A B E} (f : A -> B + E) l l' y :
  map_err f l = inl l' -> (In y l' <-> exists x, In x l /\ f x = inl y).
Proof.
  intro M. apply map_err_inl in M. induction M as [|a b l l' F _ IH].
  - split; [intros [] | intros (x & [] & _)].
  - cbn [In]. rewrite IH. split.
    + intros [<-|(x & Hx & Fx)]; [exists a; auto | exists x; auto].
    + intros (x & [<-|Hx] & Fx); [left; congruence | right; eauto].
Qed.

(* the objects a request names, OptVerifyLegacyAll included *)
Definition named_object (m : mem) (vo : vopts) (id : Z) : Prop :=
  In id (vo_objects vo) \/
  (vo_legacy_all vo = true /\ exists d, In d (live m) /\ grouped_data d = true /\ d_id d = id).

(* the groups it names; with nothing named at all, every group present *)
Definition named_group (m : mem) (vo : vopts) (g : Z) : Prop :=
  In g (vo_groups vo) \/
  (vo_groups vo = [] /\ (forall id, ~ named_object m vo id) /\ In g (group_ids m)).

Definition group_task (vo : vopts) (g : Z) (ods : list (rdesc * Z)) : task :=
  if vo_legacy vo then TLegacyGroup g ods else TGroup g ods false.

Definition object_task (vo : vopts) (od : rdesc * Z) : task :=
  if vo_legacy vo then TLegacyObject od else TGroup (group_of_raw (d_group (fst od))) [od] true.

Theorem new_verifier_tasks m vo ts :
  new_verifier m vo = inl ts ->
  forall t, In t ts <->
    (exists g ods, named_group m vo g /\ group_objects m g = inl ods /\ t = group_task vo g ods) \/
    (exists id od, named_object m vo id /\ get_descriptor_i m id = inl od /\ t = object_task vo od).
Proof.
  unfold new_verifier.
  destruct (existsb (fun g => g =? 0) (vo_groups vo)); [discriminate|].
  destruct (existsb (fun i => i =? 0) (vo_objects vo)); [discriminate|].
  set (objects1 := if vo_legacy_all vo then _ else sort_ids (vo_objects vo)).
  assert (O1 : forall id, In id objects1 <-> named_object m vo id).
  { intro id. unfold objects1, named_object. destruct (vo_legacy_all vo).
    - change (fun acc d => if negb (d_type d =? DataSignature) && negb (group_of_raw (d_group d) =? 0)
                           then insert_sorted (d_id d) acc else acc)
        with (fun acc d => if grouped_data d then insert_sorted (d_id d) acc else acc).
      rewrite legacy_all_ids_spec, sort_ids_In. split.
      + intros [H|H]; [left; exact H | right; split; [reflexivity | exact H]].
      + intros [H|[_ H]]; [left; exact H | right; exact H].
    - rewrite sort_ids_In. split; [intro H; left; exact H|].
      intros [H|[H _]]; [exact H | discriminate]. }
  set (groups1 := match sort_ids (vo_groups vo), objects1 with
                  | [], [] => match group_ids m with [] => inr INoGroupsFound | l => inl l end
                  | _, _ => inl (sort_ids (vo_groups vo))
                  end).
  destruct groups1 as [groups|e] eqn:G1; [|discriminate].
  assert (GS : forall g, In g groups <-> named_group m vo g).
  { intro g. unfold groups1 in G1. unfold named_group.
    destruct (sort_ids (vo_groups vo)) as [|g0 gr] eqn:SG.
    - assert (VG : vo_groups vo = []).
      { destruct (vo_groups vo) as [|x l]; [reflexivity|].
        assert (In x (sort_ids (x :: l))) by (apply sort_ids_In; cbn; auto). rewrite SG in H. contradiction. }
      rewrite VG. destruct objects1 as [|o1 orr] eqn:EO.
      + destruct (group_ids m) as [|x l] eqn:GI; [discriminate|]. injection G1 as <-.
        split; [intro H; right; split; [reflexivity|split; [|exact H]]|].
        * intros id Hn. apply O1 in Hn. exact Hn.
        * intros [[]|(_ & _ & H)]. exact H.
      + injection G1 as <-. split; [intros []|]. intros [[]|(_ & Hno & _)].
        apply (Hno o1). apply O1. cbn. auto.
    - injection G1 as <-. rewrite <- SG, sort_ids_In. split; [auto|].
      intros [H|(VG & _)]; [exact H|]. rewrite VG in SG. discriminate. }
  set (gtask := fun g => match group_objects m g with
                         | inr e => inr e
                         | inl ods => inl (if vo_legacy vo then TLegacyGroup g ods else TGroup g ods false) end).
  set (otask := fun id => match get_descriptor_i m id with
                          | inr e => inr e
                          | inl od => if vo_legacy vo then inl (TLegacyObject od)
                                      else inl (TGroup (group_of_raw (d_group (fst od))) [od] true) end).
  destruct (map_err gtask groups) as [t1|] eqn:M1; [|discriminate].
  destruct (map_err otask objects1) as [t2|] eqn:M2; [|discriminate].
  intros [= <-] t. rewrite in_app_iff, (map_err_In _ _ _ t M1), (map_err_In _ _ _ t M2).
  split.
  - intros [(g & Hg & F)|(id & Hid & F)].
    + left. unfold gtask in F. destruct (group_objects m g) as [ods|] eqn:GO; [|discriminate].
      injection F as <-. exists g, ods. rewrite <- GS. split; [exact Hg|]. split; [exact GO|reflexivity].
    + right. unfold otask in F. destruct (get_descriptor_i m id) as [od|] eqn:GD; [|discriminate].
      exists id, od. rewrite <- O1. split; [exact Hid|]. split; [exact GD|].
      unfold object_task. destruct (vo_legacy vo); now injection F as <-.
  - intros [(g & ods & Hg & GO & ->)|(id & od & Hid & GD & ->)].
    + left. exists g. rewrite GS. split; [exact Hg|]. unfold gtask. now rewrite GO.
    + right. exists id. rewrite O1. split; [exact Hid|]. unfold otask, object_task. rewrite GD.
      destruct (vo_legacy vo); reflexivity.
Qed.

(* CrashOps.v — C09: an interrupted add / delete / set-primary / set-metadata /
   set-OCI-digest leaves a file that still loads, in which every object the
   operation was not aimed at keeps its descriptor and its bytes. *)
From Coq Require Import List ZArith Lia Bool.
From Coq.Init Require Import Byte.
From Sif Require Import Bytes BytesFacts Store StoreFacts Format FormatFacts Image ImageFacts Machine
     SelectFacts AlignFacts Inv InvCommon InvSet InvAdd InvDelete InvCreate LoadFacts Persist Reach Crash.
Import ListNotations.
Local Open Scope Z_scope.

(* ---------- where things are in the encodings ---------- *)

Lemma nth_error_mid {A} (a a' m b b' : list A) k :
  length a = length a' -> (length a <= k < length a + length m)%nat ->
  nth_error (a ++ m ++ b) k = nth_error (a' ++ m ++ b') k.
Proof.
  intros L H. rewrite (nth_error_app2 a) by lia. rewrite (nth_error_app2 a') by lia. rewrite <- L.
  rewrite !nth_error_app1 by lia. reflexivity.
Qed.

(* the fields LoadContainer looks at: magic, version (bytes 32..45) and
   descriptor count, table offset, table size (bytes 88..112) *)
Definition crit_eq (h h' : header) : Prop :=
  h_magic h = h_magic h' /\ h_version h = h_version h' /\ h_total h = h_total h' /\
  h_descoff h = h_descoff h' /\ h_descsize h = h_descsize h'.

Lemma enc_header_crit h h' k :
  wf_header h -> wf_header h' -> crit_eq h h' ->
  (32 <= k < 45 \/ 88 <= k < 112)%nat ->
  nth_error (enc_header h) k = nth_error (enc_header h') k.
Proof.
  intros (L1 & L2 & L3 & L4 & L5 & _) (L1' & L2' & L3' & L4' & L5' & _) (E1 & E2 & E3 & E4 & E5) Hk.
  unfold enc_header. rewrite <- E1, <- E2, <- E3, <- E4, <- E5. destruct Hk as [Hk|Hk].
  - replace (h_magic h ++ h_version h ++ h_arch h ++ h_id h ++ le_enc 8 (h_ctime h) ++ le_enc 8 (h_mtime h) ++
             le_enc 8 (h_free h) ++ le_enc 8 (h_total h) ++ le_enc 8 (h_descoff h) ++ le_enc 8 (h_descsize h) ++
             le_enc 8 (h_dataoff h) ++ le_enc 8 (h_datasize h))
      with ((h_magic h ++ h_version h) ++ h_arch h ++ h_id h ++ le_enc 8 (h_ctime h) ++ le_enc 8 (h_mtime h) ++
             le_enc 8 (h_free h) ++ le_enc 8 (h_total h) ++ le_enc 8 (h_descoff h) ++ le_enc 8 (h_descsize h) ++
             le_enc 8 (h_dataoff h) ++ le_enc 8 (h_datasize h)) by (now rewrite <- !app_assoc).
    replace (h_magic h ++ h_version h ++ h_arch h' ++ h_id h' ++ le_enc 8 (h_ctime h') ++ le_enc 8 (h_mtime h') ++
             le_enc 8 (h_free h') ++ le_enc 8 (h_total h) ++ le_enc 8 (h_descoff h) ++ le_enc 8 (h_descsize h) ++
             le_enc 8 (h_dataoff h') ++ le_enc 8 (h_datasize h'))
      with ((h_magic h ++ h_version h) ++ h_arch h' ++ h_id h' ++ le_enc 8 (h_ctime h') ++ le_enc 8 (h_mtime h') ++
             le_enc 8 (h_free h') ++ le_enc 8 (h_total h) ++ le_enc 8 (h_descoff h) ++ le_enc 8 (h_descsize h) ++
             le_enc 8 (h_dataoff h') ++ le_enc 8 (h_datasize h')) by (now rewrite <- !app_assoc).
    apply nth_error_mid; [congruence|]. rewrite app_length. lia.
  - set (M := le_enc 8 (h_total h) ++ le_enc 8 (h_descoff h) ++ le_enc 8 (h_descsize h)).
    set (A := h_launch h ++ h_magic h ++ h_version h ++ h_arch h ++ h_id h ++ le_enc 8 (h_ctime h) ++
              le_enc 8 (h_mtime h) ++ le_enc 8 (h_free h)).
    set (A' := h_launch h' ++ h_magic h ++ h_version h ++ h_arch h' ++ h_id h' ++ le_enc 8 (h_ctime h') ++
               le_enc 8 (h_mtime h') ++ le_enc 8 (h_free h')).
    replace (h_launch h ++ _) with (A ++ M ++ le_enc 8 (h_dataoff h) ++ le_enc 8 (h_datasize h))
      by (unfold A, M; now rewrite <- !app_assoc).
    replace (h_launch h' ++ _) with (A' ++ M ++ le_enc 8 (h_dataoff h') ++ le_enc 8 (h_datasize h'))
      by (unfold A', M; now rewrite <- !app_assoc).
    assert (LA : length A = 88%nat) by (unfold A; rewrite !app_length, !length_le_enc; lia).
    assert (LA' : length A' = 88%nat) by (unfold A'; rewrite !app_length, !length_le_enc; lia).
    apply nth_error_mid; [congruence|]. unfold M. rewrite !app_length, !length_le_enc. lia.
Qed.

(* reading those fields back from 128 bytes *)
Lemma dec_header_crit bs :
  h_magic (dec_header bs) = nread 32 10 bs /\ h_version (dec_header bs) = nread 42 3 bs /\
  h_total (dec_header bs) = sle_dec (nread 88 8 bs) /\ h_descoff (dec_header bs) = sle_dec (nread 96 8 bs) /\
  h_descsize (dec_header bs) = sle_dec (nread 104 8 bs).
Proof.
  unfold dec_header, v1_header_layout, nread. cbn [decode header_of_vals snd ksize dec_field
    h_magic h_version h_total h_descoff h_descsize]. rewrite !skipn_skipn. cbn [Nat.add]. repeat split.
Qed.

Lemma nread_ext_range st st' o n :
  (o + n <= length st)%nat -> (o + n <= length st')%nat ->
  (forall k, (o <= k < o + n)%nat -> nth_error st k = nth_error st' k) -> nread o n st = nread o n st'.
Proof.
  intros L L' H. apply nth_error_ext. intro i. rewrite !byte_at_nread.
  destruct (Nat.ltb_spec i n); [|reflexivity]. unfold byte_at. apply H. lia.
Qed.

(* one descriptor inside the encoded table *)
Lemma enc_table_slot rds j d k :
  Forall wf_desc rds -> nth_error rds j = Some d -> (k < 585)%nat ->
  nth_error (enc_table rds) (585 * j + k) = nth_error (enc_desc d) k.
Proof.
  revert j. induction rds as [|x r IH]; intros j W N Hk; [destruct j; discriminate|].
  inversion W as [|? ? Wx Wr]; subst. unfold enc_table. cbn [flat_map]. fold (enc_table r).
  pose proof (length_enc_desc x Wx) as Lx.
  destruct j as [|j]; cbn [nth_error] in N.
  - injection N as ->. rewrite nth_error_app1 by lia. replace (585 * 0 + k)%nat with k by lia. reflexivity.
  - rewrite nth_error_app2 by lia. rewrite <- (IH j Wr N Hk).
    replace (585 * S j + k - length (enc_desc x))%nat with (585 * j + k)%nat by lia. reflexivity.
Qed.

Lemma dec_table_slot n bs j :
  (j < n)%nat -> nth_error (dec_table n bs) j = Some (dec_desc (nread (585 * j) 585 bs)).
Proof.
  revert bs j. induction n as [|n IH]; intros bs j Hj; [lia|]. cbn [dec_table].
  destruct j as [|j]; cbn [nth_error].
  - unfold nread. cbn [skipn Nat.mul]. reflexivity.
  - rewrite IH by lia. unfold nread. rewrite skipn_skipn.
    replace (desc_size + 585 * j)%nat with (585 * S j)%nat by (unfold desc_size; lia). reflexivity.
Qed.

(* ---------- the regions that matter ---------- *)

Section Regions.

Variable m : mem.
Variable st0 : store.
Variable W : wf_mem m.
Variable C : coherent m st0.

Let h := m_hdr m.
Let rds := m_rds m.
Let doff := Z.to_nat (h_descoff h).
Let tabend := (doff + 585 * length rds)%nat.

Lemma layout_nat :
  (128 <= doff)%nat /\ (tabend <= Z.to_nat (h_dataoff h))%nat /\ 0 <= h_descoff h /\ 0 <= h_dataoff h.
Proof.
  unfold tabend, doff, rds, h. pose proof (wf_descoff _ W). pose proof (wf_dataoff _ W).
  pose proof (wf_descsize _ W). pose proof (wf_total _ W). repeat split; lia.
Qed.

(* what a crashed file has to share with the file before the operation for
   LoadContainer to succeed and see the same table geometry *)
Definition loadable_like (st : store) : Prop :=
  same_on st0 st 32 45 /\ same_on st0 st 88 112 /\ same_on st0 st 128 128 /\
  (rds <> [] -> same_on st0 st tabend tabend).

Lemma st0_header_byte k : (k < 128)%nat -> nth_error st0 k = nth_error (enc_header h) k.
Proof.
  intro Hk. pose proof (coh_hdr _ _ C) as E. fold h in E. rewrite <- E, byte_at_nread.
  destruct (Nat.ltb_spec k 128); [reflexivity | lia].
Qed.

Lemma st0_table_byte k : (k < 585 * length rds)%nat -> nth_error st0 (doff + k) = nth_error (enc_table rds) k.
Proof.
  intro Hk. pose proof (coh_tab _ _ C) as E. fold h rds doff in E. rewrite <- E, byte_at_nread.
  destruct (Nat.ltb_spec k (585 * length rds)); [reflexivity | lia].
Qed.

Theorem loadable_like_loads st :
  loadable_like st ->
  exists mc, load_image st = inl mc /\ length (m_rds mc) = length rds /\
    forall j d, nth_error rds j = Some d ->
      same_on st0 st (doff + 585 * j) (doff + 585 * j + 585) -> nth_error (m_rds mc) j = Some d.
Proof.
  intros (S1 & S2 & [L128 _] & S3).
  pose proof (coherent_len_hdr _ _ W C) as L0.
  destruct S1 as [L1 B1]. destruct S2 as [L2 B2].
  destruct layout_nat as (D1 & D2 & D3 & D4).
  unfold load_image. destruct (Nat.ltb_spec (length st) 128); [lia|].
  set (hc := dec_header (nread 0 128 st)).
  destruct (dec_header_crit (nread 0 128 st)) as (Hm & Hv & Ht & Ho & Hs). fold hc in Hm, Hv, Ht, Ho, Hs.
  (* the critical bytes are those of the old header *)
  assert (R1 : forall o n, (32 <= o)%nat -> (o + n <= 45)%nat -> nread o n (nread 0 128 st) = nread o n (enc_header h)).
  { intros o n H1 H2. rewrite nread_nread by lia. cbn [Nat.add].
    replace (enc_header h) with (nread 0 128 st0) by (apply (coh_hdr _ _ C)). rewrite nread_nread by lia. cbn [Nat.add].
    apply nread_ext_range; [lia | lia |]. intros k Hk. apply B1; lia. }
  assert (R2 : forall o n, (88 <= o)%nat -> (o + n <= 112)%nat -> nread o n (nread 0 128 st) = nread o n (enc_header h)).
  { intros o n H1 H2. rewrite nread_nread by lia. cbn [Nat.add].
    replace (enc_header h) with (nread 0 128 st0) by (apply (coh_hdr _ _ C)). rewrite nread_nread by lia. cbn [Nat.add].
    apply nread_ext_range; [lia | lia |]. intros k Hk. apply B2; lia. }
  pose proof (wf_h _ W) as Wh. fold h in Wh.
  destruct (dec_header_crit (enc_header h)) as (Hm0 & Hv0 & Ht0 & Ho0 & Hs0).
  rewrite (dec_enc_header h Wh) in Hm0, Hv0, Ht0, Ho0, Hs0.
  rewrite (R1 32 10)%nat in Hm by lia. rewrite (R1 42 3)%nat in Hv by lia.
  rewrite (R2 88 8)%nat in Ht by lia. rewrite (R2 96 8)%nat in Ho by lia. rewrite (R2 104 8)%nat in Hs by lia.
  rewrite <- Hm0 in Hm. rewrite <- Hv0 in Hv. rewrite <- Ht0 in Ht. rewrite <- Ho0 in Ho. rewrite <- Hs0 in Hs.
  rewrite Hm, Hv, Ht, Ho, Hs.
  pose proof (wf_magic _ W) as Wm. pose proof (wf_version _ W) as Wv. fold h in Wm, Wv.
  rewrite Wm, Wv, !bytes_eqb_refl. cbn [negb].
  pose proof (wf_total _ W) as Wt. pose proof (wf_descsize _ W) as Wds. fold h rds in Wt, Wds.
  destruct (Z.ltb_spec (h_total h) 0); [lia|]. destruct (Z.ltb_spec (h_descsize h) 0); [lia|].
  destruct (Z.ltb_spec (h_descsize h / 585) (h_total h)) as [Hd|_].
  { exfalso. assert (h_total h <= h_descsize h / 585) by (apply Z.div_le_lower_bound; lia). lia. }
  cbn [orb].
  destruct (Z.eqb_spec (h_total h) 0) as [E0|Ne0].
  - exists (mkM hc [] []). split; [reflexivity|]. assert (rds = []) as -> by (destruct rds; [reflexivity | cbn in Wt; lia]).
    split; [reflexivity|]. intros j d N. destruct j; discriminate.
  - destruct (Z.ltb_spec (h_descoff h) 0); [lia|].
    assert (Hne : rds <> []) by (intro E; rewrite E in Wt; cbn in Wt; lia).
    destruct (S3 Hne) as [L3 _].
    unfold zread. destruct (Z.ltb_spec (h_descoff h) 0); [lia|]. destruct (Z.ltb_spec (h_total h * 585) 0); [lia|].
    cbn [orb]. unfold tabend in L3.
    destruct (Z.ltb_spec (Z.of_nat (length st)) (h_descoff h + h_total h * 585)); [fold doff in L3; lia|].
    eexists. split; [reflexivity|]. cbn [m_rds]. rewrite length_dec_table.
    split; [rewrite Wt; lia|]. intros j d N Sj.
    assert (Hj : (j < length rds)%nat) by (apply nth_error_Some; congruence).
    rewrite dec_table_slot by (rewrite Wt; lia). f_equal.
    replace (Z.to_nat (h_total h * 585)) with (585 * length rds)%nat by lia. fold doff.
    rewrite nread_nread by lia.
    destruct Sj as [Lj Bj].
    assert (E : nread (doff + 585 * j) 585 st = enc_desc d).
    { apply nth_error_ext. intro i. rewrite byte_at_nread.
      destruct (Nat.ltb_spec i 585).
      - unfold byte_at. rewrite Bj by lia. replace (doff + 585 * j + i)%nat with (doff + (585 * j + i))%nat by lia.
        rewrite st0_table_byte by lia. apply enc_table_slot; [apply (wf_rds _ W) | exact N | lia].
      - symmetry. apply nth_error_None. pose proof (wf_rds _ W) as Wr. fold rds in Wr.
        rewrite Forall_forall in Wr. rewrite length_enc_desc; [lia|]. apply Wr. eapply nth_error_In; eauto. }
    rewrite E. apply dec_enc_desc. pose proof (wf_rds _ W) as Wr. fold rds in Wr. rewrite Forall_forall in Wr.
    apply Wr. eapply nth_error_In; eauto.
Qed.

(* ---------- the common tail of every mutator keeps what it should ---------- *)

Definition tail_events (h' : header) (rds' : list rdesc) : list event := ev_table h rds' ++ ev_header h'.


Lemma keeps_tail_header h' rds' lo hi pos :
  wf_header h' -> crit_eq h h' -> Forall wf_desc rds' -> length rds' = length rds ->
  (32 <= lo /\ hi <= 45 \/ 88 <= lo /\ hi <= 112)%nat ->
  keeps st0 lo hi pos (tail_events h' rds').
Proof.
  intros Wh' Cr Wr' Lr Hr. destruct layout_nat as (D1 & _).
  unfold tail_events, ev_table, ev_header. cbn [app]. fold doff. apply keeps_seek.
  pose proof (length_enc_table rds' Wr') as Lt. pose proof (length_enc_header h' Wh') as Lh.
  apply keeps_write.
  - intros k Hk H1 H2. lia.
  - apply keeps_seek. apply keeps_write; [|exact I].
    intros k Hk H1 H2. cbn [Nat.add]. rewrite st0_header_byte by lia. symmetry.
    apply enc_header_crit; [apply (wf_h _ W) | exact Wh' | exact Cr | lia].
Qed.

Lemma keeps_tail_slot h' rds' j d pos :
  wf_header h' -> Forall wf_desc rds' -> length rds' = length rds ->
  nth_error rds j = Some d -> nth_error rds' j = Some d ->
  keeps st0 (doff + 585 * j) (doff + 585 * j + 585) pos (tail_events h' rds').
Proof.
  intros Wh' Wr' Lr N N'. destruct layout_nat as (D1 & _).
  assert (Hj : (j < length rds)%nat) by (apply nth_error_Some; congruence).
  unfold tail_events, ev_table, ev_header. cbn [app]. fold doff. apply keeps_seek.
  pose proof (length_enc_table rds' Wr') as Lt. pose proof (length_enc_header h' Wh') as Lh.
  apply keeps_write.
  - intros k Hk H1 H2.
    replace k with (585 * j + (k - 585 * j))%nat by lia.
    rewrite (enc_table_slot rds' j d _ Wr' N') by lia.
    rewrite st0_table_byte by lia. symmetry. apply enc_table_slot; [apply (wf_rds _ W) | exact N | lia].
  - apply keeps_seek. apply keeps_write; [|exact I]. intros k Hk H1 H2. lia.
Qed.

Lemma keeps_tail_beyond h' rds' lo hi pos :
  wf_header h' -> Forall wf_desc rds' -> length rds' = length rds ->
  (tabend <= lo)%nat ->
  keeps st0 lo hi pos (tail_events h' rds').
Proof.
  intros Wh' Wr' Lr Hlo. destruct layout_nat as (D1 & _).
  unfold tail_events, ev_table, ev_header. cbn [app]. fold doff. apply keeps_seek.
  pose proof (length_enc_table rds' Wr') as Lt. pose proof (length_enc_header h' Wh') as Lh.
  unfold tabend in Hlo.
  apply keeps_write.
  - intros k Hk H1 H2. lia.
  - apply keeps_seek. apply keeps_write; [|exact I]. intros k Hk H1 H2. lia.
Qed.

End Regions.

(* ---------- the core: data calls that stay away, then the common tail ---------- *)

Lemma keeps_weaken_pos st0 lo hi evs pos : keeps st0 lo hi None evs -> keeps st0 lo hi pos evs.
Proof.
  revert pos. induction evs as [|ev r IH]; intros pos K; [exact I|].
  destruct ev as [n|bs|n|n]; cbn [keeps] in *.
  - exact K.
  - destruct bs; [auto | contradiction].
  - destruct K. split; auto.
  - exact K.
Qed.

Section Core.

Variable m : mem.
Variable st0 : store.
Variable W : wf_mem m.
Variable C : coherent m st0.

Let h := m_hdr m.
Let rds := m_rds m.
Let doff := Z.to_nat (h_descoff h).
Let tabend := (doff + 585 * length rds)%nat.

(* a region the data calls of an operation must leave alone: anything up to
   the start of the data section, or the bytes of a bystander *)
Definition protected_region (bystander : nat -> rdesc -> Prop) (lo hi : nat) : Prop :=
  (hi <= Z.to_nat (h_dataoff h))%nat \/
  exists j d, bystander j d /\ used_at rds j d /\ 0 < d_size d /\
              lo = Z.to_nat (d_off d) /\ hi = Z.to_nat (d_off d + d_size d).

Definition data_safe (bystander : nat -> rdesc -> Prop) (data : list event) : Prop :=
  forall lo hi, protected_region bystander lo hi -> keeps st0 lo hi None data.

(* the tail an operation may append: nothing, or the table and header writes *)
Inductive tail_ok (bystander : nat -> rdesc -> Prop) : list event -> Prop :=
| tail_none : tail_ok bystander []
| tail_some h' rds' :
    wf_header h' -> crit_eq h h' -> Forall wf_desc rds' -> length rds' = length rds ->
    (forall j d, bystander j d -> used_at rds j d -> nth_error rds' j = Some d) ->
    tail_ok bystander (tail_events m h' rds').

Theorem crash_core bystander data tail io st_c :
  f_bytes io = st0 ->
  data_safe bystander data -> tail_ok bystander tail ->
  crash_image (data ++ tail) io st_c ->
  loadable_like m st0 st_c /\
  forall j d, bystander j d -> used_at rds j d ->
    same_on st0 st_c (doff + 585 * j) (doff + 585 * j + 585) /\
    nread (Z.to_nat (d_off d)) (Z.to_nat (d_size d)) st_c = nread (Z.to_nat (d_off d)) (Z.to_nat (d_size d)) st0.
Proof.
  intros Eio DS TO (p & CP & ->).
  destruct (layout_nat m W) as (D1 & D2 & D3 & D4). fold h rds doff tabend in D1, D2.
  pose proof (coherent_len_hdr _ _ W C) as L128.
  assert (Ltab : rds <> [] -> (tabend <= length st0)%nat).
  { intro Hne. pose proof (coherent_len_tab _ _ W C Hne). exact H. }
  (* any region kept by data and by the tail survives *)
  assert (Keep : forall lo hi, (hi <= length st0)%nat ->
             keeps st0 lo hi None data -> (forall pos, keeps st0 lo hi pos tail) ->
             same_on st0 (f_bytes (file_run p io)) lo hi).
  { intros lo hi Hl Kd Kt. apply (keeps_crash st0 lo hi (data ++ tail) p CP None io).
    - rewrite Eio. now apply same_on_refl.
    - exact I.
    - now apply keeps_app. }
  assert (TailHdr : forall lo hi pos, (32 <= lo /\ hi <= 45 \/ 88 <= lo /\ hi <= 112)%nat -> keeps st0 lo hi pos tail).
  { intros lo hi pos Hr. destruct TO as [|h' rds' Wh' Cr Wr' Lr _]; [exact I|]. now apply keeps_tail_header. }
  assert (TailBeyond : forall lo hi pos, (tabend <= lo)%nat -> keeps st0 lo hi pos tail).
  { intros lo hi pos Hr. destruct TO as [|h' rds' Wh' Cr Wr' Lr _]; [exact I|]. now apply keeps_tail_beyond. }
  assert (TailEmpty : forall x pos, keeps st0 x x pos tail).
  { intros x pos. destruct TO as [|h' rds' Wh' Cr Wr' Lr _]; [exact I|].
    unfold tail_events, ev_table, ev_header. cbn [app]. apply keeps_seek, keeps_write; [intros k; lia|].
    apply keeps_seek, keeps_write; [intros k; lia | exact I]. }
  assert (Pre : forall lo hi, (hi <= Z.to_nat (h_dataoff h))%nat -> keeps st0 lo hi None data).
  { intros lo hi Hh. apply DS. now left. }
  split.
  - unfold loadable_like. fold rds doff tabend.
    split; [apply Keep; [lia | apply Pre; lia | intro; apply TailHdr; lia]|].
    split; [apply Keep; [lia | apply Pre; lia | intro; apply TailHdr; lia]|].
    split; [apply Keep; [lia | apply Pre; lia | intro; apply TailEmpty]|].
    intro Hne. apply Keep; [now apply Ltab | apply Pre; unfold tabend, doff, rds, h in *; lia | intro; apply TailEmpty].
  - intros j d Bj Uj.
    assert (Hj : (j < length rds)%nat) by (destruct Uj as [N _]; apply nth_error_Some; congruence).
    assert (Hne : rds <> []) by (intro E; rewrite E in Hj; cbn in Hj; lia).
    specialize (Ltab Hne). split.
    + apply Keep; [unfold tabend in Ltab; lia | apply Pre; unfold tabend in D2; lia |].
      intro pos. destruct TO as [|h' rds' Wh' Cr Wr' Lr By]; [exact I|].
      destruct Uj as [N U]. eapply keeps_tail_slot; eauto. apply By; [exact Bj | split; assumption].
    + destruct (Z_lt_le_dec 0 (d_size d)) as [Sp|Sz].
      2:{ replace (Z.to_nat (d_size d)) with O by lia. reflexivity. }
      destruct (wf_layout _ W j d Uj) as (L1 & L2 & L3). fold h in L1, L3.
      pose proof (coh_infile _ _ C j d Uj Sp) as Inf.
      assert (S : same_on st0 (f_bytes (file_run p io)) (Z.to_nat (d_off d)) (Z.to_nat (d_off d + d_size d))).
      { apply Keep; [lia | |intro; apply TailBeyond; lia].
        apply DS. right. exists j, d. split; [exact Bj|]. split; [exact Uj|]. split; [exact Sp|]. split; reflexivity. }
      replace (Z.to_nat (d_off d + d_size d)) with (Z.to_nat (d_off d) + Z.to_nat (d_size d))%nat in S by lia.
      apply same_on_nread; [exact S | lia].
Qed.

End Core.

(* ---------- each operation's calls ---------- *)

Definition touched (x : op) (d : rdesc) : Prop :=
  set_target x d \/ match x with OpDelete sel _ _ _ _ => del sel d = true | _ => False end.

Definition bystander (x : op) (j : nat) (d : rdesc) : Prop := ~ touched x d.

Lemma ev_table_descoff h1 h2 rds : h_descoff h1 = h_descoff h2 -> ev_table h1 rds = ev_table h2 rds.
Proof. intro E. unfold ev_table. now rewrite E. Qed.

Lemma run_events_file_ok evs io : run_events BFile evs io = (file_run evs io, true).
Proof.
  revert io. induction evs as [|ev r IH]; intro io; cbn [run_events file_run fold_left backend_apply]; [reflexivity|].
  apply IH.
Qed.

Lemma op_eq_reload x : x = OpReload \/ x <> OpReload.
Proof. destruct x; (left; reflexivity) || (right; discriminate). Qed.

Section Ops.

Variable sha256 : list byte -> list byte.
Variable sha_len : forall c, length (sha256 c) = 32%nat.

(* the handle an operation leaves is well formed (from the invariant theorems) *)
Lemma plan_wf s x m' r evs :
  Inv s -> wf_op s x -> plan_op sha256 (s_mem s) x = (m', r, evs) -> wf_mem m'.
Proof.
  intros I Wo P. destruct (op_eq_reload x) as [->|Hx].
  - cbn in P. injection P as <- _ _. exact (proj1 I).
  - set (s0 := mkS (s_mem s) (s_io s) BFile).
    assert (I0 : Inv s0) by exact I.
    assert (St : exists io', step sha256 s0 x = (mkS m' io' BFile, r)).
    { unfold step. destruct x; try (exfalso; apply Hx; reflexivity);
        cbn [s_mem s_io s_backend s0]; rewrite P; unfold exec;
        rewrite (run_events_file_ok evs (s_io s)); eexists; reflexivity. }
    destruct St as [io' St]. exact (proj1 (step_inv sha256 sha_len s0 x _ r I0 Wo St)).
Qed.


(* ----- AddObject ----- *)

Lemma add_events s di o now m' r evs :
  Inv s -> wf_op s (OpAdd di o now) ->
  plan_add sha256 (s_mem s) di o now = (m', r, evs) ->
  exists data tail, evs = data ++ tail /\
    data_safe (s_mem s) (f_bytes (s_io s)) (bystander (OpAdd di o now)) data /\
    tail_ok (s_mem s) (bystander (OpAdd di o now)) tail.
Proof.
  intros I Wo P. pose proof (plan_wf s (OpAdd di o now) m' r evs I Wo P) as W'.
  destruct I as [W C]. destruct Wo as (Tm & Wd & Fit).
  set (m := s_mem s) in *. set (st0 := f_bytes (s_io s)) in *.
  unfold plan_add in P. cbv zeta in P.
  destruct (plan_write_object sha256 (first_unused (m_rds m)) di (resolve_time (m_hdr m) o now) m)
    as [[m1 r1] e1] eqn:PW.
  pose proof (write_object_shape sha256 _ _ _ _ _ _ _ PW) as S. cbv zeta in S.
  pose proof (data_end_ge (m_hdr m) (m_rds m)) as De.
  pose proof (wf_dataoff _ W). pose proof (wf_descoff _ W). pose proof (wf_descsize _ W). pose proof (wf_total _ W).
  pose proof (wf_bound _ W) as Wb.
  (* every protected region ends at or before the end of the data *)
  assert (Prot : forall lo hi, protected_region m (bystander (OpAdd di o now)) lo hi ->
                   (hi <= Z.to_nat (data_end (m_hdr m) (m_rds m)))%nat).
  { intros lo hi [Hh|(j & d & _ & [N U] & Sp & -> & ->)]; [lia|].
    pose proof (data_end_member (m_hdr m) (m_rds m) d (nth_error_In _ _ N) U). lia. }
  (* a seek beyond the data followed by a write keeps them all *)
  assert (Safe : forall off bs, data_end (m_hdr m) (m_rds m) <= off ->
                   data_safe m st0 (bystander (OpAdd di o now)) (EvSeek (Z.to_nat off) :: write_if_nonempty bs)).
  { intros off bs Ho lo hi Pr. specialize (Prot lo hi Pr). apply keeps_seek.
    destruct bs as [|b bs]; cbn [write_if_nonempty]; [exact I|].
    apply keeps_write; [|exact I]. intros k Hk Hk1 Hk2. lia. }
  assert (DataEndOk : 0 <= data_end (m_hdr m) (m_rds m) <= max_i64).
  { unfold max_i64. pose proof (data_end_bound m W). lia. }
  destruct r1 as [|e].
  - destruct S as (slot & off & extra & N & _ & Al & _ & _ & X & -> & ->).
    unfold finish in P. cbn [m_hdr m_rds m_minids] in P. injection P as <- <- <-.
    destruct (next_aligned_some _ _ _ DataEndOk Al) as (Ho & _).
    exists (EvSeek (Z.to_nat off) :: write_if_nonempty (di_content di)). eexists.
    split; [rewrite <- app_comm_cons; reflexivity|]. split; [now apply Safe|].
    cbn [m_hdr m_rds] in W'.
    match goal with |- tail_ok _ _ (EvSeek _ :: EvWrite (enc_table ?r) :: ev_header ?hh) =>
      apply (tail_some m (bystander (OpAdd di o now)) hh r) end.
    + apply (wf_h _ W').
    + unfold crit_eq. cbn. repeat split; reflexivity.
    + apply (wf_rds _ W').
    + cbn [m_rds]. apply length_set_nth.
    + intros j d _ [Nj Uj]. cbn [m_rds]. rewrite nth_error_set_nth_neq; [exact Nj|].
      intro E. subst j. destruct (first_unused_spec (m_rds m)) as [_ F]. specialize (F d Nj). congruence.
  - destruct S as [-> Ev]. injection P as <- <- <-.
    exists e1, []. split; [now rewrite app_nil_r|]. split; [|constructor].
    destruct Ev as [->|(off & bs & Al & ->)].
    + intros lo hi _. exact I.
    + destruct (next_aligned_some _ _ _ DataEndOk Al) as (Ho & _). now apply Safe.
Qed.


(* ----- DeleteObjects ----- *)

Lemma keeps_zero_events st0 lo hi dels :
  (forall d, In d dels -> 0 < d_size d ->
             (Z.to_nat (d_off d) + Z.to_nat (d_size d) <= lo \/ hi <= Z.to_nat (d_off d))%nat) ->
  forall pos, keeps st0 lo hi pos (flat_map ev_zero dels).
Proof.
  induction dels as [|d r IH]; intros H pos; cbn [flat_map]; [exact I|].
  apply keeps_app.
  - unfold ev_zero. apply keeps_seek.
    destruct (Z_lt_le_dec 0 (d_size d)) as [Sp|Sz].
    + destruct (zeros (Z.to_nat (d_size d))) as [|b bs] eqn:E; cbn [write_if_nonempty]; [exact I|].
      rewrite <- E. apply keeps_write; [|exact I]. intros k Hk H1 H2. rewrite length_zeros in Hk.
      destruct (H d (or_introl eq_refl) Sp); lia.
    + replace (Z.to_nat (d_size d)) with O by lia. exact I.
  - intro pos'. apply IH. intros d' Hd'. apply H. now right.
Qed.

Lemma delete_events s sel zero compact o now m' r evs :
  Inv s -> wf_op s (OpDelete sel zero compact o now) ->
  plan_delete (s_mem s) sel zero compact o now = (m', r, evs) ->
  exists data tail, evs = data ++ tail /\
    data_safe (s_mem s) (f_bytes (s_io s)) (bystander (OpDelete sel zero compact o now)) data /\
    tail_ok (s_mem s) (bystander (OpDelete sel zero compact o now)) tail.
Proof.
  intros I Wo P. pose proof (plan_wf s (OpDelete sel zero compact o now) m' r evs I Wo P) as W'.
  destruct I as [W C].
  set (m := s_mem s) in *. set (st0 := f_bytes (s_io s)) in *.
  set (x := OpDelete sel zero compact o now) in *.
  unfold plan_delete in P. cbv zeta in P.
  destruct (collect (sel_eval sel) (m_rds m)) as [[|d0 l0]|e] eqn:Col.
  - injection P as <- <- <-. exists [], []. split; [reflexivity|]. split; [intros lo hi _; exact I | constructor].
  - pose proof (delete_loop_spec sel zero (m_rds m) (m_hdr m) []) as S.
    destruct (delete_loop sel zero (m_rds m) (m_hdr m) []) as [[h1 rds1] ev0].
    destruct S as (E1 & E2 & E3 & E4 & E5 & E6 & E7 & E8 & E9 & E10 & E11 & E12 & E13 & E14 & E15).
    cbn [app] in E2.
    set (t := resolve_time (m_hdr m) o now) in *.
    set (h2 := set_mtime h1 t) in *.
    set (h3 := if compact then set_datasize h2 (calc_data_size h2 rds1) else h2) in *.
    injection P as <- <- <-. cbn [m_hdr m_rds] in W'.
    pose proof (wf_dataoff _ W). pose proof (wf_descoff _ W). pose proof (wf_descsize _ W). pose proof (wf_total _ W).
    assert (Hdo : h_dataoff h3 = h_dataoff (m_hdr m)) by (unfold h3, h2; destruct compact; cbn; exact E14).
    assert (Hdf : h_descoff h3 = h_descoff (m_hdr m)) by (unfold h3, h2; destruct compact; cbn; exact E12).
    (* bystanders survive *)
    assert (Surv : forall j d, bystander x j d -> used_at (m_rds m) j d -> used_at rds1 j d).
    { intros j d B U. rewrite E1. apply used_at_survives; [exact U|].
      destruct (del sel d) eqn:D; [|reflexivity]. exfalso. apply B. right. exact D. }
    exists (ev0 ++ if compact then [EvResize (Z.to_nat (h_dataoff h3 + h_datasize h3))] else []).
    exists (tail_events m h3 rds1). split.
    { unfold tail_events. rewrite (ev_table_descoff (m_hdr m) h3) by (symmetry; exact Hdf).
      destruct compact; rewrite <- ?app_assoc; cbn [app]; rewrite ?app_nil_r; reflexivity. }
    split.
    + intros lo hi Pr. apply keeps_app.
      * rewrite E2. destruct zero; [|exact I]. apply keeps_zero_events.
        intros d Hd Sp. apply in_filter_del in Hd as (Hin & Hu & Hdel).
        apply In_nth_error in Hin as [i Ni].
        destruct (wf_layout _ W i d (conj Ni Hu)) as (L1 & L2 & L3).
        destruct Pr as [Hh|(j & b & B & Ub & Sb & -> & ->)]; [right; lia|].
        assert (i <> j).
        { intro; subst j. destruct Ub as [Nb _]. assert (b = d) by congruence. subst b.
          apply B. right. exact Hdel. }
        destruct (wf_layout _ W j b Ub) as (M1 & M2 & M3).
        destruct (wf_disjoint _ W i j d b ltac:(assumption) (conj Ni Hu) Ub Sp Sb); [left | right]; lia.
      * intro pos'. destruct compact; [|exact I]. cbn [keeps]. split; [|exact I].
        unfold h3. cbn [h_dataoff h_datasize set_datasize]. unfold calc_data_size.
        replace (h_dataoff h2 + (data_end h2 rds1 - h_dataoff h2)) with (data_end h2 rds1) by lia.
        pose proof (data_end_ge h2 rds1) as Dg.
        assert (h_dataoff h2 = h_dataoff (m_hdr m)) by (unfold h2; cbn; exact E14).
        destruct Pr as [Hh|(j & b & B & Ub & Sb & -> & ->)]; [lia|].
        destruct (Surv j b B Ub) as [Nb Uu].
        pose proof (data_end_member h2 rds1 b (nth_error_In _ _ Nb) Uu). lia.
    + apply (tail_some m (bystander x) h3 rds1).
      * apply (wf_h _ W').
      * unfold crit_eq, h3, h2. destruct compact; cbn; repeat split; congruence.
      * apply (wf_rds _ W').
      * rewrite E1. unfold after_del. apply map_length.
      * intros j d B U. exact (proj1 (Surv j d B U)).
  - injection P as <- <- <-. exists [], []. split; [reflexivity|]. split; [intros lo hi _; exact I | constructor].
Qed.


(* ----- SetPrimPart, SetMetadata, SetOCIBlobDigest ----- *)

Definition is_set_op (x : op) : Prop :=
  (exists id md o now, x = OpSetMeta id md o now) \/ (exists id t o now, x = OpSetOCI id t o now) \/
  (exists id o now, x = OpSetPrim id o now).

(* the calls of a set operation: none, or the table and the header *)
Lemma set_ops_calls m x m' r evs :
  is_set_op x -> plan_op sha256 m x = (m', r, evs) ->
  evs = [] \/ (evs = tail_events m (m_hdr m') (m_rds m') /\
               h_total (m_hdr m') = h_total (m_hdr m) /\ h_descoff (m_hdr m') = h_descoff (m_hdr m) /\
               h_descsize (m_hdr m') = h_descsize (m_hdr m)).
Proof.
  assert (Meta : forall id md o now, plan_setmeta sha256 m id md o now = (m', r, evs) ->
            evs = [] \/ (evs = tail_events m (m_hdr m') (m_rds m') /\
               h_total (m_hdr m') = h_total (m_hdr m) /\ h_descoff (m_hdr m') = h_descoff (m_hdr m) /\
               h_descsize (m_hdr m') = h_descsize (m_hdr m))).
  { intros id md o now. unfold plan_setmeta.
    destruct (find_one (sel_eval (SID id)) (m_rds m)) as [[i d]|e]; [|intros [= <- <- <-]; now left].
    destruct (new_extra sha256 (d_extra d) md []) as [extra|e]; [|intros [= <- <- <-]; now left].
    unfold finish. cbn [m_hdr m_rds app]. intros [= <- <- <-]. right. cbn. auto. }
  intros [(id & md & o & now & ->)|[(id & t & o & now & ->)|(id & o & now & ->)]]; cbn [plan_op].
  - apply Meta.
  - unfold plan_setoci. destruct (find_one (sel_eval (SID id)) (m_rds m)) as [[i d]|e]; [|intros [= <- <- <-]; now left].
    destruct (negb (is_oci_type (d_type d))); [intros [= <- <- <-]; now left | apply Meta].
  - unfold plan_setprim.
    destruct (find_one (sel_eval (SID id)) (m_rds m)) as [[i d]|e]; [|intros [= <- <- <-]; now left].
    destruct (negb (d_type d =? DataPartition)); [intros [= <- <- <-]; now left|].
    destruct (part_type (d_extra d) =? PartPrimSys); [intros [= <- <- <-]; now left|].
    destruct (negb (part_type (d_extra d) =? PartSystem)); [intros [= <- <- <-]; now left|].
    destruct (find_one (sel_eval (SPartType PartPrimSys)) (m_rds m)) as [[k dk]|e].
    + intros [= <- <- <-]. right. cbn. auto.
    + destruct e; try (intros [= <- <- <-]; now left). intros [= <- <- <-]. right. cbn. auto.
Qed.

Lemma set_events s x m' r evs :
  Inv s -> wf_op s x -> is_set_op x ->
  plan_op sha256 (s_mem s) x = (m', r, evs) ->
  exists data tail, evs = data ++ tail /\
    data_safe (s_mem s) (f_bytes (s_io s)) (bystander x) data /\ tail_ok (s_mem s) (bystander x) tail.
Proof.
  intros I Wo Hx P. pose proof (plan_wf s x m' r evs I Wo P) as W'. destruct I as [W C].
  exists [], evs. split; [reflexivity|]. split; [intros lo hi _; exact I|].
  destruct (set_ops_calls _ _ _ _ _ Hx P) as [->|(-> & Ht & Ho & Hs)]; [constructor|].
  apply tail_some.
  - apply (wf_h _ W').
  - unfold crit_eq. rewrite (wf_magic _ W), (wf_magic _ W'), (wf_version _ W), (wf_version _ W'). auto.
  - apply (wf_rds _ W').
  - pose proof (wf_total _ W) as T. pose proof (wf_total _ W') as T'. lia.
  - intros j d B [N U].
    destruct (set_ops_descriptors sha256 _ _ _ _ _ Hx P j d N) as (x1 & N1 & _ & E).
    rewrite N1, E; [reflexivity|]. right. intro T. apply B. now left.
Qed.

(* ----- every operation ----- *)

Theorem operation_events s x m' r evs :
  Inv s -> wf_op s x -> plan_op sha256 (s_mem s) x = (m', r, evs) ->
  exists data tail, evs = data ++ tail /\
    data_safe (s_mem s) (f_bytes (s_io s)) (bystander x) data /\ tail_ok (s_mem s) (bystander x) tail.
Proof.
  intros I Wo P. destruct x.
  - now apply (add_events s di o now m' r evs).
  - now apply (delete_events s sel zero compact o now m' r evs).
  - apply (set_events s _ m' r evs I Wo); [|exact P]. right. right. eauto.
  - apply (set_events s _ m' r evs I Wo); [|exact P]. left. eauto.
  - apply (set_events s _ m' r evs I Wo); [|exact P]. right. left. eauto.
  - cbn in P. injection P as <- <- <-. exists [], []. split; [reflexivity|]. split; [intros lo hi _; exact Logic.I | constructor].
Qed.

(* C09: cut short after any prefix of its calls, the last write possibly torn
   at any byte, an operation leaves a file that loads, with the same number of
   descriptor slots, in which every object it was not aimed at has the same
   descriptor in the same slot and the same bytes *)
Theorem interrupted_operation_keeps_bystanders s x m' r evs st_c :
  Inv s -> wf_op s x -> plan_op sha256 (s_mem s) x = (m', r, evs) ->
  crash_image evs (s_io s) st_c ->
  exists mc, load_image st_c = inl mc /\ length (m_rds mc) = length (m_rds (s_mem s)) /\
    forall j d, used_at (m_rds (s_mem s)) j d -> ~ touched x d ->
      nth_error (m_rds mc) j = Some d /\
      nread (Z.to_nat (d_off d)) (Z.to_nat (d_size d)) st_c =
      nread (Z.to_nat (d_off d)) (Z.to_nat (d_size d)) (f_bytes (s_io s)).
Proof.
  intros I Wo P CI. destruct (operation_events s x m' r evs I Wo P) as (data & tail & -> & DS & TO).
  destruct I as [W C].
  destruct (crash_core (s_mem s) (f_bytes (s_io s)) W C (bystander x) data tail (s_io s) st_c eq_refl DS TO CI)
    as [LL By].
  destruct (loadable_like_loads (s_mem s) (f_bytes (s_io s)) W C st_c LL) as (mc & L & Len & Slots).
  exists mc. split; [exact L|]. split; [exact Len|]. intros j d U NT.
  destruct (By j d NT U) as [S B]. split; [|exact B]. apply Slots; [exact (proj1 U) | exact S].
Qed.

End Ops.

(* InvSet.v — the invariant is preserved by SetMetadata, SetOCIBlobDigest and
   SetPrimPart, and a rejected call leaves the state untouched. *)
From Coq Require Import List ZArith Lia Bool.
From Coq.Init Require Import Byte.
From Sif Require Import Bytes BytesFacts Store StoreFacts Format FormatFacts Image ImageFacts
     SelectFacts Machine Inv InvCommon.
Import ListNotations.
Local Open Scope Z_scope.

Definition time_ok (o : topt) (now : Z) : Prop :=
  in_i64 now /\ match o with TExplicit t => in_i64 t | _ => True end.

Lemma resolve_time_ok h o now : time_ok o now -> in_i64 (resolve_time h o now).
Proof.
  intros [Hn Ho]. unfold resolve_time. destruct o; [destruct (is_deterministic h)| |]; auto;
    unfold in_i64, zero_time; lia.
Qed.

Lemma find_one_used f rds i d : find_one f rds = inl (i, d) -> used_at rds i d.
Proof.
  intro H. apply find_one_found in H as [Hm Hn]. split; [exact Hn|].
  assert (In d (matching f rds)) by (rewrite Hm; simpl; auto).
  unfold matching in H. apply filter_In in H as [_ H]. now apply andb_true_iff in H as [H _].
Qed.

Lemma length_hex_of bs : length (hex_of bs) = (2 * length bs)%nat.
Proof. unfold hex_of. induction bs as [|b r IH]; simpl; [reflexivity|]. rewrite IH. lia. Qed.

Section WithDigest.
Variable sha256 : list byte -> list byte.
Variable sha_len : forall c, length (sha256 c) = 32%nat.

Definition md_ok (md : metadata) : Prop :=
  match md with MdPart _ _ arch => length arch = 3%nat | _ => True end.

Lemma length_enc_partition fs pt arch :
  length arch = 3%nat -> length (enc_partition fs pt arch) = 11%nat.
Proof. intro H. unfold enc_partition. rewrite !app_length, !length_le_enc, H. reflexivity. Qed.

Lemma new_extra_length old md c e :
  md_ok md -> length old = 384%nat -> new_extra sha256 old md c = inl e -> length e = 384%nat.
Proof.
  intros Hm Ho. destruct md; simpl; intro H; try discriminate.
  - inversion H; subst. exact Ho.
  - inversion H; subst. apply length_pad_to. rewrite length_enc_partition by exact Hm. lia.
  - destruct (Nat.ltb_spec 384 (length bs)); [discriminate|]. inversion H; subst.
    now apply length_pad_to.
  - inversion H; subst. apply length_pad_to. unfold oci_text.
    rewrite app_length, length_hex_of, sha_len. simpl. lia.
Qed.

Lemma wf_set_extra_mtime d extra t :
  wf_desc d -> length extra = 384%nat -> in_i64 t -> wf_desc (set_extra_mtime d extra t).
Proof. unfold wf_desc, set_extra_mtime. simpl. tauto. Qed.

Lemma same_core_set_extra_mtime d extra t : same_core d (set_extra_mtime d extra t).
Proof. unfold same_core, set_extra_mtime. simpl. auto. Qed.

Lemma hdr_same_layout_mtime h t : hdr_same_layout h (set_mtime h t).
Proof. unfold hdr_same_layout, set_mtime. simpl. repeat split. Qed.

Lemma hdr_same_layout_arch_mtime h a t : hdr_same_layout h (set_mtime (set_arch h a) t).
Proof. unfold hdr_same_layout, set_mtime, set_arch. simpl. repeat split. Qed.

(* The generic step: a new header (same layout) and descriptors (same core)
   are written as table + header; the invariant holds afterwards, and every
   byte from the data section on is as before. *)
Lemma update_inv b m st h' rds' :
  wf_mem m -> coherent m st ->
  hdr_same_layout (m_hdr m) h' -> length (h_arch h') = 3%nat -> in_i64 (h_mtime h') ->
  Forall2 same_core (m_rds m) rds' -> Forall wf_desc rds' ->
  let st' := after_table_header b h' rds' st in
  wf_mem (mkM h' rds' (m_minids m)) /\ coherent (mkM h' rds' (m_minids m)) st' /\
  (length st <= length st')%nat /\
  (forall a n, (a + n <= length st)%nat -> (Z.to_nat (h_dataoff (m_hdr m)) <= a)%nat ->
               nread a n st' = nread a n st).
Proof.
  intros W C Hl La Lt F Wr st'.
  pose proof (wf_mem_same_core m h' rds' W Hl La Lt F Wr) as W'.
  assert (Ho : 128 <= h_descoff h').
  { destruct Hl as (_ & _ & _ & _ & _ & _ & _ & Ho & _). rewrite Ho. apply (wf_descoff _ W). }
  destruct (after_table_header_spec b h' rds' st (wf_h _ W') Wr Ho) as (S1 & S2 & S3 & S4).
  fold st' in S1, S2, S3, S4.
  split; [exact W'|]. split; [|split; [exact S3|]].
  - constructor; simpl; [exact S1 | exact S2 |].
    apply (coherent_infile_core m rds' st st' F S3). apply (coh_infile _ _ C).
  - intros a n Hin Ha. apply S4; [exact Hin|].
    destruct Hl as (_ & _ & _ & _ & _ & _ & Ht & Ho' & Hs & Hd & _).
    pose proof (wf_dataoff _ W). pose proof (wf_descsize _ W). pose proof (wf_total _ W).
    pose proof (wf_descoff _ W).
    assert (length rds' = length (m_rds m)) by (symmetry; eapply Forall2_len; eauto).
    rewrite Ho'. lia.
Qed.

Lemma exec_finish b io m' h rds' h' :
  h_descoff h = h_descoff h' ->
  exists p, exec b io (m', Ok, [] ++ ev_table h rds' ++ ev_header h') =
            (m', Ok, mkF (after_table_header b h' rds' (f_bytes io)) p).
Proof.
  intro Hd. unfold exec.
  destruct (run_table_header b h h' rds' [] io io Hd eq_refl) as [p ->]. eauto.
Qed.

Lemma unchanged_ok (s : state) (r : result) :
  Inv s ->
  Inv s /\ (r <> Ok -> s = s) /\
  (forall a n, (a + n <= length (f_bytes (s_io s)))%nat ->
               (Z.to_nat (h_dataoff (m_hdr (s_mem s))) <= a)%nat ->
               nread a n (f_bytes (s_io s)) = nread a n (f_bytes (s_io s))).
Proof. intro I. split; [exact I|]. split; auto. Qed.

(* ---------- SetMetadata ---------- *)

Theorem setmeta_inv s id md o now s' r :
  Inv s -> time_ok o now -> md_ok md ->
  step sha256 s (OpSetMeta id md o now) = (s', r) ->
  Inv s' /\ (r <> Ok -> s' = s) /\
  (forall a n, (a + n <= length (f_bytes (s_io s)))%nat ->
               (Z.to_nat (h_dataoff (m_hdr (s_mem s))) <= a)%nat ->
               nread a n (f_bytes (s_io s')) = nread a n (f_bytes (s_io s))).
Proof.
  intros [W C] Ht Hm. unfold step, plan_op, plan_setmeta.
  destruct s as [m io b]; simpl in *.
  destruct (find_one (sel_eval (SID id)) (m_rds m)) as [[i d]|e] eqn:F.
  - pose proof (find_one_used _ _ _ _ F) as U.
    destruct (new_extra sha256 (d_extra d) md []) as [extra|e] eqn:E.
    + unfold finish. simpl m_hdr. simpl m_rds. simpl m_minids.
      set (t := resolve_time (m_hdr m) o now).
      set (rds' := set_nth i (set_extra_mtime d extra t) (m_rds m)).
      set (h' := set_mtime (m_hdr m) t).
      destruct (exec_finish b io (mkM h' rds' (m_minids m)) (m_hdr m) rds' h' eq_refl) as [p ->].
      intro H; inversion H; subst s' r; clear H. simpl.
      assert (Wd : wf_desc d).
      { destruct U as [Hn _]. eapply Forall_forall; [apply (wf_rds _ W)|]. eapply nth_error_In; eauto. }
      assert (Le : length extra = 384%nat).
      { eapply new_extra_length; eauto. apply Wd. }
      assert (Lt : in_i64 t) by (apply resolve_time_ok; exact Ht).
      destruct (update_inv b m (f_bytes io) h' rds' W C) as (W' & C' & L' & Fr').
      * apply hdr_same_layout_mtime.
      * simpl. pose proof (wf_h _ W) as Wh. unfold wf_header in Wh. tauto.
      * exact Lt.
      * apply Forall2_set_nth with (x := d); [apply same_core_refl | apply U | apply same_core_set_extra_mtime].
      * apply Forall_set_nth; [apply (wf_rds _ W) | now apply wf_set_extra_mtime].
      * split; [split; assumption|]. split; [congruence|]. exact Fr'.
    + intro H; inversion H; subst. apply (unchanged_ok (mkS m io b)). split; assumption.
  - intro H; inversion H; subst. apply (unchanged_ok (mkS m io b)). split; assumption.
Qed.

(* ---------- SetOCIBlobDigest ---------- *)

Theorem setoci_inv s id text o now s' r :
  Inv s -> time_ok o now ->
  step sha256 s (OpSetOCI id text o now) = (s', r) ->
  Inv s' /\ (r <> Ok -> s' = s) /\
  (forall a n, (a + n <= length (f_bytes (s_io s)))%nat ->
               (Z.to_nat (h_dataoff (m_hdr (s_mem s))) <= a)%nat ->
               nread a n (f_bytes (s_io s')) = nread a n (f_bytes (s_io s))).
Proof.
  intros I Ht. unfold step, plan_op, plan_setoci.
  destruct (find_one (sel_eval (SID id)) (m_rds (s_mem s))) as [[i d]|e] eqn:F.
  - destruct (negb (is_oci_type (d_type d))).
    + simpl. intro H; inversion H; subst. destruct s. now apply unchanged_ok.
    + intro H. apply (setmeta_inv s id (MdRaw text) o now s' r I Ht Logic.I).
      unfold step, plan_op. exact H.
  - simpl. intro H; inversion H; subst. destruct s. now apply unchanged_ok.
Qed.

(* ---------- SetPrimPart ---------- *)

Lemma wf_with_parttype d pt t :
  wf_desc d -> in_i64 t -> wf_desc (with_parttype d pt t).
Proof.
  intros Wd Lt. unfold with_parttype. apply wf_set_extra_mtime; auto.
  apply length_pad_to. rewrite length_enc_partition; [lia|].
  unfold part_arch. rewrite length_nread. destruct Wd as (_ & _ & _ & _ & _ & _ & _ & _ & _ & _ & _ & _ & Le).
  rewrite Le. reflexivity.
Qed.

Lemma same_core_with_parttype d pt t : same_core d (with_parttype d pt t).
Proof. unfold with_parttype. apply same_core_set_extra_mtime. Qed.

Theorem setprim_inv s id o now s' r :
  Inv s -> time_ok o now ->
  step sha256 s (OpSetPrim id o now) = (s', r) ->
  Inv s' /\ (r <> Ok -> s' = s) /\
  (forall a n, (a + n <= length (f_bytes (s_io s)))%nat ->
               (Z.to_nat (h_dataoff (m_hdr (s_mem s))) <= a)%nat ->
               nread a n (f_bytes (s_io s')) = nread a n (f_bytes (s_io s))).
Proof.
  intros [W C] Ht. unfold step, plan_op, plan_setprim.
  destruct s as [m io b]; simpl in *.
  assert (I0 : Inv (mkS m io b)) by (split; assumption).
  destruct (find_one (sel_eval (SID id)) (m_rds m)) as [[i d]|e] eqn:F;
    [|intro H; inversion H; subst; now apply (unchanged_ok (mkS m io b))].
  pose proof (find_one_used _ _ _ _ F) as U.
  destruct (negb (d_type d =? DataPartition));
    [intro H; inversion H; subst; now apply (unchanged_ok (mkS m io b))|].
  destruct (part_type (d_extra d) =? PartPrimSys);
    [intro H; inversion H; subst; now apply (unchanged_ok (mkS m io b))|].
  destruct (negb (part_type (d_extra d) =? PartSystem));
    [intro H; inversion H; subst; now apply (unchanged_ok (mkS m io b))|].
  set (t := resolve_time (m_hdr m) o now).
  assert (Lt : in_i64 t) by (apply resolve_time_ok; exact Ht).
  assert (Wd : wf_desc d).
  { destruct U as [Hn _]. eapply Forall_forall; [apply (wf_rds _ W)|]. eapply nth_error_In; eauto. }
  (* the descriptors after the optional demotion *)
  assert (Dem : forall rds1,
     (match find_one (sel_eval (SPartType PartPrimSys)) (m_rds m) with
      | inl (j, dj) => inl (set_nth j (with_parttype dj PartSystem t) (m_rds m))
      | inr ENotFound => inl (m_rds m)
      | inr e => inr e
      end) = inl rds1 ->
     Forall2 same_core (m_rds m) rds1 /\ Forall wf_desc rds1 /\
     exists d1, nth_error rds1 i = Some d1 /\ same_core d d1).
  { intros rds1 H.
    destruct (find_one (sel_eval (SPartType PartPrimSys)) (m_rds m)) as [[j dj]|e] eqn:F2.
    - inversion H; subst; clear H. pose proof (find_one_used _ _ _ _ F2) as Uj.
      assert (Wj : wf_desc dj).
      { destruct Uj as [Hn _]. eapply Forall_forall; [apply (wf_rds _ W)|]. eapply nth_error_In; eauto. }
      split; [|split].
      + apply Forall2_set_nth with (x := dj); [apply same_core_refl | apply Uj | apply same_core_with_parttype].
      + apply Forall_set_nth; [apply (wf_rds _ W) | now apply wf_with_parttype].
      + rewrite nth_error_set_nth. destruct U as [Hn _], Uj as [Hj _].
        destruct (Nat.eqb_spec j i) as [->|N].
        * assert (dj = d) by congruence. subst dj.
          assert (Hlt : (i < length (m_rds m))%nat) by (apply nth_error_Some; congruence).
          apply Nat.ltb_lt in Hlt. rewrite Hlt. eexists; split; [reflexivity|].
          apply same_core_with_parttype.
        * exists d. split; [exact Hn | apply same_core_refl].
    - destruct e; inversion H; subst. split; [|split].
      + apply Forall2_refl, same_core_refl.
      + apply (wf_rds _ W).
      + exists d. split; [apply U | apply same_core_refl]. }
  destruct (match find_one (sel_eval (SPartType PartPrimSys)) (m_rds m) with
            | inl (j, dj) => inl (set_nth j (with_parttype dj PartSystem t) (m_rds m))
            | inr ENotFound => inl (m_rds m)
            | inr e => inr e
            end) as [rds1|e] eqn:D;
    [|intro H; inversion H; subst; now apply (unchanged_ok (mkS m io b))].
  destruct (Dem rds1 eq_refl) as (F1 & W1 & d1 & N1 & C1).
  set (rds2 := set_nth i (with_parttype d PartPrimSys t) rds1).
  set (h2 := set_mtime (set_arch (m_hdr m) (part_arch (d_extra d))) t).
  assert (Hoff : h_descoff (m_hdr m) = h_descoff h2) by reflexivity.
  unfold exec.
  destruct (run_table_header b (m_hdr m) h2 rds2 [] io io Hoff eq_refl) as [p E].
  simpl app in E. rewrite E.
  intro H; inversion H; subst s' r; clear H. simpl.
  destruct (update_inv b m (f_bytes io) h2 rds2 W C) as (W' & C' & L' & Fr').
  - apply hdr_same_layout_arch_mtime.
  - simpl. unfold part_arch. rewrite length_nread.
    destruct Wd as (_ & _ & _ & _ & _ & _ & _ & _ & _ & _ & _ & _ & Le). rewrite Le. reflexivity.
  - exact Lt.
  - apply (Forall2_trans same_core _ rds1 _ same_core_trans F1).
    apply Forall2_set_nth with (x := d1); [apply same_core_refl | exact N1 |].
    destruct C1 as (a1 & a2 & a3 & a4 & a5). unfold same_core, with_parttype, set_extra_mtime. simpl.
    repeat split; congruence.
  - apply Forall_set_nth; [exact W1 | now apply wf_with_parttype].
  - split; [split; assumption|]. split; [congruence|]. exact Fr'.
Qed.

End WithDigest.

(* C03Facts.v — lemmas behind Properties/C03.v. *)
From Coq Require Import List ZArith Lia Bool.
From Coq.Init Require Import Byte.
From Sif Require Import Bytes Store Format Image ImageFacts Machine AlignFacts Inv InvCommon InvSet InvDelete
     InvAdd InvCreate Reach Persist.
Import ListNotations.
Local Open Scope Z_scope.

Lemma layout_reachable :
  forall sha256, (forall c, length (sha256 c) = 32%nat) ->
  forall s, reachable sha256 s ->
  let h := m_hdr (s_mem s) in
  let rds := m_rds (s_mem s) in
  let st := f_bytes (s_io s) in
  128 <= h_descoff h /\ 585 * Z.of_nat (length rds) <= h_descsize h /\
  h_descoff h + h_descsize h <= h_dataoff h /\
  nread (Z.to_nat (h_descoff h)) (585 * length rds) st = enc_table rds /\
  (forall i d, used_at rds i d ->
     h_dataoff h <= d_off d /\ 0 <= d_size d /\
     d_off d + d_size d <= h_dataoff h + h_datasize h /\
     (0 < d_size d -> d_off d + d_size d <= Z.of_nat (length st))) /\
  (forall i j di dj, i <> j -> used_at rds i di -> used_at rds j dj ->
     0 < d_size di -> 0 < d_size dj ->
     d_off di + d_size di <= d_off dj \/ d_off dj + d_size dj <= d_off di).
Proof.
  intros sha H s R h rds st. destruct (reachable_inv sha H s R) as [W C].
  split; [apply (wf_descoff _ W)|]. split.
  { pose proof (wf_descsize _ W). pose proof (wf_total _ W). unfold h, rds. lia. }
  split; [apply (wf_dataoff _ W)|]. split; [apply (coh_tab _ _ C)|]. split.
  - intros i d U. destruct (wf_layout _ W i d U) as (a & b & c).
    split; [exact a|]. split; [exact b|]. split; [exact c|]. apply (coh_infile _ _ C i d U).
  - apply (wf_disjoint _ W).
Qed.

Lemma add_placement :
  forall sha256, (forall c, length (sha256 c) = 32%nat) ->
  forall s di o now s',
  Inv s -> time_ok o now -> wf_dinput di -> add_fits (s_mem s) di ->
  step sha256 s (OpAdd di o now) = (s', Ok) ->
  let m := s_mem s in
  let unaligned := data_end (m_hdr m) (m_rds m) in
  exists off, next_aligned unaligned (di_align di) = Some off /\
    unaligned <= off /\ (0 < di_align di -> off mod di_align di = 0 /\ off < unaligned + di_align di) /\
    (forall i d, used_at (m_rds m) i d -> d_off d + d_size d <= off) /\
    (forall a n, (a + n <= length (f_bytes (s_io s)))%nat -> (Z.to_nat (h_dataoff (m_hdr m)) <= a)%nat ->
                 Z.of_nat (a + n) <= unaligned ->
                 nread a n (f_bytes (s_io s')) = nread a n (f_bytes (s_io s))).
Proof.
  intros sha H s di o now s' I T Wd Fit St m unaligned.
  destruct (add_inv sha H s di o now s' Ok I T Wd Fit St) as (_ & _ & Fr & _ & Acc).
  destruct (Acc eq_refl) as (slot & off & extra & _ & A & _).
  destruct I as [W C].
  destruct (data_end_bound m W) as [U0 U1]. pose proof (wf_bound m W) as Wb.
  assert (Ur : 0 <= unaligned <= max_i64) by (unfold unaligned, max_i64; lia).
  destruct (next_aligned_some _ _ _ Ur A) as (O1 & _ & _ & O4).
  exists off. split; [exact A|]. split; [exact O1|]. split; [exact O4|]. split; [|exact Fr].
  intros i d [Hn Hu]. pose proof (data_end_member (m_hdr m) (m_rds m) d (nth_error_In _ _ Hn) Hu) as M.
  fold unaligned in M. lia.
Qed.

Lemma bystanders_undisturbed :
  forall sha256, (forall c, length (sha256 c) = 32%nat) ->
  forall s x s' r, Inv s -> wf_op s x -> step sha256 s x = (s', r) ->
  forall j d, used_at (m_rds (s_mem s)) j d -> ~ deleted_by x r d -> ~ set_target x d ->
    used_at (m_rds (s_mem s')) j d /\
    nread (Z.to_nat (d_off d)) (Z.to_nat (d_size d)) (f_bytes (s_io s')) =
    nread (Z.to_nat (d_off d)) (Z.to_nat (d_size d)) (f_bytes (s_io s)).
Proof.
  intros sha H s x s' r I Wo St j d U ND NT.
  destruct (step_persist sha H s x s' r I Wo St j d U ND) as (d' & U' & _ & E & B).
  rewrite (E NT) in U'. auto.
Qed.

Lemma next_aligned_spec :
  forall off align,
  0 <= off <= max_i64 ->
  (forall r, next_aligned off align = Some r ->
     off <= r /\ r <= max_i64 /\ (align <= 0 -> r = off) /\
     (0 < align -> r mod align = 0 /\ r < off + align)) /\
  (next_aligned off align = None <->
     0 < align /\ off mod align <> 0 /\ max_i64 < off + (align - off mod align)).
Proof.
  intros off align H. split; [intro r; now apply next_aligned_some | now apply next_aligned_none].
Qed.

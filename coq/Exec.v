(* Exec.v — running the model on recorded cases and comparing with what the
   implementation did (the correspondence check).  Evaluated with vm_compute
   by the Cases_*.v files the harness writes; nothing here is part of a
   theorem. *)
From Coq Require Import List ZArith Bool.
From Coq.Init Require Import Byte.
From Sif Require Import Bytes Store Format Image Machine Sha2 Meta.
Import ListNotations.
Local Open Scope Z_scope.

(* run-length encoded byte strings *)
Inductive brun := Lit (l : list byte) | Rep (b : byte) (n : N).

Definition expand (rs : list brun) : list byte :=
  flat_map (fun r => match r with Lit l => l | Rep b n => repeat b (N.to_nat n) end) rs.

(* what the implementation showed after a step *)
Record obs := mkObs {
  o_res : result;
  o_hdr : option (list brun);     (* encoding of the in-memory header; None = as in storage *)
  o_rds : option (list brun);     (* encoding of the in-memory descriptors; None = as in storage *)
  o_minids : list (Z * Z);        (* cached minimum IDs, sorted by key *)
  o_store : list brun;            (* the backing bytes *)
  o_pos : option Z }.             (* Buffer position (memory backend only) *)

Inductive init :=
| ICreate (co : copts)
| ICreateO (opts : list copt) (now : Z) (rnd : list byte)   (* options as given; clock; random ID *)
| ILoad (bytes : list brun).

(* read-only questions asked of the handle after a step *)
Inductive query :=
| QMany (sels : list selector)      (* GetDescriptors *)
| QOne (sels : list selector)       (* GetDescriptor *)
| QData (id : Z)                    (* GetDescriptor(WithID id) then GetData *)
| QMeta (id : Z)                    (* GetDescriptor(WithID id) then every typed accessor (Meta.v) *)
| QHeader.                          (* every accessor of the image header (Meta.v header_view) *)

Inductive qobs :=
| QIds (l : list (Z * Z))           (* (ID, relative ID) of each descriptor returned *)
| QErr (e : err)
| QBytes (bs : list brun)
| QView (name : list byte) (nums : list Z) (arch fp digest : list byte)
| QHdr (launch version arch id : list byte) (nums : list Z).

Record hcase := mkCase {
  c_id : Z;
  c_backend : backend;
  c_init : init;
  c_init_obs : obs;
  c_has_handle : bool;            (* false: creation/loading failed, no handle *)
  c_init_queries : list (query * qobs);
  c_steps : list (op * obs * list (query * qobs));
  (* storage calls each step issued, as (kind, argument): 0 Seek(arg, Start), 1 Write of arg
     bytes, 2 Truncate(arg), 3 Seek(0, End); one list per step, [] = not recorded *)
  c_traces : list (list (Z * Z)) }.

Definition sha := Sha2.sha256.

Fixpoint pairs_eqb (a b : list (Z * Z)) : bool :=
  match a, b with
  | [], [] => true
  | (x, y) :: a', (u, v) :: b' => (x =? u) && (y =? v) && pairs_eqb a' b'
  | _, _ => false
  end.

(* a read that never converts a number larger than the store to nat *)
Definition safe_read (off n : Z) (st : store) : list byte :=
  match zread off n st with Some bs => bs | None => [] end.

(* used descriptors' regions agree between two stores *)
Definition live_equal (rds : list rdesc) (a b : store) : bool :=
  forallb (fun d =>
             if d_used d then
               bytes_eqb (safe_read (d_off d) (d_size d) a) (safe_read (d_off d) (d_size d) b)
             else true) rds.

(* mismatch codes:
   1 result   2 in-memory header   3 in-memory descriptors   4 minimum-ID cache
   5 backing bytes (anywhere)      6 buffer position         7 content of a live object
   8 header or descriptor-table region of the backing bytes  9 length of the backing bytes *)
Definition check_state (m : mem) (io : fstate) (r : result) (o : obs) (handle : bool) : list Z :=
  let ost := expand (o_store o) in
  let mst := f_bytes io in
  let h := m_hdr m in
  (if result_eqb r (o_res o) then [] else [1]) ++
  (if handle then
     (let exp := match o_hdr o with Some l => expand l | None => nread 0 128 ost end in
      if bytes_eqb (enc_header h) exp then [] else [2]) ++
     (let exp := match o_rds o with
                 | Some l => expand l
                 | None => safe_read (h_descoff h) (585 * h_total h) ost
                 end in
      if bytes_eqb (enc_table (m_rds m)) exp then [] else [3]) ++
     (if pairs_eqb (m_minids m) (o_minids o) then [] else [4]) ++
     (if live_equal (m_rds m) mst ost then [] else [7]) ++
     (if bytes_eqb (nread 0 128 mst) (nread 0 128 ost) &&
         bytes_eqb (safe_read (h_descoff h) (585 * h_total h) mst)
                   (safe_read (h_descoff h) (585 * h_total h) ost)
      then [] else [8])
   else []) ++
  (if bytes_eqb mst ost then [] else [5]) ++
  (match o_pos o with
   | Some p => if Z.of_nat (f_pos io) =? p then [] else [6]
   | None => []
   end) ++
  (if Nat.eqb (length mst) (length ost) then [] else [9]).

Definition ids_of (l : list (rdesc * Z)) : list (Z * Z) := map (fun p => (d_id (fst p), snd p)) l.

Definition run_query (s : state) (q : query) : qobs :=
  match q with
  | QMany sels =>
      match get_descriptors (s_mem s) sels with
      | inl l => QIds (ids_of l)
      | inr e => QErr e
      end
  | QOne sels =>
      match get_descriptor (s_mem s) sels with
      | inl p => QIds (ids_of [p])
      | inr e => QErr e
      end
  | QData id =>
      match get_descriptor (s_mem s) [SID id] with
      | inl (d, _) =>
          match get_data d (f_bytes (s_io s)) with
          | inl bs => QBytes [Lit bs]
          | inr e => QErr e
          end
      | inr e => QErr e
      end
  | QMeta id =>
      match get_descriptor (s_mem s) [SID id] with
      | inl (d, _) =>
          let v := meta_view d in QView (mv_name v) (mv_nums v) (mv_arch v) (mv_fp v) (mv_digest v)
      | inr e => QErr e
      end
  | QHeader =>
      let v := header_view (m_hdr (s_mem s)) in
      QHdr (hv_launch v) (hv_version v) (hv_arch v) (hv_id v) (hv_nums v)
  end.

Fixpoint zs_eqb (a b : list Z) : bool :=
  match a, b with
  | [], [] => true
  | x :: a', y :: b' => (x =? y) && zs_eqb a' b'
  | _, _ => false
  end.

Definition qobs_eqb (a b : qobs) : bool :=
  match a, b with
  | QIds x, QIds y => pairs_eqb x y
  | QErr x, QErr y => err_eqb x y
  | QBytes x, QBytes y => bytes_eqb (expand x) (expand y)
  | QView n1 z1 a1 f1 g1, QView n2 z2 a2 f2 g2 =>
      bytes_eqb n1 n2 && zs_eqb z1 z2 && bytes_eqb a1 a2 && bytes_eqb f1 f2 && bytes_eqb g1 g2
  | QHdr l1 v1 a1 i1 z1, QHdr l2 v2 a2 i2 z2 =>
      bytes_eqb l1 l2 && bytes_eqb v1 v2 && bytes_eqb a1 a2 && bytes_eqb i1 i2 && zs_eqb z1 z2
  | _, _ => false
  end.

(* code 11: a query answered differently *)
Definition check_queries (s : state) (qs : list (query * qobs)) : list Z :=
  flat_map (fun qo => if qobs_eqb (run_query s (fst qo)) (snd qo) then [] else [11]) qs.

(* the ReadWriter calls behind a list of storage events, from storage state io *)
Fixpoint calls_of (b : backend) (io : fstate) (evs : list event) : list (Z * Z) :=
  match evs with
  | [] => []
  | ev :: r =>
      (match ev with
       | EvSeek o => [(0, Z.of_nat o)]
       | EvWrite bs => [(1, Z.of_nat (length bs))]
       | EvTrunc n => [(2, Z.of_nat n)]
       | EvResize n =>
           (3, 0) ::
           (if (n <? length (f_bytes io))%nat then [(2, Z.of_nat n)]
            else if (length (f_bytes io) <? n)%nat then [(0, Z.of_nat n - 1); (1, 1)]
            else [])
       end) ++
      match backend_apply b ev io with
      | Some io' => calls_of b io' r
      | None => []
      end
  end.

(* code 14: the sequence of storage calls differs *)
Definition check_trace (s : state) (x : op) (tr : list (Z * Z)) : list Z :=
  match tr, x with
  | [], _ => []
  | _, OpReload => []
  | _, _ =>
      let '(_, _, evs) := plan_op sha (s_mem s) x in
      if pairs_eqb (calls_of (s_backend s) (s_io s) evs) tr then [] else [14]
  end.

Fixpoint check_steps (cid : Z) (i : Z) (s : state) (steps : list (op * obs * list (query * qobs)))
         (traces : list (list (Z * Z))) : list (Z * Z * Z) :=
  match steps with
  | [] => []
  | (x, o, qs) :: r =>
      let '(s', res) := step sha s x in
      map (fun c => (cid, i, c))
          (check_state (s_mem s') (s_io s') res o true ++ check_queries s' qs
           ++ check_trace s x (hd [] traces))
      ++ check_steps cid (i + 1) s' r (tl traces)
  end.

Definition empty_mem : mem := mkM (mkH [] [] [] [] [] 0 0 0 0 0 0 0 0) [] [].

Definition check_create (c : hcase) (co : copts) : list (Z * Z * Z) :=
      let '(os, r, io) := create sha (c_backend c) co in
      match os with
      | Some s =>
          map (fun x => (c_id c, 0, x))
              (check_state (s_mem s) (s_io s) r (c_init_obs c) true
               ++ (if c_has_handle c then [] else [10]) ++ check_queries s (c_init_queries c))
          ++ check_steps (c_id c) 1 s (c_steps c) (c_traces c)
      | None =>
          map (fun x => (c_id c, 0, x))
              (check_state empty_mem io r (c_init_obs c) false
               ++ (if c_has_handle c then [10] else []))
      end.

Definition check_case (c : hcase) : list (Z * Z * Z) :=
  match c_init c with
  | ICreateO opts now rnd => check_create c (resolve_copts opts now rnd)
  | ICreate co =>
      let '(os, r, io) := create sha (c_backend c) co in
      match os with
      | Some s =>
          map (fun x => (c_id c, 0, x))
              (check_state (s_mem s) (s_io s) r (c_init_obs c) true
               ++ (if c_has_handle c then [] else [10]) ++ check_queries s (c_init_queries c))
          ++ check_steps (c_id c) 1 s (c_steps c) (c_traces c)
      | None =>
          map (fun x => (c_id c, 0, x))
              (check_state empty_mem io r (c_init_obs c) false
               ++ (if c_has_handle c then [10] else []))
      end
  | ILoad bytes =>
      match load (c_backend c) (expand bytes) with
      | inl s =>
          map (fun x => (c_id c, 0, x))
              (check_state (s_mem s) (s_io s) Ok (c_init_obs c) true
               ++ (if c_has_handle c then [] else [10]) ++ check_queries s (c_init_queries c))
          ++ check_steps (c_id c) 1 s (c_steps c) (c_traces c)
      | inr e =>
          map (fun x => (c_id c, 0, x))
              (check_state empty_mem (mkF (expand bytes) 0) (Err e) (c_init_obs c) false
               ++ (if c_has_handle c then [10] else []))
      end
  end.

Definition mismatches (cs : list hcase) : list (Z * Z * Z) := flat_map check_case cs.

(* ---------- raw backend call sequences (C14) ---------- *)
From Sif Require Import Backends.

(* one observed reply: data read, count / position, error class (0 none, 1 EOF, 2 other) *)
Record breply := mkBR { br_data : list brun; br_n : Z; br_err : Z }.

Record bcase := mkBCase {
  bc_id : Z;
  bc_buffer : bool;                  (* true: sif.Buffer, false: *os.File *)
  bc_init : list brun;
  bc_calls : list (call * breply);
  bc_final : list brun }.

Fixpoint check_calls (stp : stor -> call -> stor * reply) (cid i : Z) (s : stor)
         (cs : list (call * breply)) : stor * list (Z * Z * Z) :=
  match cs with
  | [] => (s, [])
  | (c, o) :: r =>
      let '(s', rep) := stp s c in
      let ok := bytes_eqb (r_data rep) (expand (br_data o)) && (r_n rep =? br_n o)
                && (err_class (r_err rep) =? br_err o) in
      let '(sf, ms) := check_calls stp cid (i + 1) s' r in
      (sf, (if ok then [] else [(cid, i, 12)]) ++ ms)
  end.

(* codes: 12 a reply differs, 13 the final contents differ *)
Definition check_bcase (c : bcase) : list (Z * Z * Z) :=
  let stp := if bc_buffer c then buf_step else file_step in
  let '(sf, ms) := check_calls stp (bc_id c) 1 (mkSt (expand (bc_init c)) 0) (bc_calls c) in
  ms ++ (if bytes_eqb (st_bytes sf) (expand (bc_final c)) then [] else [(bc_id c, 0, 13)]).

Definition bmismatches (cs : list bcase) : list (Z * Z * Z) := flat_map check_bcase cs.

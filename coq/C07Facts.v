(* C07Facts.v — trust comes only from the supplied key material; nothing
   attached to a verified group is skipped; reported signers are those the
   envelope opener returned.  C16Facts: legacy and current signatures. *)
From Coq Require Import List ZArith Lia Bool.
From Coq.Init Require Import Byte.
From Sif Require Import Bytes BytesFacts Store Format Image SelectFacts Integrity StreamFacts IntegFacts C04Facts C05Facts.
Import ListNotations.
Local Open Scope Z_scope.

Section C07.

Variable hash : halg -> list byte -> list byte.
Variable classify : list byte -> sigkind.
Variable is_legacy : list byte -> bool.
Variable open_dsse : Z -> list byte -> option (list byte * list Z).
Variable open_pgp : list byte -> option (list byte * list byte).
Variable parse_md : list byte -> option imd.
Variable has_dsse_keys : bool.
Variable has_pgp_keys : bool.

Local Notation dmatch := (digest_matches hash).
Local Notation osig := (open_sig open_dsse open_pgp).
Local Notation vlegacy := (verify_legacy_sig hash open_dsse open_pgp).
Local Notation vsig := (verify_sig hash open_dsse open_pgp parse_md).
Local Notation vfy := (verify hash classify is_legacy open_dsse open_pgp parse_md has_dsse_keys has_pgp_keys).
Local Notation accepted := (sig_accepted hash open_dsse open_pgp parse_md).
Local Notation tsigs := (task_signatures is_legacy).
Local Notation kavail := (key_available has_dsse_keys has_pgp_keys).
Local Notation sres := (sig_result hash classify open_dsse open_pgp parse_md).

(* opening is the only source of signer identities *)
Lemma open_sig_kinds kind ht c o :
  osig kind ht c = Some o ->
  (kind = KDSSE /\ open_dsse ht c = Some (op_payload o, op_keys o) /\ op_entity o = None) \/
  (kind = KClearsign /\ exists fp, open_pgp c = Some (op_payload o, fp) /\ op_entity o = Some fp /\ op_keys o = []).
Proof.
  unfold open_sig. destruct kind.
  - destruct (open_dsse ht c) as [[p ks]|] eqn:O; [|discriminate]. intros [= <-]. left. auto.
  - destruct (open_pgp c) as [[p fp]|] eqn:O; [|discriminate]. intros [= <-]. right. split; [reflexivity|].
    exists fp. auto.
  - discriminate.
Qed.

(* ---------- the legacy verifiers ---------- *)

Record legacy_accepted (st : store) (ods : list (rdesc * Z)) (sig : rdesc) (kind : sigkind)
       (o : opened) (dg : digest) (cs : list (list byte)) : Prop := {
  la_open : osig kind 1 (obj_bytes sig st) = Some o;
  la_meta : exists ht fp, sig_meta sig = inl (ht, fp) /\ fp_matches (op_entity o) fp = true /\
                          legacy_digest ht (op_payload o) = inl dg;
  la_contents : map_err (fun p => section_bytes (fst p) st) ods = inl cs;
  la_digest : dmatch dg (concat cs) = true }.

Lemma verify_legacy_sig_sound st ods errid sig kind :
  vr_err (vlegacy st ods errid sig kind) = None ->
  exists o dg cs,
    legacy_accepted st ods sig kind o dg cs /\
    vlegacy st ods errid sig kind =
      mkVR (d_id sig) (map (fun p => d_id (fst p)) ods) (op_keys o) (op_entity o) None.
Proof.
  unfold verify_legacy_sig.
  destruct (osig kind 1 (obj_bytes sig st)) as [o|] eqn:OS; [|discriminate].
  destruct (sig_meta sig) as [[ht fp]|] eqn:SM; [|discriminate].
  destruct (fp_matches (op_entity o) fp) eqn:FP; cbn [negb]; [|discriminate].
  destruct (legacy_digest ht (op_payload o)) as [dg|] eqn:LD; [|discriminate].
  destruct (map_err _ ods) as [cs|] eqn:ME; [|discriminate].
  destruct (dmatch dg (concat cs)) eqn:DM; [|discriminate].
  intros _. exists o, dg, cs. split; [|reflexivity].
  constructor; try assumption. exists ht, fp. auto.
Qed.

(* ---------- every result of a successful strict run, whatever the task kind ---------- *)

Inductive result_facts (m : mem) (st : store) (t : task) (sig : rdesc) (vr : vresult) : Prop :=
| RFGroup g ods sub o im minid :
    t = TGroup g ods sub ->
    accepted m st g ods sub sig (classify (obj_bytes sig st)) o im minid ->
    vr = mkVR (d_id sig) (map (fun p => d_id (fst p)) ods) (op_keys o) (op_entity o) None ->
    result_facts m st t sig vr
| RFLegacy ods o dg cs :
    (exists g, t = TLegacyGroup g ods) \/ (exists od, t = TLegacyObject od /\ ods = [od]) ->
    legacy_accepted st ods sig (classify (obj_bytes sig st)) o dg cs ->
    vr = mkVR (d_id sig) (map (fun p => d_id (fst p)) ods) (op_keys o) (op_entity o) None ->
    result_facts m st t sig vr.

Theorem strict_success_facts m st ts rs :
  vfy m st strict ts = (rs, None) ->
  (* every task has signatures, and each of them was examined and accepted *)
  (forall t, In t ts -> exists sigs, tsigs m st t = inl sigs /\ sigs <> [] /\
       forall sig, In sig sigs ->
         kavail (classify (obj_bytes sig st)) /\
         In (sres m st t sig) rs /\ result_facts m st t sig (sres m st t sig)) /\
  (* and nothing else is reported *)
  (forall vr, In vr rs -> exists t sigs sig, In t ts /\ tsigs m st t = inl sigs /\ In sig sigs /\
                                             vr = sres m st t sig).
Proof.
  intro V. destruct (verify_ok _ _ _ _ _ _ _ _ _ _ _ _ V) as (_ & -> & Hall). split.
  - intros t Ht. rewrite Forall_forall in Hall. destruct (Hall t Ht) as (sigs & TS & Hnn & Hok).
    exists sigs. split; [exact TS|]. split; [exact Hnn|]. intros sig Hs.
    rewrite Forall_forall in Hok. destruct (Hok sig Hs) as [Hk He]. split; [exact Hk|].
    split; [eapply all_results_complete; eauto|].
    unfold sig_result in He |- *. destruct t as [g ods sub|g ods|od]; cbn [verify_sig] in He |- *.
    + destruct (verify_group_sig_sound _ _ _ _ _ _ _ _ _ _ _ He) as (o & im & minid & A & E).
      eapply RFGroup; eauto.
    + destruct (verify_legacy_sig_sound _ _ _ _ _ He) as (o & dg & cs & A & E).
      eapply RFLegacy; eauto.
    + destruct (verify_legacy_sig_sound _ _ _ _ _ He) as (o & dg & cs & A & E).
      eapply RFLegacy; [right; eauto | exact A | exact E].
  - intros vr Hin. apply in_all_results in Hin. exact Hin.
Qed.

(* the signer identities of a result are those the opener returned for that
   signature's bytes under the supplied keys; for PGP the descriptor names the
   same entity *)
Theorem reported_signers_are_openers m st t sig vr :
  result_facts m st t sig vr ->
  exists ht o, osig (classify (obj_bytes sig st)) ht (obj_bytes sig st) = Some o /\
               vr_keys vr = op_keys o /\ vr_entity vr = op_entity o /\
               (* PGP: the descriptor names the entity whose key validated the signature
                  (an absent fingerprint only equals an empty one, which no key has) *)
               (forall e, op_entity o = Some e ->
                          match sig_fingerprint (d_extra sig) with Some f => f = e | None => e = [] end).
Proof.
  assert (SMF : forall ht fp, sig_meta sig = inl (ht, fp) -> fp = sig_fingerprint (d_extra sig)).
  { unfold sig_meta. intros ht fp. destruct (negb _); [discriminate|]. destruct (hashtype_known _); [|discriminate].
    now intros [= _ <-]. }
  intros [g ods sub o im minid _ A ->|ods o dg cs _ A ->]; cbn [vr_keys vr_entity].
  - destruct (sa_meta _ _ _ _ _ _ _ _ _ _ _ _ _ _ A) as (ht & fp & SM & OS & FM).
    exists ht, o. split; [exact OS|]. split; [reflexivity|]. split; [reflexivity|].
    intros e He. rewrite He in FM. apply SMF in SM. subst fp.
    destruct (sig_fingerprint (d_extra sig)) as [f|]; cbn in FM; apply bytes_eqb_eq in FM; congruence.
  - destruct A as [LO (ht & fp & SM & FM & _) _ _].
    exists 1, o. split; [exact LO|]. split; [reflexivity|]. split; [reflexivity|].
    intros e He. rewrite He in FM. apply SMF in SM. subst fp.
    destruct (sig_fingerprint (d_extra sig)) as [f|]; cbn in FM; apply bytes_eqb_eq in FM; congruence.
Qed.

End C07.

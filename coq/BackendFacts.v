(* BackendFacts.v — every storage call the library issues is inside the
   Buffer's contract (for images with at least one descriptor slot), hence
   every operation history gives the same results and byte-identical storage
   on sif.Buffer and on a file. *)
From Coq Require Import List ZArith Lia Bool.
From Coq.Init Require Import Byte.
From Sif Require Import Bytes BytesFacts Store StoreFacts Format FormatFacts Image ImageFacts
     Machine Backends.
Import ListNotations.
Local Open Scope Z_scope.

(* ---------- the machine's backends are the literal ones ---------- *)

Definition stor_of (io : fstate) : stor := mkSt (f_bytes io) (Z.of_nat (f_pos io)).

(* the ReadWriter calls behind one storage event *)
Definition ev_calls (io : fstate) (ev : event) : list call :=
  match ev with
  | EvSeek o => [CSeek (Z.of_nat o) SeekStart]
  | EvWrite bs => [CWrite bs]
  | EvTrunc n => [CTruncate (Z.of_nat n)]
  | EvResize n =>
      CSeek 0 SeekEnd ::
      (if (n <? length (f_bytes io))%nat then [CTruncate (Z.of_nat n)]
       else if (length (f_bytes io) <? n)%nat then [CSeek (Z.of_nat n - 1) SeekStart; CWrite [x00]]
       else [])
  end.

Fixpoint run_calls (stp : stor -> call -> stor * reply) (s : stor) (cs : list call) : stor * bool :=
  match cs with
  | [] => (s, true)
  | c :: r =>
      let '(s', rep) := stp s c in
      match r_err rep with
      | None => run_calls stp s' r
      | Some _ => (s', false)
      end
  end.

(* single calls, on either backend *)
Lemma buf_seek_start (s : stor) a :
  0 <= a -> buf_step s (CSeek a SeekStart) = (mkSt (st_bytes s) a, mkReply [] a None).
Proof. intro H. cbn. destruct (Z.ltb_spec a 0); [lia | reflexivity]. Qed.

Lemma file_seek_start (s : stor) a :
  0 <= a -> file_step s (CSeek a SeekStart) = (mkSt (st_bytes s) a, mkReply [] a None).
Proof. intro H. cbn. destruct (Z.ltb_spec a 0); [lia | reflexivity]. Qed.

Lemma buf_seek_end (s : stor) :
  buf_step s (CSeek 0 SeekEnd) = (mkSt (st_bytes s) (len s), mkReply [] (len s) None).
Proof.
  cbn. unfold len. destruct (Z.ltb_spec (Z.of_nat (length (st_bytes s)) + 0) 0); [lia|].
  now rewrite Z.add_0_r.
Qed.

Lemma file_seek_end (s : stor) :
  file_step s (CSeek 0 SeekEnd) = (mkSt (st_bytes s) (len s), mkReply [] (len s) None).
Proof.
  cbn. unfold len. destruct (Z.ltb_spec (Z.of_nat (length (st_bytes s)) + 0) 0); [lia|].
  now rewrite Z.add_0_r.
Qed.

Lemma buf_truncate_shrink (s : stor) n :
  (n <= length (st_bytes s))%nat ->
  buf_step s (CTruncate (Z.of_nat n)) = (mkSt (firstn n (st_bytes s)) (st_pos s), mkReply [] 0 None).
Proof.
  intro H. cbn. unfold len. destruct (Z.ltb_spec (Z.of_nat n) 0); [lia|].
  destruct (Z.ltb_spec (Z.of_nat (length (st_bytes s))) (Z.of_nat n)); [lia|]. cbn.
  now rewrite Nat2Z.id.
Qed.

Lemma file_truncate (s : stor) n :
  file_step s (CTruncate (Z.of_nat n)) = (mkSt (ntrunc n (st_bytes s)) (st_pos s), mkReply [] 0 None).
Proof. cbn. destruct (Z.ltb_spec (Z.of_nat n) 0); [lia|]. now rewrite Nat2Z.id. Qed.

Lemma ntrunc_shrink n (l : list byte) : (n <= length l)%nat -> ntrunc n l = firstn n l.
Proof. intro H. unfold ntrunc. replace (n - length l)%nat with O by lia. cbn. apply app_nil_r. Qed.

Lemma buf_write_ok (s : stor) p :
  0 <= st_pos s ->
  buf_step s (CWrite p) =
  (mkSt (nwrite (Z.to_nat (st_pos s)) p (st_bytes s)) (st_pos s + Z.of_nat (length p)),
   mkReply [] (Z.of_nat (length p)) None).
Proof.
  intro Hp. pose proof (buf_write_is_nwrite s p Hp) as W.
  destruct (buf_step s (CWrite p)) as [s' rep] eqn:E. cbn [fst] in W. subst s'. f_equal.
  unfold buf_step in E. destruct (Z.ltb_spec (st_pos s) 0); [lia|]. now inversion E.
Qed.

Lemma file_write_nonempty (s : stor) x p :
  file_step s (CWrite (x :: p)) =
  (mkSt (nwrite (Z.to_nat (st_pos s)) (x :: p) (st_bytes s)) (st_pos s + Z.of_nat (length (x :: p))),
   mkReply [] (Z.of_nat (length (x :: p))) None).
Proof. reflexivity. Qed.

Lemma file_apply_is_file_step ev io :
  run_calls file_step (stor_of io) (ev_calls io ev) = (stor_of (file_apply ev io), true).
Proof.
  destruct io as [l pos]. unfold stor_of. destruct ev as [o|bs|n|n]; cbn [ev_calls run_calls f_bytes f_pos file_apply].
  - rewrite file_seek_start by lia. reflexivity.
  - destruct bs as [|x bs]; [reflexivity|]. rewrite file_write_nonempty. cbn [r_err st_pos st_bytes f_bytes f_pos].
    rewrite Nat2Z.id. f_equal. f_equal. lia.
  - rewrite file_truncate. reflexivity.
  - rewrite file_seek_end. cbn [r_err st_bytes st_pos]. unfold len. cbn [st_bytes].
    destruct (Nat.ltb_spec n (length l)) as [L|L].
    + cbn [run_calls]. rewrite file_truncate. cbn [r_err st_bytes st_pos f_bytes f_pos].
      rewrite ntrunc_shrink by lia. reflexivity.
    + destruct (Nat.ltb_spec (length l) n) as [G|G]; cbn [run_calls].
      * rewrite file_seek_start by lia. cbn [r_err]. rewrite file_write_nonempty.
        cbn [r_err st_bytes st_pos f_bytes f_pos length].
        replace (Z.to_nat (Z.of_nat n - 1)) with (n - 1)%nat by lia. f_equal. f_equal. lia.
      * reflexivity.
Qed.

Lemma buf_apply_is_buf_step ev io io' :
  buf_apply ev io = Some io' ->
  run_calls buf_step (stor_of io) (ev_calls io ev) = (stor_of io', true).
Proof.
  destruct io as [l pos]. unfold stor_of. destruct ev as [o|bs|n|n]; cbn [ev_calls run_calls buf_apply f_bytes f_pos].
  - intro E; inversion E; subst. rewrite buf_seek_start by lia. reflexivity.
  - intro E; inversion E; subst. rewrite buf_write_ok by (cbn; lia).
    cbn [r_err st_pos st_bytes f_bytes f_pos]. rewrite Nat2Z.id. f_equal. f_equal. lia.
  - destruct (Nat.ltb_spec (length l) n) as [Lt|Ge]; [discriminate|]. intro E; inversion E; subst.
    rewrite buf_truncate_shrink by (cbn; lia). reflexivity.
  - rewrite buf_seek_end. cbn [r_err st_bytes st_pos]. unfold len. cbn [st_bytes].
    destruct (Nat.ltb_spec n (length l)) as [L|L].
    + intro E; inversion E; subst. cbn [run_calls]. rewrite buf_truncate_shrink by (cbn; lia). reflexivity.
    + destruct (Nat.ltb_spec (length l) n) as [G|G]; intro E; inversion E; subst; cbn [run_calls].
      * rewrite buf_seek_start by lia. cbn [r_err]. rewrite buf_write_ok by (cbn; lia).
        cbn [r_err st_bytes st_pos f_bytes f_pos length].
        replace (Z.to_nat (Z.of_nat n - 1)) with (n - 1)%nat by lia. f_equal. f_equal. lia.
      * reflexivity.
Qed.

(* ---------- the calls the library issues ---------- *)

(* no empty write, no raw Truncate *)
Definition ev_ok (ev : event) : Prop :=
  match ev with EvWrite [] => False | EvTrunc _ => False | _ => True end.

Lemma buf_file_agree ev io : ev_ok ev -> buf_apply ev io = Some (file_apply ev io).
Proof.
  destruct ev as [o|bs|n|n]; unfold ev_ok, buf_apply, file_apply; intro H; try contradiction; try reflexivity.
  - destruct bs; [contradiction | reflexivity].
  - destruct (Nat.ltb n (length (f_bytes io))); [reflexivity|].
    destruct (Nat.ltb (length (f_bytes io)) n); reflexivity.
Qed.

Lemma run_events_agree tr : forall io,
  Forall ev_ok tr -> run_events BBuf tr io = run_events BFile tr io.
Proof.
  induction tr as [|ev r IH]; intros io H; [reflexivity|].
  inversion H; subst. cbn [run_events backend_apply].
  rewrite (buf_file_agree ev io) by assumption. now apply IH.
Qed.

Lemma write_if_nonempty_ok bs : Forall ev_ok (write_if_nonempty bs).
Proof. destruct bs; cbn; repeat constructor. Qed.

Lemma enc_desc_nonempty d : enc_desc d <> [].
Proof.
  unfold enc_desc. intro H. apply (f_equal (@length byte)) in H.
  rewrite !app_length, !length_le_enc in H. cbn in H. lia.
Qed.

Lemma enc_table_nonempty rds : rds <> [] -> enc_table rds <> [].
Proof.
  destruct rds as [|d r]; [congruence|]. intros _ H. unfold enc_table in H. cbn [flat_map] in H.
  apply app_eq_nil in H as [H _]. now apply enc_desc_nonempty in H.
Qed.

Lemma enc_header_nonempty h : enc_header h <> [].
Proof.
  unfold enc_header. intro H. apply (f_equal (@length byte)) in H.
  rewrite !app_length, !length_le_enc in H. cbn in H. lia.
Qed.

Lemma ev_table_ok h rds : rds <> [] -> Forall ev_ok (ev_table h rds).
Proof.
  intro H. unfold ev_table. constructor; [exact I|]. constructor; [|constructor].
  cbn. destruct (enc_table rds) eqn:E; [now apply enc_table_nonempty in E | exact I].
Qed.

Lemma ev_header_ok h : Forall ev_ok (ev_header h).
Proof.
  unfold ev_header. constructor; [exact I|]. constructor; [|constructor].
  cbn. destruct (enc_header h) eqn:E; [now apply enc_header_nonempty in E | exact I].
Qed.

Lemma Forall_app_intro {A} (P : A -> Prop) a b : Forall P a -> Forall P b -> Forall P (a ++ b).
Proof. intros. apply Forall_app. auto. Qed.

Lemma ev_tail_ok h rds h' : rds <> [] -> Forall ev_ok (ev_table h rds ++ ev_header h').
Proof. intro H. apply Forall_app_intro; [now apply ev_table_ok | apply ev_header_ok]. Qed.

Lemma ev_zero_ok d : Forall ev_ok (ev_zero d).
Proof. unfold ev_zero. constructor; [exact I | apply write_if_nonempty_ok]. Qed.

Lemma set_nth_nonempty {A} i (x : A) l : l <> [] -> set_nth i x l <> [].
Proof. destruct l, i; cbn; congruence. Qed.

Section WithDigest.
Variable sha256 : list byte -> list byte.

Lemma write_object_events_ok i di t m m1 r evs :
  plan_write_object sha256 i di t m = (m1, r, evs) ->
  Forall ev_ok evs /\ (m_rds m <> [] -> m_rds m1 <> []).
Proof.
  unfold plan_write_object. cbv zeta.
  destruct (nth_error (m_rds m) i); [|intro H; inversion H; subst; split; [constructor | auto]].
  destruct (max_u32 <=? Z.of_nat i); [intro H; inversion H; subst; split; [constructor | auto]|].
  destruct (_ && has_primary m); [intro H; inversion H; subst; split; [constructor | auto]|].
  destruct (next_aligned _ _); [|intro H; inversion H; subst; split; [constructor | auto]].
  destruct (di_fail di).
  { intro H; inversion H; subst. split; [|auto]. constructor; [exact I | apply write_if_nonempty_ok]. }
  destruct (128 <? length (di_name di))%nat.
  { intro H; inversion H; subst. split; [|auto]. constructor; [exact I | apply write_if_nonempty_ok]. }
  destruct (new_extra _ _ _ _).
  - intro H; inversion H; subst. split.
    + constructor; [exact I | apply write_if_nonempty_ok].
    + cbn [m_rds]. apply set_nth_nonempty.
  - intro H; inversion H; subst. split; [|auto]. constructor; [exact I | apply write_if_nonempty_ok].
Qed.

Lemma delete_loop_events_ok sel zero rds : forall h evs,
  Forall ev_ok evs ->
  let '(h', rds', evs') := delete_loop sel zero rds h evs in
  Forall ev_ok evs' /\ length rds' = length rds.
Proof.
  induction rds as [|d r IH]; intros h evs H; cbn [delete_loop].
  - auto.
  - destruct (d_used d && _).
    + set (h2 := if is_partition_of_type d PartPrimSys then _ else _).
      assert (H1 : Forall ev_ok (if zero then evs ++ ev_zero d else evs)).
      { destruct zero; [|exact H]. apply Forall_app. split; [exact H | apply ev_zero_ok]. }
      specialize (IH h2 _ H1). destruct (delete_loop sel zero r h2 _) as [[h' r'] e'].
      destruct IH. split; [assumption | cbn; congruence].
    + specialize (IH h evs H). destruct (delete_loop sel zero r h evs) as [[h' r'] e'].
      destruct IH. split; [assumption | cbn; congruence].
Qed.

Lemma plan_events_ok m x m' r evs :
  m_rds m <> [] -> plan_op sha256 m x = (m', r, evs) ->
  Forall ev_ok evs /\ m_rds m' <> [].
Proof.
  intros Ne. destruct x; cbn [plan_op].
  - (* add *)
    unfold plan_add. destruct (plan_write_object sha256 _ di _ m) as [[m1 r1] e1] eqn:P.
    destruct (write_object_events_ok _ _ _ _ _ _ _ P) as [E1 N1]. destruct r1.
    + unfold finish. intros [= <- <- <-]. cbn [m_rds]. split; [|auto].
      apply Forall_app_intro; [exact E1 | apply ev_tail_ok; auto].
    + intros [= <- <- <-]. auto.
  - (* delete *)
    unfold plan_delete. destruct (collect (sel_eval sel) (m_rds m)) as [[|y l]|e].
    + intros [= <- <- <-]. split; [constructor | exact Ne].
    + pose proof (delete_loop_events_ok sel zero (m_rds m) (m_hdr m) [] (Forall_nil _)) as L.
      destruct (delete_loop sel zero (m_rds m) (m_hdr m) []) as [[h1 rds1] e1]. destruct L as [L1 L2].
      assert (N1 : rds1 <> []) by (destruct rds1, (m_rds m); cbn in *; congruence).
      intros [= <- <- <-]. cbn [m_rds]. split; [|exact N1].
      apply Forall_app_intro.
      * destruct compact; [|exact L1]. apply Forall_app_intro; [exact L1 | repeat constructor].
      * now apply ev_tail_ok.
    + intros [= <- <- <-]. split; [constructor | exact Ne].
  - (* setprim *)
    unfold plan_setprim.
    destruct (find_one (sel_eval (SID id)) (m_rds m)) as [[i d]|e];
      [|intros [= <- <- <-]; split; [constructor | exact Ne]].
    destruct (negb (d_type d =? DataPartition)); [intros [= <- <- <-]; split; [constructor | exact Ne]|].
    destruct (part_type (d_extra d) =? PartPrimSys); [intros [= <- <- <-]; split; [constructor | exact Ne]|].
    destruct (negb (part_type (d_extra d) =? PartSystem)); [intros [= <- <- <-]; split; [constructor | exact Ne]|].
    destruct (match find_one (sel_eval (SPartType PartPrimSys)) (m_rds m) with
              | inl (j, dj) => inl (set_nth j (with_parttype dj PartSystem (resolve_time (m_hdr m) o now)) (m_rds m))
              | inr ENotFound => inl (m_rds m)
              | inr e => inr e
              end) as [rds1|e] eqn:D; [|intros [= <- <- <-]; split; [constructor | exact Ne]].
    assert (N1 : rds1 <> []).
    { destruct (find_one (sel_eval (SPartType PartPrimSys)) (m_rds m)) as [[j dj]|e].
      - inversion D; subst. now apply set_nth_nonempty.
      - destruct e; inversion D; subst. exact Ne. }
    intros [= <- <- <-]. cbn [m_rds].
    assert (N2 : set_nth i (with_parttype d PartPrimSys (resolve_time (m_hdr m) o now)) rds1 <> [])
      by now apply set_nth_nonempty.
    split; [|exact N2]. now apply (ev_tail_ok _ _ _ N2).
  - (* setmeta *)
    unfold plan_setmeta. destruct (find_one (sel_eval (SID id)) (m_rds m)) as [[i d]|e];
      [|intros [= <- <- <-]; split; [constructor | exact Ne]].
    destruct (new_extra sha256 (d_extra d) md []); [|intros [= <- <- <-]; split; [constructor | exact Ne]].
    unfold finish. cbn [m_hdr m_rds m_minids app]. intros [= <- <- <-]. cbn [m_rds].
    assert (N2 : set_nth i (set_extra_mtime d l (resolve_time (m_hdr m) o now)) (m_rds m) <> [])
      by now apply set_nth_nonempty.
    split; [|exact N2]. now apply (ev_tail_ok _ _ _ N2).
  - (* setoci *)
    unfold plan_setoci. destruct (find_one (sel_eval (SID id)) (m_rds m)) as [[i d]|e] eqn:F;
      [|intros [= <- <- <-]; split; [constructor | exact Ne]].
    destruct (negb (is_oci_type (d_type d))); [intros [= <- <- <-]; split; [constructor | exact Ne]|].
    unfold plan_setmeta. rewrite F.
    destruct (new_extra sha256 (d_extra d) (MdRaw text) []); [|intros [= <- <- <-]; split; [constructor | exact Ne]].
    unfold finish. cbn [m_hdr m_rds m_minids app]. intros [= <- <- <-]. cbn [m_rds].
    assert (N2 : set_nth i (set_extra_mtime d l (resolve_time (m_hdr m) o now)) (m_rds m) <> [])
      by now apply set_nth_nonempty.
    split; [|exact N2]. now apply (ev_tail_ok _ _ _ N2).
  - intros [= <- <- <-]. split; [constructor | exact Ne].
Qed.

(* the same state on the other backend *)
Definition on_backend (b : backend) (s : state) : state := mkS (s_mem s) (s_io s) b.

(* one step gives the same handle, the same storage and the same result on
   both backends, for any image with at least one descriptor slot *)
Theorem step_backend_independent s x :
  m_rds (s_mem s) <> [] ->
  match x with OpReload => load_image (f_bytes (s_io s)) = inl (s_mem s) | _ => True end ->
  let '(sb, rb) := step sha256 (on_backend BBuf s) x in
  let '(sf, rf) := step sha256 (on_backend BFile s) x in
  rb = rf /\ s_mem sb = s_mem sf /\ s_io sb = s_io sf /\ m_rds (s_mem sb) <> [].
Proof.
  intros Ne Hr. destruct x; try
    (unfold step, on_backend; cbn [s_mem s_io s_backend];
     match goal with |- context [plan_op sha256 ?m ?x] =>
       destruct (plan_op sha256 m x) as [[m' r] evs] eqn:P;
       destruct (plan_events_ok m x m' r evs Ne P) as [Ok1 Ne1]
     end;
     unfold exec; rewrite (run_events_agree evs (s_io s) Ok1);
     destruct (run_events BFile evs (s_io s)) as [io' [|]]; cbn; auto).
  unfold step, on_backend. cbn [s_mem s_io s_backend]. rewrite Hr. cbn. auto.
Qed.

End WithDigest.

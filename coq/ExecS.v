(* ExecS.v — running the siftool model on recorded command histories: each
   command's exit status, the file afterwards and (for dump) standard output
   are compared with what the built binary produced.  Evaluated with
   vm_compute; no theorem depends on this file. *)
From Coq Require Import List ZArith Bool.
From Coq.Init Require Import Byte.
From Sif Require Import Bytes Store Format Image Machine Sha2 Exec Siftool.
Import ListNotations.
Local Open Scope Z_scope.

Record tstep := mkTStep {
  ts_cmd : cmd;
  ts_now : Z;                       (* the clock reading the command used (read back) *)
  ts_rnd : list byte;               (* the image ID `new` drew (read back) *)
  ts_ok : bool;                     (* exit status 0 *)
  ts_after : list brun;             (* the file afterwards *)
  ts_out : option (list brun) }.    (* standard output, where it is compared (dump) *)

Record tcase := mkTCase { tc_id : Z; tc_steps : list tstep }.

(* mismatch codes: 40 exit status, 41 file contents, 42 standard output of dump *)
Fixpoint run_tsteps (id : Z) (k : Z) (bytes : store) (steps : list tstep) : list (Z * Z * Z) :=
  match steps with
  | [] => []
  | s :: r =>
      let '(bytes', o) := run_cmd Sha2.sha256 bytes (ts_cmd s) (ts_now s) (ts_rnd s) in
      let ok := match o with Done _ => true | Failed => false end in
      let want := expand (ts_after s) in
      (if Bool.eqb ok (ts_ok s) then [] else [(id, k, 40)]) ++
      (if bytes_eqb bytes' want then [] else [(id, k, 41)]) ++
      (match ts_out s, o with
       | Some w, Done out => if bytes_eqb out (expand w) then [] else [(id, k, 42)]
       | _, _ => []
       end) ++
      run_tsteps id (k + 1) want r
  end.

Definition tmismatches (cs : list tcase) : list (Z * Z * Z) :=
  flat_map (fun c => run_tsteps (tc_id c) 1 [] (tc_steps c)) cs.

(* C14Facts.v — whole histories agree on both backends. *)
From Coq Require Import List ZArith Lia Bool.
From Coq.Init Require Import Byte.
From Sif Require Import Bytes Store Format Image Machine Backends BackendFacts
     Inv InvSet InvAdd InvLoad InvCreate Reach.
Import ListNotations.
Local Open Scope Z_scope.

Section WithDigest.
Variable sha256 : list byte -> list byte.
Variable sha_len : forall c, length (sha256 c) = 32%nat.

Lemma step_keeps_backend s x : s_backend (fst (step sha256 s x)) = s_backend s.
Proof.
  unfold step. destruct x;
    try (destruct (exec (s_backend s) (s_io s) _) as [[m' r] io']; reflexivity).
  destruct (load_image (f_bytes (s_io s))); reflexivity.
Qed.

Lemma state_eq s1 s2 :
  s_mem s1 = s_mem s2 -> s_io s1 = s_io s2 -> s_backend s1 = s_backend s2 -> s1 = s2.
Proof. destruct s1, s2; cbn; intros; subst; reflexivity. Qed.

Lemma wf_op_mem s s' x : s_mem s' = s_mem s -> wf_op s x -> wf_op s' x.
Proof. intros E H. destruct x; cbn in *; try exact H. now rewrite E. Qed.

Theorem run_backend_independent ops : forall s,
  Inv s -> m_rds (s_mem s) <> [] -> wf_ops sha256 (on_backend BFile s) ops ->
  let '(sb, rb) := run sha256 (on_backend BBuf s) ops in
  let '(sf, rf) := run sha256 (on_backend BFile s) ops in
  rb = rf /\ s_mem sb = s_mem sf /\ s_io sb = s_io sf.
Proof.
  induction ops as [|x r IH]; intros s I Ne W; cbn [run].
  - cbn. auto.
  - destruct W as [Wx Wr].
    assert (If : Inv (on_backend BFile s)) by exact I.
    assert (Hr : match x with OpReload => load_image (f_bytes (s_io s)) = inl (s_mem s) | _ => True end).
    { destruct x; auto. destruct I as [Wm C]. apply (load_coherent _ _ Wm C). }
    pose proof (step_backend_independent sha256 s x Ne Hr) as A.
    pose proof (step_keeps_backend (on_backend BBuf s) x) as Kb.
    pose proof (step_keeps_backend (on_backend BFile s) x) as Kf.
    destruct (step sha256 (on_backend BBuf s) x) as [sb1 rb1] eqn:Eb.
    destruct (step sha256 (on_backend BFile s) x) as [sf1 rf1] eqn:Ef.
    cbn [fst] in Kb, Kf, Wr. destruct A as (A1 & A2 & A3 & A4).
    pose proof (step_inv sha256 sha_len _ _ _ _ If Wx Ef) as I1.
    assert (Eb1 : sb1 = on_backend BBuf sf1) by (apply state_eq; cbn; auto).
    assert (Ef1 : sf1 = on_backend BFile sf1) by (apply state_eq; cbn; auto).
    assert (Ne1 : m_rds (s_mem sf1) <> []) by (rewrite <- A2; exact A4).
    assert (Wr1 : wf_ops sha256 (on_backend BFile sf1) r) by (rewrite <- Ef1; exact Wr).
    specialize (IH sf1 I1 Ne1 Wr1).
    assert (Rf : run sha256 sf1 r = run sha256 (on_backend BFile sf1) r) by (f_equal; exact Ef1).
    rewrite Eb1, Rf.
    destruct (run sha256 (on_backend BBuf sf1) r) as [sb2 rb2].
    destruct (run sha256 (on_backend BFile sf1) r) as [sf2 rf2].
    destruct IH as (B1 & B2 & B3). subst. auto.
Qed.

End WithDigest.

(* capacity 0: the known finding F4b, as a computed witness *)
Definition sha0 (_ : list byte) : list byte := zeros 32.
Definition co_cap0 : copts := mkCO [] (zeros 16) 0 zero_time [].

Lemma capacity_zero_differs :
  match create sha0 BBuf co_cap0, create sha0 BFile co_cap0 with
  | (_, _, iob), (_, _, iof) => length (f_bytes iob) = 4096%nat /\ length (f_bytes iof) = 128%nat
  end.
Proof. vm_compute. split; reflexivity. Qed.

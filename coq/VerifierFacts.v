(* VerifierFacts.v — facts about NewVerifier's task list that hold for every
   image LoadContainer accepts (hostile ones included): decoded values are in
   range, so the integrity streams determine the protected fields. *)
From Coq Require Import List ZArith Lia Bool.
From Coq.Init Require Import Byte.
From Sif Require Import Bytes BytesFacts Store StoreFacts Format FormatFacts Image SelectFacts
     Integrity StreamFacts IntegFacts C04Facts.
Import ListNotations.
Local Open Scope Z_scope.

Lemma zread_length off n st bs : zread off n st = Some bs -> length bs = Z.to_nat n.
Proof.
  unfold zread. destruct (Z.ltb_spec off 0); [discriminate|]. destruct (Z.ltb_spec n 0); [discriminate|].
  cbn [orb]. destruct (Z.ltb_spec (Z.of_nat (length st)) (off + n)); [discriminate|].
  intros [= <-]. apply length_nread_in. lia.
Qed.

Theorem load_image_wf st m :
  load_image st = inl m -> wf_header (m_hdr m) /\ Forall wf_desc (m_rds m).
Proof.
  unfold load_image. destruct (Nat.ltb_spec (length st) 128) as [|L]; [discriminate|].
  assert (Wh : wf_header (dec_header (nread 0 128 st))).
  { apply wf_dec_header. rewrite length_nread_in; [reflexivity | lia]. }
  remember (dec_header (nread 0 128 st)) as h eqn:Hh. clear Hh.
  destruct (negb (bytes_eqb (h_magic h) magic)); [discriminate|].
  destruct (negb (bytes_eqb (h_version h) version_bytes)); [discriminate|].
  destruct ((h_total h <? 0) || (h_descsize h <? 0) || (h_descsize h / 585 <? h_total h)) eqn:C; [discriminate|].
  destruct (h_total h =? 0); [intros [= <-]; cbn; auto|].
  destruct (h_descoff h <? 0); [discriminate|].
  destruct (zread (h_descoff h) (h_total h * 585) st) as [bs|] eqn:ZR; [|discriminate].
  intros [= <-]. cbn [m_hdr m_rds]. split; [exact Wh|].
  apply wf_dec_table. apply zread_length in ZR. rewrite ZR.
  apply orb_false_iff in C as [C _]. apply orb_false_iff in C as [C _]. apply Z.ltb_ge in C.
  rewrite Z2Nat.inj_mul by lia. change (Z.to_nat 585) with 585%nat. lia.
Qed.

Lemma wrap_u32_range z : in_u32 (wrap_u32 z).
Proof. unfold in_u32, wrap_u32. apply Z.mod_pos_bound. lia. Qed.

Lemma relative_id_range mi d : in_u32 (relative_id mi d).
Proof. unfold relative_id. apply wrap_u32_range. Qed.

Lemma get_descriptors_wf m sels l :
  Forall wf_desc (m_rds m) -> get_descriptors m sels = inl l -> wf_ods l.
Proof.
  intros W G. destruct (get_descriptors_exact _ _ _ G) as (_ & Hiff & Hrel).
  apply Forall_forall. intros [d r] Hin. cbn [fst snd]. split.
  - rewrite Forall_forall in W. apply W. apply (Hiff d). apply in_map_iff. exists (d, r). auto.
  - rewrite (Hrel d r Hin). apply relative_id_range.
Qed.

Lemma get_descriptor_wf m sels d r :
  Forall wf_desc (m_rds m) -> get_descriptor m sels = inl (d, r) -> wf_desc d /\ in_u32 r.
Proof.
  intros W G.
  destruct (Z.eq_dec (h_free (m_hdr m)) (h_total (m_hdr m))) as [E|E].
  - rewrite (get_descriptor_empty _ _ E) in G. discriminate.
  - destruct (get_descriptor_single m sels E) as [H1 _]. destruct (H1 d r G) as [HM ->].
    split; [|apply relative_id_range].
    assert (Hin : In d (matching (multi_eval sels) (m_rds m))) by (rewrite HM; now left).
    unfold matching in Hin. apply filter_In in Hin as [Hin _]. rewrite Forall_forall in W. auto.
Qed.

Definition task_ods (t : task) : list (rdesc * Z) :=
  match t with TGroup _ ods _ => ods | TLegacyGroup _ ods => ods | TLegacyObject od => [od] end.

Lemma map_err_Forall {A B E} (P : B -> Prop) (f : A -> B + E) l l' :
  (forall x y, f x = inl y -> P y) -> map_err f l = inl l' -> Forall P l'.
Proof.
  intro Hf. revert l'. induction l as [|x l IH]; intros l' H; cbn [map_err] in H.
  - injection H as <-. constructor.
  - destruct (f x) as [y|] eqn:F; [|discriminate]. destruct (map_err f l); [|discriminate].
    injection H as <-. constructor; eauto.
Qed.

Theorem new_verifier_wf m vo ts :
  Forall wf_desc (m_rds m) -> new_verifier m vo = inl ts -> Forall (fun t => wf_ods (task_ods t)) ts.
Proof.
  intros W. unfold new_verifier.
  destruct (existsb _ (vo_groups vo)); [discriminate|]. destruct (existsb _ (vo_objects vo)); [discriminate|].
  match goal with |- match ?G with _ => _ end = _ -> _ => destruct G as [groups|]; [|discriminate] end.
  match goal with |- match map_err ?F groups with _ => _ end = _ -> _ =>
    destruct (map_err F groups) as [t1|] eqn:M1; [|discriminate] end.
  match goal with |- match map_err ?F ?L with _ => _ end = _ -> _ =>
    destruct (map_err F L) as [t2|] eqn:M2; [|discriminate] end.
  intros [= <-]. apply Forall_app. split.
  - eapply map_err_Forall; [|exact M1]. intros g t. cbv beta.
    destruct (group_objects m g) as [ods|] eqn:GO; [|discriminate].
    assert (Wo : wf_ods ods).
    { unfold group_objects in GO. destruct (get_descriptors m [SGroup g]) as [[|p l]|] eqn:G; try discriminate.
      injection GO as <-. eapply get_descriptors_wf; eauto. }
    destruct (vo_legacy vo); intros [= <-]; exact Wo.
  - eapply map_err_Forall; [|exact M2]. intros id t. cbv beta.
    unfold get_descriptor_i. destruct (get_descriptor m [SID id]) as [[d r]|] eqn:G; [|discriminate].
    destruct (get_descriptor_wf _ _ _ _ W G) as [Wd Wr].
    destruct (vo_legacy vo); intros [= <-]; cbn [task_ods]; (constructor; [cbn [fst snd]; split; assumption | constructor]).
Qed.

Section Pipeline.

Variable hash : halg -> list byte -> list byte.
Variable classify : list byte -> sigkind.
Variable is_legacy : list byte -> bool.
Variable open_dsse : Z -> list byte -> option (list byte * list Z).
Variable open_pgp : list byte -> option (list byte * list byte).
Variable parse_md : list byte -> option imd.
Variable has_dsse_keys : bool.
Variable has_pgp_keys : bool.

Local Notation vfy := (verify hash classify is_legacy open_dsse open_pgp parse_md has_dsse_keys has_pgp_keys).
Local Notation accepted := (sig_accepted hash open_dsse open_pgp parse_md).

(* LoadContainer; NewVerifier with a current-format request; Verify *)
Theorem verified_image_is_signed_image st m vo ts rs :
  load_image st = inl m -> vo_legacy vo = false -> vo_legacy_all vo = false ->
  new_verifier m vo = inl ts ->
  vfy m st strict ts = (rs, None) ->
  forall vr, In vr rs ->
  exists g ods sub sig o im minid,
    In (TGroup g ods sub) ts /\
    (exists sigs, group_signatures is_legacy m st g false = inl sigs /\ In sig sigs) /\
    key_available has_dsse_keys has_pgp_keys (classify (obj_bytes sig st)) /\
    accepted m st g ods sub sig (classify (obj_bytes sig st)) o im minid /\
    vr = mkVR (d_id sig) (map (fun p => d_id (fst p)) ods) (op_keys o) (op_entity o) None /\
    (* whoever computed that metadata computed it from the same protected view *)
    forall m0 st0 minid0 ods0 a,
      image_metadata hash m0 st0 minid0 ods0 a = inl im ->
      wf_header (m_hdr m0) -> wf_ods ods0 ->
      collision hash a \/
      (header_protected_eq (m_hdr m) (m_hdr m0) /\
       Forall (same_as_signed st st0 minid minid0 ods0) ods).
Proof.
  intros L NL NLA NV V vr Hin. destruct (load_image_wf _ _ L) as [Wh Wd].
  pose proof (new_verifier_wf _ _ _ Wd NV) as Wt.
  assert (G : Forall group_task ts).
  { revert NV. unfold new_verifier. rewrite NL, NLA.
    destruct (existsb _ (vo_groups vo)); [discriminate|]. destruct (existsb _ (vo_objects vo)); [discriminate|].
    match goal with |- match ?G with _ => _ end = _ -> _ => destruct G as [groups|]; [|discriminate] end.
    match goal with |- match map_err ?F groups with _ => _ end = _ -> _ =>
      destruct (map_err F groups) as [t1|] eqn:M1; [|discriminate] end.
    match goal with |- match map_err ?F ?L with _ => _ end = _ -> _ =>
      destruct (map_err F L) as [t2|] eqn:M2; [|discriminate] end.
    intros [= <-]. apply Forall_app. split.
    - eapply map_err_Forall; [|exact M1]. intros g t. cbv beta.
      destruct (group_objects m g); [|discriminate]. intros [= <-]. exact I.
    - eapply map_err_Forall; [|exact M2]. intros id t. cbv beta.
      destruct (get_descriptor_i m id); [|discriminate]. intros [= <-]. exact I. }
  destruct (verified_results_are_accepted _ _ _ _ _ _ _ _ _ _ _ _ _ V G Hin)
    as (g & ods & sub & sig & o & im & minid & Ht & Hs & Hk & A & ->).
  exists g, ods, sub, sig, o, im, minid.
  split; [exact Ht|]. split; [exact Hs|]. split; [exact Hk|]. split; [exact A|]. split; [reflexivity|].
  intros m0 st0 minid0 ods0 a IM Wh0 Wo0. eapply tamper_evidence; eauto.
  rewrite Forall_forall in Wt. exact (Wt _ Ht).
Qed.

End Pipeline.

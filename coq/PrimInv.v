(* PrimInv.v — at most one primary system partition exists, and the header's
   primary architecture is that partition's (unknown if there is none), as long
   as partition metadata goes through the typed option (the complement is the
   known finding F7: raw metadata bytes are not interpreted). *)
From Coq Require Import List ZArith Lia Bool.
From Coq.Init Require Import Byte.
From Sif Require Import Bytes BytesFacts Store StoreFacts Format FormatFacts Image ImageFacts
     SelectFacts Machine Inv InvCommon InvSet InvDelete InvAdd InvLoad Persist.
Import ListNotations.
Local Open Scope Z_scope.

Definition prim (d : rdesc) : Prop := is_partition_of_type d PartPrimSys = true.

Record prim_ok (m : mem) : Prop := {
  po_unique : forall i j di dj, used_at (m_rds m) i di -> used_at (m_rds m) j dj ->
                                prim di -> prim dj -> i = j;
  po_arch : forall i d, used_at (m_rds m) i d -> prim d -> h_arch (m_hdr m) = part_arch (d_extra d);
  po_none : (forall i d, used_at (m_rds m) i d -> ~ prim d) -> h_arch (m_hdr m) = arch_unknown }.

(* ---------- the partition record in "extra" ---------- *)

Lemma part_type_enc fs pt a rest :
  in_i32 pt -> part_type (le_enc 4 fs ++ le_enc 4 pt ++ a ++ rest) = pt.
Proof.
  intro H. unfold part_type.
  rewrite nread_app_r by (rewrite length_le_enc; lia). rewrite length_le_enc. cbn [Nat.sub].
  rewrite nread_app_l by (rewrite length_le_enc; lia).
  pose proof (nread_all (le_enc 4 pt)) as A. rewrite length_le_enc in A. rewrite A.
  now apply sle_dec_le_enc_i32.
Qed.

Lemma part_arch_enc fs pt a rest :
  length a = 3%nat -> part_arch (le_enc 4 fs ++ le_enc 4 pt ++ a ++ rest) = a.
Proof.
  intro H. unfold part_arch.
  rewrite nread_app_r by (rewrite length_le_enc; lia). rewrite length_le_enc.
  replace (8 - 4)%nat with 4%nat by lia.
  rewrite nread_app_r by (rewrite length_le_enc; lia). rewrite length_le_enc. cbn [Nat.sub].
  rewrite nread_app_l by lia.
  pose proof (nread_all a) as A. rewrite H in A. exact A.
Qed.

Lemma pad_enc_partition fs pt a :
  length a = 3%nat ->
  pad_to 384 (enc_partition fs pt a) = le_enc 4 fs ++ le_enc 4 pt ++ a ++ zeros 373.
Proof.
  intro H. unfold pad_to, enc_partition.
  rewrite firstn_all2 by (rewrite !app_length, !length_le_enc, H; lia).
  rewrite !app_length, !length_le_enc, H. cbn [Nat.add Nat.sub]. now rewrite <- !app_assoc.
Qed.

Lemma prim_of_new_partition d fs pt a :
  d_type d = DataPartition -> d_extra d = pad_to 384 (enc_partition fs pt a) ->
  length a = 3%nat -> in_i32 pt ->
  (prim d <-> pt = PartPrimSys) /\ part_arch (d_extra d) = a.
Proof.
  intros T E La Lp. rewrite E, (pad_enc_partition _ _ _ La). split.
  - unfold prim, is_partition_of_type. rewrite T, Z.eqb_refl, E, (pad_enc_partition _ _ _ La).
    rewrite (part_type_enc _ _ _ _ Lp). cbn [andb]. split; [apply Z.eqb_eq | intros ->; reflexivity].
  - now apply part_arch_enc.
Qed.

Lemma with_parttype_facts d pt t :
  d_type d = DataPartition -> length (d_extra d) = 384%nat -> in_i32 pt ->
  (prim (with_parttype d pt t) <-> pt = PartPrimSys) /\
  part_arch (d_extra (with_parttype d pt t)) = part_arch (d_extra d).
Proof.
  intros T Le Lp.
  assert (La : length (part_arch (d_extra d)) = 3%nat).
  { unfold part_arch. rewrite length_nread, Le. reflexivity. }
  apply (prim_of_new_partition (with_parttype d pt t) (part_fs (d_extra d)) pt (part_arch (d_extra d)));
    auto.
Qed.

(* ---------- the hypothesis: partition metadata is typed ---------- *)

(* OptPartitionMetadata is the only way partition objects get their metadata,
   and it is only accepted for partition objects *)
Definition typed_partition_input (di : dinput) : Prop :=
  match di_md di with
  | MdPart fs pt a => di_type di = DataPartition /\ in_i32 pt
  | _ => di_type di <> DataPartition
  end.

Definition typed_partitions (m : mem) (x : op) : Prop :=
  match x with
  | OpAdd di _ _ => typed_partition_input di
  | OpSetMeta id _ _ _ =>
      forall i d, used_at (m_rds m) i d -> d_id d = id -> d_type d <> DataPartition
  | _ => True
  end.

Lemma not_prim_other_type d : d_type d <> DataPartition -> ~ prim d.
Proof.
  intros H P. unfold prim, is_partition_of_type in P. apply andb_true_iff in P as [P _].
  apply Z.eqb_eq in P. contradiction.
Qed.

Lemma has_primary_false m :
  wf_mem m -> has_primary m = false -> forall i d, used_at (m_rds m) i d -> ~ prim d.
Proof.
  intros W H i d [Hn Hu] P. unfold has_primary in H.
  destruct (Z.eqb_spec (h_free (m_hdr m)) (h_total (m_hdr m))) as [E|E].
  - (* free = total: nothing is in use *)
    rewrite (wf_free _ W), (wf_total _ W) in E.
    assert (count_unused (m_rds m) = length (m_rds m)) by lia.
    clear - H0 Hn Hu. revert i Hn. unfold count_unused in H0.
    induction (m_rds m) as [|x r IH]; intros [|i] Hn; cbn in *; try discriminate.
    + inversion Hn; subst x. rewrite Hu in H0. cbn in H0.
      pose proof (count_unused_le r). unfold count_unused in H. lia.
    + destruct (negb (d_used x)); cbn in H0.
      * apply (IH ltac:(lia) i Hn).
      * pose proof (count_unused_le r). unfold count_unused in H. lia.
  - assert (existsb (fun d => d_used d && is_partition_of_type d PartPrimSys) (m_rds m) = true).
    { apply existsb_exists. exists d. split; [eapply nth_error_In; eauto|]. now rewrite Hu, P. }
    congruence.
Qed.

Section WithDigest.
Variable sha256 : list byte -> list byte.
Variable sha_len : forall c, length (sha256 c) = 32%nat.

(* live descriptors after replacing a free slot *)
Lemma used_at_set_free rds i d slot j x :
  nth_error rds i = Some slot -> d_used slot = false ->
  used_at (set_nth i d rds) j x -> (j = i /\ x = d) \/ (j <> i /\ used_at rds j x).
Proof.
  intros N Us [Hn Hu]. rewrite nth_error_set_nth in Hn.
  destruct (Nat.eqb_spec i j) as [->|Nj].
  - assert (Il : Nat.ltb j (length rds) = true) by (apply Nat.ltb_lt, nth_error_Some; congruence).
    rewrite Il in Hn. left. split; [reflexivity | congruence].
  - right. split; [lia | split; assumption].
Qed.

Lemma add_not_prim (m : mem) i d slot (arch : list byte) (PU : forall i j di dj, used_at (m_rds m) i di -> used_at (m_rds m) j dj -> prim di -> prim dj -> i = j)
  (PA : forall i d, used_at (m_rds m) i d -> prim d -> h_arch (m_hdr m) = part_arch (d_extra d))
  (PN : (forall i d, used_at (m_rds m) i d -> ~ prim d) -> h_arch (m_hdr m) = arch_unknown) h' :
  nth_error (m_rds m) i = Some slot -> d_used slot = false -> ~ prim d -> h_arch h' = h_arch (m_hdr m) ->
  prim_ok (mkM h' (set_nth i d (m_rds m)) (m_minids m)) /\ True.
Proof.
  intros N Us Np Ha. split; [|exact I].
  assert (UA := fun j x => used_at_set_free (m_rds m) i d slot j x N Us).
  constructor; cbn [m_hdr m_rds]; rewrite ?Ha.
  - intros j k dj dk Uj Uk Pj Pk.
    destruct (UA j dj Uj) as [[-> ->]|[_ Uj0]]; [contradiction|].
    destruct (UA k dk Uk) as [[-> ->]|[_ Uk0]]; [contradiction|]. eapply PU; eauto.
  - intros j x U Px. destruct (UA j x U) as [[-> ->]|[_ U0]]; [contradiction | eapply PA; eauto].
  - intro Hn. apply PN. intros j x U Px. apply (Hn j x); [|exact Px].
    destruct U as [Hj Hu]. split; [|exact Hu]. rewrite nth_error_set_nth_neq; [exact Hj|].
    intro; subst j. congruence.
Qed.

Lemma prim_ok_same_arch m h' mids :
  prim_ok m -> h_arch h' = h_arch (m_hdr m) -> prim_ok (mkM h' (m_rds m) mids).
Proof. intros [A B C] H. constructor; cbn [m_hdr m_rds]; rewrite ?H; assumption. Qed.

Lemma write_object_prim_ok i di t m m1 evs :
  wf_mem m -> prim_ok m -> typed_partition_input di -> wf_dinput di ->
  i = first_unused (m_rds m) ->
  plan_write_object sha256 i di t m = (m1, Ok, evs) -> prim_ok m1.
Proof.
  intros W [PU PA PN] Ty Wd Hi P.
  pose proof (write_object_shape sha256 _ _ _ _ _ _ _ P) as Sh. cbv zeta in Sh.
  destruct Sh as (slot & off & extra & N & _ & _ & _ & _ & X & _ & M1).
  rewrite M1.
  set (d := new_desc i di t (data_end (m_hdr m) (m_rds m)) off extra).
  assert (Us : d_used slot = false).
  { subst i. destruct (first_unused_spec (m_rds m)) as [_ F2]. now apply F2. }
  assert (UA := fun j x => used_at_set_free (m_rds m) i d slot j x N Us).
  unfold typed_partition_input in Ty. unfold plan_write_object in P. cbv zeta in P.
  rewrite N in P. destruct (max_u32 <=? Z.of_nat i); [discriminate|].
  set (h' := mkH (h_launch (m_hdr m)) (h_magic (m_hdr m)) (h_version (m_hdr m))
                 (new_arch (m_hdr m) di) (h_id (m_hdr m)) (h_ctime (m_hdr m)) (h_mtime (m_hdr m))
                 (h_free (m_hdr m) - 1) (h_total (m_hdr m)) (h_descoff (m_hdr m)) (h_descsize (m_hdr m))
                 (h_dataoff (m_hdr m)) (data_end (m_hdr m) (m_rds m) - h_dataoff (m_hdr m) + d_sizepad d)).
  assert (NonPrim : ~ prim d -> new_arch (m_hdr m) di = h_arch (m_hdr m) ->
            prim_ok (mkM h' (set_nth i d (m_rds m)) (minid_note (d_group d) (d_id d) (m_minids m)))).
  { intros Np Ha.
    destruct (add_not_prim m i d slot (h_arch (m_hdr m)) PU PA PN h' N Us Np Ha) as [[Q1 Q2 Q3] _].
    constructor; assumption. }
  destruct (di_md di) as [|fs pt a|bs| |] eqn:Md.
  + apply NonPrim; [apply not_prim_other_type; exact Ty | unfold new_arch; now rewrite Md].
  + destruct Ty as [Tt Lp]. pose proof (wdi_md _ Wd) as La. rewrite Md in La. cbn in La.
    cbn in X. inversion X; subst extra.
    destruct (prim_of_new_partition d fs pt a Tt eq_refl La Lp) as [Pd Ad].
    destruct (Z.eqb_spec pt PartPrimSys) as [Ep|Ep].
    * cbn [andb] in P. destruct (has_primary m) eqn:Hp; [discriminate|].
      pose proof (has_primary_false m W Hp) as NoP.
      assert (Ha : new_arch (m_hdr m) di = a).
      { unfold new_arch. rewrite Md. destruct (Z.eqb_spec pt PartPrimSys); [reflexivity | contradiction]. }
      constructor; cbn [m_hdr m_rds h_arch h']; rewrite ?Ha.
      -- intros j k dj dk Uj Uk Pj Pk.
         destruct (UA j dj Uj) as [[-> ->]|[_ Uj0]]; destruct (UA k dk Uk) as [[-> ->]|[_ Uk0]];
           try reflexivity; exfalso; eapply NoP; eauto.
      -- intros j x U Px. destruct (UA j x U) as [[-> ->]|[_ U0]]; [now rewrite Ad|].
         exfalso. eapply NoP; eauto.
      -- intro Hn. exfalso. apply (Hn i d); [|now apply Pd].
         split; [apply nth_error_set_nth_eq, nth_error_Some; congruence | reflexivity].
    * apply NonPrim; [intro Q; apply Pd in Q; contradiction|].
      unfold new_arch. rewrite Md. destruct (Z.eqb_spec pt PartPrimSys); [contradiction | reflexivity].
  + apply NonPrim; [apply not_prim_other_type; exact Ty | unfold new_arch; now rewrite Md].
  + apply NonPrim; [apply not_prim_other_type; exact Ty | unfold new_arch; now rewrite Md].
  + cbn in X. discriminate.
Qed.

Theorem plan_keeps_prim_ok m x m' r evs :
  wf_mem m -> prim_ok m -> typed_partitions m x ->
  match x with OpAdd di _ _ => wf_dinput di | _ => True end ->
  plan_op sha256 m x = (m', r, evs) -> prim_ok m'.
Proof.
  intros W PO Ty Wd. pose proof PO as [PU PA PN]. destruct x; cbn [plan_op typed_partitions] in *.
  - (* add *)
    unfold plan_add. destruct (plan_write_object sha256 _ di _ m) as [[m1 r1] e1] eqn:P.
    destruct r1 as [|e].
    2:{ pose proof (write_object_shape sha256 _ _ _ _ _ _ _ P) as Sh. cbv zeta in Sh.
        destruct Sh as [-> _]. intros [= <- <- <-]. exact PO. }
    pose proof (write_object_prim_ok _ di _ m m1 e1 W PO Ty Wd eq_refl P) as P1.
    unfold finish. intros [= <- <- <-]. now apply prim_ok_same_arch.
  - (* delete *)
    unfold plan_delete.
    destruct (collect (sel_eval sel) (m_rds m)) as [[|y l]|e]; try (intros [= <- <- <-]; constructor; assumption).
    pose proof (delete_loop_spec sel zero (m_rds m) (m_hdr m) []) as LS.
    destruct (delete_loop sel zero (m_rds m) (m_hdr m) []) as [[h1 rds1] e1].
    destruct LS as (E1 & _ & _ & E4 & _).
    intros [= <- <- <-]. subst rds1.
    assert (Arch : forall c, h_arch (if c : bool then set_datasize (set_mtime h1 (resolve_time (m_hdr m) o now))
                                                      (calc_data_size (set_mtime h1 (resolve_time (m_hdr m) o now)) (after_del sel (m_rds m)))
                                  else set_mtime h1 (resolve_time (m_hdr m) o now)) = h_arch h1)
      by (intros [|]; reflexivity).
    assert (Sv : forall j x, used_at (after_del sel (m_rds m)) j x -> used_at (m_rds m) j x /\ del sel x = false)
      by (intros j x; apply used_at_after_del).
    constructor; cbn [m_hdr m_rds]; rewrite ?Arch, ?E4.
    + intros j k dj dk Uj Uk Pj Pk. destruct (Sv j dj Uj) as [Uj0 _], (Sv k dk Uk) as [Uk0 _]. eapply PU; eauto.
    + intros j x U Px. destruct (Sv j x U) as [U0 Dx].
      destruct (any_primary_deleted sel (m_rds m)) eqn:A; [|eapply PA; eauto].
      (* a primary was deleted: it was x itself, by uniqueness - contradiction *)
      exfalso. apply existsb_exists in A as (z0 & Iy & Hy). apply andb_true_iff in Hy as [Dy Py].
      apply In_nth_error in Iy as [k Hk].
      assert (Uy : used_at (m_rds m) k z0).
      { split; [exact Hk|]. unfold del in Dy. now apply andb_true_iff in Dy as [Dy _]. }
      assert (k = j) by (eapply PU; eauto). subst k.
      destruct U0 as [Hj _]. assert (z0 = x) by congruence. subst z0. congruence.
    + intro Hn. destruct (any_primary_deleted sel (m_rds m)) eqn:A; [reflexivity|].
      apply PN. intros j x U Px.
      destruct (del sel x) eqn:Dx.
      * (* x was deleted and is primary: then any_primary_deleted *)
        assert (any_primary_deleted sel (m_rds m) = true).
        { apply existsb_exists. exists x. split; [destruct U as [Hj _]; eapply nth_error_In; eauto|].
          now rewrite Dx, Px. }
        congruence.
      * apply (Hn j x); [now apply used_at_survives | exact Px].
  - (* setprim *)
    unfold plan_setprim.
    destruct (find_one (sel_eval (SID id)) (m_rds m)) as [[i d]|e] eqn:F;
      [|intros [= <- <- <-]; constructor; assumption].
    destruct (Z.eqb_spec (d_type d) DataPartition) as [Td|Td]; cbn [negb];
      [|intros [= <- <- <-]; constructor; assumption].
    destruct (part_type (d_extra d) =? PartPrimSys) eqn:Pp; [intros [= <- <- <-]; constructor; assumption|].
    destruct (negb (part_type (d_extra d) =? PartSystem)); [intros [= <- <- <-]; constructor; assumption|].
    pose proof (find_one_used _ _ _ _ F) as [Ni Ui].
    set (t := resolve_time (m_hdr m) o now).
    assert (Wdd : forall k x, nth_error (m_rds m) k = Some x -> length (d_extra x) = 384%nat).
    { intros k x Hk. assert (Wx : wf_desc x) by (eapply Forall_forall; [apply (wf_rds _ W) | eapply nth_error_In; eauto]).
      apply Wx. }
    assert (I32a : in_i32 PartPrimSys) by (unfold in_i32, PartPrimSys; lia).
    assert (I32b : in_i32 PartSystem) by (unfold in_i32, PartSystem; lia).
    destruct (with_parttype_facts d PartPrimSys t Td (Wdd _ _ Ni) I32a) as [Pnew Anew].
    assert (Nd : ~ prim d).
    { unfold prim, is_partition_of_type. rewrite Pp, andb_false_r. discriminate. }
    destruct (find_one (sel_eval (SPartType PartPrimSys)) (m_rds m)) as [[j dj]|e] eqn:F2.
    + pose proof (find_one_used _ _ _ _ F2) as [Nj Uj]. pose proof (find_one_prim _ _ _ F2) as Pj.
      assert (Tj : d_type dj = DataPartition).
      { unfold is_partition_of_type in Pj. apply andb_true_iff in Pj as [Pj _]. now apply Z.eqb_eq. }
      destruct (with_parttype_facts dj PartSystem t Tj (Wdd _ _ Nj) I32b) as [Pold _].
      assert (Nold : ~ prim (with_parttype dj PartSystem t)).
      { intro Q. apply Pold in Q. unfold PartSystem, PartPrimSys in Q. discriminate. }
      assert (Nij : i <> j) by (intro; subst j; assert (dj = d) by congruence; subst dj; contradiction).
      intros [= <- <- <-]. cbn [m_hdr m_rds].
      set (rds1 := set_nth j (with_parttype dj PartSystem t) (m_rds m)).
      assert (Ni1 : nth_error rds1 i = Some d) by (unfold rds1; rewrite nth_error_set_nth_neq; auto).
      (* live descriptors of the final table *)
      assert (UA : forall k x, used_at (set_nth i (with_parttype d PartPrimSys t) rds1) k x ->
                     (k = i /\ x = with_parttype d PartPrimSys t) \/
                     (k = j /\ x = with_parttype dj PartSystem t) \/
                     (k <> i /\ k <> j /\ used_at (m_rds m) k x)).
      { intros k x [Hk Hu]. rewrite nth_error_set_nth in Hk. destruct (Nat.eqb_spec i k) as [->|Nk].
        - assert (Il : Nat.ltb k (length rds1) = true).
          { apply Nat.ltb_lt. unfold rds1. rewrite length_set_nth. apply nth_error_Some. congruence. }
          rewrite Il in Hk. left. split; [reflexivity | congruence].
        - unfold rds1 in Hk. rewrite nth_error_set_nth in Hk. destruct (Nat.eqb_spec j k) as [->|Nk2].
          + assert (Il : Nat.ltb k (length (m_rds m)) = true) by (apply Nat.ltb_lt, nth_error_Some; congruence).
            rewrite Il in Hk. right. left. split; [reflexivity | congruence].
          + right. right. repeat split; auto. }
      constructor; cbn [m_hdr m_rds h_arch set_mtime set_arch].
      * intros k l dk dl Uk Ul Pk Pl.
        destruct (UA k dk Uk) as [[-> ->]|[[-> ->]|(Nk1 & Nk2 & Uk0)]]; [|contradiction|];
        destruct (UA l dl Ul) as [[-> ->]|[[-> ->]|(Nl1 & Nl2 & Ul0)]]; try contradiction; try reflexivity.
        -- exfalso. apply Nl2. symmetry. apply (PU j l dj dl); auto. split; assumption.
        -- exfalso. apply Nk2. symmetry. apply (PU j k dj dk); auto. split; assumption.
        -- exfalso. apply Nk2. symmetry. apply (PU j k dj dk); auto. split; assumption.
      * intros k x U Px. destruct (UA k x U) as [[-> ->]|[[-> ->]|(Nk1 & Nk2 & U0)]].
        -- now rewrite Anew.
        -- contradiction.
        -- exfalso. apply Nk2. symmetry. apply (PU j k dj x); auto. split; assumption.
      * intro Hn. exfalso. apply (Hn i (with_parttype d PartPrimSys t)); [|now apply Pnew].
        split; [|exact Ui]. apply nth_error_set_nth_eq. unfold rds1. rewrite length_set_nth.
        apply nth_error_Some. congruence.
    + destruct e; try (intros [= <- <- <-]; constructor; assumption).
      (* no primary before *)
      assert (NoP : forall k x, used_at (m_rds m) k x -> ~ prim x).
      { intros k x U Px. pose proof (find_one_not_found (sel_eval (SPartType PartPrimSys)) (m_rds m)) as NF.
        assert (Hne : no_sel_error (sel_eval (SPartType PartPrimSys)) (m_rds m)) by (intros ? ? ?; reflexivity).
        apply (NF Hne) in F2.
        assert (In x (matching (sel_eval (SPartType PartPrimSys)) (m_rds m))).
        { unfold matching. apply filter_In. destruct U as [Hk Hu]. split; [eapply nth_error_In; eauto|].
          rewrite Hu. cbn. unfold prim in Px. now rewrite Px. }
        rewrite F2 in H. contradiction. }
      intros [= <- <- <-]. cbn [m_hdr m_rds].
      assert (UA : forall k x, used_at (set_nth i (with_parttype d PartPrimSys t) (m_rds m)) k x ->
                     (k = i /\ x = with_parttype d PartPrimSys t) \/ (k <> i /\ used_at (m_rds m) k x)).
      { intros k x [Hk Hu]. rewrite nth_error_set_nth in Hk. destruct (Nat.eqb_spec i k) as [->|Nk].
        - assert (Il : Nat.ltb k (length (m_rds m)) = true) by (apply Nat.ltb_lt, nth_error_Some; congruence).
          rewrite Il in Hk. left. split; [reflexivity | congruence].
        - right. split; [lia | split; assumption]. }
      constructor; cbn [m_hdr m_rds h_arch set_mtime set_arch].
      * intros k l dk dl Uk Ul Pk Pl.
        destruct (UA k dk Uk) as [[-> ->]|[_ Uk0]]; [|exfalso; eapply NoP; eauto].
        destruct (UA l dl Ul) as [[-> ->]|[_ Ul0]]; [reflexivity | exfalso; eapply NoP; eauto].
      * intros k x U Px. destruct (UA k x U) as [[-> ->]|[_ U0]]; [now rewrite Anew | exfalso; eapply NoP; eauto].
      * intro Hn. exfalso. apply (Hn i (with_parttype d PartPrimSys t)); [|now apply Pnew].
        split; [|exact Ui]. apply nth_error_set_nth_eq, nth_error_Some. congruence.
  - (* setmeta: the target is not a partition *)
    unfold plan_setmeta.
    destruct (find_one (sel_eval (SID id)) (m_rds m)) as [[i d]|e] eqn:F;
      [|intros [= <- <- <-]; constructor; assumption].
    destruct (new_extra sha256 (d_extra d) md []) as [extra|e]; [|intros [= <- <- <-]; constructor; assumption].
    pose proof (find_one_used _ _ _ _ F) as Ui. pose proof (find_one_sid _ _ _ _ F) as Idd.
    pose proof (Ty i d Ui Idd) as Td.
    unfold finish. intros [= <- <- <-]. cbn [m_hdr m_rds].
    set (d' := set_extra_mtime d extra (resolve_time (m_hdr m) o now)).
    assert (Nd' : ~ prim d') by (apply not_prim_other_type; exact Td).
    assert (Nd : ~ prim d) by (apply not_prim_other_type; exact Td).
    assert (UA : forall k x, used_at (set_nth i d' (m_rds m)) k x ->
                   (k = i /\ x = d') \/ (k <> i /\ used_at (m_rds m) k x)).
    { intros k x [Hk Hu]. destruct Ui as [Ni _]. rewrite nth_error_set_nth in Hk.
      destruct (Nat.eqb_spec i k) as [->|Nk].
      - assert (Il : Nat.ltb k (length (m_rds m)) = true) by (apply Nat.ltb_lt, nth_error_Some; congruence).
        rewrite Il in Hk. left. split; [reflexivity | congruence].
      - right. split; [lia | split; assumption]. }
    constructor; cbn [m_hdr m_rds h_arch set_mtime].
    + intros k l dk dl Uk Ul Pk Pl.
      destruct (UA k dk Uk) as [[-> ->]|[_ Uk0]]; [contradiction|].
      destruct (UA l dl Ul) as [[-> ->]|[_ Ul0]]; [contradiction|]. eapply PU; eauto.
    + intros k x U Px. destruct (UA k x U) as [[-> ->]|[_ U0]]; [contradiction | eapply PA; eauto].
    + intro Hn. apply PN. intros k x U Px. destruct (Nat.eq_dec k i) as [->|Nk].
      * destruct U as [Hk _], Ui as [Ni _]. assert (x = d) by congruence. subst x. contradiction.
      * apply (Hn k x); [|exact Px]. destruct U as [Hk Hu]. split; [|exact Hu].
        rewrite nth_error_set_nth_neq; auto.
  - (* setoci: the target is an OCI object *)
    unfold plan_setoci.
    destruct (find_one (sel_eval (SID id)) (m_rds m)) as [[i d]|e] eqn:F;
      [|intros [= <- <- <-]; constructor; assumption].
    destruct (is_oci_type (d_type d)) eqn:Oc; cbn [negb]; [|intros [= <- <- <-]; constructor; assumption].
    unfold plan_setmeta. rewrite F.
    destruct (new_extra sha256 (d_extra d) (MdRaw text) []) as [extra|e]; [|intros [= <- <- <-]; constructor; assumption].
    pose proof (find_one_used _ _ _ _ F) as Ui.
    assert (Td : d_type d <> DataPartition).
    { unfold is_oci_type in Oc. apply orb_true_iff in Oc as [Oc|Oc]; apply Z.eqb_eq in Oc; rewrite Oc;
        unfold DataOCIRootIndex, DataOCIBlob, DataPartition; lia. }
    unfold finish. intros [= <- <- <-]. cbn [m_hdr m_rds].
    set (d' := set_extra_mtime d extra (resolve_time (m_hdr m) o now)).
    assert (Nd' : ~ prim d') by (apply not_prim_other_type; exact Td).
    assert (Nd : ~ prim d) by (apply not_prim_other_type; exact Td).
    assert (UA : forall k x, used_at (set_nth i d' (m_rds m)) k x ->
                   (k = i /\ x = d') \/ (k <> i /\ used_at (m_rds m) k x)).
    { intros k x [Hk Hu]. destruct Ui as [Ni _]. rewrite nth_error_set_nth in Hk.
      destruct (Nat.eqb_spec i k) as [->|Nk].
      - assert (Il : Nat.ltb k (length (m_rds m)) = true) by (apply Nat.ltb_lt, nth_error_Some; congruence).
        rewrite Il in Hk. left. split; [reflexivity | congruence].
      - right. split; [lia | split; assumption]. }
    constructor; cbn [m_hdr m_rds h_arch set_mtime].
    + intros k l dk dl Uk Ul Pk Pl.
      destruct (UA k dk Uk) as [[-> ->]|[_ Uk0]]; [contradiction|].
      destruct (UA l dl Ul) as [[-> ->]|[_ Ul0]]; [contradiction|]. eapply PU; eauto.
    + intros k x U Px. destruct (UA k x U) as [[-> ->]|[_ U0]]; [contradiction | eapply PA; eauto].
    + intro Hn. apply PN. intros k x U Px. destruct (Nat.eq_dec k i) as [->|Nk].
      * destruct U as [Hk _], Ui as [Ni _]. assert (x = d) by congruence. subst x. contradiction.
      * apply (Hn k x); [|exact Px]. destruct U as [Hk Hu]. split; [|exact Hu].
        rewrite nth_error_set_nth_neq; auto.
  - intros [= <- <- <-]. constructor; assumption.
Qed.

End WithDigest.

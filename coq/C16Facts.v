(* C16Facts.v — legacy and current-format signatures are kept apart; what a
   successful legacy verification establishes. *)
From Coq Require Import List ZArith Lia Bool.
From Coq.Init Require Import Byte.
From Sif Require Import Bytes BytesFacts Store Format Image SelectFacts Integrity StreamFacts IntegFacts C04Facts C05Facts C07Facts.
Import ListNotations.
Local Open Scope Z_scope.

(* ---------- the legacy plaintext ---------- *)

Lemma trim_suffix_nl_head x r :
  x <> x0a -> exists r', trim_suffix_nl (x :: r) = x :: r'.
Proof.
  intro Hx. unfold trim_suffix_nl. cbn [rev]. destruct (rev r) as [|y t] eqn:R; cbn [app].
  - destruct x; try (eexists; reflexivity). contradiction.
  - destruct y; try (eexists; reflexivity).
    rewrite rev_app_distr. cbn. eexists; reflexivity.
Qed.

(* a payload that starts like JSON is no legacy plaintext *)
Lemma legacy_digest_rejects_json ht r : exists e, legacy_digest ht (x7b :: r) = inr e.
Proof.
  unfold legacy_digest.
  assert (T : trim_prefix sifhash_prefix (x7b :: r) = x7b :: r).
  { unfold trim_prefix. destruct (bytes_eqb _ sifhash_prefix) eqn:E; [|reflexivity].
    apply bytes_eqb_eq in E. cbn in E. discriminate. }
  rewrite T. destruct (trim_suffix_nl_head x7b r) as [r' ->]; [discriminate|].
  assert (H : hex_decode (x7b :: r') = None).
  { destruct r' as [|b r']; cbn [hex_decode]; [reflexivity|].
    replace (hex_val x7b) with (@None Z) by reflexivity. reflexivity. }
  rewrite H. eauto.
Qed.

Section C16.

Variable hash : halg -> list byte -> list byte.
Variable classify : list byte -> sigkind.
Variable is_legacy : list byte -> bool.
Variable open_dsse : Z -> list byte -> option (list byte * list Z).
Variable open_pgp : list byte -> option (list byte * list byte).
Variable parse_md : list byte -> option imd.
Variable has_dsse_keys : bool.
Variable has_pgp_keys : bool.

Local Notation dmatch := (digest_matches hash).
Local Notation vlegacy := (verify_legacy_sig hash open_dsse open_pgp).
Local Notation vfy := (verify hash classify is_legacy open_dsse open_pgp parse_md has_dsse_keys has_pgp_keys).
Local Notation tsigs := (task_signatures is_legacy).
Local Notation laccepted := (legacy_accepted hash open_dsse open_pgp).

(* the signatures a task looks at are of the requested kind *)
Theorem task_signatures_kind m st t sigs sig :
  tsigs m st t = inl sigs -> In sig sigs ->
  match t with
  | TGroup _ _ _ => exists c, get_data sig st = inl c /\ is_legacy c = false
  | TLegacyGroup _ _ => exists c, get_data sig st = inl c /\ is_legacy c = true
  | TLegacyObject _ => True
  end.
Proof.
  destruct t as [g ods sub|g ods|od]; cbn [task_signatures]; [| |auto].
  - unfold group_signatures. destruct (linked_sigs m (SLinkedGroup g)) as [l|]; [|discriminate].
    destruct (sigs_filter is_legacy st false l) as [l'|] eqn:F; [|discriminate].
    intros H Hin. assert (l' = sigs) as -> by (destruct l'; [discriminate | now injection H]).
    now destruct (sigs_filter_in _ _ _ _ _ _ F Hin).
  - unfold group_signatures. destruct (linked_sigs m (SLinkedGroup g)) as [l|]; [|discriminate].
    destruct (sigs_filter is_legacy st true l) as [l'|] eqn:F; [|discriminate].
    intros H Hin. assert (l' = sigs) as -> by (destruct l'; [discriminate | now injection H]).
    now destruct (sigs_filter_in _ _ _ _ _ _ F Hin).
Qed.

(* a legacy object task never accepts a signature whose payload is JSON *)
Theorem legacy_task_rejects_current_payload st ods errid sig kind o r :
  open_sig open_dsse open_pgp kind 1 (obj_bytes sig st) = Some o ->
  op_payload o = x7b :: r ->
  vr_err (vlegacy st ods errid sig kind) <> None.
Proof.
  intros OS HP. unfold verify_legacy_sig. rewrite OS.
  destruct (sig_meta sig) as [[ht fp]|]; [|discriminate].
  destruct (fp_matches (op_entity o) fp); cbn [negb]; [|discriminate].
  rewrite HP. destruct (legacy_digest_rejects_json ht r) as [e ->]. discriminate.
Qed.

(* one object: its content is what the digest in the signed plaintext is of *)
Theorem legacy_object_sound st od sig kind o dg cs a c0 :
  laccepted st [od] sig kind o dg cs ->
  dg = digest_of hash a c0 ->
  collision hash a \/ section_bytes (fst od) st = inl c0.
Proof.
  intros [_ _ LC LD] ->. cbn [map_err] in LC.
  destruct (section_bytes (fst od) st) as [c|] eqn:S; [|discriminate]. injection LC as <-.
  cbn [concat] in LD. rewrite app_nil_r in LD. apply digest_matches_of in LD.
  apply hash_eq_or_collision in LD as [->|C]; auto.
Qed.

(* a group: the concatenation of the contents is what was signed — only the
   concatenation (the statement for each object separately is refuted below) *)
Theorem legacy_group_sound_partial st ods sig kind o dg cs a cs0 :
  laccepted st ods sig kind o dg cs ->
  dg = digest_of hash a (concat cs0) ->
  collision hash a \/ concat cs = concat cs0.
Proof.
  intros [_ _ _ LD] ->. apply digest_matches_of in LD.
  apply hash_eq_or_collision in LD as [<-|C]; auto.
Qed.

(* the legacy group verifier cannot see where one object ends and the next begins *)
Theorem legacy_group_boundary_blind st ods st' ods' errid sig kind cs cs' :
  obj_bytes sig st = obj_bytes sig st' ->
  map_err (fun p => section_bytes (fst p) st) ods = inl cs ->
  map_err (fun p => section_bytes (fst p) st') ods' = inl cs' ->
  concat cs = concat cs' ->
  vr_err (vlegacy st ods errid sig kind) = vr_err (vlegacy st' ods' errid sig kind).
Proof.
  intros HS H1 H2 HC. unfold verify_legacy_sig. rewrite <- HS.
  destruct (open_sig open_dsse open_pgp kind 1 (obj_bytes sig st)) as [o|]; [|reflexivity].
  destruct (sig_meta sig) as [[ht fp]|]; [|reflexivity].
  destruct (fp_matches (op_entity o) fp); cbn [negb]; [|reflexivity].
  destruct (legacy_digest ht (op_payload o)) as [dg|]; [|reflexivity].
  rewrite H1, H2, HC. destruct (dmatch dg (concat cs')); reflexivity.
Qed.

End C16.

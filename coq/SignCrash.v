(* SignCrash.v — Sign interrupted (C09): Sign is a sequence of AddObject calls, one per group
   signer.  Whatever prefix of the storage calls of whichever of them reaches the file, the
   file still loads and every object the image held before signing is still there, in its slot,
   with the same descriptor and the same bytes. *)
From Coq Require Import List ZArith Lia Bool.
From Coq.Init Require Import Byte.
From Sif Require Import Bytes Store Format Image Machine Inv Reach Persist Crash CrashOps Integrity Sign.
Import ListNotations.
Local Open Scope Z_scope.

Section SignCrash.

Variable hash : halg -> list byte -> list byte.
Variable sha256 : list byte -> list byte.
Variable sha_len : forall c, length (sha256 c) = 32%nat.
Variable encode_md : imd -> list byte.
Variable seal : list byte -> list byte * Z.
Variable signer_fp : option (list byte).

Notation sign_input := (sign_input hash encode_md seal signer_fp).
Notation sign_all := (sign_all hash sha256 encode_md seal signer_fp).

(* every signature object Sign is about to add has its Go types and fits (as wf_ops for histories) *)
Fixpoint sign_wf (s : state) (gss : list gsigner) (o : topt) (now : Z) : Prop :=
  match gss with
  | [] => True
  | gs :: r =>
      match sign_input (s_mem s) (f_bytes (s_io s)) gs with
      | inr _ => True
      | inl di =>
          wf_op s (OpAdd di o now) /\
          match step sha256 s (OpAdd di o now) with
          | (s', Ok) => sign_wf s' r o now
          | _ => True
          end
      end
  end.

(* the objects of the image, kept in place with their bytes *)
Definition keeps_objects (s s1 : state) : Prop :=
  forall j d, used_at (m_rds (s_mem s)) j d ->
    used_at (m_rds (s_mem s1)) j d /\
    nread (Z.to_nat (d_off d)) (Z.to_nat (d_size d)) (f_bytes (s_io s1)) =
    nread (Z.to_nat (d_off d)) (Z.to_nat (d_size d)) (f_bytes (s_io s)).

Lemma sign_all_keeps done : forall s o now s1 rest,
  Inv s -> sign_wf s (done ++ rest) o now -> sign_all s done o now = (s1, SOk) ->
  Inv s1 /\ sign_wf s1 rest o now /\ keeps_objects s s1.
Proof.
  induction done as [|gs done IH]; intros s o now s1 rest I Wf H; cbn [Sign.sign_all app] in *.
  - injection H as <-. split; [exact I|]. split; [exact Wf|]. intros j d U. auto.
  - cbn [sign_wf] in Wf.
    destruct (sign_input (s_mem s) (f_bytes (s_io s)) gs) as [di|e]; [|discriminate].
    destruct Wf as [Wo Wf]. destruct (step sha256 s (OpAdd di o now)) as [s' [|e]] eqn:St; [|discriminate].
    pose proof (step_inv sha256 sha_len s _ s' Ok I Wo St) as I'.
    destruct (IH s' o now s1 rest I' Wf H) as (I1 & Wf1 & K1).
    split; [exact I1|]. split; [exact Wf1|]. intros j d U.
    destruct (step_persist sha256 sha_len s _ s' Ok I Wo St j d U (fun F => F)) as (d' & U' & _ & Eq & Rd).
    rewrite (Eq (fun F => F)) in U'. destruct (K1 j d U') as [U1 R1]. split; [exact U1|]. now rewrite R1.
Qed.

Theorem sign_interrupted_keeps_objects s done gs rest o now s1 di m' r evs st_c :
  Inv s -> sign_wf s (done ++ gs :: rest) o now ->
  sign_all s done o now = (s1, SOk) ->
  sign_input (s_mem s1) (f_bytes (s_io s1)) gs = inl di ->
  plan_add sha256 (s_mem s1) di o now = (m', r, evs) ->
  crash_image evs (s_io s1) st_c ->
  exists mc, load_image st_c = inl mc /\
    forall j d, used_at (m_rds (s_mem s)) j d ->
      nth_error (m_rds mc) j = Some d /\
      nread (Z.to_nat (d_off d)) (Z.to_nat (d_size d)) st_c =
      nread (Z.to_nat (d_off d)) (Z.to_nat (d_size d)) (f_bytes (s_io s)).
Proof.
  intros I Wf SA SI P CI.
  destruct (sign_all_keeps done s o now s1 (gs :: rest) I Wf SA) as (I1 & Wf1 & K).
  cbn [sign_wf] in Wf1. rewrite SI in Wf1. destruct Wf1 as [Wo _].
  destruct (interrupted_operation_keeps_bystanders sha256 sha_len s1 (OpAdd di o now) m' r evs st_c I1 Wo P CI)
    as (mc & L & _ & B).
  exists mc. split; [exact L|]. intros j d U. destruct (K j d U) as [U1 R1].
  assert (NT : ~ touched (OpAdd di o now) d) by (unfold touched, set_target; tauto).
  destruct (B j d U1 NT) as [N R]. split; [exact N|]. now rewrite R.
Qed.

End SignCrash.

(* LegacyCover.v — what a legacy request covers (C16): with no narrowing
   every group (OptVerifyLegacy) resp. every grouped non-signature object
   (OptVerifyLegacyAll) lies under a legacy signature that was examined and
   accepted; named groups / objects likewise. *)
From Coq Require Import List ZArith Lia Bool.
From Coq.Init Require Import Byte.
From Sif Require Import Bytes BytesFacts Store Format Image SelectFacts Integrity StreamFacts IntegFacts
     C04Facts C05Facts C07Facts.
Import ListNotations.
Local Open Scope Z_scope.

Definition legacy_opts : vopts := mkVO [] [] true false.
Definition legacy_all_opts : vopts := mkVO [] [] true true.

Lemma legacy_tasks m ts :
  new_verifier m legacy_opts = inl ts ->
  group_ids m <> [] /\
  Forall2 (fun g t => exists ods, group_objects m g = inl ods /\ t = TLegacyGroup g ods) (group_ids m) ts.
Proof.
  unfold new_verifier, legacy_opts. cbn [vo_groups vo_objects vo_legacy vo_legacy_all existsb sort_ids].
  destruct (group_ids m) as [|g0 gs] eqn:G; [discriminate|].
  set (gtask := fun g => match group_objects m g with inr e => inr e | inl ods => inl (TLegacyGroup g ods) end).
  destruct (map_err gtask (g0 :: gs)) as [t1|] eqn:M; [|discriminate]. cbn [map_err].
  intros [= <-]. rewrite app_nil_r. split; [discriminate|].
  apply map_err_inl in M. revert M. generalize (g0 :: gs). intro l. revert t1.
  induction l as [|g l IH]; intros t1 M; inversion M as [|? t ? t1' F M']; subst; constructor; [|auto].
  unfold gtask in F. destruct (group_objects m g) as [ods|]; [|discriminate]. injection F as <-.
  exists ods. auto.
Qed.

(* the IDs OptVerifyLegacyAll adds: every live grouped object that is not a signature *)
Definition grouped_data (d : rdesc) : bool :=
  negb (d_type d =? DataSignature) && negb (group_of_raw (d_group d) =? 0).

Lemma legacy_all_ids_spec l acc id :
  In id (fold_left (fun acc d => if grouped_data d then insert_sorted (d_id d) acc else acc) l acc) <->
  In id acc \/ exists d, In d l /\ grouped_data d = true /\ d_id d = id.
Proof.
  revert acc. induction l as [|d l IH]; intro acc; cbn [fold_left].
  - split; [auto|]. intros [H|(d & [] & _)]. exact H.
  - rewrite IH. destruct (grouped_data d) eqn:E.
    + rewrite In_insert_sorted. split.
      * intros [[->|H]|(d' & Hin & Hg & Hid)]; [right; exists d; cbn; auto | auto |].
        right. exists d'. cbn. auto.
      * intros [H|(d' & [<-|Hin] & Hg & Hid)]; [auto | auto |]. right. exists d'. auto.
    + split.
      * intros [H|(d' & Hin & Hg & Hid)]; [auto|]. right. exists d'. cbn. auto.
      * intros [H|(d' & [<-|Hin] & Hg & Hid)]; [auto | congruence |]. right. exists d'. auto.
Qed.

Lemma In_map_err_inl {A B E} (f : A -> B + E) l l' x :
  map_err f l = inl l' -> In x l -> exists y, f x = inl y /\ In y l'.
Proof.
  intro M. apply map_err_inl in M. induction M as [|a b l l' F _ IH]; [contradiction|].
  intros [<-|Hin]; [exists b; cbn; auto|]. destruct (IH Hin) as (y & Fy & Hy). exists y. cbn. auto.
Qed.

Lemma legacy_all_tasks m ts d :
  new_verifier m legacy_all_opts = inl ts ->
  In d (m_rds m) -> d_used d = true -> d_type d <> DataSignature -> group_of_raw (d_group d) <> 0 ->
  d_id d <> 0 /\ In (TLegacyObject (d, relative_id (m_minids m) d)) ts.
Proof.
  unfold new_verifier, legacy_all_opts. cbn [vo_groups vo_objects vo_legacy vo_legacy_all existsb sort_ids].
  intros NV Hin Hu Ht Hg.
  set (ids := fold_left _ (live m) []) in NV.
  assert (Hid : In (d_id d) ids).
  { unfold ids. apply (legacy_all_ids_spec (live m) [] (d_id d)). right. exists d.
    split; [unfold live; rewrite filter_In; auto|]. split; [|reflexivity].
    unfold grouped_data. destruct (Z.eqb_spec (d_type d) DataSignature); [contradiction|].
    destruct (Z.eqb_spec (group_of_raw (d_group d)) 0); [contradiction|]. reflexivity. }
  set (otask := fun id => match get_descriptor_i m id with
                          | inr e => inr e | inl od => inl (TLegacyObject od) end) in NV.
  destruct ids as [|i0 ir] eqn:EI; [contradiction|]. cbv beta iota in NV.
  match type of NV with context [map_err ?g (@nil Z)] =>
    change (map_err g (@nil Z)) with (@inl (list task) ierr []) in NV end.
  cbv beta iota in NV.
  destruct (map_err otask (i0 :: ir)) as [t2|] eqn:M; [|discriminate].
  injection NV as <-. cbn [app].
  destruct (In_map_err_inl _ _ _ _ M Hid) as (t & Ft & Hin_t).
  unfold otask, get_descriptor_i in Ft.
  destruct (get_descriptor m [SID (d_id d)]) as [[d' r]|e] eqn:GD; [|discriminate]. injection Ft as <-.
  assert (Hne : h_free (m_hdr m) <> h_total (m_hdr m)).
  { intro E. rewrite (get_descriptor_empty _ _ E) in GD. discriminate. }
  destruct (proj1 (get_descriptor_single m [SID (d_id d)] Hne) d' r GD) as [Hm ->].
  assert (Hd' : In d' (matching (multi_eval [SID (d_id d)]) (m_rds m))) by (rewrite Hm; cbn; auto).
  unfold matching in Hd'. apply filter_In in Hd' as [_ Hd']. apply andb_true_iff in Hd' as [_ Hd'].
  assert (Sd' : sat_all [SID (d_id d)] d').
  { apply multi_eval_true. destruct (multi_eval [SID (d_id d)] d') as [[|]|]; try discriminate. reflexivity. }
  inversion Sd' as [|? ? S1 _]; subst. apply sat_SID in S1 as [Hnz Heq].
  split; [exact Hnz|].
  (* d itself matches, and the match is unique *)
  assert (Hdm : In d (matching (multi_eval [SID (d_id d)]) (m_rds m))).
  { unfold matching. apply filter_In. split; [exact Hin|]. rewrite Hu. cbn [andb].
    assert (S : sat_all [SID (d_id d)] d) by (constructor; [apply sat_SID; auto | constructor]).
    apply multi_eval_true in S. rewrite S. reflexivity. }
  rewrite Hm in Hdm. destruct Hdm as [<-|[]]. exact Hin_t.
Qed.

Section Cover.

Variable hash : halg -> list byte -> list byte.
Variable classify : list byte -> sigkind.
Variable is_legacy : list byte -> bool.
Variable open_dsse : Z -> list byte -> option (list byte * list Z).
Variable open_pgp : list byte -> option (list byte * list byte).
Variable parse_md : list byte -> option imd.
Variable has_dsse_keys : bool.
Variable has_pgp_keys : bool.

Local Notation vfy := (verify hash classify is_legacy open_dsse open_pgp parse_md has_dsse_keys has_pgp_keys).
Local Notation kavail := (key_available has_dsse_keys has_pgp_keys).
Local Notation laccepted := (legacy_accepted hash open_dsse open_pgp).

(* what a legacy verification establishes about a list of objects *)
Definition legacy_covered (st : store) (ods : list (rdesc * Z)) (sigs : list rdesc) : Prop :=
  sigs <> [] /\
  forall sig, In sig sigs ->
    kavail (classify (obj_bytes sig st)) /\
    exists o dg cs, laccepted st ods sig (classify (obj_bytes sig st)) o dg cs.

Theorem legacy_verification_covers m st ts rs :
  new_verifier m legacy_opts = inl ts ->
  vfy m st strict ts = (rs, None) ->
  ungrouped_are_signatures m /\ group_ids m <> [] /\
  forall g, In g (group_ids m) ->
    exists ods sigs, group_objects m g = inl ods /\
                     group_signatures is_legacy m st g true = inl sigs /\ legacy_covered st ods sigs.
Proof.
  intros NV V. destruct (legacy_tasks _ _ NV) as [Hne HT].
  destruct (verify_ok _ _ _ _ _ _ _ _ _ _ _ _ V) as (HU & _ & _).
  destruct (strict_success_facts _ _ _ _ _ _ _ _ _ _ _ _ V) as [Hall _].
  split; [exact HU|]. split; [exact Hne|]. intros g Hg.
  assert (Ht : exists ods, group_objects m g = inl ods /\ In (TLegacyGroup g ods) ts).
  { clear - HT Hg. induction HT as [|g' t gs ts' (ods & GO & ->) _ IH]; [contradiction|].
    destruct Hg as [->|Hg]; [exists ods; cbn; auto|]. destruct (IH Hg) as (ods' & GO' & Hin).
    exists ods'. cbn. auto. }
  destruct Ht as (ods & GO & Hin). destruct (Hall _ Hin) as (sigs & TS & Hnn & Hok).
  cbn [task_signatures] in TS. exists ods, sigs. split; [exact GO|]. split; [exact TS|].
  split; [exact Hnn|]. intros sig Hs. destruct (Hok sig Hs) as (Hk & _ & RF). split; [exact Hk|].
  inversion RF as [g' ods' sub o im minid E _ _ | ods' o dg cs E A _]; [discriminate|].
  destruct E as [(g' & E)|(od & E & _)]; [|discriminate]. injection E as _ <-. eauto.
Qed.

Theorem legacy_all_verification_covers m st ts rs d :
  new_verifier m legacy_all_opts = inl ts ->
  vfy m st strict ts = (rs, None) ->
  In d (m_rds m) -> d_used d = true -> d_type d <> DataSignature -> group_of_raw (d_group d) <> 0 ->
  exists sigs, object_signatures m (d_id d) = inl sigs /\
               legacy_covered st [(d, relative_id (m_minids m) d)] sigs.
Proof.
  intros NV V Hin Hu Ht Hg. destruct (legacy_all_tasks _ _ _ NV Hin Hu Ht Hg) as [_ Hts].
  destruct (strict_success_facts _ _ _ _ _ _ _ _ _ _ _ _ V) as [Hall _].
  destruct (Hall _ Hts) as (sigs & TS & Hnn & Hok). cbn [task_signatures fst] in TS.
  exists sigs. split; [exact TS|]. split; [exact Hnn|]. intros sig Hs.
  destruct (Hok sig Hs) as (Hk & _ & RF). split; [exact Hk|].
  inversion RF as [g' ods' sub o im minid E _ _ | ods' o dg cs E A _]; [discriminate|].
  destruct E as [(g' & E)|(od & E & ->)]; [discriminate|]. injection E as <-. eauto.
Qed.

End Cover.

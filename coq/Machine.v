(* Machine.v — the two storage backends, and the image as a state machine:
   state, operations, step. *)
From Coq Require Import List ZArith Lia Bool.
From Coq.Init Require Import Byte.
From Sif Require Import Bytes Store Format Image.
Import ListNotations.

Inductive backend := BFile | BBuf.

(* sif.Buffer: Seek, Write, Truncate (see Backends.v for the line-by-line
   transliteration and the proof that it agrees with this) *)
Definition buf_apply (ev : event) (s : fstate) : option fstate :=
  match ev with
  | EvSeek o => Some (mkF (f_bytes s) o)
  | EvWrite bs => Some (mkF (nwrite (f_pos s) bs (f_bytes s)) (f_pos s + length bs))
  | EvTrunc n =>
      if (length (f_bytes s) <? n)%nat then None       (* errTruncateRange *)
      else Some (mkF (firstn n (f_bytes s)) (f_pos s))
  | EvResize n =>
      let size := length (f_bytes s) in
      if (n <? size)%nat then Some (mkF (firstn n (f_bytes s)) size)
      else if (size <? n)%nat then Some (mkF (nwrite (n - 1) [x00] (f_bytes s)) n)
      else Some (mkF (f_bytes s) size)
  end.

Definition backend_apply (b : backend) (ev : event) (s : fstate) : option fstate :=
  match b with
  | BFile => Some (file_apply ev s)
  | BBuf => buf_apply ev s
  end.

(* run the calls in order; stop at the first one that fails *)
Fixpoint run_events (b : backend) (tr : list event) (s : fstate) : fstate * bool :=
  match tr with
  | [] => (s, true)
  | ev :: r =>
      match backend_apply b ev s with
      | Some s' => run_events b r s'
      | None => (s, false)
      end
  end.

Record state := mkS { s_mem : mem; s_io : fstate; s_backend : backend }.

Definition exec (b : backend) (io : fstate) (p : mem * result * list event)
  : mem * result * fstate :=
  let '(m', r, tr) := p in
  match run_events b tr io with
  | (io', true) => (m', r, io')
  | (io', false) => (m', Err ETruncRange, io')
  end.

Inductive op :=
| OpAdd (di : dinput) (o : topt) (now : Z)
| OpDelete (sel : selector) (zero compact : bool) (o : topt) (now : Z)
| OpSetPrim (id : Z) (o : topt) (now : Z)
| OpSetMeta (id : Z) (md : metadata) (o : topt) (now : Z)
| OpSetOCI (id : Z) (text : list byte) (o : topt) (now : Z)
| OpReload.

Section WithDigest.
Variable sha256 : list byte -> list byte.

Definition plan_op (m : mem) (x : op) : mem * result * list event :=
  match x with
  | OpAdd di o now => plan_add sha256 m di o now
  | OpDelete sel z c o now => plan_delete m sel z c o now
  | OpSetPrim id o now => plan_setprim m id o now
  | OpSetMeta id md o now => plan_setmeta sha256 m id md o now
  | OpSetOCI id text o now => plan_setoci sha256 m id text o now
  | OpReload => (m, Ok, [])
  end.

(* OpReload: unload, then LoadContainer on the same storage *)
Definition step (s : state) (x : op) : state * result :=
  match x with
  | OpReload =>
      match load_image (f_bytes (s_io s)) with
      | inl m => (mkS m (s_io s) (s_backend s), Ok)
      | inr e => (s, Err e)
      end
  | _ =>
      let '(m', r, io') := exec (s_backend s) (s_io s) (plan_op (s_mem s) x) in
      (mkS m' io' (s_backend s), r)
  end.

Fixpoint run (s : state) (ops : list op) : state * list result :=
  match ops with
  | [] => (s, [])
  | x :: r =>
      let '(s1, res) := step s x in
      let '(s2, rs) := run s1 r in
      (s2, res :: rs)
  end.

(* CreateContainer on empty storage *)
Definition create (b : backend) (co : copts) : option state * result * fstate :=
  let '(om, r, tr) := plan_create sha256 co in
  match run_events b tr (mkF [] 0) with
  | (io', true) =>
      (match om with Some m => Some (mkS m io' b) | None => None end, r, io')
  | (io', false) => (None, Err ETruncRange, io')
  end.

(* LoadContainer on given storage *)
Definition load (b : backend) (bytes : store) : state + err :=
  match load_image bytes with
  | inl m => inl (mkS m (mkF bytes 0) b)
  | inr e => inr e
  end.

End WithDigest.

(* MetaFacts.v — the typed accessors of Meta.v return what the option encoders were
   given (C01: "the same ... name ... and type-specific metadata"), refuse the
   wrong data type, and the architecture / hash tables are inverse bijections
   (C11: the extra layouts of descriptor.go:46-73, the codes of arch.go). *)
From Coq Require Import List ZArith Bool Lia.
From Coq.Init Require Import Byte.
From Sif Require Import Bytes BytesFacts Store StoreFacts Format Image Meta PrimInv.
Import ListNotations.
Local Open Scope Z_scope.

(* ---------- names ---------- *)

Lemma all_zero_app a b : all_zero (a ++ b) = all_zero a && all_zero b.
Proof. unfold all_zero. apply forallb_app. Qed.

Lemma all_zero_zeros n : all_zero (zeros n) = true.
Proof. induction n as [|n IH]; [reflexivity|]. cbn. exact IH. Qed.

Lemma trim_nul_zeros n : trim_nul (zeros n) = [].
Proof.
  destruct n as [|n]; [reflexivity|].
  change (zeros (S n)) with (x00 :: zeros n). cbn [trim_nul].
  change (x00 :: zeros n) with (zeros (S n)). now rewrite all_zero_zeros.
Qed.

Lemma trim_nul_app_zeros a n : trim_nul (a ++ zeros n) = trim_nul a.
Proof.
  induction a as [|b r IH]; [apply trim_nul_zeros|].
  cbn [app trim_nul]. change (b :: r ++ zeros n) with ((b :: r) ++ zeros n).
  rewrite all_zero_app, all_zero_zeros, andb_true_r, IH. reflexivity.
Qed.

Lemma all_zero_last a : a <> [] -> last a x01 <> x00 -> all_zero a = false.
Proof.
  induction a as [|b r IH]; [congruence|]. intros _ L.
  destruct r as [|c r'].
  - cbn in L |- *. destruct (Byte.eqb b x00) eqn:E; [|reflexivity].
    apply Byte.byte_dec_bl in E. congruence.
  - change (all_zero (b :: c :: r')) with (Byte.eqb b x00 && all_zero (c :: r')).
    rewrite IH; [apply andb_false_r | discriminate | exact L].
Qed.

Lemma trim_nul_id a : last a x01 <> x00 -> trim_nul a = a.
Proof.
  induction a as [|b r IH]; [reflexivity|]. intro L. cbn [trim_nul].
  rewrite (all_zero_last (b :: r)) by (discriminate || exact L). f_equal.
  destruct r as [|c r']; [reflexivity|]. apply IH. exact L.
Qed.

Lemma trim_nul_pad n a : (length a <= n)%nat -> last a x01 <> x00 -> trim_nul (pad_to n a) = a.
Proof.
  intros Le L. unfold pad_to. rewrite firstn_all2 by lia. rewrite trim_nul_app_zeros. now apply trim_nul_id.
Qed.

(* the launch script given at creation (at most 32 bytes, not ending in NUL) is what
   LaunchScript() returns; the version field reads "01" *)
Theorem launch_roundtrip h l :
  (length l <= 32)%nat -> last l x01 <> x00 -> h_launch h = pad_to 32 l -> launch_of h = l.
Proof. intros Le L E. unfold launch_of. rewrite E. now apply trim_nul_pad. Qed.

Theorem version_reads_01 h : h_version h = version_bytes -> version_of h = [x30; x31].
Proof. intros E. unfold version_of. rewrite E. reflexivity. Qed.

(* A name of at most 128 bytes that does not end in NUL is read back as given. *)
Theorem name_roundtrip d name :
  (length name <= 128)%nat -> last name x01 <> x00 ->
  d_name d = pad_to 128 name -> name_of d = name.
Proof.
  intros Le L E. unfold name_of. rewrite E. unfold pad_to.
  rewrite firstn_all2 by lia. rewrite trim_nul_app_zeros. now apply trim_nul_id.
Qed.

(* whatever the field holds, Name() never ends in NUL and only drops NULs *)
Theorem name_of_spec bs : exists n, bs = trim_nul bs ++ zeros n.
Proof.
  induction bs as [|b r [n IH]]; [exists 0%nat; reflexivity|].
  cbn [trim_nul]. destruct (all_zero (b :: r)) eqn:Z.
  - exists (length (b :: r)). cbn [app]. unfold all_zero in Z. rewrite forallb_forall in Z.
    unfold zeros. apply Forall_eq_repeat. apply Forall_forall. intros x Hx.
    specialize (Z x Hx). apply Byte.byte_dec_bl in Z. now symmetry.
  - exists n. cbn [app]. now rewrite <- IH.
Qed.

(* ---------- architecture and hash tables ---------- *)

Lemma arch_tables_inverse :
  forallb (fun p => bytes_eqb (go_arch (snd p)) (fst p) && bytes_eqb (get_sif_arch (fst p)) (snd p)
                    && Nat.eqb (length (snd p)) 3 && negb (bytes_eqb (snd p) arch_unknown))
          arch_names = true.
Proof. vm_compute. reflexivity. Qed.

(* a name OptPartitionMetadata accepts is the one PartitionMetadata reports *)
Theorem go_arch_get_sif_arch name :
  get_sif_arch name <> arch_unknown ->
  go_arch (get_sif_arch name) = name /\ length (get_sif_arch name) = 3%nat.
Proof.
  unfold get_sif_arch. destruct (find _ arch_names) as [p|] eqn:F; [|congruence]. intros _.
  apply find_some in F. destruct F as [Hin E]. apply bytes_eqb_eq in E.
  pose proof arch_tables_inverse as T. rewrite forallb_forall in T. specialize (T p Hin).
  rewrite !andb_true_iff in T. destruct T as [[[A _] L] _].
  apply bytes_eqb_eq in A. apply Nat.eqb_eq in L. rewrite <- E. split; assumption.
Qed.

(* PrimaryArch() of a header whose arch field was set from a known architecture name *)
Theorem primary_arch_roundtrip h name :
  get_sif_arch name <> arch_unknown -> h_arch h = get_sif_arch name -> primary_arch h = name.
Proof. intros K E. unfold primary_arch. rewrite E. apply (go_arch_get_sif_arch name K). Qed.

Theorem primary_arch_unknown h : h_arch h = arch_unknown -> primary_arch h = name_unknown.
Proof. intros E. unfold primary_arch. rewrite E. reflexivity. Qed.

(* and every code of the table is reported under its own name, no two alike *)
Theorem get_sif_arch_go_arch code :
  go_arch code <> name_unknown -> get_sif_arch (go_arch code) = code.
Proof.
  unfold go_arch. destruct (find _ arch_names) as [p|] eqn:F; [|congruence]. intros _.
  apply find_some in F. destruct F as [Hin E]. apply bytes_eqb_eq in E.
  pose proof arch_tables_inverse as T. rewrite forallb_forall in T. specialize (T p Hin).
  rewrite !andb_true_iff in T. destruct T as [[[_ B] _] _].
  apply bytes_eqb_eq in B. now rewrite <- E.
Qed.

Definition supported_hash (h : Z) : Prop := In h [5; 6; 7; 16; 17].

Theorem hash_roundtrip h : supported_hash h -> get_hash_type (sif_hash_type h) = Some h.
Proof.
  unfold supported_hash. cbn [In]. intros [<-|[<-|[<-|[<-|[<-|[]]]]]]; reflexivity.
Qed.

(* every other crypto.Hash is written as hash type 0, which no accessor accepts *)
Theorem hash_unsupported h : ~ supported_hash h -> sif_hash_type h = 0 /\ get_hash_type 0 = None.
Proof.
  intro N. split; [|reflexivity]. unfold sif_hash_type, hash_pairs. cbn [find fst snd].
  unfold supported_hash in N. cbn [In] in N.
  repeat match goal with
         | |- context [?a =? h] => destruct (Z.eqb_spec a h); [exfalso; apply N; tauto|]
         end.
  reflexivity.
Qed.

(* ---------- partition ---------- *)

Theorem partition_roundtrip d fs pt name :
  d_type d = DataPartition -> in_i32 fs -> in_i32 pt ->
  get_sif_arch name <> arch_unknown ->
  d_extra d = pad_to 384 (enc_partition fs pt (get_sif_arch name)) ->
  partition_metadata d = inl (fs, pt, name).
Proof.
  intros T Hf Hp Ha E. destruct (go_arch_get_sif_arch name Ha) as [G L].
  unfold partition_metadata. rewrite T, Z.eqb_refl, E, (pad_enc_partition _ _ _ L).
  rewrite (part_type_enc _ _ _ _ Hp), (part_arch_enc _ _ _ _ L), G.
  unfold part_fs. rewrite nread_app_l by (rewrite length_le_enc; lia).
  replace (nread 0 4 (le_enc 4 fs)) with (le_enc 4 fs)
    by (symmetry; rewrite <- (length_le_enc 4 fs) at 1; apply nread_all).
  now rewrite (sle_dec_le_enc_i32 _ Hf).
Qed.

Theorem partition_wrong_type d : d_type d <> DataPartition -> partition_metadata d = inr MWrongType.
Proof. intro N. unfold partition_metadata. destruct (Z.eqb_spec (d_type d) DataPartition); congruence. Qed.

(* ---------- signature ---------- *)

Lemma nread_0_app_exact a b : nread 0 (length a) (a ++ b) = a.
Proof. unfold nread. cbn [skipn]. rewrite firstn_app, firstn_all, Nat.sub_diag. cbn. apply app_nil_r. Qed.

Lemma nread_0_app_len a b n : n = length a -> nread 0 n (a ++ b) = a.
Proof. intros ->. apply nread_0_app_exact. Qed.

Lemma nread_skip_app a b o n : o = length a -> nread o n (a ++ b) = nread 0 n b.
Proof. intros ->. unfold nread. rewrite skipn_app, skipn_all, Nat.sub_diag. reflexivity. Qed.

Lemma pad_enc_signature ht fp :
  (length fp <= 256)%nat ->
  pad_to 384 (enc_signature ht fp) = le_enc 4 ht ++ fp ++ zeros (256 - length fp) ++ zeros 124.
Proof.
  intro L. unfold enc_signature. unfold pad_to at 1.
  assert (Lp : length (pad_to 256 fp) = 256%nat) by (apply length_pad_to; exact L).
  rewrite firstn_all2 by (rewrite app_length, length_le_enc, Lp; lia).
  rewrite app_length, length_le_enc, Lp. cbn [Nat.add Nat.sub].
  unfold pad_to. rewrite firstn_all2 by lia. now rewrite <- !app_assoc.
Qed.

Theorem signature_roundtrip d h fp :
  d_type d = DataSignature -> supported_hash h -> length fp = 20%nat -> all_zero fp = false ->
  d_extra d = pad_to 384 (enc_signature (sif_hash_type h) fp) ->
  signature_metadata d = inl (h, Some fp).
Proof.
  intros T Hh L NZ E. unfold signature_metadata. rewrite T, Z.eqb_refl, E.
  rewrite pad_enc_signature by lia.
  assert (R : in_i32 (sif_hash_type h)).
  { unfold supported_hash in Hh. cbn [In] in Hh. unfold in_i32.
    destruct Hh as [<-|[<-|[<-|[<-|[<-|[]]]]]]; cbn; lia. }
  unfold sig_hashtype, sig_fingerprint.
  rewrite (nread_0_app_len (le_enc 4 (sif_hash_type h))) by now rewrite length_le_enc.
  rewrite (sle_dec_le_enc_i32 _ R), (hash_roundtrip _ Hh).
  rewrite (nread_skip_app (le_enc 4 (sif_hash_type h))) by now rewrite length_le_enc.
  rewrite (nread_0_app_len fp) by (symmetry; exact L). rewrite NZ. reflexivity.
Qed.

(* no fingerprint given (or one of zeros): reported as absent *)
Theorem signature_roundtrip_nofp d h :
  d_type d = DataSignature -> supported_hash h ->
  d_extra d = pad_to 384 (enc_signature (sif_hash_type h) []) ->
  signature_metadata d = inl (h, None).
Proof.
  intros T Hh E. unfold signature_metadata. rewrite T, Z.eqb_refl, E.
  unfold supported_hash in Hh. cbn [In] in Hh.
  destruct Hh as [<-|[<-|[<-|[<-|[<-|[]]]]]]; vm_compute; reflexivity.
Qed.

Theorem signature_wrong_type d : d_type d <> DataSignature -> signature_metadata d = inr MWrongType.
Proof. intro N. unfold signature_metadata. destruct (Z.eqb_spec (d_type d) DataSignature); congruence. Qed.

(* ---------- crypto message, SBOM ---------- *)

Theorem crypto_roundtrip d ft mt :
  d_type d = DataCryptoMessage -> in_i32 ft -> in_i32 mt ->
  d_extra d = pad_to 384 (enc_crypto ft mt) -> crypto_metadata d = inl (ft, mt).
Proof.
  intros T Hf Hm E. unfold crypto_metadata. rewrite T, Z.eqb_refl, E.
  unfold pad_to, enc_crypto.
  rewrite firstn_all2 by (rewrite app_length, !length_le_enc; lia).
  rewrite <- app_assoc.
  rewrite (nread_0_app_len (le_enc 4 ft)) by now rewrite length_le_enc.
  rewrite (nread_skip_app (le_enc 4 ft)) by now rewrite length_le_enc.
  rewrite (nread_0_app_len (le_enc 4 mt)) by now rewrite length_le_enc.
  now rewrite (sle_dec_le_enc_i32 _ Hf), (sle_dec_le_enc_i32 _ Hm).
Qed.

Theorem crypto_wrong_type d : d_type d <> DataCryptoMessage -> crypto_metadata d = inr MWrongType.
Proof. intro N. unfold crypto_metadata. destruct (Z.eqb_spec (d_type d) DataCryptoMessage); congruence. Qed.

Theorem sbom_roundtrip d f :
  d_type d = DataSBOM -> in_i32 f -> d_extra d = pad_to 384 (enc_sbom f) -> sbom_metadata d = inl f.
Proof.
  intros T Hf E. unfold sbom_metadata. rewrite T, Z.eqb_refl, E. unfold pad_to, enc_sbom.
  rewrite firstn_all2 by (rewrite length_le_enc; lia).
  rewrite (nread_0_app_len (le_enc 4 f)) by now rewrite length_le_enc.
  now rewrite (sle_dec_le_enc_i32 _ Hf).
Qed.

Theorem sbom_wrong_type d : d_type d <> DataSBOM -> sbom_metadata d = inr MWrongType.
Proof. intro N. unfold sbom_metadata. destruct (Z.eqb_spec (d_type d) DataSBOM); congruence. Qed.

(* ---------- OCI digest ---------- *)

Lemma upto_nul_app_zeros t n :
  forallb (fun b => negb (Byte.eqb b x00)) t = true -> (0 < n)%nat -> upto_nul (t ++ zeros n) = t.
Proof.
  intros H Hn. induction t as [|b r IH].
  - destruct n; [lia|]. reflexivity.
  - cbn [forallb] in H. apply andb_true_iff in H. destruct H as [Hb Hr].
    cbn [app upto_nul]. apply negb_true_iff in Hb. rewrite Hb, (IH Hr). reflexivity.
Qed.

Lemma lower_hex_not_nul b : is_lower_hex b = true -> Byte.eqb b x00 = false.
Proof. destruct b; vm_compute; congruence. Qed.

Lemma valid_digest_no_nul t :
  valid_digest_text t = true -> forallb (fun b => negb (Byte.eqb b x00)) t = true.
Proof.
  unfold valid_digest_text. rewrite !andb_true_iff. intros [[P _] Hx].
  apply bytes_eqb_eq in P. rewrite <- (firstn_skipn 7 t). rewrite forallb_app, P.
  apply andb_true_iff. split; [vm_compute; reflexivity|].
  rewrite forallb_forall in Hx |- *. intros b Hb. now rewrite (lower_hex_not_nul b (Hx b Hb)).
Qed.

(* A digest text that is "sha256:" + 64 lower-case hex digits is read back as given. *)
Theorem oci_digest_roundtrip d t :
  d_type d = DataOCIBlob \/ d_type d = DataOCIRootIndex ->
  valid_digest_text t = true -> d_extra d = pad_to 384 t -> oci_digest d = inl t.
Proof.
  intros T V E.
  assert (L : length t = 71%nat).
  { unfold valid_digest_text in V. rewrite !andb_true_iff in V. destruct V as [[_ L] _].
    now apply Nat.eqb_eq in L. }
  unfold oci_digest.
  replace ((d_type d =? DataOCIRootIndex) || (d_type d =? DataOCIBlob)) with true
    by (destruct T as [-> | ->]; reflexivity).
  rewrite E. unfold pad_to. rewrite firstn_all2 by lia.
  rewrite upto_nul_app_zeros by (try apply valid_digest_no_nul; try exact V; lia).
  now rewrite V.
Qed.

Theorem oci_wrong_type d :
  d_type d <> DataOCIBlob -> d_type d <> DataOCIRootIndex -> oci_digest d = inr MWrongType.
Proof.
  intros A B. unfold oci_digest.
  destruct (Z.eqb_spec (d_type d) DataOCIRootIndex); [congruence|].
  destruct (Z.eqb_spec (d_type d) DataOCIBlob); [congruence|]. reflexivity.
Qed.

(* ---------- group and link flags ---------- *)

Theorem group_of_with_mask g : 0 <= g < 268435456 -> group_of_raw (with_mask g) = g.
Proof.
  intro R. unfold with_mask, group_of_raw, group_mask.
  rewrite (Z.mod_small g) by lia.
  replace (g + 4026531840) with (g + 15 * 268435456) by lia.
  rewrite Z.mod_add by lia. apply Z.mod_small. lia.
Qed.

Theorem raw_is_group_with_mask g : 0 <= g < 268435456 -> raw_is_group (with_mask g) = true.
Proof.
  intro R. unfold with_mask, raw_is_group, group_of_raw, group_mask.
  rewrite (Z.mod_small g) by lia.
  replace (g + 4026531840) with (g + 15 * 268435456) by lia.
  rewrite Z.div_add by lia. rewrite (Z.div_small g) by lia. reflexivity.
Qed.

Theorem raw_plain_link id : 0 <= id < 268435456 ->
  group_of_raw id = id /\ raw_is_group id = false.
Proof.
  intro R. unfold group_of_raw, raw_is_group. rewrite Z.mod_small, Z.div_small by lia. now split.
Qed.

(* ---------- selectors and accessors agree (C13) ---------- *)

Lemma upto_nul_cut_nul bs : upto_nul bs = cut_nul bs.
Proof. induction bs as [|b r IH]; [reflexivity|]. cbn [upto_nul cut_nul]. now rewrite IH. Qed.

(* WithPartitionType(pt) selects exactly the descriptors whose PartitionMetadata() reports pt *)
Theorem sel_parttype_iff d pt :
  sel_eval (SPartType pt) d = SMatch true <-> exists fs a, partition_metadata d = inl (fs, pt, a).
Proof.
  cbn [sel_eval]. unfold is_partition_of_type, partition_metadata.
  destruct (Z.eqb_spec (d_type d) DataPartition) as [T|T]; cbn [andb].
  - split.
    + intro H. injection H as H. apply Z.eqb_eq in H. rewrite H. eauto.
    + intros (fs & a & H). injection H as _ H _. rewrite H, Z.eqb_refl. reflexivity.
  - split; [discriminate | intros (fs & a & H); discriminate].
Qed.

(* WithOCIBlobDigest(text) selects exactly the descriptors whose OCIBlobDigest() is text *)
Theorem sel_oci_digest_iff d text :
  sel_eval (SOCIDigest text) d = SMatch true <-> oci_digest d = inl text.
Proof.
  cbn [sel_eval]. unfold oci_digest, is_oci_type. rewrite <- upto_nul_cut_nul.
  destruct ((d_type d =? DataOCIRootIndex) || (d_type d =? DataOCIBlob)); cbn [andb].
  - destruct (valid_digest_text (upto_nul (d_extra d))); cbn [andb].
    + split.
      * intro H. injection H as H. apply bytes_eqb_eq in H. now rewrite H.
      * intro H. injection H as H. rewrite H, bytes_eqb_refl. reflexivity.
    + split; discriminate.
  - split; discriminate.
Qed.

Theorem sel_group_iff d g :
  g <> 0 -> (sel_eval (SGroup g) d = SMatch true <-> group_of d = g).
Proof.
  intro N. cbn [sel_eval]. destruct (Z.eqb_spec g 0); [contradiction|]. unfold group_of. split.
  - intro H. injection H as H. now apply Z.eqb_eq.
  - intro H. now rewrite H, Z.eqb_refl.
Qed.

Theorem sel_nogroup_iff d : sel_eval SNoGroup d = SMatch true <-> group_of d = 0.
Proof.
  cbn [sel_eval]. unfold group_of. split.
  - intro H. injection H as H. now apply Z.eqb_eq.
  - intro H. now rewrite H.
Qed.

Theorem sel_linked_iff d id :
  id <> 0 -> (sel_eval (SLinkedID id) d = SMatch true <-> linked_of d = (id, false)).
Proof.
  intro N. cbn [sel_eval]. destruct (Z.eqb_spec id 0); [contradiction|]. unfold linked_of.
  destruct (raw_is_group (d_link d)); cbn [negb andb].
  - split; [discriminate | intro H; injection H as _ H; discriminate].
  - split.
    + intro H. injection H as H. apply Z.eqb_eq in H. now rewrite H.
    + intro H. injection H as H. now rewrite H, Z.eqb_refl.
Qed.

Theorem sel_linked_group_iff d g :
  g <> 0 -> (sel_eval (SLinkedGroup g) d = SMatch true <-> linked_of d = (g, true)).
Proof.
  intro N. cbn [sel_eval]. destruct (Z.eqb_spec g 0); [contradiction|]. unfold linked_of.
  destruct (raw_is_group (d_link d)); cbn [andb].
  - split.
    + intro H. injection H as H. apply Z.eqb_eq in H. now rewrite H.
    + intro H. injection H as H. now rewrite H, Z.eqb_refl.
  - split; [discriminate | intro H; injection H as _ H; discriminate].
Qed.

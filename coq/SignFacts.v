(* SignFacts.v — whatever Sign signs verifies (C06): the signature object Sign
   appends is accepted by the verifier for the objects it covers, signatures
   already attached keep their verdict, and nothing else in the image changes. *)
From Coq Require Import List ZArith Lia Bool Sorted.
From Coq.Init Require Import Byte.
From Sif Require Import Bytes BytesFacts Store StoreFacts Format FormatFacts Image ImageFacts Machine
     SelectFacts Inv InvCommon InvSet InvAdd LoadFacts Persist Integrity Sign StreamFacts IntegFacts
     C04Facts C05Facts SignFrame.
Import ListNotations.
Local Open Scope Z_scope.

(* ---------- the link and group words of a signature object ---------- *)

Lemma land_group_mask g : 0 <= g < 2 ^ 28 -> Z.land g group_mask = 0.
Proof.
  intros [H0 H1]. apply Z.bits_inj'. intros n Hn. rewrite Z.land_spec, Z.bits_0.
  destruct (Z.ltb_spec n 28) as [L|G].
  - replace group_mask with (Z.shiftl 15 28) by reflexivity.
    rewrite Z.shiftl_spec_low by lia. apply andb_false_r.
  - destruct (Z.eq_dec g 0) as [->|Hg]; [now rewrite Z.bits_0|].
    rewrite (Z.bits_above_log2 g n); [reflexivity | lia |].
    assert (Z.log2 g < 28) by (apply Z.log2_lt_pow2; lia). lia.
Qed.

Lemma lor_group_mask g : 0 <= g < 2 ^ 28 -> Z.lor g group_mask = g + group_mask.
Proof.
  intro H. pose proof (land_group_mask g H) as L.
  rewrite (Z.add_nocarry_lxor g group_mask L). symmetry. now apply Z.lxor_lor.
Qed.

Lemma group_of_raw_lor g : 0 <= g < 2 ^ 28 -> group_of_raw (Z.lor g group_mask) = g.
Proof.
  intro H. rewrite (lor_group_mask g H). unfold group_of_raw, group_mask.
  change 268435456 with (2 ^ 28). replace (g + 4026531840) with (g + 15 * 2 ^ 28) by lia.
  rewrite Z.mod_add by lia. apply Z.mod_small. lia.
Qed.

Lemma raw_is_group_lor g : 0 <= g < 2 ^ 28 -> raw_is_group (Z.lor g group_mask) = true.
Proof.
  intro H. rewrite (lor_group_mask g H). unfold raw_is_group, group_mask.
  change 268435456 with (2 ^ 28). replace (g + 4026531840) with (g + 15 * 2 ^ 28) by lia.
  rewrite Z.div_add by lia. rewrite Z.div_small by lia. reflexivity.
Qed.

Lemma group_of_raw_range raw : 0 <= group_of_raw raw < 2 ^ 28.
Proof. unfold group_of_raw. change 268435456 with (2 ^ 28). apply Z.mod_pos_bound. lia. Qed.

(* ---------- the signature struct read back from the descriptor ---------- *)

Definition fp_wf (fp : option (list byte)) : Prop :=
  match fp with Some f => length f = 20%nat /\ all_zero f = false | None => True end.

Lemma all_zero_zeros n : all_zero (zeros n) = true.
Proof. unfold all_zero, zeros. induction n; cbn; auto. Qed.

Lemma sig_extra_readback ht fp :
  in_i32 ht -> fp_wf fp ->
  let extra := pad_to 384 (enc_signature ht fp) in
  length extra = 384%nat /\ sig_hashtype extra = ht /\ sig_fingerprint extra = fp.
Proof.
  intros Hht Hfp extra. unfold extra, enc_signature, pad_to.
  destruct fp as [f|]; cbn [fp_wf] in Hfp.
  - destruct Hfp as [Lf Zf].
    assert (L : length (le_enc 4 ht ++ f) = 24%nat) by (rewrite app_length, length_le_enc; lia).
    rewrite firstn_all2 by lia. rewrite L. split; [rewrite !app_length, length_le_enc, length_zeros; lia|].
    split.
    + unfold sig_hashtype, nread. cbn [skipn]. rewrite <- app_assoc, firstn_app, length_le_enc.
      replace (4 - 4)%nat with O by lia. rewrite firstn_O, app_nil_r.
      rewrite firstn_all2 by (rewrite length_le_enc; lia). now apply sle_dec_le_enc_i32.
    + unfold sig_fingerprint, nread. rewrite <- app_assoc.
      rewrite skipn_app, length_le_enc. rewrite skipn_all2 by (rewrite length_le_enc; lia).
      replace (4 - 4)%nat with O by lia. cbn [skipn app].
      rewrite firstn_app, Lf. replace (20 - 20)%nat with O by lia. rewrite firstn_O, app_nil_r.
      rewrite firstn_all2 by lia. now rewrite Zf.
  - rewrite app_nil_r.
    assert (L : length (le_enc 4 ht) = 4%nat) by apply length_le_enc.
    rewrite firstn_all2 by lia. rewrite L. split; [rewrite app_length, L, length_zeros; lia|].
    split.
    + unfold sig_hashtype, nread. cbn [skipn]. rewrite firstn_app, L.
      replace (4 - 4)%nat with O by lia. rewrite firstn_O, app_nil_r.
      rewrite firstn_all2 by lia. now apply sle_dec_le_enc_i32.
    + unfold sig_fingerprint, nread. rewrite skipn_app, L. rewrite skipn_all2 by lia.
      replace (4 - 4)%nat with O by lia. cbn [skipn app].
      change (384 - 4)%nat with (20 + 360)%nat. unfold zeros. rewrite repeat_app, firstn_app, repeat_length.
      replace (20 - 20)%nat with O by lia. rewrite firstn_O, app_nil_r.
      rewrite firstn_all2 by (rewrite repeat_length; lia).
      change (repeat x00 20) with (zeros 20). now rewrite all_zero_zeros.
Qed.

(* ---------- what an accepted AddObject does to the handle ---------- *)

Section AddShape.

Variable sha256 : list byte -> list byte.

Lemma step_add_plan s di o now s' :
  step sha256 s (OpAdd di o now) = (s', Ok) ->
  exists evs, plan_add sha256 (s_mem s) di o now = (s_mem s', Ok, evs).
Proof.
  unfold step. cbn [plan_op]. destruct (plan_add sha256 (s_mem s) di o now) as [[m' r] evs] eqn:P.
  unfold exec. destruct (run_events (s_backend s) evs (s_io s)) as [io' [|]]; intros [= <- E]; try discriminate.
  subst r. exists evs. reflexivity.
Qed.

Lemma plan_add_shape m di o now m' evs :
  plan_add sha256 m di o now = (m', Ok, evs) ->
  let i := first_unused (m_rds m) in
  let t := resolve_time (m_hdr m) o now in
  exists slot off extra,
    nth_error (m_rds m) i = Some slot /\ d_used slot = false /\
    new_extra sha256 (d_extra slot) (di_md di) (di_content di) = inl extra /\
    let d := new_desc i di t (data_end (m_hdr m) (m_rds m)) off extra in
    m_rds m' = set_nth i d (m_rds m) /\
    m_minids m' = minid_note (d_group d) (d_id d) (m_minids m) /\
    header_stream (m_hdr m') = header_stream (m_hdr m) /\
    h_free (m_hdr m') = h_free (m_hdr m) - 1 /\ h_total (m_hdr m') = h_total (m_hdr m).
Proof.
  unfold plan_add. cbv zeta.
  destruct (plan_write_object sha256 (first_unused (m_rds m)) di (resolve_time (m_hdr m) o now) m)
    as [[m1 r] e1] eqn:P.
  destruct r; [|discriminate]. unfold finish. intros [= <- _].
  pose proof (write_object_shape sha256 _ _ _ _ _ _ _ P) as S. cbv zeta in S.
  destruct S as (slot & off & extra & N & _ & _ & _ & _ & X & _ & ->).
  exists slot, off, extra. split; [exact N|]. split.
  { destruct (first_unused_spec (m_rds m)) as [_ F]. exact (F slot N). }
  split; [exact X|]. cbn [m_rds m_minids m_hdr]. repeat split; reflexivity.
Qed.

End AddShape.

(* ---------- helpers ---------- *)

Lemma wrap_roundtrip minid id : in_u32 id -> wrap_u32 (minid + wrap_u32 (id - minid)) = id.
Proof.
  intros [H0 H1]. unfold wrap_u32. rewrite Zplus_mod_idemp_r.
  replace (minid + (id - minid)) with id by lia. apply Z.mod_small. lia.
Qed.

Lemma live_id_inj m d1 d2 :
  wf_mem m -> In d1 (m_rds m) -> d_used d1 = true -> In d2 (m_rds m) -> d_used d2 = true ->
  d_id d1 = d_id d2 -> d1 = d2.
Proof.
  intros W I1 U1 I2 U2 E.
  apply In_nth_error in I1 as [i N1]. apply In_nth_error in I2 as [j N2].
  pose proof (wf_ids _ W i d1 (conj N1 U1)) as E1. pose proof (wf_ids _ W j d2 (conj N2 U2)) as E2.
  assert (i = j) by lia. subst j. congruence.
Qed.

Lemma group_min_id_rds m m' g : m_rds m = m_rds m' -> group_min_id m g = group_min_id m' g.
Proof. intro E. unfold group_min_id, live. now rewrite E. Qed.

Lemma group_min_id_added m m' g i d slot :
  nth_error (m_rds m) i = Some slot -> d_used slot = false -> d_used d = true ->
  group_of_raw (d_group d) <> g -> m_rds m' = set_nth i d (m_rds m) ->
  group_min_id m' g = group_min_id m g.
Proof.
  intros N U Ud Hg E.
  rewrite (group_min_id_rds m' (mkM (m_hdr m') (set_nth i d (m_rds m)) (m_minids m')) g E).
  rewrite (group_min_id_rds m (mkM (m_hdr m) (m_rds m) (m_minids m)) g eq_refl).
  eapply group_min_id_set_nth; eauto.
Qed.

(* the objects a signer covers: live members of the group, with the relative
   IDs the handle computes *)
Definition covered_ok (m : mem) (g : Z) (ods : list (rdesc * Z)) : Prop :=
  Forall (fun p => In (fst p) (m_rds m) /\ d_used (fst p) = true /\
                   group_of_raw (d_group (fst p)) = g /\
                   snd p = relative_id (m_minids m) (fst p)) ods.

Lemma covered_ok_wf m g ods : wf_mem m -> covered_ok m g ods -> wf_ods ods.
Proof.
  intros W C. unfold covered_ok in C. unfold wf_ods. rewrite Forall_forall in C |- *.
  intros p Hp. destruct (C p Hp) as (Hin & _ & _ & ->). split; [|unfold relative_id, in_u32, wrap_u32; apply Z.mod_pos_bound; lia].
  pose proof (wf_rds _ W) as Wr. rewrite Forall_forall in Wr. auto.
Qed.

(* ---------- the signature Sign appends is accepted ---------- *)

Section SignThm.

Variable hash : halg -> list byte -> list byte.
Variable sha256 : list byte -> list byte.
Variable sha_len : forall c, length (sha256 c) = 32%nat.
Variable classify : list byte -> sigkind.
Variable is_legacy : list byte -> bool.
Variable open_dsse : Z -> list byte -> option (list byte * list Z).
Variable open_pgp : list byte -> option (list byte * list byte).
Variable parse_md : list byte -> option imd.
Variable has_dsse_keys : bool.
Variable has_pgp_keys : bool.
Variable encode_md : imd -> list byte.
Variable seal : list byte -> list byte * Z.
Variable signer_fp : option (list byte).

Local Notation vgroup := (verify_group_sig hash open_dsse open_pgp parse_md).
Local Notation kavail := (key_available has_dsse_keys has_pgp_keys).

(* what the verifier's side of the cryptography does with what the signer's
   side produced: the envelope opens under the supplied keys to the payload
   that was sealed, names the signer the descriptor will name, is of a
   recognised current format; and the metadata survives JSON *)
Definition sealed_ok (p : list byte) : Prop :=
  in_i32 (snd (seal p)) /\ hashtype_known (snd (seal p)) = true /\
  is_legacy (fst (seal p)) = false /\ kavail (classify (fst (seal p))) /\
  exists o, open_sig open_dsse open_pgp (classify (fst (seal p))) (snd (seal p)) (fst (seal p)) = Some o /\
            op_payload o = p /\ fp_matches (op_entity o) signer_fp = true.

Variable parse_encode : forall im, parse_md (encode_md im) = Some im.
Variable seal_ok : forall p, sealed_ok p.
Variable fp_ok : fp_wf signer_fp.

Lemma sign_input_shape m st g ods di :
  sign_input hash encode_md seal signer_fp m st (mkGS g ods) = inl di ->
  exists minid im,
    group_min_id m g = Some minid /\ image_metadata hash m st minid ods SHA256 = inl im /\
    di = mkDI DataSignature (fst (seal (encode_md im))) None 0 (LGroup g) 0 []
              (MdRaw (enc_signature (snd (seal (encode_md im))) signer_fp)) None.
Proof.
  unfold sign_input. cbn [gs_group gs_ods].
  destruct (group_min_id m g) as [minid|]; [|discriminate].
  destruct (image_metadata hash m st minid ods SHA256) as [im|] eqn:IM; [|discriminate].
  destruct (seal (encode_md im)) as [c ht] eqn:SE. intros [= <-]. exists minid, im.
  split; [reflexivity|]. split; [exact IM | now rewrite SE].
Qed.

Lemma sign_input_wf m st g ods di :
  0 <= g < 2 ^ 28 ->
  sign_input hash encode_md seal signer_fp m st (mkGS g ods) = inl di -> wf_dinput di.
Proof.
  intros Hg S. destruct (sign_input_shape _ _ _ _ _ S) as (minid & im & _ & _ & ->).
  constructor; cbn.
  - unfold in_i32, DataSignature. lia.
  - unfold in_u32. lia.
  - unfold in_u32. lia.
  - exact I.
  - exact I.
Qed.

Lemma enc_signature_len ht : (length (enc_signature ht signer_fp) <= 384)%nat.
Proof.
  unfold enc_signature. rewrite app_length, length_le_enc. pose proof fp_ok as F.
  destruct signer_fp as [f|]; cbn in *; [destruct F as [-> _]|]; lia.
Qed.

Theorem new_signature_accepted s g ods di o now s' :
  Inv s -> 0 < g < 2 ^ 28 ->
  covered_ok (s_mem s) g ods ->
  sign_input hash encode_md seal signer_fp (s_mem s) (f_bytes (s_io s)) (mkGS g ods) = inl di ->
  time_ok o now -> add_fits (s_mem s) di ->
  step sha256 s (OpAdd di o now) = (s', Ok) ->
  let m := s_mem s in
  let m' := s_mem s' in
  let st' := f_bytes (s_io s') in
  exists i dsig,
    used_at (m_rds m') i dsig /\ ~ (exists d, used_at (m_rds m) i d) /\
    d_type dsig = DataSignature /\ group_of_raw (d_group dsig) = 0 /\ sat (SLinkedGroup g) dsig /\
    is_legacy (obj_bytes dsig st') = false /\ kavail (classify (obj_bytes dsig st')) /\
    (forall j d, used_at (m_rds m) j d -> used_at (m_rds m') j d) /\
    (forall j d, used_at (m_rds m') j d -> j = i \/ used_at (m_rds m) j d) /\
    forall ods_t sub,
      (forall p, In p ods_t -> In p ods) ->
      (sub = false -> forall p, In p ods -> exists p', In p' ods_t /\ d_id (fst p') = d_id (fst p)) ->
      vgroup m' st' g ods_t sub dsig (classify (obj_bytes dsig st')) =
        mkVR (d_id dsig) (map (fun p => d_id (fst p)) ods_t)
             (match open_sig open_dsse open_pgp (classify (obj_bytes dsig st'))
                             (sig_hashtype (d_extra dsig)) (obj_bytes dsig st') with
              | Some o => op_keys o | None => [] end)
             (match open_sig open_dsse open_pgp (classify (obj_bytes dsig st'))
                             (sig_hashtype (d_extra dsig)) (obj_bytes dsig st') with
              | Some o => op_entity o | None => None end)
             None.
Proof.
  intros I Hg Cov SI Tm Fit St m m' st'. subst m m' st'.
  assert (Hg' : 0 <= g < 2 ^ 28) by lia.
  pose proof (sign_input_wf _ _ _ _ _ Hg' SI) as Wdi.
  destruct (sign_input_shape _ _ _ _ _ SI) as (minid & im & GM & IM & Edi).
  destruct (seal_ok (encode_md im)) as (Hht & Hkn & Hleg & Hka & osig & OS & OP & FM).
  set (c := fst (seal (encode_md im))) in *. set (ht := snd (seal (encode_md im))) in *.
  destruct I as [W C]. assert (I : Inv s) by (split; assumption).
  destruct (add_inv sha256 sha_len s di o now s' Ok I Tm Wdi Fit St) as (I' & Len & Fr & _ & Acc).
  destruct (Acc eq_refl) as (slot & off & extra & Ns & Al & X & Rds & _ & _ & Content). clear Acc.
  destruct (step_add_plan sha256 _ _ _ _ _ St) as [evs PA].
  destruct (plan_add_shape sha256 _ _ _ _ _ _ PA) as (slot' & off' & extra' & Ns' & Us & X' & Rds' & Mi & Hs & _ & _).
  cbv zeta in *. rewrite Ns in Ns'. injection Ns' as <-.
  rewrite X in X'. injection X' as <-.
  assert (off' = off).
  { assert (Li0 : (first_unused (m_rds (s_mem s)) < length (m_rds (s_mem s)))%nat) by (apply nth_error_Some; congruence).
    pose proof (nth_error_set_nth_eq _ (new_desc (first_unused (m_rds (s_mem s))) di (resolve_time (m_hdr (s_mem s)) o now)
                  (data_end (m_hdr (s_mem s)) (m_rds (s_mem s))) off extra) _ Li0) as N1.
    rewrite <- Rds, Rds', nth_error_set_nth_eq in N1 by exact Li0. injection N1 as E. exact E. }
  subst off'.
  set (i := first_unused (m_rds (s_mem s))) in *.
  set (t := resolve_time (m_hdr (s_mem s)) o now) in *.
  set (dsig := new_desc i di t (data_end (m_hdr (s_mem s)) (m_rds (s_mem s))) off extra) in *.
  assert (Li : (i < length (m_rds (s_mem s)))%nat) by (apply nth_error_Some; congruence).
  (* the new descriptor *)
  assert (Dt : d_type dsig = DataSignature) by (subst di; reflexivity).
  assert (Dg : d_group dsig = Z.lor 0 group_mask) by (subst di; reflexivity).
  assert (Dl : d_link dsig = Z.lor g group_mask) by (subst di; reflexivity).
  assert (Du : d_used dsig = true) by reflexivity.
  assert (Dx : d_extra dsig = extra) by reflexivity.
  assert (Dsz : d_size dsig = Z.of_nat (length c)) by (subst di; reflexivity).
  assert (Doff : d_off dsig = off) by reflexivity.
  assert (Ex : extra = pad_to 384 (enc_signature ht signer_fp)).
  { subst di. cbn [di_md di_content new_extra] in X.
    destruct (Nat.ltb_spec 384 (length (enc_signature ht signer_fp))) as [Hl|Hl];
      [pose proof (enc_signature_len ht); lia|]. now injection X. }
  destruct (sig_extra_readback ht signer_fp Hht fp_ok) as (_ & RH & RF). cbv zeta in RH, RF.
  assert (Dg0 : group_of_raw (d_group dsig) = 0) by (rewrite Dg; apply group_of_raw_lor; lia).
  assert (Ui : used_at (m_rds (s_mem s')) i dsig).
  { split; [|exact Du]. rewrite Rds. now apply nth_error_set_nth_eq. }
  (* content read back *)
  destruct I' as [W' C'].
  assert (OB : obj_bytes dsig (f_bytes (s_io s')) = c).
  { rewrite (obj_bytes_live _ _ i dsig W' C' Ui), Doff, Dsz, Nat2Z.id.
    subst di. cbn [di_content] in Content. exact Content. }
  exists i, dsig. split; [exact Ui|]. split.
  { intros (d & Nd & Ud). rewrite Ns in Nd. injection Nd as <-. congruence. }
  split; [exact Dt|]. split; [exact Dg0|]. split.
  { apply sat_SLinkedGroup. rewrite Dl. split; [lia|]. split; [now apply raw_is_group_lor | now apply group_of_raw_lor]. }
  rewrite OB. split; [exact Hleg|]. split; [exact Hka|].
  assert (Old : forall j d, used_at (m_rds (s_mem s)) j d -> used_at (m_rds (s_mem s')) j d).
  { intros j d [Nd Ud]. split; [|exact Ud]. rewrite Rds, nth_error_set_nth_neq; [exact Nd|].
    intro E. subst j. rewrite Ns in Nd. injection Nd as <-. congruence. }
  split; [exact Old|]. split.
  { intros j d [Nd Ud]. destruct (Nat.eq_dec j i) as [->|Ne]; [now left|]. right.
    split; [|exact Ud]. rewrite Rds, nth_error_set_nth_neq in Nd by congruence. exact Nd. }
  intros ods_t sub Hsub Hcov.
  (* stage by stage *)
  unfold verify_group_sig.
  assert (SM : sig_meta dsig = inl (ht, signer_fp)).
  { unfold sig_meta. rewrite Dt, Z.eqb_refl. cbn [negb]. rewrite Dx, Ex, RH, RF, Hkn. reflexivity. }
  rewrite SM. rewrite OB. rewrite Dx, Ex, RH. rewrite OS, OP, parse_encode.
  assert (GM' : group_min_id (s_mem s') g = Some minid).
  { rewrite <- GM. eapply group_min_id_added; eauto. rewrite Dg0. lia. }
  rewrite GM', FM. cbn [negb].
  destruct (image_metadata_shape hash _ _ _ _ _ _ IM) as (Hh & Hobj & _).
  rewrite map_map. cbn [fst].
  pose proof (covered_ok_wf _ _ _ W Cov) as Wods. unfold covered_ok in Cov.
  rewrite Forall_forall in Cov. unfold wf_ods in Wods. rewrite Forall_forall in Wods.
  (* the signed IDs are the IDs of the covered objects *)
  assert (SID : map (fun om => wrap_u32 (minid + om_relid om)) (im_objects im) = map (fun p => d_id (fst p)) ods).
  { rewrite Hobj, map_map. apply map_ext_in. intros p Hp. unfold omd_of. cbn [om_relid].
    apply wrap_roundtrip. destruct (Wods p Hp) as [(_ & Hid & _) _]. exact Hid. }
  rewrite SID.
  assert (OI : (if sub then None else object_ids_match (map (fun p => d_id (fst p)) ods) ods_t) = None).
  { destruct sub; [reflexivity|]. apply object_ids_match_spec. split.
    - intros p Hp. apply in_map_iff. exists p. auto.
    - intros id Hid. apply in_map_iff in Hid as (p & <- & Hp). destruct (Hcov eq_refl p Hp) as (p' & Hp' & E). eauto. }
  rewrite OI.
  assert (HD : digest_matches hash (im_header im) (header_stream (m_hdr (s_mem s'))) = true).
  { rewrite Hh, Hs. unfold digest_matches, digest_of. cbn. apply bytes_eqb_refl. }
  rewrite HD. cbn [negb].
  (* the objects *)
  assert (OM : forall l, (forall p, In p l -> In p ods) ->
               objects_match hash (f_bytes (s_io s')) (map (fun om => (wrap_u32 (minid + om_relid om), om)) (im_objects im)) l =
               (map (fun p => d_id (fst p)) l, None)).
  { induction l as [|[d rel] l IH]; intro Hl; [reflexivity|]. cbn [objects_match map fst].
    assert (Hp : In (d, rel) ods) by (apply Hl; now left).
    destruct (Cov _ Hp) as (Hin & Hu & Hgr & Hrel). cbn [fst snd] in Hin, Hu, Hgr, Hrel.
    (* what find returns *)
    destruct (find (fun s0 => fst s0 =? d_id d) (map (fun om => (wrap_u32 (minid + om_relid om), om)) (im_objects im)))
      as [[id om]|] eqn:F.
    2:{ exfalso.
        assert (Hx : In (d_id d, omd_of hash SHA256 (f_bytes (s_io s)) minid (d, rel))
                        (map (fun om => (wrap_u32 (minid + om_relid om), om)) (im_objects im))).
        { rewrite Hobj, map_map. apply in_map_iff. exists (d, rel). split; [|exact Hp].
          unfold omd_of at 1. cbn [om_relid fst]. f_equal. apply wrap_roundtrip.
          destruct (Wods _ Hp) as [(_ & Hid & _) _]. exact Hid. }
        pose proof (find_none _ _ F _ Hx) as Hf. cbn [fst] in Hf. rewrite Z.eqb_refl in Hf. discriminate. }
    apply find_some in F as [Fin Fid]. cbn [fst] in Fid. apply Z.eqb_eq in Fid.
    rewrite Hobj, map_map in Fin. apply in_map_iff in Fin as (p0 & E0 & Hp0).
    injection E0 as Eid <-. unfold omd_of in Eid. cbn [om_relid] in Eid.
    destruct (Cov _ Hp0) as (Hin0 & Hu0 & _ & Hrel0).
    rewrite wrap_roundtrip in Eid by (destruct (Wods _ Hp0) as [(_ & Hid & _) _]; exact Hid).
    assert (E : fst p0 = d) by (apply (live_id_inj (s_mem s) (fst p0) d W Hin0 Hu0 Hin Hu); congruence).
    assert (Er : snd p0 = rel) by (rewrite Hrel0, E; symmetry; exact Hrel).
    unfold omd_of. cbn [om_desc om_obj]. rewrite E, Er.
    assert (D1 : digest_matches hash (digest_of hash SHA256 (desc_stream d rel)) (desc_stream d rel) = true)
      by (unfold digest_matches, digest_of; cbn; apply bytes_eqb_refl).
    rewrite D1. cbn [negb].
    apply In_nth_error in Hin as [j Nj].
    assert (Uj : used_at (m_rds (s_mem s)) j d) by (split; assumption).
    pose proof (Old j d Uj) as Uj'.
    rewrite (section_bytes_live _ _ j d W' C' Uj').
    assert (By : nread (Z.to_nat (d_off d)) (Z.to_nat (d_size d)) (f_bytes (s_io s')) = obj_bytes d (f_bytes (s_io s))).
    { rewrite (obj_bytes_live _ _ j d W C Uj).
      destruct (Z_lt_le_dec 0 (d_size d)) as [Sp|Sz].
      - pose proof (coh_infile _ _ C j d Uj Sp) as Inf.
        destruct (wf_layout _ W j d Uj) as (L1 & L2 & L3).
        assert (d_off d + d_size d <= data_end (m_hdr (s_mem s)) (m_rds (s_mem s))).
        { apply data_end_member; [eapply nth_error_In; eauto | exact Hu]. }
        pose proof (wf_dataoff _ W). pose proof (wf_descoff _ W). pose proof (wf_descsize _ W). pose proof (wf_total _ W).
        apply Fr; lia.
      - replace (Z.to_nat (d_size d)) with O by lia. reflexivity. }
    rewrite By.
    assert (D2 : digest_matches hash (digest_of hash SHA256 (obj_bytes d (f_bytes (s_io s)))) (obj_bytes d (f_bytes (s_io s))) = true)
      by (unfold digest_matches, digest_of; cbn; apply bytes_eqb_refl).
    rewrite D2. cbn [negb]. rewrite IH; [reflexivity|]. intros p Hp'. apply Hl. now right. }
  rewrite (OM ods_t Hsub). reflexivity.
Qed.

End SignThm.

(* ---------- adding an object elsewhere keeps every verdict on a group ---------- *)

Section Frame.

Variable hash : halg -> list byte -> list byte.
Variable sha256 : list byte -> list byte.
Variable sha_len : forall c, length (sha256 c) = 32%nat.
Variable open_dsse : Z -> list byte -> option (list byte * list Z).
Variable open_pgp : list byte -> option (list byte * list byte).
Variable parse_md : list byte -> option imd.

Local Notation vgroup := (verify_group_sig hash open_dsse open_pgp parse_md).

Lemma free_lt_total_after m : wf_mem m -> h_free (m_hdr m) - 1 <> h_total (m_hdr m).
Proof.
  intro W. rewrite (wf_free _ W), (wf_total _ W). pose proof (count_unused_le (m_rds m)). lia.
Qed.

Theorem add_elsewhere_keeps_group s di o now s' g :
  Inv s -> time_ok o now -> wf_dinput di -> add_fits (s_mem s) di ->
  step sha256 s (OpAdd di o now) = (s', Ok) ->
  g <> 0 -> group_of_raw (Z.lor (di_group di) group_mask) <> g ->
  let m := s_mem s in let st := f_bytes (s_io s) in
  let m' := s_mem s' in let st' := f_bytes (s_io s') in
  (forall ods, covered_ok m g ods -> covered_ok m' g ods) /\
  (forall ods, group_objects m g = inl ods -> group_objects m' g = inl ods) /\
  group_min_id m' g = group_min_id m g /\
  header_stream (m_hdr m') = header_stream (m_hdr m) /\
  (forall j d, used_at (m_rds m) j d -> used_at (m_rds m') j d /\
               section_bytes d st' = section_bytes d st /\ obj_bytes d st' = obj_bytes d st) /\
  (forall j sig ods sub kind, used_at (m_rds m) j sig -> covered_ok m g ods ->
     vgroup m' st' g ods sub sig kind = vgroup m st g ods sub sig kind).
Proof.
  intros I Tm Wdi Fit St Hg0 Hg m st m' st'. subst m st m' st'.
  destruct I as [W C]. assert (I : Inv s) by (split; assumption).
  destruct (add_inv sha256 sha_len s di o now s' Ok I Tm Wdi Fit St) as ([W' C'] & Len & Fr & _ & _).
  destruct (step_add_plan sha256 _ _ _ _ _ St) as [evs PA].
  destruct (plan_add_shape sha256 _ _ _ _ _ _ PA) as (slot & off & extra & Ns & Us & X & Rds & Mi & Hs & Hfree & Htot).
  cbv zeta in *.
  set (i := first_unused (m_rds (s_mem s))) in *.
  set (dn := new_desc i di (resolve_time (m_hdr (s_mem s)) o now) (data_end (m_hdr (s_mem s)) (m_rds (s_mem s))) off extra) in *.
  assert (Dg : d_group dn = Z.lor (di_group di) group_mask) by reflexivity.
  assert (Du : d_used dn = true) by reflexivity.
  assert (Old : forall j d, used_at (m_rds (s_mem s)) j d -> used_at (m_rds (s_mem s')) j d).
  { intros j d [Nd Ud]. split; [|exact Ud]. rewrite Rds, nth_error_set_nth_neq; [exact Nd|].
    intro E. subst j. rewrite Ns in Nd. injection Nd as <-. congruence. }
  assert (Rel : forall d, group_of_raw (d_group d) = g ->
                 relative_id (m_minids (s_mem s')) d = relative_id (m_minids (s_mem s)) d).
  { intros d Hd. rewrite Mi. apply relative_id_note_other. intro E. rewrite E, Dg in Hd. contradiction. }
  assert (Bytes : forall j d, used_at (m_rds (s_mem s)) j d ->
            section_bytes d (f_bytes (s_io s')) = section_bytes d (f_bytes (s_io s)) /\
            obj_bytes d (f_bytes (s_io s')) = obj_bytes d (f_bytes (s_io s))).
  { intros j d Uj. pose proof (Old j d Uj) as Uj'.
    assert (E : section_bytes d (f_bytes (s_io s')) = section_bytes d (f_bytes (s_io s))).
    { rewrite (section_bytes_live _ _ j d W' C' Uj'), (section_bytes_live _ _ j d W C Uj). f_equal.
      destruct (Z_lt_le_dec 0 (d_size d)) as [Sp|Sz].
      - pose proof (coh_infile _ _ C j d Uj Sp) as Inf.
        destruct (wf_layout _ W j d Uj) as (L1 & L2 & L3).
        assert (d_off d + d_size d <= data_end (m_hdr (s_mem s)) (m_rds (s_mem s))).
        { destruct Uj as [Nj Uj]. apply data_end_member; [eapply nth_error_In; eauto | exact Uj]. }
        pose proof (wf_dataoff _ W). pose proof (wf_descoff _ W). pose proof (wf_descsize _ W). pose proof (wf_total _ W).
        apply Fr; lia.
      - replace (Z.to_nat (d_size d)) with O by lia. reflexivity. }
    split; [exact E|]. unfold obj_bytes. now rewrite E. }
  assert (Cov : forall ods, covered_ok (s_mem s) g ods -> covered_ok (s_mem s') g ods).
  { intros ods Co. unfold covered_ok in *. rewrite Forall_forall in Co |- *. intros p Hp.
    destruct (Co p Hp) as (Hin & Hu & Hgr & Hrel). split; [|split; [exact Hu | split; [exact Hgr|]]].
    - apply In_nth_error in Hin as [j Nj]. destruct (Old j (fst p) (conj Nj Hu)) as [Nj' _].
      eapply nth_error_In; eauto.
    - rewrite Hrel. symmetry. now apply Rel. }
  assert (GM : group_min_id (s_mem s') g = group_min_id (s_mem s) g).
  { eapply group_min_id_added; eauto; try (now rewrite Dg). }
  split; [exact Cov|]. split.
  { intros ods GO. unfold group_objects in *.
    destruct (get_descriptors (s_mem s) [SGroup g]) as [l|] eqn:G; [|discriminate].
    assert (l = ods) as -> by (destruct l; [discriminate | now injection GO]).
    assert (G' : get_descriptors (s_mem s') [SGroup g] = inl ods).
    { revert G. unfold get_descriptors. rewrite Hfree, Htot.
      destruct (Z.eqb_spec (h_free (m_hdr (s_mem s))) (h_total (m_hdr (s_mem s)))); [discriminate|].
      destruct (Z.eqb_spec (h_free (m_hdr (s_mem s)) - 1) (h_total (m_hdr (s_mem s)))) as [E|_];
        [exfalso; exact (free_lt_total_after _ W E)|].
      rewrite !(collect_never_errs _ _ (group_sel_never_errs g Hg0)). intros [= <-]. f_equal.
      rewrite Rds, (matching_set_nth_nomatch _ i dn slot _ Ns Us).
      - apply map_ext_in. intros d Hd. f_equal. apply Rel.
        unfold matching in Hd. apply filter_In in Hd as [_ Hm]. apply andb_true_iff in Hm as [_ Hm].
        destruct (Z.eqb_spec g 0); [contradiction|].
        destruct (Z.eqb_spec (group_of_raw (d_group d)) g) as [E|E]; [exact E | discriminate].
      - rewrite Du. cbn [andb multi_eval sel_eval]. destruct (Z.eqb_spec g 0); [contradiction|].
        rewrite Dg. destruct (Z.eqb_spec (group_of_raw (Z.lor (di_group di) group_mask)) g); [contradiction | reflexivity]. }
    rewrite G'. destruct ods; [discriminate | reflexivity]. }
  split; [exact GM|]. split; [exact Hs|]. split.
  { intros j d Uj. split; [now apply Old | now apply (Bytes j d)]. }
  intros j sig ods sub kind Us' Co. apply verify_group_sig_ext.
  - exact Hs.
  - exact GM.
  - now apply (Bytes j sig).
  - unfold covered_ok in Co. rewrite Forall_forall in Co |- *. intros p Hp.
    destruct (Co p Hp) as (Hin & Hu & _). apply In_nth_error in Hin as [k Nk].
    now apply (Bytes k (fst p) (conj Nk Hu)).
Qed.

End Frame.

(* ---------- the whole-group signer covers the group, in table order ---------- *)

Lemma matching_ids_ascending f k rds :
  (forall i d, used_at rds i d -> d_id d = k + Z.of_nat i + 1) ->
  StronglySorted (fun a b => d_id a < d_id b) (matching f rds) /\
  Forall (fun d => k < d_id d) (matching f rds).
Proof.
  revert k. induction rds as [|x r IH]; intros k H; cbn [matching filter].
  - split; constructor.
  - assert (Hr : forall i d, used_at r i d -> d_id d = (k + 1) + Z.of_nat i + 1).
    { intros i d [N U]. rewrite (H (S i) d (conj N U)). lia. }
    destruct (IH (k + 1) Hr) as [S F]. fold (matching f r).
    destruct (d_used x && is_match (f x)) eqn:E.
    + apply andb_true_iff in E as [Ux _]. pose proof (H O x (conj eq_refl Ux)) as Hx. split.
      * constructor; [exact S|]. eapply Forall_impl; [|exact F]. intros d Hd. cbn beta in *. lia.
      * constructor; [lia|]. eapply Forall_impl; [|exact F]. intros d Hd. cbn beta in *. lia.
    + split; [exact S|]. eapply Forall_impl; [|exact F]. intros d Hd. cbn beta in *. lia.
Qed.

Lemma insert_od_last x acc :
  Forall (fun p => d_id (fst p) < d_id (fst x)) acc -> insert_od x acc = acc ++ [x].
Proof.
  induction 1 as [|y acc Hy _ IH]; cbn [insert_od app]; [reflexivity|].
  destruct (Z.ltb_spec (d_id (fst x)) (d_id (fst y))); [lia|].
  destruct (Z.eqb_spec (d_id (fst x)) (d_id (fst y))); [lia|]. now rewrite IH.
Qed.

Lemma add_objects_ascending g acc ods :
  Forall (fun p => group_of_raw (d_group (fst p)) = g) ods ->
  StronglySorted (fun a b => d_id (fst a) < d_id (fst b)) ods ->
  Forall (fun a => Forall (fun p => d_id (fst a) < d_id (fst p)) ods) acc ->
  add_objects g acc ods = inl (acc ++ ods).
Proof.
  revert acc. induction ods as [|x ods IH]; intros acc G S A; cbn [add_objects].
  - now rewrite app_nil_r.
  - pose proof (Forall_inv G) as Gx. pose proof (Forall_inv_tail G) as G'. cbn beta in Gx.
    pose proof (StronglySorted_inv S) as [S' Fx].
    unfold add_object. rewrite Gx, Z.eqb_refl.
    rewrite insert_od_last.
    2:{ eapply Forall_impl; [|exact A]. intros a Ha. cbn beta in Ha. inversion Ha; subst. assumption. }
    rewrite IH; [now rewrite <- app_assoc | exact G' | exact S' |].
    apply Forall_app. split.
    + eapply Forall_impl; [|exact A]. intros a Ha. cbn beta in *. inversion Ha; subst. assumption.
    + constructor; [exact Fx | constructor].
Qed.

Lemma whole_group_signer m g ods :
  wf_mem m -> group_objects m g = inl ods ->
  new_group_signer m g None = inl (mkGS g ods) /\ covered_ok m g ods.
Proof.
  intros W GO. destruct (group_objects_spec _ _ _ GO) as (Hne & Hiff & Hrel).
  assert (Hg : g <> 0).
  { destruct ods as [|p l]; [contradiction|]. destruct (proj1 (Hiff (fst p)) (or_introl eq_refl)) as (_ & _ & H & _). exact H. }
  assert (Cov : covered_ok m g ods).
  { unfold covered_ok. apply Forall_forall. intros [d r] Hp. cbn [fst snd].
    destruct (proj1 (Hiff d)) as (Hin & Hu & _ & Hgr); [apply in_map_iff; exists (d, r); auto|].
    repeat split; auto. }
  split; [|exact Cov].
  unfold new_group_signer. destruct (Z.eqb_spec g 0); [contradiction|]. rewrite GO.
  (* the members, in table order, have ascending IDs *)
  assert (Asc : StronglySorted (fun a b => d_id (fst a) < d_id (fst b)) ods).
  { unfold group_objects in GO. destruct (get_descriptors m [SGroup g]) as [l|] eqn:G; [|discriminate].
    assert (l = ods) as -> by (destruct l; [discriminate | now injection GO]).
    destruct (get_descriptors_exact _ _ _ G) as (Hm & _ & _).
    destruct (matching_ids_ascending (multi_eval [SGroup g]) 0 (m_rds m)) as [S _].
    { intros i d U. rewrite (wf_ids _ W i d U). lia. }
    rewrite <- Hm in S. clear - S. induction ods as [|p l IH]; [constructor|].
    cbn [map] in S. inversion S as [|? ? S' F]; subst. constructor; [auto|].
    rewrite Forall_forall in F |- *. intros q Hq. apply F. now apply in_map. }
  rewrite (add_objects_ascending g [] ods).
  - reflexivity.
  - unfold covered_ok in Cov. eapply Forall_impl; [|exact Cov]. intros p (_ & _ & H & _). exact H.
  - exact Asc.
  - constructor.
Qed.

(* ---------- sign a group, then verify it ---------- *)

Section Complete.

Variable hash : halg -> list byte -> list byte.
Variable sha256 : list byte -> list byte.
Variable sha_len : forall c, length (sha256 c) = 32%nat.
Variable classify : list byte -> sigkind.
Variable is_legacy : list byte -> bool.
Variable open_dsse : Z -> list byte -> option (list byte * list Z).
Variable open_pgp : list byte -> option (list byte * list byte).
Variable parse_md : list byte -> option imd.
Variable has_dsse_keys : bool.
Variable has_pgp_keys : bool.
Variable encode_md : imd -> list byte.
Variable seal : list byte -> list byte * Z.
Variable signer_fp : option (list byte).

Local Notation vgroup := (verify_group_sig hash open_dsse open_pgp parse_md).
Local Notation kavail := (key_available has_dsse_keys has_pgp_keys).
Local Notation vsigs := (verify_sigs hash classify open_dsse open_pgp parse_md has_dsse_keys has_pgp_keys).
Local Notation vfy := (verify hash classify is_legacy open_dsse open_pgp parse_md has_dsse_keys has_pgp_keys).
Local Notation sres := (sig_result hash classify open_dsse open_pgp parse_md).
Local Notation sok := (sig_ok hash classify open_dsse open_pgp parse_md has_dsse_keys has_pgp_keys).

Variable parse_encode : forall im, parse_md (encode_md im) = Some im.
Variable seal_ok : forall p, sealed_ok classify is_legacy open_dsse open_pgp has_dsse_keys has_pgp_keys seal signer_fp p.
Variable fp_ok : fp_wf signer_fp.

Lemma verify_sigs_all_ok m st t sigs acc :
  Forall (sok m st t) sigs -> vsigs m st t strict sigs acc = (acc ++ map (sres m st t) sigs, None).
Proof.
  revert acc. induction sigs as [|sig sigs IH]; intros acc F; cbn [verify_sigs map].
  - now rewrite app_nil_r.
  - pose proof (Forall_inv F) as [Hk He]. pose proof (Forall_inv_tail F) as F'.
    unfold sig_result in He. unfold key_available in Hk.
    destruct (classify (obj_bytes sig st)) eqn:K; [| |contradiction].
    + assert (negb has_dsse_keys = false) as -> by now rewrite Hk.
      rewrite He. rewrite (IH _ F').
      assert (SR : sres m st t sig = verify_sig hash open_dsse open_pgp parse_md m st t sig KDSSE)
        by (unfold sig_result; now rewrite K).
      now rewrite SR, <- app_assoc.
    + assert (negb has_pgp_keys = false) as -> by now rewrite Hk.
      rewrite He. rewrite (IH _ F').
      assert (SR : sres m st t sig = verify_sig hash open_dsse open_pgp parse_md m st t sig KClearsign)
        by (unfold sig_result; now rewrite K).
      now rewrite SR, <- app_assoc.
Qed.

Lemma sigs_filter_total st legacy l :
  (forall d, In d l -> exists c, get_data d st = inl c) ->
  exists l', sigs_filter is_legacy st legacy l = inl l'.
Proof.
  induction l as [|d l IH]; intro H; cbn [sigs_filter]; [eauto|].
  destruct (H d (or_introl eq_refl)) as [c Hc]. unfold data_of. rewrite Hc.
  destruct IH as [l' ->]; [intros; apply H; now right|].
  destruct (Bool.eqb (is_legacy c) legacy); eauto.
Qed.

(* signatures attached to g before signing, if any, are themselves acceptable *)
Definition prior_ok (m : mem) (st : store) (g : Z) (ods : list (rdesc * Z)) : Prop :=
  forall sig, In sig (m_rds m) -> d_used sig = true -> d_type sig = DataSignature ->
              sat (SLinkedGroup g) sig -> is_legacy (obj_bytes sig st) = false ->
              sok m st (TGroup g ods false) sig.

Theorem sign_group_then_verify s g ods di o now s' :
  Inv s -> 0 < g < 2 ^ 28 ->
  ungrouped_are_signatures (s_mem s) ->
  group_objects (s_mem s) g = inl ods ->
  sign_input hash encode_md seal signer_fp (s_mem s) (f_bytes (s_io s)) (mkGS g ods) = inl di ->
  time_ok o now -> add_fits (s_mem s) di ->
  step sha256 s (OpAdd di o now) = (s', Ok) ->
  prior_ok (s_mem s) (f_bytes (s_io s)) g ods ->
  let m' := s_mem s' in
  let st' := f_bytes (s_io s') in
  new_verifier m' (mkVO [g] [] false false) = inl [TGroup g ods false] /\
  exists rs,
    vfy m' st' strict [TGroup g ods false] = (rs, None) /\
    rs <> [] /\
    (forall vr, In vr rs -> vr_verified vr = map (fun p => d_id (fst p)) ods /\ vr_err vr = None) /\
    (* nothing but one ungrouped signature object linked to g was added *)
    exists i dsig, used_at (m_rds m') i dsig /\ ~ (exists d, used_at (m_rds (s_mem s)) i d) /\
                   d_type dsig = DataSignature /\ group_of_raw (d_group dsig) = 0 /\
                   sat (SLinkedGroup g) dsig /\
                   (forall j d, used_at (m_rds (s_mem s)) j d -> used_at (m_rds m') j d) /\
                   (forall j d, used_at (m_rds m') j d -> j = i \/ used_at (m_rds (s_mem s)) j d) /\
                   In (d_id dsig) (map vr_sig rs).
Proof.
  intros I Hg UG GO SI Tm Fit St Prior m' st'. subst m' st'.
  assert (Hg0 : g <> 0) by lia. assert (Hg' : 0 <= g < 2 ^ 28) by lia.
  destruct I as [W C]. assert (I : Inv s) by (split; assumption).
  destruct (whole_group_signer _ _ _ W GO) as [_ Cov].
  pose proof (sign_input_wf hash encode_md seal signer_fp _ _ _ _ _ Hg' SI) as Wdi.
  destruct (new_signature_accepted hash sha256 sha_len classify is_legacy open_dsse open_pgp parse_md
              has_dsse_keys has_pgp_keys encode_md seal signer_fp parse_encode seal_ok fp_ok
              s g ods di o now s' I Hg Cov SI Tm Fit St)
    as (i & dsig & Ui & Fresh & Dt & Dg & Dl & Dleg & Dk & Old & New & Acc).
  destruct (sign_input_shape hash encode_md seal signer_fp _ _ _ _ _ SI) as (minid & im & _ & _ & Edi).
  assert (Hgdi : group_of_raw (Z.lor (di_group di) group_mask) <> g).
  { subst di. cbn [di_group]. rewrite group_of_raw_lor; lia. }
  destruct (add_elsewhere_keeps_group hash sha256 sha_len open_dsse open_pgp parse_md s di o now s' g
              I Tm Wdi Fit St Hg0 Hgdi) as (Cov' & GO' & _ & _ & Byt & Frame).
  destruct (add_inv sha256 sha_len s di o now s' Ok I Tm Wdi Fit St) as ([W' C'] & _).
  pose proof (GO' _ GO) as GOs.
  (* NewVerifier *)
  assert (NV : new_verifier (s_mem s') (mkVO [g] [] false false) = inl [TGroup g ods false]).
  { unfold new_verifier. cbn [vo_groups vo_objects vo_legacy vo_legacy_all existsb sort_ids insert_sorted].
    destruct (Z.eqb_spec g 0); [contradiction|]. cbn [orb map_err]. rewrite GOs. reflexivity. }
  split; [exact NV|].
  (* the signatures attached to g afterwards *)
  assert (Live' : forall d, In d (m_rds (s_mem s')) -> d_used d = true ->
                            exists c, get_data d (f_bytes (s_io s')) = inl c).
  { intros d Hin Hu. apply In_nth_error in Hin as [j Nj].
    rewrite (get_data_live _ _ j d W' C' (conj Nj Hu)). eauto. }
  assert (LS : exists l, linked_sigs (s_mem s') (SLinkedGroup g) = inl l).
  { unfold linked_sigs. destruct (step_add_plan sha256 _ _ _ _ _ St) as [evs PA].
    destruct (plan_add_shape sha256 _ _ _ _ _ _ PA) as (_ & _ & _ & _ & _ & _ & _ & _ & _ & Hfree & Htot).
    rewrite Hfree, Htot.
    destruct (Z.eqb_spec (h_free (m_hdr (s_mem s)) - 1) (h_total (m_hdr (s_mem s)))) as [E|_];
      [exfalso; exact (free_lt_total_after _ W E)|].
    rewrite (collect_never_errs _ _ (linked_sel_never_errs g Hg0)). eauto. }
  destruct LS as [l LS]. pose proof (linked_sigs_spec _ _ _ LS) as LSpec.
  destruct (sigs_filter_total (f_bytes (s_io s')) false l) as [l' SF].
  { intros d Hd. apply LSpec in Hd as (Hin & Hu & _). now apply Live'. }
  assert (Hdsig_l : In dsig l).
  { apply LSpec. destruct Ui as [Ni Uu]. split; [eapply nth_error_In; eauto|]. auto. }
  assert (Hdsig_l' : In dsig l').
  { destruct Ui as [Ni Uu]. eapply sigs_filter_complete; [exact SF | exact Hdsig_l | |].
    - apply (get_data_live _ _ i dsig W' C' (conj Ni Uu)).
    - rewrite <- (obj_bytes_live _ _ i dsig W' C' (conj Ni Uu)). exact Dleg. }
  assert (GS : group_signatures is_legacy (s_mem s') (f_bytes (s_io s')) g false = inl l').
  { unfold group_signatures. rewrite LS, SF. destruct l'; [contradiction | reflexivity]. }
  (* every one of them is acceptable *)
  assert (AllOk : Forall (sok (s_mem s') (f_bytes (s_io s')) (TGroup g ods false)) l').
  { apply Forall_forall. intros sig Hs.
    destruct (sigs_filter_in _ _ _ _ _ _ SF Hs) as [Hl (c & GD & HL)].
    apply LSpec in Hl as (Hin & Hu & Ht & Hsat).
    apply In_nth_error in Hin as [j Nj]. destruct (New j sig (conj Nj Hu)) as [->|Uold].
    - (* the new signature *)
      destruct Ui as [Ni _]. rewrite Ni in Nj. injection Nj as <-.
      split; [exact Dk|]. unfold sig_result. cbn [verify_sig].
      rewrite (Acc ods false (fun p H => H)); [reflexivity|].
      intros _ p Hp. exists p. auto.
    - (* an earlier one: same verdict as before *)
      destruct (Byt j sig Uold) as (_ & _ & OBs).
      assert (Leg : is_legacy (obj_bytes sig (f_bytes (s_io s))) = false).
      { rewrite <- OBs. destruct Uold as [Nold Uo]. destruct (Old j sig (conj Nold Uo)) as [Nj' _].
        rewrite (obj_bytes_live _ _ j sig W' C' (conj Nj' Hu)).
        rewrite (get_data_live _ _ j sig W' C' (conj Nj' Hu)) in GD. injection GD as <-. exact HL. }
      destruct Uold as [Nold Uo].
      destruct (Prior sig (nth_error_In _ _ Nold) Uo Ht Hsat Leg) as [Pk Pe].
      split; [now rewrite OBs|]. unfold sig_result in *. cbn [verify_sig] in *.
      rewrite OBs. rewrite (Frame j sig ods false _ (conj Nold Uo) Cov). exact Pe. }
  exists (map (sres (s_mem s') (f_bytes (s_io s')) (TGroup g ods false)) l').
  (* Verify *)
  assert (NG : exists ng, get_descriptors (s_mem s') [SNoGroup] = inl ng /\
                          forallb (fun p => d_type (fst p) =? DataSignature) ng = true).
  { unfold get_descriptors. destruct (step_add_plan sha256 _ _ _ _ _ St) as [evs PA].
    destruct (plan_add_shape sha256 _ _ _ _ _ _ PA) as (_ & _ & _ & _ & _ & _ & _ & _ & _ & Hfree & Htot).
    rewrite Hfree, Htot.
    destruct (Z.eqb_spec (h_free (m_hdr (s_mem s)) - 1) (h_total (m_hdr (s_mem s)))) as [E|_];
      [exfalso; exact (free_lt_total_after _ W E)|].
    rewrite (collect_never_errs _ _ nogroup_sel_never_errs). eexists. split; [reflexivity|].
    apply forallb_forall. intros p Hp. apply in_map_iff in Hp as (d & <- & Hd). cbn [fst].
    unfold matching in Hd. apply filter_In in Hd as [Hin Hm]. apply andb_true_iff in Hm as [Hu Hm].
    apply is_match_multi in Hm. inversion Hm as [|? ? S0 _]; subst. apply sat_SNoGroup in S0.
    apply Z.eqb_eq. apply In_nth_error in Hin as [j Nj]. destruct (New j d (conj Nj Hu)) as [->|[Nold Uo]].
    - destruct Ui as [Ni _]. rewrite Ni in Nj. now injection Nj as <-.
    - apply UG; auto. eapply nth_error_In; eauto. }
  destruct NG as (ng & NG1 & NG2).
  split.
  { unfold verify. rewrite NG1, NG2. cbn [negb verify_tasks task_signatures]. rewrite GS.
    rewrite (verify_sigs_all_ok _ _ _ _ [] AllOk). reflexivity. }
  split.
  { destruct l'; [contradiction | discriminate]. }
  split.
  { intros vr Hvr. apply in_map_iff in Hvr as (sig & <- & Hs).
    rewrite Forall_forall in AllOk. destruct (AllOk sig Hs) as [_ He].
    unfold sig_result in *. cbn [verify_sig] in *.
    destruct (verify_group_sig_sound _ _ _ _ _ _ _ _ _ _ _ He) as (o' & im' & minid' & _ & ->).
    split; reflexivity. }
  exists i, dsig. split; [exact Ui|]. split; [exact Fresh|]. split; [exact Dt|]. split; [exact Dg|].
  split; [exact Dl|]. split; [exact Old|]. split; [exact New|].
  rewrite map_map. apply in_map_iff. exists dsig. split; [|exact Hdsig_l'].
  unfold sig_result. cbn [verify_sig]. rewrite (Acc ods false (fun p H => H)); [reflexivity|].
  intros _ p Hp. exists p. auto.
Qed.

End Complete.

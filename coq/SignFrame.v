(* SignFrame.v — what adding an object (in particular a signature object)
   leaves alone: the members, relative IDs and minimum ID of every other
   group, the protected header fields, and the content of every live object —
   hence the verdict on every signature already attached to another group. *)
From Coq Require Import List ZArith Lia Bool.
From Coq.Init Require Import Byte.
From Sif Require Import Bytes BytesFacts Store StoreFacts Format FormatFacts Image ImageFacts Machine
     SelectFacts Inv InvCommon InvAdd LoadFacts Integrity IntegFacts.
Import ListNotations.
Local Open Scope Z_scope.

(* ---------- lists with one slot replaced ---------- *)

Lemma set_nth_split {A} i (x slot : A) l :
  nth_error l i = Some slot ->
  l = firstn i l ++ slot :: skipn (S i) l /\ set_nth i x l = firstn i l ++ x :: skipn (S i) l.
Proof.
  revert i. induction l as [|y l IH]; intros [|i] H; cbn in H; try discriminate.
  - injection H as ->. cbn. auto.
  - destruct (IH i H) as [E1 E2]. cbn [firstn skipn set_nth app]. split; f_equal; assumption.
Qed.

Lemma matching_app f a b : matching f (a ++ b) = matching f a ++ matching f b.
Proof. unfold matching. apply filter_app. Qed.

(* replacing an unused slot: the matches are the old ones, with the new
   descriptor inserted at its table position if it matches *)
Lemma matching_set_nth f i d slot rds :
  nth_error rds i = Some slot -> d_used slot = false ->
  matching f rds = matching f (firstn i rds) ++ matching f (skipn (S i) rds) /\
  matching f (set_nth i d rds) =
    matching f (firstn i rds) ++ (if d_used d && is_match (f d) then [d] else []) ++ matching f (skipn (S i) rds).
Proof.
  intros N U. destruct (set_nth_split i d slot rds N) as [E1 E2]. split.
  - rewrite E1 at 1. rewrite matching_app. f_equal. unfold matching. cbn [filter]. now rewrite U.
  - rewrite E2, matching_app. f_equal. unfold matching at 1. cbn [filter].
    destruct (d_used d && is_match (f d)); reflexivity.
Qed.

Lemma matching_set_nth_nomatch f i d slot rds :
  nth_error rds i = Some slot -> d_used slot = false -> d_used d && is_match (f d) = false ->
  matching f (set_nth i d rds) = matching f rds.
Proof.
  intros N U M. destruct (matching_set_nth f i d slot rds N U) as [E1 E2]. rewrite E2, E1, M. reflexivity.
Qed.

Lemma live_set_nth i d slot rds :
  nth_error rds i = Some slot -> d_used slot = false -> d_used d = true ->
  filter d_used rds = filter d_used (firstn i rds) ++ filter d_used (skipn (S i) rds) /\
  filter d_used (set_nth i d rds) = filter d_used (firstn i rds) ++ d :: filter d_used (skipn (S i) rds).
Proof.
  intros N U Ud. destruct (set_nth_split i d slot rds N) as [E1 E2]. split.
  - rewrite E1 at 1. rewrite filter_app. cbn [filter]. now rewrite U.
  - rewrite E2, filter_app. cbn [filter]. now rewrite Ud.
Qed.

(* ---------- selectors that never fail ---------- *)

Lemma collect_never_errs f rds :
  (forall d, is_err (f d) = false) -> collect f rds = inl (matching f rds).
Proof.
  intro H. destruct (collect_total f rds) as [l Hl]; [intros; apply H|].
  rewrite Hl. f_equal. now apply collect_ok.
Qed.

Lemma group_sel_never_errs g : g <> 0 -> forall d, is_err (multi_eval [SGroup g] d) = false.
Proof.
  intros Hg d. cbn [multi_eval sel_eval]. destruct (Z.eqb_spec g 0); [contradiction|].
  destruct (group_of_raw (d_group d) =? g); reflexivity.
Qed.

Lemma nogroup_sel_never_errs d : is_err (multi_eval [SNoGroup] d) = false.
Proof. cbn [multi_eval sel_eval]. destruct (group_of_raw (d_group d) =? 0); reflexivity. Qed.

Lemma linked_sel_never_errs g : g <> 0 -> forall d, is_err (multi_eval [SType DataSignature; SLinkedGroup g] d) = false.
Proof.
  intros Hg d. cbn [multi_eval sel_eval]. destruct (d_type d =? DataSignature); [|reflexivity].
  destruct (Z.eqb_spec g 0); [contradiction|].
  destruct (raw_is_group (d_link d) && (group_of_raw (d_link d) =? g)); reflexivity.
Qed.

(* ---------- minimum IDs ---------- *)

Lemma minid_lookup_note_other key id g mi :
  key <> g -> minid_lookup g (minid_note key id mi) = minid_lookup g mi.
Proof.
  intro Hne. unfold minid_note. destruct (minid_lookup key mi) as [v|].
  - destruct (id <? v); [|reflexivity]. rewrite minid_lookup_set.
    destruct (Z.eqb_spec key g); [contradiction | reflexivity].
  - rewrite minid_lookup_set. destruct (Z.eqb_spec key g); [contradiction | reflexivity].
Qed.

Lemma relative_id_note_other key id mi d :
  d_group d <> key -> relative_id (minid_note key id mi) d = relative_id mi d.
Proof. intro H. unfold relative_id. rewrite minid_lookup_note_other; [reflexivity | congruence]. Qed.

Definition gmin_step (g : Z) (acc : option Z) (d : rdesc) : option Z :=
  if group_of_raw (d_group d) =? g then
    match acc with Some v => Some (Z.min v (d_id d)) | None => Some (d_id d) end
  else acc.

Lemma group_min_id_unfold m g : group_min_id m g = fold_left (gmin_step g) (filter d_used (m_rds m)) None.
Proof. reflexivity. Qed.

Lemma group_min_id_set_nth g i d slot rds h h' mi mi' :
  nth_error rds i = Some slot -> d_used slot = false -> d_used d = true ->
  group_of_raw (d_group d) <> g ->
  group_min_id (mkM h' (set_nth i d rds) mi') g = group_min_id (mkM h rds mi) g.
Proof.
  intros N U Ud Hg. rewrite !group_min_id_unfold. cbn [m_rds].
  destruct (live_set_nth i d slot rds N U Ud) as [E1 E2]. rewrite E1, E2, !fold_left_app.
  cbn [fold_left].
  assert (S : forall acc, gmin_step g acc d = acc).
  { intro acc. unfold gmin_step. destruct (Z.eqb_spec (group_of_raw (d_group d)) g); [contradiction | reflexivity]. }
  now rewrite S.
Qed.

(* ---------- the verdict on a signature depends on few observables ---------- *)

Section Ext.

Variable hash : halg -> list byte -> list byte.
Variable open_dsse : Z -> list byte -> option (list byte * list Z).
Variable open_pgp : list byte -> option (list byte * list byte).
Variable parse_md : list byte -> option imd.

Lemma objects_match_ext st st' signed ods :
  Forall (fun p => section_bytes (fst p) st = section_bytes (fst p) st') ods ->
  objects_match hash st signed ods = objects_match hash st' signed ods.
Proof.
  induction 1 as [|[d rel] ods Hd _ IH]; cbn [objects_match]; [reflexivity|].
  cbn [fst] in Hd. rewrite Hd, IH. reflexivity.
Qed.

Lemma verify_group_sig_ext m st m' st' g ods sub sig kind :
  header_stream (m_hdr m) = header_stream (m_hdr m') ->
  group_min_id m g = group_min_id m' g ->
  obj_bytes sig st = obj_bytes sig st' ->
  Forall (fun p => section_bytes (fst p) st = section_bytes (fst p) st') ods ->
  verify_group_sig hash open_dsse open_pgp parse_md m st g ods sub sig kind =
  verify_group_sig hash open_dsse open_pgp parse_md m' st' g ods sub sig kind.
Proof.
  intros Hh Hm Ho Hs. unfold verify_group_sig. rewrite <- Hh, <- Hm, <- Ho.
  destruct (sig_meta sig) as [[ht fp]|]; [|reflexivity].
  destruct (open_sig open_dsse open_pgp kind ht (obj_bytes sig st)) as [o|]; [|reflexivity].
  destruct (parse_md (op_payload o)) as [im|]; [|reflexivity].
  destruct (group_min_id m g) as [minid|]; [|reflexivity].
  now rewrite (objects_match_ext _ _ _ _ Hs).
Qed.

End Ext.

(* ---------- contents of live objects ---------- *)

Lemma section_bytes_live m st i d :
  wf_mem m -> coherent m st -> used_at (m_rds m) i d ->
  section_bytes d st = inl (nread (Z.to_nat (d_off d)) (Z.to_nat (d_size d)) st).
Proof.
  intros W C U. unfold section_bytes.
  destruct (wf_layout _ W i d U) as (L1 & L2 & L3).
  pose proof (wf_dataoff _ W). pose proof (wf_descoff _ W). pose proof (wf_descsize _ W). pose proof (wf_total _ W).
  destruct (Z.ltb_spec (d_size d) 0); [lia|].
  destruct (Z.eqb_spec (d_size d) 0) as [Hz|Hnz].
  - replace (Z.to_nat (d_size d)) with O by lia. now rewrite nread_zero.
  - assert (Hp : 0 < d_size d) by lia.
    destruct (Z.ltb_spec (d_off d) 0); [lia|].
    pose proof (coh_infile _ _ C i d U Hp) as I.
    destruct (Z.leb_spec (Z.of_nat (length st)) (d_off d)); [lia|].
    rewrite Z.min_l by lia. reflexivity.
Qed.

Lemma obj_bytes_live m st i d :
  wf_mem m -> coherent m st -> used_at (m_rds m) i d ->
  obj_bytes d st = nread (Z.to_nat (d_off d)) (Z.to_nat (d_size d)) st.
Proof. intros W C U. unfold obj_bytes. now rewrite (section_bytes_live m st i d W C U). Qed.

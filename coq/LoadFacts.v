(* LoadFacts.v — what LoadContainer refuses, and reading data back. *)
From Coq Require Import List ZArith Lia Bool.
From Coq.Init Require Import Byte.
From Sif Require Import Bytes BytesFacts Store StoreFacts Format FormatFacts Image ImageFacts
     Machine Inv InvCommon.
Import ListNotations.
Local Open Scope Z_scope.

Lemma dec_header_magic bs : h_magic (dec_header bs) = firstn 10 (skipn 32 bs).
Proof. reflexivity. Qed.

Lemma dec_header_version bs : h_version (dec_header bs) = firstn 3 (skipn 10 (skipn 32 bs)).
Proof. reflexivity. Qed.

Lemma skipn_skipn {A} (a b : nat) (l : list A) : skipn a (skipn b l) = skipn (b + a) l.
Proof.
  revert l; induction b as [|b IH]; intro l; [reflexivity|].
  destruct l as [|x l]; [now destruct a | apply IH].
Qed.

(* a file whose magic or version bytes differ from SIF v1 is refused *)
Theorem load_refuses_magic st :
  (128 <= length st)%nat -> nread 32 10 st <> magic -> load_image st = inr EInvalidMagic.
Proof.
  intros L H. unfold load_image. destruct (Nat.ltb_spec (length st) 128); [lia|].
  rewrite dec_header_magic.
  replace (firstn 10 (skipn 32 (nread 0 128 st))) with (nread 32 10 st)
    by (symmetry; apply (nread_nread 0 128 st 32 10); lia).
  destruct (bytes_eqb (nread 32 10 st) magic) eqn:E; [apply bytes_eqb_eq in E; contradiction | reflexivity].
Qed.

Theorem load_refuses_version st :
  (128 <= length st)%nat -> nread 32 10 st = magic -> nread 42 3 st <> version_bytes ->
  load_image st = inr EBadVersion.
Proof.
  intros L Hm H. unfold load_image. destruct (Nat.ltb_spec (length st) 128); [lia|].
  rewrite dec_header_magic, dec_header_version.
  replace (firstn 10 (skipn 32 (nread 0 128 st))) with (nread 32 10 st)
    by (symmetry; apply (nread_nread 0 128 st 32 10); lia).
  rewrite skipn_skipn.
  replace (firstn 3 (skipn (32 + 10) (nread 0 128 st))) with (nread 42 3 st)
    by (symmetry; apply (nread_nread 0 128 st 42 3); lia).
  rewrite Hm, bytes_eqb_refl. cbn [negb].
  destruct (bytes_eqb (nread 42 3 st) version_bytes) eqn:E; [apply bytes_eqb_eq in E; contradiction | reflexivity].
Qed.

Theorem load_refuses_short st : (length st < 128)%nat -> load_image st = inr EShortHeader.
Proof.
  intro L. unfold load_image. destruct (Nat.ltb_spec (length st) 128); [reflexivity | lia].
Qed.

(* GetData of a live object of a coherent image returns exactly its region *)
Theorem get_data_live m st i d :
  wf_mem m -> coherent m st -> used_at (m_rds m) i d ->
  get_data d st = inl (nread (Z.to_nat (d_off d)) (Z.to_nat (d_size d)) st).
Proof.
  intros W C U. unfold get_data.
  destruct (wf_layout _ W i d U) as (L1 & L2 & L3).
  pose proof (wf_dataoff _ W). pose proof (wf_descoff _ W). pose proof (wf_descsize _ W).
  pose proof (wf_total _ W).
  destruct (Z.ltb_spec (d_size d) 0); [lia|].
  destruct (Z.eqb_spec (d_size d) 0) as [E|E].
  - rewrite E. reflexivity.
  - destruct (Z.ltb_spec (d_off d) 0); [lia|].
    pose proof (coh_infile _ _ C i d U) as I. unfold zread.
    destruct (Z.ltb_spec (d_off d) 0); [lia|]. destruct (Z.ltb_spec (d_size d) 0); [lia|]. cbn [orb].
    destruct (Z.ltb_spec (Z.of_nat (length st)) (d_off d + d_size d)); [lia | reflexivity].
Qed.

(* InvCreate.v — CreateContainer establishes the invariant, and every object
   given at creation is stored exactly (descriptor fields and content). *)
From Coq Require Import List ZArith Lia Bool.
From Coq.Init Require Import Byte.
From Sif Require Import Bytes BytesFacts Store StoreFacts Format FormatFacts Image ImageFacts
     SelectFacts AlignFacts Machine Inv InvCommon InvSet InvAdd.
Import ListNotations.
Local Open Scope Z_scope.

(* ---------- data_end after filling a free slot ---------- *)

Lemma fold_end_max rds e x :
  fold_left (fun e d => if d_used d then Z.max e (d_off d + d_size d) else e) rds (Z.max e x) =
  Z.max (fold_left (fun e d => if d_used d then Z.max e (d_off d + d_size d) else e) rds e) x.
Proof.
  revert e; induction rds as [|d r IH]; intro e; cbn [fold_left]; [reflexivity|].
  destruct (d_used d); [|apply IH].
  replace (Z.max (Z.max e x) (d_off d + d_size d)) with (Z.max (Z.max e (d_off d + d_size d)) x) by lia.
  apply IH.
Qed.

Lemma data_end_set_nth h rds i slot d :
  nth_error rds i = Some slot -> d_used slot = false -> d_used d = true ->
  data_end h (set_nth i d rds) = Z.max (data_end h rds) (d_off d + d_size d).
Proof.
  unfold data_end. generalize (h_dataoff h). revert i.
  induction rds as [|x r IH]; intros [|i] e N Us Ud; cbn in N; try discriminate.
  - inversion N; subst x. cbn [set_nth fold_left]. rewrite Us, Ud. apply fold_end_max.
  - cbn [set_nth fold_left]. apply IH; auto.
Qed.

(* ---------- the table while it is being filled in order ---------- *)

Definition filled (i : nat) (rds : list rdesc) : Prop :=
  forall j d, nth_error rds j = Some d ->
              if Nat.ltb j i then d_used d = true else d = zero_desc.

Lemma filled_first_unused i rds : filled i rds -> (i <= length rds)%nat -> first_unused rds = i.
Proof.
  revert i; induction rds as [|x r IH]; intros i F L.
  - cbn in *. lia.
  - cbn [first_unused]. pose proof (F O x eq_refl) as F0. destruct i as [|i].
    + cbn in F0. subst x. reflexivity.
    + cbn in F0. rewrite F0. f_equal. apply IH; [|cbn in L; lia].
      intros j d N. specialize (F (S j) d N). exact F.
Qed.

Lemma filled_set_nth i rds d :
  filled i rds -> (i < length rds)%nat -> d_used d = true -> filled (S i) (set_nth i d rds).
Proof.
  intros F L U j x N. rewrite nth_error_set_nth in N.
  destruct (Nat.eqb_spec i j) as [->|Nj].
  - apply Nat.ltb_lt in L. rewrite L in N. inversion N; subst.
    destruct (Nat.ltb_spec j (S j)); [exact U | lia].
  - specialize (F j x N). destruct (Nat.ltb_spec j i), (Nat.ltb_spec j (S i)); auto; lia.
Qed.

Lemma filled_repeat n : filled 0 (repeat zero_desc n).
Proof.
  intros j d N. cbn. apply nth_error_In in N. now apply repeat_spec in N.
Qed.

(* ---------- what "object di is stored as descriptor d" means ---------- *)

Section WithDigest.
Variable sha256 : list byte -> list byte.
Variable sha_len : forall c, length (sha256 c) = 32%nat.

Definition obj_time (di : dinput) (t : Z) : Z :=
  match di_time di with Some z => if z =? zero_time then t else z | None => t end.

(* every attribute of the descriptor and the content, as given *)
Record stored (di : dinput) (t : Z) (old_extra : list byte) (d : rdesc) (st : store) : Prop := {
  sto_type : d_type d = di_type di;
  sto_used : d_used d = true;
  sto_group : d_group d = Z.lor (di_group di) group_mask;
  sto_link : d_link d = link_raw (di_link di);
  sto_size : d_size d = Z.of_nat (length (di_content di));
  sto_times : d_ctime d = obj_time di t /\ d_mtime d = obj_time di t;
  sto_ids : d_uid d = 0 /\ d_gid d = 0;
  sto_name : d_name d = pad_to 128 (di_name di);
  sto_extra : new_extra sha256 old_extra (di_md di) (di_content di) = inl (d_extra d);
  sto_content : nread (Z.to_nat (d_off d)) (length (di_content di)) st = di_content di;
  sto_aligned : 0 < di_align di -> d_off d mod di_align di = 0 }.

Definition need (di : dinput) : Z := Z.max 0 (di_align di) + Z.of_nat (length (di_content di)).
Definition sum_need (dis : list dinput) : Z := fold_right (fun di acc => need di + acc) 0 dis.

Definition objs_in_file (m : mem) (st : store) : Prop :=
  forall i d, used_at (m_rds m) i d -> 0 < d_size d -> d_off d + d_size d <= Z.of_nat (length st).

Lemma data_end_bound m :
  wf_mem m -> 0 <= data_end (m_hdr m) (m_rds m) <= h_dataoff (m_hdr m) + h_datasize (m_hdr m).
Proof.
  intro W. pose proof (data_end_ge (m_hdr m) (m_rds m)).
  pose proof (wf_dataoff _ W). pose proof (wf_descoff _ W). pose proof (wf_descsize _ W).
  pose proof (wf_total _ W). pose proof (wf_datasize _ W). split; [lia|].
  apply data_end_upper; [lia|]. intros x Hin Hu. apply In_nth_error in Hin as [j Hj].
  apply (wf_layout _ W j x (conj Hj Hu)).
Qed.

(* one accepted object, on storage that need not hold header or table yet *)
Lemma write_object_store b i di t m m1 evs io :
  wf_mem m -> i = first_unused (m_rds m) -> wf_dinput di -> add_fits m di -> in_i64 t ->
  objs_in_file m (f_bytes io) ->
  plan_write_object sha256 i di t m = (m1, Ok, evs) ->
  exists slot d io1,
    nth_error (m_rds m) i = Some slot /\
    run_events b evs io = (io1, true) /\
    m_rds m1 = set_nth i d (m_rds m) /\ d_id d = Z.of_nat i + 1 /\
    stored di t (d_extra slot) d (f_bytes io1) /\
    h_dataoff (m_hdr m) <= data_end (m_hdr m) (m_rds m) <= d_off d /\
    data_end (m_hdr m1) (m_rds m1) = d_off d + d_size d /\
    d_off d + d_size d <= data_end (m_hdr m) (m_rds m) + need di /\
    objs_in_file m1 (f_bytes io1) /\
    (length (f_bytes io) <= length (f_bytes io1))%nat /\
    (forall a n, (a + n <= length (f_bytes io))%nat ->
                 Z.of_nat (a + n) <= data_end (m_hdr m) (m_rds m) ->
                 nread a n (f_bytes io1) = nread a n (f_bytes io)).
Proof.
  intros W Hi Wd Fit Lt OF P.
  pose proof (write_object_shape sha256 _ _ _ _ _ _ _ P) as Sh. cbv zeta in Sh.
  destruct Sh as (slot & off & extra & N & Hmax & A & Fl & Ln & X & Ev & M1).
  set (unaligned := data_end (m_hdr m) (m_rds m)) in *.
  set (d := new_desc i di t unaligned off extra) in *.
  destruct (data_end_bound m W) as [U0 U1]. fold unaligned in U0, U1.
  pose proof (wf_bound _ W) as Wb.
  assert (Urange : 0 <= unaligned <= max_i64) by (unfold max_i64; lia).
  destruct (next_aligned_some _ _ _ Urange A) as (Of1 & Of2 & Of3 & Of4).
  set (st := f_bytes io) in *.
  set (st1 := bwrite BFile (Z.to_nat off) (di_content di) st).
  destruct (run_write_if_nonempty b (Z.to_nat off) (di_content di) io) as [p Run].
  fold st st1 in Run. rewrite <- Ev in Run.
  assert (Slot_unused : d_used slot = false).
  { subst i. destruct (first_unused_spec (m_rds m)) as [_ F2]. now apply F2. }
  assert (Ilt : (i < length (m_rds m))%nat) by (apply nth_error_Some; congruence).
  assert (Fr : forall a n, (a + n <= length st)%nat -> Z.of_nat (a + n) <= unaligned ->
                           nread a n st1 = nread a n st).
  { intros a n Hin Hle. unfold st1. apply bwrite_frame; [exact Hin|]. left. lia. }
  assert (Lg : (length st <= length st1)%nat) by apply length_bwrite_ge.
  exists slot, d, (mkF st1 p). cbn [f_bytes].
  split; [exact N|]. split; [exact Run|]. split; [rewrite M1; reflexivity|]. split; [reflexivity|].
  split.
  { constructor; try reflexivity.
    - split; reflexivity.
    - split; reflexivity.
    - exact X.
    - unfold d, new_desc. cbn [d_off]. unfold st1.
      destruct (di_content di) eqn:Ec; [reflexivity|]. rewrite <- Ec. apply bwrite_read_same.
    - intro Pa. unfold d, new_desc. cbn [d_off]. apply (Of4 Pa). }
  split; [split; [apply data_end_ge | exact Of1]|].
  split.
  { rewrite M1. cbn [m_hdr m_rds]. unfold data_end at 1. cbn [h_dataoff].
    fold (data_end (m_hdr m) (set_nth i d (m_rds m))).
    rewrite (data_end_set_nth _ _ _ slot d N Slot_unused eq_refl). fold unaligned.
    unfold d, new_desc. cbn [d_off d_size]. lia. }
  split.
  { unfold d, new_desc, need. cbn [d_off d_size].
    destruct (Z_lt_le_dec 0 (di_align di)) as [Pa|Pa]; [destruct (Of4 Pa); lia | rewrite (Of3 Pa); lia]. }
  split.
  { intros j x [Hn Hu] S. rewrite M1 in Hn. cbn [m_rds] in Hn. rewrite nth_error_set_nth in Hn.
    destruct (Nat.eqb_spec i j) as [->|Nj].
    - assert (Il : Nat.ltb j (length (m_rds m)) = true) by (apply Nat.ltb_lt; exact Ilt).
      rewrite Il in Hn. inversion Hn; subst x. unfold d, new_desc in *. cbn [d_off d_size] in *.
      assert ((Z.to_nat off + length (di_content di) <= length st1)%nat).
      { unfold st1. apply length_bwrite_end. intro E0. rewrite E0 in S. simpl in S. lia. }
      lia.
    - pose proof (OF j x (conj Hn Hu) S). lia. }
  split; [exact Lg | exact Fr].
Qed.

(* descriptors and contents stored earlier survive anything that leaves
   the object's own region alone *)
Lemma stored_frame di t oe d (st st1 : store) :
  stored di t oe d st ->
  nread (Z.to_nat (d_off d)) (length (di_content di)) st1 =
  nread (Z.to_nat (d_off d)) (length (di_content di)) st ->
  stored di t oe d st1.
Proof. intros S E. destruct S. constructor; auto. congruence. Qed.

Lemma stored_oci di t oe d (st : store) :
  stored di t oe d st -> di_md di = MdOCI ->
  d_extra d = pad_to 384 (sha256_prefix ++ hex_of (sha256 (di_content di))) /\
  nread (Z.to_nat (d_off d)) (length (di_content di)) st = di_content di.
Proof.
  intros S E. pose proof (sto_extra _ _ _ _ _ S) as X. rewrite E in X. cbn in X.
  inversion X. split; [reflexivity | apply (sto_content _ _ _ _ _ S)].
Qed.

Lemma nread_len0 (a : nat) (st st1 : store) : nread a 0 st1 = nread a 0 st.
Proof. reflexivity. Qed.

Lemma sum_need_nonneg dis : 0 <= sum_need dis.
Proof.
  induction dis as [|di r IH]; [cbn; lia|].
  unfold sum_need in *. cbn [fold_right].
  assert (0 <= need di) by (unfold need; lia). lia.
Qed.

(* the loop of createContainer *)
Lemma create_objects_ok b dis : forall i t m evs0 io0 io m' evs',
  wf_mem m -> filled i (m_rds m) -> (i <= length (m_rds m))%nat ->
  Forall wf_dinput dis ->
  data_end (m_hdr m) (m_rds m) + sum_need dis <= 2 ^ 62 -> in_i64 t ->
  run_events b evs0 io0 = (io, true) -> objs_in_file m (f_bytes io) ->
  create_objects sha256 dis i t m evs0 = (m', Ok, evs') ->
  wf_mem m' /\ filled (i + length dis) (m_rds m') /\ (i + length dis <= length (m_rds m'))%nat /\
  h_mtime (m_hdr m') = h_mtime (m_hdr m) /\
  exists io', run_events b evs' io0 = (io', true) /\ objs_in_file m' (f_bytes io') /\
    (length (f_bytes io) <= length (f_bytes io'))%nat /\
    (forall a n, (a + n <= length (f_bytes io))%nat ->
                 Z.of_nat (a + n) <= data_end (m_hdr m) (m_rds m) ->
                 nread a n (f_bytes io') = nread a n (f_bytes io)) /\
    (forall j x, (j < i)%nat -> nth_error (m_rds m) j = Some x -> nth_error (m_rds m') j = Some x) /\
    (forall k di, nth_error dis k = Some di ->
       exists d, nth_error (m_rds m') (i + k) = Some d /\ d_id d = Z.of_nat (i + k) + 1 /\
                 stored di t (zeros 384) d (f_bytes io')).
Proof.
  induction dis as [|di dis IH]; intros i t m evs0 io0 io m' evs' W F Li Wd Fit Lt Run OF C.
  - cbn in C. inversion C; subst m' evs'. rewrite Nat.add_0_r.
    split; [exact W|]. split; [exact F|]. split; [exact Li|]. split; [reflexivity|].
    exists io. split; [exact Run|]. split; [exact OF|]. split; [lia|].
    split; [intros; reflexivity|]. split; [auto|]. intros [|k] x H; discriminate.
  - cbn [create_objects] in C.
    destruct (plan_write_object sha256 i di t m) as [[m1 r1] e1] eqn:P.
    destruct r1 as [|e]; [|discriminate].
    inversion Wd as [|? ? Wdi Wds]; subst.
    cbn [sum_need fold_right] in Fit. fold (sum_need dis) in Fit.
    pose proof (sum_need_nonneg dis) as Sn.
    assert (Hi : i = first_unused (m_rds m)) by (symmetry; now apply filled_first_unused).
    assert (Fit1 : add_fits m di) by (unfold add_fits; unfold need in Fit; lia).
    destruct (write_object_wf sha256 sha_len i di t m m1 e1 W Hi Wdi Fit1 Lt P) as [W1 Mt1].
    destruct (write_object_store b i di t m m1 e1 io W Hi Wdi Fit1 Lt OF P)
      as (slot & d & io1 & N & Run1 & R1 & Did & St & (De0 & De1) & De2 & De3 & OF1 & Lg1 & Fr1).
    assert (Ilt : (i < length (m_rds m))%nat) by (apply nth_error_Some; congruence).
    pose proof (sto_size _ _ _ _ _ St) as Sz0.
    assert (Slot0 : slot = zero_desc).
    { pose proof (F i slot N) as Fi. destruct (Nat.ltb_spec i i); [lia | exact Fi]. }
    assert (F1 : filled (S i) (m_rds m1)).
    { rewrite R1. apply filled_set_nth; auto. apply (sto_used _ _ _ _ _ St). }
    assert (L1 : (S i <= length (m_rds m1))%nat) by (rewrite R1, length_set_nth; lia).
    assert (Run01 : run_events b (evs0 ++ e1) io0 = (io1, true)).
    { rewrite run_events_app, Run. exact Run1. }
    assert (Fit2 : data_end (m_hdr m1) (m_rds m1) + sum_need dis <= 2 ^ 62) by lia.
    destruct (IH (S i) t m1 (evs0 ++ e1) io0 io1 m' evs' W1 F1 L1 Wds Fit2 Lt Run01 OF1 C)
      as (W' & F' & L' & Mt' & io' & Run' & OF' & Lg' & Fr' & Keep' & Sto').
    split; [exact W'|].
    split; [replace (i + length (di :: dis))%nat with (S i + length dis)%nat by (cbn; lia); exact F'|].
    split; [cbn [length]; lia|]. split; [congruence|].
    exists io'. split; [exact Run'|]. split; [exact OF'|]. split; [lia|]. split; [|split].
    + intros a n Hin Hle. rewrite Fr'; [apply Fr1; assumption | lia | lia].
    + intros j x Hj Hn. apply Keep'; [lia|]. rewrite R1, nth_error_set_nth_neq; [exact Hn | lia].
    + intros [|k] dk Hk; cbn in Hk.
      * inversion Hk; subst dk. rewrite Nat.add_0_r.
        assert (Nd : nth_error (m_rds m1) i = Some d) by (rewrite R1; now apply nth_error_set_nth_eq).
        exists d. split; [apply Keep'; [lia | exact Nd]|]. split; [exact Did|].
        rewrite Slot0 in St. cbn [d_extra zero_desc] in St.
        assert (Od : 0 <= d_off d).
        { pose proof (wf_dataoff _ W). pose proof (wf_descoff _ W). pose proof (wf_descsize _ W).
          pose proof (wf_total _ W). lia. }
        apply (stored_frame di t (zeros 384) d (f_bytes io1) (f_bytes io') St).
        pose proof (sto_size _ _ _ _ _ St) as Sz.
        destruct (length (di_content di)) as [|n0] eqn:Ln; [reflexivity|].
        assert (S : 0 < d_size d) by lia.
        pose proof (OF1 i d (conj Nd (sto_used _ _ _ _ _ St)) S) as In1.
        apply Fr'; lia.
      * destruct (Sto' k dk Hk) as (dd & Nn & Idd & Sdd).
        exists dd. replace (i + S k)%nat with (S i + k)%nat by lia. auto.
Qed.

(* ---------- CreateContainer ---------- *)

Record wf_copts (co : copts) : Prop := {
  wco_launch : (length (co_launch co) < 32)%nat;
  wco_id : length (co_id co) = 16%nat;
  wco_cap : 0 <= co_cap co < max_u32;
  wco_time : in_i64 (co_time co);
  wco_dis : Forall wf_dinput (co_dis co);
  wco_fits : default_descoff + 585 * co_cap co + sum_need (co_dis co) <= 2 ^ 62 }.

Lemma data_end_fold_zero n e :
  fold_left (fun e d => if d_used d then Z.max e (d_off d + d_size d) else e) (repeat zero_desc n) e = e.
Proof. induction n as [|n IH]; [reflexivity|]. cbn [repeat fold_left d_used zero_desc]. exact IH. Qed.

Lemma wf_new_mem co :
  wf_copts co ->
  let m0 := mkM (new_header co) (repeat zero_desc (Z.to_nat (co_cap co))) [] in
  wf_mem m0 /\ data_end (m_hdr m0) (m_rds m0) = default_descoff + 585 * co_cap co.
Proof.
  intros Wc m0. destruct Wc as [Wl Wi Wcap Wt Wd Wf].
  pose proof (sum_need_nonneg (co_dis co)) as Sn. unfold max_u32, default_descoff in *.
  assert (NoUsed : forall i d, ~ used_at (repeat zero_desc (Z.to_nat (co_cap co))) i d).
  { intros i d [Hn Hu]. apply nth_error_In in Hn. apply repeat_spec in Hn. subst d. discriminate. }
  split.
  - constructor; cbn [m0 m_hdr m_rds m_minids new_header h_launch h_magic h_version h_arch h_id
                       h_ctime h_mtime h_free h_total h_descoff h_descsize h_dataoff h_datasize].
    + unfold wf_header.
      cbn [new_header h_launch h_magic h_version h_arch h_id h_ctime h_mtime h_free h_total
           h_descoff h_descsize h_dataoff h_datasize].
      unfold in_i64 in *. unfold default_descoff.
      repeat split; try reflexivity; try lia. apply length_pad_to. lia.
    + reflexivity.
    + reflexivity.
    + apply Forall_forall. intros x Hx. apply repeat_spec in Hx. subst x. apply wf_zero_desc.
    + rewrite repeat_length. lia.
    + lia.
    + unfold default_descoff. lia.
    + lia.
    + rewrite count_unused_repeat_zero. lia.
    + lia.
    + unfold default_descoff. lia.
    + intros i d U. destruct (NoUsed i d U).
    + intros i d U. destruct (NoUsed i d U).
    + intros i j di dj _ U. destruct (NoUsed i di U).
    + intro g. cbn. intros d Hin Hu. apply repeat_spec in Hin. subst d. discriminate.
    + exact I.
  - unfold data_end. cbn [m0 m_hdr m_rds new_header h_dataoff]. apply data_end_fold_zero.
Qed.

Theorem create_inv b co s r io :
  wf_copts co ->
  create sha256 b co = (Some s, r, io) ->
  r = Ok /\ Inv s /\ s_io s = io /\ s_backend s = b /\
  (* header as given at creation *)
  h_launch (m_hdr (s_mem s)) = pad_to 32 (co_launch co) /\
  h_id (m_hdr (s_mem s)) = co_id co /\
  h_ctime (m_hdr (s_mem s)) = co_time co /\ h_mtime (m_hdr (s_mem s)) = co_time co /\
  h_total (m_hdr (s_mem s)) = co_cap co /\
  (* every object, in insertion order, with ID = position + 1 *)
  (forall k di, nth_error (co_dis co) k = Some di ->
     exists d, nth_error (m_rds (s_mem s)) k = Some d /\ d_id d = Z.of_nat k + 1 /\
               stored di (co_time co) (zeros 384) d (f_bytes (s_io s))).
Proof.
  intros Wc. unfold create, plan_create.
  destruct (Nat.leb_spec 32 (length (co_launch co))) as [L|L]; [pose proof (wco_launch _ Wc); lia|].
  destruct (Z.leb_spec max_u32 (co_cap co)) as [Cc|Cc]; [pose proof (wco_cap _ Wc); lia|].
  set (m0 := mkM (new_header co) (repeat zero_desc (Z.to_nat (co_cap co))) []).
  destruct (wf_new_mem co Wc) as [W0 De0]. fold m0 in W0, De0.
  destruct (create_objects sha256 (co_dis co) 0 (co_time co) m0 []) as [[m1 r1] evs] eqn:C.
  destruct r1 as [|e].
  2:{ destruct (run_events b evs (mkF [] 0)) as [io' [|]]; intro H; inversion H. }
  assert (F0 : filled 0 (m_rds m0)) by apply filled_repeat.
  assert (Fit0 : data_end (m_hdr m0) (m_rds m0) + sum_need (co_dis co) <= 2 ^ 62)
    by (rewrite De0; apply (wco_fits _ Wc)).
  assert (OF0 : objs_in_file m0 (f_bytes (mkF [] 0))).
  { intros i d [Hn Hu]. apply nth_error_In in Hn. apply repeat_spec in Hn. subst d. discriminate. }
  destruct (create_objects_ok b (co_dis co) 0 (co_time co) m0 [] (mkF [] 0) (mkF [] 0) m1 evs
              W0 F0 (Nat.le_0_l _) (wco_dis _ Wc) Fit0 (wco_time _ Wc) eq_refl OF0 C)
    as (W1 & F1 & L1 & Mt1 & io1 & Run1 & OF1 & Lg1 & Fr1 & Keep1 & Sto1).
  assert (Hoff : h_descoff (m_hdr m1) = h_descoff (m_hdr m1)) by reflexivity.
  destruct (run_table_header b (m_hdr m1) (m_hdr m1) (m_rds m1) evs (mkF [] 0) io1 Hoff Run1) as [p E].
  rewrite E. intro H; inversion H; subst s r io; clear H. unfold Inv.
  cbn [s_mem s_io s_backend f_bytes m_hdr m_rds].
  set (st1 := f_bytes io1) in *.
  set (st' := after_table_header b (m_hdr m1) (m_rds m1) st1).
  destruct (after_table_header_spec b (m_hdr m1) (m_rds m1) st1 (wf_h _ W1) (wf_rds _ W1) (wf_descoff _ W1))
    as (S1 & S2 & S3 & S4). fold st' in S1, S2, S3, S4.
  (* the header fields set at creation are not touched by the object loop *)
  assert (Hdr : h_launch (m_hdr m1) = pad_to 32 (co_launch co) /\ h_id (m_hdr m1) = co_id co /\
                h_ctime (m_hdr m1) = co_time co /\ h_total (m_hdr m1) = co_cap co).
  { assert (G : forall dis i ev0 m mm ev1,
              create_objects sha256 dis i (co_time co) m ev0 = (mm, Ok, ev1) ->
              h_launch (m_hdr mm) = h_launch (m_hdr m) /\ h_id (m_hdr mm) = h_id (m_hdr m) /\
              h_ctime (m_hdr mm) = h_ctime (m_hdr m) /\ h_total (m_hdr mm) = h_total (m_hdr m)).
    { clear. induction dis as [|di dis IH]; intros i ev0 m mm ev1 C; cbn in C.
      - inversion C; subst. auto.
      - destruct (plan_write_object sha256 i di (co_time co) m) as [[m2 r2] e2] eqn:P.
        destruct r2; [|discriminate].
        pose proof (write_object_shape sha256 _ _ _ _ _ _ _ P) as Sh. cbv zeta in Sh.
        destruct Sh as (slot & off & extra & _ & _ & _ & _ & _ & _ & _ & M2).
        destruct (IH _ _ _ _ _ C) as (A1 & A2 & A3 & A4). rewrite M2 in A1, A2, A3, A4. cbn in *. auto. }
    apply (G _ _ _ _ _ _ C). }
  destruct Hdr as (H1 & H2 & H3 & H4).
  split; [reflexivity|]. split; [|split; [reflexivity|split; [reflexivity|]]].
  - split; [exact W1|]. constructor; [exact S1 | exact S2 |].
    intros i d U S. pose proof (OF1 i d U S). fold st1 in H. lia.
  - split; [exact H1|]. split; [exact H2|]. split; [exact H3|]. split; [rewrite Mt1; reflexivity|].
    split; [exact H4|].
    intros k di Hk. destruct (Sto1 k di Hk) as (d & Nd & Idd & Sd). cbn [Nat.add] in Nd, Idd.
    exists d. split; [exact Nd|]. split; [exact Idd|].
    assert (U : used_at (m_rds m1) k d) by (split; [exact Nd | apply (sto_used _ _ _ _ _ Sd)]).
    destruct (wf_layout _ W1 k d U) as (Lo & _).
    pose proof (wf_dataoff _ W1). pose proof (wf_descoff _ W1). pose proof (wf_descsize _ W1).
    pose proof (wf_total _ W1).
    apply (stored_frame di (co_time co) (zeros 384) d st1 st' Sd).
    pose proof (sto_size _ _ _ _ _ Sd) as Sz.
    destruct (length (di_content di)) as [|n0] eqn:Ln; [reflexivity|].
    assert (S : 0 < d_size d) by lia.
    pose proof (OF1 k d U S) as In1. fold st1 in In1.
    apply S4; lia.
Qed.

End WithDigest.

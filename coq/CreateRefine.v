(* CreateRefine.v — CreateContainer against the reference model (C02): the
   abstract image a successful creation yields is determined by the options
   alone - header summary, one slot per object given (in order, ID = position
   + 1, attributes and content as given), the remaining slots free. *)
From Coq Require Import List ZArith Lia Bool.
From Coq.Init Require Import Byte.
From Sif Require Import Bytes BytesFacts Store StoreFacts Format FormatFacts Image ImageFacts
     SelectFacts Machine Inv InvCommon InvAdd InvCreate Abstract.
Import ListNotations.
Local Open Scope Z_scope.

(* the architecture the header ends up with: that of the primary system
   partition among the objects given, if any *)
Definition arch_step (a : list byte) (di : dinput) : list byte :=
  match di_md di with
  | MdPart _ pt x => if pt =? PartPrimSys then x else a
  | _ => a
  end.

Definition a_create_arch (dis : list dinput) : list byte := fold_left arch_step dis arch_unknown.

Section CreateRefine.

Variable sha256 : list byte -> list byte.
Variable sha_len : forall c, length (sha256 c) = 32%nat.

(* the slot of the k-th object given *)
Definition a_create_slot (t : Z) (k : nat) (di : dinput) : option (rdesc * list byte) :=
  match new_extra sha256 (zeros 384) (di_md di) (di_content di) with
  | inl extra =>
      Some (mkD (di_type di) true (Z.of_nat k + 1) (Z.lor (di_group di) group_mask)
                (link_raw (di_link di)) 0 (Z.of_nat (length (di_content di))) 0
                (obj_time di t) (obj_time di t) 0 0 (pad_to 128 (di_name di)) extra,
            di_content di)
  | inr _ => None
  end.

Lemma create_objects_table dis : forall i t m evs m' evs',
  create_objects sha256 dis i t m evs = (m', Ok, evs') -> filled i (m_rds m) ->
  length (m_rds m') = length (m_rds m) /\ filled (i + length dis) (m_rds m') /\
  h_arch (m_hdr m') = fold_left arch_step dis (h_arch (m_hdr m)).
Proof.
  induction dis as [|di dis IH]; intros i t m evs m' evs' C F; cbn [create_objects] in C.
  - inversion C; subst. rewrite Nat.add_0_r. auto.
  - destruct (plan_write_object sha256 i di t m) as [[m1 r1] e1] eqn:P.
    destruct r1 as [|e]; [|discriminate].
    pose proof (write_object_shape sha256 _ _ _ _ _ _ _ P) as Sh. cbv zeta in Sh.
    destruct Sh as (slot & off & extra & N & _ & _ & _ & _ & _ & _ & M1).
    assert (Li : (i < length (m_rds m))%nat) by (apply nth_error_Some; congruence).
    assert (F1 : filled (S i) (m_rds m1)).
    { rewrite M1. cbn [m_rds]. apply filled_set_nth; auto. }
    destruct (IH _ _ _ _ _ _ C F1) as (L & F' & A).
    rewrite M1 in L, A. cbn [m_rds m_hdr h_arch] in L, A. rewrite length_set_nth in L.
    split; [exact L|]. split; [cbn [length]; now rewrite <- plus_n_Sm|].
    cbn [fold_left]. rewrite A. reflexivity.
Qed.

Theorem create_refines b co s r io :
  wf_copts co ->
  create sha256 b co = (Some s, r, io) ->
  as_hdr (abs s) = mkAH (pad_to 32 (co_launch co)) (co_id co) (a_create_arch (co_dis co))
                        (co_time co) (co_time co) /\
  length (as_slots (abs s)) = Z.to_nat (co_cap co) /\
  (forall k di, nth_error (co_dis co) k = Some di ->
     nth_error (as_slots (abs s)) k = a_create_slot (co_time co) k di) /\
  (forall k, (length (co_dis co) <= k < Z.to_nat (co_cap co))%nat ->
     nth_error (as_slots (abs s)) k = Some (zero_desc, [])).
Proof.
  intros Wc Cr.
  destruct (create_inv sha256 sha_len b co s r io Wc Cr)
    as (_ & _ & _ & _ & H1 & H2 & H3 & H4 & _ & Objs).
  (* the table and the architecture, from the planning function alone *)
  assert (T : length (m_rds (s_mem s)) = Z.to_nat (co_cap co) /\
              filled (length (co_dis co)) (m_rds (s_mem s)) /\
              h_arch (m_hdr (s_mem s)) = a_create_arch (co_dis co)).
  { unfold create, plan_create in Cr.
    destruct (32 <=? length (co_launch co))%nat.
    { cbn [run_events] in Cr. discriminate. }
    destruct (max_u32 <=? co_cap co).
    { cbn [run_events] in Cr. discriminate. }
    set (m0 := mkM (new_header co) (repeat zero_desc (Z.to_nat (co_cap co))) []) in Cr.
    destruct (create_objects sha256 (co_dis co) 0 (co_time co) m0 []) as [[m1 r1] evs] eqn:C.
    destruct r1 as [|e].
    2:{ destruct (run_events b evs (mkF [] 0)) as [io' [|]]; discriminate. }
    destruct (create_objects_table _ _ _ _ _ _ _ C (filled_repeat _)) as (L & F & A).
    destruct (run_events b _ (mkF [] 0)) as [io' [|]]; [|discriminate].
    injection Cr as <- _ _. cbn [s_mem].
    cbn [m0 m_rds m_hdr new_header h_arch] in L, A. rewrite repeat_length in L.
    cbn [Nat.add] in F. auto. }
  destruct T as (TL & TF & TA).
  unfold abs. cbn [as_hdr as_slots]. split; [|split; [|split]].
  - unfold abs_hdr. now rewrite H1, H2, H3, H4, TA.
  - now rewrite map_length.
  - intros k di Hk. destruct (Objs k di Hk) as (d & Nd & Idd & Sd).
    rewrite nth_error_map, Nd. cbn [option_map]. unfold a_create_slot.
    rewrite (sto_extra _ _ _ _ _ _ Sd).
    destruct Sd as [S1 S2 S3 S4 S5 [S6 S6'] [S7 S7'] S8 S9 S10 S11].
    f_equal. f_equal.
    + destruct d; cbn in *; subst; reflexivity.
    + unfold obj_content. rewrite S2, S5, Nat2Z.id. exact S10.
  - intros k Hk. assert (Lk : (k < length (m_rds (s_mem s)))%nat) by lia.
    apply nth_error_Some in Lk. destruct (nth_error (m_rds (s_mem s)) k) as [d|] eqn:Nd; [|congruence].
    rewrite nth_error_map, Nd. cbn [option_map]. pose proof (TF k d Nd) as Fk.
    destruct (Nat.ltb_spec k (length (co_dis co))); [lia|]. subst d. reflexivity.
Qed.

End CreateRefine.

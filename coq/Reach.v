(* Reach.v — the invariant holds in every reachable state: after creation with
   any options, or loading any well-formed image written by someone else, and
   any finite history of operations (accepted or rejected). *)
From Coq Require Import List ZArith Lia Bool.
From Coq.Init Require Import Byte.
From Sif Require Import Bytes BytesFacts Store StoreFacts Format FormatFacts Image ImageFacts
     SelectFacts Machine Inv InvCommon InvSet InvDelete InvAdd InvLoad InvCreate.
Import ListNotations.
Local Open Scope Z_scope.

Section WithDigest.
Variable sha256 : list byte -> list byte.
Variable sha_len : forall c, length (sha256 c) = 32%nat.

(* arguments have their Go types, and the image does not outgrow 2^62 bytes *)
Definition wf_op (s : state) (x : op) : Prop :=
  match x with
  | OpAdd di o now => time_ok o now /\ wf_dinput di /\ add_fits (s_mem s) di
  | OpDelete _ _ _ o now => time_ok o now
  | OpSetPrim _ o now => time_ok o now
  | OpSetMeta _ md o now => time_ok o now /\ md_ok md
  | OpSetOCI _ _ o now => time_ok o now
  | OpReload => True
  end.

Theorem step_inv s x s' r :
  Inv s -> wf_op s x -> step sha256 s x = (s', r) -> Inv s'.
Proof.
  intros I Wo H. destruct x; cbn [wf_op] in Wo.
  - destruct Wo as (T & Wd & Fit). apply (add_inv sha256 sha_len s di o now s' r I T Wd Fit H).
  - apply (delete_inv sha256 s sel zero compact o now s' r I Wo H).
  - apply (setprim_inv sha256 s id o now s' r I Wo H).
  - destruct Wo as (T & M). apply (setmeta_inv sha256 sha_len s id md o now s' r I T M H).
  - apply (setoci_inv sha256 sha_len s id text o now s' r I Wo H).
  - rewrite (reload_identity sha256 s I) in H. inversion H; subst. exact I.
Qed.

(* histories whose every operation is well typed in the state it is applied to *)
Fixpoint wf_ops (s : state) (ops : list op) : Prop :=
  match ops with
  | [] => True
  | x :: r => wf_op s x /\ wf_ops (fst (step sha256 s x)) r
  end.

Theorem run_inv ops : forall s, Inv s -> wf_ops s ops -> Inv (fst (run sha256 s ops)).
Proof.
  induction ops as [|x r IH]; intros s I W; cbn [run].
  - exact I.
  - destruct W as [Wx Wr]. destruct (step sha256 s x) as [s1 res] eqn:E. cbn [fst] in Wr.
    pose proof (step_inv s x s1 res I Wx E) as I1.
    specialize (IH s1 I1 Wr). destruct (run sha256 s1 r) as [s2 rs]. exact IH.
Qed.

(* a well-formed image written by someone else: some well-formed handle is
   coherent with the bytes (any ID numbering by slot, free slots anywhere,
   arbitrary leftover bytes in unused slots and in gaps) *)
Definition wf_image (bytes : store) : Prop :=
  exists m, wf_mem m /\ coherent m bytes.

Theorem load_inv b bytes :
  wf_image bytes -> exists s, load b bytes = inl s /\ Inv s /\ f_bytes (s_io s) = bytes.
Proof.
  intros (m & W & C). unfold load. rewrite (load_coherent m bytes W C).
  eexists. split; [reflexivity|]. split; [split; assumption | reflexivity].
Qed.

Inductive reachable : state -> Prop :=
| reach_create b co s r io :
    wf_copts co -> create sha256 b co = (Some s, r, io) -> reachable s
| reach_load b bytes s :
    wf_image bytes -> load b bytes = inl s -> reachable s
| reach_step s x s' r :
    reachable s -> wf_op s x -> step sha256 s x = (s', r) -> reachable s'.

Theorem reachable_inv s : reachable s -> Inv s.
Proof.
  induction 1 as [b co s r io Wc C | b bytes s Wi L | s x s' r R IH Wo St].
  - apply (create_inv sha256 sha_len b co s r io Wc C).
  - destruct (load_inv b bytes Wi) as (s0 & L0 & I0 & _). rewrite L in L0. inversion L0; subst. exact I0.
  - apply (step_inv s x s' r IH Wo St).
Qed.

(* C08: in every reachable state a fresh load of the file's current bytes is
   the open handle, exactly *)
Theorem handle_is_reload s :
  reachable s -> load_image (f_bytes (s_io s)) = inl (s_mem s).
Proof. intro R. destruct (reachable_inv s R) as [W C]. apply (load_coherent _ _ W C). Qed.

End WithDigest.

(* C02Facts.v — lemmas behind Properties/C02.v. *)
From Coq Require Import List ZArith Lia Bool.
From Coq.Init Require Import Byte.
From Sif Require Import Bytes BytesFacts Store StoreFacts Format FormatFacts Image ImageFacts
     SelectFacts AlignFacts Machine Inv InvCommon InvSet InvDelete InvAdd InvLoad InvCreate Reach Persist PrimInv.
Import ListNotations.
Local Open Scope Z_scope.

Lemma op_is_reload x : x = OpReload \/ x <> OpReload.
Proof. destruct x; [right|right|right|right|right|left]; congruence. Qed.

Section WithDigest.
Variable sha256 : list byte -> list byte.
Variable sha_len : forall c, length (sha256 c) = 32%nat.

(* the storage calls of plan_write_object always run to completion *)
Lemma write_object_events_shape i di t m m1 r evs :
  plan_write_object sha256 i di t m = (m1, r, evs) ->
  forall b io, exists io1, run_events b evs io = (io1, true).
Proof.
  intros P b io. pose proof (write_object_shape sha256 _ _ _ _ _ _ _ P) as Sh. cbv zeta in Sh.
  destruct r.
  - destruct Sh as (slot & off & extra & _ & _ & _ & _ & _ & _ & -> & _).
    destruct (run_write_if_nonempty b (Z.to_nat off) (di_content di) io) as [p E]. eauto.
  - destruct Sh as [_ [->|(off & bs & _ & ->)]].
    + cbn. eauto.
    + destruct (run_write_if_nonempty b (Z.to_nat off) bs io) as [p E]. eauto.
Qed.

(* ---------- an arbitrary invariant through the creation loop ---------- *)

Lemma create_objects_P (P : mem -> Prop) b dis : forall i t m evs0 io0 io m' evs',
  (forall i di t m m1 evs, In di dis -> wf_mem m -> i = first_unused (m_rds m) -> P m ->
       plan_write_object sha256 i di t m = (m1, Ok, evs) -> P m1) ->
  wf_mem m -> filled i (m_rds m) -> (i <= length (m_rds m))%nat ->
  Forall wf_dinput dis ->
  data_end (m_hdr m) (m_rds m) + sum_need dis <= 2 ^ 62 -> in_i64 t ->
  run_events b evs0 io0 = (io, true) -> objs_in_file m (f_bytes io) ->
  P m ->
  create_objects sha256 dis i t m evs0 = (m', Ok, evs') -> P m'.
Proof.
  induction dis as [|di dis IH]; intros i t m evs0 io0 io m' evs' HP W F Li Wd Fit Lt Run OF Pm C.
  - cbn in C. inversion C; subst. exact Pm.
  - cbn [create_objects] in C.
    destruct (plan_write_object sha256 i di t m) as [[m1 r1] e1] eqn:Pw.
    destruct r1 as [|e]; [|discriminate].
    inversion Wd as [|? ? Wdi Wds]; subst.
    cbn [sum_need fold_right] in Fit. fold (sum_need dis) in Fit.
    pose proof (sum_need_nonneg dis) as Sn.
    assert (Hi : i = first_unused (m_rds m)) by (symmetry; now apply filled_first_unused).
    assert (Fit1 : add_fits m di) by (unfold add_fits; unfold need in Fit; lia).
    destruct (write_object_wf sha256 sha_len i di t m m1 e1 W Hi Wdi Fit1 Lt Pw) as [W1 _].
    destruct (write_object_store sha256 b i di t m m1 e1 io W Hi Wdi Fit1 Lt OF Pw)
      as (slot & d & io1 & N & Run1 & R1 & Did & St & (De0 & De1) & De2 & De3 & OF1 & Lg1 & Fr1).
    assert (Ilt : (i < length (m_rds m))%nat) by (apply nth_error_Some; congruence).
    pose proof (sto_size _ _ _ _ _ _ St) as Sz0.
    assert (F1 : filled (S i) (m_rds m1)).
    { rewrite R1. apply filled_set_nth; auto. apply (sto_used _ _ _ _ _ _ St). }
    assert (L1 : (S i <= length (m_rds m1))%nat) by (rewrite R1, length_set_nth; lia).
    assert (Run01 : run_events b (evs0 ++ e1) io0 = (io1, true)).
    { rewrite run_events_app, Run. exact Run1. }
    assert (Fit2 : data_end (m_hdr m1) (m_rds m1) + sum_need dis <= 2 ^ 62) by lia.
    apply (IH (S i) t m1 (evs0 ++ e1) io0 io1 m' evs'); auto.
    + intros i0 di0 t0 m0 m2 ev0 Hin. apply HP. now right.
    + apply (HP i di t m m1 e1); auto. now left.
Qed.

Theorem create_prim_ok b co s r io :
  wf_copts co -> Forall typed_partition_input (co_dis co) ->
  create sha256 b co = (Some s, r, io) -> prim_ok (s_mem s).
Proof.
  intros Wc Ty. unfold create, plan_create.
  destruct (Nat.leb_spec 32 (length (co_launch co))) as [L|L]; [pose proof (wco_launch _ Wc); lia|].
  destruct (Z.leb_spec max_u32 (co_cap co)) as [Cc|Cc]; [pose proof (wco_cap _ Wc); lia|].
  set (m0 := mkM (new_header co) (repeat zero_desc (Z.to_nat (co_cap co))) []).
  destruct (wf_new_mem co Wc) as [W0 De0]. fold m0 in W0, De0.
  destruct (create_objects sha256 (co_dis co) 0 (co_time co) m0 []) as [[m1 r1] evs] eqn:C.
  destruct r1 as [|e].
  2:{ destruct (run_events b evs (mkF [] 0)) as [io' [|]]; intro H; inversion H. }
  assert (P0 : prim_ok m0).
  { assert (NoUsed : forall i d, ~ used_at (m_rds m0) i d).
    { intros i d [Hn Hu]. apply nth_error_In in Hn. apply repeat_spec in Hn. subst d. discriminate. }
    constructor.
    - intros i j di dj U. destruct (NoUsed i di U).
    - intros i d U. destruct (NoUsed i d U).
    - intros _. reflexivity. }
  assert (P1 : prim_ok m1).
  { apply (create_objects_P prim_ok b (co_dis co) 0 (co_time co) m0 [] (mkF [] 0) (mkF [] 0) m1 evs); auto.
    - intros i di t m mm ev Hin W Hi Pm Pw.
      apply (write_object_prim_ok sha256 i di t m mm ev W Pm); auto.
      + eapply Forall_forall; eauto.
      + eapply Forall_forall; [apply (wco_dis _ Wc) | exact Hin].
    - apply filled_repeat.
    - lia.
    - apply (wco_dis _ Wc).
    - rewrite De0. apply (wco_fits _ Wc).
    - apply (wco_time _ Wc).
    - intros i d [Hn Hu]. apply nth_error_In in Hn. apply repeat_spec in Hn. subst d. discriminate. }
  destruct (run_events b (evs ++ ev_table (m_hdr m1) (m_rds m1) ++ ev_header (m_hdr m1)) (mkF [] 0)) as [io' [|]];
    intro H; inversion H; subst. exact P1.
Qed.

Theorem step_keeps_prim_ok s x s' r :
  Inv s -> prim_ok (s_mem s) -> typed_partitions (s_mem s) x ->
  match x with OpAdd di _ _ => wf_dinput di | _ => True end ->
  step sha256 s x = (s', r) -> prim_ok (s_mem s').
Proof.
  intros I Po Ty Wd St. destruct (op_is_reload x) as [->|NR].
  - rewrite (reload_identity sha256 s I) in St. inversion St; subst. exact Po.
  - unfold step in St. destruct x; try congruence;
      (destruct (plan_op sha256 (s_mem s) _) as [[m' r'] evs] eqn:P;
       pose proof (plan_keeps_prim_ok sha256 _ _ _ _ _ (proj1 I) Po Ty Wd P) as Z';
       unfold exec in St; destruct (run_events (s_backend s) evs (s_io s)) as [io' [|]];
       inversion St; subst; exact Z').
Qed.

(* ---------- the abstract-image invariants ---------- *)

(* IDs are unique among live objects and never zero; free + used = capacity *)
Theorem abstract_invariants s :
  Inv s ->
  (forall i j di dj, used_at (m_rds (s_mem s)) i di -> used_at (m_rds (s_mem s)) j dj ->
                     d_id di = d_id dj -> i = j) /\
  (forall i d, used_at (m_rds (s_mem s)) i d -> 0 < d_id d) /\
  h_free (m_hdr (s_mem s)) + Z.of_nat (length (filter d_used (m_rds (s_mem s)))) =
  h_total (m_hdr (s_mem s)) /\
  h_total (m_hdr (s_mem s)) = Z.of_nat (length (m_rds (s_mem s))).
Proof.
  intros [W C]. split; [|split; [|split]].
  - intros i j di dj Ui Uj E. rewrite (wf_ids _ W i di Ui), (wf_ids _ W j dj Uj) in E. lia.
  - intros i d U. rewrite (wf_ids _ W i d U). lia.
  - rewrite (wf_free _ W), (wf_total _ W). unfold count_unused.
    induction (m_rds (s_mem s)) as [|x r IH]; cbn [filter length]; [lia|].
    destruct (d_used x); cbn [negb length]; lia.
  - apply (wf_total _ W).
Qed.

(* ---------- a rejected operation changes nothing ---------- *)

Theorem rejected_changes_nothing s x s' r :
  Inv s -> wf_op s x -> step sha256 s x = (s', r) -> r <> Ok ->
  s_mem s' = s_mem s /\
  nread 0 128 (f_bytes (s_io s')) = nread 0 128 (f_bytes (s_io s)) /\
  nread (Z.to_nat (h_descoff (m_hdr (s_mem s)))) (585 * length (m_rds (s_mem s))) (f_bytes (s_io s')) =
  nread (Z.to_nat (h_descoff (m_hdr (s_mem s)))) (585 * length (m_rds (s_mem s))) (f_bytes (s_io s)) /\
  (forall i d, used_at (m_rds (s_mem s)) i d ->
     nread (Z.to_nat (d_off d)) (Z.to_nat (d_size d)) (f_bytes (s_io s')) =
     nread (Z.to_nat (d_off d)) (Z.to_nat (d_size d)) (f_bytes (s_io s))).
Proof.
  intros I Wo St Hr.
  assert (Same : s' = s ->
    s_mem s' = s_mem s /\
    nread 0 128 (f_bytes (s_io s')) = nread 0 128 (f_bytes (s_io s)) /\
    nread (Z.to_nat (h_descoff (m_hdr (s_mem s)))) (585 * length (m_rds (s_mem s))) (f_bytes (s_io s')) =
    nread (Z.to_nat (h_descoff (m_hdr (s_mem s)))) (585 * length (m_rds (s_mem s))) (f_bytes (s_io s)) /\
    (forall i d, used_at (m_rds (s_mem s)) i d ->
       nread (Z.to_nat (d_off d)) (Z.to_nat (d_size d)) (f_bytes (s_io s')) =
       nread (Z.to_nat (d_off d)) (Z.to_nat (d_size d)) (f_bytes (s_io s))))
    by (intros ->; repeat split; reflexivity).
  destruct x; cbn [wf_op] in Wo.
  - (* add: storage may have grown beyond the data, nothing below it changed *)
    destruct Wo as (T & Wd & Fit).
    destruct (add_inv sha256 sha_len s di o now s' r I T Wd Fit St) as (I' & _ & _ & Rej & _).
    specialize (Rej Hr). split; [exact Rej|].
    destruct I as [W C], I' as [W' C']. rewrite Rej in C'.
    split; [rewrite (coh_hdr _ _ C'), (coh_hdr _ _ C); reflexivity|].
    split; [rewrite (coh_tab _ _ C'), (coh_tab _ _ C); reflexivity|].
    intros i d U.
    assert (ND : ~ deleted_by (OpAdd di o now) r d) by (cbn; tauto).
    assert (Wop : wf_op s (OpAdd di o now)) by (cbn; auto).
    destruct (step_persist sha256 sha_len s _ s' r (conj W C) Wop St i d U ND) as (_ & _ & _ & _ & B).
    exact B.
  - destruct (delete_inv sha256 s sel zero compact o now s' r I Wo St) as (_ & Rej & _). auto.
  - destruct (setprim_inv sha256 s id o now s' r I Wo St) as (_ & Rej & _). auto.
  - destruct Wo as (T & M). destruct (setmeta_inv sha256 sha_len s id md o now s' r I T M St) as (_ & Rej & _). auto.
  - destruct (setoci_inv sha256 sha_len s id text o now s' r I Wo St) as (_ & Rej & _). auto.
  - rewrite (reload_identity sha256 s I) in St. inversion St; subst. congruence.
Qed.

(* ---------- an add the model allows succeeds ---------- *)

(* exactly when AddObject is accepted *)
Theorem add_accepted_iff s di o now :
  Inv s -> add_fits (s_mem s) di ->
  let m := s_mem s in
  let i := first_unused (m_rds m) in
  snd (step sha256 s (OpAdd di o now)) = Ok <->
  (i < length (m_rds m))%nat /\ Z.of_nat i < max_u32 /\
  ~ ((exists fs a, di_md di = MdPart fs PartPrimSys a) /\ has_primary m = true) /\
  di_fail di = None /\ (length (di_name di) <= 128)%nat /\
  (exists slot extra, nth_error (m_rds m) i = Some slot /\
                      new_extra sha256 (d_extra slot) (di_md di) (di_content di) = inl extra).
Proof.
  intros [W C] Fit m i. unfold step, plan_op, plan_add. fold m i.
  set (t := resolve_time (m_hdr m) o now).
  assert (Al : exists off, next_aligned (data_end (m_hdr m) (m_rds m)) (di_align di) = Some off).
  { destruct (data_end_bound m W) as [U0 U1]. pose proof (wf_bound m W) as Wb.
    destruct (next_aligned (data_end (m_hdr m) (m_rds m)) (di_align di)) as [off|] eqn:A; [eauto|].
    exfalso. apply next_aligned_none in A; [|unfold max_i64; lia].
    destruct A as (A1 & A2 & A3). unfold add_fits in Fit. fold m in Fit.
    pose proof (Z.mod_pos_bound (data_end (m_hdr m) (m_rds m)) (di_align di) A1). unfold max_i64 in A3. lia. }
  destruct Al as [off A].
  assert (Res : snd (let '(m', r, io') := exec (s_backend s) (s_io s)
                       match plan_write_object sha256 i di t m with
                       | (m1, Ok, evs) => finish m1 t evs
                       | (_, Err e, evs) => (m, Err e, evs)
                       end in (mkS m' io' (s_backend s), r)) =
                snd (fst (plan_write_object sha256 i di t m))).
  { destruct (plan_write_object sha256 i di t m) as [[m1 r1] e1] eqn:P.
    pose proof (write_object_events_shape i di t m m1 r1 e1 P) as Ev.
    destruct (Ev (s_backend s) (s_io s)) as [io1 E1].
    destruct r1; cbn [fst snd]; unfold finish, exec.
    - destruct (run_table_header (s_backend s) (m_hdr m1) (set_mtime (m_hdr m1) t) (m_rds m1) e1 (s_io s) io1 eq_refl E1)
        as [p E]. rewrite E. reflexivity.
    - rewrite E1. reflexivity. }
  rewrite Res. clear Res.
  unfold plan_write_object. cbv zeta. unfold calc_data_size.
  replace (h_dataoff (m_hdr m) + (data_end (m_hdr m) (m_rds m) - h_dataoff (m_hdr m)))
    with (data_end (m_hdr m) (m_rds m)) by lia.
  destruct (nth_error (m_rds m) i) as [slot|] eqn:N.
  2:{ cbn. split; [discriminate|]. intros (Hl & _). apply nth_error_None in N. lia. }
  assert (Hl : (i < length (m_rds m))%nat) by (apply nth_error_Some; congruence).
  destruct (Z.leb_spec max_u32 (Z.of_nat i)) as [Hm|Hm].
  { cbn. split; [discriminate | intros (_ & H & _); lia]. }
  destruct (match di_md di with MdPart _ pt _ => pt =? PartPrimSys | _ => false end && has_primary m) eqn:Pr.
  { cbn. split; [discriminate|]. intros (_ & _ & Hn & _). exfalso. apply Hn.
    apply andb_true_iff in Pr as [P1 P2]. split; [|exact P2].
    destruct (di_md di); try discriminate. apply Z.eqb_eq in P1. subst. eauto. }
  rewrite A.
  destruct (di_fail di) as [k|] eqn:Fl.
  { cbn. split; [discriminate | intros (_ & _ & _ & H & _); discriminate]. }
  destruct (Nat.ltb_spec 128 (length (di_name di))) as [Ln|Ln].
  { cbn. split; [discriminate | intros (_ & _ & _ & _ & H & _); lia]. }
  destruct (new_extra sha256 (d_extra slot) (di_md di) (di_content di)) as [extra|e] eqn:X.
  - cbn. split; [|reflexivity]. intros _. repeat split; auto; try lia.
    + intros [(fs & a & Md) Hp]. rewrite Md, Hp, Z.eqb_refl in Pr. discriminate.
    + exists slot, extra. auto.
  - cbn. split; [discriminate|]. intros (_ & _ & _ & _ & _ & (slot' & extra & N' & X')).
    assert (slot' = slot) by congruence. subst. congruence.
Qed.

End WithDigest.

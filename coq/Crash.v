(* Crash.v — what a file looks like when an operation is cut short: after any
   prefix of its storage calls, the last write possibly torn at any byte.  A
   general preservation principle: a byte range survives every crash point if
   every write that overlaps it re-writes the bytes that are already there and
   every truncation stays beyond it. *)
From Coq Require Import List ZArith Lia Bool.
From Coq.Init Require Import Byte.
From Sif Require Import Bytes BytesFacts Store StoreFacts.
Import ListNotations.

(* the calls that were carried out before the crash *)
Inductive crash_prefix : list event -> list event -> Prop :=
| cp_stop evs : crash_prefix evs []
| cp_step ev evs p : crash_prefix evs p -> crash_prefix (ev :: evs) (ev :: p)
| cp_torn bs k evs : crash_prefix (EvWrite bs :: evs) [EvWrite (firstn k bs)].

Lemma crash_prefix_full evs : crash_prefix evs evs.
Proof. induction evs; constructor; auto. Qed.

Lemma crash_prefix_app_l a b p : crash_prefix a p -> crash_prefix (a ++ b) p.
Proof. induction 1; cbn [app]; constructor; auto. Qed.

Lemma crash_prefix_app_r a b p : crash_prefix b p -> crash_prefix (a ++ b) (a ++ p).
Proof. intro H. induction a; cbn [app]; [exact H | now constructor]. Qed.

(* a prefix of a ++ b is a prefix of a, or all of a followed by a prefix of b *)
Lemma crash_prefix_app_inv a b p :
  crash_prefix (a ++ b) p -> crash_prefix a p \/ exists q, p = a ++ q /\ crash_prefix b q.
Proof.
  revert p. induction a as [|ev a IH]; intros p H; cbn [app] in H.
  - right. exists p. auto.
  - inversion H as [|? ? q Hq|bs k evs']; subst.
    + left. constructor.
    + destruct (IH q Hq) as [L|(q' & -> & R)]; [left; now constructor|]. right. exists q'. auto.
    + left. constructor.
Qed.

(* the storage after the crash (POSIX file backend) *)
Definition crash_image (evs : list event) (io : fstate) (st : store) : Prop :=
  exists p, crash_prefix evs p /\ st = f_bytes (file_run p io).

(* ---------- preservation of a byte range ---------- *)

(* the bytes of [lo, hi) are those of st0 *)
Definition same_on (st0 st : store) (lo hi : nat) : Prop :=
  hi <= length st /\ forall k, lo <= k -> k < hi -> nth_error st k = nth_error st0 k.

(* writing bs at pos re-writes, inside [lo, hi), what st0 has there *)
Definition agrees (st0 : store) (lo hi pos : nat) (bs : list byte) : Prop :=
  forall k, k < length bs -> lo <= pos + k -> pos + k < hi -> nth_error bs k = nth_error st0 (pos + k).

(* every call of the list keeps [lo, hi); the file position is tracked (None =
   not known: a write would then not be allowed) *)
Fixpoint keeps (st0 : store) (lo hi : nat) (pos : option nat) (evs : list event) : Prop :=
  match evs with
  | [] => True
  | EvSeek n :: r => keeps st0 lo hi (Some n) r
  | EvWrite [] :: r => keeps st0 lo hi pos r
  | EvWrite bs :: r =>
      match pos with
      | Some q => agrees st0 lo hi q bs /\ keeps st0 lo hi (Some (q + length bs)) r
      | None => False
      end
  | EvTrunc n :: r => hi <= n /\ keeps st0 lo hi pos r
  | EvResize n :: r => hi <= n /\ keeps st0 lo hi None r
  end.

Lemma keeps_seek st0 lo hi pos n r : keeps st0 lo hi (Some n) r -> keeps st0 lo hi pos (EvSeek n :: r).
Proof. auto. Qed.

Lemma keeps_write st0 lo hi q bs r :
  agrees st0 lo hi q bs -> keeps st0 lo hi (Some (q + length bs)) r ->
  keeps st0 lo hi (Some q) (EvWrite bs :: r).
Proof.
  intros A K. destruct bs as [|x bs]; cbn [keeps].
  - cbn [length] in K. now rewrite Nat.add_0_r in K.
  - auto.
Qed.

Lemma keeps_app st0 lo hi pos a b :
  keeps st0 lo hi pos a ->
  (forall pos', keeps st0 lo hi pos' b) ->
  keeps st0 lo hi pos (a ++ b).
Proof.
  revert pos. induction a as [|ev a IH]; intros pos Ha Hb; cbn [app]; [apply Hb|].
  destruct ev as [n|bs|n|n]; cbn [keeps] in *.
  - auto.
  - destruct bs as [|x bs]; [auto|]. destruct pos as [q|]; [|contradiction]. destruct Ha. split; auto.
  - destruct Ha. split; auto.
  - destruct Ha. split; auto.
Qed.

Lemma agrees_firstn st0 lo hi pos bs k : agrees st0 lo hi pos bs -> agrees st0 lo hi pos (firstn k bs).
Proof.
  intros H j Hj H1 H2. rewrite firstn_length in Hj. rewrite nth_error_firstn.
  destruct (Nat.ltb_spec j k); [|lia]. apply H; lia.
Qed.

Lemma same_on_write st0 st lo hi pos bs :
  same_on st0 st lo hi -> agrees st0 lo hi pos bs -> same_on st0 (nwrite pos bs st) lo hi.
Proof.
  intros [L S] A. split.
  - rewrite length_nwrite. lia.
  - intros k H1 H2. change (nth_error (nwrite pos bs st) k) with (byte_at k (nwrite pos bs st)).
    rewrite byte_at_nwrite.
    destruct (Nat.ltb_spec k pos).
    + destruct (Nat.ltb_spec k (length st)); [apply S; lia | lia].
    + destruct (Nat.ltb_spec k (pos + length bs)).
      * specialize (A (k - pos)). replace (pos + (k - pos)) with k in A by lia. apply A; lia.
      * apply S; lia.
Qed.

Lemma same_on_apply st0 lo hi pos ev io :
  same_on st0 (f_bytes io) lo hi ->
  (match pos with Some q => f_pos io = q | None => True end) ->
  keeps st0 lo hi pos [ev] ->
  same_on st0 (f_bytes (file_apply ev io)) lo hi.
Proof.
  intros S P K. destruct ev as [n|bs|n|n]; cbn [keeps file_apply f_bytes] in *.
  - exact S.
  - destruct bs as [|x bs]; [exact S|]. destruct pos as [q|]; [|contradiction]. destruct K as [A _].
    cbn [f_bytes]. rewrite P. now apply same_on_write.
  - destruct K as [Hn _]. destruct S as [L S]. split.
    + unfold ntrunc. rewrite app_length, firstn_length, length_zeros. lia.
    + intros k H1 H2. change (nth_error (ntrunc n (f_bytes io)) k) with (byte_at k (ntrunc n (f_bytes io))).
      rewrite byte_at_ntrunc. destruct (Nat.ltb_spec k n); [|lia].
      destruct (Nat.ltb_spec k (length (f_bytes io))); [apply S; lia | lia].
  - destruct K as [Hn _]. destruct S as [L S].
    destruct (Nat.ltb_spec n (length (f_bytes io))).
    + cbn [f_bytes]. split; [rewrite firstn_length; lia|].
      intros k H1 H2. rewrite nth_error_firstn. destruct (Nat.ltb_spec k n); [apply S; lia | lia].
    + destruct (Nat.ltb_spec (length (f_bytes io)) n); cbn [f_bytes].
      * apply same_on_write; [split; assumption|]. intros k Hk H1 H2. cbn [length] in Hk. lia.
      * split; assumption.
Qed.

Lemma keeps_pos_after st0 lo hi pos ev r io :
  (match pos with Some q => f_pos io = q | None => True end) ->
  keeps st0 lo hi pos (ev :: r) ->
  exists pos', keeps st0 lo hi pos' r /\
               (match pos' with Some q => f_pos (file_apply ev io) = q | None => True end).
Proof.
  intros P K. destruct ev as [n|bs|n|n]; cbn [keeps file_apply] in *.
  - exists (Some n). auto.
  - destruct bs as [|x bs]; [exists pos; auto|]. destruct pos as [q|]; [|contradiction].
    destruct K as [_ K]. exists (Some (q + length (x :: bs))). split; [exact K|]. cbn [f_pos]. now rewrite P.
  - destruct K as [_ K]. exists pos. auto.
  - destruct K as [_ K]. exists None. auto.
Qed.

Lemma keeps_head st0 lo hi pos ev r : keeps st0 lo hi pos (ev :: r) -> keeps st0 lo hi pos [ev].
Proof.
  destruct ev as [n|bs|n|n]; cbn [keeps]; auto.
  - destruct bs; auto. destruct pos; [|auto]. intros [A _]. auto.
  - intros [H _]. auto.
  - intros [H _]. auto.
Qed.

(* the principle *)
Theorem keeps_crash st0 lo hi evs p :
  crash_prefix evs p ->
  forall pos io,
  same_on st0 (f_bytes io) lo hi ->
  (match pos with Some q => f_pos io = q | None => True end) ->
  keeps st0 lo hi pos evs ->
  same_on st0 (f_bytes (file_run p io)) lo hi.
Proof.
  induction 1 as [evs|ev evs p Hp IH|bs k evs]; intros pos io S P K.
  - exact S.
  - cbn [file_run fold_left]. fold (file_run p (file_apply ev io)).
    destruct (keeps_pos_after _ _ _ _ _ _ _ P K) as (pos' & K' & P').
    apply (IH pos'); [|exact P' | exact K'].
    eapply same_on_apply; [exact S | exact P | eapply keeps_head; exact K].
  - cbn [file_run fold_left].
    eapply same_on_apply; [exact S | exact P |].
    cbn [keeps] in K |- *. destruct bs as [|x bs]; [now destruct k|].
    destruct (firstn k (x :: bs)) as [|y l] eqn:E; [exact I|].
    destruct pos as [q|]; [|contradiction]. destruct K as [A _]. split; [|exact I].
    rewrite <- E. now apply agrees_firstn.
Qed.

(* convenient forms *)
Lemma same_on_nread st0 st lo n :
  same_on st0 st lo (lo + n) -> lo + n <= length st0 -> nread lo n st = nread lo n st0.
Proof.
  intros [L S] L0. apply nth_error_ext. intro i. rewrite !byte_at_nread.
  destruct (Nat.ltb_spec i n); [|reflexivity]. unfold byte_at. apply S; lia.
Qed.

Lemma same_on_refl st lo hi : hi <= length st -> same_on st st lo hi.
Proof. intro H. split; auto. Qed.

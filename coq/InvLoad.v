(* InvLoad.v — a coherent handle IS what LoadContainer returns for its
   storage: load_image (bytes) = inl mem, exactly (including the cached
   minimum IDs, thanks to their canonical form). *)
From Coq Require Import List ZArith Lia Bool.
From Coq.Init Require Import Byte.
From Sif Require Import Bytes BytesFacts Store StoreFacts Format FormatFacts Image ImageFacts
     Machine Inv InvCommon.
Import ListNotations.
Local Open Scope Z_scope.

Lemma mem_eq m1 m2 :
  m_hdr m1 = m_hdr m2 -> m_rds m1 = m_rds m2 -> m_minids m1 = m_minids m2 -> m1 = m2.
Proof. destruct m1, m2; simpl; intros; subst; reflexivity. Qed.

Theorem load_coherent m st :
  wf_mem m -> coherent m st -> load_image st = inl m.
Proof.
  intros W C. unfold load_image.
  pose proof (coherent_len_hdr _ _ W C) as LH.
  destruct (Nat.ltb_spec (length st) 128); [lia|].
  rewrite (coh_hdr _ _ C).
  rewrite (dec_enc_header _ (wf_h _ W)).
  rewrite (wf_magic _ W), (wf_version _ W), !bytes_eqb_refl. cbn [negb].
  pose proof (wf_total _ W) as Wt. pose proof (wf_descsize _ W) as Wds.
  pose proof (wf_descoff _ W) as Wdo. pose proof (wf_dataoff _ W) as Wo.
  destruct (Z.ltb_spec (h_total (m_hdr m)) 0); [lia|].
  destruct (Z.ltb_spec (h_descsize (m_hdr m)) 0); [lia|].
  destruct (Z.ltb_spec (h_descsize (m_hdr m) / 585) (h_total (m_hdr m))) as [L|L].
  { exfalso. assert (h_total (m_hdr m) <= h_descsize (m_hdr m) / 585) by (apply Z.div_le_lower_bound; lia). lia. }
  cbn [orb].
  destruct (Z.eqb_spec (h_total (m_hdr m)) 0) as [E0|N0].
  - (* no descriptors *)
    f_equal. apply mem_eq; cbn.
    + reflexivity.
    + destruct (m_rds m); [reflexivity | cbn [length] in Wt; lia].
    + assert (R : m_rds m = []) by (destruct (m_rds m); [reflexivity | cbn [length] in Wt; lia]).
      pose proof (wf_minids _ W) as Mo. pose proof (wf_minids_sorted _ W) as Ms.
      apply keys_sorted_ext; [exact I | exact Ms |]. intro g. specialize (Mo g). rewrite R in Mo.
      cbn. destruct (minid_lookup g (m_minids m)); [|reflexivity].
      destruct Mo as [(d & [] & _) _].
  - destruct (Z.ltb_spec (h_descoff (m_hdr m)) 0); [lia|].
    assert (Rne : m_rds m <> []) by (intro R; rewrite R in Wt; cbn in Wt; lia).
    pose proof (coherent_len_tab _ _ W C Rne) as LT.
    unfold zread.
    destruct (Z.ltb_spec (h_descoff (m_hdr m)) 0); [lia|].
    destruct (Z.ltb_spec (h_total (m_hdr m) * 585) 0); [lia|]. cbn [orb].
    destruct (Z.ltb_spec (Z.of_nat (length st)) (h_descoff (m_hdr m) + h_total (m_hdr m) * 585)); [lia|].
    replace (Z.to_nat (h_total (m_hdr m) * 585)) with (585 * length (m_rds m))%nat by lia.
    rewrite (coh_tab _ _ C).
    replace (Z.to_nat (h_total (m_hdr m))) with (length (m_rds m)) by lia.
    rewrite (dec_enc_table _ (wf_rds _ W)).
    f_equal. apply mem_eq; cbn; try reflexivity.
    apply keys_sorted_ext; [apply populate_sorted | apply (wf_minids_sorted _ W) |].
    apply minids_ok_unique with (rds := m_rds m); [apply populate_ok | apply (wf_minids _ W)].
Qed.

(* OpReload on a state satisfying the invariant is the identity *)
Section WithDigest.
Variable sha256 : list byte -> list byte.

Theorem reload_identity s :
  Inv s -> step sha256 s OpReload = (s, Ok).
Proof.
  intros [W C]. unfold step. rewrite (load_coherent _ _ W C). destruct s; reflexivity.
Qed.

End WithDigest.

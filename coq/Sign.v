(* Sign.v — executable model of pkg/integrity/sign.go: NewSigner (the group
   signers) and Sign (one signature object appended per group signer).

   Parameters: the digest functions, json.Marshal of the metadata, and the
   envelope encoder (what signMessage returns for a payload: the envelope
   bytes and the SIF hash type), plus the fingerprint the encoder's entity
   has (PGP) or none (DSSE). *)
From Coq Require Import List ZArith Lia Bool.
From Coq.Init Require Import Byte.
From Sif Require Import Bytes Store Format Image Machine Integrity.
Import ListNotations.
Local Open Scope Z_scope.

Section Sign.

Variable hash : halg -> list byte -> list byte.
Variable sha256 : list byte -> list byte.
Variable encode_md : imd -> list byte.
Variable seal : list byte -> list byte * Z.
Variable signer_fp : option (list byte).

(* the signature struct of the descriptor's extra field *)
Definition enc_signature (ht : Z) (fp : option (list byte)) : list byte :=
  le_enc 4 ht ++ match fp with Some f => f | None => [] end.

(* insertSortedFunc by ID: unchanged if an object with that ID is present *)
Fixpoint insert_od (od : rdesc * Z) (l : list (rdesc * Z)) : list (rdesc * Z) :=
  match l with
  | [] => [od]
  | x :: r =>
      if d_id (fst od) <? d_id (fst x) then od :: l
      else if d_id (fst od) =? d_id (fst x) then l
      else x :: insert_od od r
  end.

(* groupSigner.addObject *)
Definition add_object (g : Z) (acc : list (rdesc * Z)) (od : rdesc * Z) : list (rdesc * Z) + ierr :=
  if group_of_raw (d_group (fst od)) =? g then inl (insert_od od acc) else inr IUnexpectedGroupID.

Fixpoint add_objects (g : Z) (acc : list (rdesc * Z)) (ods : list (rdesc * Z)) : list (rdesc * Z) + ierr :=
  match ods with
  | [] => inl acc
  | od :: r => match add_object g acc od with inr e => inr e | inl acc' => add_objects g acc' r end
  end.

(* optSignGroupObjects *)
Fixpoint add_ids (m : mem) (g : Z) (acc : list (rdesc * Z)) (ids : list Z) : list (rdesc * Z) + ierr :=
  match ids with
  | [] => inl acc
  | id :: r =>
      match get_descriptor_i m id with
      | inr e => inr e
      | inl od => match add_object g acc od with inr e => inr e | inl acc' => add_ids m g acc' r end
      end
  end.

Record gsigner := mkGS { gs_group : Z; gs_ods : list (rdesc * Z) }.

(* newGroupSigner: ids = None for a whole-group signer *)
Definition new_group_signer (m : mem) (g : Z) (ids : option (list Z)) : gsigner + ierr :=
  if g =? 0 then inr (ISif EInvalidGroupID)
  else
    let chosen := match ids with
                  | None => inl []
                  | Some [] => inr INoObjectsSpecified
                  | Some l => add_ids m g [] l
                  end in
    match chosen with
    | inr e => inr e
    | inl (x :: r) => inl (mkGS g (x :: r))
    | inl [] =>
        match group_objects m g with
        | inr e => inr e
        | inl ods => match add_objects g [] ods with inr e => inr e | inl l => inl (mkGS g l) end
        end
    end.

(* withGroupedObjects: group IDs in ascending order, each with its IDs in call order *)
Fixpoint note_group (g id : Z) (l : list (Z * list Z)) : list (Z * list Z) :=
  match l with
  | [] => [(g, [id])]
  | (g', ids) :: r =>
      if g <? g' then (g, [id]) :: l
      else if g =? g' then (g', ids ++ [id]) :: r
      else (g', ids) :: note_group g id r
  end.

Fixpoint grouped_objects (m : mem) (ids : list Z) (acc : list (Z * list Z)) : list (Z * list Z) + ierr :=
  match ids with
  | [] => inl acc
  | id :: r =>
      match get_descriptor_i m id with
      | inr e => inr e
      | inl od => grouped_objects m r (note_group (group_of_raw (d_group (fst od))) id acc)
      end
  end.

(* how the signing options resolve to the option given to AddObject:
   OptSignDeterministic wins over OptSignWithTime (Signer.Sign) *)
Definition sign_topt (det : bool) (tf : option Z) : topt :=
  if det then TDeterministic
  else match tf with Some t => TExplicit t | None => TDefault end.

Record sopts := mkSO {
  so_groups : list Z;              (* OptSignGroup, in call order *)
  so_objects : list (list Z);      (* OptSignObjects, in call order; never empty lists *)
  so_time : topt }.                (* OptSignDeterministic / OptSignWithTime *)

Fixpoint signers_for_objects (m : mem) (sels : list (list Z)) : list gsigner + ierr :=
  match sels with
  | [] => inl []
  | ids :: r =>
      match grouped_objects m ids [] with
      | inr e => inr e
      | inl gs =>
          match map_err (fun p => new_group_signer m (fst p) (Some (snd p))) gs with
          | inr e => inr e
          | inl s1 => match signers_for_objects m r with inr e => inr e | inl s2 => inl (s1 ++ s2) end
          end
      end
  end.

(* NewSigner (key material present) *)
Definition new_signer (m : mem) (so : sopts) : list gsigner + ierr :=
  if existsb (fun l => match l with [] => true | _ => false end) (so_objects so) then inr INoObjectsSpecified
  else
    match map_err (fun g => new_group_signer m g None) (so_groups so) with
    | inr e => inr e
    | inl s1 =>
        match signers_for_objects m (so_objects so) with
        | inr e => inr e
        | inl s2 =>
            match s1 ++ s2 with
            | [] =>
                match group_ids m with
                | [] => inr INoGroupsFound
                | gs => map_err (fun g => new_group_signer m g None) gs
                end
            | l => inl l
            end
        end
    end.

(* groupSigner.sign: the descriptor input of the signature object *)
Definition sign_input (m : mem) (st : store) (gs : gsigner) : dinput + ierr :=
  match group_min_id m (gs_group gs) with
  | None => inr IGroupNotFound
  | Some minid =>
      match image_metadata hash m st minid (gs_ods gs) SHA256 with
      | inr e => inr e
      | inl im =>
          let '(c, ht) := seal (encode_md im) in
          inl (mkDI DataSignature c None 0 (LGroup (gs_group gs)) 0 []
                    (MdRaw (enc_signature ht signer_fp)) None)
      end
  end.

(* Signer.Sign: one AddObject per group signer, on the evolving handle *)
Inductive sresult := SOk | SErrI (e : ierr) | SErrAdd (e : err).

Fixpoint sign_all (s : state) (gss : list gsigner) (o : topt) (now : Z) : state * sresult :=
  match gss with
  | [] => (s, SOk)
  | gs :: r =>
      match sign_input (s_mem s) (f_bytes (s_io s)) gs with
      | inr e => (s, SErrI e)
      | inl di =>
          match step sha256 s (OpAdd di o now) with
          | (s', Ok) => sign_all s' r o now
          | (s', Err e) => (s', SErrAdd e)
          end
      end
  end.

Definition sign (s : state) (so : sopts) (now : Z) : state * sresult :=
  match new_signer (s_mem s) so with
  | inr e => (s, SErrI e)
  | inl gss => sign_all s gss (so_time so) now
  end.

End Sign.

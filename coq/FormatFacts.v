(* FormatFacts.v — codec round trips for the layout-driven encoder and for
   the header / descriptor / table instances. *)
From Coq Require Import List ZArith Lia Bool String.
From Coq.Init Require Import Byte.
From Sif Require Import Bytes BytesFacts Store StoreFacts Format.
Import ListNotations.
Local Open Scope list_scope.
Local Notation length := List.length.

(* ---------- generic ---------- *)

Definition wf_val (k : fkind) (v : fval) : Prop :=
  match k, v with
  | KI32, VZ z => in_i32 z
  | KU32, VZ z => in_u32 z
  | KI64, VZ z => in_i64 z
  | KBool, VB _ => True
  | KBytes n, VBs l => length l = n
  | _, _ => False
  end.

Fixpoint wf_vals (l : layout) (vs : list fval) : Prop :=
  match l, vs with
  | [], [] => True
  | f :: l', v :: vs' => wf_val (snd f) v /\ wf_vals l' vs'
  | _, _ => False
  end.

Lemma length_enc_field k v : wf_val k v -> length (enc_field k v) = ksize k.
Proof.
  destruct k, v; simpl; intro H; try contradiction; try reflexivity;
    try apply length_le_enc. exact H.
Qed.

Lemma length_encode l vs : wf_vals l vs -> length (encode l vs) = layout_size l.
Proof.
  revert vs; induction l as [|f l IH]; intros [|v vs] H; simpl in *; try contradiction.
  - reflexivity.
  - destruct H as [H1 H2]. rewrite app_length, (length_enc_field _ _ H1), (IH _ H2).
    reflexivity.
Qed.

Lemma all_zero_enc_bool b : negb (all_zero (enc_bool b)) = b.
Proof. destruct b; reflexivity. Qed.

Lemma dec_enc_field k v : wf_val k v -> dec_field k (enc_field k v) = v.
Proof.
  destruct k, v; cbn [wf_val dec_field enc_field]; intro H; try contradiction.
  - now rewrite sle_dec_le_enc_i32.
  - now rewrite le_dec_le_enc_u32.
  - now rewrite sle_dec_le_enc_i64.
  - now rewrite all_zero_enc_bool.
  - reflexivity.
Qed.

Theorem decode_encode l vs : wf_vals l vs -> decode l (encode l vs) = vs.
Proof.
  revert vs; induction l as [|f l IH]; intros [|v vs] H; simpl in *; try contradiction.
  - reflexivity.
  - destruct H as [H1 H2].
    pose proof (length_enc_field _ _ H1) as Hl.
    rewrite firstn_app, skipn_app, Hl, Nat.sub_diag. simpl.
    rewrite <- Hl at 1. rewrite firstn_all, app_nil_r.
    rewrite <- Hl at 1. rewrite skipn_all. simpl.
    rewrite (dec_enc_field _ _ H1), (IH _ H2). reflexivity.
Qed.

(* the only non-injective spot of encoding/binary: a bool byte other than
   0/1 decodes to true and re-encodes as 1 *)
Definition canon_field (k : fkind) (bs : list byte) : Prop :=
  match k with
  | KBool => bs = [x00] \/ bs = [x01]
  | _ => True
  end.

Fixpoint canon (l : layout) (bs : list byte) : Prop :=
  match l with
  | [] => True
  | f :: l' => canon_field (snd f) (firstn (ksize (snd f)) bs)
               /\ canon l' (skipn (ksize (snd f)) bs)
  end.

Lemma enc_dec_field k bs :
  length bs = ksize k -> canon_field k bs -> enc_field k (dec_field k bs) = bs.
Proof.
  destruct k; cbn [ksize enc_field dec_field canon_field]; intros Hl Hc.
  - rewrite <- Hl. apply le_enc_sle_dec.
  - rewrite <- Hl. apply le_enc_le_dec.
  - rewrite <- Hl. apply le_enc_sle_dec.
  - destruct Hc as [-> | ->]; reflexivity.
  - reflexivity.
Qed.

Theorem encode_decode l bs :
  length bs = layout_size l -> canon l bs -> encode l (decode l bs) = bs.
Proof.
  revert bs; induction l as [|f l IH]; intros bs Hl Hc; simpl in *.
  - destruct bs; [reflexivity | discriminate].
  - destruct Hc as [Hc1 Hc2].
    rewrite enc_dec_field; [| rewrite firstn_length; lia | exact Hc1].
    rewrite IH; [| rewrite skipn_length; lia | exact Hc2].
    apply firstn_skipn.
Qed.

Lemma wf_val_dec_field k bs : length bs = ksize k -> wf_val k (dec_field k bs).
Proof.
  destruct k; simpl; intro H.
  - pose proof (sle_dec_range bs) as R. rewrite H in R. unfold in_i32.
    change (8 * Z.of_nat 4 - 1)%Z with 31%Z in R. apply R. lia.
  - pose proof (le_dec_range bs) as R. rewrite H in R. exact R.
  - pose proof (sle_dec_range bs) as R. rewrite H in R. unfold in_i64.
    change (8 * Z.of_nat 8 - 1)%Z with 63%Z in R. apply R. lia.
  - exact I.
  - exact H.
Qed.

Lemma wf_vals_decode l bs : length bs = layout_size l -> wf_vals l (decode l bs).
Proof.
  revert bs; induction l as [|f l IH]; intros bs H; simpl in *.
  - exact I.
  - split.
    + apply wf_val_dec_field. rewrite firstn_length. lia.
    + apply IH. rewrite skipn_length. lia.
Qed.

(* ---------- header ---------- *)

Lemma enc_header_generic h : enc_header h = encode v1_header_layout (header_vals h).
Proof. unfold enc_header. cbn [encode v1_header_layout header_vals enc_field snd]. now rewrite app_nil_r. Qed.

Lemma wf_header_vals h : wf_header h -> wf_vals v1_header_layout (header_vals h).
Proof. unfold wf_header. cbn. tauto. Qed.

Lemma length_enc_header h : wf_header h -> length (enc_header h) = 128.
Proof.
  intro H. rewrite enc_header_generic, length_encode by now apply wf_header_vals. reflexivity.
Qed.

Theorem dec_enc_header h : wf_header h -> dec_header (enc_header h) = h.
Proof.
  intro H. unfold dec_header. rewrite enc_header_generic, decode_encode by now apply wf_header_vals.
  destruct h; reflexivity.
Qed.

Lemma header_vals_of_vals vs :
  wf_vals v1_header_layout vs -> header_vals (header_of_vals vs) = vs.
Proof.
  cbn [wf_vals v1_header_layout snd wf_val].
  repeat (destruct vs as [|[?|?|?] vs]; cbn; try tauto).
Qed.

Theorem enc_dec_header bs : length bs = 128 -> enc_header (dec_header bs) = bs.
Proof.
  intro H. unfold dec_header. rewrite enc_header_generic.
  rewrite header_vals_of_vals by (apply wf_vals_decode; exact H).
  apply encode_decode; [exact H|]. cbn. tauto.
Qed.

Lemma wf_dec_header bs : length bs = 128 -> wf_header (dec_header bs).
Proof.
  intro H. pose proof (wf_vals_decode v1_header_layout bs H) as W.
  pose proof (header_vals_of_vals _ W) as E. unfold dec_header.
  rewrite <- E in W. revert W. generalize (header_of_vals (decode v1_header_layout bs)).
  intros h. unfold wf_header. cbn. tauto.
Qed.

(* ---------- descriptor ---------- *)

Lemma enc_desc_generic d : enc_desc d = encode v1_desc_layout (desc_vals d).
Proof. unfold enc_desc. cbn [encode v1_desc_layout desc_vals enc_field snd]. now rewrite app_nil_r. Qed.

Lemma wf_desc_vals d : wf_desc d -> wf_vals v1_desc_layout (desc_vals d).
Proof. unfold wf_desc. cbn. tauto. Qed.

Lemma length_enc_desc d : wf_desc d -> length (enc_desc d) = 585.
Proof.
  intro H. rewrite enc_desc_generic, length_encode by now apply wf_desc_vals. reflexivity.
Qed.

Theorem dec_enc_desc d : wf_desc d -> dec_desc (enc_desc d) = d.
Proof.
  intro H. unfold dec_desc. rewrite enc_desc_generic, decode_encode by now apply wf_desc_vals.
  destruct d; reflexivity.
Qed.

Lemma desc_vals_of_vals vs :
  wf_vals v1_desc_layout vs -> desc_vals (desc_of_vals vs) = vs.
Proof.
  cbn [wf_vals v1_desc_layout snd wf_val].
  repeat (destruct vs as [|[?|?|?] vs]; cbn; try tauto).
Qed.

(* byte 4 of a descriptor is the "used" flag *)
Definition used_byte_canon (bs : list byte) : Prop :=
  nread 4 1 bs = [x00] \/ nread 4 1 bs = [x01].

Theorem enc_dec_desc bs :
  length bs = 585 -> used_byte_canon bs -> enc_desc (dec_desc bs) = bs.
Proof.
  intros H Hc. unfold dec_desc. rewrite enc_desc_generic.
  rewrite desc_vals_of_vals by (apply wf_vals_decode; exact H).
  apply encode_decode; [exact H|]. cbn. unfold used_byte_canon, nread in Hc. tauto.
Qed.

Lemma wf_dec_desc bs : length bs = 585 -> wf_desc (dec_desc bs).
Proof.
  intro H. pose proof (wf_vals_decode v1_desc_layout bs H) as W.
  pose proof (desc_vals_of_vals _ W) as E. unfold dec_desc.
  rewrite <- E in W. revert W. generalize (desc_of_vals (decode v1_desc_layout bs)).
  intros d. unfold wf_desc. cbn. tauto.
Qed.

Lemma wf_zero_desc : wf_desc zero_desc.
Proof. unfold wf_desc, zero_desc, in_i32, in_u32, in_i64; cbn. repeat split; try lia; reflexivity. Qed.

(* ---------- table ---------- *)

Lemma length_enc_table rds :
  Forall wf_desc rds -> length (enc_table rds) = 585 * length rds.
Proof.
  induction 1 as [|d rds Hd _ IH]; [reflexivity|].
  unfold enc_table in *. cbn [flat_map]. rewrite app_length, IH, length_enc_desc by assumption.
  cbn [length]. lia.
Qed.

Theorem dec_enc_table rds :
  Forall wf_desc rds -> dec_table (length rds) (enc_table rds) = rds.
Proof.
  induction 1 as [|d rds Hd _ IH]; [reflexivity|].
  unfold enc_table in *. cbn [flat_map length dec_table].
  pose proof (length_enc_desc d Hd) as Hl. unfold desc_size.
  rewrite firstn_app, skipn_app, Hl, Nat.sub_diag. simpl firstn at 2. simpl skipn at 2.
  rewrite <- Hl at 1. rewrite firstn_all, app_nil_r.
  rewrite <- Hl at 1. rewrite skipn_all. simpl app.
  rewrite dec_enc_desc by assumption. now rewrite IH.
Qed.

Lemma length_dec_table n bs : length (dec_table n bs) = n.
Proof. revert bs; induction n as [|n IH]; intro bs; simpl; [reflexivity | now rewrite IH]. Qed.

Lemma wf_dec_table n bs :
  length bs = 585 * n -> Forall wf_desc (dec_table n bs).
Proof.
  revert bs; induction n as [|n IH]; intros bs H; cbn [dec_table].
  - constructor.
  - constructor.
    + apply wf_dec_desc. unfold desc_size. rewrite firstn_length. lia.
    + apply IH. unfold desc_size. rewrite skipn_length. lia.
Qed.

(* field positions of v1 are the literal numbers of the specification *)
Lemma v1_header_positions : field_offsets v1_header_layout = v1_header_offsets.
Proof. reflexivity. Qed.
Lemma v1_desc_positions : field_offsets v1_desc_layout = v1_desc_offsets.
Proof. reflexivity. Qed.
Lemma v1_sizes : layout_size v1_header_layout = 128 /\ layout_size v1_desc_layout = 585.
Proof. split; reflexivity. Qed.

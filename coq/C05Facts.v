(* C05Facts.v — default verification covers the whole image. *)
From Coq Require Import List ZArith Lia Bool.
From Coq.Init Require Import Byte.
From Sif Require Import Bytes BytesFacts Store Format Image SelectFacts Integrity StreamFacts IntegFacts C04Facts.
Import ListNotations.
Local Open Scope Z_scope.

(* ---------- group IDs ---------- *)

Lemma In_insert_sorted x y l : In x (insert_sorted y l) <-> x = y \/ In x l.
Proof.
  induction l as [|z l IH]; cbn [insert_sorted].
  - cbn. intuition.
  - destruct (y <? z); [cbn; intuition|].
    destruct (Z.eqb_spec y z) as [->|Hne]; cbn [In]; [intuition|]. rewrite IH. intuition.
Qed.

Lemma group_ids_fold_spec l acc g :
  In g (fold_left (fun acc d => let g := group_of_raw (d_group d) in
                                 if g =? 0 then acc else insert_sorted g acc) l acc) <->
  In g acc \/ exists d, In d l /\ group_of_raw (d_group d) = g /\ g <> 0.
Proof.
  revert acc. induction l as [|d l IH]; intro acc; cbn [fold_left].
  - split; [auto|]. intros [H|(d & [] & _)]. exact H.
  - rewrite IH. cbv zeta. destruct (Z.eqb_spec (group_of_raw (d_group d)) 0) as [E|E].
    + split.
      * intros [H|(d' & Hin & Hg & Hne)]; [auto|]. right. exists d'. cbn. auto.
      * intros [H|(d' & [<-|Hin] & Hg & Hne)]; [auto| congruence |]. right. exists d'. auto.
    + rewrite In_insert_sorted. split.
      * intros [[->|H]|(d' & Hin & Hg & Hne)]; [right; exists d; cbn; auto | auto |].
        right. exists d'. cbn. auto.
      * intros [H|(d' & [<-|Hin] & Hg & Hne)]; [auto | auto |]. right. exists d'. auto.
Qed.

Lemma group_ids_spec m g :
  In g (group_ids m) <-> exists d, In d (m_rds m) /\ d_used d = true /\ group_of_raw (d_group d) = g /\ g <> 0.
Proof.
  unfold group_ids. rewrite group_ids_fold_spec. unfold live. split.
  - intros [[]|(d & Hin & Hg & Hne)]. apply filter_In in Hin as [Hin Hu]. exists d. auto.
  - intros (d & Hin & Hu & Hg & Hne). right. exists d. rewrite filter_In. auto.
Qed.

(* ---------- the default task list ---------- *)

Definition default_opts : vopts := mkVO [] [] false false.

Lemma map_err_inl {A B E} (f : A -> B + E) l l' :
  map_err f l = inl l' -> Forall2 (fun x y => f x = inl y) l l'.
Proof.
  revert l'. induction l as [|x l IH]; intros l' H; cbn [map_err] in H.
  - injection H as <-. constructor.
  - destruct (f x) as [y|] eqn:F; [|discriminate].
    destruct (map_err f l) as [ys|]; [|discriminate]. injection H as <-. constructor; auto.
Qed.

Lemma default_tasks m ts :
  new_verifier m default_opts = inl ts ->
  group_ids m <> [] /\
  Forall2 (fun g t => exists ods, group_objects m g = inl ods /\ t = TGroup g ods false) (group_ids m) ts.
Proof.
  unfold new_verifier, default_opts. cbn [vo_groups vo_objects vo_legacy vo_legacy_all existsb sort_ids].
  destruct (group_ids m) as [|g0 gs] eqn:G; [discriminate|].
  set (gtask := fun g => match group_objects m g with inr e => inr e | inl ods => inl (TGroup g ods false) end).
  destruct (map_err gtask (g0 :: gs)) as [t1|] eqn:M; [|discriminate]. cbn [map_err].
  intros [= <-]. rewrite app_nil_r. split; [discriminate|].
  apply map_err_inl in M. revert M. generalize (g0 :: gs). intro l. revert t1.
  induction l as [|g l IH]; intros t1 M; inversion M as [|? t ? t1' F M']; subst; constructor; [|auto].
  unfold gtask in F. destruct (group_objects m g) as [ods|]; [|discriminate]. injection F as <-.
  exists ods. auto.
Qed.

Lemma no_groups_never_verifies m :
  group_ids m = [] -> exists e, new_verifier m default_opts = inr e.
Proof.
  intro G. unfold new_verifier, default_opts.
  cbn [vo_groups vo_objects vo_legacy vo_legacy_all existsb sort_ids]. rewrite G. eauto.
Qed.

(* ---------- membership and signatures, characterised ---------- *)

Lemma group_objects_spec m g ods :
  group_objects m g = inl ods ->
  ods <> [] /\
  (forall d, In d (map fst ods) <-> In d (m_rds m) /\ d_used d = true /\ g <> 0 /\ group_of_raw (d_group d) = g) /\
  (forall d r, In (d, r) ods -> r = relative_id (m_minids m) d).
Proof.
  unfold group_objects. destruct (get_descriptors m [SGroup g]) as [[|p l]|] eqn:G; try discriminate.
  intros [= <-]. destruct (get_descriptors_exact _ _ _ G) as (_ & Hiff & Hrel).
  split; [discriminate|]. split; [|exact Hrel].
  intro d. rewrite Hiff. unfold sat_all. split.
  - intros (Hin & Hu & Hs). inversion Hs as [|? ? S _]; subst. apply sat_SGroup in S. tauto.
  - intros (Hin & Hu & Hg). repeat split; auto. constructor; [now apply sat_SGroup | constructor].
Qed.

(* the signatures that count for group g in a current-format request *)
Lemma group_signatures_spec (is_legacy : list byte -> bool) m st g sigs :
  group_signatures is_legacy m st g false = inl sigs ->
  sigs <> [] /\
  forall sig, In sig sigs <->
    In sig (m_rds m) /\ d_used sig = true /\ d_type sig = DataSignature /\ sat (SLinkedGroup g) sig /\
    exists c, get_data sig st = inl c /\ is_legacy c = false.
Proof.
  intro H. split; [exact (group_signatures_nonempty is_legacy _ _ _ _ _ H)|].
  unfold group_signatures in H. destruct (linked_sigs m (SLinkedGroup g)) as [l|] eqn:L; [|discriminate].
  destruct (sigs_filter is_legacy st false l) as [l'|] eqn:F; [|discriminate].
  assert (l' = sigs) as -> by (destruct l'; [discriminate | now injection H]).
  intro sig. pose proof (linked_sigs_spec _ _ _ L sig) as LS. split.
  - intro Hin. destruct (sigs_filter_in _ _ _ _ _ _ F Hin) as [Hl Hc]. apply LS in Hl. tauto.
  - intros (Hin & Hu & Ht & Hs & c & GD & HL). eapply sigs_filter_complete; eauto. apply LS. auto.
Qed.

Section C05.

Variable hash : halg -> list byte -> list byte.
Variable classify : list byte -> sigkind.
Variable is_legacy : list byte -> bool.
Variable open_dsse : Z -> list byte -> option (list byte * list Z).
Variable open_pgp : list byte -> option (list byte * list byte).
Variable parse_md : list byte -> option imd.
Variable has_dsse_keys : bool.
Variable has_pgp_keys : bool.

Local Notation vfy := (verify hash classify is_legacy open_dsse open_pgp parse_md has_dsse_keys has_pgp_keys).
Local Notation accepted := (sig_accepted hash open_dsse open_pgp parse_md).

(* objectIDsMatch *)
Lemma object_ids_match_spec signed ods :
  object_ids_match signed ods = None <->
  (forall p, In p ods -> In (d_id (fst p)) signed) /\
  (forall id, In id signed -> exists p, In p ods /\ d_id (fst p) = id).
Proof.
  unfold object_ids_match.
  destruct (forallb (fun p => existsb (Z.eqb (d_id (fst p))) signed) ods) eqn:A; cbn [negb].
  - destruct (forallb (fun id => existsb (fun p => d_id (fst p) =? id) ods) signed) eqn:B; cbn [negb].
    + split; [intros _|reflexivity]. rewrite forallb_forall in A, B. split.
      * intros p Hp. specialize (A p Hp). apply existsb_exists in A as (x & Hx & E).
        apply Z.eqb_eq in E. now subst.
      * intros id Hid. specialize (B id Hid). apply existsb_exists in B as (p & Hp & E).
        apply Z.eqb_eq in E. eauto.
    + split; [discriminate|]. intros [_ H2]. exfalso.
      assert (forallb (fun id => existsb (fun p => d_id (fst p) =? id) ods) signed = true); [|congruence].
      apply forallb_forall. intros id Hid. destruct (H2 id Hid) as (p & Hp & E).
      apply existsb_exists. exists p. split; [exact Hp|]. now apply Z.eqb_eq.
  - split; [discriminate|]. intros [H1 _]. exfalso.
    assert (forallb (fun p => existsb (Z.eqb (d_id (fst p))) signed) ods = true); [|congruence].
    apply forallb_forall. intros p Hp. apply existsb_exists. exists (d_id (fst p)).
    split; [now apply H1 | apply Z.eqb_refl].
Qed.

(* what default verification establishes about one group *)
Definition group_covered (m : mem) (st : store) (g : Z) : Prop :=
  exists ods sigs,
    group_objects m g = inl ods /\
    group_signatures is_legacy m st g false = inl sigs /\ sigs <> [] /\
    forall sig, In sig sigs ->
      key_available has_dsse_keys has_pgp_keys (classify (obj_bytes sig st)) /\
      exists o im minid,
        accepted m st g ods false sig (classify (obj_bytes sig st)) o im minid /\
        let signed := map (fun om => wrap_u32 (minid + om_relid om)) (im_objects im) in
        (forall p, In p ods -> In (d_id (fst p)) signed) /\
        (forall id, In id signed -> exists p, In p ods /\ d_id (fst p) = id).

Theorem default_verification_covers m st ts rs :
  new_verifier m default_opts = inl ts ->
  vfy m st strict ts = (rs, None) ->
  ungrouped_are_signatures m /\
  group_ids m <> [] /\
  forall g, In g (group_ids m) -> group_covered m st g.
Proof.
  intros NV V. destruct (default_tasks _ _ NV) as [Hne HT].
  destruct (verify_ok _ _ _ _ _ _ _ _ _ _ _ _ V) as (HU & _ & Hall).
  split; [exact HU|]. split; [exact Hne|]. intros g Hg.
  (* the task of g *)
  assert (Ht : exists ods, group_objects m g = inl ods /\ In (TGroup g ods false) ts).
  { clear - HT Hg. induction HT as [|g' t gs ts' (ods & GO & ->) _ IH]; [contradiction|].
    destruct Hg as [->|Hg]; [exists ods; cbn; auto|]. destruct (IH Hg) as (ods' & GO' & Hin).
    exists ods'. cbn. auto. }
  destruct Ht as (ods & GO & Hin). rewrite Forall_forall in Hall.
  destruct (Hall _ Hin) as (sigs & TS & Hnn & Hok). cbn [task_signatures] in TS.
  exists ods, sigs. split; [exact GO|]. split; [exact TS|]. split; [exact Hnn|].
  intros sig Hs. rewrite Forall_forall in Hok. destruct (Hok sig Hs) as [Hk He]. split; [exact Hk|].
  unfold sig_result in He. cbn [verify_sig] in He.
  destruct (verify_group_sig_sound _ _ _ _ _ _ _ _ _ _ _ He) as (o & im & minid & A & _).
  exists o, im, minid. split; [exact A|]. cbv zeta.
  apply object_ids_match_spec. exact (sa_ids _ _ _ _ _ _ _ _ _ _ _ _ _ _ A eq_refl).
Qed.

(* the consequences spelled out as refusals *)
Corollary ungrouped_object_refused m st ts rs e d :
  In d (m_rds m) -> d_used d = true -> group_of_raw (d_group d) = 0 -> d_type d <> DataSignature ->
  vfy m st strict ts = (rs, e) -> e <> None.
Proof.
  intros Hin Hu Hg Ht V ->. destruct (verify_ok _ _ _ _ _ _ _ _ _ _ _ _ V) as (HU & _). eauto.
Qed.

Corollary unsigned_group_refused m st ts rs e g :
  new_verifier m default_opts = inl ts -> In g (group_ids m) ->
  (forall sigs, group_signatures is_legacy m st g false <> inl sigs) ->
  vfy m st strict ts = (rs, e) -> e <> None.
Proof.
  intros NV Hg Hno V ->. destruct (default_verification_covers _ _ _ _ NV V) as (_ & _ & Hc).
  destruct (Hc g Hg) as (ods & sigs & _ & GS & _). eapply Hno; eauto.
Qed.

Corollary uncovered_member_refused m st ts rs e g ods sigs sig d :
  new_verifier m default_opts = inl ts -> In g (group_ids m) ->
  group_objects m g = inl ods -> In d (map fst ods) ->
  group_signatures is_legacy m st g false = inl sigs -> In sig sigs ->
  (* the signature, whatever it opens to, does not list d *)
  (forall o im minid, accepted m st g ods false sig (classify (obj_bytes sig st)) o im minid ->
     ~ In (d_id d) (map (fun om => wrap_u32 (minid + om_relid om)) (im_objects im))) ->
  vfy m st strict ts = (rs, e) -> e <> None.
Proof.
  intros NV Hg GO Hd GS Hs Hno V ->. destruct (default_verification_covers _ _ _ _ NV V) as (_ & _ & Hc).
  destruct (Hc g Hg) as (ods' & sigs' & GO' & GS' & _ & Hall).
  rewrite GO in GO'. injection GO' as <-. rewrite GS in GS'. injection GS' as <-.
  destruct (Hall sig Hs) as (_ & o & im & minid & A & H1 & _).
  apply in_map_iff in Hd as (p & <- & Hp). exact (Hno o im minid A (H1 p Hp)).
Qed.

Corollary missing_signed_object_refused m st ts rs e g ods sigs sig :
  new_verifier m default_opts = inl ts -> In g (group_ids m) ->
  group_objects m g = inl ods ->
  group_signatures is_legacy m st g false = inl sigs -> In sig sigs ->
  (* the signature lists an object that is no longer a member *)
  (forall o im minid, accepted m st g ods false sig (classify (obj_bytes sig st)) o im minid ->
     exists id, In id (map (fun om => wrap_u32 (minid + om_relid om)) (im_objects im)) /\
                ~ In id (map (fun p => d_id (fst p)) ods)) ->
  vfy m st strict ts = (rs, e) -> e <> None.
Proof.
  intros NV Hg GO GS Hs Hmiss V ->. destruct (default_verification_covers _ _ _ _ NV V) as (_ & _ & Hc).
  destruct (Hc g Hg) as (ods' & sigs' & GO' & GS' & _ & Hall).
  rewrite GO in GO'. injection GO' as <-. rewrite GS in GS'. injection GS' as <-.
  destruct (Hall sig Hs) as (_ & o & im & minid & A & _ & H2).
  destruct (Hmiss o im minid A) as (id & Hid & Hnot). destruct (H2 id Hid) as (p & Hp & <-).
  apply Hnot. apply in_map_iff. eauto.
Qed.

End C05.

(* Persist.v — a live object keeps its slot, ID, attributes and content until
   it is deleted; set-operations change only the metadata bytes and the
   modification time of their targets. *)
From Coq Require Import List ZArith Lia Bool.
From Coq.Init Require Import Byte.
From Sif Require Import Bytes BytesFacts Store StoreFacts Format FormatFacts Image ImageFacts
     SelectFacts Machine Inv InvCommon InvSet InvDelete InvAdd InvLoad InvCreate Reach.
Import ListNotations.
Local Open Scope Z_scope.

(* everything but the type-specific metadata and the modification time *)
Definition same_but_meta (d d' : rdesc) : Prop :=
  d_type d' = d_type d /\ d_used d' = d_used d /\ d_id d' = d_id d /\ d_group d' = d_group d /\
  d_link d' = d_link d /\ d_off d' = d_off d /\ d_size d' = d_size d /\
  d_sizepad d' = d_sizepad d /\ d_ctime d' = d_ctime d /\ d_uid d' = d_uid d /\
  d_gid d' = d_gid d /\ d_name d' = d_name d.

Lemma same_but_meta_refl d : same_but_meta d d.
Proof. unfold same_but_meta. repeat split. Qed.

Lemma same_but_meta_set d e t : same_but_meta d (set_extra_mtime d e t).
Proof. unfold same_but_meta, set_extra_mtime. cbn. repeat split. Qed.

(* the objects an operation may legitimately change or remove *)
Definition set_target (x : op) (d : rdesc) : Prop :=
  match x with
  | OpSetMeta id _ _ _ | OpSetOCI id _ _ _ => d_id d = id
  | OpSetPrim id _ _ => d_id d = id \/ is_partition_of_type d PartPrimSys = true
  | _ => False
  end.

Definition deleted_by (x : op) (r : result) (d : rdesc) : Prop :=
  match x with
  | OpDelete sel _ _ _ _ => r = Ok /\ del sel d = true
  | _ => False
  end.

Lemma find_one_sid rds id i d : find_one (sel_eval (SID id)) rds = inl (i, d) -> d_id d = id.
Proof.
  intro H. apply find_one_found in H as [Hm _].
  assert (In d (matching (sel_eval (SID id)) rds)) by (rewrite Hm; simpl; auto).
  unfold matching in H. apply filter_In in H as [_ H]. apply andb_true_iff in H as [_ H].
  cbn in H. destruct (id =? 0); [discriminate|]. cbn in H.
  destruct (Z.eqb_spec (d_id d) id); [assumption | discriminate].
Qed.

Lemma find_one_prim rds i d :
  find_one (sel_eval (SPartType PartPrimSys)) rds = inl (i, d) ->
  is_partition_of_type d PartPrimSys = true.
Proof.
  intro H. apply find_one_found in H as [Hm _].
  assert (In d (matching (sel_eval (SPartType PartPrimSys)) rds)) by (rewrite Hm; simpl; auto).
  unfold matching in H. apply filter_In in H as [_ H]. apply andb_true_iff in H as [_ H].
  cbn in H. destruct (is_partition_of_type d PartPrimSys); [reflexivity | discriminate].
Qed.

(* updating one slot by a metadata change *)
Lemma set_nth_meta rds i d d' :
  nth_error rds i = Some d -> same_but_meta d d' ->
  forall j x0, nth_error rds j = Some x0 ->
    exists x1, nth_error (set_nth i d' rds) j = Some x1 /\ same_but_meta x0 x1 /\ (j <> i -> x1 = x0).
Proof.
  intros N S j x0 Nj. rewrite nth_error_set_nth. destruct (Nat.eqb_spec i j) as [->|Ne].
  - assert (Hl : Nat.ltb j (length rds) = true) by (apply Nat.ltb_lt, nth_error_Some; congruence).
    rewrite Hl. exists d'. assert (x0 = d) by congruence. subst x0.
    split; [reflexivity|]. split; [exact S | congruence].
  - exists x0. split; [exact Nj|]. split; [apply same_but_meta_refl | reflexivity].
Qed.

Section WithDigest.
Variable sha256 : list byte -> list byte.
Variable sha_len : forall c, length (sha256 c) = 32%nat.

(* descriptors after a set-operation *)
Lemma set_ops_descriptors m x m' r evs :
  (exists id md o now, x = OpSetMeta id md o now) \/ (exists id t o now, x = OpSetOCI id t o now) \/
  (exists id o now, x = OpSetPrim id o now) ->
  plan_op sha256 m x = (m', r, evs) ->
  forall j x0, nth_error (m_rds m) j = Some x0 ->
    exists x1, nth_error (m_rds m') j = Some x1 /\ same_but_meta x0 x1 /\
               (d_used x0 = false \/ ~ set_target x x0 -> x1 = x0).
Proof.
  assert (Same : forall j x0, nth_error (m_rds m) j = Some x0 ->
            exists x1, nth_error (m_rds m) j = Some x1 /\ same_but_meta x0 x1 /\
                       (d_used x0 = false \/ ~ set_target x x0 -> x1 = x0)).
  { intros j x0 N. exists x0. split; [exact N|]. split; [apply same_but_meta_refl | reflexivity]. }
  assert (Meta : forall id md o now,
            plan_setmeta sha256 m id md o now = (m', r, evs) ->
            forall j x0, nth_error (m_rds m) j = Some x0 ->
              exists x1, nth_error (m_rds m') j = Some x1 /\ same_but_meta x0 x1 /\
                         (d_used x0 = false \/ d_id x0 <> id -> x1 = x0)).
  { intros id md o now. unfold plan_setmeta.
    destruct (find_one (sel_eval (SID id)) (m_rds m)) as [[i d]|e] eqn:F.
    - destruct (new_extra sha256 (d_extra d) md []) as [extra|e] eqn:E.
      + unfold finish. cbn. intro H; inversion H; subst m' r evs; clear H. cbn [m_rds].
        intros j x0 N. pose proof (find_one_used _ _ _ _ F) as [Ni Ui].
        destruct (set_nth_meta (m_rds m) i d _ Ni (same_but_meta_set d extra (resolve_time (m_hdr m) o now)) j x0 N)
          as (x1 & N1 & S1 & E1).
        exists x1. split; [exact N1|]. split; [exact S1|]. intros Hnt. apply E1. intro; subst j.
        assert (x0 = d) by congruence. subst x0. pose proof (find_one_sid _ _ _ _ F).
        destruct Hnt; congruence.
      + intro H; inversion H; subst. intros j x0 N. exists x0. split; [exact N|].
        split; [apply same_but_meta_refl | reflexivity].
    - intro H; inversion H; subst. intros j x0 N. exists x0. split; [exact N|].
      split; [apply same_but_meta_refl | reflexivity]. }
  intros [(id & md & o & now & ->)|[(id & t & o & now & ->)|(id & o & now & ->)]]; cbn [plan_op].
  - intros P j x0 N. destruct (Meta id md o now P j x0 N) as (x1 & A & B & C). exists x1. auto.
  - unfold plan_setoci.
    destruct (find_one (sel_eval (SID id)) (m_rds m)) as [[i d]|e] eqn:F.
    + destruct (negb (is_oci_type (d_type d))).
      * intro H; inversion H; subst. apply Same.
      * intros P j x0 N. destruct (Meta id (MdRaw t) o now P j x0 N) as (x1 & A & B & C). exists x1. auto.
    + intro H; inversion H; subst. apply Same.
  - unfold plan_setprim.
    destruct (find_one (sel_eval (SID id)) (m_rds m)) as [[i d]|e] eqn:F;
      [|intro H; inversion H; subst; apply Same].
    destruct (negb (d_type d =? DataPartition)); [intro H; inversion H; subst; apply Same|].
    destruct (part_type (d_extra d) =? PartPrimSys) eqn:Pp; [intro H; inversion H; subst; apply Same|].
    destruct (negb (part_type (d_extra d) =? PartSystem)); [intro H; inversion H; subst; apply Same|].
    pose proof (find_one_used _ _ _ _ F) as [Ni Ui]. pose proof (find_one_sid _ _ _ _ F) as Idd.
    set (t := resolve_time (m_hdr m) o now).
    destruct (find_one (sel_eval (SPartType PartPrimSys)) (m_rds m)) as [[k dk]|e] eqn:F2.
    + pose proof (find_one_used _ _ _ _ F2) as [Nk Uk]. pose proof (find_one_prim _ _ _ F2) as Pk.
      intro H; inversion H; subst m' r evs; clear H. cbn [m_rds].
      intros j x0 N.
      assert (Nik : i <> k).
      { intro; subst k. assert (dk = d) by congruence. subst dk.
        unfold is_partition_of_type in Pk. apply andb_true_iff in Pk as [_ Pk]. congruence. }
      destruct (set_nth_meta (m_rds m) k dk (with_parttype dk PartSystem t) Nk
                  (same_but_meta_set dk _ t) j x0 N) as (x1 & N1 & S1 & E1).
      assert (Ni1 : nth_error (set_nth k (with_parttype dk PartSystem t) (m_rds m)) i = Some d)
        by (rewrite nth_error_set_nth_neq; [exact Ni | congruence]).
      destruct (set_nth_meta _ i d (with_parttype d PartPrimSys t) Ni1 (same_but_meta_set d _ t) j x1 N1)
        as (x2 & N2 & S2 & E2).
      exists x2. split; [exact N2|]. split.
      * destruct S1 as (a1&a2&a3&a4&a5&a6&a7&a8&a9&a10&a11&a12), S2 as (b1&b2&b3&b4&b5&b6&b7&b8&b9&b10&b11&b12).
        unfold same_but_meta. repeat split; congruence.
      * intro Hnt.
        assert (j <> i).
        { intro; subst j. assert (x0 = d) by congruence. subst x0. destruct Hnt as [Hu|Hn]; [congruence|].
          apply Hn. cbn. left. exact Idd. }
        assert (j <> k).
        { intro; subst j. assert (x0 = dk) by congruence. subst x0. destruct Hnt as [Hu|Hn]; [congruence|].
          apply Hn. cbn. right. exact Pk. }
        rewrite E2 by assumption. apply E1. assumption.
    + destruct e; try (intro H; inversion H; subst; apply Same).
      intro H; inversion H; subst m' r evs; clear H. cbn [m_rds].
      intros j x0 N.
      destruct (set_nth_meta (m_rds m) i d (with_parttype d PartPrimSys t) Ni (same_but_meta_set d _ t) j x0 N)
        as (x1 & N1 & S1 & E1).
      exists x1. split; [exact N1|]. split; [exact S1|]. intro Hnt. apply E1. intro; subst j.
      assert (x0 = d) by congruence. subst x0. destruct Hnt as [Hu|Hn]; [congruence|].
      apply Hn. cbn. left. exact Idd.
Qed.

(* The persistence theorem. *)
Theorem step_persist s x s' r :
  Inv s -> wf_op s x -> step sha256 s x = (s', r) ->
  forall j d, used_at (m_rds (s_mem s)) j d -> ~ deleted_by x r d ->
    exists d', used_at (m_rds (s_mem s')) j d' /\ same_but_meta d d' /\
               (~ set_target x d -> d' = d) /\
               nread (Z.to_nat (d_off d)) (Z.to_nat (d_size d)) (f_bytes (s_io s')) =
               nread (Z.to_nat (d_off d)) (Z.to_nat (d_size d)) (f_bytes (s_io s)).
Proof.
  intros I Wo St j d U ND. destruct I as [W C].
  assert (I : Inv s) by (split; assumption).
  pose proof (wf_layout _ W j d U) as (L1 & L2 & L3).
  pose proof (wf_dataoff _ W) as Wdo. pose proof (wf_descoff _ W) as Wdf.
  pose proof (wf_descsize _ W) as Wds. pose proof (wf_total _ W) as Wt.
  (* bytes of a live region survive anything that leaves [dataoff, ...) within the file alone *)
  assert (Bytes : (forall a n, (a + n <= length (f_bytes (s_io s)))%nat ->
                      (Z.to_nat (h_dataoff (m_hdr (s_mem s))) <= a)%nat ->
                      nread a n (f_bytes (s_io s')) = nread a n (f_bytes (s_io s))) ->
                  nread (Z.to_nat (d_off d)) (Z.to_nat (d_size d)) (f_bytes (s_io s')) =
                  nread (Z.to_nat (d_off d)) (Z.to_nat (d_size d)) (f_bytes (s_io s))).
  { intro Fr. destruct (Z_lt_le_dec 0 (d_size d)) as [S|S].
    - pose proof (coh_infile _ _ C j d U S). apply Fr; lia.
    - replace (Z.to_nat (d_size d)) with O by lia. reflexivity. }
  destruct x.
  - (* add *)
    destruct Wo as (T & Wd & Fit).
    destruct (add_inv sha256 sha_len s di o now s' r I T Wd Fit St) as (_ & _ & Fr & Rej & Acc).
    assert (By : nread (Z.to_nat (d_off d)) (Z.to_nat (d_size d)) (f_bytes (s_io s')) =
                 nread (Z.to_nat (d_off d)) (Z.to_nat (d_size d)) (f_bytes (s_io s))).
    { destruct (Z_lt_le_dec 0 (d_size d)) as [S|S].
      - pose proof (coh_infile _ _ C j d U S).
        assert (d_off d + d_size d <= data_end (m_hdr (s_mem s)) (m_rds (s_mem s))).
        { destruct U as [Hn Hu]. apply data_end_member; [eapply nth_error_In; eauto | exact Hu]. }
        apply Fr; lia.
      - replace (Z.to_nat (d_size d)) with O by lia. reflexivity. }
    destruct r as [|e].
    + destruct (Acc eq_refl) as (slot & off & extra & Ns & _ & _ & R1 & _).
      exists d. split; [|split; [apply same_but_meta_refl | split; [reflexivity | exact By]]].
      destruct U as [Hn Hu]. split; [|exact Hu]. rewrite R1.
      rewrite nth_error_set_nth_neq; [exact Hn|].
      intro E. rewrite <- E in Hn.
      destruct (first_unused_spec (m_rds (s_mem s))) as [_ F2]. specialize (F2 d Hn). congruence.
    + rewrite (Rej ltac:(discriminate)).
      exists d. split; [exact U|]. split; [apply same_but_meta_refl|]. split; [reflexivity | exact By].
  - (* delete *)
    cbn [wf_op] in Wo.
    destruct (delete_inv sha256 s sel zero compact o now s' r I Wo St) as (_ & Rej & Acc).
    destruct r as [|e].
    + destruct (Acc eq_refl) as (R1 & Sv & _).
      assert (Dd : del sel d = false).
      { destruct (del sel d) eqn:E; [|reflexivity]. exfalso. apply ND. cbn. auto. }
      pose proof (used_at_survives sel _ j d U Dd) as U1. rewrite <- R1 in U1.
      exists d. split; [exact U1|]. split; [apply same_but_meta_refl|]. split; [reflexivity|].
      apply (Sv j d U1).
    + rewrite (Rej ltac:(discriminate)).
      exists d. split; [exact U|]. split; [apply same_but_meta_refl|]. split; reflexivity.
  - (* setprim *)
    cbn [wf_op] in Wo.
    destruct (setprim_inv sha256 s id o now s' r I Wo St) as (_ & _ & Fr).
    unfold step in St.
    destruct (plan_op sha256 (s_mem s) (OpSetPrim id o now)) as [[m' r'] evs] eqn:P.
    destruct U as [Hn Hu].
    destruct (set_ops_descriptors (s_mem s) _ m' r' evs
                (or_intror (or_intror (ex_intro _ id (ex_intro _ o (ex_intro _ now eq_refl))))) P j d Hn)
      as (x1 & N1 & S1 & E1).
    unfold exec in St. destruct (run_events (s_backend s) evs (s_io s)) as [io' [|]];
      inversion St; subst s' r; cbn [s_mem m_rds];
      (exists x1; split; [split; [exact N1 | destruct S1 as (_ & Su & _); congruence]|];
       split; [exact S1|]; split; [intro Nt; apply E1; right; exact Nt | apply Bytes, Fr]).
  - (* setmeta *)
    cbn [wf_op] in Wo. destruct Wo as (T & M).
    destruct (setmeta_inv sha256 sha_len s id md o now s' r I T M St) as (_ & _ & Fr).
    unfold step in St.
    destruct (plan_op sha256 (s_mem s) (OpSetMeta id md o now)) as [[m' r'] evs] eqn:P.
    destruct U as [Hn Hu].
    destruct (set_ops_descriptors (s_mem s) _ m' r' evs
                (or_introl (ex_intro _ id (ex_intro _ md (ex_intro _ o (ex_intro _ now eq_refl))))) P j d Hn)
      as (x1 & N1 & S1 & E1).
    unfold exec in St. destruct (run_events (s_backend s) evs (s_io s)) as [io' [|]];
      inversion St; subst s' r; cbn [s_mem m_rds];
      (exists x1; split; [split; [exact N1 | destruct S1 as (_ & Su & _); congruence]|];
       split; [exact S1|]; split; [intro Nt; apply E1; right; exact Nt | apply Bytes, Fr]).
  - (* setoci *)
    cbn [wf_op] in Wo.
    destruct (setoci_inv sha256 sha_len s id text o now s' r I Wo St) as (_ & _ & Fr).
    unfold step in St.
    destruct (plan_op sha256 (s_mem s) (OpSetOCI id text o now)) as [[m' r'] evs] eqn:P.
    destruct U as [Hn Hu].
    destruct (set_ops_descriptors (s_mem s) _ m' r' evs
                (or_intror (or_introl (ex_intro _ id (ex_intro _ text (ex_intro _ o (ex_intro _ now eq_refl)))))) P j d Hn)
      as (x1 & N1 & S1 & E1).
    unfold exec in St. destruct (run_events (s_backend s) evs (s_io s)) as [io' [|]];
      inversion St; subst s' r; cbn [s_mem m_rds];
      (exists x1; split; [split; [exact N1 | destruct S1 as (_ & Su & _); congruence]|];
       split; [exact S1|]; split; [intro Nt; apply E1; right; exact Nt | apply Bytes, Fr]).
  - (* reload *)
    rewrite (reload_identity sha256 s I) in St. inversion St; subst.
    exists d. split; [exact U|]. split; [apply same_but_meta_refl|]. split; reflexivity.
Qed.

End WithDigest.

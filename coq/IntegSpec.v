(* IntegSpec.v — the field lists of the integrity streams as the model has them
   (Integrity.header_stream / desc_stream, in order), the digest algorithms and
   clear-sign hashes it knows, compared with the lists the translator extracts
   from pkg/sif/sif.go, pkg/sif/descriptor.go, pkg/integrity/digest.go and
   pkg/integrity/clearsign.go on every run. *)
From Coq Require Import List String.
From Sif Require gen.IntegGen.
Import ListNotations.
Local Open Scope string_scope.

Definition spec_header_protected : list string := ["LaunchScript"; "Magic"; "Version"; "ID"].
Definition spec_desc_protected : list string :=
  ["raw.DataType"; "raw.Used"; "relativeID"; "raw.LinkedID"; "raw.Size"; "raw.CreatedAt";
   "raw.UID"; "raw.GID"; "raw.Name"; "raw.Extra"].
Definition spec_supported_digests : list string :=
  ["sha224=SHA-224"; "sha256=SHA-256"; "sha384=SHA-384"; "sha512=SHA-512";
   "sha512_224=SHA-512/224"; "sha512_256=SHA-512/256"].
Definition spec_clearsign_hashes : list string := ["SHA224"; "SHA256"; "SHA384"; "SHA512"].
Definition spec_media_type : string := "application/vnd.sylabs.sif-metadata+json".

Lemma source_integrity_tables_match :
  IntegGen.gen_header_protected = spec_header_protected /\
  IntegGen.gen_desc_protected = spec_desc_protected /\
  IntegGen.gen_supported_digests = spec_supported_digests /\
  IntegGen.gen_clearsign_hashes = spec_clearsign_hashes /\
  IntegGen.gen_media_type = spec_media_type.
Proof. repeat split; reflexivity. Qed.

(* StoreFacts.v — length, read-after-write and frame lemmas for Store.v. *)
From Coq Require Import List ZArith Lia Bool.
From Coq.Init Require Import Byte.
From Sif Require Import Bytes BytesFacts Store.
Import ListNotations.

Lemma length_nread o n st : length (nread o n st) = Nat.min n (length st - o).
Proof. unfold nread. rewrite firstn_length, skipn_length. reflexivity. Qed.

Lemma length_nread_in o n st : o + n <= length st -> length (nread o n st) = n.
Proof. intro H. rewrite length_nread. lia. Qed.

Lemma length_nwrite o bs st :
  length (nwrite o bs st) = Nat.max (length st) (o + length bs).
Proof.
  unfold nwrite. rewrite !app_length, firstn_length, length_zeros, skipn_length. lia.
Qed.

Lemma length_ntrunc n st : length (ntrunc n st) = n.
Proof. unfold ntrunc. rewrite app_length, firstn_length, length_zeros. lia. Qed.

Lemma nth_error_firstn {A} (l : list A) n i :
  nth_error (firstn n l) i = if Nat.ltb i n then nth_error l i else None.
Proof.
  revert l i; induction n as [|n IH]; intros l i.
  - simpl. destruct i; reflexivity.
  - destruct l as [|x l]; simpl.
    + destruct i; simpl; [reflexivity|]. destruct (Nat.ltb (S i) (S n)); reflexivity.
    + destruct i as [|i]; simpl; [reflexivity|]. rewrite IH.
      change (Nat.ltb (S i) (S n)) with (Nat.ltb i n). reflexivity.
Qed.

Lemma nth_error_skipn {A} (l : list A) n i :
  nth_error (skipn n l) i = nth_error l (n + i).
Proof.
  revert l; induction n as [|n IH]; intro l; simpl; [reflexivity|].
  destruct l as [|x l]; [destruct i; reflexivity | apply IH].
Qed.

Lemma nth_error_zeros n i :
  nth_error (zeros n) i = if Nat.ltb i n then Some x00 else None.
Proof.
  unfold zeros. destruct (Nat.ltb_spec i n) as [H|H].
  - now apply nth_error_repeat.
  - apply nth_error_None. rewrite repeat_length. lia.
Qed.

(* pointwise extensionality for lists through nth_error *)
Lemma nth_error_ext {A} (l1 l2 : list A) :
  (forall i, nth_error l1 i = nth_error l2 i) -> l1 = l2.
Proof.
  revert l2; induction l1 as [|x l1 IH]; intros [|y l2] H.
  - reflexivity.
  - specialize (H 0). discriminate.
  - specialize (H 0). discriminate.
  - f_equal.
    + specialize (H 0). simpl in H. now inversion H.
    + apply IH. intro i. exact (H (S i)).
Qed.

(* the byte at position i after a positional write *)
Lemma byte_at_nwrite o bs st i :
  byte_at i (nwrite o bs st) =
    if Nat.ltb i o then
      (if Nat.ltb i (length st) then byte_at i st else Some x00)
    else if Nat.ltb i (o + length bs) then nth_error bs (i - o)
    else byte_at i st.
Proof.
  unfold byte_at, nwrite.
  destruct (Nat.ltb_spec i o) as [Hio|Hio].
  - destruct (Nat.ltb_spec i (length st)) as [Hil|Hil].
    + rewrite nth_error_app1 by (rewrite firstn_length; lia).
      rewrite nth_error_firstn. destruct (Nat.ltb_spec i o); [reflexivity|lia].
    + rewrite nth_error_app2 by (rewrite firstn_length; lia).
      rewrite firstn_length.
      rewrite nth_error_app1 by (rewrite length_zeros; lia).
      rewrite nth_error_zeros.
      destruct (Nat.ltb_spec (i - Nat.min o (length st)) (o - length st)); [reflexivity|lia].
  - rewrite nth_error_app2 by (rewrite firstn_length; lia).
    rewrite firstn_length.
    rewrite nth_error_app2 by (rewrite length_zeros; lia).
    rewrite length_zeros.
    replace (i - Nat.min o (length st) - (o - length st)) with (i - o) by lia.
    destruct (Nat.ltb_spec i (o + length bs)) as [Hib|Hib].
    + rewrite nth_error_app1 by lia. reflexivity.
    + rewrite nth_error_app2 by lia. rewrite nth_error_skipn. f_equal. lia.
Qed.

Lemma byte_at_nread o n st i :
  nth_error (nread o n st) i = if Nat.ltb i n then byte_at (o + i) st else None.
Proof.
  unfold nread, byte_at. rewrite nth_error_firstn, nth_error_skipn. reflexivity.
Qed.

(* read-after-write *)
Lemma nread_nwrite_same o bs st : nread o (length bs) (nwrite o bs st) = bs.
Proof.
  apply nth_error_ext. intro i. rewrite byte_at_nread, byte_at_nwrite.
  destruct (Nat.ltb_spec i (length bs)) as [H|H].
  - destruct (Nat.ltb_spec (o + i) o); [lia|].
    destruct (Nat.ltb_spec (o + i) (o + length bs)); [|lia].
    f_equal. lia.
  - symmetry. apply nth_error_None. lia.
Qed.

(* frame: a write leaves every in-range region that it does not overlap *)
Lemma nread_nwrite_frame o bs st a n :
  a + n <= length st ->
  a + n <= o \/ o + length bs <= a ->
  nread a n (nwrite o bs st) = nread a n st.
Proof.
  intros Hin Hdis. apply nth_error_ext. intro i.
  rewrite !byte_at_nread. destruct (Nat.ltb_spec i n) as [Hi|Hi]; [|reflexivity].
  rewrite byte_at_nwrite.
  destruct (Nat.ltb_spec (a + i) o) as [H1|H1].
  - destruct (Nat.ltb_spec (a + i) (length st)); [reflexivity|lia].
  - destruct (Nat.ltb_spec (a + i) (o + length bs)); [lia|reflexivity].
Qed.

(* a region of length 0 is always unchanged *)
Lemma nread_zero o st : nread o 0 st = [].
Proof. reflexivity. Qed.

Lemma byte_at_ntrunc n st i :
  byte_at i (ntrunc n st) =
    if Nat.ltb i n then (if Nat.ltb i (length st) then byte_at i st else Some x00) else None.
Proof.
  unfold byte_at, ntrunc.
  destruct (Nat.ltb_spec i n) as [Hn|Hn].
  - destruct (Nat.ltb_spec i (length st)) as [Hl|Hl].
    + rewrite nth_error_app1 by (rewrite firstn_length; lia).
      rewrite nth_error_firstn. destruct (Nat.ltb_spec i n); [reflexivity|lia].
    + rewrite nth_error_app2 by (rewrite firstn_length; lia).
      rewrite firstn_length, nth_error_zeros.
      destruct (Nat.ltb_spec (i - Nat.min n (length st)) (n - length st)); [reflexivity|lia].
  - apply nth_error_None. rewrite app_length, firstn_length, length_zeros. lia.
Qed.

(* truncation at or beyond the end of a region leaves it unchanged *)
Lemma nread_ntrunc_frame m st a n :
  a + n <= length st -> a + n <= m ->
  nread a n (ntrunc m st) = nread a n st.
Proof.
  intros Hin Hm. apply nth_error_ext. intro i.
  rewrite !byte_at_nread. destruct (Nat.ltb_spec i n) as [Hi|Hi]; [|reflexivity].
  rewrite byte_at_ntrunc.
  destruct (Nat.ltb_spec (a + i) m); [|lia].
  destruct (Nat.ltb_spec (a + i) (length st)); [reflexivity|lia].
Qed.

(* a write of a prefix followed by the rest equals the whole write:
   io.Copy's chunking does not matter *)
Lemma nwrite_split o b1 b2 st :
  nwrite (o + length b1) b2 (nwrite o b1 st) = nwrite o (b1 ++ b2) st.
Proof.
  apply nth_error_ext. intro i. change (nth_error ?l i) with (byte_at i l).
  rewrite !byte_at_nwrite, length_nwrite, app_length.
  destruct (Nat.ltb_spec i (o + length b1)) as [H1|H1].
  - destruct (Nat.ltb_spec i (Nat.max (length st) (o + length b1))) as [H2|H2]; [|lia].
    destruct (Nat.ltb_spec i o) as [H3|H3]; [reflexivity|].
    destruct (Nat.ltb_spec i (o + (length b1 + length b2))); [|lia].
    rewrite nth_error_app1 by lia. reflexivity.
  - destruct (Nat.ltb_spec i o); [lia|].
    destruct (Nat.ltb_spec i (o + length b1 + length b2)) as [H4|H4].
    + destruct (Nat.ltb_spec i (o + (length b1 + length b2))); [|lia].
      rewrite nth_error_app2 by lia. f_equal. lia.
    + destruct (Nat.ltb_spec i (o + (length b1 + length b2))); [lia|].
      reflexivity.
Qed.

(* reading a sub-range of a range *)
Lemma nread_nread o n st a k :
  a + k <= n -> nread a k (nread o n st) = nread (o + a) k st.
Proof.
  intro H. apply nth_error_ext. intro i. rewrite !byte_at_nread.
  destruct (Nat.ltb_spec i k) as [Hi|Hi]; [|reflexivity].
  unfold byte_at. rewrite byte_at_nread.
  destruct (Nat.ltb_spec (a + i) n); [|lia]. unfold byte_at. f_equal. lia.
Qed.

Lemma nread_all st : nread 0 (length st) st = st.
Proof. unfold nread. simpl. apply firstn_all. Qed.

Lemma nread_app_l o n a b :
  o + n <= length a -> nread o n (a ++ b) = nread o n a.
Proof.
  intro H. apply nth_error_ext. intro i. rewrite !byte_at_nread.
  destruct (Nat.ltb_spec i n); [|reflexivity]. unfold byte_at.
  apply nth_error_app1. lia.
Qed.

Lemma nread_app_r o n a b :
  length a <= o -> nread o n (a ++ b) = nread (o - length a) n b.
Proof.
  intro H. apply nth_error_ext. intro i. rewrite !byte_at_nread.
  destruct (Nat.ltb_spec i n); [|reflexivity]. unfold byte_at.
  rewrite nth_error_app2 by lia. f_equal. lia.
Qed.

(* reads of adjacent ranges concatenate *)
Lemma nread_concat o n m st :
  o + n + m <= length st -> nread o n st ++ nread (o + n) m st = nread o (n + m) st.
Proof.
  intro H. apply nth_error_ext. intro i.
  destruct (Nat.ltb_spec i n) as [Hi|Hi].
  - rewrite nth_error_app1 by (rewrite length_nread_in; lia).
    rewrite !byte_at_nread.
    destruct (Nat.ltb_spec i n); [|lia]. destruct (Nat.ltb_spec i (n + m)); [reflexivity|lia].
  - rewrite nth_error_app2 by (rewrite length_nread_in; lia).
    rewrite length_nread_in by lia. rewrite !byte_at_nread.
    destruct (Nat.ltb_spec (i - n) m); destruct (Nat.ltb_spec i (n + m)); try lia; [|reflexivity].
    f_equal. lia.
Qed.

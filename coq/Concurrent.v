(* Concurrent.v — C18: the read-only facilities as the model has them.  Every
   read-only call is a function of the handle and the storage and returns the
   state unchanged, so the result of a call does not depend on what other
   read-only calls ran before, between or after it: any interleaving of the
   calls of any number of clients gives each call the answer it gets alone. *)
From Coq Require Import List ZArith Bool.
From Coq.Init Require Import Byte.
From Sif Require Import Bytes Store Format Image Machine Integrity.
Import ListNotations.
Local Open Scope Z_scope.

Section ReadOnly.

Variable hash : halg -> list byte -> list byte.
Variable classify : list byte -> sigkind.
Variable is_legacy : list byte -> bool.
Variable open_dsse : Z -> list byte -> option (list byte * list Z).
Variable open_pgp : list byte -> option (list byte * list byte).
Variable parse_md : list byte -> option imd.
Variable has_dsse_keys : bool.
Variable has_pgp_keys : bool.

(* the read-only facilities *)
Inductive rcall :=
| RDescriptors (sels : list selector)          (* GetDescriptors / WithDescriptors *)
| RDescriptor (sels : list selector)           (* GetDescriptor *)
| RHeader                                      (* the header accessors *)
| RData (slot : nat)                           (* Descriptor.GetData *)
| RReader (slot : nat)                         (* Descriptor.GetReader, read to the end *)
| RStream (slot : nat)                         (* Descriptor.GetIntegrityReader *)
| RHeaderStream                                (* GetHeaderIntegrityReader *)
| RSignedBy (vo : vopts) (any : bool)          (* NewVerifier; AnySignedBy / AllSignedBy *)
| RVerify (vo : vopts) (ignore : bool).        (* NewVerifier; Verify *)

Inductive ranswer :=
| ADescs (r : list (rdesc * Z) + err)
| ADesc (r : (rdesc * Z) + err)
| AHeader (h : header)
| ABytes (r : option (list byte + err))
| AFingerprints (r : list (list byte) + ierr)
| AVerify (r : (list vresult * option ierr) + ierr).

Definition answer (c : rcall) (s : state) : ranswer :=
  let m := s_mem s in
  let st := f_bytes (s_io s) in
  match c with
  | RDescriptors sels => ADescs (get_descriptors m sels)
  | RDescriptor sels => ADesc (get_descriptor m sels)
  | RHeader => AHeader (m_hdr m)
  | RData i => ABytes (match nth_error (m_rds m) i with Some d => Some (get_data d st) | None => None end)
  | RReader i => ABytes (match nth_error (m_rds m) i with Some d => Some (section_bytes d st) | None => None end)
  | RStream i => ABytes (match nth_error (m_rds m) i with
                         | Some d => Some (inl (desc_stream d (relative_id (m_minids m) d)))
                         | None => None end)
  | RHeaderStream => ABytes (Some (inl (header_stream (m_hdr m))))
  | RSignedBy vo any =>
      AFingerprints (match new_verifier m vo with
                     | inr e => inr e
                     | inl ts => signed_by is_legacy m st ts any
                     end)
  | RVerify vo ign =>
      AVerify (match new_verifier m vo with
               | inr e => inr e
               | inl ts => inl (verify hash classify is_legacy open_dsse open_pgp parse_md
                                       has_dsse_keys has_pgp_keys m st (fun _ => ign) ts)
               end)
  end.

(* a read-only call as a step of the machine: the state is returned as it was *)
Definition rstep (s : state) (c : rcall) : state * ranswer := (s, answer c s).

(* a schedule: which client issues which call next *)
Definition schedule := list (nat * rcall).

Fixpoint run_schedule (s : state) (sch : schedule) : state * list (nat * ranswer) :=
  match sch with
  | [] => (s, [])
  | (client, c) :: r =>
      let '(s1, a) := rstep s c in
      let '(s2, rest) := run_schedule s1 r in
      (s2, (client, a) :: rest)
  end.

Theorem any_interleaving_equals_alone s sch :
  run_schedule s sch = (s, map (fun tc => (fst tc, answer (snd tc) s)) sch).
Proof.
  induction sch as [|[client c] r IH]; cbn [run_schedule map fst snd]; [reflexivity|].
  unfold rstep. now rewrite IH.
Qed.

(* in particular: what one client sees is what it sees with the others removed *)
Corollary client_view_independent s sch client :
  filter (fun ta => Nat.eqb (fst ta) client) (snd (run_schedule s sch)) =
  snd (run_schedule s (filter (fun tc => Nat.eqb (fst tc) client) sch)).
Proof.
  rewrite !any_interleaving_equals_alone. cbn [snd].
  induction sch as [|[cl c] r IH]; cbn [map filter fst snd]; [reflexivity|].
  destruct (Nat.eqb cl client); cbn [map fst snd]; now rewrite IH.
Qed.

End ReadOnly.

(* Format.v — the SIF v1 on-disk format: constants, header and descriptor
   records, their byte codecs, and the generic layout-driven encoder the
   regenerated layout tables are compared against (SpecV1 part). *)
From Coq Require Import List ZArith Lia Bool String.
From Coq.Init Require Import Byte.
From Sif Require Import Bytes Store.
Import ListNotations.
Local Open Scope list_scope.
Local Notation length := List.length.
Local Open Scope Z_scope.

(* ---------- constants (hand-written SIF v1 specification) ---------- *)

Definition hdr_size : nat := 128.
Definition desc_size : nat := 585.
Definition launch_len : nat := 32.
Definition magic_len : nat := 10.
Definition version_len : nat := 3.
Definition arch_len : nat := 3.
Definition uuid_len : nat := 16.
Definition name_len : nat := 128.
Definition extra_len : nat := 384.
Definition entity_len : nat := 256.

Definition magic : list byte := [x53; x49; x46; x5f; x4d; x41; x47; x49; x43; x00]. (* "SIF_MAGIC\0" *)
Definition version_bytes : list byte := [x30; x31; x00].                          (* "01\0" *)
Definition arch_unknown : list byte := [x30; x30; x00].                           (* "00\0" *)
Definition nil_uuid : list byte := zeros 16.

Definition group_mask : Z := 4026531840. (* 0xf0000000 *)
Definition default_group : Z := 1.
Definition default_descoff : Z := 4096.
Definition default_capacity : Z := 48.
Definition zero_time : Z := -62135596800.  (* time.Time{}.Unix() *)
Definition max_u32 : Z := 4294967295.

Definition DataDeffile : Z := 16385.      (* 0x4001 *)
Definition DataEnvVar : Z := 16386.
Definition DataLabels : Z := 16387.
Definition DataPartition : Z := 16388.
Definition DataSignature : Z := 16389.
Definition DataGenericJSON : Z := 16390.
Definition DataGeneric : Z := 16391.
Definition DataCryptoMessage : Z := 16392.
Definition DataSBOM : Z := 16393.
Definition DataOCIRootIndex : Z := 16394.
Definition DataOCIBlob : Z := 16395.

Definition PartSystem : Z := 1.
Definition PartPrimSys : Z := 2.
Definition PartData : Z := 3.
Definition PartOverlay : Z := 4.

(* ---------- layouts ---------- *)

Inductive fkind := KI32 | KU32 | KI64 | KBool | KBytes (n : nat).

Definition ksize (k : fkind) : nat :=
  match k with KI32 | KU32 => 4 | KI64 => 8 | KBool => 1 | KBytes n => n end.

Definition layout := list (string * fkind).

Definition layout_size (l : layout) : nat :=
  fold_right (fun f acc => ksize (snd f) + acc)%nat O l.

Fixpoint field_offsets_from (o : nat) (l : layout) : list nat :=
  match l with
  | [] => []
  | f :: r => o :: field_offsets_from (o + ksize (snd f)) r
  end.
Definition field_offsets (l : layout) : list nat := field_offsets_from 0 l.

Definition v1_header_layout : layout :=
  [ ("LaunchScript", KBytes 32); ("Magic", KBytes 10); ("Version", KBytes 3);
    ("Arch", KBytes 3); ("ID", KBytes 16);
    ("CreatedAt", KI64); ("ModifiedAt", KI64);
    ("DescriptorsFree", KI64); ("DescriptorsTotal", KI64);
    ("DescriptorsOffset", KI64); ("DescriptorsSize", KI64);
    ("DataOffset", KI64); ("DataSize", KI64) ]%string.

Definition v1_desc_layout : layout :=
  [ ("DataType", KI32); ("Used", KBool); ("ID", KU32); ("GroupID", KU32);
    ("LinkedID", KU32); ("Offset", KI64); ("Size", KI64);
    ("SizeWithPadding", KI64); ("CreatedAt", KI64); ("ModifiedAt", KI64);
    ("UID", KI64); ("GID", KI64); ("Name", KBytes 128); ("Extra", KBytes 384) ]%string.

Definition v1_partition_layout : layout :=
  [ ("Fstype", KI32); ("Parttype", KI32); ("Arch", KBytes 3) ]%string.
Definition v1_signature_layout : layout :=
  [ ("Hashtype", KI32); ("Entity", KBytes 256) ]%string.
Definition v1_cryptomsg_layout : layout :=
  [ ("Formattype", KI32); ("Messagetype", KI32) ]%string.
Definition v1_sbom_layout : layout := [ ("Format", KI32) ]%string.

(* literal field positions of SIF v1 *)
Definition v1_header_offsets : list nat := [0; 32; 42; 45; 48; 64; 72; 80; 88; 96; 104; 112; 120]%nat.
Definition v1_desc_offsets : list nat := [0; 4; 5; 9; 13; 17; 25; 33; 41; 49; 57; 65; 73; 201]%nat.

(* generic layout-driven encoder *)
Inductive fval := VZ (z : Z) | VB (b : bool) | VBs (l : list byte).

Definition enc_bool (b : bool) : list byte := [if b then x01 else x00].

Definition enc_field (k : fkind) (v : fval) : list byte :=
  match k, v with
  | KI32, VZ z => le_enc 4 z
  | KU32, VZ z => le_enc 4 z
  | KI64, VZ z => le_enc 8 z
  | KBool, VB b => enc_bool b
  | KBytes n, VBs l => l
  | _, _ => zeros (ksize k)
  end.

Fixpoint encode (l : layout) (vs : list fval) : list byte :=
  match l, vs with
  | f :: l', v :: vs' => enc_field (snd f) v ++ encode l' vs'
  | _, _ => []
  end.

Definition dec_field (k : fkind) (bs : list byte) : fval :=
  match k with
  | KI32 | KI64 => VZ (sle_dec bs)
  | KU32 => VZ (le_dec bs)
  | KBool => VB (negb (all_zero bs))
  | KBytes _ => VBs bs
  end.

Fixpoint decode (l : layout) (bs : list byte) : list fval :=
  match l with
  | [] => []
  | f :: l' => dec_field (snd f) (firstn (ksize (snd f)) bs)
               :: decode l' (skipn (ksize (snd f)) bs)
  end.

(* ---------- header ---------- *)

Record header := mkH {
  h_launch : list byte; h_magic : list byte; h_version : list byte;
  h_arch : list byte; h_id : list byte;
  h_ctime : Z; h_mtime : Z; h_free : Z; h_total : Z;
  h_descoff : Z; h_descsize : Z; h_dataoff : Z; h_datasize : Z }.

Definition header_vals (h : header) : list fval :=
  [ VBs (h_launch h); VBs (h_magic h); VBs (h_version h); VBs (h_arch h); VBs (h_id h);
    VZ (h_ctime h); VZ (h_mtime h); VZ (h_free h); VZ (h_total h);
    VZ (h_descoff h); VZ (h_descsize h); VZ (h_dataoff h); VZ (h_datasize h) ].

Definition enc_header (h : header) : list byte :=
  h_launch h ++ h_magic h ++ h_version h ++ h_arch h ++ h_id h ++
  le_enc 8 (h_ctime h) ++ le_enc 8 (h_mtime h) ++ le_enc 8 (h_free h) ++
  le_enc 8 (h_total h) ++ le_enc 8 (h_descoff h) ++ le_enc 8 (h_descsize h) ++
  le_enc 8 (h_dataoff h) ++ le_enc 8 (h_datasize h).

Definition header_of_vals (vs : list fval) : header :=
  match vs with
  | [VBs a; VBs b; VBs c; VBs d; VBs e; VZ f; VZ g; VZ i; VZ j; VZ k; VZ l; VZ m; VZ n] =>
      mkH a b c d e f g i j k l m n
  | _ => mkH [] [] [] [] [] 0 0 0 0 0 0 0 0
  end.

Definition dec_header (bs : list byte) : header :=
  header_of_vals (decode v1_header_layout bs).

Definition wf_header (h : header) : Prop :=
  length (h_launch h) = 32%nat /\ length (h_magic h) = 10%nat /\
  length (h_version h) = 3%nat /\ length (h_arch h) = 3%nat /\ length (h_id h) = 16%nat /\
  in_i64 (h_ctime h) /\ in_i64 (h_mtime h) /\ in_i64 (h_free h) /\ in_i64 (h_total h) /\
  in_i64 (h_descoff h) /\ in_i64 (h_descsize h) /\ in_i64 (h_dataoff h) /\ in_i64 (h_datasize h).

Definition header_eqb (a b : header) : bool :=
  bytes_eqb (h_launch a) (h_launch b) && bytes_eqb (h_magic a) (h_magic b) &&
  bytes_eqb (h_version a) (h_version b) && bytes_eqb (h_arch a) (h_arch b) &&
  bytes_eqb (h_id a) (h_id b) &&
  (h_ctime a =? h_ctime b) && (h_mtime a =? h_mtime b) && (h_free a =? h_free b) &&
  (h_total a =? h_total b) && (h_descoff a =? h_descoff b) &&
  (h_descsize a =? h_descsize b) && (h_dataoff a =? h_dataoff b) &&
  (h_datasize a =? h_datasize b).

(* ---------- descriptor ---------- *)

Record rdesc := mkD {
  d_type : Z; d_used : bool; d_id : Z; d_group : Z; d_link : Z;
  d_off : Z; d_size : Z; d_sizepad : Z; d_ctime : Z; d_mtime : Z;
  d_uid : Z; d_gid : Z; d_name : list byte; d_extra : list byte }.

Definition zero_desc : rdesc :=
  mkD 0 false 0 0 0 0 0 0 0 0 0 0 (zeros 128) (zeros 384).

Definition desc_vals (d : rdesc) : list fval :=
  [ VZ (d_type d); VB (d_used d); VZ (d_id d); VZ (d_group d); VZ (d_link d);
    VZ (d_off d); VZ (d_size d); VZ (d_sizepad d); VZ (d_ctime d); VZ (d_mtime d);
    VZ (d_uid d); VZ (d_gid d); VBs (d_name d); VBs (d_extra d) ].

Definition enc_desc (d : rdesc) : list byte :=
  le_enc 4 (d_type d) ++ enc_bool (d_used d) ++ le_enc 4 (d_id d) ++
  le_enc 4 (d_group d) ++ le_enc 4 (d_link d) ++ le_enc 8 (d_off d) ++
  le_enc 8 (d_size d) ++ le_enc 8 (d_sizepad d) ++ le_enc 8 (d_ctime d) ++
  le_enc 8 (d_mtime d) ++ le_enc 8 (d_uid d) ++ le_enc 8 (d_gid d) ++
  d_name d ++ d_extra d.

Definition desc_of_vals (vs : list fval) : rdesc :=
  match vs with
  | [VZ a; VB b; VZ c; VZ d; VZ e; VZ f; VZ g; VZ i; VZ j; VZ k; VZ l; VZ m; VBs n; VBs o] =>
      mkD a b c d e f g i j k l m n o
  | _ => zero_desc
  end.

Definition dec_desc (bs : list byte) : rdesc :=
  desc_of_vals (decode v1_desc_layout bs).

Definition wf_desc (d : rdesc) : Prop :=
  in_i32 (d_type d) /\ in_u32 (d_id d) /\ in_u32 (d_group d) /\ in_u32 (d_link d) /\
  in_i64 (d_off d) /\ in_i64 (d_size d) /\ in_i64 (d_sizepad d) /\
  in_i64 (d_ctime d) /\ in_i64 (d_mtime d) /\ in_i64 (d_uid d) /\ in_i64 (d_gid d) /\
  length (d_name d) = 128%nat /\ length (d_extra d) = 384%nat.

Definition desc_eqb (a b : rdesc) : bool :=
  (d_type a =? d_type b) && Bool.eqb (d_used a) (d_used b) && (d_id a =? d_id b) &&
  (d_group a =? d_group b) && (d_link a =? d_link b) && (d_off a =? d_off b) &&
  (d_size a =? d_size b) && (d_sizepad a =? d_sizepad b) && (d_ctime a =? d_ctime b) &&
  (d_mtime a =? d_mtime b) && (d_uid a =? d_uid b) && (d_gid a =? d_gid b) &&
  bytes_eqb (d_name a) (d_name b) && bytes_eqb (d_extra a) (d_extra b).

(* the descriptor table *)
Definition enc_table (rds : list rdesc) : list byte := flat_map enc_desc rds.

Fixpoint dec_table (n : nat) (bs : list byte) : list rdesc :=
  match n with
  | O => []
  | S n' => dec_desc (firstn desc_size bs) :: dec_table n' (skipn desc_size bs)
  end.

(* ---------- descriptor accessors ---------- *)

(* Descriptor.GroupID(): raw &^ mask; the mask is the top four bits *)
Definition group_of_raw (raw : Z) : Z := raw mod 268435456.        (* & 0x0fffffff *)
Definition raw_is_group (raw : Z) : bool := 15 =? raw / 268435456. (* top nibble = 0xf *)
Definition with_mask (g : Z) : Z :=                                 (* g | 0xf0000000 *)
  group_of_raw g + group_mask.

(* ---------- type-specific metadata ---------- *)

Definition enc_partition (fs pt : Z) (arch : list byte) : list byte :=
  le_enc 4 fs ++ le_enc 4 pt ++ arch.
Definition part_fs (extra : list byte) : Z := sle_dec (nread 0 4 extra).
Definition part_type (extra : list byte) : Z := sle_dec (nread 4 4 extra).
Definition part_arch (extra : list byte) : list byte := nread 8 3 extra.

Definition is_partition_of_type (d : rdesc) (pt : Z) : bool :=
  (d_type d =? DataPartition) && (part_type (d_extra d) =? pt).

Definition sig_hashtype (extra : list byte) : Z := sle_dec (nread 0 4 extra).
Definition sig_entity (extra : list byte) : list byte := nread 4 256 extra.
(* SignatureMetadata(): fingerprint = first 20 bytes of the entity; absent if zero *)
Definition sig_fingerprint (extra : list byte) : option (list byte) :=
  let fp := nread 4 20 extra in if all_zero fp then None else Some fp.

(* OCI blob digest text: "sha256:" followed by 64 lower-case hex digits *)
Definition sha256_prefix : list byte := [x73; x68; x61; x32; x35; x36; x3a]. (* "sha256:" *)
Definition valid_digest_text (t : list byte) : bool :=
  bytes_eqb (firstn 7 t) sha256_prefix && Nat.eqb (length t) 71 &&
  forallb is_lower_hex (skipn 7 t).

(* arch table: (Go arch name, two-digit code) *)
Definition arch_table : list (string * string) :=
  [ ("386", "01"); ("amd64", "02"); ("arm", "03"); ("arm64", "04"); ("ppc64", "05");
    ("ppc64le", "06"); ("mips", "07"); ("mipsle", "08"); ("mips64", "09");
    ("mips64le", "10"); ("s390x", "11"); ("riscv64", "12") ]%string.

(* SpecV1.v — hand-written SIF v1 tables (enumerations, names) that the
   regenerated tables in gen/LayoutGen.v are compared with.  The structural
   part of the specification (layouts, magic, sizes) is in Format.v. *)
From Coq Require Import List ZArith String.
From Coq.Init Require Import Byte.
From Sif Require Import Bytes Format.
Import ListNotations.

Definition v1_sizes : list nat := [128; 585; 11; 260; 8; 4]%nat.
Definition v1_lens : list nat := [128; 384; 256; 32]%nat.

Definition v1_datatypes : list (string * Z) :=
  [("Def.FILE", 16385%Z); ("Env.Vars", 16386%Z); ("JSON.Labels", 16387%Z); ("FS", 16388%Z);
   ("Signature", 16389%Z); ("JSON.Generic", 16390%Z); ("Generic/Raw", 16391%Z);
   ("Cryptographic Message", 16392%Z); ("SBOM", 16393%Z); ("OCI.RootIndex", 16394%Z);
   ("OCI.Blob", 16395%Z)]%string.
Definition v1_fstypes : list (string * Z) :=
  [("Squashfs", 1%Z); ("Ext3", 2%Z); ("Archive", 3%Z); ("Raw", 4%Z);
   ("Encrypted squashfs", 5%Z)]%string.
Definition v1_parttypes : list (string * Z) :=
  [("System", 1%Z); ("*System", 2%Z); ("Data", 3%Z); ("Overlay", 4%Z)]%string.
Definition v1_hashtypes : list (string * Z) :=
  [("SHA-256", 1%Z); ("SHA-384", 2%Z); ("SHA-512", 3%Z); ("BLAKE2s-256", 4%Z);
   ("BLAKE2b-256", 5%Z)]%string.
Definition v1_formattypes : list (string * Z) := [("OpenPGP", 1%Z); ("PEM", 2%Z)]%string.
Definition v1_messagetypes : list (string * Z) :=
  [("Clear Signature", 256%Z); ("RSA-OAEP", 512%Z)]%string.
Definition v1_sbomformats : list (string * Z) :=
  [("cyclonedx-json", 1%Z); ("cyclonedx-xml", 2%Z); ("github-json", 3%Z); ("spdx-json", 4%Z);
   ("spdx-rdf", 5%Z); ("spdx-tag-value", 6%Z); ("spdx-yaml", 7%Z); ("syft-json", 8%Z)]%string.

(* integrity-protected fields, in stream order *)
Definition v1_header_protected : list string :=
  ["LaunchScript"; "Magic"; "Version"; "ID"]%string.
Definition v1_desc_protected : list string :=
  ["raw.DataType"; "raw.Used"; "relativeID"; "raw.LinkedID"; "raw.Size"; "raw.CreatedAt";
   "raw.UID"; "raw.GID"; "raw.Name"; "raw.Extra"]%string.
Definition v1_supported_digests : list string :=
  ["sha224=SHA-224"; "sha256=SHA-256"; "sha384=SHA-384"; "sha512=SHA-512";
   "sha512_224=SHA-512/224"; "sha512_256=SHA-512/256"]%string.
Definition v1_clearsign_hashes : list string := ["SHA224"; "SHA256"; "SHA384"; "SHA512"]%string.
Definition v1_media_type : string := "application/vnd.sylabs.sif-metadata+json"%string.

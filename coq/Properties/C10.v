(* C10 — Hostile or corrupt input is rejected safely.
   Statements only; every proof is `exact <lemma>`.

   What is proved is about the model (an executable, total specification of
   LoadContainer and the read paths that the harness compares with the library
   on hostile inputs, results and error classes included): it answers on every
   byte string, everything it decodes is in range, the table it decodes lies
   inside the input, object reads return at most what the input holds, and the
   integrity streams have a fixed size - so nothing it builds is out of
   proportion to the input.  That the Go code neither panics nor loops nor
   over-allocates is a runtime property: it is searched for by running every
   read-only facility and the siftool inspection commands on each hostile
   input in a memory-capped child process (family `hostile`), not proved. *)
From Coq Require Import List ZArith Bool.
From Coq.Init Require Import Byte.
From Sif Require Import Bytes Store Format Image Integrity HostileFacts.
Import ListNotations.
Local Open Scope Z_scope.

Theorem C10_load_answers_on_every_input :
  forall st, (exists m, load_image st = inl m) \/ (exists e, load_image st = inr e).
Proof. exact load_image_total. Qed.

Theorem C10_load_is_bounded_by_the_input :
  forall st m, load_image st = inl m ->
  (128 <= length st)%nat /\
  Z.of_nat (length (m_rds m)) = h_total (m_hdr m) /\
  (m_rds m <> [] -> h_descoff (m_hdr m) + 585 * Z.of_nat (length (m_rds m)) <= Z.of_nat (length st)) /\
  (585 * length (m_rds m) <= length st)%nat.
Proof. exact load_image_bounded. Qed.

Theorem C10_loaded_fields_are_in_range :
  forall st m, load_image st = inl m -> wf_header (m_hdr m) /\ Forall wf_desc (m_rds m).
Proof. exact loaded_fields_in_range. Qed.

Theorem C10_get_data_is_bounded_by_the_input :
  forall d st c, get_data d st = inl c -> Z.of_nat (length c) = d_size d /\ (length c <= length st)%nat.
Proof. exact get_data_bounded. Qed.

Theorem C10_reader_is_bounded_by_the_input :
  forall d st c, section_bytes d st = inl c -> (length c <= length st)%nat.
Proof. exact section_bytes_bounded. Qed.

Theorem C10_integrity_streams_have_fixed_size :
  (forall d r, wf_desc d -> length (desc_stream d r) = 557%nat) /\
  (forall h, wf_header h -> length (header_stream h) = 61%nat).
Proof. exact (conj desc_stream_size header_stream_size). Qed.

Print Assumptions C10_load_answers_on_every_input.
Print Assumptions C10_load_is_bounded_by_the_input.
Print Assumptions C10_loaded_fields_are_in_range.
Print Assumptions C10_get_data_is_bounded_by_the_input.
Print Assumptions C10_reader_is_bounded_by_the_input.
Print Assumptions C10_integrity_streams_have_fixed_size.

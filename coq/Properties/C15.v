(* C15 — siftool is a faithful front end to the library.
   Statements only; every proof is `exact <lemma>`.

   coq/Siftool.v is the model of the commands: the flag-to-option translation
   of `add` (add_dinput), and each command as load - one library call - unload
   (run_cmd).  The harness runs the siftool binary built from /repo's working
   tree on random command histories and compares exit status, the file after
   every command and the standard output of dump with this model, and judges
   the property itself on the implementation (failing commands: non-zero exit,
   a message, file unchanged; dump: exactly the object's bytes; header / list /
   info: the true values). *)
From Coq Require Import List ZArith Bool.
From Coq.Init Require Import Byte.
From Sif Require Import Bytes Store Format Image Machine Inv Reach Siftool SiftoolFacts.
Import ListNotations.
Local Open Scope Z_scope.

(* add, del and setprim are exactly one library call (AddObject of the
   descriptor input the flags translate to, DeleteObject(id), SetPrimPart(id))
   between LoadContainer and UnloadContainer; arguments the translation
   refuses never reach the file *)
Theorem C15_modifying_commands_are_library_calls :
  forall sha256 bytes c now rnd,
  (exists fl content, c = CAdd fl content) \/ (exists id, c = CDel id) \/ (exists id, c = CSetPrim id) ->
  run_cmd sha256 bytes c now rnd =
  match cmd_op c now with
  | Some x => with_image sha256 bytes x
  | None => (bytes, Failed)
  end.
Proof. exact modifying_command_is_library_call. Qed.

(* a command that fails leaves the header bytes, the descriptor table and the
   bytes of every object unchanged (any image satisfying the invariant, any
   command, any arguments) *)
Theorem C15_failed_command_changes_nothing :
  forall sha256, (forall c, length (sha256 c) = 32%nat) ->
  forall bytes c now rnd bytes' m,
  c <> CNew ->
  load_image bytes = inl m -> Inv (mkS m (mkF bytes 0) BFile) ->
  (forall x, cmd_op c now = Some x -> wf_op (mkS m (mkF bytes 0) BFile) x) ->
  run_cmd sha256 bytes c now rnd = (bytes', Failed) ->
  nread 0 128 bytes' = nread 0 128 bytes /\
  nread (Z.to_nat (h_descoff (m_hdr m))) (585 * length (m_rds m)) bytes' =
  nread (Z.to_nat (h_descoff (m_hdr m))) (585 * length (m_rds m)) bytes /\
  forall i d, used_at (m_rds m) i d ->
    nread (Z.to_nat (d_off d)) (Z.to_nat (d_size d)) bytes' = nread (Z.to_nat (d_off d)) (Z.to_nat (d_size d)) bytes.
Proof. exact failed_command_keeps_image. Qed.

(* dump emits exactly the object's Size bytes, whatever they are *)
Theorem C15_dump_emits_exactly_the_object :
  forall sha256 bytes id now rnd bytes' out m,
  load_image bytes = inl m -> Inv (mkS m (mkF bytes 0) BFile) ->
  run_cmd sha256 bytes (CDump id) now rnd = (bytes', Done out) ->
  bytes' = bytes /\
  exists i d r, get_descriptor m [SID id] = inl (d, r) /\ used_at (m_rds m) i d /\ d_id d = id /\
                out = nread (Z.to_nat (d_off d)) (Z.to_nat (d_size d)) bytes /\
                Z.of_nat (length out) = d_size d.
Proof. exact dump_emits_the_object. Qed.

(* dump, info, list and header never change the file *)
Theorem C15_inspecting_commands_keep_the_file :
  forall sha256 bytes c now rnd,
  (exists id, c = CDump id) \/ (exists id, c = CInfo id) \/ c = CList \/ c = CHeader ->
  fst (run_cmd sha256 bytes c now rnd) = bytes.
Proof. exact inspecting_command_keeps_file. Qed.

Print Assumptions C15_modifying_commands_are_library_calls.
Print Assumptions C15_failed_command_changes_nothing.
Print Assumptions C15_dump_emits_exactly_the_object.
Print Assumptions C15_inspecting_commands_keep_the_file.

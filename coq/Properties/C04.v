(* C04 — Tamper evidence: no change to signed content passes verification.
   Statements only; every proof is `exact <lemma>`.  See DESIGN.md.

   The cryptographic primitives are parameters of the model (section
   variables, quantified here): `hash` the digest functions; `open_dsse` /
   `open_pgp` what sigstore / go-crypto return when opening an envelope under
   the key material the caller supplied (payload and signer identities);
   `parse_md` encoding/json on the metadata; `classify` / `is_legacy` the
   format sniffers.  Nothing is assumed about them.  "What a holder of a
   trusted key signed" is the payload the opener returns: the theorem says
   that whatever image a signer computed that payload from has the same
   protected view as what Verify reports - or two different byte strings with
   the same digest have been exhibited. *)
From Coq Require Import List ZArith Bool.
From Coq.Init Require Import Byte.
From Sif Require Import Bytes Store Format Image Integrity StreamFacts IntegFacts C04Facts VerifierFacts IntegExamples.
From Sif Require IntegSpec gen.IntegGen.
Import ListNotations.
Local Open Scope Z_scope.

(* LoadContainer(any bytes); NewVerifier(current-format request); Verify() = nil.
   Then every reported result belongs to a signature attached to a requested
   group, opened under the supplied keys, and - for whoever computed the
   opened metadata from an image (m0, st0) - the launch script, magic, version
   and ID, and for every object reported as verified its type, used flag,
   position relative to its group, link, size, creation time, uid, gid, name,
   type-specific metadata and content are those of (m0, st0). *)
Theorem C04_tamper_evidence :
  forall hash classify is_legacy open_dsse open_pgp parse_md has_dsse_keys has_pgp_keys,
  forall st m vo ts rs,
  load_image st = inl m -> vo_legacy vo = false -> vo_legacy_all vo = false ->
  new_verifier m vo = inl ts ->
  verify hash classify is_legacy open_dsse open_pgp parse_md has_dsse_keys has_pgp_keys m st strict ts = (rs, None) ->
  forall vr, In vr rs ->
  exists g ods sub sig o im minid,
    In (TGroup g ods sub) ts /\
    (exists sigs, group_signatures is_legacy m st g false = inl sigs /\ In sig sigs) /\
    key_available has_dsse_keys has_pgp_keys (classify (obj_bytes sig st)) /\
    sig_accepted hash open_dsse open_pgp parse_md m st g ods sub sig (classify (obj_bytes sig st)) o im minid /\
    vr = mkVR (d_id sig) (map (fun p => d_id (fst p)) ods) (op_keys o) (op_entity o) None /\
    forall m0 st0 minid0 ods0 a,
      image_metadata hash m0 st0 minid0 ods0 a = inl im ->
      wf_header (m_hdr m0) -> wf_ods ods0 ->
      collision hash a \/
      (header_protected_eq (m_hdr m) (m_hdr m0) /\
       Forall (same_as_signed st st0 minid minid0 ods0) ods).
Proof. exact verified_image_is_signed_image. Qed.

(* the integrity streams pin down exactly the protected fields *)
Theorem C04_descriptor_stream_determines_protected_fields :
  forall d r d' r', wf_desc d -> wf_desc d' -> in_u32 r -> in_u32 r' ->
  desc_stream d r = desc_stream d' r' -> desc_protected_eq d r d' r'.
Proof. exact desc_stream_inj. Qed.

Theorem C04_header_stream_determines_protected_fields :
  forall h h', wf_header h -> wf_header h' -> header_stream h = header_stream h' -> header_protected_eq h h'.
Proof. exact header_stream_inj. Qed.

(* alterations verification does accept leave the protected view untouched:
   images with equal protected fields have equal streams (so relocating an
   object, renumbering or regrouping, or changing unprotected fields is what
   remains possible) *)
Theorem C04_unprotected_changes_keep_streams :
  forall d r d' r', desc_protected_eq d r d' r' -> desc_stream d r = desc_stream d' r'.
Proof. exact desc_stream_of_protected. Qed.

(* the fields the source feeds into the two integrity readers, the digest
   algorithm table, the clear-sign hash allow-list and the DSSE payload type -
   extracted from /repo by the translator on every run - are the model's *)
Theorem C04_source_integrity_tables_are_the_modelled_ones :
  IntegGen.gen_header_protected = IntegSpec.spec_header_protected /\
  IntegGen.gen_desc_protected = IntegSpec.spec_desc_protected /\
  IntegGen.gen_supported_digests = IntegSpec.spec_supported_digests /\
  IntegGen.gen_clearsign_hashes = IntegSpec.spec_clearsign_hashes /\
  IntegGen.gen_media_type = IntegSpec.spec_media_type.
Proof. exact IntegSpec.source_integrity_tables_match. Qed.

(* non-vacuity: a signed image verifies; a changed content byte or an
   untrusted key is refused (toy envelopes and an injective toy digest, evaluated) *)
Example C04_example :
  brief (verify_with [x4b] s_signed default_vo) = Some ([(5, [1; 2]); (6, [3; 4])], true) /\
  brief (verify_with [x4b] (tampered s_signed) default_vo) = Some ([(5, [])], false) /\
  brief (verify_with [x4c] s_signed default_vo) = Some ([(5, [])], false).
Proof. exact (conj (proj2 sign_then_verify) (conj tampered_content_refused untrusted_key_refused)). Qed.

Print Assumptions C04_tamper_evidence.
Print Assumptions C04_descriptor_stream_determines_protected_fields.
Print Assumptions C04_header_stream_determines_protected_fields.
Print Assumptions C04_unprotected_changes_keep_streams.
Print Assumptions C04_source_integrity_tables_are_the_modelled_ones.

(* C07 — Trust comes only from supplied keys; reported signers are the real ones.
   Statements only; every proof is `exact <lemma>`.

   In the model the only source of signer identities is the pair of opener
   parameters `open_dsse` / `open_pgp`: what sigstore's DSSE verifier and
   go-crypto's clear-sign check return for the signature bytes under the key
   material the caller supplied (trusted base; the harness computes these
   tables with the third-party libraries directly and checks the library
   against the model on (signers, trusted) pairs).  The theorems say that a
   successful Verify went through the opener for every signature attached to
   every requested task - none skipped, none of an unrecognised format, none
   of a scheme without key material - and that what it reports is what the
   opener returned. *)
From Coq Require Import List ZArith Bool.
From Coq.Init Require Import Byte.
From Sif Require Import Bytes Store Format Image Integrity IntegFacts C04Facts C07Facts IntegExamples.
Import ListNotations.
Local Open Scope Z_scope.

Theorem C07_success_examined_every_signature :
  forall hash classify is_legacy open_dsse open_pgp parse_md has_dsse_keys has_pgp_keys,
  forall m st ts rs,
  verify hash classify is_legacy open_dsse open_pgp parse_md has_dsse_keys has_pgp_keys m st strict ts = (rs, None) ->
  (forall t, In t ts -> exists sigs, task_signatures is_legacy m st t = inl sigs /\ sigs <> [] /\
       forall sig, In sig sigs ->
         (* format recognised, and key material for its scheme was supplied *)
         key_available has_dsse_keys has_pgp_keys (classify (obj_bytes sig st)) /\
         In (sig_result hash classify open_dsse open_pgp parse_md m st t sig) rs /\
         result_facts hash classify open_dsse open_pgp parse_md m st t sig
                      (sig_result hash classify open_dsse open_pgp parse_md m st t sig)) /\
  (forall vr, In vr rs -> exists t sigs sig, In t ts /\ task_signatures is_legacy m st t = inl sigs /\ In sig sigs /\
                                            vr = sig_result hash classify open_dsse open_pgp parse_md m st t sig).
Proof. exact strict_success_facts. Qed.

(* every accepted result was opened under the supplied keys; its reported keys
   / entity are exactly what the opener returned; a PGP signature's descriptor
   names that same entity *)
Theorem C07_reported_signers_are_the_validating_ones :
  forall hash classify open_dsse open_pgp parse_md,
  forall m st t sig vr,
  result_facts hash classify open_dsse open_pgp parse_md m st t sig vr ->
  exists ht o, open_sig open_dsse open_pgp (classify (obj_bytes sig st)) ht (obj_bytes sig st) = Some o /\
               vr_keys vr = op_keys o /\ vr_entity vr = op_entity o /\
               (forall e, op_entity o = Some e ->
                          match sig_fingerprint (d_extra sig) with Some f => f = e | None => e = [] end).
Proof. exact reported_signers_are_openers. Qed.

(* DSSE identities come from open_dsse, PGP identities from open_pgp, nothing else *)
Theorem C07_identities_come_from_the_openers :
  forall open_dsse open_pgp kind ht c o,
  open_sig open_dsse open_pgp kind ht c = Some o ->
  (kind = KDSSE /\ open_dsse ht c = Some (op_payload o, op_keys o) /\ op_entity o = None) \/
  (kind = KClearsign /\ exists fp, open_pgp c = Some (op_payload o, fp) /\ op_entity o = Some fp /\ op_keys o = []).
Proof. exact open_sig_kinds. Qed.

(* non-vacuity: the same signed image under the right and under a wrong key;
   a PGP-like signature whose descriptor names somebody else *)
Example C07_example :
  brief (verify_with [x4b] s_signed default_vo) = Some ([(5, [1; 2]); (6, [3; 4])], true) /\
  brief (verify_with [x4c] s_signed default_vo) = Some ([(5, [])], false) /\
  brief (verify_with [x4b] s_pgp_wrong_fp (mkVO [1] [] false false)) = Some ([(5, [])], false).
Proof. exact (conj (proj2 sign_then_verify) (conj untrusted_key_refused (proj1 pgp_fingerprint_is_checked))). Qed.

Print Assumptions C07_success_examined_every_signature.
Print Assumptions C07_reported_signers_are_the_validating_ones.
Print Assumptions C07_identities_come_from_the_openers.

(* C05 — Default verification covers the whole image.
   Statements only; every proof is `exact <lemma>`.  Cryptographic parameters
   as in C04.v. *)
From Coq Require Import List ZArith Bool.
From Coq.Init Require Import Byte.
From Sif Require Import Bytes Store Format Image Machine SelectFacts Integrity IntegFacts C04Facts C05Facts IntegExamples.
Import ListNotations.
Local Open Scope Z_scope.

(* NewVerifier(no narrowing options); Verify() = nil.  Then every live object
   outside all groups is a signature object; there is at least one group; and
   every group present carries at least one current-format signature, each of
   which (all of them, none skipped) opened under the supplied keys, names
   exactly the current members of the group - every member is covered, every
   covered object is still a member - and matches header, descriptors and
   contents. *)
Theorem C05_default_verification_covers_the_image :
  forall hash classify is_legacy open_dsse open_pgp parse_md has_dsse_keys has_pgp_keys,
  forall m st ts rs,
  new_verifier m default_opts = inl ts ->
  verify hash classify is_legacy open_dsse open_pgp parse_md has_dsse_keys has_pgp_keys m st strict ts = (rs, None) ->
  ungrouped_are_signatures m /\
  group_ids m <> [] /\
  forall g, In g (group_ids m) ->
    group_covered hash classify is_legacy open_dsse open_pgp parse_md has_dsse_keys has_pgp_keys m st g.
Proof. exact default_verification_covers. Qed.

(* the groups present, the members of a group and the signatures that count *)
Theorem C05_groups_present :
  forall m g, In g (group_ids m) <->
    exists d, In d (m_rds m) /\ d_used d = true /\ group_of_raw (d_group d) = g /\ g <> 0.
Proof. exact group_ids_spec. Qed.

Theorem C05_group_members :
  forall m g ods, group_objects m g = inl ods ->
  ods <> [] /\
  (forall d, In d (map fst ods) <-> In d (m_rds m) /\ d_used d = true /\ g <> 0 /\ group_of_raw (d_group d) = g) /\
  (forall d r, In (d, r) ods -> r = relative_id (m_minids m) d).
Proof. exact group_objects_spec. Qed.

Theorem C05_group_signatures :
  forall is_legacy m st g sigs, group_signatures is_legacy m st g false = inl sigs ->
  sigs <> [] /\
  forall sig, In sig sigs <->
    In sig (m_rds m) /\ d_used sig = true /\ d_type sig = DataSignature /\ sat (SLinkedGroup g) sig /\
    exists c, get_data sig st = inl c /\ is_legacy c = false.
Proof. exact group_signatures_spec. Qed.

(* the consequences: an object outside every group, a group without a
   signature, a member a signature does not cover, a covered object that is
   gone - each makes default verification fail; no groups, no verifier *)
Theorem C05_ungrouped_object_refused :
  forall hash classify is_legacy open_dsse open_pgp parse_md has_dsse_keys has_pgp_keys,
  forall m st ts rs e d,
  In d (m_rds m) -> d_used d = true -> group_of_raw (d_group d) = 0 -> d_type d <> DataSignature ->
  verify hash classify is_legacy open_dsse open_pgp parse_md has_dsse_keys has_pgp_keys m st strict ts = (rs, e) ->
  e <> None.
Proof. exact ungrouped_object_refused. Qed.

Theorem C05_unsigned_group_refused :
  forall hash classify is_legacy open_dsse open_pgp parse_md has_dsse_keys has_pgp_keys,
  forall m st ts rs e g,
  new_verifier m default_opts = inl ts -> In g (group_ids m) ->
  (forall sigs, group_signatures is_legacy m st g false <> inl sigs) ->
  verify hash classify is_legacy open_dsse open_pgp parse_md has_dsse_keys has_pgp_keys m st strict ts = (rs, e) ->
  e <> None.
Proof. exact unsigned_group_refused. Qed.

Theorem C05_uncovered_member_refused :
  forall hash classify is_legacy open_dsse open_pgp parse_md has_dsse_keys has_pgp_keys,
  forall m st ts rs e g ods sigs sig d,
  new_verifier m default_opts = inl ts -> In g (group_ids m) ->
  group_objects m g = inl ods -> In d (map fst ods) ->
  group_signatures is_legacy m st g false = inl sigs -> In sig sigs ->
  (forall o im minid,
     sig_accepted hash open_dsse open_pgp parse_md m st g ods false sig (classify (obj_bytes sig st)) o im minid ->
     ~ In (d_id d) (map (fun om => wrap_u32 (minid + om_relid om)) (im_objects im))) ->
  verify hash classify is_legacy open_dsse open_pgp parse_md has_dsse_keys has_pgp_keys m st strict ts = (rs, e) ->
  e <> None.
Proof. exact uncovered_member_refused. Qed.

Theorem C05_missing_signed_object_refused :
  forall hash classify is_legacy open_dsse open_pgp parse_md has_dsse_keys has_pgp_keys,
  forall m st ts rs e g ods sigs sig,
  new_verifier m default_opts = inl ts -> In g (group_ids m) ->
  group_objects m g = inl ods ->
  group_signatures is_legacy m st g false = inl sigs -> In sig sigs ->
  (forall o im minid,
     sig_accepted hash open_dsse open_pgp parse_md m st g ods false sig (classify (obj_bytes sig st)) o im minid ->
     exists id, In id (map (fun om => wrap_u32 (minid + om_relid om)) (im_objects im)) /\
                ~ In id (map (fun p => d_id (fst p)) ods)) ->
  verify hash classify is_legacy open_dsse open_pgp parse_md has_dsse_keys has_pgp_keys m st strict ts = (rs, e) ->
  e <> None.
Proof. exact missing_signed_object_refused. Qed.

Theorem C05_no_groups_never_verifies :
  forall m, group_ids m = [] -> exists e, new_verifier m default_opts = inr e.
Proof. exact no_groups_never_verifies. Qed.

(* REFUTED part of the statement ("removing a signed object makes default
   verification fail"): when every object of a group is removed, nothing is
   left that names the group, and default verification of the rest succeeds
   (known finding F6).  Witness, evaluated: a two-group image signed per
   group; DeleteObjects(WithGroupID(2)); default verification still succeeds. *)
Theorem C05_whole_group_removal_refuted :
  brief (verify_with [x4b] s_signed default_vo) = Some ([(5, [1; 2]); (6, [3; 4])], true) /\
  snd (step t_sha256 s_signed (OpDelete (SGroup 2) false false TDeterministic 0)) = Ok /\
  brief (verify_with [x4b] s_group2_gone default_vo) = Some ([(5, [1; 2])], true).
Proof. exact whole_group_removal_still_verifies. Qed.

Print Assumptions C05_default_verification_covers_the_image.
Print Assumptions C05_groups_present.
Print Assumptions C05_group_members.
Print Assumptions C05_group_signatures.
Print Assumptions C05_ungrouped_object_refused.
Print Assumptions C05_unsigned_group_refused.
Print Assumptions C05_uncovered_member_refused.
Print Assumptions C05_missing_signed_object_refused.
Print Assumptions C05_no_groups_never_verifies.
Print Assumptions C05_whole_group_removal_refuted.

(* C11 — Files conform to the SIF v1 layout in both directions.
   Statements only; every proof is `exact <lemma>`.  See DESIGN.md section 5. *)
From Coq Require Import List ZArith String.
From Coq.Init Require Import Byte.
From Sif Require Import Bytes Store Format FormatFacts SpecV1 Image Machine Inv InvLoad LoadFacts Reach Meta MetaFacts.
From Sif.gen Require Import LayoutGen.
Import ListNotations.
Local Notation length := List.length.

(* The struct layouts, sizes, magic, version, masks and enumerations that
   /repo's working tree implements (regenerated on every run by reflection
   over the very types encoding/binary serialises) are those of SIF v1. *)
Theorem C11_layout_generated_is_v1 :
  gen_header_layout = v1_header_layout /\
  gen_desc_layout = v1_desc_layout /\
  gen_partition_layout = v1_partition_layout /\
  gen_signature_layout = v1_signature_layout /\
  gen_cryptomsg_layout = v1_cryptomsg_layout /\
  gen_sbom_layout = v1_sbom_layout /\
  gen_sizes = v1_sizes /\
  gen_magic = magic /\ gen_version = version_bytes /\
  gen_group_mask = group_mask /\ gen_lens = v1_lens /\ gen_default_group = default_group.
Proof. repeat split; reflexivity. Qed.

Theorem C11_enums_generated_are_v1 :
  gen_datatypes = v1_datatypes /\ gen_fstypes = v1_fstypes /\
  gen_parttypes = v1_parttypes /\ gen_hashtypes = v1_hashtypes /\
  gen_formattypes = v1_formattypes /\ gen_messagetypes = v1_messagetypes /\
  gen_sbomformats = v1_sbomformats /\
  gen_archs = arch_table /\ gen_arch_unknown = "00"%string.
Proof. repeat split; reflexivity. Qed.

(* every field at its fixed position; 128-byte header, 585-byte descriptor *)
Theorem C11_field_positions :
  field_offsets v1_header_layout = [0; 32; 42; 45; 48; 64; 72; 80; 88; 96; 104; 112; 120]%nat /\
  field_offsets v1_desc_layout = [0; 4; 5; 9; 13; 17; 25; 33; 41; 49; 57; 65; 73; 201]%nat /\
  layout_size v1_header_layout = 128%nat /\ layout_size v1_desc_layout = 585%nat.
Proof. repeat split; reflexivity. Qed.

(* The model's header and descriptor codecs are the layout-driven little-endian
   encoder applied to the v1 layouts. *)
Theorem C11_codecs_follow_layout :
  (forall h, enc_header h = encode v1_header_layout (header_vals h)) /\
  (forall d, enc_desc d = encode v1_desc_layout (desc_vals d)).
Proof. exact (conj enc_header_generic enc_desc_generic). Qed.

(* Codec round trip, for any layout: decoding what was encoded gives the
   values back (all in-range values), and encoding what was decoded gives the
   bytes back (all byte strings of the right length; a bool byte must be 0/1,
   the one place where encoding/binary is not injective). *)
Theorem C11_codec_roundtrip :
  (forall l vs, wf_vals l vs -> decode l (encode l vs) = vs) /\
  (forall l bs, length bs = layout_size l -> canon l bs -> encode l (decode l bs) = bs).
Proof. exact (conj decode_encode encode_decode). Qed.

Theorem C11_header_roundtrip :
  (forall h, wf_header h -> dec_header (enc_header h) = h /\ length (enc_header h) = 128%nat) /\
  (forall bs, length bs = 128%nat -> enc_header (dec_header bs) = bs /\ wf_header (dec_header bs)).
Proof.
  exact (conj (fun h H => conj (dec_enc_header h H) (length_enc_header h H))
              (fun bs H => conj (enc_dec_header bs H) (wf_dec_header bs H))).
Qed.

Theorem C11_descriptor_roundtrip :
  (forall d, wf_desc d -> dec_desc (enc_desc d) = d /\ length (enc_desc d) = 585%nat) /\
  (forall bs, length bs = 585%nat -> used_byte_canon bs ->
              enc_desc (dec_desc bs) = bs) /\
  (forall rds, Forall wf_desc rds ->
               dec_table (length rds) (enc_table rds) = rds /\
               length (enc_table rds) = (585 * length rds)%nat).
Proof.
  exact (conj (fun d H => conj (dec_enc_desc d H) (length_enc_desc d H))
        (conj enc_dec_desc
              (fun rds H => conj (dec_enc_table rds H) (length_enc_table rds H)))).
Qed.

(* Every image the library writes decodes, with the v1 decoder (load_image is
   built from the v1 tables of Format.v only), to exactly the header values and
   descriptors of the handle that wrote it: in every reachable state. *)
Theorem C11_written_decodes :
  forall sha256, (forall c, length (sha256 c) = 32%nat) ->
  forall s, reachable sha256 s -> load_image (f_bytes (s_io s)) = inl (s_mem s).
Proof. exact handle_is_reload. Qed.

(* Conversely any image laid out that way by someone else - some well-formed
   header and descriptors are encoded at the v1 positions, objects inside the
   file; any slot-ordered ID numbering, free slots anywhere, leftover bytes in
   unused slots and gaps - is loaded, with that meaning, into a state that
   satisfies the invariant. *)
Theorem C11_foreign_loads :
  forall b bytes, wf_image bytes ->
  exists s, load b bytes = inl s /\ Inv s /\ f_bytes (s_io s) = bytes.
Proof. exact load_inv. Qed.

Theorem C11_foreign_meaning :
  forall m bytes, wf_mem m -> coherent m bytes -> load_image bytes = inl m.
Proof. exact load_coherent. Qed.

(* a file whose magic or version differs is refused *)
Theorem C11_magic_version :
  (forall st, (128 <= length st)%nat -> nread 32 10 st <> magic ->
              load_image st = inr EInvalidMagic) /\
  (forall st, (128 <= length st)%nat -> nread 32 10 st = magic -> nread 42 3 st <> version_bytes ->
              load_image st = inr EBadVersion) /\
  (forall st, (length st < 128)%nat -> load_image st = inr EShortHeader).
Proof. exact (conj load_refuses_magic (conj load_refuses_version load_refuses_short)). Qed.

(* The architecture and hash-type tables the accessor model (Meta.v) uses are
   the ones regenerated from /repo's arch.go and getHashType on this run:
   two-digit code + NUL for each Go architecture name, hash types 1..5 for the
   five crypto.Hash values (named as crypto.Hash.String() names them). *)
Definition crypto_hash_name (h : Z) : string :=
  match h with
  | 5 => "SHA-256" | 6 => "SHA-384" | 7 => "SHA-512" | 16 => "BLAKE2s-256" | 17 => "BLAKE2b-256"
  | _ => ""
  end%Z%string.

Theorem C11_accessor_tables_are_generated :
  map (fun p => (string_of_list_byte (fst p), string_of_list_byte (firstn 2 (snd p)))) arch_names = gen_archs /\
  forallb (fun p => bytes_eqb (skipn 2 (snd p)) [x00]) arch_names = true /\
  string_of_list_byte (firstn 2 arch_unknown) = gen_arch_unknown /\
  map (fun p => (crypto_hash_name (fst p), snd p)) hash_pairs = gen_hashtypes.
Proof. repeat split; reflexivity. Qed.

(* writer and reader tables are inverse: every architecture OptPartitionMetadata
   accepts is written as a 3-byte code that GoArch maps back to the same name,
   every code GoArch knows is the code of the name it reports, and the five
   supported hashes survive sifHashType / getHashType *)
Theorem C11_arch_written_reads_back :
  forall name, get_sif_arch name <> arch_unknown ->
  go_arch (get_sif_arch name) = name /\ length (get_sif_arch name) = 3%nat.
Proof. exact go_arch_get_sif_arch. Qed.

Theorem C11_arch_read_writes_back :
  forall code, go_arch code <> name_unknown -> get_sif_arch (go_arch code) = code.
Proof. exact get_sif_arch_go_arch. Qed.

Theorem C11_hash_types_roundtrip :
  forall h, supported_hash h -> get_hash_type (sif_hash_type h) = Some h.
Proof. exact hash_roundtrip. Qed.

(* group and link flag nibble: a group number below 2^28 with the flag set
   reads back as that number and as a group; a plain object ID as an ID *)
Theorem C11_group_flag_roundtrip :
  forall g, (0 <= g < 268435456)%Z ->
  group_of_raw (with_mask g) = g /\ raw_is_group (with_mask g) = true /\
  group_of_raw g = g /\ raw_is_group g = false.
Proof.
  exact (fun g R => conj (group_of_with_mask g R) (conj (raw_is_group_with_mask g R) (raw_plain_link g R))).
Qed.

Print Assumptions C11_layout_generated_is_v1.
Print Assumptions C11_written_decodes.
Print Assumptions C11_foreign_loads.
Print Assumptions C11_foreign_meaning.
Print Assumptions C11_magic_version.
Print Assumptions C11_enums_generated_are_v1.
Print Assumptions C11_field_positions.
Print Assumptions C11_codecs_follow_layout.
Print Assumptions C11_codec_roundtrip.
Print Assumptions C11_header_roundtrip.
Print Assumptions C11_descriptor_roundtrip.
Print Assumptions C11_accessor_tables_are_generated.
Print Assumptions C11_arch_written_reads_back.
Print Assumptions C11_arch_read_writes_back.
Print Assumptions C11_hash_types_roundtrip.
Print Assumptions C11_group_flag_roundtrip.

(* C11 — Files conform to the SIF v1 layout in both directions.
   Statements only; every proof is `exact <lemma>`.  See DESIGN.md section 5. *)
From Coq Require Import List ZArith String.
From Coq.Init Require Import Byte.
From Sif Require Import Bytes Store Format FormatFacts SpecV1.
From Sif.gen Require Import LayoutGen.
Import ListNotations.
Local Notation length := List.length.

(* The struct layouts, sizes, magic, version, masks and enumerations that
   /repo's working tree implements (regenerated on every run by reflection
   over the very types encoding/binary serialises) are those of SIF v1. *)
Theorem C11_layout_generated_is_v1 :
  gen_header_layout = v1_header_layout /\
  gen_desc_layout = v1_desc_layout /\
  gen_partition_layout = v1_partition_layout /\
  gen_signature_layout = v1_signature_layout /\
  gen_cryptomsg_layout = v1_cryptomsg_layout /\
  gen_sbom_layout = v1_sbom_layout /\
  gen_sizes = v1_sizes /\
  gen_magic = magic /\ gen_version = version_bytes /\
  gen_group_mask = group_mask /\ gen_lens = v1_lens /\ gen_default_group = default_group.
Proof. repeat split; reflexivity. Qed.

Theorem C11_enums_generated_are_v1 :
  gen_datatypes = v1_datatypes /\ gen_fstypes = v1_fstypes /\
  gen_parttypes = v1_parttypes /\ gen_hashtypes = v1_hashtypes /\
  gen_formattypes = v1_formattypes /\ gen_messagetypes = v1_messagetypes /\
  gen_sbomformats = v1_sbomformats /\
  gen_archs = arch_table /\ gen_arch_unknown = "00"%string.
Proof. repeat split; reflexivity. Qed.

(* every field at its fixed position; 128-byte header, 585-byte descriptor *)
Theorem C11_field_positions :
  field_offsets v1_header_layout = [0; 32; 42; 45; 48; 64; 72; 80; 88; 96; 104; 112; 120]%nat /\
  field_offsets v1_desc_layout = [0; 4; 5; 9; 13; 17; 25; 33; 41; 49; 57; 65; 73; 201]%nat /\
  layout_size v1_header_layout = 128%nat /\ layout_size v1_desc_layout = 585%nat.
Proof. repeat split; reflexivity. Qed.

(* The model's header and descriptor codecs are the layout-driven little-endian
   encoder applied to the v1 layouts. *)
Theorem C11_codecs_follow_layout :
  (forall h, enc_header h = encode v1_header_layout (header_vals h)) /\
  (forall d, enc_desc d = encode v1_desc_layout (desc_vals d)).
Proof. exact (conj enc_header_generic enc_desc_generic). Qed.

(* Codec round trip, for any layout: decoding what was encoded gives the
   values back (all in-range values), and encoding what was decoded gives the
   bytes back (all byte strings of the right length; a bool byte must be 0/1,
   the one place where encoding/binary is not injective). *)
Theorem C11_codec_roundtrip :
  (forall l vs, wf_vals l vs -> decode l (encode l vs) = vs) /\
  (forall l bs, length bs = layout_size l -> canon l bs -> encode l (decode l bs) = bs).
Proof. exact (conj decode_encode encode_decode). Qed.

Theorem C11_header_roundtrip :
  (forall h, wf_header h -> dec_header (enc_header h) = h /\ length (enc_header h) = 128%nat) /\
  (forall bs, length bs = 128%nat -> enc_header (dec_header bs) = bs /\ wf_header (dec_header bs)).
Proof.
  exact (conj (fun h H => conj (dec_enc_header h H) (length_enc_header h H))
              (fun bs H => conj (enc_dec_header bs H) (wf_dec_header bs H))).
Qed.

Theorem C11_descriptor_roundtrip :
  (forall d, wf_desc d -> dec_desc (enc_desc d) = d /\ length (enc_desc d) = 585%nat) /\
  (forall bs, length bs = 585%nat -> used_byte_canon bs ->
              enc_desc (dec_desc bs) = bs) /\
  (forall rds, Forall wf_desc rds ->
               dec_table (length rds) (enc_table rds) = rds /\
               length (enc_table rds) = (585 * length rds)%nat).
Proof.
  exact (conj (fun d H => conj (dec_enc_desc d H) (length_enc_desc d H))
        (conj enc_dec_desc
              (fun rds H => conj (dec_enc_table rds H) (length_enc_table rds H)))).
Qed.

Print Assumptions C11_layout_generated_is_v1.
Print Assumptions C11_enums_generated_are_v1.
Print Assumptions C11_field_positions.
Print Assumptions C11_codecs_follow_layout.
Print Assumptions C11_codec_roundtrip.
Print Assumptions C11_header_roundtrip.
Print Assumptions C11_descriptor_roundtrip.

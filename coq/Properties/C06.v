(* C06 — Whatever was signed verifies: sign/verify completeness.
   Statements only; every proof is `exact <lemma>`.

   Parameters (quantified): the digest functions, the OCI digest function of
   AddObject, the verifier's side of the cryptography (classify, is_legacy,
   open_dsse, open_pgp, parse_md, key material present) and the signer's side
   (encode_md = json.Marshal of the metadata, seal = the envelope encoder,
   signer_fp = the entity fingerprint Sign records, if any).  The three
   assumptions tie the two sides together and are exactly what "a supported
   signing configuration verified with the signers' public keys" means:
     parse_encode  the metadata survives JSON;
     seal_ok       the envelope Sign produced is of a recognised current
                   format, opens under the supplied keys to the sealed payload
                   and names the signer the descriptor will name;
     fp_ok         a recorded fingerprint is 20 bytes, not all zero.
   They are hypotheses of the theorems (no axioms); the correspondence family
   checks them against go-crypto / sigstore on every run (oracle tables). *)
From Coq Require Import List ZArith Bool.
From Coq.Init Require Import Byte.
From Sif Require Import Bytes Store Format Image Machine SelectFacts Inv InvSet InvAdd Integrity Sign
     IntegFacts C04Facts C05Facts SignFrame SignFacts ViewFacts IntegExamples.
Import ListNotations.
Local Open Scope Z_scope.

(* Signing a whole group on any reachable handle (Inv), then asking for that
   group to be verified on the resulting handle/file: NewVerifier builds the
   task, Verify returns nil, every signature attached to the group - those of
   earlier parties included, provided they were acceptable before - reports
   exactly the group's objects; and signing only added one ungrouped signature
   object linked to the group, every other descriptor staying where it was. *)
Theorem C06_sign_group_then_verify :
  forall hash sha256, (forall c, length (sha256 c) = 32%nat) ->
  forall classify is_legacy open_dsse open_pgp parse_md has_dsse_keys has_pgp_keys encode_md seal signer_fp,
  (forall im, parse_md (encode_md im) = Some im) ->
  (forall p, sealed_ok classify is_legacy open_dsse open_pgp has_dsse_keys has_pgp_keys seal signer_fp p) ->
  fp_wf signer_fp ->
  forall s g ods di o now s',
  Inv s -> 0 < g < 2 ^ 28 ->
  ungrouped_are_signatures (s_mem s) ->
  group_objects (s_mem s) g = inl ods ->
  sign_input hash encode_md seal signer_fp (s_mem s) (f_bytes (s_io s)) (mkGS g ods) = inl di ->
  time_ok o now -> add_fits (s_mem s) di ->
  step sha256 s (OpAdd di o now) = (s', Ok) ->
  prior_ok hash classify is_legacy open_dsse open_pgp parse_md has_dsse_keys has_pgp_keys
           (s_mem s) (f_bytes (s_io s)) g ods ->
  let m' := s_mem s' in
  let st' := f_bytes (s_io s') in
  new_verifier m' (mkVO [g] [] false false) = inl [TGroup g ods false] /\
  exists rs,
    verify hash classify is_legacy open_dsse open_pgp parse_md has_dsse_keys has_pgp_keys m' st' strict
           [TGroup g ods false] = (rs, None) /\
    rs <> [] /\
    (forall vr, In vr rs -> vr_verified vr = map (fun p => d_id (fst p)) ods /\ vr_err vr = None) /\
    exists i dsig, used_at (m_rds m') i dsig /\ ~ (exists d, used_at (m_rds (s_mem s)) i d) /\
                   d_type dsig = DataSignature /\ group_of_raw (d_group dsig) = 0 /\
                   sat (SLinkedGroup g) dsig /\
                   (forall j d, used_at (m_rds (s_mem s)) j d -> used_at (m_rds m') j d) /\
                   (forall j d, used_at (m_rds m') j d -> j = i \/ used_at (m_rds (s_mem s)) j d) /\
                   In (d_id dsig) (map vr_sig rs).
Proof. exact sign_group_then_verify. Qed.

(* The signature Sign appends for any set of covered objects (a whole group or
   an object subset) is accepted for every request it covers: the whole set
   (sub = false needs every covered object requested) or any part of it
   (OptVerifyObject: sub = true), and reports exactly the requested objects. *)
Theorem C06_new_signature_accepted :
  forall hash sha256, (forall c, length (sha256 c) = 32%nat) ->
  forall classify is_legacy open_dsse open_pgp parse_md has_dsse_keys has_pgp_keys encode_md seal signer_fp,
  (forall im, parse_md (encode_md im) = Some im) ->
  (forall p, sealed_ok classify is_legacy open_dsse open_pgp has_dsse_keys has_pgp_keys seal signer_fp p) ->
  fp_wf signer_fp ->
  forall s g ods di o now s',
  Inv s -> 0 < g < 2 ^ 28 ->
  covered_ok (s_mem s) g ods ->
  sign_input hash encode_md seal signer_fp (s_mem s) (f_bytes (s_io s)) (mkGS g ods) = inl di ->
  time_ok o now -> add_fits (s_mem s) di ->
  step sha256 s (OpAdd di o now) = (s', Ok) ->
  let m := s_mem s in
  let m' := s_mem s' in
  let st' := f_bytes (s_io s') in
  exists i dsig,
    used_at (m_rds m') i dsig /\ ~ (exists d, used_at (m_rds m) i d) /\
    d_type dsig = DataSignature /\ group_of_raw (d_group dsig) = 0 /\ sat (SLinkedGroup g) dsig /\
    is_legacy (obj_bytes dsig st') = false /\
    key_available has_dsse_keys has_pgp_keys (classify (obj_bytes dsig st')) /\
    (forall j d, used_at (m_rds m) j d -> used_at (m_rds m') j d) /\
    (forall j d, used_at (m_rds m') j d -> j = i \/ used_at (m_rds m) j d) /\
    forall ods_t sub,
      (forall p, In p ods_t -> In p ods) ->
      (sub = false -> forall p, In p ods -> exists p', In p' ods_t /\ d_id (fst p') = d_id (fst p)) ->
      verify_group_sig hash open_dsse open_pgp parse_md m' st' g ods_t sub dsig (classify (obj_bytes dsig st')) =
        mkVR (d_id dsig) (map (fun p => d_id (fst p)) ods_t)
             (match open_sig open_dsse open_pgp (classify (obj_bytes dsig st'))
                             (sig_hashtype (d_extra dsig)) (obj_bytes dsig st') with
              | Some o => op_keys o | None => [] end)
             (match open_sig open_dsse open_pgp (classify (obj_bytes dsig st'))
                             (sig_hashtype (d_extra dsig)) (obj_bytes dsig st') with
              | Some o => op_entity o | None => None end)
             None.
Proof. exact new_signature_accepted. Qed.

(* NewSigner's whole-group signer covers exactly the group's objects, in table
   order, with the relative IDs of the handle *)
Theorem C06_whole_group_signer :
  forall m g ods, wf_mem m -> group_objects m g = inl ods ->
  new_group_signer m g None = inl (mkGS g ods) /\ covered_ok m g ods.
Proof. exact whole_group_signer. Qed.

(* Adding any object outside group g afterwards (another party's signature on
   another group, an object in another or a new group) changes neither the
   members of g, their relative IDs, the group's minimum ID, the protected
   header fields, any live object's bytes - nor the verdict on any signature
   already in the image *)
Theorem C06_add_elsewhere_keeps_every_verdict :
  forall hash sha256, (forall c, length (sha256 c) = 32%nat) ->
  forall open_dsse open_pgp parse_md,
  forall s di o now s' g,
  Inv s -> time_ok o now -> wf_dinput di -> add_fits (s_mem s) di ->
  step sha256 s (OpAdd di o now) = (s', Ok) ->
  g <> 0 -> group_of_raw (Z.lor (di_group di) group_mask) <> g ->
  let m := s_mem s in let st := f_bytes (s_io s) in
  let m' := s_mem s' in let st' := f_bytes (s_io s') in
  (forall ods, covered_ok m g ods -> covered_ok m' g ods) /\
  (forall ods, group_objects m g = inl ods -> group_objects m' g = inl ods) /\
  group_min_id m' g = group_min_id m g /\
  header_stream (m_hdr m') = header_stream (m_hdr m) /\
  (forall j d, used_at (m_rds m) j d -> used_at (m_rds m') j d /\
               section_bytes d st' = section_bytes d st /\ obj_bytes d st' = obj_bytes d st) /\
  (forall j sig ods sub kind, used_at (m_rds m) j sig -> covered_ok m g ods ->
     verify_group_sig hash open_dsse open_pgp parse_md m' st' g ods sub sig kind =
     verify_group_sig hash open_dsse open_pgp parse_md m st g ods sub sig kind).
Proof. exact add_elsewhere_keeps_group. Qed.

(* any other image presenting the same protected view: the verdict on a
   signature is a function of the header stream, the group's minimum ID, the
   signature's bytes and the covered objects' descriptors and bytes alone
   (offsets, padding, modification times, unprotected header fields and
   everything about other objects play no role) *)
Theorem C06_verdict_depends_on_the_protected_view_only :
  forall hash open_dsse open_pgp parse_md,
  forall m st m' st' g ods sub sig kind,
  header_stream (m_hdr m) = header_stream (m_hdr m') ->
  group_min_id m g = group_min_id m' g ->
  obj_bytes sig st = obj_bytes sig st' ->
  Forall (fun p => section_bytes (fst p) st = section_bytes (fst p) st') ods ->
  verify_group_sig hash open_dsse open_pgp parse_md m st g ods sub sig kind =
  verify_group_sig hash open_dsse open_pgp parse_md m' st' g ods sub sig kind.
Proof. exact verify_group_sig_ext. Qed.

(* ... in particular in another image: objects relocated, the whole group's IDs
   shifted (a different minimum ID), the group renamed, unprotected descriptor
   and header fields changed - as long as each covered object presents the
   same descriptor stream and bytes and keeps its position relative to the
   group's minimum ID, an accepted signature is accepted there too, for the
   corresponding objects, with the same signers *)
Theorem C06_same_protected_view_same_verdict :
  forall hash open_dsse open_pgp parse_md,
  forall m st g ods sig m' st' g' ods' sig' sub kind minid minid',
  header_stream (m_hdr m) = header_stream (m_hdr m') ->
  group_min_id m g = Some minid -> group_min_id m' g' = Some minid' ->
  d_id sig = d_id sig' -> sig_meta sig = sig_meta sig' -> obj_bytes sig st = obj_bytes sig' st' ->
  Forall2 (view_related st st' minid minid') ods ods' ->
  vr_err (verify_group_sig hash open_dsse open_pgp parse_md m st g ods sub sig kind) = None ->
  vr_err (verify_group_sig hash open_dsse open_pgp parse_md m' st' g' ods' sub sig' kind) = None /\
  vr_verified (verify_group_sig hash open_dsse open_pgp parse_md m' st' g' ods' sub sig' kind) =
    map (fun p => d_id (fst p)) ods' /\
  vr_keys (verify_group_sig hash open_dsse open_pgp parse_md m' st' g' ods' sub sig' kind) =
    vr_keys (verify_group_sig hash open_dsse open_pgp parse_md m st g ods sub sig kind) /\
  vr_entity (verify_group_sig hash open_dsse open_pgp parse_md m' st' g' ods' sub sig' kind) =
    vr_entity (verify_group_sig hash open_dsse open_pgp parse_md m st g ods sub sig kind).
Proof. exact verdict_of_equal_views. Qed.

(* REFUTED in one respect (known finding F13): when two signatures cover
   different object subsets of one group, verifying an object of the first
   subset fails once the second signature exists, because every signature
   attached to the group must cover the requested object.  Evaluated witness. *)
Theorem C06_second_subset_signature_refuted :
  brief (verify_with [x4b] s_obj1 (mkVO [] [1] false false)) = Some ([(5, [1])], true) /\
  snd (sign_with (t_seal_dsse x4b) None s_obj1 (mkSO [] [[2]] TDeterministic)) = SOk /\
  brief (verify_with [x4b] s_obj12 (mkVO [] [1] false false)) = Some ([(5, [1]); (6, [])], false).
Proof. exact second_subset_signature_breaks_the_first. Qed.

(* non-vacuity: in the toy world a two-group image is signed and verifies *)
Example C06_example :
  snd (sign_with (t_seal_dsse x4b) None s0 so_default) = SOk /\
  brief (verify_with [x4b] s_signed default_vo) = Some ([(5, [1; 2]); (6, [3; 4])], true).
Proof. exact sign_then_verify. Qed.

Print Assumptions C06_sign_group_then_verify.
Print Assumptions C06_new_signature_accepted.
Print Assumptions C06_whole_group_signer.
Print Assumptions C06_add_elsewhere_keeps_every_verdict.
Print Assumptions C06_verdict_depends_on_the_protected_view_only.
Print Assumptions C06_same_protected_view_same_verdict.
Print Assumptions C06_second_subset_signature_refuted.

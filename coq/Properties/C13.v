(* C13 — Descriptor queries return exactly the matching objects.
   Statements only; every proof is `exact <lemma>`.  See DESIGN.md section 5.
   `sat s d` is "object d satisfies selector s" (SelectFacts.v gives the
   meaning of each of the nine selector kinds as an iff); `matching f rds`
   is the sub-list of in-use descriptors satisfying f, in table order. *)
From Coq Require Import List ZArith Bool.
From Coq.Init Require Import Byte.
From Sif Require Import Bytes Store Format Image SelectFacts Meta MetaFacts.
Import ListNotations.
Local Open Scope Z_scope.

(* For every handle state m whatsoever (no invariant needed) and every list
   of selectors: a successful query returns exactly the live objects that
   satisfy all selectors, in table order, each with the relative ID the
   handle computes for it. *)
Theorem C13_exact : forall m sels l,
  get_descriptors m sels = inl l ->
  map fst l = matching (multi_eval sels) (m_rds m) /\
  (forall d, In d (map fst l) <-> In d (m_rds m) /\ d_used d = true /\ sat_all sels d) /\
  (forall d r, In (d, r) l -> r = relative_id (m_minids m) d).
Proof. exact get_descriptors_exact. Qed.

(* A query on a non-empty image succeeds whenever no selector errs on a live
   object; and when it fails, the error is ErrNoObjects of an empty image or
   the error a selector really produced on a live object that passed all the
   selectors before it. *)
Theorem C13_total : forall m sels,
  h_free (m_hdr m) <> h_total (m_hdr m) ->
  no_sel_error (multi_eval sels) (m_rds m) ->
  exists l, get_descriptors m sels = inl l.
Proof. exact get_descriptors_total. Qed.

Theorem C13_errors_are_real : forall m sels e,
  get_descriptors m sels = inr e ->
  (e = ENoObjects /\ h_free (m_hdr m) = h_total (m_hdr m)) \/
  (exists d pre s post, In d (m_rds m) /\ d_used d = true /\ sels = pre ++ s :: post /\
                        sat_all pre d /\ sel_eval s d = SErr e).
Proof. exact get_descriptors_error. Qed.

(* single-object form *)
Theorem C13_single : forall m sels,
  h_free (m_hdr m) <> h_total (m_hdr m) ->
  (forall d r, get_descriptor m sels = inl (d, r) ->
     matching (multi_eval sels) (m_rds m) = [d] /\ r = relative_id (m_minids m) d) /\
  (no_sel_error (multi_eval sels) (m_rds m) ->
     (get_descriptor m sels = inr ENotFound <-> matching (multi_eval sels) (m_rds m) = []) /\
     (get_descriptor m sels = inr EMultiple <->
        (length (matching (multi_eval sels) (m_rds m)) >= 2)%nat)).
Proof. exact get_descriptor_single. Qed.

(* an empty image is reported as having no objects *)
Theorem C13_empty_image : forall m sels,
  h_free (m_hdr m) = h_total (m_hdr m) ->
  get_descriptors m sels = inr ENoObjects /\ get_descriptor m sels = inr ENoObjects.
Proof. exact (fun m sels H => conj (get_descriptors_empty m sels H) (get_descriptor_empty m sels H)). Qed.

(* An ID or group of zero is an error rather than an empty match, whenever
   some live object passes the (error-free) selectors placed before it - in
   particular always when it comes first and the image has a live object. *)
Theorem C13_zero_is_error : forall m pre z post e,
  h_free (m_hdr m) <> h_total (m_hdr m) ->
  zero_sel z = Some e ->
  Forall never_errs pre ->
  (exists d, In d (m_rds m) /\ d_used d = true /\ sat_all pre d) ->
  get_descriptors m (pre ++ z :: post) = inr e.
Proof. exact zero_selector_is_error. Qed.

(* The unconditional form of the last sentence of the property is false of
   the code (known finding F8): selectors are evaluated left to right and an
   earlier selector that rejects every object hides the invalid ID. *)
Definition f8_image : mem :=
  mkM (mkH (zeros 32) magic version_bytes arch_unknown (zeros 16) 0 0 0 1 4096 585 4681 3)
      [mkD DataGeneric true 1 (group_mask + 1) 0 4681 3 3 0 0 0 0 (zeros 128) (zeros 384)]
      [(group_mask + 1, 1)].

Theorem C13_zero_after_rejecting_selector_refuted :
  h_free (m_hdr f8_image) <> h_total (m_hdr f8_image) /\
  get_descriptors f8_image [SType DataDeffile; SID 0] = inl [].
Proof. split; [discriminate | vm_compute; reflexivity]. Qed.

(* non-vacuity: the premises of C13_zero_is_error are met by that image *)
Example C13_zero_first_on_f8 :
  get_descriptors f8_image [SID 0; SType DataDeffile] = inr EInvalidObjectID.
Proof. vm_compute; reflexivity. Qed.

(* What a selector looks at is what the public accessors report (Meta.v):
   WithPartitionType(pt) selects exactly the objects whose PartitionMetadata()
   reports pt, WithOCIBlobDigest(t) those whose OCIBlobDigest() is t,
   WithGroupID / WithNoGroup those whose GroupID() is the number / zero,
   WithLinkedID / WithLinkedGroupID those whose LinkedID() is (id, false) /
   (group, true) - so an object link and a group link with equal numbers are
   never confused. *)
Theorem C13_selectors_agree_with_accessors : forall d,
  (forall pt, sel_eval (SPartType pt) d = SMatch true <-> exists fs a, partition_metadata d = inl (fs, pt, a)) /\
  (forall t, sel_eval (SOCIDigest t) d = SMatch true <-> oci_digest d = inl t) /\
  (forall g, g <> 0 -> (sel_eval (SGroup g) d = SMatch true <-> group_of d = g)) /\
  (sel_eval SNoGroup d = SMatch true <-> group_of d = 0) /\
  (forall id, id <> 0 -> (sel_eval (SLinkedID id) d = SMatch true <-> linked_of d = (id, false))) /\
  (forall g, g <> 0 -> (sel_eval (SLinkedGroup g) d = SMatch true <-> linked_of d = (g, true))).
Proof.
  exact (fun d => conj (sel_parttype_iff d) (conj (sel_oci_digest_iff d) (conj (sel_group_iff d)
        (conj (sel_nogroup_iff d) (conj (sel_linked_iff d) (sel_linked_group_iff d)))))).
Qed.

Print Assumptions C13_exact.
Print Assumptions C13_total.
Print Assumptions C13_errors_are_real.
Print Assumptions C13_single.
Print Assumptions C13_empty_image.
Print Assumptions C13_zero_is_error.
Print Assumptions C13_zero_after_rejecting_selector_refuted.
Print Assumptions C13_selectors_agree_with_accessors.

(* C17 — Signer listings are exact.
   Statements only; every proof is `exact <lemma>`. *)
From Coq Require Import List ZArith Bool.
From Coq.Init Require Import Byte.
From Sif Require Import Bytes Store Format Image Integrity IntegFacts C07Facts C17Facts LegacyCover TasksSpec IntegExamples.
Import ListNotations.
Local Open Scope Z_scope.

(* AnySignedBy (any = true) / AllSignedBy (any = false): a sorted, duplicate
   free list holding exactly the fingerprints recorded on the signatures
   attached to some task / to every task.  The functions return no new image:
   the image is not altered. *)
Theorem C17_listings_exact :
  forall is_legacy m st ts any l,
  signed_by is_legacy m st ts any = inl l ->
  exists per_task,
    Forall2 (fun t fps => exists sigs, attached is_legacy m st t sigs /\
                                        (forall fp, In fp fps <-> recorded sigs fp))
            ts per_task /\
    fp_sorted l /\ NoDup l /\
    forall fp, In fp l <->
      (exists fps, In fps per_task /\ In fp fps) /\
      (any = true \/ forall fps, In fps per_task -> In fp fps).
Proof. exact signed_by_exact. Qed.

(* the selected verification tasks: exactly one per named group and per named
   object (OptVerifyLegacyAll names every live grouped non-signature object),
   of the requested kind; with nothing named, one per group present.  No
   named group or object is dropped, whatever else is named beside it. *)
Theorem C17_selected_tasks_are_exactly_the_named_ones :
  forall m vo ts,
  new_verifier m vo = inl ts ->
  forall t, In t ts <->
    (exists g ods, named_group m vo g /\ group_objects m g = inl ods /\ t = group_task vo g ods) \/
    (exists id od, named_object m vo id /\ get_descriptor_i m id = inl od /\ t = object_task vo od).
Proof. exact new_verifier_tasks. Qed.

(* after a successful verification of the same tasks - PARTIAL: a fingerprint
   recorded on a clear-signed (PGP) signature is that of the entity whose
   supplied key validated that signature *)
Theorem C17_listed_pgp_fingerprint_is_the_signer_partial :
  forall hash classify is_legacy open_dsse open_pgp parse_md has_dsse_keys has_pgp_keys,
  forall m st ts rs t sigs sig ht fp,
  verify hash classify is_legacy open_dsse open_pgp parse_md has_dsse_keys has_pgp_keys m st strict ts = (rs, None) ->
  In t ts -> task_signatures is_legacy m st t = inl sigs -> In sig sigs ->
  sig_meta sig = inl (ht, Some fp) -> classify (obj_bytes sig st) = KClearsign ->
  In (sig_result hash classify open_dsse open_pgp parse_md m st t sig) rs /\
  vr_entity (sig_result hash classify open_dsse open_pgp parse_md m st t sig) = Some fp /\
  exists p, open_pgp (obj_bytes sig st) = Some (p, fp).
Proof. exact listed_pgp_fingerprint_is_signer. Qed.

(* REFUTED in general (known finding F10): the fingerprint in the descriptor of
   a DSSE signature is not tied to anything.  Witness, evaluated: group 1
   verifies through DSSE key 'K' alone, no entity is reported, yet both
   listings name entity 'Z'. *)
Theorem C17_dsse_fingerprint_refuted :
  (match verify_with [x4b] s_forged (mkVO [1] [] false false) with
   | inl ([vr], None) => vr_keys vr = [75] /\ vr_entity vr = None
   | _ => False
   end) /\
  listing s_forged (mkVO [1] [] false false) true = Some [forged_fp] /\
  listing s_forged (mkVO [1] [] false false) false = Some [forged_fp].
Proof. exact dsse_signature_lists_a_fingerprint_nobody_signed_with. Qed.

Print Assumptions C17_listings_exact.
Print Assumptions C17_selected_tasks_are_exactly_the_named_ones.
Print Assumptions C17_listed_pgp_fingerprint_is_the_signer_partial.
Print Assumptions C17_dsse_fingerprint_refuted.

(* C02 — Histories follow the reference model; rejected operations change
   nothing.  Statements only; every proof is `exact <lemma>`.

   The reference model is coq/Abstract.v: a header summary and a row of slots,
   each free or holding an object with its attributes and content - no
   offsets, no padding, no file.  The first two theorems are the refinement:
   every operation of the library, on any state satisfying the invariant, and
   every history, does on the abstract view exactly what the reference model
   does, results included; the third gives the abstract image a creation
   starts from.  The remaining theorems spell out consequences for
   every state reachable by any history from any creation or any well-formed
   foreign image. *)
From Coq Require Import List ZArith Bool Lia.
From Coq.Init Require Import Byte.
From Sif Require Import Bytes Store Format Image Machine Inv InvSet InvDelete InvAdd InvCreate Reach
     Persist PrimInv Determ C02Facts Abstract Refine CreateRefine.
Import ListNotations.
Local Open Scope Z_scope.

(* one operation: same result, and the abstraction of the new state is the
   reference model's new state *)
Theorem C02_every_operation_follows_the_reference_model :
  forall sha256, (forall c, length (sha256 c) = 32%nat) ->
  forall s x s' r,
  Inv s -> wf_op s x -> step sha256 s x = (s', r) ->
  a_step sha256 (abs s) x = (abs s', r).
Proof. exact step_refines. Qed.

(* whole histories, accepted and rejected operations mixed *)
Theorem C02_every_history_follows_the_reference_model :
  forall sha256, (forall c, length (sha256 c) = 32%nat) ->
  forall ops s,
  Inv s -> wf_ops sha256 s ops ->
  a_run sha256 (abs s) ops = (abs (fst (run sha256 s ops)), snd (run sha256 s ops)).
Proof. exact run_refines. Qed.

(* creation: the abstract image is determined by the options alone - the
   header summary (launch script, ID, times as given; the architecture of the
   primary system partition among the objects given, if any), one slot per
   object given, in order, with ID = position + 1 and attributes and content
   as given, and every remaining slot free *)
Theorem C02_creation_starts_from_the_reference_image :
  forall sha256, (forall c, length (sha256 c) = 32%nat) ->
  forall b co s r io,
  wf_copts co ->
  create sha256 b co = (Some s, r, io) ->
  as_hdr (abs s) = mkAH (pad_to 32 (co_launch co)) (co_id co) (a_create_arch (co_dis co))
                        (co_time co) (co_time co) /\
  length (as_slots (abs s)) = Z.to_nat (co_cap co) /\
  (forall k di, nth_error (co_dis co) k = Some di ->
     nth_error (as_slots (abs s)) k = a_create_slot sha256 (co_time co) k di) /\
  (forall k, (length (co_dis co) <= k < Z.to_nat (co_cap co))%nat ->
     nth_error (as_slots (abs s)) k = Some (zero_desc, [])).
Proof. exact create_refines. Qed.

(* IDs are unique among live objects (and non-zero); free plus used
   descriptors equals capacity; capacity never changes. *)
Theorem C02_invariants :
  forall sha256, (forall c, length (sha256 c) = 32%nat) ->
  forall s, reachable sha256 s ->
  (forall i j di dj, used_at (m_rds (s_mem s)) i di -> used_at (m_rds (s_mem s)) j dj ->
                     d_id di = d_id dj -> i = j) /\
  (forall i d, used_at (m_rds (s_mem s)) i d -> 0 < d_id d) /\
  h_free (m_hdr (s_mem s)) + Z.of_nat (length (filter d_used (m_rds (s_mem s)))) =
  h_total (m_hdr (s_mem s)) /\
  h_total (m_hdr (s_mem s)) = Z.of_nat (length (m_rds (s_mem s))).
Proof. exact (fun sha H s R => abstract_invariants s (reachable_inv sha H s R)). Qed.

(* A live object keeps its slot, ID, attributes and content until it is
   deleted; a set-operation changes only metadata bytes and modification time
   of its target. *)
Theorem C02_objects_persist :
  forall sha256, (forall c, length (sha256 c) = 32%nat) ->
  forall s x s' r, Inv s -> wf_op s x -> step sha256 s x = (s', r) ->
  forall j d, used_at (m_rds (s_mem s)) j d -> ~ deleted_by x r d ->
    exists d', used_at (m_rds (s_mem s')) j d' /\ same_but_meta d d' /\
               (~ set_target x d -> d' = d) /\
               nread (Z.to_nat (d_off d)) (Z.to_nat (d_size d)) (f_bytes (s_io s')) =
               nread (Z.to_nat (d_off d)) (Z.to_nat (d_size d)) (f_bytes (s_io s)).
Proof. exact step_persist. Qed.

(* At most one primary system partition exists and the header's primary
   architecture is that partition's, "unknown" if there is none: established
   by creation and preserved by every operation, provided partition metadata
   goes through the typed option (typed_partitions; the complement is the
   known finding F7). *)
Theorem C02_primary_at_creation :
  forall sha256, (forall c, length (sha256 c) = 32%nat) ->
  forall b co s r io,
  wf_copts co -> Forall typed_partition_input (co_dis co) ->
  create sha256 b co = (Some s, r, io) -> prim_ok (s_mem s).
Proof. exact create_prim_ok. Qed.

Theorem C02_primary_preserved :
  forall sha256 s x s' r,
  Inv s -> prim_ok (s_mem s) -> typed_partitions (s_mem s) x ->
  match x with OpAdd di _ _ => wf_dinput di | _ => True end ->
  step sha256 s x = (s', r) -> prim_ok (s_mem s').
Proof. exact step_keeps_prim_ok. Qed.

(* Modification times are the ones requested: a successful operation stamps
   the header with the requested time (the explicit one, the zero time with
   the deterministic option or on a deterministic image, else the clock),
   never touching creation time or image ID. *)
Theorem C02_times_as_requested :
  forall sha256 m x m' evs o now,
  topt_of x = Some o -> x = set_now now x ->
  plan_op sha256 m x = (m', Ok, evs) -> evs <> [] ->
  h_mtime (m_hdr m') = resolve_time (m_hdr m) o now /\
  h_ctime (m_hdr m') = h_ctime (m_hdr m) /\ h_id (m_hdr m') = h_id (m_hdr m).
Proof. exact plan_stamps_header. Qed.

(* A rejected operation (any error result) leaves the handle, the header
   bytes, the descriptor table bytes and the content of every object unchanged. *)
Theorem C02_rejected_changes_nothing :
  forall sha256, (forall c, length (sha256 c) = 32%nat) ->
  forall s x s' r,
  Inv s -> wf_op s x -> step sha256 s x = (s', r) -> r <> Ok ->
  s_mem s' = s_mem s /\
  nread 0 128 (f_bytes (s_io s')) = nread 0 128 (f_bytes (s_io s)) /\
  nread (Z.to_nat (h_descoff (m_hdr (s_mem s)))) (585 * length (m_rds (s_mem s))) (f_bytes (s_io s')) =
  nread (Z.to_nat (h_descoff (m_hdr (s_mem s)))) (585 * length (m_rds (s_mem s))) (f_bytes (s_io s)) /\
  (forall i d, used_at (m_rds (s_mem s)) i d ->
     nread (Z.to_nat (d_off d)) (Z.to_nat (d_size d)) (f_bytes (s_io s')) =
     nread (Z.to_nat (d_off d)) (Z.to_nat (d_size d)) (f_bytes (s_io s))).
Proof. exact rejected_changes_nothing. Qed.

(* An add the model allows succeeds - and only then: there is a free slot, it
   is not a second primary partition, the source reader does not fail, the
   name fits in 128 bytes and the metadata marshals into 384 bytes. *)
Theorem C02_add_accepted_iff :
  forall sha256 s di o now,
  Inv s -> add_fits (s_mem s) di ->
  let m := s_mem s in
  let i := first_unused (m_rds m) in
  snd (step sha256 s (OpAdd di o now)) = Ok <->
  (i < length (m_rds m))%nat /\ Z.of_nat i < max_u32 /\
  ~ ((exists fs a, di_md di = MdPart fs PartPrimSys a) /\ has_primary m = true) /\
  di_fail di = None /\ (length (di_name di) <= 128)%nat /\
  (exists slot extra, nth_error (m_rds m) i = Some slot /\
                      new_extra sha256 (d_extra slot) (di_md di) (di_content di) = inl extra).
Proof. exact add_accepted_iff. Qed.

(* delete: accepted iff the selector errs on no live object and selects at
   least one; then exactly the selected objects disappear (C03_delete). *)
Theorem C02_delete_result :
  forall sha256 s sel zero compact o now s' r,
  Inv s -> time_ok o now ->
  step sha256 s (OpDelete sel zero compact o now) = (s', r) ->
  (r <> Ok -> s' = s) /\ (r = Ok -> m_rds (s_mem s') = after_del sel (m_rds (s_mem s))).
Proof.
  exact (fun sha s sel z c o now s' r I T St =>
    match delete_inv sha s sel z c o now s' r I T St with
    | conj _ (conj Rej Acc) => conj Rej (fun E => proj1 (Acc E))
    end).
Qed.

(* ---- the two classes of inputs outside the hypotheses above ---- *)

Definition sha0 (_ : list byte) : list byte := zeros 32.

(* F7: raw metadata bytes are not interpreted.  A primary partition whose
   metadata is then overwritten through SetMetadata with raw bytes that say
   "System": no primary partition is left, the header still says amd64. *)
Definition f7_co : copts :=
  mkCO [] (zeros 16) 2 zero_time
       [mkDI DataPartition [x61] None 1 LNone 0 [] (MdPart 1 PartPrimSys [x30; x32; x00]) None].
Definition f7_raw : list byte := [x01; x00; x00; x00; x01; x00; x00; x00; x30; x32; x00].

Theorem C02_raw_partition_metadata_refuted :
  match create sha0 BBuf f7_co with
  | (Some s, Ok, _) =>
      let '(s', r) := step sha0 s (OpSetMeta 1 (MdRaw f7_raw) TDeterministic 0) in
      r = Ok /\ has_primary (s_mem s') = false /\ h_arch (m_hdr (s_mem s')) = [x30; x32; x00]
  | _ => False
  end.
Proof. vm_compute. repeat split. Qed.

(* F5: a foreign image whose live IDs are not slot+1 (slot 0 free, slot 1
   holds ID 1): AddObject assigns ID 1 a second time. *)
Definition f5_desc : rdesc :=
  mkD DataGeneric true 1 (group_mask + 1) 0 5266 3 3 0 0 0 0 (zeros 128) (zeros 384).
Definition f5_mem : mem :=
  mkM (mkH (zeros 32) magic version_bytes arch_unknown (zeros 16) zero_time zero_time 1 2 4096 1170 5266 3)
      [zero_desc; f5_desc] [(group_mask + 1, 1)].
Definition f5_state : state :=
  mkS f5_mem (mkF (enc_header (m_hdr f5_mem) ++ zeros 3968 ++ enc_table (m_rds f5_mem) ++ [x61; x62; x63]) 0) BBuf.

Theorem C02_foreign_id_numbering_refuted :
  load_image (f_bytes (s_io f5_state)) = inl f5_mem /\
  let '(s', r) := step sha0 f5_state (OpAdd (mkDI DataGeneric [x64] None 1 LNone 0 [] MdNone None) TDeterministic 0) in
  r = Ok /\ map d_id (filter d_used (m_rds (s_mem s'))) = [1; 1].
Proof. vm_compute. repeat split. Qed.

(* non-vacuity: a creation with a primary partition and a second object meets
   the premises, and its abstract image is the one stated *)
Definition co_ex : copts :=
  mkCO [x23; x21] (zeros 16) 3 1700000000
       [mkDI DataPartition [x61; x62] None 1 LNone 4096 [x72] (MdPart 1 2 [x30; x32; x00]) None;
        mkDI DataGeneric [x63] None 0 LNone 0 [] MdNone None].
Example C02_creation_example :
  wf_copts co_ex /\
  match create sha0 BFile co_ex with
  | (Some s, Ok, _) =>
      ah_arch (as_hdr (abs s)) = [x30; x32; x00] /\ length (as_slots (abs s)) = 3%nat /\
      nth_error (as_slots (abs s)) 1 = a_create_slot sha0 1700000000 1 (mkDI DataGeneric [x63] None 0 LNone 0 [] MdNone None)
  | _ => False
  end.
Proof.
  split.
  - constructor.
    + cbn. lia.
    + reflexivity.
    + cbn. unfold max_u32. lia.
    + cbn. unfold in_i64. lia.
    + cbn [co_dis co_ex]. repeat constructor; cbn; unfold in_i32, in_u32, in_i64; try lia; auto.
      all: unfold DataPartition, DataGeneric; lia.
    + vm_compute. discriminate.
  - vm_compute. repeat split.
Qed.

Print Assumptions C02_every_operation_follows_the_reference_model.
Print Assumptions C02_every_history_follows_the_reference_model.
Print Assumptions C02_creation_starts_from_the_reference_image.
Print Assumptions C02_invariants.
Print Assumptions C02_objects_persist.
Print Assumptions C02_primary_at_creation.
Print Assumptions C02_primary_preserved.
Print Assumptions C02_times_as_requested.
Print Assumptions C02_rejected_changes_nothing.
Print Assumptions C02_add_accepted_iff.
Print Assumptions C02_delete_result.
Print Assumptions C02_raw_partition_metadata_refuted.
Print Assumptions C02_foreign_id_numbering_refuted.

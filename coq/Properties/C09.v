(* C09 — Interrupted modifications never damage other objects.
   Statements only; every proof is `exact <lemma>`.

   An operation is modelled as the list of storage calls it issues (seek,
   write, truncate/resize; the plan functions of coq/Image.v), which the harness compares
   call by call with the calls the library really issues (recording
   ReadWriter).  A crash leaves the file after some prefix of those calls,
   the last write possibly cut at ANY byte (`crash_prefix`, `crash_image`;
   POSIX-file semantics of coq/Store.v).  An object is "touched" by an
   operation if it is what a set-operation is aimed at (or the partition it
   demotes) or what a delete selects. *)
From Coq Require Import List ZArith Bool.
From Coq.Init Require Import Byte.
From Sif Require Import Bytes Store Format Image Machine Inv Reach Crash CrashOps CrashBoundary Integrity Sign SignCrash.
Import ListNotations.
Local Open Scope Z_scope.

(* For every state satisfying the image invariant (every reachable state,
   C08), every add / delete (all option combinations) / set-primary /
   set-metadata / set-OCI-digest, accepted or rejected, and every crash image
   of its calls: the file still loads, has the same number of descriptor
   slots, and every object the operation was not aimed at has the same
   descriptor in the same slot and exactly the same bytes. *)
Theorem C09_interrupted_operation_keeps_bystanders :
  forall sha256, (forall c, length (sha256 c) = 32%nat) ->
  forall s x m' r evs st_c,
  Inv s -> wf_op s x -> plan_op sha256 (s_mem s) x = (m', r, evs) ->
  crash_image evs (s_io s) st_c ->
  exists mc, load_image st_c = inl mc /\ length (m_rds mc) = length (m_rds (s_mem s)) /\
    forall j d, used_at (m_rds (s_mem s)) j d -> ~ touched x d ->
      nth_error (m_rds mc) j = Some d /\
      nread (Z.to_nat (d_off d)) (Z.to_nat (d_size d)) st_c =
      nread (Z.to_nat (d_off d)) (Z.to_nat (d_size d)) (f_bytes (s_io s)).
Proof. exact interrupted_operation_keeps_bystanders. Qed.

(* When the interruption falls between two storage calls of an accepted
   AddObject (any k calls carried out), the file loads and the object being
   added is either absent - its slot is still the unused slot it was - or
   completely present: its descriptor is in the table and all its bytes are in
   the file. *)
Theorem C09_added_object_absent_or_complete :
  forall sha256, (forall c, length (sha256 c) = 32%nat) ->
  forall s di o now m' evs k,
  Inv s -> wf_op s (OpAdd di o now) ->
  plan_add sha256 (s_mem s) di o now = (m', Ok, evs) ->
  let st_c := f_bytes (file_run (firstn k evs) (s_io s)) in
  let i := first_unused (m_rds (s_mem s)) in
  exists mc, load_image st_c = inl mc /\
    ((exists slot, nth_error (m_rds (s_mem s)) i = Some slot /\ d_used slot = false /\
                   nth_error (m_rds mc) i = Some slot) \/
     (exists d, nth_error (m_rds m') i = Some d /\ d_used d = true /\ nth_error (m_rds mc) i = Some d /\
                nread (Z.to_nat (d_off d)) (Z.to_nat (d_size d)) st_c = di_content di)).
Proof. exact add_interrupted_between_calls. Qed.

(* Sign is a sequence of AddObject calls, one per group signer (`sign_all`;
   `hash`, `encode_md`, `seal`, `signer_fp`: digests, json.Marshal, the
   envelope encoder and its key).  Whichever of them is cut short, after
   whatever prefix of its storage calls (the last write possibly torn), the
   file still loads and every object the image held before signing is still
   in its slot with the same descriptor and the same bytes.  (`sign_wf`: each
   signature object has its Go types and fits, as `wf_ops` for histories.) *)
Theorem C09_sign_interrupted_keeps_every_object :
  forall hash sha256, (forall c, length (sha256 c) = 32%nat) ->
  forall encode_md seal signer_fp s done gs rest o now s1 di m' r evs st_c,
  Inv s -> sign_wf hash sha256 encode_md seal signer_fp s (done ++ gs :: rest) o now ->
  sign_all hash sha256 encode_md seal signer_fp s done o now = (s1, SOk) ->
  sign_input hash encode_md seal signer_fp (s_mem s1) (f_bytes (s_io s1)) gs = inl di ->
  plan_add sha256 (s_mem s1) di o now = (m', r, evs) ->
  crash_image evs (s_io s1) st_c ->
  exists mc, load_image st_c = inl mc /\
    forall j d, used_at (m_rds (s_mem s)) j d ->
      nth_error (m_rds mc) j = Some d /\
      nread (Z.to_nat (d_off d)) (Z.to_nat (d_size d)) st_c =
      nread (Z.to_nat (d_off d)) (Z.to_nat (d_size d)) (f_bytes (s_io s)).
Proof. exact sign_interrupted_keeps_objects. Qed.

(* the structure behind it: the calls of every operation are data calls that
   stay away from the header, the table and every bystander's bytes, followed
   by nothing or by the table write and the header write, which re-write the
   bystanders' slots and the fields LoadContainer depends on with the bytes
   that are already there *)
Theorem C09_operation_calls :
  forall sha256, (forall c, length (sha256 c) = 32%nat) ->
  forall s x m' r evs,
  Inv s -> wf_op s x -> plan_op sha256 (s_mem s) x = (m', r, evs) ->
  exists data tail, evs = data ++ tail /\
    data_safe (s_mem s) (f_bytes (s_io s)) (bystander x) data /\ tail_ok (s_mem s) (bystander x) tail.
Proof. exact operation_events. Qed.

(* the general principle: a byte range survives every crash point of a list of
   calls if every write overlapping it re-writes what is there and every
   truncation stays beyond it *)
Theorem C09_preservation_principle :
  forall st0 lo hi evs p, crash_prefix evs p ->
  forall pos io,
  same_on st0 (f_bytes io) lo hi ->
  (match pos with Some q => f_pos io = q | None => True end) ->
  keeps st0 lo hi pos evs ->
  same_on st0 (f_bytes (file_run p io)) lo hi.
Proof. exact keeps_crash. Qed.

Print Assumptions C09_interrupted_operation_keeps_bystanders.
Print Assumptions C09_sign_interrupted_keeps_every_object.
Print Assumptions C09_added_object_absent_or_complete.
Print Assumptions C09_operation_calls.
Print Assumptions C09_preservation_principle.

(* C18 — Concurrent read-only use of a loaded image is safe.
   Statements only; every proof is `exact <lemma>`.

   What a proof can carry here, and what it cannot: in the model every
   read-only facility is a function of handle and storage that returns the
   state unchanged, so interleaving read-only calls of any number of clients
   cannot change any answer (first two theorems).  That the Go code's read
   paths really are like that - that they write no shared memory - is a
   property of the source; the translator extracts, on every run, every
   assignment reached from the read-only entry points that goes through a
   pointer to FileImage / Buffer / Verifier / rawDescriptor / header or to a
   package variable, and every method call on a package variable, and the
   third theorem states that both lists are empty.  Data-race freedom of the
   compiled code under the Go memory model is a runtime property: it is
   searched for with the race detector (family `concurrent`), not proved. *)
From Coq Require Import List ZArith Bool String.
From Coq.Init Require Import Byte.
From Sif Require Import Bytes Store Format Image Machine Integrity Concurrent.
From Sif Require gen.ReadPathGen.
Import ListNotations.

Theorem C18_any_interleaving_equals_alone :
  forall hash classify is_legacy open_dsse open_pgp parse_md has_dsse_keys has_pgp_keys,
  forall s sch,
  run_schedule hash classify is_legacy open_dsse open_pgp parse_md has_dsse_keys has_pgp_keys s sch =
  (s, map (fun tc => (fst tc, answer hash classify is_legacy open_dsse open_pgp parse_md
                                     has_dsse_keys has_pgp_keys (snd tc) s)) sch).
Proof. exact any_interleaving_equals_alone. Qed.

Theorem C18_client_view_independent_of_other_clients :
  forall hash classify is_legacy open_dsse open_pgp parse_md has_dsse_keys has_pgp_keys,
  forall s sch client,
  filter (fun ta => Nat.eqb (fst ta) client)
         (snd (run_schedule hash classify is_legacy open_dsse open_pgp parse_md has_dsse_keys has_pgp_keys s sch)) =
  snd (run_schedule hash classify is_legacy open_dsse open_pgp parse_md has_dsse_keys has_pgp_keys s
                    (filter (fun tc => Nat.eqb (fst tc) client) sch)).
Proof. exact client_view_independent. Qed.

(* the source's read paths write nothing shared (regenerated from /repo) *)
Theorem C18_read_paths_write_nothing_shared :
  ReadPathGen.gen_read_path_writes = [] /\ ReadPathGen.gen_read_path_shared_calls = [].
Proof. exact (conj eq_refl eq_refl). Qed.

Print Assumptions C18_any_interleaving_equals_alone.
Print Assumptions C18_client_view_independent_of_other_clients.
Print Assumptions C18_read_paths_write_nothing_shared.

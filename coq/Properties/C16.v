(* C16 — Legacy and current signatures are never confused; legacy mode is sound.
   Statements only; every proof is `exact <lemma>`.  Parameters as in C04.v. *)
From Coq Require Import List ZArith Bool.
From Coq.Init Require Import Byte.
From Sif Require Import Bytes Store Format Image Integrity IntegFacts C04Facts C05Facts C07Facts C16Facts LegacyCover IntegExamples.
Import ListNotations.
Local Open Scope Z_scope.

(* the signatures a group task examines are of the kind that was requested *)
Theorem C16_tasks_examine_only_the_requested_kind :
  forall is_legacy m st t sigs sig,
  task_signatures is_legacy m st t = inl sigs -> In sig sigs ->
  match t with
  | TGroup _ _ _ => exists c, get_data sig st = inl c /\ is_legacy c = false
  | TLegacyGroup _ _ => exists c, get_data sig st = inl c /\ is_legacy c = true
  | TLegacyObject _ => True
  end.
Proof. exact task_signatures_kind. Qed.

(* object-linked signatures are not filtered by kind, but a legacy task never
   accepts one whose signed payload is JSON (a current-format signature) *)
Theorem C16_legacy_task_rejects_current_payload :
  forall hash open_dsse open_pgp st ods errid sig kind o r,
  open_sig open_dsse open_pgp kind 1 (obj_bytes sig st) = Some o ->
  op_payload o = x7b :: r ->
  vr_err (verify_legacy_sig hash open_dsse open_pgp st ods errid sig kind) <> None.
Proof. exact legacy_task_rejects_current_payload. Qed.

(* what every accepted legacy signature establishes *)
Theorem C16_legacy_acceptance :
  forall hash open_dsse open_pgp st ods errid sig kind,
  vr_err (verify_legacy_sig hash open_dsse open_pgp st ods errid sig kind) = None ->
  exists o dg cs,
    legacy_accepted hash open_dsse open_pgp st ods sig kind o dg cs /\
    verify_legacy_sig hash open_dsse open_pgp st ods errid sig kind =
      mkVR (d_id sig) (map (fun p => d_id (fst p)) ods) (op_keys o) (op_entity o) None.
Proof. exact verify_legacy_sig_sound. Qed.

(* what a successful legacy request covers.  With no narrowing
   (OptVerifyLegacy alone) every group present in the image has legacy
   signatures, and every one of them was examined under an available key and
   accepted over exactly the group's members; objects outside every group are
   signatures.  (`strict`: the callback does not ask to ignore errors.) *)
Theorem C16_legacy_request_covers_every_group :
  forall hash classify is_legacy open_dsse open_pgp parse_md has_dsse_keys has_pgp_keys m st ts rs,
  new_verifier m legacy_opts = inl ts ->
  verify hash classify is_legacy open_dsse open_pgp parse_md has_dsse_keys has_pgp_keys m st strict ts = (rs, None) ->
  ungrouped_are_signatures m /\ group_ids m <> [] /\
  forall g, In g (group_ids m) ->
    exists ods sigs, group_objects m g = inl ods /\
                     group_signatures is_legacy m st g true = inl sigs /\
                     legacy_covered hash classify open_dsse open_pgp has_dsse_keys has_pgp_keys st ods sigs.
Proof. exact legacy_verification_covers. Qed.

(* OptVerifyLegacyAll: every live grouped object that is not a signature has
   signatures linked to it, each examined and accepted over that object alone *)
Theorem C16_legacy_all_request_covers_every_grouped_object :
  forall hash classify is_legacy open_dsse open_pgp parse_md has_dsse_keys has_pgp_keys m st ts rs d,
  new_verifier m legacy_all_opts = inl ts ->
  verify hash classify is_legacy open_dsse open_pgp parse_md has_dsse_keys has_pgp_keys m st strict ts = (rs, None) ->
  In d (m_rds m) -> d_used d = true -> d_type d <> DataSignature -> group_of_raw (d_group d) <> 0 ->
  exists sigs, object_signatures m (d_id d) = inl sigs /\
               legacy_covered hash classify open_dsse open_pgp has_dsse_keys has_pgp_keys st
                              [(d, relative_id (m_minids m) d)] sigs.
Proof. exact legacy_all_verification_covers. Qed.

(* a named object: its content is byte for byte what the signed digest is of *)
Theorem C16_legacy_object_sound :
  forall hash open_dsse open_pgp st od sig kind o dg cs a c0,
  legacy_accepted hash open_dsse open_pgp st [od] sig kind o dg cs ->
  dg = digest_of hash a c0 ->
  collision hash a \/ section_bytes (fst od) st = inl c0.
Proof. exact legacy_object_sound. Qed.

(* a group - PARTIAL: the concatenation of the contents is what was signed *)
Theorem C16_legacy_group_sound_partial :
  forall hash open_dsse open_pgp st ods sig kind o dg cs a cs0,
  legacy_accepted hash open_dsse open_pgp st ods sig kind o dg cs ->
  dg = digest_of hash a (concat cs0) ->
  collision hash a \/ concat cs = concat cs0.
Proof. exact legacy_group_sound_partial. Qed.

(* REFUTED for groups ("the content of every covered object is byte for byte
   what was signed"): the legacy group verifier's verdict depends only on the
   concatenation, so moving the boundary between two adjacent objects is not
   seen (known finding F9) *)
Theorem C16_legacy_group_boundary_refuted :
  forall hash open_dsse open_pgp st ods st' ods' errid sig kind cs cs',
  obj_bytes sig st = obj_bytes sig st' ->
  map_err (fun p => section_bytes (fst p) st) ods = inl cs ->
  map_err (fun p => section_bytes (fst p) st') ods' = inl cs' ->
  concat cs = concat cs' ->
  vr_err (verify_legacy_sig hash open_dsse open_pgp st ods errid sig kind) =
  vr_err (verify_legacy_sig hash open_dsse open_pgp st' ods' errid sig kind).
Proof. exact legacy_group_boundary_blind. Qed.

Example C16_boundary_example :
  let cs := [[x61; x62]; [x63]] in
  let cs' := [[x61]; [x62; x63]] in
  cs <> cs' /\ concat cs = concat cs'.
Proof. exact boundary_shift_same_concatenation. Qed.

Print Assumptions C16_tasks_examine_only_the_requested_kind.
Print Assumptions C16_legacy_task_rejects_current_payload.
Print Assumptions C16_legacy_acceptance.
Print Assumptions C16_legacy_object_sound.
Print Assumptions C16_legacy_request_covers_every_group.
Print Assumptions C16_legacy_all_request_covers_every_grouped_object.
Print Assumptions C16_legacy_group_sound_partial.
Print Assumptions C16_legacy_group_boundary_refuted.

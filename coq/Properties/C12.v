(* C12 — Deterministic options give bit-for-bit reproducible images.
   Statements only; every proof is `exact <lemma>`.  See DESIGN.md section 5.

   In the model the wall clock and the random-ID source are inputs: every
   operation carries the clock reading `now` the library would take, and
   creation takes `now` and the random bytes `rnd`.  (The harness feeds the
   values the real library used back into the model, after checking them
   against a bracket of its own clock readings.) *)
From Coq Require Import List ZArith Bool.
From Coq.Init Require Import Byte.
From Sif Require Import Bytes Store Format Image Machine Inv InvSet InvAdd InvCreate Reach Determ C14Facts BackendFacts
     Integrity Sign SignDeterm.
Import ListNotations.
Local Open Scope Z_scope.

(* Histories: if every operation carries the deterministic option or an
   explicit time, or meets an image that is deterministic at that point, then
   whatever the clock reads at each operation (clk1 / clk2), all results and
   the whole final state - handle and every byte of storage - are the same. *)
Theorem C12_clock_independent :
  forall sha256 ops s clk1 clk2,
  clock_free_run sha256 s ops ->
  run sha256 s (retime clk1 ops) = run sha256 s (retime clk2 ops).
Proof. exact run_clock_independent. Qed.

(* Creation: if the options fix ID and time (the deterministic option, or an
   explicit ID and an explicit time, in any order with any other options), the
   resolved creation parameters - hence the created image - do not depend on
   the clock or the random source. *)
Theorem C12_creation_independent :
  forall opts now1 rnd1 now2 rnd2,
  existsb sets_id opts = true -> existsb sets_time opts = true ->
  resolve_copts opts now1 rnd1 = resolve_copts opts now2 rnd2.
Proof. exact resolve_copts_independent. Qed.

(* The deterministic option, not overridden by a later option, gives the nil
   ID and the zero time ... *)
Theorem C12_deterministic_creation :
  forall pre post now rnd,
  existsb sets_id post = false -> existsb sets_time post = false ->
  co_id (resolve_copts (pre ++ CODeterministic :: post) now rnd) = nil_uuid /\
  co_time (resolve_copts (pre ++ CODeterministic :: post) now rnd) = zero_time.
Proof. exact resolve_copts_deterministic. Qed.

(* ... and from then on, as long as no time is supplied explicitly, the image
   ID stays nil and every time field of the header and of every live object is
   the zero time, after every operation (default or deterministic option). *)
Theorem C12_zero_fields :
  forall sha256 s x s' r,
  Inv s -> zero_times (s_mem s) -> no_explicit_time x ->
  step sha256 s x = (s', r) -> zero_times (s_mem s').
Proof. exact step_keeps_zero_times. Qed.

(* Explicit values appear exactly where documented: a successful modifying
   operation stamps the header modification time with the requested time and
   leaves creation time and image ID alone (object times: C01's `new_desc`;
   set-operations stamp only their targets: C01_objects_persist). *)
Theorem C12_explicit_where_documented :
  forall sha256 m x m' evs o now,
  topt_of x = Some o -> x = set_now now x ->
  plan_op sha256 m x = (m', Ok, evs) -> evs <> [] ->
  h_mtime (m_hdr m') = resolve_time (m_hdr m) o now /\
  h_ctime (m_hdr m') = h_ctime (m_hdr m) /\ h_id (m_hdr m') = h_id (m_hdr m).
Proof. exact plan_stamps_header. Qed.

(* Another storage backend: same results, byte-identical contents (C14). *)
Theorem C12_backend_independent :
  forall sha256, (forall c, length (sha256 c) = 32%nat) ->
  forall ops s,
  Inv s -> m_rds (s_mem s) <> [] -> wf_ops sha256 (on_backend BFile s) ops ->
  let '(sb, rb) := run sha256 (on_backend BBuf s) ops in
  let '(sf, rf) := run sha256 (on_backend BFile s) ops in
  rb = rf /\ s_mem sb = s_mem sf /\ s_io sb = s_io sf.
Proof. exact run_backend_independent. Qed.

(* Signing is reproducible too.  `hash`, `encode_md`, `seal` and `signer_fp`
   stand for the digest algorithms, json.Marshal of the signed metadata, the
   envelope encoder and its key (a function: salt disabled, deterministic
   algorithm); `det` is OptSignDeterministic and `tf` the signature time
   given with OptSignWithTime, which the model resolves as Signer.Sign does
   (`sign_topt`: the deterministic option wins).  With either option, or on
   an image that is already deterministic, signing does not read the clock:
   results, handle and every stored byte are the same whenever it runs. *)
Theorem C12_signing_reproducible :
  forall hash sha256 encode_md seal signer_fp s groups objects det tf clk1 clk2,
  det = true \/ tf <> None \/ zero_times (s_mem s) ->
  sign hash sha256 encode_md seal signer_fp s (mkSO groups objects (sign_topt det tf)) clk1 =
  sign hash sha256 encode_md seal signer_fp s (mkSO groups objects (sign_topt det tf)) clk2.
Proof. exact sign_reproducible. Qed.

(* With the deterministic option the signature time given is not used either ... *)
Theorem C12_deterministic_signing_ignores_the_signature_time :
  forall hash sha256 encode_md seal signer_fp s groups objects tf1 tf2 clk1 clk2,
  sign hash sha256 encode_md seal signer_fp s (mkSO groups objects (sign_topt true tf1)) clk1 =
  sign hash sha256 encode_md seal signer_fp s (mkSO groups objects (sign_topt true tf2)) clk2.
Proof. exact sign_deterministic_ignores_time. Qed.

(* ... and a deterministic image stays deterministic through signing: nil ID,
   every time field of the header and of every object - the new signature
   objects included - the zero time. *)
Theorem C12_signing_keeps_zero_fields :
  forall hash sha256 encode_md seal signer_fp gss s o clk s' r,
  (o = TDeterministic \/ o = TDefault) -> zero_times (s_mem s) ->
  sign_all hash sha256 encode_md seal signer_fp s gss o clk = (s', r) -> zero_times (s_mem s').
Proof. exact sign_all_keeps_zero_times. Qed.

(* non-vacuity: a deterministic creation followed by default-option operations
   is clock free, and its bytes do not depend on the clock *)
Definition sha0 (_ : list byte) : list byte := zeros 32.
Definition di1 : dinput := mkDI DataGeneric [x61] None 1 LNone 0 [] MdNone None.
Example C12_example :
  match create sha0 BFile (resolve_copts [COWithCapacity 2; CODeterministic] 1700000000 [x01]) with
  | (Some s, Ok, _) =>
      zero_times (s_mem s) /\
      clock_free_run sha0 s [OpAdd di1 TDefault 0; OpDelete (SID 1) true true TDefault 0] /\
      run sha0 s (retime [5; 6] [OpAdd di1 TDefault 0; OpDelete (SID 1) true true TDefault 0]) =
      run sha0 s (retime [1700000000; 1800000000] [OpAdd di1 TDefault 0; OpDelete (SID 1) true true TDefault 0])
  | _ => False
  end.
Proof.
  vm_compute. split; [split; [reflexivity|]|split; [repeat split|reflexivity]].
  intros d [E|[E|[]]] U; subst d; try discriminate U.
Qed.

Print Assumptions C12_clock_independent.
Print Assumptions C12_creation_independent.
Print Assumptions C12_deterministic_creation.
Print Assumptions C12_zero_fields.
Print Assumptions C12_explicit_where_documented.
Print Assumptions C12_backend_independent.
Print Assumptions C12_signing_reproducible.
Print Assumptions C12_deterministic_signing_ignores_the_signature_time.
Print Assumptions C12_signing_keeps_zero_fields.

(* C08 — An open handle and the reloaded file are indistinguishable.
   Statements only; every proof is `exact <lemma>`.  See DESIGN.md section 5.

   `reachable sha256 s`: s is obtained from CreateContainer with any
   well-typed options, or from loading any well-formed image written by
   someone else, by any finite history of add / delete / set-primary /
   set-metadata / set-OCI-digest / reload operations, accepted or rejected.
   sha256 is the digest function (a parameter: nothing depends on what it
   computes, only that it yields 32 bytes). *)
From Coq Require Import List ZArith Bool.
From Coq.Init Require Import Byte.
From Sif Require Import Bytes Store Format Image Machine Inv InvSet InvAdd InvCreate InvLoad Reach.
Import ListNotations.
Local Open Scope Z_scope.

(* In every reachable state, LoadContainer applied to the file's current
   bytes returns exactly the open handle: same header, same descriptors, same
   cached minimum IDs (hence the same relative IDs and integrity streams). *)
Theorem C08_handle_eq_reload :
  forall sha256, (forall c, length (sha256 c) = 32%nat) ->
  forall s, reachable sha256 s -> load_image (f_bytes (s_io s)) = inl (s_mem s).
Proof. exact handle_is_reload. Qed.

(* Consequently every question - any function of the handle and the storage:
   header accessors, descriptor queries, object contents, integrity streams,
   and therefore signing and verification - is answered identically by the
   handle and by a fresh load. *)
Theorem C08_all_answers_coincide :
  forall sha256, (forall c, length (sha256 c) = 32%nat) ->
  forall s, reachable sha256 s ->
  forall (A : Type) (question : mem -> store -> A),
  exists m', load_image (f_bytes (s_io s)) = inl m' /\
             question m' (f_bytes (s_io s)) = question (s_mem s) (f_bytes (s_io s)).
Proof.
  exact (fun sha H s R A q => ex_intro _ (s_mem s) (conj (handle_is_reload sha H s R) eq_refl)).
Qed.

(* closing and reopening in between changes nothing *)
Theorem C08_reload_is_identity :
  forall sha256, (forall c, length (sha256 c) = 32%nat) ->
  forall s, reachable sha256 s -> step sha256 s OpReload = (s, Ok).
Proof. exact (fun sha H s R => reload_identity sha s (reachable_inv sha H s R)). Qed.

(* the invariant behind it holds after every operation, rejected ones included *)
Theorem C08_invariant_everywhere :
  forall sha256, (forall c, length (sha256 c) = 32%nat) ->
  forall s, reachable sha256 s -> Inv s.
Proof. exact reachable_inv. Qed.

(* non-vacuity: reachable states exist (an empty image, then one object) *)
Definition sha0 (_ : list byte) : list byte := zeros 32.
Definition co0 : copts := mkCO [x23; x21] (zeros 16) 2 zero_time [].
Definition di0 : dinput := mkDI DataGeneric [x61; x62; x63] None 1 LNone 0 [x6e] MdNone None.
Example C08_reachable_example :
  match create sha0 BBuf co0 with
  | (Some s, r, _) =>
      r = Ok /\
      let '(s', r') := step sha0 s (OpAdd di0 TDeterministic 0) in
      r' = Ok /\ load_image (f_bytes (s_io s')) = inl (s_mem s')
  | _ => False
  end.
Proof. vm_compute. repeat split. Qed.

Print Assumptions C08_handle_eq_reload.
Print Assumptions C08_all_answers_coincide.
Print Assumptions C08_reload_is_identity.
Print Assumptions C08_invariant_everywhere.

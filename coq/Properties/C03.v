(* C03 — Object regions never overlap or escape; bystander objects are never
   disturbed.  Statements only; every proof is `exact <lemma>`. *)
From Coq Require Import List ZArith Bool.
From Coq.Init Require Import Byte.
From Sif Require Import Bytes Store Format Image Machine AlignFacts Inv InvCommon InvSet InvDelete
     InvAdd InvCreate Reach Persist C03Facts.
Import ListNotations.
Local Open Scope Z_scope.

(* In every reachable state: the descriptor table lies where the header says,
   after the 128-byte header and before the data section; every live object
   lies inside the header-declared data section and, when non-empty, inside
   the file; regions of distinct live non-empty objects are disjoint. *)
Theorem C03_layout :
  forall sha256, (forall c, length (sha256 c) = 32%nat) ->
  forall s, reachable sha256 s ->
  let h := m_hdr (s_mem s) in
  let rds := m_rds (s_mem s) in
  let st := f_bytes (s_io s) in
  128 <= h_descoff h /\ 585 * Z.of_nat (length rds) <= h_descsize h /\
  h_descoff h + h_descsize h <= h_dataoff h /\
  nread (Z.to_nat (h_descoff h)) (585 * length rds) st = enc_table rds /\
  (forall i d, used_at rds i d ->
     h_dataoff h <= d_off d /\ 0 <= d_size d /\
     d_off d + d_size d <= h_dataoff h + h_datasize h /\
     (0 < d_size d -> d_off d + d_size d <= Z.of_nat (length st))) /\
  (forall i j di dj, i <> j -> used_at rds i di -> used_at rds j dj ->
     0 < d_size di -> 0 < d_size dj ->
     d_off di + d_size di <= d_off dj \/ d_off dj + d_size dj <= d_off di).
Proof. exact layout_reachable. Qed.

(* A new object starts at the requested alignment, at or after the end of all
   existing data (so it overlaps nothing), and adding it changes no byte of
   the file between the start of the data section and that end. *)
Theorem C03_add_placement :
  forall sha256, (forall c, length (sha256 c) = 32%nat) ->
  forall s di o now s',
  Inv s -> time_ok o now -> wf_dinput di -> add_fits (s_mem s) di ->
  step sha256 s (OpAdd di o now) = (s', Ok) ->
  let m := s_mem s in
  let unaligned := data_end (m_hdr m) (m_rds m) in
  exists off, next_aligned unaligned (di_align di) = Some off /\
    unaligned <= off /\ (0 < di_align di -> off mod di_align di = 0 /\ off < unaligned + di_align di) /\
    (forall i d, used_at (m_rds m) i d -> d_off d + d_size d <= off) /\
    (forall a n, (a + n <= length (f_bytes (s_io s)))%nat -> (Z.to_nat (h_dataoff (m_hdr m)) <= a)%nat ->
                 Z.of_nat (a + n) <= unaligned ->
                 nread a n (f_bytes (s_io s')) = nread a n (f_bytes (s_io s))).
Proof. exact add_placement. Qed.

(* Deleting: surviving objects keep their bytes; a compacting delete leaves
   the file ending exactly at the end of the last live object (or of the
   data-section start, i.e. the descriptor table side, if none is left); a
   zeroing delete leaves zeros in exactly the deleted objects' regions; a
   refused delete changes nothing at all. *)
Theorem C03_delete :
  forall sha256 s sel zero compact o now s' r,
  Inv s -> time_ok o now ->
  step sha256 s (OpDelete sel zero compact o now) = (s', r) ->
  Inv s' /\ (r <> Ok -> s' = s) /\
  (r = Ok ->
   m_rds (s_mem s') = after_del sel (m_rds (s_mem s)) /\
   (forall i d, used_at (m_rds (s_mem s')) i d ->
      nread (Z.to_nat (d_off d)) (Z.to_nat (d_size d)) (f_bytes (s_io s')) =
      nread (Z.to_nat (d_off d)) (Z.to_nat (d_size d)) (f_bytes (s_io s))) /\
   (compact = true ->
      Z.of_nat (length (f_bytes (s_io s'))) = data_end (m_hdr (s_mem s')) (m_rds (s_mem s'))) /\
   (zero = true -> compact = false -> forall d, In d (m_rds (s_mem s)) -> del sel d = true ->
      0 < d_size d ->
      nread (Z.to_nat (d_off d)) (Z.to_nat (d_size d)) (f_bytes (s_io s')) = zeros (Z.to_nat (d_size d)))).
Proof. exact delete_inv. Qed.

(* No operation whatsoever changes a byte of, or the descriptor of, a live
   object that it does not delete or (set-operations) target. *)
Theorem C03_bystanders_undisturbed :
  forall sha256, (forall c, length (sha256 c) = 32%nat) ->
  forall s x s' r, Inv s -> wf_op s x -> step sha256 s x = (s', r) ->
  forall j d, used_at (m_rds (s_mem s)) j d -> ~ deleted_by x r d -> ~ set_target x d ->
    used_at (m_rds (s_mem s')) j d /\
    nread (Z.to_nat (d_off d)) (Z.to_nat (d_size d)) (f_bytes (s_io s')) =
    nread (Z.to_nat (d_off d)) (Z.to_nat (d_size d)) (f_bytes (s_io s)).
Proof. exact bystanders_undisturbed. Qed.

(* The alignment arithmetic, for every non-negative offset and every
   alignment (not a grid of samples): *)
Theorem C03_next_aligned :
  forall off align,
  0 <= off <= max_i64 ->
  (forall r, next_aligned off align = Some r ->
     off <= r /\ r <= max_i64 /\ (align <= 0 -> r = off) /\
     (0 < align -> r mod align = 0 /\ r < off + align)) /\
  (next_aligned off align = None <->
     0 < align /\ off mod align <> 0 /\ max_i64 < off + (align - off mod align)).
Proof. exact next_aligned_spec. Qed.

Example C03_next_aligned_examples :
  next_aligned 1025 1024 = Some 2048 /\ next_aligned 1024 1024 = Some 1024 /\
  next_aligned 7 0 = Some 7 /\ next_aligned 7 (-8) = Some 7 /\
  next_aligned max_i64 1024 = None /\ next_aligned (max_i64 - 1023) 1024 = Some (max_i64 - 1023).
Proof. vm_compute. repeat split. Qed.

Print Assumptions C03_layout.
Print Assumptions C03_add_placement.
Print Assumptions C03_delete.
Print Assumptions C03_bystanders_undisturbed.
Print Assumptions C03_next_aligned.

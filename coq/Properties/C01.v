(* C01 — Stored objects are read back exactly.
   Statements only; every proof is `exact <lemma>`.  See DESIGN.md section 5.

   `stored sha256 di t old_extra d st` says descriptor d and storage st hold
   object description di exactly: type, group, link, size, both times (the
   object's own time if given, else t), uid/gid 0, the name zero-padded to 128
   bytes, the metadata as marshalled by the option given (for OCI blobs and
   root indexes the text "sha256:" + hex(sha256(content)) over exactly the
   bytes stored), the content bytes at the recorded offset, and the requested
   alignment.  (InvCreate.v) *)
From Coq Require Import List ZArith Bool.
From Coq.Init Require Import Byte.
From Sif Require Import Bytes Store Format Image Machine Inv InvSet InvAdd InvCreate InvLoad
     LoadFacts Reach Persist Meta MetaFacts MetaStored.
Import ListNotations.
Local Open Scope Z_scope.

(* Creation with any well-typed options: every object given is stored exactly,
   in insertion order, with ID = position + 1, together with the launch script,
   image ID and creation time; and the result satisfies the invariant. *)
Theorem C01_created_objects_read_back :
  forall sha256, (forall c, length (sha256 c) = 32%nat) ->
  forall b co s r io, wf_copts co -> create sha256 b co = (Some s, r, io) ->
  r = Ok /\ Inv s /\ s_io s = io /\ s_backend s = b /\
  h_launch (m_hdr (s_mem s)) = pad_to 32 (co_launch co) /\
  h_id (m_hdr (s_mem s)) = co_id co /\
  h_ctime (m_hdr (s_mem s)) = co_time co /\ h_mtime (m_hdr (s_mem s)) = co_time co /\
  h_total (m_hdr (s_mem s)) = co_cap co /\
  (forall k di, nth_error (co_dis co) k = Some di ->
     exists d, nth_error (m_rds (s_mem s)) k = Some d /\ d_id d = Z.of_nat k + 1 /\
               stored sha256 di (co_time co) (zeros 384) d (f_bytes (s_io s))).
Proof. exact create_inv. Qed.

(* A later add: if accepted, the object lands in the first free slot with
   ID = slot + 1 and the descriptor `new_desc` (every attribute as given); its
   content is stored exactly at the aligned offset; everything up to the end of
   the existing data is untouched.  If refused, the handle is unchanged. *)
Theorem C01_added_object_read_back :
  forall sha256, (forall c, length (sha256 c) = 32%nat) ->
  forall s di o now s' r,
  Inv s -> time_ok o now -> wf_dinput di -> add_fits (s_mem s) di ->
  step sha256 s (OpAdd di o now) = (s', r) ->
  let m := s_mem s in
  let st := f_bytes (s_io s) in
  let st' := f_bytes (s_io s') in
  let unaligned := data_end (m_hdr m) (m_rds m) in
  Inv s' /\ (length st <= length st')%nat /\
  (forall a n, (a + n <= length st)%nat -> (Z.to_nat (h_dataoff (m_hdr m)) <= a)%nat ->
               Z.of_nat (a + n) <= unaligned -> nread a n st' = nread a n st) /\
  (r <> Ok -> s_mem s' = m) /\
  (r = Ok ->
   let i := first_unused (m_rds m) in
   let t := resolve_time (m_hdr m) o now in
   exists slot off extra,
     nth_error (m_rds m) i = Some slot /\
     next_aligned unaligned (di_align di) = Some off /\
     new_extra sha256 (d_extra slot) (di_md di) (di_content di) = inl extra /\
     let d := new_desc i di t unaligned off extra in
     m_rds (s_mem s') = set_nth i d (m_rds m) /\
     h_mtime (m_hdr (s_mem s')) = t /\
     h_arch (m_hdr (s_mem s')) = new_arch (m_hdr m) di /\
     nread (Z.to_nat off) (length (di_content di)) st' = di_content di).
Proof. exact add_inv. Qed.

(* Whatever happens afterwards, an object that is not deleted keeps its slot,
   ID, type, group, link, name, creation time, size and offset and its bytes;
   only a set-operation aimed at it changes its metadata and modification
   time. *)
Theorem C01_objects_persist :
  forall sha256, (forall c, length (sha256 c) = 32%nat) ->
  forall s x s' r, Inv s -> wf_op s x -> step sha256 s x = (s', r) ->
  forall j d, used_at (m_rds (s_mem s)) j d -> ~ deleted_by x r d ->
    exists d', used_at (m_rds (s_mem s')) j d' /\ same_but_meta d d' /\
               (~ set_target x d -> d' = d) /\
               nread (Z.to_nat (d_off d)) (Z.to_nat (d_size d)) (f_bytes (s_io s')) =
               nread (Z.to_nat (d_off d)) (Z.to_nat (d_size d)) (f_bytes (s_io s)).
Proof. exact step_persist. Qed.

(* Reading back: from the same handle GetData returns exactly the object's
   region; after loading the file anew the handle is the same (C08), so the
   same holds there. *)
Theorem C01_get_data_is_region :
  forall m st i d, wf_mem m -> coherent m st -> used_at (m_rds m) i d ->
  get_data d st = inl (nread (Z.to_nat (d_off d)) (Z.to_nat (d_size d)) st).
Proof. exact get_data_live. Qed.

Theorem C01_same_after_loading_anew :
  forall sha256, (forall c, length (sha256 c) = 32%nat) ->
  forall s, reachable sha256 s -> load_image (f_bytes (s_io s)) = inl (s_mem s).
Proof. exact handle_is_reload. Qed.

(* OCI blobs: the recorded digest is over exactly the bytes stored *)
Theorem C01_oci_digest_of_stored_bytes :
  forall sha256 di t old d st,
  stored sha256 di t old d st -> di_md di = MdOCI ->
  d_extra d = pad_to 384 (sha256_prefix ++ hex_of (sha256 (di_content di))) /\
  nread (Z.to_nat (d_off d)) (length (di_content di)) st = di_content di.
Proof. exact stored_oci. Qed.

(* non-vacuity: a creation with three objects of different kinds meets the
   hypotheses (alignment larger than the object, an empty object, an OCI blob) *)
Definition sha0 (_ : list byte) : list byte := zeros 32.
Definition co1 : copts :=
  mkCO [x23; x21] (zeros 16) 3 1504657553
       [ mkDI DataGeneric [x61; x62; x63] None 1 LNone 512 [x6e] MdNone None;
         mkDI DataPartition [] None 2 (LObject 1) 4096 [] (MdPart 1 2 [x30; x32; x00]) (Some 7);
         mkDI DataOCIBlob [x01; x02] None 0 (LGroup 1) 0 [] MdOCI None ].
Example C01_example_meets_hypotheses :
  match create sha0 BFile co1 with
  | (Some s, Ok, _) => length (m_rds (s_mem s)) = 3%nat /\ h_free (m_hdr (s_mem s)) = 0
  | _ => False
  end.
Proof. vm_compute. repeat split. Qed.

(* The typed accessors (descriptor.go: Name, GroupID, PartitionMetadata,
   SignatureMetadata, CryptoMessageMetadata, SBOMMetadata, OCIBlobDigest;
   model: Meta.v) return what the options of descriptor_input.go were given,
   for every object `stored` as above - at creation or by a later add, on the
   handle or after loading anew (C01_same_after_loading_anew).  `opt_*` are the
   options themselves: they refuse the wrong data type / an unknown
   architecture, else yield the metadata the descriptor input carries. *)
Theorem C01_name_read_back :
  forall sha256 di t old d st, stored sha256 di t old d st ->
  (length (di_name di) <= 128)%nat -> last (di_name di) x01 <> x00 ->
  name_of d = di_name di.
Proof. exact stored_name. Qed.

Theorem C01_group_read_back :
  forall sha256 di t old d st, stored sha256 di t old d st ->
  0 <= di_group di < 2 ^ 28 -> group_of d = di_group di.
Proof. exact stored_group. Qed.

Theorem C01_partition_metadata_read_back :
  forall sha256 di t old d st fs pt arch_name, stored sha256 di t old d st ->
  opt_partition (di_type di) fs pt arch_name = Some (di_md di) -> in_i32 fs -> in_i32 pt ->
  partition_metadata d = inl (fs, pt, arch_name).
Proof. exact stored_partition. Qed.

Theorem C01_signature_metadata_read_back :
  forall sha256 di t old d st hash fp, stored sha256 di t old d st ->
  opt_signature (di_type di) hash fp = Some (di_md di) ->
  supported_hash hash -> length fp = 20%nat -> all_zero fp = false ->
  signature_metadata d = inl (hash, Some fp).
Proof. exact stored_signature. Qed.

Theorem C01_crypto_metadata_read_back :
  forall sha256 di t old d st ft mt, stored sha256 di t old d st ->
  opt_crypto (di_type di) ft mt = Some (di_md di) -> in_i32 ft -> in_i32 mt ->
  crypto_metadata d = inl (ft, mt).
Proof. exact stored_crypto. Qed.

Theorem C01_sbom_metadata_read_back :
  forall sha256 di t old d st f, stored sha256 di t old d st ->
  opt_sbom (di_type di) f = Some (di_md di) -> in_i32 f ->
  sbom_metadata d = inl f.
Proof. exact stored_sbom. Qed.

Theorem C01_oci_digest_read_back :
  forall sha256, (forall c, length (sha256 c) = 32%nat) ->
  forall di t old d st, stored sha256 di t old d st -> di_md di = MdOCI ->
  di_type di = DataOCIBlob \/ di_type di = DataOCIRootIndex ->
  oci_digest d = inl (sha256_prefix ++ hex_of (sha256 (di_content di))).
Proof. exact stored_oci_digest. Qed.

(* Header accessors: the launch script given at creation (at most 32 bytes, not
   ending in NUL; C01_created_objects_read_back gives h_launch = pad_to 32 of
   it) is what LaunchScript() returns; PrimaryArch() names the architecture of
   the primary system partition just written (C01_added_object_read_back gives
   h_arch = new_arch), and is untouched by any other object. *)
Theorem C01_launch_script_read_back :
  forall h l, (length l <= 32)%nat -> last l x01 <> x00 -> h_launch h = pad_to 32 l -> launch_of h = l.
Proof. exact launch_roundtrip. Qed.

Theorem C01_primary_arch_read_back :
  forall h h' di fs arch_name,
  opt_partition (di_type di) fs PartPrimSys arch_name = Some (di_md di) ->
  h_arch h' = new_arch h di -> primary_arch h' = arch_name.
Proof. exact primary_arch_of_new_partition. Qed.

Theorem C01_primary_arch_unchanged_by_others :
  forall h h' di, (forall fs a, di_md di <> MdPart fs PartPrimSys a) ->
  h_arch h' = new_arch h di -> primary_arch h' = primary_arch h.
Proof. exact primary_arch_unchanged. Qed.

(* A crypto.Hash outside SHA-256/384/512 and BLAKE2s/b-256 is written as hash
   type 0, and SignatureMetadata refuses hash type 0: such a signature object
   is stored, but its metadata cannot be read back (the property's quantifier
   lists the metadata variants the format can represent; this one it cannot). *)
Theorem C01_unsupported_hash_not_representable :
  forall h, ~ supported_hash h -> sif_hash_type h = 0 /\ get_hash_type 0 = None.
Proof. exact hash_unsupported. Qed.

(* non-vacuity: the third object of co2 is a signature object made with
   OptSignatureMetadata(BLAKE2b_256, fp); the accessors answer as given *)
Definition fp0 : list byte := [x01;x02;x03;x04;x05;x06;x07;x08;x09;x0a;x0b;x0c;x0d;x0e;x0f;x10;x11;x12;x13;x14].
Definition co2 : copts :=
  mkCO [] (zeros 16) 4 1504657553
       [ mkDI DataPartition [x01] None 1 LNone 0 [x70] (MdPart 1 3 (get_sif_arch [x73; x33; x39; x30; x78])) None;
         mkDI DataCryptoMessage [x02] None 1 LNone 0 [] (MdRaw (enc_crypto 2 512)) None;
         mkDI DataSignature [x03] None 0 (LObject 1) 0 [x73; x69; x67] (MdRaw (enc_signature (sif_hash_type 17) fp0)) None;
         mkDI DataSBOM [x04] None 2 LNone 0 [] (MdRaw (enc_sbom 5)) None ].
Example C01_typed_metadata_example :
  match create sha0 BBuf co2 with
  | (Some s, Ok, _) =>
      map (fun d => (name_of d, group_of d)) (m_rds (s_mem s)) =
        [([x70], 1); ([], 1); ([x73; x69; x67], 0); ([], 2)] /\
      map partition_metadata (m_rds (s_mem s)) =
        [inl (1, 3, [x73; x33; x39; x30; x78]); inr MWrongType; inr MWrongType; inr MWrongType] /\
      map crypto_metadata (m_rds (s_mem s)) = [inr MWrongType; inl (2, 512); inr MWrongType; inr MWrongType] /\
      map signature_metadata (m_rds (s_mem s)) =
        [inr MWrongType; inr MWrongType; inl (17, Some fp0); inr MWrongType] /\
      map sbom_metadata (m_rds (s_mem s)) = [inr MWrongType; inr MWrongType; inr MWrongType; inl 5]
  | _ => False
  end.
Proof. vm_compute. repeat split. Qed.

Print Assumptions C01_created_objects_read_back.
Print Assumptions C01_added_object_read_back.
Print Assumptions C01_objects_persist.
Print Assumptions C01_get_data_is_region.
Print Assumptions C01_same_after_loading_anew.
Print Assumptions C01_oci_digest_of_stored_bytes.
Print Assumptions C01_name_read_back.
Print Assumptions C01_group_read_back.
Print Assumptions C01_partition_metadata_read_back.
Print Assumptions C01_signature_metadata_read_back.
Print Assumptions C01_crypto_metadata_read_back.
Print Assumptions C01_sbom_metadata_read_back.
Print Assumptions C01_oci_digest_read_back.
Print Assumptions C01_unsupported_hash_not_representable.
Print Assumptions C01_launch_script_read_back.
Print Assumptions C01_primary_arch_read_back.
Print Assumptions C01_primary_arch_unchanged_by_others.

(* C14 — The in-memory buffer backend behaves like a file.
   Statements only; every proof is `exact <lemma>`.  See DESIGN.md section 5. *)
From Coq Require Import List ZArith Bool.
From Coq.Init Require Import Byte.
From Sif Require Import Bytes Store Format Image Machine Backends BackendFacts C14Facts Inv Reach.
Import ListNotations.
Local Open Scope Z_scope.

(* sif.Buffer, transliterated line by line from buffer.go (buf_step), and a
   POSIX file as *os.File presents it (file_step): every call in the Buffer's
   documented contract - any seek with a valid whence; a write of any
   non-empty length at any position, also past the end; an empty write at a
   position inside the data; a non-empty positioned read anywhere; truncation
   to any length up to the current size - has the same effect on the contents
   and position and the same result (data, count, error class) on both. *)
Theorem C14_bisim : forall s c,
  pos_ok s -> in_contract s c ->
  fst (buf_step s c) = fst (file_step s c) /\
  same_reply (snd (buf_step s c)) (snd (file_step s c)) /\
  pos_ok (fst (buf_step s c)).
Proof. exact buffer_file_bisim. Qed.

(* the two storage interpreters the image model runs on are these two *)
Theorem C14_model_backends_are_these :
  (forall ev io, run_calls file_step (stor_of io) (ev_calls io ev) = (stor_of (file_apply ev io), true)) /\
  (forall ev io io', buf_apply ev io = Some io' ->
                     run_calls buf_step (stor_of io) (ev_calls io ev) = (stor_of io', true)).
Proof. exact (conj file_apply_is_file_step buf_apply_is_buf_step). Qed.

(* Every storage call the library issues in any operation on an image with at
   least one descriptor slot is inside the contract: it never writes an empty
   slice and never truncates upward (resize shrinks with Truncate and grows by
   writing).  Hence one operation ... *)
Theorem C14_operation_agrees :
  forall sha256 s x,
  m_rds (s_mem s) <> [] ->
  match x with OpReload => load_image (f_bytes (s_io s)) = inl (s_mem s) | _ => True end ->
  let '(sb, rb) := step sha256 (on_backend BBuf s) x in
  let '(sf, rf) := step sha256 (on_backend BFile s) x in
  rb = rf /\ s_mem sb = s_mem sf /\ s_io sb = s_io sf /\ m_rds (s_mem sb) <> [].
Proof. exact step_backend_independent. Qed.

(* ... and any operation history returns the same results and leaves
   byte-identical contents whether the image lives in sif.Buffer or in a file. *)
Theorem C14_histories_agree :
  forall sha256, (forall c, length (sha256 c) = 32%nat) ->
  forall ops s,
  Inv s -> m_rds (s_mem s) <> [] -> wf_ops sha256 (on_backend BFile s) ops ->
  let '(sb, rb) := run sha256 (on_backend BBuf s) ops in
  let '(sf, rf) := run sha256 (on_backend BFile s) ops in
  rb = rf /\ s_mem sb = s_mem sf /\ s_io sb = s_io sf.
Proof. exact run_backend_independent. Qed.

(* Without the hypothesis "at least one descriptor slot" the statement is
   false of the code (known finding F4b): creating an image with capacity 0
   writes an empty descriptor table at offset 4096, which grows the Buffer to
   4096 bytes while the file stays at 128. *)
Theorem C14_capacity_zero_refuted :
  match create sha0 BBuf co_cap0, create sha0 BFile co_cap0 with
  | (_, _, iob), (_, _, iof) => length (f_bytes iob) = 4096%nat /\ length (f_bytes iof) = 128%nat
  end.
Proof. exact capacity_zero_differs. Qed.

(* and outside the contract the two backends really do differ *)
Example C14_empty_write_past_end_differs :
  let s := mkSt [x01; x02] 5 in
  st_bytes (fst (buf_step s (CWrite []))) <> st_bytes (fst (file_step s (CWrite []))).
Proof. exact outside_contract_differs. Qed.

Print Assumptions C14_bisim.
Print Assumptions C14_model_backends_are_these.
Print Assumptions C14_operation_agrees.
Print Assumptions C14_histories_agree.
Print Assumptions C14_capacity_zero_refuted.

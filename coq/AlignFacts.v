(* AlignFacts.v — nextAligned, for all offsets and alignments in range. *)
From Coq Require Import List ZArith Lia Bool.
From Sif Require Import Bytes Format Image.
Local Open Scope Z_scope.

(* For a non-negative offset: the result is the least multiple of the
   alignment that is >= offset, unless that exceeds MaxInt64, in which case
   (and only then) the overflow error is returned; a non-positive alignment
   leaves the offset alone. *)
Theorem next_aligned_some off align r :
  0 <= off <= max_i64 ->
  next_aligned off align = Some r ->
  off <= r /\ r <= max_i64 /\
  (align <= 0 -> r = off) /\
  (0 < align -> r mod align = 0 /\ r < off + align).
Proof.
  intros Ho. unfold next_aligned.
  destruct (Z.leb_spec align 0) as [Ha|Ha]; cbn [orb].
  - intro H; inversion H; subst. repeat split; try lia.
  - rewrite Z.rem_mod_nonneg by lia.
    pose proof (Z.mod_pos_bound off align Ha) as Hm.
    destruct (Z.eqb_spec (off mod align) 0) as [E|E].
    + intro H; inversion H; subst. repeat split; try lia.
    + destruct (Z.ltb_spec (max_i64 - off) (align - off mod align)) as [L|L]; [discriminate|].
      intro H; inversion H; subst. repeat split; try lia.
      replace (off + (align - off mod align)) with (align + (off - off mod align)) by lia.
      rewrite (Z.div_mod off align) at 1 by lia.
      replace (align + (align * (off / align) + off mod align - off mod align))
        with ((1 + off / align) * align) by lia.
      apply Z.mod_mul. lia.
Qed.

Theorem next_aligned_none off align :
  0 <= off <= max_i64 ->
  (next_aligned off align = None <->
   0 < align /\ off mod align <> 0 /\ max_i64 < off + (align - off mod align)).
Proof.
  intros Ho. unfold next_aligned.
  destruct (Z.leb_spec align 0) as [Ha|Ha]; cbn [orb].
  - split; [discriminate | lia].
  - rewrite Z.rem_mod_nonneg by lia.
    destruct (Z.eqb_spec (off mod align) 0) as [E|E].
    + split; [discriminate | lia].
    + destruct (Z.ltb_spec (max_i64 - off) (align - off mod align)) as [L|L].
      * split; [intros _; lia | reflexivity].
      * split; [discriminate | lia].
Qed.

(* least: no multiple of the alignment lies in [off, r) *)
Theorem next_aligned_least off align r x :
  0 <= off <= max_i64 -> 0 < align ->
  next_aligned off align = Some r ->
  off <= x -> x mod align = 0 -> r <= x.
Proof.
  intros Ho Ha H Hx Hm.
  destruct (next_aligned_some off align r Ho H) as (H1 & H2 & _ & H4).
  destruct (H4 Ha) as [Hr Hlt].
  (* r and x are multiples of align; r - align < off <= x *)
  apply Z.mod_divide in Hr; [|lia]. apply Z.mod_divide in Hm; [|lia].
  destruct Hr as [a Hr], Hm as [c Hm]. subst r x.
  assert (a - 1 < c) by nia. nia.
Qed.

(* C17Facts.v — the signer listings are the sorted, duplicate-free union and
   intersection of the fingerprints recorded on the signatures of each task. *)
From Coq Require Import List ZArith Lia Bool Sorted.
From Coq.Init Require Import Byte.
From Coq Require Strings.Byte.
From Sif Require Import Bytes BytesFacts Store Format Image SelectFacts Integrity StreamFacts IntegFacts C04Facts C05Facts C07Facts.
Import ListNotations.
Local Open Scope Z_scope.

(* ---------- the order on fingerprints ---------- *)

Lemma bytes_ltb_irrefl a : bytes_ltb a a = false.
Proof. induction a as [|x a IH]; cbn; [reflexivity|]. now rewrite Z.ltb_irrefl. Qed.

Lemma bytes_ltb_trans a b c : bytes_ltb a b = true -> bytes_ltb b c = true -> bytes_ltb a c = true.
Proof.
  revert b c. induction a as [|x a IH]; intros [|y b] [|z c]; cbn; try congruence.
  destruct (Z.ltb_spec (byte_to_Z x) (byte_to_Z y)) as [Lxy|Gxy].
  - intros _. destruct (Z.ltb_spec (byte_to_Z y) (byte_to_Z z)) as [Lyz|Gyz].
    + intros _. destruct (Z.ltb_spec (byte_to_Z x) (byte_to_Z z)); [reflexivity | lia].
    + destruct (Z.ltb_spec (byte_to_Z z) (byte_to_Z y)); [discriminate|]. intros _.
      destruct (Z.ltb_spec (byte_to_Z x) (byte_to_Z z)); [reflexivity | lia].
  - destruct (Z.ltb_spec (byte_to_Z y) (byte_to_Z x)) as [Lyx|Gyx]; [discriminate|].
    intro Hab. destruct (Z.ltb_spec (byte_to_Z y) (byte_to_Z z)) as [Lyz|Gyz].
    + intros _. destruct (Z.ltb_spec (byte_to_Z x) (byte_to_Z z)); [reflexivity | lia].
    + destruct (Z.ltb_spec (byte_to_Z z) (byte_to_Z y)); [discriminate|]. intro Hbc.
      destruct (Z.ltb_spec (byte_to_Z x) (byte_to_Z z)); [reflexivity|].
      destruct (Z.ltb_spec (byte_to_Z z) (byte_to_Z x)); [lia|]. eauto.
Qed.

Lemma bytes_trichotomy a b : bytes_ltb a b = false -> bytes_eqb a b = false -> bytes_ltb b a = true.
Proof.
  revert b. induction a as [|x a IH]; intros [|y b]; cbn; try congruence.
  destruct (Z.ltb_spec (byte_to_Z x) (byte_to_Z y)) as [Lxy|Gxy]; [discriminate|].
  destruct (Z.ltb_spec (byte_to_Z y) (byte_to_Z x)) as [Lyx|Gyx]; [reflexivity|].
  assert (x = y) as -> by (apply byte_to_Z_inj; lia).
  unfold byte_eqb. rewrite (Strings.Byte.byte_dec_lb (eq_refl y)). cbn [andb]. apply IH.
Qed.

Definition fp_lt (a b : list byte) : Prop := bytes_ltb a b = true.
Definition fp_sorted (l : list (list byte)) : Prop := StronglySorted fp_lt l.

Lemma In_insert_fp x y l : In x (insert_fp y l) <-> x = y \/ In x l.
Proof.
  induction l as [|z l IH]; cbn [insert_fp].
  - cbn. intuition.
  - destruct (bytes_ltb y z); [cbn; intuition|].
    destruct (bytes_eqb y z) eqn:E; cbn [In].
    + apply bytes_eqb_eq in E. subst. intuition.
    + rewrite IH. intuition.
Qed.

Lemma insert_fp_sorted x l : fp_sorted l -> fp_sorted (insert_fp x l).
Proof.
  induction 1 as [|z l S IH F]; cbn [insert_fp].
  - repeat constructor.
  - destruct (bytes_ltb x z) eqn:L.
    + constructor; [constructor; assumption|]. constructor; [exact L|].
      rewrite Forall_forall in F |- *. intros w Hw. eapply bytes_ltb_trans; [exact L | exact (F w Hw)].
    + destruct (bytes_eqb x z) eqn:E; [constructor; assumption|].
      constructor; [exact IH|]. apply Forall_forall. intros w Hw. apply In_insert_fp in Hw as [->|Hw].
      * now apply bytes_trichotomy.
      * rewrite Forall_forall in F. auto.
Qed.

Lemma fp_sorted_NoDup l : fp_sorted l -> NoDup l.
Proof.
  induction 1 as [|z l S IH F]; constructor; [|exact IH].
  intro Hin. rewrite Forall_forall in F. specialize (F z Hin). unfold fp_lt in F.
  now rewrite bytes_ltb_irrefl in F.
Qed.

Lemma fp_sorted_filter f l : fp_sorted l -> fp_sorted (filter f l).
Proof.
  induction 1 as [|z l S IH F]; cbn [filter]; [constructor|].
  destruct (f z); [|exact IH]. constructor; [exact IH|].
  rewrite Forall_forall in F |- *. intros w Hw. apply filter_In in Hw as [Hw _]. auto.
Qed.

Lemma filter_len_le {A} (f : A -> bool) l : (length (filter f l) <= length l)%nat.
Proof. induction l as [|x l IH]; cbn; [lia|]. destruct (f x); cbn; lia. Qed.

Lemma filter_all_length {A} (f : A -> bool) l :
  length (filter f l) = length l <-> forall x, In x l -> f x = true.
Proof.
  induction l as [|x l IH]; cbn [filter length In]; [intuition|].
  pose proof (filter_len_le f l) as Hle. destruct (f x) eqn:E; cbn [length].
  - split.
    + intros H y [<-|Hy]; [exact E|]. apply IH; [lia | exact Hy].
    + intros H. f_equal. apply IH. auto.
  - split; [lia|]. intros H. specialize (H x (or_introl eq_refl)). congruence.
Qed.

Lemma existsb_bytes_eqb fp l : existsb (bytes_eqb fp) l = true <-> In fp l.
Proof.
  rewrite existsb_exists. split.
  - intros (x & Hx & E). apply bytes_eqb_eq in E. now subst.
  - intros H. exists fp. split; [exact H | apply bytes_eqb_refl].
Qed.

Lemma Forall2_len' {A B} (R : A -> B -> Prop) l l' : Forall2 R l l' -> length l = length l'.
Proof. induction 1; cbn; congruence. Qed.

Lemma Forall2_weaken {A B} (R R' : A -> B -> Prop) l l' :
  (forall a b, R a b -> R' a b) -> Forall2 R l l' -> Forall2 R' l l'.
Proof. intro H. induction 1; constructor; auto. Qed.

Section C17.

Variable is_legacy : list byte -> bool.

Local Notation tsigs := (task_signatures is_legacy).

(* the fingerprints recorded on a list of signature descriptors *)
Definition recorded (sigs : list rdesc) (fp : list byte) : Prop :=
  exists s ht, In s sigs /\ sig_meta s = inl (ht, Some fp).

Lemma sig_fingerprints_spec sigs acc fps :
  sig_fingerprints sigs acc = inl fps ->
  (forall fp, In fp fps <-> In fp acc \/ recorded sigs fp) /\ (fp_sorted acc -> fp_sorted fps).
Proof.
  revert acc. induction sigs as [|s sigs IH]; intros acc H; cbn [sig_fingerprints] in H.
  - injection H as <-. split; [|auto]. intro fp. split; [auto|]. intros [H|(s & ht & [] & _)]. exact H.
  - destruct (sig_meta s) as [[ht [f|]]|] eqn:SM; [| |discriminate].
    + destruct (IH _ H) as [Hin Hs]. split.
      * intro fp. rewrite Hin, In_insert_fp. split.
        -- intros [[->|Ha]|(s' & ht' & Hs' & SM')]; [right; exists s, ht; cbn; auto | auto |].
           right. exists s', ht'. cbn. auto.
        -- intros [Ha|(s' & ht' & [<-|Hs'] & SM')]; [auto | |].
           ++ rewrite SM in SM'. injection SM' as _ ->. auto.
           ++ right. exists s', ht'. auto.
      * intro Sa. apply Hs. now apply insert_fp_sorted.
    + destruct (IH _ H) as [Hin Hs]. split; [|exact Hs].
      intro fp. rewrite Hin. split.
      * intros [Ha|(s' & ht' & Hs' & SM')]; [auto|]. right. exists s', ht'. cbn. auto.
      * intros [Ha|(s' & ht' & [<-|Hs'] & SM')]; [auto | congruence |]. right. exists s', ht'. auto.
Qed.

(* the signatures attached to a task, none being no error for the listings *)
Definition attached (m : mem) (st : store) (t : task) (sigs : list rdesc) : Prop :=
  tsigs m st t = inl sigs \/ (tsigs m st t = inr ISigNotFound /\ sigs = []).

Lemma task_fingerprints_spec m st ts per_task :
  task_fingerprints is_legacy m st ts = inl per_task ->
  Forall2 (fun t fps => exists sigs, attached m st t sigs /\
                                      (forall fp, In fp fps <-> recorded sigs fp) /\ fp_sorted fps)
          ts per_task.
Proof.
  revert per_task. induction ts as [|t ts IH]; intros per_task H; cbn [task_fingerprints] in H.
  - injection H as <-. constructor.
  - set (sg := match tsigs m st t with inl l => inl l | inr ISigNotFound => inl [] | inr e => inr e end) in H.
    assert (Hsg : forall l, sg = inl l -> attached m st t l).
    { unfold sg, attached. destruct (tsigs m st t) as [l'|e]; [intros l [= <-]; auto|].
      destruct e; try discriminate. intros l [= <-]. auto. }
    destruct sg as [l|]; [|discriminate].
    destruct (sig_fingerprints l []) as [fps|] eqn:SF; [|discriminate].
    destruct (task_fingerprints is_legacy m st ts) as [rest|]; [|discriminate]. injection H as <-.
    constructor; [|auto]. exists l. split; [auto|].
    destruct (sig_fingerprints_spec _ _ _ SF) as [Hin Hs]. split.
    + intro fp. rewrite Hin. split; [intros [[]|H]; exact H | auto].
    + apply Hs. constructor.
Qed.

Lemma fold_insert_spec (fps : list (list byte)) acc :
  (forall fp, In fp (fold_left (fun a fp => insert_fp fp a) fps acc) <-> In fp acc \/ In fp fps) /\
  (fp_sorted acc -> fp_sorted (fold_left (fun a fp => insert_fp fp a) fps acc)).
Proof.
  revert acc. induction fps as [|x fps IH]; intro acc; cbn [fold_left].
  - split; [intro fp; cbn; tauto | auto].
  - destruct (IH (insert_fp x acc)) as [Hin Hs]. split.
    + intro fp. rewrite Hin, In_insert_fp. cbn [In]. intuition (subst; auto).
    + intro Sa. apply Hs. now apply insert_fp_sorted.
Qed.

Lemma fold_all_spec (per_task : list (list (list byte))) acc :
  let all := fold_left (fun acc fps => fold_left (fun a fp => insert_fp fp a) fps acc) per_task acc in
  (forall fp, In fp all <-> In fp acc \/ exists fps, In fps per_task /\ In fp fps) /\
  (fp_sorted acc -> fp_sorted all).
Proof.
  revert acc. induction per_task as [|fps per_task IH]; intro acc; cbn [fold_left].
  - split; [|auto]. intro fp. split; [auto|]. intros [H|(x & [] & _)]. exact H.
  - destruct (IH (fold_left (fun a fp => insert_fp fp a) fps acc)) as [Hin Hs].
    destruct (fold_insert_spec fps acc) as [Hin1 Hs1]. split.
    + intro fp. rewrite Hin, Hin1. split.
      * intros [[H|H]|(x & Hx & Hf)]; [auto | right; exists fps; cbn; auto |].
        right. exists x. cbn. auto.
      * intros [H|(x & [<-|Hx] & Hf)]; [auto | auto |]. right. exists x. auto.
    + intro Sa. auto.
Qed.

Theorem signed_by_exact m st ts any l :
  signed_by is_legacy m st ts any = inl l ->
  exists per_task,
    Forall2 (fun t fps => exists sigs, attached m st t sigs /\ (forall fp, In fp fps <-> recorded sigs fp))
            ts per_task /\
    fp_sorted l /\ NoDup l /\
    forall fp, In fp l <->
      (exists fps, In fps per_task /\ In fp fps) /\
      (any = true \/ forall fps, In fps per_task -> In fp fps).
Proof.
  unfold signed_by. destruct (task_fingerprints is_legacy m st ts) as [per_task|] eqn:TF; [|discriminate].
  intros [= <-]. pose proof (task_fingerprints_spec _ _ _ _ TF) as F2. exists per_task.
  destruct (fold_all_spec per_task []) as [Hin Hs]. cbv zeta in Hin, Hs.
  assert (Hlen : length per_task = length ts) by (symmetry; eapply Forall2_len'; eauto).
  split.
  { eapply Forall2_weaken; [|exact F2]. intros t fps (sigs & A & R & _). eauto. }
  assert (S : fp_sorted (filter (fun fp => any || Nat.eqb (count_in fp per_task) (length ts))
                                (fold_left (fun acc fps => fold_left (fun a fp => insert_fp fp a) fps acc) per_task []))).
  { apply fp_sorted_filter. apply Hs. constructor. }
  split; [exact S|]. split; [now apply fp_sorted_NoDup|].
  intro fp. rewrite filter_In, Hin, orb_true_iff, Nat.eqb_eq. unfold count_in. rewrite <- Hlen.
  rewrite filter_all_length. split.
  - intros [[[]|He] [Ha|Hall]]; (split; [exact He|]); [left; exact Ha | right].
    intros fps Hf. apply existsb_bytes_eqb. auto.
  - intros [He [Ha|Hall]]; (split; [right; exact He|]); [left; exact Ha | right].
    intros fps Hf. apply existsb_bytes_eqb. auto.
Qed.

End C17.

(* after a successful verification: a fingerprint recorded on a clear-signed
   (PGP) signature is that of the entity whose key validated it.  For DSSE
   signatures nothing ties the recorded fingerprint to a key (refuted in
   IntegExamples.v). *)
Section C17b.

Variable hash : halg -> list byte -> list byte.
Variable classify : list byte -> sigkind.
Variable is_legacy : list byte -> bool.
Variable open_dsse : Z -> list byte -> option (list byte * list Z).
Variable open_pgp : list byte -> option (list byte * list byte).
Variable parse_md : list byte -> option imd.
Variable has_dsse_keys : bool.
Variable has_pgp_keys : bool.

Local Notation vfy := (verify hash classify is_legacy open_dsse open_pgp parse_md has_dsse_keys has_pgp_keys).
Local Notation tsigs := (task_signatures is_legacy).
Local Notation sres := (sig_result hash classify open_dsse open_pgp parse_md).

Theorem listed_pgp_fingerprint_is_signer m st ts rs t sigs sig ht fp :
  vfy m st strict ts = (rs, None) -> In t ts -> tsigs m st t = inl sigs -> In sig sigs ->
  sig_meta sig = inl (ht, Some fp) -> classify (obj_bytes sig st) = KClearsign ->
  In (sres m st t sig) rs /\ vr_entity (sres m st t sig) = Some fp /\
  exists p, open_pgp (obj_bytes sig st) = Some (p, fp).
Proof.
  intros V Ht TS Hs SM K.
  destruct (strict_success_facts _ _ _ _ _ _ _ _ _ _ _ _ V) as [H1 _].
  destruct (H1 t Ht) as (sigs' & TS' & _ & Hall). rewrite TS in TS'. injection TS' as <-.
  destruct (Hall sig Hs) as (_ & Hin & RF). split; [exact Hin|].
  destruct (reported_signers_are_openers _ _ _ _ _ _ _ _ _ _ RF) as (ht' & o & OS & _ & HE & HF).
  rewrite K in OS. apply open_sig_kinds in OS as [(Habs & _)|(_ & fp' & OP & He & _)]; [discriminate|].
  specialize (HF fp' He).
  assert (SF : sig_fingerprint (d_extra sig) = Some fp).
  { unfold sig_meta in SM. destruct (negb _); [discriminate|]. destruct (hashtype_known _); [|discriminate].
    now injection SM. }
  rewrite SF in HF. subst fp'. rewrite HE, He. split; [reflexivity|].
  destruct o as [p ks e]. cbn in OP. eauto.
Qed.

End C17b.

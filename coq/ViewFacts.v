(* ViewFacts.v — C06: any other image presenting the same protected view gets
   the same verdict: objects relocated, a whole group's IDs shifted, the group
   renamed, unprotected header and descriptor fields changed. *)
From Coq Require Import List ZArith Lia Bool.
From Coq.Init Require Import Byte.
From Sif Require Import Bytes BytesFacts Store Format Image SelectFacts Integrity StreamFacts IntegFacts C04Facts C05Facts.
Import ListNotations.
Local Open Scope Z_scope.

(* the absolute ID a signed relative ID stands for, in two images whose group
   is numbered from different minimum IDs *)
Lemma mod_eq_iff a b : 0 <= b < 2 ^ 32 -> (a mod 2 ^ 32 = b <-> (a - b) mod 2 ^ 32 = 0).
Proof.
  intro Hb. split; intro H.
  - rewrite Zminus_mod, H, (Z.mod_small b) by lia. now rewrite Z.sub_diag.
  - replace a with (b + (a - b)) by lia. rewrite Zplus_mod, H, Z.add_0_r, Z.mod_mod by lia. apply Z.mod_small. lia.
Qed.

Lemma signed_id_transfer minid minid' id id' r :
  in_u32 id -> in_u32 id' ->
  wrap_u32 (id - minid) = wrap_u32 (id' - minid') ->
  (wrap_u32 (minid + r) =? id) = (wrap_u32 (minid' + r) =? id').
Proof.
  unfold wrap_u32, in_u32. intros Hi Hi' E.
  assert (B : (minid + r - id) mod 2 ^ 32 = 0 <-> (minid' + r - id') mod 2 ^ 32 = 0).
  { replace (minid + r - id) with (r - (id - minid)) by lia.
    replace (minid' + r - id') with (r - (id' - minid')) by lia.
    rewrite (Zminus_mod r (id - minid)), (Zminus_mod r (id' - minid')), E. reflexivity. }
  destruct (Z.eqb_spec ((minid + r) mod 2 ^ 32) id) as [H1|H1];
    destruct (Z.eqb_spec ((minid' + r) mod 2 ^ 32) id') as [H2|H2]; try reflexivity; exfalso.
  - apply H2. apply (proj2 (mod_eq_iff _ _ Hi')). apply (proj1 B). apply (proj1 (mod_eq_iff _ _ Hi)). exact H1.
  - apply H1. apply (proj2 (mod_eq_iff _ _ Hi)). apply (proj2 B). apply (proj1 (mod_eq_iff _ _ Hi')). exact H2.
Qed.

Lemma Forall2_in_l {A B} (R : A -> B -> Prop) l l' x : Forall2 R l l' -> In x l -> exists y, In y l' /\ R x y.
Proof.
  induction 1 as [|a b l l' Hab _ IH]; [contradiction|]. intros [<-|Hin].
  - exists b. cbn. auto.
  - destruct (IH Hin) as (y & Hy & Hr). exists y. cbn. auto.
Qed.

Lemma Forall2_in_r {A B} (R : A -> B -> Prop) l l' y : Forall2 R l l' -> In y l' -> exists x, In x l /\ R x y.
Proof.
  induction 1 as [|a b l l' Hab _ IH]; [contradiction|]. intros [<-|Hin].
  - exists a. cbn. auto.
  - destruct (IH Hin) as (x & Hx & Hr). exists x. cbn. auto.
Qed.

Section View.

Variable hash : halg -> list byte -> list byte.
Variable open_dsse : Z -> list byte -> option (list byte * list Z).
Variable open_pgp : list byte -> option (list byte * list byte).
Variable parse_md : list byte -> option imd.

Local Notation vgroup := (verify_group_sig hash open_dsse open_pgp parse_md).

(* two covered objects present the same protected view *)
Definition view_related (st st' : store) (minid minid' : Z) (p p' : rdesc * Z) : Prop :=
  desc_stream (fst p) (snd p) = desc_stream (fst p') (snd p') /\
  section_bytes (fst p) st = section_bytes (fst p') st' /\
  in_u32 (d_id (fst p)) /\ in_u32 (d_id (fst p')) /\
  wrap_u32 (d_id (fst p) - minid) = wrap_u32 (d_id (fst p') - minid').

Lemma find_transfer minid minid' id id' (objs : list omd) :
  in_u32 id -> in_u32 id' -> wrap_u32 (id - minid) = wrap_u32 (id' - minid') ->
  option_map snd (find (fun s => fst s =? id) (map (fun om => (wrap_u32 (minid + om_relid om), om)) objs)) =
  option_map snd (find (fun s => fst s =? id') (map (fun om => (wrap_u32 (minid' + om_relid om), om)) objs)).
Proof.
  intros Hi Hi' E. induction objs as [|om objs IH]; [reflexivity|]. cbn [map find fst].
  rewrite (signed_id_transfer minid minid' id id' (om_relid om) Hi Hi' E).
  destruct (wrap_u32 (minid' + om_relid om) =? id'); [reflexivity | exact IH].
Qed.

Lemma objects_match_transfer st st' minid minid' objs ods ods' :
  Forall2 (view_related st st' minid minid') ods ods' ->
  snd (objects_match hash st (map (fun om => (wrap_u32 (minid + om_relid om), om)) objs) ods) = None ->
  objects_match hash st' (map (fun om => (wrap_u32 (minid' + om_relid om), om)) objs) ods' =
  (map (fun p => d_id (fst p)) ods', None).
Proof.
  induction 1 as [|[d r] [d' r'] ods ods' (Hs & Hb & Hi & Hi' & E) _ IH]; cbn [objects_match]; [reflexivity|].
  cbn [fst snd] in *.
  pose proof (find_transfer minid minid' (d_id d) (d_id d') objs Hi Hi' E) as F.
  destruct (find (fun s => fst s =? d_id d) _) as [[i1 om1]|];
    destruct (find (fun s => fst s =? d_id d') _) as [[i2 om2]|]; cbn [option_map snd] in F; try discriminate.
  injection F as <-. rewrite <- Hs, <- Hb.
    destruct (digest_matches hash (om_desc om1) (desc_stream d r)); cbn [negb snd]; [|discriminate].
    destruct (section_bytes d st) as [c|e]; cbn [snd]; [|discriminate].
    destruct (digest_matches hash (om_obj om1) c); cbn [negb snd]; [|discriminate].
    destruct (objects_match hash st _ ods) as [v e]. cbn [snd] in *. intros ->.
    rewrite (IH eq_refl). reflexivity.
Qed.

Lemma ids_match_transfer st st' minid minid' objs ods ods' :
  Forall2 (view_related st st' minid minid') ods ods' ->
  object_ids_match (map (fun om => wrap_u32 (minid + om_relid om)) objs) ods = None ->
  object_ids_match (map (fun om => wrap_u32 (minid' + om_relid om)) objs) ods' = None.
Proof.
  intros R H. apply object_ids_match_spec in H. apply object_ids_match_spec. destruct H as [H1 H2]. split.
  - intros p' Hp'. destruct (Forall2_in_r _ _ _ p' R Hp') as (p & Hp & (_ & _ & Hi & Hi' & E)).
    specialize (H1 p Hp). apply in_map_iff in H1 as (om & Eo & Ho). apply in_map_iff. exists om. split; [|exact Ho].
    pose proof (signed_id_transfer minid minid' _ _ (om_relid om) Hi Hi' E) as T.
    rewrite Eo, Z.eqb_refl in T. symmetry in T. now apply Z.eqb_eq in T.
  - intros id' Hid'. apply in_map_iff in Hid' as (om & <- & Ho).
    destruct (H2 (wrap_u32 (minid + om_relid om))) as (p & Hp & Ep); [apply in_map_iff; eauto|].
    destruct (Forall2_in_l _ _ _ p R Hp) as (p' & Hp' & (_ & _ & Hi & Hi' & E)).
    exists p'. split; [exact Hp'|].
    pose proof (signed_id_transfer minid minid' _ _ (om_relid om) Hi Hi' E) as T.
    rewrite <- Ep, Z.eqb_refl in T. symmetry in T. apply Z.eqb_eq in T. now symmetry.
Qed.

Theorem verdict_of_equal_views m st g ods sig m' st' g' ods' sig' sub kind minid minid' :
  header_stream (m_hdr m) = header_stream (m_hdr m') ->
  group_min_id m g = Some minid -> group_min_id m' g' = Some minid' ->
  d_id sig = d_id sig' -> sig_meta sig = sig_meta sig' -> obj_bytes sig st = obj_bytes sig' st' ->
  Forall2 (view_related st st' minid minid') ods ods' ->
  vr_err (vgroup m st g ods sub sig kind) = None ->
  vr_err (vgroup m' st' g' ods' sub sig' kind) = None /\
  vr_verified (vgroup m' st' g' ods' sub sig' kind) = map (fun p => d_id (fst p)) ods' /\
  vr_keys (vgroup m' st' g' ods' sub sig' kind) = vr_keys (vgroup m st g ods sub sig kind) /\
  vr_entity (vgroup m' st' g' ods' sub sig' kind) = vr_entity (vgroup m st g ods sub sig kind).
Proof.
  intros Hh Gm Gm' Eid Esm Eob R. unfold verify_group_sig. rewrite <- Esm, <- Eob, <- Hh, Gm, Gm'.
  destruct (sig_meta sig) as [[ht fp]|]; [|discriminate].
  destruct (open_sig open_dsse open_pgp kind ht (obj_bytes sig st)) as [o|]; [|discriminate].
  destruct (parse_md (op_payload o)) as [im|]; [|discriminate].
  destruct (fp_matches (op_entity o) fp); cbn [negb]; [|discriminate].
  rewrite !map_map. cbn [fst].
  destruct sub.
  - destruct (digest_matches hash (im_header im) (header_stream (m_hdr m))); cbn [negb]; [|discriminate].
    pose proof (objects_match_transfer st st' minid minid' (im_objects im) ods ods' R) as T.
    destruct (objects_match hash st _ ods) as [v e]. cbn [snd vr_err] in *. intros ->.
    rewrite (T eq_refl). cbn [vr_err vr_verified vr_keys vr_entity]. auto.
  - destruct (object_ids_match (map (fun om => wrap_u32 (minid + om_relid om)) (im_objects im)) ods) eqn:OI; [discriminate|].
    rewrite (ids_match_transfer st st' minid minid' _ _ _ R OI).
    destruct (digest_matches hash (im_header im) (header_stream (m_hdr m))); cbn [negb]; [|discriminate].
    pose proof (objects_match_transfer st st' minid minid' (im_objects im) ods ods' R) as T.
    destruct (objects_match hash st _ ods) as [v e]. cbn [snd vr_err] in *. intros ->.
    rewrite (T eq_refl). cbn [vr_err vr_verified vr_keys vr_entity]. auto.
Qed.

End View.

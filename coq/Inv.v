(* Inv.v — the central invariant of an image handle and its storage
   (DESIGN.md 2.3), and the lemmas about the effect of storage calls that the
   preservation proofs need. *)
From Coq Require Import List ZArith Lia Bool.
From Coq.Init Require Import Byte.
From Sif Require Import Bytes BytesFacts Store StoreFacts Format FormatFacts Image ImageFacts Machine.
Import ListNotations.
Local Open Scope Z_scope.

Definition used_at (rds : list rdesc) (i : nat) (d : rdesc) : Prop :=
  nth_error rds i = Some d /\ d_used d = true.

(* Well-formedness of the in-memory handle (no storage involved). *)
Record wf_mem (m : mem) : Prop := {
  wf_h : wf_header (m_hdr m);
  wf_magic : h_magic (m_hdr m) = magic;
  wf_version : h_version (m_hdr m) = version_bytes;
  wf_rds : Forall wf_desc (m_rds m);
  wf_total : h_total (m_hdr m) = Z.of_nat (length (m_rds m));
  wf_descsize : 585 * h_total (m_hdr m) <= h_descsize (m_hdr m);
  wf_descoff : 128 <= h_descoff (m_hdr m);
  wf_dataoff : h_descoff (m_hdr m) + h_descsize (m_hdr m) <= h_dataoff (m_hdr m);
  wf_free : h_free (m_hdr m) = Z.of_nat (count_unused (m_rds m));
  wf_datasize : 0 <= h_datasize (m_hdr m);
  (* physical range: nothing comes near the int64 limit *)
  wf_bound : h_dataoff (m_hdr m) + h_datasize (m_hdr m) <= 2 ^ 62;
  (* IDs: the object in slot i has ID i+1 (hence live IDs are unique, non-zero) *)
  wf_ids : forall i d, used_at (m_rds m) i d -> d_id d = Z.of_nat i + 1;
  (* layout: inside the declared data section, after the descriptor table *)
  wf_layout : forall i d, used_at (m_rds m) i d ->
      h_dataoff (m_hdr m) <= d_off d /\ 0 <= d_size d /\
      d_off d + d_size d <= h_dataoff (m_hdr m) + h_datasize (m_hdr m);
  (* regions of distinct live non-empty objects are disjoint *)
  wf_disjoint : forall i j di dj, i <> j ->
      used_at (m_rds m) i di -> used_at (m_rds m) j dj ->
      0 < d_size di -> 0 < d_size dj ->
      d_off di + d_size di <= d_off dj \/ d_off dj + d_size dj <= d_off di;
  (* the cached minimum IDs are what populateMinIDs computes, in canonical form *)
  wf_minids : minids_ok (m_minids m) (m_rds m);
  wf_minids_sorted : keys_sorted (m_minids m) }.

(* The handle is what a fresh load of its own bytes gives, and every live
   non-empty object lies inside the file. *)
Record coherent (m : mem) (st : store) : Prop := {
  coh_hdr : nread 0 128 st = enc_header (m_hdr m);
  coh_tab : nread (Z.to_nat (h_descoff (m_hdr m))) (585 * length (m_rds m)) st = enc_table (m_rds m);
  coh_infile : forall i d, used_at (m_rds m) i d -> 0 < d_size d ->
      d_off d + d_size d <= Z.of_nat (length st) }.

Definition Inv (s : state) : Prop :=
  wf_mem (s_mem s) /\ coherent (s_mem s) (f_bytes (s_io s)).

(* ---------- storage calls ---------- *)

(* a positioned write as the backend performs it: an empty write does nothing
   on a file, and zero-fills up to the position on sif.Buffer *)
Definition bwrite (b : backend) (o : nat) (bs : list byte) (st : store) : store :=
  match b, bs with
  | BFile, [] => st
  | _, _ => nwrite o bs st
  end.

Lemma run_events_app b t1 t2 io :
  run_events b (t1 ++ t2) io =
  let '(io1, ok) := run_events b t1 io in
  if ok then run_events b t2 io1 else (io1, false).
Proof.
  revert io; induction t1 as [|ev r IH]; intro io; simpl; [reflexivity|].
  destruct (backend_apply b ev io); [apply IH | reflexivity].
Qed.

Lemma run_seek_write b o bs io :
  exists p, run_events b [EvSeek o; EvWrite bs] io = (mkF (bwrite b o bs (f_bytes io)) p, true).
Proof.
  destruct b; simpl.
  - destruct bs; simpl; eauto.
  - eauto.
Qed.

Lemma run_write_if_nonempty b o bs io :
  exists p, run_events b (EvSeek o :: write_if_nonempty bs) io =
            (mkF (bwrite BFile o bs (f_bytes io)) p, true).
Proof.
  destruct bs as [|x bs]; simpl.
  - destruct b; simpl; eauto.
  - destruct b; simpl; eauto.
Qed.

Lemma length_bwrite_ge b o bs st : (length st <= length (bwrite b o bs st))%nat.
Proof.
  unfold bwrite. destruct b, bs; try lia; rewrite length_nwrite; lia.
Qed.

Lemma length_bwrite_end b o bs st :
  bs <> [] -> (o + length bs <= length (bwrite b o bs st))%nat.
Proof.
  intro H. unfold bwrite. destruct b, bs; try congruence; rewrite length_nwrite; lia.
Qed.

Lemma length_bwrite_inside b o bs st :
  (o + length bs <= length st)%nat -> length (bwrite b o bs st) = length st.
Proof.
  intro H. unfold bwrite. destruct b, bs; try reflexivity; rewrite length_nwrite; lia.
Qed.

Lemma bwrite_read_same b o bs st : nread o (length bs) (bwrite b o bs st) = bs.
Proof.
  unfold bwrite. destruct b, bs; try apply nread_nwrite_same. reflexivity.
Qed.

Lemma bwrite_frame b o bs st a n :
  (a + n <= length st)%nat ->
  (a + n <= o \/ o + length bs <= a)%nat ->
  nread a n (bwrite b o bs st) = nread a n st.
Proof.
  intros H1 H2. unfold bwrite. destruct b, bs; try reflexivity; now apply nread_nwrite_frame.
Qed.

(* the storage after FileImage.resize(n) *)
Definition resized (n : nat) (st : store) : store :=
  if (n <? length st)%nat then firstn n st
  else if (length st <? n)%nat then nwrite (n - 1) [x00] st
  else st.

Lemma run_resize b n io :
  exists p, run_events b [EvResize n] io = (mkF (resized n (f_bytes io)) p, true).
Proof.
  unfold resized. destruct b; simpl;
    destruct (n <? length (f_bytes io))%nat; simpl; eauto;
    destruct (length (f_bytes io) <? n)%nat; simpl; eauto.
Qed.

Lemma length_resized n st : length (resized n st) = n.
Proof.
  unfold resized. destruct (Nat.ltb_spec n (length st)).
  - rewrite firstn_length. lia.
  - destruct (Nat.ltb_spec (length st) n).
    + rewrite length_nwrite. simpl. lia.
    + lia.
Qed.

Lemma resized_frame n st a k :
  (a + k <= length st)%nat -> (a + k <= n)%nat ->
  nread a k (resized n st) = nread a k st.
Proof.
  intros H1 H2. unfold resized. destruct (Nat.ltb_spec n (length st)).
  - unfold nread. apply nth_error_ext. intro i.
    rewrite !nth_error_firstn, !nth_error_skipn, nth_error_firstn.
    destruct (Nat.ltb_spec i k); [|reflexivity].
    destruct (Nat.ltb_spec (a + i) n); [reflexivity|lia].
  - destruct (Nat.ltb_spec (length st) n).
    + apply nread_nwrite_frame; [exact H1|]. left. lia.
    + reflexivity.
Qed.

(* a region that was all in range stays readable after any of the calls, as
   lengths never drop below it *)
Lemma nread_length_in a n st : (a + n <= length st)%nat -> length (nread a n st) = n.
Proof. apply length_nread_in. Qed.

(* coherence gives the file a minimum length *)
Lemma coherent_len_hdr m st : wf_mem m -> coherent m st -> (128 <= length st)%nat.
Proof.
  intros W C. pose proof (coh_hdr _ _ C) as H.
  apply (f_equal (@length byte)) in H. rewrite length_enc_header in H by apply (wf_h _ W).
  rewrite length_nread in H. lia.
Qed.

Lemma coherent_len_tab m st :
  wf_mem m -> coherent m st ->
  (m_rds m <> [] -> Z.to_nat (h_descoff (m_hdr m)) + 585 * length (m_rds m) <= length st)%nat.
Proof.
  intros W C Hne. pose proof (coh_tab _ _ C) as H.
  apply (f_equal (@length byte)) in H. rewrite length_enc_table in H by apply (wf_rds _ W).
  rewrite length_nread in H. destruct (m_rds m); [congruence|]. simpl length in *. lia.
Qed.

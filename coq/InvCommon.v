(* InvCommon.v — lemmas shared by the invariant-preservation proofs. *)
From Coq Require Import List ZArith Lia Bool.
From Coq.Init Require Import Byte.
From Sif Require Import Bytes BytesFacts Store StoreFacts Format FormatFacts Image ImageFacts Machine Inv.
Import ListNotations.
Local Open Scope Z_scope.

(* ---------- rewriting table and header re-establishes coherence ---------- *)

Definition after_table_header (b : backend) (h' : header) (rds : list rdesc) (st : store) : store :=
  bwrite b 0 (enc_header h') (bwrite b (Z.to_nat (h_descoff h')) (enc_table rds) st).

Lemma run_table_header b h h' rds evs io io1 :
  h_descoff h = h_descoff h' ->
  run_events b evs io = (io1, true) ->
  exists p, run_events b (evs ++ ev_table h rds ++ ev_header h') io =
            (mkF (after_table_header b h' rds (f_bytes io1)) p, true).
Proof.
  intros Hd H1. rewrite run_events_app, H1. rewrite run_events_app.
  unfold ev_table, ev_header. rewrite Hd.
  destruct (run_seek_write b (Z.to_nat (h_descoff h')) (enc_table rds) io1) as [p1 ->].
  destruct (run_seek_write b 0 (enc_header h') (mkF (bwrite b (Z.to_nat (h_descoff h')) (enc_table rds) (f_bytes io1)) p1)) as [p2 E].
  simpl f_bytes in E. unfold after_table_header. rewrite E. eauto.
Qed.

Lemma after_table_header_spec b h' rds st :
  wf_header h' -> Forall wf_desc rds -> 128 <= h_descoff h' ->
  let st' := after_table_header b h' rds st in
  nread 0 128 st' = enc_header h' /\
  nread (Z.to_nat (h_descoff h')) (585 * length rds) st' = enc_table rds /\
  (length st <= length st')%nat /\
  (forall a n, (a + n <= length st)%nat ->
               (Z.to_nat (h_descoff h') + 585 * length rds <= a)%nat ->
               nread a n st' = nread a n st).
Proof.
  intros Wh Wr Ho st'. unfold st', after_table_header.
  set (o := Z.to_nat (h_descoff h')).
  set (st1 := bwrite b o (enc_table rds) st).
  pose proof (length_enc_header _ Wh) as Lh.
  pose proof (length_enc_table _ Wr) as Lt.
  assert (Ho' : (128 <= o)%nat) by (unfold o; lia).
  split; [| split; [| split]].
  - rewrite <- Lh at 1. apply bwrite_read_same.
  - destruct rds as [|d rds'] eqn:E.
    + simpl. reflexivity.
    + rewrite bwrite_frame.
      * unfold st1. rewrite <- Lt. apply bwrite_read_same.
      * unfold st1. rewrite <- Lt. apply length_bwrite_end.
        intro C. rewrite C in Lt. cbn [length] in Lt. lia.
      * right. rewrite Lh. lia.
  - etransitivity; [apply (length_bwrite_ge b o (enc_table rds))|]. apply length_bwrite_ge.
  - intros a n Hin Ha. rewrite bwrite_frame.
    + unfold st1. apply bwrite_frame; [exact Hin|]. right. rewrite Lt. fold o. lia.
    + pose proof (length_bwrite_ge b o (enc_table rds) st). unfold st1. lia.
    + right. rewrite Lh. lia.
Qed.

(* ---------- descriptors that keep their "core" ---------- *)

(* used flag, ID, group, offset and size unchanged *)
Definition same_core (d d' : rdesc) : Prop :=
  d_used d' = d_used d /\ d_id d' = d_id d /\ d_group d' = d_group d /\
  d_off d' = d_off d /\ d_size d' = d_size d.

Lemma same_core_refl d : same_core d d.
Proof. unfold same_core; auto. Qed.

Lemma Forall2_refl {A} (R : A -> A -> Prop) l : (forall x, R x x) -> Forall2 R l l.
Proof. intro H. induction l; constructor; auto. Qed.

Lemma Forall2_set_nth {A} (R : A -> A -> Prop) i x' l x :
  (forall y, R y y) -> nth_error l i = Some x -> R x x' -> Forall2 R l (set_nth i x' l).
Proof.
  intros Hr. revert i; induction l as [|y l IH]; intros [|i] Hn Hx; simpl in *; try discriminate.
  - inversion Hn; subst. constructor; [exact Hx | now apply Forall2_refl].
  - constructor; [apply Hr | now apply IH].
Qed.

Lemma Forall2_nth_error {A B} (R : A -> B -> Prop) l l' i x' :
  Forall2 R l l' -> nth_error l' i = Some x' -> exists x, nth_error l i = Some x /\ R x x'.
Proof.
  intro H. revert i; induction H as [|a b l l' Hab _ IH]; intros [|i] Hn; simpl in *; try discriminate.
  - inversion Hn; subst. eauto.
  - now apply IH.
Qed.

Lemma Forall2_nth_error_l {A B} (R : A -> B -> Prop) l l' i x :
  Forall2 R l l' -> nth_error l i = Some x -> exists x', nth_error l' i = Some x' /\ R x x'.
Proof.
  intro H. revert i; induction H as [|a b l l' Hab _ IH]; intros [|i] Hn; simpl in *; try discriminate.
  - inversion Hn; subst. eauto.
  - now apply IH.
Qed.

Lemma Forall2_trans {A} (R : A -> A -> Prop) l1 l2 l3 :
  (forall x y z, R x y -> R y z -> R x z) -> Forall2 R l1 l2 -> Forall2 R l2 l3 -> Forall2 R l1 l3.
Proof.
  intros Ht H12. revert l3; induction H12 as [|a b l1 l2 Hab _ IH]; intros l3 H23; inversion H23; subst.
  - constructor.
  - constructor; eauto.
Qed.

Lemma Forall2_len {A B} (R : A -> B -> Prop) l l' : Forall2 R l l' -> length l = length l'.
Proof. induction 1; simpl; congruence. Qed.

Lemma same_core_trans x y z : same_core x y -> same_core y z -> same_core x z.
Proof. unfold same_core. intuition congruence. Qed.

Lemma used_at_core rds rds' i d' :
  Forall2 same_core rds rds' -> used_at rds' i d' ->
  exists d, used_at rds i d /\ same_core d d'.
Proof.
  intros F [Hn Hu]. destruct (Forall2_nth_error _ _ _ _ _ F Hn) as (d & Hd & Hc).
  exists d. split; [|exact Hc]. split; [exact Hd|]. destruct Hc as (Hu' & _). congruence.
Qed.

Lemma count_unused_core rds rds' :
  Forall2 same_core rds rds' -> count_unused rds' = count_unused rds.
Proof.
  unfold count_unused. induction 1 as [|d d' l l' Hc _ IH]; simpl; [reflexivity|].
  destruct Hc as (Hu & _). rewrite Hu. destruct (d_used d); simpl; congruence.
Qed.

Lemma minids_ok_core m rds rds' :
  Forall2 same_core rds rds' -> minids_ok m rds -> minids_ok m rds'.
Proof.
  intros F H g. specialize (H g).
  assert (Fwd : forall d', In d' rds' -> d_used d' = true ->
                 exists d, In d rds /\ d_used d = true /\ d_group d = d_group d' /\ d_id d = d_id d').
  { intros d' Hin Hu. apply In_nth_error in Hin as [i Hi].
    destruct (Forall2_nth_error _ _ _ _ _ F Hi) as (d & Hd & (Cu & Ci & Cg & _)).
    exists d. repeat split; try congruence. eapply nth_error_In; eauto. }
  assert (Bwd : forall d, In d rds -> d_used d = true ->
                 exists d', In d' rds' /\ d_used d' = true /\ d_group d' = d_group d /\ d_id d' = d_id d).
  { intros d Hin Hu. apply In_nth_error in Hin as [i Hi].
    destruct (Forall2_nth_error_l _ _ _ _ _ F Hi) as (d' & Hd & (Cu & Ci & Cg & _)).
    exists d'. repeat split; try congruence. eapply nth_error_In; eauto. }
  destruct (minid_lookup g m) as [v|].
  - destruct H as [(d & I & U & G & E) L]. split.
    + destruct (Bwd d I U) as (d' & I' & U' & G' & E'). exists d'. repeat split; congruence.
    + intros d' I' U' G'. destruct (Fwd d' I' U') as (d0 & I0 & U0 & G0 & E0).
      rewrite <- E0. apply L; congruence.
  - intros d' I' U'. destruct (Fwd d' I' U') as (d0 & I0 & U0 & G0 & E0).
    rewrite <- G0. now apply H.
Qed.

(* header changes that touch only arch and modification time *)
Definition hdr_same_layout (h h' : header) : Prop :=
  h_launch h' = h_launch h /\ h_magic h' = h_magic h /\ h_version h' = h_version h /\
  h_id h' = h_id h /\ h_ctime h' = h_ctime h /\ h_free h' = h_free h /\
  h_total h' = h_total h /\ h_descoff h' = h_descoff h /\ h_descsize h' = h_descsize h /\
  h_dataoff h' = h_dataoff h /\ h_datasize h' = h_datasize h.

Lemma wf_mem_same_core m h' rds' :
  wf_mem m ->
  hdr_same_layout (m_hdr m) h' -> length (h_arch h') = 3%nat -> in_i64 (h_mtime h') ->
  Forall2 same_core (m_rds m) rds' -> Forall wf_desc rds' ->
  wf_mem (mkM h' rds' (m_minids m)).
Proof.
  intros W (Hl & Hm & Hv & Hi & Hc & Hf & Ht & Ho & Hs & Hd & Hz) La Lt F Wr.
  pose proof (wf_h _ W) as Wh. unfold wf_header in Wh.
  assert (Len : length rds' = length (m_rds m)) by (symmetry; eapply Forall2_len; eauto).
  constructor; simpl.
  - unfold wf_header. rewrite Hl, Hm, Hv, Hi, Hc, Hf, Ht, Ho, Hs, Hd, Hz. tauto.
  - rewrite Hm. apply (wf_magic _ W).
  - rewrite Hv. apply (wf_version _ W).
  - exact Wr.
  - rewrite Ht, Len. apply (wf_total _ W).
  - rewrite Ht, Hs. apply (wf_descsize _ W).
  - rewrite Ho. apply (wf_descoff _ W).
  - rewrite Ho, Hs, Hd. apply (wf_dataoff _ W).
  - rewrite Hf, (count_unused_core _ _ F). apply (wf_free _ W).
  - rewrite Hz. apply (wf_datasize _ W).
  - rewrite Hd, Hz. apply (wf_bound _ W).
  - intros i d' U. destruct (used_at_core _ _ _ _ F U) as (d & Ud & (_ & Ci & _)).
    rewrite Ci. now apply (wf_ids _ W i).
  - intros i d' U. destruct (used_at_core _ _ _ _ F U) as (d & Ud & (_ & _ & _ & Co & Cs)).
    rewrite Hd, Hz, Co, Cs. now apply (wf_layout _ W i).
  - intros i j di' dj' Nij Ui Uj Si Sj.
    destruct (used_at_core _ _ _ _ F Ui) as (di & Udi & (_ & _ & _ & Coi & Csi)).
    destruct (used_at_core _ _ _ _ F Uj) as (dj & Udj & (_ & _ & _ & Coj & Csj)).
    rewrite Coi, Csi, Coj, Csj. apply (wf_disjoint _ W i j); auto; congruence.
  - apply (minids_ok_core _ _ _ F). apply (wf_minids _ W).
  - apply (wf_minids_sorted _ W).
Qed.

Lemma coherent_infile_core m rds' (st st' : store) :
  Forall2 same_core (m_rds m) rds' ->
  (length st <= length st')%nat ->
  (forall i d, used_at (m_rds m) i d -> 0 < d_size d -> d_off d + d_size d <= Z.of_nat (length st)) ->
  forall i d', used_at rds' i d' -> 0 < d_size d' -> d_off d' + d_size d' <= Z.of_nat (length st').
Proof.
  intros F Hl H i d' U S. destruct (used_at_core _ _ _ _ F U) as (d & Ud & (_ & _ & _ & Co & Cs)).
  rewrite Co, Cs in *. specialize (H i d Ud S). lia.
Qed.

(* in-range and physically small facts for live objects *)
Lemma live_region_nat m st i d :
  wf_mem m -> coherent m st -> used_at (m_rds m) i d -> 0 < d_size d ->
  (Z.to_nat (d_off d) + Z.to_nat (d_size d) <= length st)%nat /\
  (Z.to_nat (h_descoff (m_hdr m)) + 585 * length (m_rds m) <= Z.to_nat (d_off d))%nat.
Proof.
  intros W C U S. pose proof (wf_layout _ W i d U) as (L1 & L2 & L3).
  pose proof (coh_infile _ _ C i d U S) as I.
  pose proof (wf_descoff _ W). pose proof (wf_dataoff _ W). pose proof (wf_descsize _ W).
  pose proof (wf_total _ W). split; lia.
Qed.

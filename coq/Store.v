(* Store.v — the backing storage of an image as a list of bytes, with the
   positional operations the library issues.  Offsets and lengths are nat
   here; Image.v converts from Z at the boundary (Inv keeps them small). *)
From Coq Require Import List ZArith Lia Bool.
From Coq.Init Require Import Byte.
From Sif Require Import Bytes.
Import ListNotations.

Definition store := list byte.

(* io.ReaderAt: up to n bytes at offset o; short when the store ends *)
Definition nread (o n : nat) (st : store) : list byte := firstn n (skipn o st).

(* positional write: a gap between the end of the store and o is zero
   filled (POSIX pwrite past EOF; Buffer.Write with pos > len) *)
Definition nwrite (o : nat) (bs : list byte) (st : store) : store :=
  firstn o st ++ zeros (o - length st) ++ bs ++ skipn (o + length bs) st.

(* ftruncate: shrink, or extend with zeros *)
Definition ntrunc (n : nat) (st : store) : store :=
  firstn n st ++ zeros (n - length st).

Definition byte_at (i : nat) (st : store) : option byte := nth_error st i.

(* One call seen by the ReadWriter.  A write of the empty string is a call
   too: the two backends differ on it (see Backends.v). *)
Inductive event :=
| EvSeek (o : nat)
| EvWrite (bs : list byte)
| EvTrunc (n : nat)
| EvResize (n : nat).   (* FileImage.resize: Seek(0, End); then Truncate(n) if n < size,
                           or Seek(n-1) + Write of one zero byte if n > size *)

(* Storage of the POSIX-file backend: contents and file position. *)
Record fstate := mkF { f_bytes : store; f_pos : nat }.

Definition file_apply (ev : event) (s : fstate) : fstate :=
  match ev with
  | EvSeek o => mkF (f_bytes s) o
  | EvWrite bs =>
      match bs with
      | [] => s                              (* write(fd, "", 0): nothing *)
      | _ => mkF (nwrite (f_pos s) bs (f_bytes s)) (f_pos s + length bs)
      end
  | EvTrunc n => mkF (ntrunc n (f_bytes s)) (f_pos s)
  | EvResize n =>
      let size := length (f_bytes s) in
      if Nat.ltb n size then mkF (firstn n (f_bytes s)) size
      else if Nat.ltb size n then mkF (nwrite (n - 1) [x00] (f_bytes s)) n
      else mkF (f_bytes s) size
  end.

Definition file_run (tr : list event) (s : fstate) : fstate :=
  fold_left (fun s ev => file_apply ev s) tr s.

(* IntegFacts.v — what a successful Verify establishes (soundness of the
   verification loop), for any behaviour of the cryptographic parameters. *)
From Coq Require Import List ZArith Lia Bool.
From Coq.Init Require Import Byte.
From Sif Require Import Bytes BytesFacts Store Format Image SelectFacts Integrity StreamFacts.
Import ListNotations.
Local Open Scope Z_scope.

Section Facts.

Variable hash : halg -> list byte -> list byte.
Variable classify : list byte -> sigkind.
Variable is_legacy : list byte -> bool.
Variable open_dsse : Z -> list byte -> option (list byte * list Z).
Variable open_pgp : list byte -> option (list byte * list byte).
Variable parse_md : list byte -> option imd.
Variable has_dsse_keys : bool.
Variable has_pgp_keys : bool.

Local Notation dmatch := (digest_matches hash).
Local Notation osig := (open_sig open_dsse open_pgp).
Local Notation vgroup := (verify_group_sig hash open_dsse open_pgp parse_md).
Local Notation vlegacy := (verify_legacy_sig hash open_dsse open_pgp).
Local Notation vsig := (verify_sig hash open_dsse open_pgp parse_md).
Local Notation vsigs := (verify_sigs hash classify open_dsse open_pgp parse_md has_dsse_keys has_pgp_keys).
Local Notation vtasks := (verify_tasks hash classify is_legacy open_dsse open_pgp parse_md has_dsse_keys has_pgp_keys).
Local Notation vfy := (verify hash classify is_legacy open_dsse open_pgp parse_md has_dsse_keys has_pgp_keys).
Local Notation tsigs := (task_signatures is_legacy).

(* ---------- one object, one signature ---------- *)

(* what imageMetadata.matches checked for one object *)
Definition object_checked (st : store) (signed : list (Z * omd)) (p : rdesc * Z) : Prop :=
  exists id om c,
    find (fun s => fst s =? d_id (fst p)) signed = Some (id, om) /\
    dmatch (om_desc om) (desc_stream (fst p) (snd p)) = true /\
    section_bytes (fst p) st = inl c /\
    dmatch (om_obj om) c = true.

Lemma objects_match_sound st signed ods v :
  objects_match hash st signed ods = (v, None) ->
  v = map (fun p => d_id (fst p)) ods /\ Forall (object_checked st signed) ods.
Proof.
  revert v. induction ods as [|[d rel] ods IH]; intros v H; cbn [objects_match] in H.
  - injection H as <-. split; [reflexivity | constructor].
  - destruct (find (fun s => fst s =? d_id d) signed) as [[id om]|] eqn:F; [|discriminate].
    destruct (dmatch (om_desc om) (desc_stream d rel)) eqn:D1; cbn [negb] in H; [|discriminate].
    destruct (section_bytes d st) as [c|e] eqn:S; [|discriminate].
    destruct (dmatch (om_obj om) c) eqn:D2; cbn [negb] in H; [|discriminate].
    destruct (objects_match hash st signed ods) as [v' e'] eqn:R.
    injection H as <- ->. destruct (IH v' eq_refl) as [-> Hall].
    split; [reflexivity|]. constructor; [|exact Hall].
    exists id, om, c. cbn [fst snd]. auto.
Qed.

(* the facts behind an accepted current-format signature *)
Record sig_accepted (m : mem) (st : store) (g : Z) (ods : list (rdesc * Z)) (sub : bool)
       (sig : rdesc) (kind : sigkind) (o : opened) (im : imd) (minid : Z) : Prop := {
  sa_meta : exists ht fp, sig_meta sig = inl (ht, fp) /\
                          osig kind ht (obj_bytes sig st) = Some o /\
                          fp_matches (op_entity o) fp = true;
  sa_parse : parse_md (op_payload o) = Some im;
  sa_minid : group_min_id m g = Some minid;
  sa_ids : sub = false ->
           object_ids_match (map (fun om => wrap_u32 (minid + om_relid om)) (im_objects im)) ods = None;
  sa_header : dmatch (im_header im) (header_stream (m_hdr m)) = true;
  sa_objects : Forall (object_checked st (map (fun om => (wrap_u32 (minid + om_relid om), om)) (im_objects im))) ods }.

Lemma verify_group_sig_sound m st g ods sub sig kind :
  vr_err (vgroup m st g ods sub sig kind) = None ->
  exists o im minid,
    sig_accepted m st g ods sub sig kind o im minid /\
    vgroup m st g ods sub sig kind =
      mkVR (d_id sig) (map (fun p => d_id (fst p)) ods) (op_keys o) (op_entity o) None.
Proof.
  unfold verify_group_sig.
  destruct (sig_meta sig) as [[ht fp]|e] eqn:SM; [|discriminate].
  destruct (osig kind ht (obj_bytes sig st)) as [o|] eqn:OS; [|discriminate].
  destruct (parse_md (op_payload o)) as [im|] eqn:PM; [|discriminate].
  destruct (group_min_id m g) as [minid|] eqn:GM; [|discriminate].
  destruct (fp_matches (op_entity o) fp) eqn:FP; cbn [negb]; [|discriminate].
  rewrite map_map. cbn [fst].
  destruct (if sub then None else object_ids_match _ ods) as [e|] eqn:OI; [discriminate|].
  destruct (dmatch (im_header im) (header_stream (m_hdr m))) eqn:HD; cbn [negb]; [|discriminate].
  destruct (objects_match hash st _ ods) as [v e] eqn:OM. cbn [vr_err]. intros ->.
  destruct (objects_match_sound _ _ _ _ OM) as [-> Hall].
  exists o, im, minid. split; [|reflexivity].
  constructor; try assumption.
  - exists ht, fp. auto.
  - intros ->. exact OI.
Qed.

(* ---------- the loops ---------- *)

Definition key_available (k : sigkind) : Prop :=
  match k with KDSSE => has_dsse_keys = true | KClearsign => has_pgp_keys = true | KUnknown => False end.

Definition sig_result (m : mem) (st : store) (t : task) (sig : rdesc) : vresult :=
  vsig m st t sig (classify (obj_bytes sig st)).

Definition sig_ok (m : mem) (st : store) (t : task) (sig : rdesc) : Prop :=
  key_available (classify (obj_bytes sig st)) /\ vr_err (sig_result m st t sig) = None.

Definition strict : vresult -> bool := fun _ => false.

Lemma verify_sigs_ok m st t sigs acc rs :
  vsigs m st t strict sigs acc = (rs, None) ->
  rs = acc ++ map (sig_result m st t) sigs /\ Forall (sig_ok m st t) sigs.
Proof.
  revert acc. induction sigs as [|sig sigs IH]; intros acc H; cbn [verify_sigs] in H.
  - injection H as <-. rewrite app_nil_r. auto.
  - destruct (classify (obj_bytes sig st)) eqn:K.
    + destruct has_dsse_keys eqn:HK; cbn [negb] in H; [|discriminate].
      destruct (vr_err (vsig m st t sig KDSSE)) eqn:E; cbn [strict] in H; [discriminate|].
      assert (SR : sig_result m st t sig = vsig m st t sig KDSSE) by (unfold sig_result; now rewrite K).
      destruct (IH _ H) as [-> Hall]. split.
      * cbn [map]. rewrite SR, <- app_assoc. reflexivity.
      * constructor; [|exact Hall]. split; [unfold key_available; now rewrite K | now rewrite SR].
    + destruct has_pgp_keys eqn:HK; cbn [negb] in H; [|discriminate].
      destruct (vr_err (vsig m st t sig KClearsign)) eqn:E; cbn [strict] in H; [discriminate|].
      assert (SR : sig_result m st t sig = vsig m st t sig KClearsign) by (unfold sig_result; now rewrite K).
      destruct (IH _ H) as [-> Hall]. split.
      * cbn [map]. rewrite SR, <- app_assoc. reflexivity.
      * constructor; [|exact Hall]. split; [unfold key_available; now rewrite K | now rewrite SR].
    + discriminate.
Qed.

(* the results a successful strict run reports: every signature of every task, in order *)
Fixpoint all_results (m : mem) (st : store) (ts : list task) : list vresult :=
  match ts with
  | [] => []
  | t :: r => match tsigs m st t with
              | inl sigs => map (sig_result m st t) sigs
              | inr _ => []
              end ++ all_results m st r
  end.

Definition task_ok (m : mem) (st : store) (t : task) : Prop :=
  exists sigs, tsigs m st t = inl sigs /\ sigs <> [] /\ Forall (sig_ok m st t) sigs.

Lemma group_signatures_nonempty m st g legacy l :
  group_signatures is_legacy m st g legacy = inl l -> l <> [].
Proof.
  unfold group_signatures. destruct (linked_sigs m (SLinkedGroup g)); [|discriminate].
  destruct (sigs_filter is_legacy st legacy l0) as [[|x r]|]; try discriminate.
  intros [= <-]. discriminate.
Qed.

Lemma object_signatures_nonempty m id l : object_signatures m id = inl l -> l <> [].
Proof.
  unfold object_signatures. destruct (linked_sigs m (SLinkedID id)) as [[|x r]|]; try discriminate.
  intros [= <-]. discriminate.
Qed.

Lemma task_signatures_nonempty m st t l : tsigs m st t = inl l -> l <> [].
Proof.
  destruct t; cbn [task_signatures]; eauto using group_signatures_nonempty, object_signatures_nonempty.
Qed.

Lemma verify_tasks_ok m st ts acc rs :
  vtasks m st strict ts acc = (rs, None) ->
  rs = acc ++ all_results m st ts /\ Forall (task_ok m st) ts.
Proof.
  revert acc. induction ts as [|t ts IH]; intros acc H; cbn [verify_tasks] in H.
  - injection H as <-. cbn. rewrite app_nil_r. auto.
  - destruct (tsigs m st t) as [sigs|e] eqn:TS; [|discriminate].
    destruct (vsigs m st t strict sigs acc) as [acc' [e|]] eqn:VS; [discriminate|].
    destruct (verify_sigs_ok _ _ _ _ _ _ VS) as [-> Hs].
    destruct (IH _ H) as [-> Hall]. split.
    + cbn [all_results]. rewrite TS, !app_assoc. reflexivity.
    + constructor; [|exact Hall]. exists sigs. eauto using task_signatures_nonempty.
Qed.

(* Verify's first check *)
Definition ungrouped_are_signatures (m : mem) : Prop :=
  forall d, In d (m_rds m) -> d_used d = true -> group_of_raw (d_group d) = 0 ->
            d_type d = DataSignature.

Theorem verify_ok m st ts rs :
  vfy m st strict ts = (rs, None) ->
  ungrouped_are_signatures m /\ rs = all_results m st ts /\ Forall (task_ok m st) ts.
Proof.
  unfold verify. destruct (get_descriptors m [SNoGroup]) as [ods|e] eqn:G; [|discriminate].
  destruct (forallb (fun p => d_type (fst p) =? DataSignature) ods) eqn:F; cbn [negb]; [|discriminate].
  intro H. destruct (verify_tasks_ok _ _ _ _ _ H) as [-> Hall]. split; [|auto].
  intros d Hin Hu Hg. destruct (get_descriptors_exact _ _ _ G) as (_ & Hiff & _).
  assert (Hd : In d (map fst ods)).
  { apply Hiff. split; [exact Hin|]. split; [exact Hu|]. constructor; [|constructor].
    now apply sat_SNoGroup. }
  apply in_map_iff in Hd as (p & <- & Hp). rewrite forallb_forall in F.
  specialize (F p Hp). now apply Z.eqb_eq in F.
Qed.

(* every reported result belongs to a signature attached to one of the tasks *)
Lemma in_all_results m st ts vr :
  In vr (all_results m st ts) ->
  exists t sigs sig, In t ts /\ tsigs m st t = inl sigs /\ In sig sigs /\ vr = sig_result m st t sig.
Proof.
  induction ts as [|t ts IH]; cbn [all_results]; [contradiction|].
  rewrite in_app_iff. intros [H|H].
  - destruct (tsigs m st t) as [sigs|] eqn:TS; [|contradiction].
    apply in_map_iff in H as (sig & <- & Hs). exists t, sigs, sig. cbn. auto.
  - destruct (IH H) as (t' & sigs & sig & Ht & Hs & Hi & ->). exists t', sigs, sig. cbn. auto.
Qed.

Lemma all_results_complete m st ts t sigs sig :
  In t ts -> tsigs m st t = inl sigs -> In sig sigs -> In (sig_result m st t sig) (all_results m st ts).
Proof.
  induction ts as [|t' ts IH]; [contradiction|]. intros [->|Hin] TS Hs; cbn [all_results]; apply in_app_iff.
  - left. rewrite TS. now apply in_map.
  - right. eauto.
Qed.

(* ---------- the signature selection ---------- *)

Lemma sigs_filter_in st legacy l l' sig :
  sigs_filter is_legacy st legacy l = inl l' -> In sig l' ->
  In sig l /\ exists c, get_data sig st = inl c /\ is_legacy c = legacy.
Proof.
  revert l'. induction l as [|d l IH]; intros l' H Hin; cbn [sigs_filter] in H.
  - injection H as <-. contradiction.
  - unfold data_of in H. destruct (get_data d st) as [c|] eqn:GD; [|discriminate].
    destruct (sigs_filter is_legacy st legacy l) as [r'|] eqn:R; [|discriminate].
    destruct (Bool.eqb (is_legacy c) legacy) eqn:B; injection H as <-.
    + destruct Hin as [<-|Hin].
      * split; [now left|]. exists c. split; [exact GD|]. now apply eqb_prop.
      * destruct (IH _ eq_refl Hin) as [Hl Hc]. split; [now right | exact Hc].
    + destruct (IH _ eq_refl Hin) as [Hl Hc]. split; [now right | exact Hc].
Qed.

Lemma sigs_filter_complete st legacy l l' sig c :
  sigs_filter is_legacy st legacy l = inl l' -> In sig l -> get_data sig st = inl c ->
  is_legacy c = legacy -> In sig l'.
Proof.
  revert l'. induction l as [|d l IH]; intros l' H Hin GD HL; [contradiction|]. cbn [sigs_filter] in H.
  unfold data_of in H. destruct (get_data d st) as [c'|] eqn:GD'; [|discriminate].
  destruct (sigs_filter is_legacy st legacy l) as [r'|] eqn:R; [|discriminate].
  destruct Hin as [->|Hin].
  - rewrite GD in GD'. injection GD' as <-. rewrite HL, eqb_reflx in H. injection H as <-. now left.
  - destruct (Bool.eqb (is_legacy c') legacy); injection H as <-; [right|]; eauto.
Qed.

Lemma linked_sigs_spec m sel l :
  linked_sigs m sel = inl l ->
  forall d, In d l <-> In d (m_rds m) /\ d_used d = true /\ d_type d = DataSignature /\ sat sel d.
Proof.
  unfold linked_sigs. destruct (h_free (m_hdr m) =? h_total (m_hdr m)); [discriminate|].
  intros C d. apply collect_ok in C. subst l. unfold matching.
  rewrite filter_In, andb_true_iff, is_match_multi. unfold sat_all.
  split.
  - intros (Hin & Hu & Hs). inversion Hs as [|? ? S1 Hs']; subst. inversion Hs' as [|? ? S2 _]; subst.
    apply sat_SType in S1. auto.
  - intros (Hin & Hu & Ht & Hs). repeat split; try assumption.
    constructor; [now apply sat_SType|]. constructor; [exact Hs | constructor].
Qed.

End Facts.

(* IntegExamples.v — a small concrete world
   in which the integrity model runs end to end inside Coq (toy envelopes, an
   injective toy digest): non-vacuity of the
   hypotheses of the integrity theorems, and the concrete witnesses behind the
   refuted statements (known findings F6, F10, F13; F9 is in C16Facts). *)
From Coq Require Import List ZArith Lia Bool.
From Coq.Init Require Import Byte.
From Sif Require Import Bytes Store Format Image Machine Integrity Sign IntegFacts.
Import ListNotations.
Local Open Scope Z_scope.

(* ---------- toy cryptography ---------- *)

(* the digest of a byte string is the byte string: injective, so no collisions *)
Definition t_hash (a : halg) (bs : list byte) : list byte := bs.
(* the digest used for OCI blob descriptors plays no role here *)
Definition t_sha256 (bs : list byte) : list byte := zeros 32.

(* envelopes: 'D' key payload (DSSE-like); 'P' key payload (clear-sign-like) *)
Definition t_classify (c : list byte) : sigkind :=
  match c with x44 :: _ => KDSSE | x50 :: _ => KClearsign | _ => KUnknown end.
Definition t_is_legacy (c : list byte) : bool :=
  match c with x50 :: _ :: x53 :: _ => true | _ => false end.
Definition t_fp (k : byte) : list byte := repeat k 20.

Section Trusted.
Variable trusted : list byte.   (* the key bytes the caller trusts *)
Definition t_open_dsse (ht : Z) (c : list byte) : option (list byte * list Z) :=
  match c with
  | x44 :: k :: p => if existsb (Byte.eqb k) trusted then Some (p, [byte_to_Z k]) else None
  | _ => None
  end.
Definition t_open_pgp (c : list byte) : option (list byte * list byte) :=
  match c with
  | x50 :: k :: p => if existsb (Byte.eqb k) trusted then Some (p, t_fp k) else None
  | _ => None
  end.
End Trusted.

(* a serialisation of the metadata *)
Definition alg_code (a : halg) : byte :=
  match a with SHA224 => x01 | SHA256 => x02 | SHA384 => x03 | SHA512 => x04 | SHA512_224 => x05 | SHA512_256 => x06 end.
Definition code_alg (b : byte) : option halg :=
  match b with x01 => Some SHA224 | x02 => Some SHA256 | x03 => Some SHA384 | x04 => Some SHA512
          | x05 => Some SHA512_224 | x06 => Some SHA512_256 | _ => None end.
Definition ser_digest (d : digest) : list byte :=
  alg_code (dg_alg d) :: le_enc 2 (Z.of_nat (length (dg_val d))) ++ dg_val d.
Definition par_digest (bs : list byte) : option (digest * list byte) :=
  match bs with
  | a :: n1 :: n2 :: r =>
      match code_alg a with
      | Some alg => let k := Z.to_nat (le_dec [n1; n2]) in
                    if (length r <? k)%nat then None else Some (mkDg alg (firstn k r), skipn k r)
      | None => None
      end
  | _ => None
  end.
Definition ser_omd (o : omd) : list byte := le_enc 4 (om_relid o) ++ ser_digest (om_desc o) ++ ser_digest (om_obj o).
Definition t_encode (im : imd) : list byte :=
  ser_digest (im_header im) ++ [Z_to_byte (Z.of_nat (length (im_objects im)))] ++ flat_map ser_omd (im_objects im).
Fixpoint par_omds (n : nat) (bs : list byte) : option (list omd) :=
  match n with
  | O => match bs with [] => Some [] | _ => None end
  | S n' =>
      if (length bs <? 4)%nat then None
      else match par_digest (skipn 4 bs) with
           | Some (d1, r1) =>
               match par_digest r1 with
               | Some (d2, r2) =>
                   match par_omds n' r2 with
                   | Some l => Some (mkOMD (le_dec (firstn 4 bs)) d1 d2 :: l)
                   | None => None
                   end
               | None => None
               end
           | None => None
           end
  end.
Definition t_parse (bs : list byte) : option imd :=
  match par_digest bs with
  | Some (h, n :: r) =>
      match par_omds (Z.to_nat (byte_to_Z n)) r with Some l => Some (mkIMD 1 h l) | None => None end
  | _ => None
  end.

Definition t_seal_dsse (k : byte) (p : list byte) : list byte * Z := (x44 :: k :: p, 1).
Definition t_seal_pgp (k : byte) (p : list byte) : list byte * Z := (x50 :: k :: p, 1).

(* ---------- a two-group image ---------- *)

Definition obj (g : Z) (c : list byte) : dinput := mkDI DataGeneric c None g LNone 0 [x6f] MdNone None.
Definition co2 : copts :=
  mkCO [x23; x21] (zeros 16) 8 zero_time
       [obj 1 [x61; x62; x63]; obj 1 [x64; x65]; obj 2 [x66]; obj 2 [x67; x68; x69; x6a]].

Definition s0 : state :=
  match create t_sha256 BBuf co2 with (Some s, _, _) => s | _ => mkS (mkM (dec_header []) [] []) (mkF [] 0) BBuf end.

Definition sign_with (seal : list byte -> list byte * Z) (fp : option (list byte)) (s : state) (so : sopts) : state * sresult :=
  sign t_hash t_sha256 t_encode seal fp s so 0.

Definition verify_with (trusted : list byte) (s : state) (vo : vopts)
  : (list vresult * option ierr) + ierr :=
  match load_image (f_bytes (s_io s)) with
  | inr e => inr (ISif e)
  | inl m =>
      match new_verifier m vo with
      | inr e => inr e
      | inl ts => inl (verify t_hash t_classify t_is_legacy (t_open_dsse trusted) (t_open_pgp trusted) t_parse
                              true true m (f_bytes (s_io s)) strict ts)
      end
  end.

Definition default_vo : vopts := mkVO [] [] false false.
Definition so_default : sopts := mkSO [] [] TDeterministic.

Definition brief (r : (list vresult * option ierr) + ierr) : option (list (Z * list Z) * bool) :=
  match r with
  | inl (rs, e) => Some (map (fun vr => (vr_sig vr, vr_verified vr)) rs, match e with None => true | _ => false end)
  | inr _ => None
  end.

(* ---------- sign, then verify (non-vacuity of the theorems' hypotheses) ---------- *)

Definition s_signed : state := fst (sign_with (t_seal_dsse x4b) None s0 so_default).

Example sign_then_verify :
  snd (sign_with (t_seal_dsse x4b) None s0 so_default) = SOk /\
  brief (verify_with [x4b] s_signed default_vo) = Some ([(5, [1; 2]); (6, [3; 4])], true).
Proof. vm_compute. split; reflexivity. Qed.

(* an untrusted key, or a changed byte of a signed object, is refused *)
Example untrusted_key_refused :
  brief (verify_with [x4c] s_signed default_vo) = Some ([(5, [])], false).
Proof. vm_compute. reflexivity. Qed.

Definition flip_at (n : nat) (st : store) : store :=
  firstn n st ++ match skipn n st with b :: r => Z_to_byte (byte_to_Z b + 1) :: r | [] => [] end.

Definition tampered (s : state) : state :=
  (* first content byte of object 1 *)
  match nth_error (m_rds (s_mem s)) 0 with
  | Some d => mkS (s_mem s) (mkF (flip_at (Z.to_nat (d_off d)) (f_bytes (s_io s))) 0) (s_backend s)
  | None => s
  end.

Example tampered_content_refused :
  brief (verify_with [x4b] (tampered s_signed) default_vo) = Some ([(5, [])], false).
Proof. vm_compute. reflexivity. Qed.

(* ---------- F6: removing a whole group leaves default verification satisfied ---------- *)

Definition s_group2_gone : state := fst (step t_sha256 s_signed (OpDelete (SGroup 2) false false TDeterministic 0)).

Example whole_group_removal_still_verifies :
  brief (verify_with [x4b] s_signed default_vo) = Some ([(5, [1; 2]); (6, [3; 4])], true) /\
  snd (step t_sha256 s_signed (OpDelete (SGroup 2) false false TDeterministic 0)) = Ok /\
  brief (verify_with [x4b] s_group2_gone default_vo) = Some ([(5, [1; 2])], true).
Proof. vm_compute. repeat split; reflexivity. Qed.

(* ---------- F13: two object-subset signatures on one group ---------- *)

Definition s_obj1 : state := fst (sign_with (t_seal_dsse x4b) None s0 (mkSO [] [[1]] TDeterministic)).
Definition s_obj12 : state := fst (sign_with (t_seal_dsse x4b) None s_obj1 (mkSO [] [[2]] TDeterministic)).

Example second_subset_signature_breaks_the_first :
  brief (verify_with [x4b] s_obj1 (mkVO [] [1] false false)) = Some ([(5, [1])], true) /\
  snd (sign_with (t_seal_dsse x4b) None s_obj1 (mkSO [] [[2]] TDeterministic)) = SOk /\
  brief (verify_with [x4b] s_obj12 (mkVO [] [1] false false)) = Some ([(5, [1]); (6, [])], false).
Proof. vm_compute. repeat split; reflexivity. Qed.

(* ---------- F10: a DSSE signature whose descriptor names somebody ---------- *)

Definition forged_fp : list byte := t_fp x5a.
Definition s_forged : state := fst (sign_with (t_seal_dsse x4b) (Some forged_fp) s0 (mkSO [1] [] TDeterministic)).

Definition listing (s : state) (vo : vopts) (any : bool) : option (list (list byte)) :=
  match load_image (f_bytes (s_io s)) with
  | inr _ => None
  | inl m => match new_verifier m vo with
             | inr _ => None
             | inl ts => match signed_by t_is_legacy m (f_bytes (s_io s)) ts any with inl l => Some l | inr _ => None end
             end
  end.

Example dsse_signature_lists_a_fingerprint_nobody_signed_with :
  (* verification of group 1 succeeds through DSSE key 'K' alone *)
  (match verify_with [x4b] s_forged (mkVO [1] [] false false) with
   | inl ([vr], None) => vr_keys vr = [75] /\ vr_entity vr = None
   | _ => False
   end) /\
  (* yet the listing names entity 'Z', whose key opened nothing *)
  listing s_forged (mkVO [1] [] false false) true = Some [forged_fp] /\
  listing s_forged (mkVO [1] [] false false) false = Some [forged_fp].
Proof. vm_compute. repeat split; reflexivity. Qed.

(* the same with a clear-signed (PGP-like) signature is refused: fingerprint mismatch *)
Definition s_pgp_wrong_fp : state := fst (sign_with (t_seal_pgp x4b) (Some forged_fp) s0 (mkSO [1] [] TDeterministic)).
Definition s_pgp_right_fp : state := fst (sign_with (t_seal_pgp x4b) (Some (t_fp x4b)) s0 (mkSO [1] [] TDeterministic)).

Example pgp_fingerprint_is_checked :
  brief (verify_with [x4b] s_pgp_wrong_fp (mkVO [1] [] false false)) = Some ([(5, [])], false) /\
  brief (verify_with [x4b] s_pgp_right_fp (mkVO [1] [] false false)) = Some ([(5, [1; 2])], true) /\
  listing s_pgp_right_fp (mkVO [1] [] false false) true = Some [t_fp x4b].
Proof. vm_compute. repeat split; reflexivity. Qed.

(* ---------- F9: two different pairs of objects, one concatenation ---------- *)

Example boundary_shift_same_concatenation :
  let cs := [[x61; x62]; [x63]] in
  let cs' := [[x61]; [x62; x63]] in
  cs <> cs' /\ concat cs = concat cs'.
Proof. split; [discriminate | reflexivity]. Qed.

(* ExecI.v — running the integrity model on recorded verification cases.  The
   cryptographic and JSON parameters of Integrity.v are instantiated by finite
   tables the harness computed with go-crypto / sigstore / encoding/json
   directly (not through the library under test); digests are recomputed here
   with Sha2.v.  Evaluated with vm_compute; no theorem depends on this file. *)
From Coq Require Import List ZArith Bool.
From Coq.Init Require Import Byte.
From Sif Require Import Bytes Store Format Image Machine Sha2 Exec Integrity Sign.
Import ListNotations.
Local Open Scope Z_scope.

Definition exec_hash (a : halg) (bs : list byte) : list byte :=
  match a with
  | SHA224 => Sha2.sha224 bs
  | SHA256 => Sha2.sha256 bs
  | SHA384 => Sha2.sha384 bs
  | SHA512 => Sha2.sha512 bs
  | _ => []
  end.

(* tables keyed by the content bytes of a signature object (or by a payload) *)
Record oracle := mkOr {
  or_kind : list (list byte * Z);                                  (* 0 DSSE, 1 clear-sign, 2 unknown *)
  or_legacy : list (list byte * bool);
  or_dsse : list (Z * list byte * option (list byte * list Z));    (* hash type, content *)
  or_pgp : list (list byte * option (list byte * list byte));
  or_md : list (list byte * option imd) }.

(* case files share long byte strings: a mutant image is a patch of its base *)
Definition patch (b : list byte) (off : Z) (p : list byte) : list byte :=
  firstn (Z.to_nat off) b ++ p ++ skipn (Z.to_nat off + List.length p) b.

Fixpoint lookup {A} (k : list byte) (t : list (list byte * A)) : option A :=
  match t with
  | [] => None
  | (k', v) :: r => if bytes_eqb k k' then Some v else lookup k r
  end.

Definition tbl_kind (t : list (list byte * Z)) (c : list byte) : sigkind :=
  match lookup c t with Some 0 => KDSSE | Some 1 => KClearsign | _ => KUnknown end.
Definition tbl_legacy (t : list (list byte * bool)) (c : list byte) : bool :=
  match lookup c t with Some b => b | None => false end.
Fixpoint tbl_dsse (t : list (Z * list byte * option (list byte * list Z))) (ht : Z) (c : list byte)
  : option (list byte * list Z) :=
  match t with
  | [] => None
  | (h, k, v) :: r =>
      if (h =? ht) && bytes_eqb c k then
        v
      else tbl_dsse r ht c
  end.
Definition tbl_pgp (t : list (list byte * option (list byte * list byte))) (c : list byte)
  : option (list byte * list byte) :=
  match lookup c t with Some v => v | None => None end.
Definition tbl_md (t : list (list byte * option imd)) (p : list byte) : option imd :=
  match lookup p t with Some v => v | None => None end.

(* error codes shared with the harness: (class, object ID) *)
Definition err_code (e : err) : Z :=
  match e with
  | ENoObjects => 1 | ENotFound => 2 | EMultiple => 3 | EInvalidObjectID => 4 | EInvalidGroupID => 5
  | EUnexpectedType => 6 | ENegOffset => 7 | EBadSize => 8 | EShortData => 9 | ECapacity => 10
  | EExtraTooLarge => 11 | EAlignOverflow => 12 | EIDOverflow => 13 | ETruncRange => 14 | _ => 99
  end.

Definition ierr_code (e : ierr) : Z * Z :=
  match e with
  | ISif e => (100 + err_code e, 0)
  | INonGroupedObject => (1, 0) | IGroupNotFound => (2, 0) | INoGroupsFound => (3, 0)
  | ISigNotFound => (4, 0) | INoKeyDSSE => (5, 0) | INoKeyPGP => (6, 0)
  | IFormatNotRecognized => (7, 0) | ISigNotValid => (8, 0) | IFingerprintMismatch => (9, 0)
  | IObjectNotSigned => (10, 0) | ISignedObjectNotFound => (11, 0) | IHeaderIntegrity => (12, 0)
  | IDescriptorIntegrity id => (13, id) | IObjectIntegrity id => (14, id)
  | IHashUnsupported => (15, 0) | IDigestMalformed => (16, 0) | IMinimumIDInvalid => (17, 0)
  | IUnexpectedGroupID => (18, 0) | INoObjectsSpecified => (19, 0) | INoKeyMaterial => (20, 0)
  | ICapacity e => (21, err_code e)
  end.

Definition code_opt (e : option ierr) : Z * Z := match e with None => (0, 0) | Some x => ierr_code x end.

(* what one callback invocation showed *)
Record vobs := mkVObs {
  vb_sig : Z; vb_verified : list Z; vb_keys : list Z; vb_entity : option (list byte); vb_err : Z * Z }.

Record vcase := mkVCase {
  vc_id : Z;
  vc_image : list byte;
  vc_opts : vopts;
  vc_has_dsse : bool;
  vc_has_pgp : bool;
  vc_ignore : bool;                     (* the callback ignores every error *)
  vc_oracle : oracle;
  vc_new_err : Z * Z;                   (* NewVerifier *)
  vc_verify_err : Z * Z;                (* Verify *)
  vc_results : list vobs;               (* callback invocations, in order *)
  vc_any : option (list (list byte));   (* AnySignedBy; None = error *)
  vc_all : option (list (list byte)) }.

Fixpoint zlist_eqb (a b : list Z) : bool :=
  match a, b with
  | [], [] => true
  | x :: a', y :: b' => (x =? y) && zlist_eqb a' b'
  | _, _ => false
  end.

Definition opt_bytes_eqb (a b : option (list byte)) : bool :=
  match a, b with
  | None, None => true
  | Some x, Some y => bytes_eqb x y
  | _, _ => false
  end.

Definition pair_eqb (a b : Z * Z) : bool := (fst a =? fst b) && (snd a =? snd b).

Definition vres_eqb (r : vresult) (o : vobs) : bool :=
  (vr_sig r =? vb_sig o) && zlist_eqb (vr_verified r) (vb_verified o) &&
  zlist_eqb (vr_keys r) (vb_keys o) && opt_bytes_eqb (vr_entity r) (vb_entity o) &&
  pair_eqb (code_opt (vr_err r)) (vb_err o).

Fixpoint vres_list_eqb (a : list vresult) (b : list vobs) : bool :=
  match a, b with
  | [], [] => true
  | x :: a', y :: b' => vres_eqb x y && vres_list_eqb a' b'
  | _, _ => false
  end.

Fixpoint fps_eqb (a b : list (list byte)) : bool :=
  match a, b with
  | [], [] => true
  | x :: a', y :: b' => bytes_eqb x y && fps_eqb a' b'
  | _, _ => false
  end.

Definition opt_fps_eqb (a : list (list byte) + ierr) (b : option (list (list byte))) : bool :=
  match a, b with
  | inl x, Some y => fps_eqb x y
  | inr _, None => true
  | _, _ => false
  end.

(* mismatch codes: 20 the image does not load in the model, 21 NewVerifier result,
   22 Verify result, 23 callback reports, 24 AnySignedBy, 25 AllSignedBy *)
Definition check_vcase (c : vcase) : list (Z * Z * Z) :=
  let st := vc_image c in
  match load_image st with
  | inr _ => [(vc_id c, 0, 20)]
  | inl m =>
      let o := vc_oracle c in
      let kind := tbl_kind (or_kind o) in
      let legacy := tbl_legacy (or_legacy o) in
      let dsse := tbl_dsse (or_dsse o) in
      let pgp := tbl_pgp (or_pgp o) in
      let md := tbl_md (or_md o) in
      match new_verifier m (vc_opts c) with
      | inr e => if pair_eqb (ierr_code e) (vc_new_err c) then [] else [(vc_id c, 0, 21)]
      | inl ts =>
          (if pair_eqb (0, 0) (vc_new_err c) then [] else [(vc_id c, 0, 21)]) ++
          (let '(rs, e) := verify exec_hash kind legacy dsse pgp md (vc_has_dsse c) (vc_has_pgp c)
                                  m st (fun _ => vc_ignore c) ts in
           (if pair_eqb (code_opt e) (vc_verify_err c) then [] else [(vc_id c, 0, 22)]) ++
           (if vres_list_eqb rs (vc_results c) then [] else [(vc_id c, 0, 23)])) ++
          (if opt_fps_eqb (signed_by legacy m st ts true) (vc_any c) then [] else [(vc_id c, 0, 24)]) ++
          (if opt_fps_eqb (signed_by legacy m st ts false) (vc_all c) then [] else [(vc_id c, 0, 25)])
      end
  end.

Definition vmismatches (cs : list vcase) : list (Z * Z * Z) := flat_map check_vcase cs.

(* ---------- signing ---------- *)

Definition imd_eqb (a b : imd) : bool :=
  (im_version a =? im_version b) && digest_eqb (im_header a) (im_header b) &&
  (fix go (x y : list omd) : bool :=
     match x, y with
     | [], [] => true
     | p :: x', q :: y' =>
         (om_relid p =? om_relid q) && digest_eqb (om_desc p) (om_desc q) &&
         digest_eqb (om_obj p) (om_obj q) && go x' y'
     | _, _ => false
     end) (im_objects a) (im_objects b).

Record scase := mkSCase {
  sc_id : Z;
  sc_image : list byte;                              (* the image before signing *)
  sc_opts : sopts;
  sc_now : Z;
  sc_fp : option (list byte);                        (* fingerprint of the signing entity (PGP) *)
  sc_md : list (list byte * option imd);             (* payloads seen and what they parse to *)
  sc_seal : list (list byte * (list byte * Z));      (* payload -> envelope bytes, hash type *)
  sc_err : Z * Z;                                    (* (0,0) = signing succeeded *)
  sc_final : list byte }.                            (* the image afterwards *)

Definition tbl_encode (t : list (list byte * option imd)) (im : imd) : list byte :=
  match find (fun kv => match snd kv with Some x => imd_eqb x im | None => false end) t with
  | Some (p, _) => p
  | None => []
  end.

Definition tbl_seal (t : list (list byte * (list byte * Z))) (p : list byte) : list byte * Z :=
  match lookup p t with Some v => v | None => ([], 0) end.

Definition sres_code (r : sresult) : Z * Z :=
  match r with
  | SOk => (0, 0)
  | SErrI e => ierr_code e
  | SErrAdd e => (21, err_code e)
  end.

(* mismatch codes: 30 the image does not load in the model, 31 the result of
   NewSigner/Sign, 32 the bytes of the image afterwards *)
Definition check_scase (c : scase) : list (Z * Z * Z) :=
  match load_image (sc_image c) with
  | inr _ => [(sc_id c, 0, 30)]
  | inl m =>
      let s := mkS m (mkF (sc_image c) 0) BBuf in
      let '(s', r) := sign exec_hash Sha2.sha256 (tbl_encode (sc_md c)) (tbl_seal (sc_seal c))
                           (sc_fp c) s (sc_opts c) (sc_now c) in
      (if pair_eqb (sres_code r) (sc_err c) then [] else [(sc_id c, 0, 31)]) ++
      (if bytes_eqb (f_bytes (s_io s')) (sc_final c) then [] else [(sc_id c, 0, 32)])
  end.

Definition smismatches (cs : list scase) : list (Z * Z * Z) := flat_map check_scase cs.

(* Siftool.v — the siftool commands as the model has them: new, add (flag to
   option translation of pkg/siftool/add.go), del, setprim, dump, info, list,
   header; each command loads the file, calls the library once, unloads. *)
From Coq Require Import List ZArith Lia Bool.
From Coq.Init Require Import Byte.
From Sif Require Import Bytes Store Format Image Machine Integrity Sign.
Import ListNotations.
Local Open Scope Z_scope.

Record add_flags := mkAF {
  af_datatype : Z;                       (* --datatype *)
  af_parttype : Z;                       (* --parttype *)
  af_partfs : Z;                         (* --partfs *)
  af_partarch : Z;                       (* --partarch *)
  af_signhash : Z;                       (* --signhash *)
  af_signentity : option (list byte);    (* --signentity hex-decoded; None = not hexadecimal *)
  af_sbom : option Z;                    (* --sbomformat: None = empty, Some 0 = unknown name, Some k = format k *)
  af_group : Z;                          (* --groupid *)
  af_link : option Z;                    (* --link, if given *)
  af_align : option Z;                   (* --alignment, if given *)
  af_name : option (list byte) }.        (* --filename, if given *)

(* getDataType *)
Definition datatype_of (k : Z) : option Z :=
  if (1 <=? k) && (k <=? 11) then Some (16384 + k) else None.

(* getArch and getSIFArch: the two-digit architecture code *)
Definition digit (n : Z) : byte := Z_to_byte (48 + n).
Definition arch_code (k : Z) : option (list byte) :=
  if (1 <=? k) && (k <=? 12) then Some [digit (k / 10); digit (k mod 10); x00] else None.

(* getOptions + sif.NewDescriptorInput: None when the command is refused before
   the library's AddObject is reached *)
Definition add_dinput (fl : add_flags) (content : list byte) : option dinput :=
  match datatype_of (af_datatype fl) with
  | None => None
  | Some ty =>
      let link := match af_link fl with Some id => LObject id | None => LNone end in
      let align := match af_align fl with
                   | Some a => a
                   | None => if ty =? DataPartition then 4096 else 0
                   end in
      let name := match af_name fl with Some n => n | None => [] end in
      let md : option metadata :=
        if ty =? DataPartition then
          if (af_parttype fl =? 0) || (af_partfs fl =? 0) || (af_partarch fl =? 0) then None
          else match arch_code (af_partarch fl) with
               | Some a => Some (MdPart (af_partfs fl) (af_parttype fl) a)
               | None => None
               end
        else if ty =? DataSignature then
          match af_signentity fl with
          | Some fp =>
              if (1 <=? af_signhash fl) && (af_signhash fl <=? 5) && Nat.eqb (length fp) 20
              then Some (MdRaw (enc_signature (af_signhash fl) (Some fp)))
              else None
          | None => None
          end
        else if ty =? DataSBOM then
          match af_sbom fl with
          | Some k => if k =? 0 then None else Some (MdRaw (le_enc 4 k))
          | None => None
          end
        else if (ty =? DataOCIBlob) || (ty =? DataOCIRootIndex) then Some MdOCI
        else Some MdNone in
      match af_link fl, md with
      | Some 0, _ => None                    (* OptLinkedID(0) is refused *)
      | _, None => None
      | _, Some m => Some (mkDI ty content None (af_group fl) link align name m None)
      end
  end.

Inductive cmd :=
| CNew
| CAdd (fl : add_flags) (content : list byte)
| CDel (id : Z)
| CSetPrim (id : Z)
| CDump (id : Z)
| CInfo (id : Z)
| CList
| CHeader
| CRefused.       (* arguments the command line parser rejects (an ID that is no uint32, ...) *)

(* exit status 0 with what went to standard output (modelled for dump only), or non-zero *)
Inductive outcome := Done (out : list byte) | Failed.

Section Run.

Variable sha256 : list byte -> list byte.

(* the library call a modifying command makes, if its arguments get that far *)
Definition cmd_op (c : cmd) (now : Z) : option op :=
  match c with
  | CAdd fl content =>
      match add_dinput fl content with Some di => Some (OpAdd di TDefault now) | None => None end
  | CDel id => Some (OpDelete (SID id) false false TDefault now)
  | CSetPrim id => Some (OpSetPrim id TDefault now)
  | _ => None
  end.

(* withFileImage(path, writable, fn): LoadContainerFromPath, fn, UnloadContainer *)
Definition with_image (bytes : store) (x : op) : store * outcome :=
  match load_image bytes with
  | inr _ => (bytes, Failed)
  | inl m =>
      let '(s', r) := step sha256 (mkS m (mkF bytes 0) BFile) x in
      (f_bytes (s_io s'), match r with Ok => Done [] | Err _ => Failed end)
  end.

Definition run_cmd (bytes : store) (c : cmd) (now : Z) (rnd : list byte) : store * outcome :=
  match c with
  | CNew =>
      match create sha256 BFile (resolve_copts [] now rnd) with
      | (Some s, Ok, _) => (f_bytes (s_io s), Done [])
      | (_, _, io) => (f_bytes io, Failed)
      end
  | CAdd _ _ | CDel _ | CSetPrim _ =>
      match cmd_op c now with
      | Some x => with_image bytes x
      | None => (bytes, Failed)
      end
  | CDump id =>
      match load_image bytes with
      | inr _ => (bytes, Failed)
      | inl m =>
          match get_descriptor m [SID id] with
          | inr _ => (bytes, Failed)
          | inl (d, _) =>
              (* io.CopyN(out, d.GetReader(), d.Size()) *)
              match section_bytes d bytes with
              | inl c => if Z.of_nat (length c) =? d_size d then (bytes, Done c) else (bytes, Failed)
              | inr _ => (bytes, Failed)
              end
          end
      end
  | CInfo id =>
      match load_image bytes with
      | inr _ => (bytes, Failed)
      | inl m => match get_descriptor m [SID id] with inr _ => (bytes, Failed) | inl _ => (bytes, Done []) end
      end
  | CList | CHeader =>
      match load_image bytes with inr _ => (bytes, Failed) | inl _ => (bytes, Done []) end
  | CRefused => (bytes, Failed)
  end.

End Run.

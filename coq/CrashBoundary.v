(* CrashBoundary.v — C09, second sentence: when AddObject is interrupted between
   two storage calls, the object being added is either absent (its slot is
   still the unused slot it was) or completely present (its descriptor is in
   the table and all its bytes are in the file). *)
From Coq Require Import List ZArith Lia Bool.
From Coq.Init Require Import Byte.
From Sif Require Import Bytes BytesFacts Store StoreFacts Format FormatFacts Image ImageFacts Machine
     SelectFacts AlignFacts Inv InvCommon InvSet InvAdd InvCreate LoadFacts Reach Crash CrashOps SignFacts.
Import ListNotations.
Local Open Scope Z_scope.

Lemma crash_prefix_firstn k evs : crash_prefix evs (firstn k evs).
Proof.
  revert k. induction evs as [|ev r IH]; intros [|k]; cbn [firstn]; constructor. apply IH.
Qed.

Lemma file_run_app a b io : file_run (a ++ b) io = file_run b (file_run a io).
Proof. unfold file_run. apply fold_left_app. Qed.

Lemma same_on_sym a b lo hi : same_on a b lo hi -> (hi <= length a)%nat -> same_on b a lo hi.
Proof. intros [L S] La. split; [exact La|]. intros k H1 H2. symmetry. now apply S. Qed.

Lemma firstn_app_le {A} (a b : list A) k : (k <= length a)%nat -> firstn k (a ++ b) = firstn k a.
Proof. intro H. rewrite firstn_app. replace (k - length a)%nat with O by lia. cbn. apply app_nil_r. Qed.

Lemma firstn_app_ge {A} (a b : list A) k : (length a <= k)%nat -> firstn k (a ++ b) = a ++ firstn (k - length a) b.
Proof. intro H. rewrite firstn_app, firstn_all2 by lia. reflexivity. Qed.

Section Boundary.

Variable sha256 : list byte -> list byte.
Variable sha_len : forall c, length (sha256 c) = 32%nat.

Theorem add_interrupted_between_calls s di o now m' evs k :
  Inv s -> wf_op s (OpAdd di o now) ->
  plan_add sha256 (s_mem s) di o now = (m', Ok, evs) ->
  let st_c := f_bytes (file_run (firstn k evs) (s_io s)) in
  let i := first_unused (m_rds (s_mem s)) in
  exists mc, load_image st_c = inl mc /\
    ((exists slot, nth_error (m_rds (s_mem s)) i = Some slot /\ d_used slot = false /\
                   nth_error (m_rds mc) i = Some slot) \/
     (exists d, nth_error (m_rds m') i = Some d /\ d_used d = true /\ nth_error (m_rds mc) i = Some d /\
                nread (Z.to_nat (d_off d)) (Z.to_nat (d_size d)) st_c = di_content di)).
Proof.
  intros I Wo P st_c i.
  pose proof (plan_wf sha256 sha_len s (OpAdd di o now) m' Ok evs I Wo P) as W'.
  destruct I as [W C]. assert (I : Inv s) by (split; assumption).
  destruct Wo as (Tm & Wd & Fit).
  set (m := s_mem s) in *. set (st0 := f_bytes (s_io s)) in *.
  (* the calls *)
  pose proof P as P0. unfold plan_add in P. cbv zeta in P.
  destruct (plan_write_object sha256 (first_unused (m_rds m)) di (resolve_time (m_hdr m) o now) m)
    as [[m1 r1] e1] eqn:PW.
  destruct r1 as [|e]; [|discriminate].
  pose proof (write_object_shape sha256 _ _ _ _ _ _ _ PW) as S. cbv zeta in S.
  destruct S as (slot & off & extra & N & _ & Al & _ & _ & X & He1 & Hm1).
  unfold finish in P. injection P as Hm' Hevs. fold i in N, Hm1.
  set (t := resolve_time (m_hdr m) o now) in *.
  set (dn := new_desc i di t (data_end (m_hdr m) (m_rds m)) off extra) in *.
  assert (Us : d_used slot = false).
  { destruct (first_unused_spec (m_rds m)) as [_ F]. exact (F slot N). }
  assert (Li : (i < length (m_rds m))%nat) by (apply nth_error_Some; fold i; congruence).
  pose proof (data_end_ge (m_hdr m) (m_rds m)) as De.
  pose proof (wf_dataoff _ W) as Wdo. pose proof (wf_descoff _ W) as Wdf.
  pose proof (wf_descsize _ W) as Wds. pose proof (wf_total _ W) as Wt.
  assert (DataEndOk : 0 <= data_end (m_hdr m) (m_rds m) <= max_i64).
  { unfold max_i64. pose proof (data_end_bound m W). pose proof (wf_bound _ W). lia. }
  destruct (next_aligned_some _ _ _ DataEndOk Al) as (Ho & _).
  set (data := EvSeek (Z.to_nat off) :: write_if_nonempty (di_content di)) in *.
  set (h' := m_hdr m') in *. set (rds' := m_rds m') in *.
  assert (Rds' : rds' = set_nth i dn (m_rds m)) by (unfold rds'; rewrite <- Hm', Hm1; reflexivity).
  assert (Hdo : h_descoff (m_hdr m1) = h_descoff (m_hdr m)) by (rewrite Hm1; reflexivity).
  assert (Evs : evs = data ++ tail_events m h' rds').
  { rewrite <- Hevs, He1. unfold tail_events, h', rds'. rewrite <- Hm'. cbn [m_hdr m_rds].
    unfold ev_table. rewrite Hdo. reflexivity. }
  assert (Ni' : nth_error rds' i = Some dn) by (rewrite Rds'; now apply nth_error_set_nth_eq).
  (* everything the general theorem gives: the crash image loads, geometry as before *)
  assert (CP : crash_prefix evs (firstn k evs)) by apply crash_prefix_firstn.
  destruct (operation_events sha256 sha_len s (OpAdd di o now) m' Ok evs I (conj Tm (conj Wd Fit)) P0)
    as (data0 & tail0 & E0 & DS0 & TO0).
  assert (CI : crash_image (data0 ++ tail0) (s_io s) st_c) by (rewrite <- E0; exists (firstn k evs); auto).
  destruct (crash_core m st0 W C _ data0 tail0 (s_io s) st_c eq_refl DS0 TO0 CI) as [LLold _].
  destruct (loadable_like_loads m st0 W C st_c LLold) as (mc & Lmc & Lenmc & SlotsOld).
  exists mc. split; [exact Lmc|].
  (* where the prefix ends *)
  set (doff := Z.to_nat (h_descoff (m_hdr m))).
  assert (Ldata : (length data <= 2)%nat) by (unfold data; destruct (di_content di); cbn; lia).
  destruct (le_lt_dec k (length data + 1)) as [Early|Late].
  - (* the table write has not happened: the slot is untouched *)
    left. exists slot. split; [exact N|]. split; [exact Us|].
    apply SlotsOld; [exact N|].
    (* the prefix lies inside data ++ [seek to the table] *)
    assert (Pre : crash_prefix (data ++ [EvSeek doff]) (firstn k evs)).
    { rewrite Evs. unfold tail_events, ev_table. fold doff.
      replace (data ++ (EvSeek doff :: EvWrite (enc_table rds') :: nil) ++ ev_header h')
        with ((data ++ [EvSeek doff]) ++ EvWrite (enc_table rds') :: ev_header h')
        by (rewrite <- !app_assoc; reflexivity).
      rewrite firstn_app_le by (rewrite app_length; change (length [EvSeek doff]) with 1%nat; lia). apply crash_prefix_firstn. }
    apply (keeps_crash st0 _ _ _ _ Pre None (s_io s)).
    + apply same_on_refl. pose proof (coherent_len_tab _ _ W C) as T.
      assert (m_rds m <> []) by (intro E; rewrite E in Li; cbn in Li; lia). specialize (T H). unfold st0 in T. unfold doff. lia.
    + exact Logic.I.
    + apply keeps_app; [|intro; apply keeps_seek; exact Logic.I].
      unfold data. apply keeps_seek. destruct (di_content di) as [|b bs]; cbn [write_if_nonempty]; [exact Logic.I|].
      apply keeps_write; [|exact Logic.I]. intros j Hj H1 H2. unfold doff in *. lia.
  - (* the table write is complete: compare with the file the finished operation leaves *)
    right. exists dn. split; [exact Ni'|]. split; [reflexivity|].
    set (s0 := mkS m (s_io s) BFile).
    assert (St : step sha256 s0 (OpAdd di o now) = (mkS m' (file_run evs (s_io s)) BFile, Ok)).
    { unfold step. cbn [plan_op s_mem s_io s_backend s0]. rewrite P0. unfold exec.
      rewrite run_events_file_ok. reflexivity. }
    destruct (add_inv sha256 sha_len s0 di o now _ Ok I Tm Wd Fit St) as ([W'' C'] & _ & _ & _ & Acc).
    destruct (Acc eq_refl) as (slot2 & off2 & extra2 & N2 & Al2 & X2 & _ & _ & _ & Content). clear Acc.
    cbn [s_mem s_io f_bytes s0] in *. fold m i in N2, Al2, X2, Content.
    rewrite N in N2. injection N2 as <-. rewrite Al in Al2. injection Al2 as <-. clear X2.
    set (st' := f_bytes (file_run evs (s_io s))) in *.
    (* the prefix is data, the table calls, and j of the two header calls *)
    set (T := ev_table m.(m_hdr) rds').
    assert (LT : length T = 2%nat) by reflexivity.
    assert (Split : exists j, (j <= 2)%nat /\ firstn k evs = (data ++ T) ++ firstn j (ev_header h') /\
                              evs = ((data ++ T) ++ firstn j (ev_header h')) ++ skipn j (ev_header h')).
    { rewrite Evs. unfold tail_events. fold T. rewrite app_assoc.
      exists (Nat.min 2 (k - length (data ++ T))). split; [lia|].
      rewrite firstn_app_ge by (rewrite app_length; lia).
      assert (F : firstn (k - length (data ++ T)) (ev_header h') = firstn (Nat.min 2 (k - length (data ++ T))) (ev_header h')).
      { destruct (le_lt_dec (k - length (data ++ T)) 2) as [Hle|Hgt].
        - now rewrite Nat.min_r by lia.
        - rewrite Nat.min_l by lia. rewrite !firstn_all2 by (change (length (ev_header h')) with 2%nat; lia). reflexivity. }
      rewrite F. split; [reflexivity|].
      rewrite <- (app_assoc (data ++ T) (firstn _ _) (skipn _ _)), firstn_skipn. reflexivity. }
    destruct Split as (j & Hj & Hp & Hall).
    set (io_c := file_run (firstn k evs) (s_io s)) in *.
    assert (Est' : st' = f_bytes (file_run (skipn j (ev_header h')) io_c)).
    { unfold st', io_c. rewrite Hall at 1. rewrite file_run_app, <- Hp. reflexivity. }
    destruct LLold as (SO1 & SO2 & SO128 & SOtab).
    assert (Hne : m_rds m <> []) by (intro E; rewrite E in Li; cbn in Li; lia).
    specialize (SOtab Hne).
    pose proof (wf_h _ W') as Wh'. fold h' in Wh'.
    pose proof (length_enc_header h' Wh') as Lh'.
    assert (Crit : crit_eq (m_hdr m) h').
    { unfold crit_eq, h'. rewrite <- Hm', Hm1. cbn. auto. }
    (* the file position after the prefix, when it matters *)
    assert (Pos : j = 1%nat -> f_pos io_c = 0%nat).
    { intros ->. unfold io_c. rewrite Hp, file_run_app. reflexivity. }
    (* the remaining header calls keep every region of interest, relative to the crash image *)
    assert (KeepHdr : forall lo hi, (128 <= lo)%nat \/ (32 <= lo /\ hi <= 45)%nat \/ (88 <= lo /\ hi <= 112)%nat ->
              (hi <= length st_c)%nat -> same_on st_c st' lo hi).
    { intros lo hi Hr Hl. rewrite Est'.
      assert (A : agrees st_c lo hi 0 (enc_header h')).
      { intros q Hq H1 H2. cbn [Nat.add] in *. destruct Hr as [Hr|Hr]; [lia|].
        assert (nth_error st_c q = nth_error st0 q) as ->.
        { destruct Hr as [[? ?]|[? ?]]; [apply SO1 | apply SO2]; lia. }
        rewrite (st0_header_byte m st0 C) by lia. symmetry.
        apply enc_header_crit; [apply (wf_h _ W) | exact Wh' | exact Crit | lia]. }
      destruct j as [|[|j]].
      - apply (keeps_crash st_c lo hi _ _ (crash_prefix_full _) None io_c); [now apply same_on_refl | exact Logic.I|].
        cbn [skipn]. unfold ev_header. apply keeps_seek, keeps_write; [exact A | exact Logic.I].
      - apply (keeps_crash st_c lo hi _ _ (crash_prefix_full _) (Some 0%nat) io_c); [now apply same_on_refl | now apply Pos|].
        cbn [skipn ev_header]. apply keeps_write; [exact A | exact Logic.I].
      - cbn [skipn ev_header]. replace (skipn j []) with (@nil event) by (destruct j; reflexivity).
        cbn [file_run fold_left]. now apply same_on_refl. }
    (* the lengths agree: a header write does not change the length of a file of >= 128 bytes *)
    destruct SO128 as [L128 _].
    assert (Len : length st' = length st_c).
    { rewrite Est'. destruct j as [|[|j]]; cbn [skipn ev_header file_run fold_left file_apply f_bytes].
      - destruct (enc_header h') eqn:EH; [cbn in Lh'; lia|]. rewrite <- EH in Lh' |- *. cbn [f_bytes f_pos].
        rewrite length_nwrite. fold st_c. lia.
      - destruct (enc_header h') eqn:EH; [cbn in Lh'; lia|]. rewrite <- EH in Lh' |- *. cbn [f_bytes].
        rewrite length_nwrite, (Pos eq_refl). fold st_c. lia.
      - replace (skipn j []) with (@nil event) by (destruct j; reflexivity). reflexivity. }
    assert (Flip : forall lo hi, (128 <= lo)%nat \/ (32 <= lo /\ hi <= 45)%nat \/ (88 <= lo /\ hi <= 112)%nat ->
              (hi <= length st')%nat -> same_on st' st_c lo hi).
    { intros lo hi Hr Hl. apply same_on_sym; [apply KeepHdr; [exact Hr | lia] | lia]. }
    (* load relative to the finished operation *)
    pose proof (coherent_len_hdr _ _ W'' C') as L128'. fold st' in L128'.
    assert (Hne' : m_rds m' <> []).
    { fold rds'. rewrite Rds'. intro E. apply (f_equal (@length rdesc)) in E. rewrite length_set_nth in E. cbn in E. lia. }
    pose proof (coherent_len_tab _ _ W'' C' Hne') as Ltab'. fold st' in Ltab'.
    assert (LL' : loadable_like m' st' st_c).
    { unfold loadable_like. split; [apply Flip; lia|]. split; [apply Flip; lia|]. split; [apply Flip; lia|].
      intros _. apply Flip; [left|lia]. pose proof (wf_descoff _ W''). lia. }
    destruct (loadable_like_loads m' st' W'' C' st_c LL') as (mc' & Lmc' & _ & Slots').
    rewrite Lmc in Lmc'. injection Lmc' as <-.
    assert (Hdo' : h_descoff (m_hdr m') = h_descoff (m_hdr m)) by (destruct Crit as (_ & _ & _ & E & _); symmetry; exact E).
    split.
    + apply Slots'; [exact Ni'|]. apply Flip; [left; pose proof (wf_descoff _ W''); lia|].
      assert (length (m_rds m') = length (m_rds m)) by (fold rds'; rewrite Rds'; apply length_set_nth). lia.
    + (* the content *)
      assert (Doff : d_off dn = off) by reflexivity.
      assert (Dsz : d_size dn = Z.of_nat (length (di_content di))) by reflexivity.
      rewrite Doff, Dsz, Nat2Z.id.
      transitivity (nread (Z.to_nat off) (length (di_content di)) st'); [|exact Content].
      destruct (Nat.eq_dec (length (di_content di)) 0) as [Z0|Nz]; [now rewrite Z0|].
      assert (Sp : 0 < d_size dn) by (rewrite Dsz; lia).
      pose proof (coh_infile _ _ C' i dn (conj Ni' eq_refl) Sp) as Inf. fold st' in Inf. rewrite Doff, Dsz in Inf.
      apply same_on_nread; [|lia].
      apply Flip; [left; lia | lia].
Qed.

End Boundary.

(* SelectFacts.v — what descriptor queries return (C13). *)
From Coq Require Import List ZArith Lia Bool.
From Coq.Init Require Import Byte.
From Sif Require Import Bytes BytesFacts Store Format Image.
Import ListNotations.
Local Open Scope Z_scope.

(* "d satisfies selector s" / "d satisfies all of sels" *)
Definition sat (s : selector) (d : rdesc) : Prop := sel_eval s d = SMatch true.
Definition sat_all (sels : list selector) (d : rdesc) : Prop := Forall (fun s => sat s d) sels.

Definition is_match (r : sres) : bool := match r with SMatch true => true | _ => false end.
Definition is_err (r : sres) : bool := match r with SErr _ => true | _ => false end.

(* the live objects that satisfy f, in table order *)
Definition matching (f : rdesc -> sres) (rds : list rdesc) : list rdesc :=
  filter (fun d => d_used d && is_match (f d)) rds.

Lemma multi_eval_true sels d : multi_eval sels d = SMatch true <-> sat_all sels d.
Proof.
  induction sels as [|s r IH]; simpl.
  - split; [constructor | reflexivity].
  - unfold sat_all in *. split.
    + intro H. destruct (sel_eval s d) as [[|]|e] eqn:E; try discriminate.
      constructor; [exact E | now apply IH].
    + intro H. inversion H as [|? ? H1 H2]; subst. unfold sat in H1. rewrite H1. now apply IH.
Qed.

(* a false answer comes from a selector that says false, with all selectors
   before it true; an error likewise: left to right, first non-true wins *)
Lemma multi_eval_first sels d r :
  multi_eval sels d = r -> r <> SMatch true ->
  exists pre s post, sels = pre ++ s :: post /\ sat_all pre d /\ sel_eval s d = r.
Proof.
  revert r; induction sels as [|s rest IH]; intros r H Hr; simpl in H.
  - congruence.
  - destruct (sel_eval s d) as [[|]|e] eqn:E.
    + destruct (IH r H Hr) as (pre & s' & post & -> & Hp & Hs).
      exists (s :: pre), s', post. split; [reflexivity|]. split; [|exact Hs].
      constructor; assumption.
    + exists [], s, rest. subst r. repeat split; [constructor | exact E].
    + exists [], s, rest. subst r. repeat split; [constructor | exact E].
Qed.

(* collect returns exactly the matching live objects, in table order *)
Lemma collect_ok f rds l : collect f rds = inl l -> l = matching f rds.
Proof.
  revert l; induction rds as [|d r IH]; intros l H; simpl in *.
  - now inversion H.
  - unfold matching in *. simpl. destruct (d_used d); simpl in *.
    + destruct (f d) as [[|]|e]; simpl.
      * destruct (collect f r) as [l'|e'] eqn:E; [|discriminate].
        inversion H; subst. f_equal. now apply IH.
      * now apply IH.
      * discriminate.
    + now apply IH.
Qed.

(* ... and it fails only with the error of a selector on a live object *)
Lemma collect_err f rds e :
  collect f rds = inr e -> exists d, In d rds /\ d_used d = true /\ f d = SErr e.
Proof.
  induction rds as [|d r IH]; intro H; simpl in *; [discriminate|].
  destruct (d_used d) eqn:U; simpl in *.
  - destruct (f d) as [[|]|e'] eqn:E.
    + destruct (collect f r) as [l'|e''] eqn:C; [discriminate|]. inversion H; subst.
      destruct (IH eq_refl) as (d' & Hin & Hu & Hf). exists d'. auto.
    + destruct (IH H) as (d' & Hin & Hu & Hf). exists d'. auto.
    + inversion H; subst. exists d. auto.
  - destruct (IH H) as (d' & Hin & Hu & Hf). exists d'. auto.
Qed.

(* conversely: no selector error on any live object => collect succeeds *)
Lemma collect_total f rds :
  (forall d, In d rds -> d_used d = true -> is_err (f d) = false) ->
  exists l, collect f rds = inl l.
Proof.
  induction rds as [|d r IH]; intro H; simpl; [eauto|].
  destruct IH as [l Hl]; [intros; apply H; simpl; auto|].
  destruct (d_used d) eqn:U; simpl; [|eauto].
  specialize (H d (or_introl eq_refl) U).
  destruct (f d) as [[|]|e]; simpl in *; try discriminate; rewrite ?Hl; eauto.
Qed.

(* an error on the first live object is always reported *)
Lemma collect_first_err f rds e :
  (exists pre d post, rds = pre ++ d :: post /\ Forall (fun x => d_used x = false) pre /\
                      d_used d = true /\ f d = SErr e) ->
  collect f rds = inr e.
Proof.
  intros (pre & d & post & -> & Hp & Hu & Hf).
  induction pre as [|x pre IH]; simpl.
  - now rewrite Hu, Hf.
  - inversion Hp; subst. rewrite H1. simpl. now apply IH.
Qed.

(* ---- single-object form ---- *)

Lemma find_one_from_spec f rds i acc :
  match find_one_from f rds i acc with
  | inl (j, d) =>
      (acc = Some (j, d) /\ matching f rds = []) \/
      (acc = None /\ matching f rds = [d] /\ (i <= j)%nat /\ nth_error rds (j - i) = Some d)
  | inr ENotFound =>
      (acc = None /\ matching f rds = []) \/
      (exists d', In d' rds /\ d_used d' = true /\ f d' = SErr ENotFound)
  | inr e =>
      (exists d', In d' rds /\ d_used d' = true /\ f d' = SErr e) \/
      (e = EMultiple /\ (length (matching f rds) + (if acc then 1 else 0) >= 2)%nat)
  end.
Proof.
  revert i acc; induction rds as [|d r IH]; intros i acc; simpl.
  - destruct acc as [[j dj]|]; simpl; auto.
  - unfold matching in *. simpl.
    destruct (d_used d) eqn:U; simpl.
    + destruct (f d) as [[|]|e] eqn:E; simpl.
      * destruct acc as [[j dj]|].
        -- right. split; [reflexivity|]. simpl. lia.
        -- specialize (IH (S i) (Some (i, d))).
           destruct (find_one_from f r (S i) (Some (i, d))) as [[j dj]|e'].
           ++ destruct IH as [[Ha Hm]|[Ha _]]; [|discriminate].
              inversion Ha; subst. right. rewrite Hm. repeat split; try lia.
              now rewrite Nat.sub_diag.
           ++ destruct e'; try (destruct IH as [(d' & Hin & Hu & Hf)|[He Hl]];
                [left; exists d'; simpl; auto | try discriminate]).
              all: try (right; split; [assumption|]; simpl in *; lia).
              destruct IH as [[Ha _]|(d' & Hin & Hu & Hf)]; [discriminate|].
              right. exists d'. simpl; auto.
      * specialize (IH (S i) acc).
        destruct (find_one_from f r (S i) acc) as [[j dj]|e'].
        -- destruct IH as [[Ha Hm]|(Ha & Hm & Hij & Hn)]; [left; auto|].
           right. repeat split; auto; try lia.
           replace (j - i)%nat with (S (j - S i)) by lia. exact Hn.
        -- destruct e'; try (destruct IH as [(d' & Hin & Hu & Hf)|[He Hl]];
                [left; exists d'; simpl; auto | right; auto]).
           destruct IH as [[Ha Hm]|(d' & Hin & Hu & Hf)]; [left; auto|].
           right. exists d'. simpl; auto.
      * destruct e; try (left; exists d; simpl; auto). right. exists d. simpl; auto.
    + specialize (IH (S i) acc).
      destruct (find_one_from f r (S i) acc) as [[j dj]|e'].
      * destruct IH as [[Ha Hm]|(Ha & Hm & Hij & Hn)]; [left; auto|].
        right. repeat split; auto; try lia.
        replace (j - i)%nat with (S (j - S i)) by lia. exact Hn.
      * destruct e'; try (destruct IH as [(d' & Hin & Hu & Hf)|[He Hl]];
             [left; exists d'; simpl; auto | right; auto]).
        destruct IH as [[Ha Hm]|(d' & Hin & Hu & Hf)]; [left; auto|].
        right. exists d'. simpl; auto.
Qed.

(* no selector error on live objects: the three outcomes are decided by the
   number of matching objects *)
Definition no_sel_error (f : rdesc -> sres) (rds : list rdesc) : Prop :=
  forall d, In d rds -> d_used d = true -> is_err (f d) = false.

Theorem find_one_found f rds j d :
  find_one f rds = inl (j, d) -> matching f rds = [d] /\ nth_error rds j = Some d.
Proof.
  unfold find_one. intro H. pose proof (find_one_from_spec f rds 0 None) as S.
  rewrite H in S. destruct S as [[Ha _]|(_ & Hm & _ & Hn)]; [discriminate|].
  rewrite Nat.sub_0_r in Hn. auto.
Qed.

Theorem find_one_not_found f rds :
  no_sel_error f rds -> (find_one f rds = inr ENotFound <-> matching f rds = []).
Proof.
  intro Hne. unfold find_one. pose proof (find_one_from_spec f rds 0 None) as S. split.
  - intro H. rewrite H in S. destruct S as [[_ Hm]|(d & Hin & Hu & Hf)]; [exact Hm|].
    specialize (Hne d Hin Hu). rewrite Hf in Hne. discriminate.
  - intro Hm. destruct (find_one_from f rds 0 None) as [[j d]|e].
    + destruct S as [[Ha _]|(_ & Hm' & _)]; [discriminate|]. rewrite Hm in Hm'. discriminate.
    + destruct e; try reflexivity;
        (destruct S as [(d & Hin & Hu & Hf)|[He Hl]];
         [specialize (Hne d Hin Hu); rewrite Hf in Hne; discriminate
         | try discriminate; rewrite Hm in Hl; simpl in Hl; lia]).
Qed.

Theorem find_one_multiple f rds :
  no_sel_error f rds ->
  (find_one f rds = inr EMultiple <-> (length (matching f rds) >= 2)%nat).
Proof.
  intro Hne. unfold find_one. pose proof (find_one_from_spec f rds 0 None) as S. split.
  - intro H. rewrite H in S. destruct S as [(d & Hin & Hu & Hf)|[_ Hl]].
    + specialize (Hne d Hin Hu). rewrite Hf in Hne. discriminate.
    + lia.
  - intro Hl. destruct (find_one_from f rds 0 None) as [[j d]|e].
    + destruct S as [[Ha _]|(_ & Hm' & _)]; [discriminate|]. rewrite Hm' in Hl. simpl in Hl. lia.
    + destruct e; try reflexivity;
        try (destruct S as [(d & Hin & Hu & Hf)|[He _]];
             [specialize (Hne d Hin Hu); rewrite Hf in Hne; discriminate | discriminate]).
      destruct S as [[_ Hm]|(d & Hin & Hu & Hf)].
      * rewrite Hm in Hl. simpl in Hl. lia.
      * specialize (Hne d Hin Hu). rewrite Hf in Hne. discriminate.
Qed.

(* ---- what each selector means (definitional, stated for the record) ---- *)

Lemma sat_SType t d : sat (SType t) d <-> d_type d = t.
Proof. unfold sat; simpl. split; [intro H; inversion H; lia | intros ->; now rewrite Z.eqb_refl]. Qed.

Lemma sat_SID id d : sat (SID id) d <-> id <> 0 /\ d_id d = id.
Proof.
  unfold sat; simpl. destruct (Z.eqb_spec id 0); split; try (intro H; discriminate H).
  - intros [H _]; contradiction.
  - intro H; inversion H. split; [assumption | lia].
  - intros [_ ->]. now rewrite Z.eqb_refl.
Qed.

Lemma sat_SGroup g d : sat (SGroup g) d <-> g <> 0 /\ group_of_raw (d_group d) = g.
Proof.
  unfold sat; simpl. destruct (Z.eqb_spec g 0); split; try (intro H; discriminate H).
  - intros [H _]; contradiction.
  - intro H; inversion H. split; [assumption | lia].
  - intros [_ ->]. now rewrite Z.eqb_refl.
Qed.

Lemma sat_SNoGroup d : sat SNoGroup d <-> group_of_raw (d_group d) = 0.
Proof. unfold sat; simpl. split; [intro H; inversion H; lia | intros ->; reflexivity]. Qed.

Lemma sat_SLinkedID id d :
  sat (SLinkedID id) d <-> id <> 0 /\ raw_is_group (d_link d) = false /\ group_of_raw (d_link d) = id.
Proof.
  unfold sat; simpl. destruct (Z.eqb_spec id 0); split; try (intro H; discriminate H).
  - intros [H _]; contradiction.
  - intro H; injection H as H1. apply andb_true_iff in H1 as [Ha Hb].
    apply negb_true_iff in Ha. split; [assumption|]. split; [assumption | lia].
  - intros (_ & -> & ->). simpl. now rewrite Z.eqb_refl.
Qed.

Lemma sat_SLinkedGroup g d :
  sat (SLinkedGroup g) d <-> g <> 0 /\ raw_is_group (d_link d) = true /\ group_of_raw (d_link d) = g.
Proof.
  unfold sat; simpl. destruct (Z.eqb_spec g 0); split; try (intro H; discriminate H).
  - intros [H _]; contradiction.
  - intro H; injection H as H1. apply andb_true_iff in H1 as [Ha Hb].
    split; [assumption|]. split; [assumption | lia].
  - intros (_ & -> & ->). simpl. now rewrite Z.eqb_refl.
Qed.

Lemma sat_SPartType pt d :
  sat (SPartType pt) d <-> d_type d = DataPartition /\ part_type (d_extra d) = pt.
Proof.
  unfold sat; cbn [sel_eval]; unfold is_partition_of_type. split.
  - intro H; injection H as H1. apply andb_true_iff in H1 as [Ha Hb]. split; lia.
  - intros [H1 H2]. rewrite H1, H2, !Z.eqb_refl. reflexivity.
Qed.

Lemma sat_SOCIDigest text d :
  sat (SOCIDigest text) d <->
  (d_type d = DataOCIRootIndex \/ d_type d = DataOCIBlob) /\
  valid_digest_text text = true /\ cut_nul (d_extra d) = text.
Proof.
  unfold sat; cbn [sel_eval]; unfold is_oci_type. split.
  - intro H; injection H as H1. apply andb_true_iff in H1 as [Ha Hb].
    apply andb_true_iff in Hb as [Hb Hc]. apply BytesFacts.bytes_eqb_eq in Hc.
    apply orb_true_iff in Ha. rewrite <- Hc. repeat split; auto.
    destruct Ha as [Ha|Ha]; [left|right]; lia.
  - intros (Ht & Hv & He). rewrite He, Hv, BytesFacts.bytes_eqb_refl.
    destruct Ht as [Ht|Ht]; rewrite Ht, Z.eqb_refl; cbn [orb andb]; rewrite ?orb_true_r; reflexivity.
Qed.

(* ---- the public queries ---- *)

Lemma is_match_multi sels d : is_match (multi_eval sels d) = true <-> sat_all sels d.
Proof.
  rewrite <- multi_eval_true. destruct (multi_eval sels d) as [[|]|e]; simpl; split; congruence.
Qed.

Lemma collect_inl_no_err f rds l : collect f rds = inl l -> no_sel_error f rds.
Proof.
  revert l; induction rds as [|d r IH]; intros l H x Hin Hu; simpl in *; [contradiction|].
  destruct (d_used d) eqn:U; simpl in H.
  - destruct (f d) as [[|]|e] eqn:E; try discriminate.
    + destruct (collect f r) as [l'|] eqn:C; [|discriminate].
      destruct Hin as [<-|Hin]; [now rewrite E | eapply IH; eauto].
    + destruct Hin as [<-|Hin]; [now rewrite E | eapply IH; eauto].
  - destruct Hin as [<-|Hin]; [congruence | eapply IH; eauto].
Qed.

Theorem get_descriptors_exact m sels l :
  get_descriptors m sels = inl l ->
  map fst l = matching (multi_eval sels) (m_rds m) /\
  (forall d, In d (map fst l) <-> In d (m_rds m) /\ d_used d = true /\ sat_all sels d) /\
  (forall d r, In (d, r) l -> r = relative_id (m_minids m) d).
Proof.
  unfold get_descriptors. destruct (h_free (m_hdr m) =? h_total (m_hdr m)); [discriminate|].
  destruct (collect (multi_eval sels) (m_rds m)) as [l0|e] eqn:C; [|discriminate].
  intro H; inversion H; subst; clear H. apply collect_ok in C. subst l0.
  rewrite map_map. simpl. rewrite map_id. split; [reflexivity|]. split.
  - intro d. unfold matching. rewrite filter_In, andb_true_iff, is_match_multi. tauto.
  - intros d r Hin. apply in_map_iff in Hin as (x & Hx & _). now inversion Hx.
Qed.

Theorem get_descriptors_error m sels e :
  get_descriptors m sels = inr e ->
  (e = ENoObjects /\ h_free (m_hdr m) = h_total (m_hdr m)) \/
  (exists d pre s post, In d (m_rds m) /\ d_used d = true /\ sels = pre ++ s :: post /\
                        sat_all pre d /\ sel_eval s d = SErr e).
Proof.
  unfold get_descriptors. destruct (Z.eqb_spec (h_free (m_hdr m)) (h_total (m_hdr m))) as [E|E].
  - intro H; inversion H. auto.
  - destruct (collect (multi_eval sels) (m_rds m)) as [l0|e'] eqn:C; [discriminate|].
    intro H; inversion H; subst. right.
    destruct (collect_err _ _ _ C) as (d & Hin & Hu & Hf).
    destruct (multi_eval_first sels d (SErr e) Hf) as (pre & s & post & Hs & Hp & He); [discriminate|].
    exists d, pre, s, post. auto.
Qed.

Theorem get_descriptors_total m sels :
  h_free (m_hdr m) <> h_total (m_hdr m) ->
  no_sel_error (multi_eval sels) (m_rds m) ->
  exists l, get_descriptors m sels = inl l.
Proof.
  intros Hne Hno. unfold get_descriptors.
  destruct (Z.eqb_spec (h_free (m_hdr m)) (h_total (m_hdr m))); [contradiction|].
  destruct (collect_total _ _ Hno) as [l ->]. eauto.
Qed.

Theorem get_descriptors_empty m sels :
  h_free (m_hdr m) = h_total (m_hdr m) -> get_descriptors m sels = inr ENoObjects.
Proof. intro H. unfold get_descriptors. now rewrite H, Z.eqb_refl. Qed.

Theorem get_descriptor_empty m sels :
  h_free (m_hdr m) = h_total (m_hdr m) -> get_descriptor m sels = inr ENoObjects.
Proof. intro H. unfold get_descriptor. now rewrite H, Z.eqb_refl. Qed.

Theorem get_descriptor_single m sels :
  h_free (m_hdr m) <> h_total (m_hdr m) ->
  (forall d r, get_descriptor m sels = inl (d, r) ->
     matching (multi_eval sels) (m_rds m) = [d] /\ r = relative_id (m_minids m) d) /\
  (no_sel_error (multi_eval sels) (m_rds m) ->
     (get_descriptor m sels = inr ENotFound <-> matching (multi_eval sels) (m_rds m) = []) /\
     (get_descriptor m sels = inr EMultiple <->
        (length (matching (multi_eval sels) (m_rds m)) >= 2)%nat)).
Proof.
  intro Hne. unfold get_descriptor.
  destruct (Z.eqb_spec (h_free (m_hdr m)) (h_total (m_hdr m))); [contradiction|]. split.
  - intros d r H. destruct (find_one (multi_eval sels) (m_rds m)) as [[j d']|e] eqn:F; [|discriminate].
    inversion H; subst. apply find_one_found in F as [F _]. auto.
  - intro Hno. pose proof (find_one_not_found _ _ Hno) as N. pose proof (find_one_multiple _ _ Hno) as M.
    destruct (find_one (multi_eval sels) (m_rds m)) as [[j d']|e] eqn:F.
    + split; split; intro H; try discriminate.
      * apply N in H. discriminate.
      * apply M in H. discriminate.
    + split; split; intro H.
      * inversion H; subst. now apply N.
      * apply N in H. injection H as ->. reflexivity.
      * inversion H; subst. now apply M.
      * apply M in H. injection H as ->. reflexivity.
Qed.

(* ID or group zero *)
Definition zero_sel (s : selector) : option err :=
  match s with
  | SID 0 => Some EInvalidObjectID
  | SLinkedID 0 => Some EInvalidObjectID
  | SGroup 0 => Some EInvalidGroupID
  | SLinkedGroup 0 => Some EInvalidGroupID
  | _ => None
  end.

Lemma zero_sel_eval s e d : zero_sel s = Some e -> sel_eval s d = SErr e.
Proof.
  destruct s as [t|id| |g|id|g|pt|tx|c]; simpl; try discriminate;
    (destruct id || destruct g); simpl; try discriminate; intro H; inversion H; reflexivity.
Qed.

Definition never_errs (s : selector) : Prop := forall d, is_err (sel_eval s d) = false.

Theorem zero_selector_is_error m pre z post e :
  h_free (m_hdr m) <> h_total (m_hdr m) ->
  zero_sel z = Some e ->
  Forall never_errs pre ->
  (exists d, In d (m_rds m) /\ d_used d = true /\ sat_all pre d) ->
  get_descriptors m (pre ++ z :: post) = inr e.
Proof.
  intros Hne Hz Hpre (d & Hin & Hu & Hsat). unfold get_descriptors.
  destruct (Z.eqb_spec (h_free (m_hdr m)) (h_total (m_hdr m))); [contradiction|].
  destruct (collect (multi_eval (pre ++ z :: post)) (m_rds m)) as [l|e'] eqn:C.
  - exfalso. apply collect_inl_no_err in C. specialize (C d Hin Hu).
    assert (E : multi_eval (pre ++ z :: post) d = SErr e).
    { clear C. induction pre as [|p pre IH]; simpl.
      - now rewrite (zero_sel_eval _ _ d Hz).
      - inversion Hsat as [|? ? H1 H2]; subst. unfold sat in H1. rewrite H1.
        apply IH; [now inversion Hpre | assumption]. }
    rewrite E in C. discriminate.
  - f_equal. destruct (collect_err _ _ _ C) as (d' & Hin' & Hu' & Hf).
    destruct (multi_eval_first _ d' (SErr e') Hf) as (pre' & s & post' & Hs & Hp & He); [discriminate|].
    (* the erring selector s sits at or before z, because z itself always errs *)
    assert (K : forall (pre pre' : list selector) z s post post',
               pre ++ z :: post = pre' ++ s :: post' ->
               (exists mid, pre' = pre ++ z :: mid) \/ (pre = pre' /\ z = s) \/
               (exists mid, pre = pre' ++ s :: mid)).
    { clear. induction pre as [|a pre IH]; intros [|b pre'] z s post post' H; simpl in *.
      - inversion H; subst. right; left; auto.
      - inversion H; subst. left. eauto.
      - inversion H; subst. right; right. eauto.
      - inversion H; subst. destruct (IH _ _ _ _ _ H2) as [[mid ->]|[[-> ->]|[mid ->]]].
        + left; eauto.
        + right; left; auto.
        + right; right; eauto. }
    destruct (K _ _ _ _ _ _ Hs) as [[mid ->]|[[<- <-]|[mid ->]]].
    + exfalso. apply Forall_app in Hp as [_ Hp]. inversion Hp as [|? ? H1 _]; subst.
      unfold sat in H1. rewrite (zero_sel_eval _ _ d' Hz) in H1. discriminate.
    + rewrite (zero_sel_eval _ _ d' Hz) in He. now inversion He.
    + exfalso. apply Forall_app in Hpre as [_ Hpre]. inversion Hpre as [|? ? H1 _]; subst.
      specialize (H1 d'). rewrite He in H1. discriminate.
Qed.

(* HostileFacts.v — C10: on any byte string, what the model of LoadContainer
   and of the read paths reads and builds is bounded by the size of the input:
   the descriptor table that is decoded lies inside the input, object reads
   return at most what the input holds, the integrity streams have a fixed
   size.  (Every function of the model is a total function: it returns a
   result or an error for every input.) *)
From Coq Require Import List ZArith Lia Bool.
From Coq.Init Require Import Byte.
From Sif Require Import Bytes BytesFacts Store StoreFacts Format FormatFacts Image Integrity VerifierFacts.
Import ListNotations.
Local Open Scope Z_scope.

Lemma zread_bounded off n st bs : zread off n st = Some bs -> 0 <= n /\ Z.of_nat (length bs) = n /\ off + n <= Z.of_nat (length st).
Proof.
  unfold zread. destruct (Z.ltb_spec off 0); [discriminate|]. destruct (Z.ltb_spec n 0); [discriminate|].
  cbn [orb]. destruct (Z.ltb_spec (Z.of_nat (length st)) (off + n)); [discriminate|].
  intros [= <-]. rewrite length_nread_in by lia. lia.
Qed.

(* LoadContainer: the number of descriptors is the header's count, and the table
   that was decoded lies inside the input *)
Theorem load_image_bounded st m :
  load_image st = inl m ->
  (128 <= length st)%nat /\
  Z.of_nat (length (m_rds m)) = h_total (m_hdr m) /\
  (m_rds m <> [] -> h_descoff (m_hdr m) + 585 * Z.of_nat (length (m_rds m)) <= Z.of_nat (length st)) /\
  (585 * length (m_rds m) <= length st)%nat.
Proof.
  unfold load_image. destruct (Nat.ltb_spec (length st) 128) as [|L]; [discriminate|].
  remember (dec_header (nread 0 128 st)) as h eqn:Hh. clear Hh.
  destruct (negb (bytes_eqb (h_magic h) magic)); [discriminate|].
  destruct (negb (bytes_eqb (h_version h) version_bytes)); [discriminate|].
  destruct ((h_total h <? 0) || (h_descsize h <? 0) || (h_descsize h / 585 <? h_total h)) eqn:Cc; [discriminate|].
  apply orb_false_iff in Cc as [Cc _]. apply orb_false_iff in Cc as [Cc _]. apply Z.ltb_ge in Cc.
  destruct (Z.eqb_spec (h_total h) 0) as [E0|Ne].
  - intros [= <-]. cbn [m_rds m_hdr length]. repeat split; try lia. intro H; now contradiction H.
  - destruct (Z.ltb_spec (h_descoff h) 0); [discriminate|].
    destruct (zread (h_descoff h) (h_total h * 585) st) as [bs|] eqn:ZR; [|discriminate].
    intros [= <-]. cbn [m_rds m_hdr]. rewrite length_dec_table.
    destruct (zread_bounded _ _ _ _ ZR) as (_ & _ & Hb). repeat split; try lia.
Qed.

(* GetData returns exactly Size bytes, all of them present in the input *)
Theorem get_data_bounded d st c :
  get_data d st = inl c -> Z.of_nat (length c) = d_size d /\ (length c <= length st)%nat.
Proof.
  unfold get_data. destruct (Z.ltb_spec (d_size d) 0); [discriminate|].
  destruct (Z.eqb_spec (d_size d) 0) as [E|E]; [intros [= <-]; cbn; lia|].
  destruct (Z.ltb_spec (d_off d) 0); [discriminate|].
  destruct (zread (d_off d) (d_size d) st) as [bs|] eqn:ZR; [|discriminate]. intros [= <-].
  destruct (zread_bounded _ _ _ _ ZR) as (_ & Hl & Hb). lia.
Qed.

(* GetReader yields at most what the input holds, however large Size claims to be *)
Theorem section_bytes_bounded d st c : section_bytes d st = inl c -> (length c <= length st)%nat.
Proof.
  unfold section_bytes. destruct (d_size d <? 0); [discriminate|].
  destruct (d_size d =? 0); [intros [= <-]; cbn; lia|].
  destruct (Z.ltb_spec (d_off d) 0) as [Ho|Ho]; [discriminate|].
  destruct (Z.leb_spec (Z.of_nat (length st)) (d_off d)) as [Hl|Hl]; [intros [= <-]; cbn; lia|].
  intros [= <-]. rewrite length_nread. lia.
Qed.

Theorem obj_bytes_bounded d st : (length (obj_bytes d st) <= length st)%nat.
Proof.
  unfold obj_bytes. destruct (section_bytes d st) as [c|] eqn:S; [now apply section_bytes_bounded in S | cbn; lia].
Qed.

(* the integrity streams have a fixed size for every decoded descriptor / header *)
Theorem desc_stream_size d r : wf_desc d -> length (desc_stream d r) = 557%nat.
Proof.
  intros (_ & _ & _ & _ & _ & _ & _ & _ & _ & _ & _ & Ln & Le). unfold desc_stream, enc_bool.
  rewrite !app_length, !length_le_enc, Ln, Le. reflexivity.
Qed.

Theorem header_stream_size h : wf_header h -> length (header_stream h) = 61%nat.
Proof.
  intros (L1 & L2 & L3 & _ & L5 & _). unfold header_stream. rewrite !app_length, L1, L2, L3, L5. reflexivity.
Qed.

(* every image LoadContainer accepts has in-range fields only (hostile ones included) *)
Theorem loaded_fields_in_range st m :
  load_image st = inl m -> wf_header (m_hdr m) /\ Forall wf_desc (m_rds m).
Proof. exact (load_image_wf st m). Qed.

(* LoadContainer answers on every byte string *)
Theorem load_image_total st : (exists m, load_image st = inl m) \/ (exists e, load_image st = inr e).
Proof. destruct (load_image st); eauto. Qed.

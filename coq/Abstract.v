(* Abstract.v — the reference model of C02: an image is a header summary and a
   row of slots, each free or holding an object with its attributes and its
   content.  No offsets, no padding, no bytes of a file.  The operations are
   defined on this view alone. *)
From Coq Require Import List ZArith Lia Bool.
From Coq.Init Require Import Byte.
From Sif Require Import Bytes Store Format Image Machine.
Import ListNotations.
Local Open Scope Z_scope.

(* a descriptor without its place in the file *)
Definition erase (d : rdesc) : rdesc :=
  mkD (d_type d) (d_used d) (d_id d) (d_group d) (d_link d) 0 (d_size d) 0
      (d_ctime d) (d_mtime d) (d_uid d) (d_gid d) (d_name d) (d_extra d).

(* what the header says about the image as a whole *)
Record ahdr := mkAH {
  ah_launch : list byte; ah_id : list byte; ah_arch : list byte; ah_ctime : Z; ah_mtime : Z }.

(* a slot: the (erased) descriptor and, for an object in use, its content *)
Record astate := mkAS { as_hdr : ahdr; as_slots : list (rdesc * list byte) }.

Definition a_descs (a : astate) : list rdesc := map fst (as_slots a).

Definition a_set_mtime (h : ahdr) (t : Z) : ahdr := mkAH (ah_launch h) (ah_id h) (ah_arch h) (ah_ctime h) t.
Definition a_set_arch (h : ahdr) (x : list byte) : ahdr := mkAH (ah_launch h) (ah_id h) x (ah_ctime h) (ah_mtime h).

Definition a_is_deterministic (h : ahdr) : bool :=
  bytes_eqb (ah_id h) nil_uuid && (ah_ctime h =? zero_time) && (ah_mtime h =? zero_time).

Definition a_resolve_time (h : ahdr) (o : topt) (now : Z) : Z :=
  match o with
  | TDefault => if a_is_deterministic h then zero_time else now
  | TDeterministic => zero_time
  | TExplicit t => t
  end.

Section WithDigest.

Variable sha256 : list byte -> list byte.

Definition a_has_primary (a : astate) : bool :=
  existsb (fun d => d_used d && is_partition_of_type d PartPrimSys) (a_descs a).

(* AddObject: the first free slot receives the object *)
Definition a_add (a : astate) (di : dinput) (o : topt) (now : Z) : astate * result :=
  let t := a_resolve_time (as_hdr a) o now in
  let i := first_unused (a_descs a) in
  match nth_error (as_slots a) i with
  | None => (a, Err ECapacity)
  | Some (slot, _) =>
      if max_u32 <=? Z.of_nat i then (a, Err EIDOverflow) else
      let prim := match di_md di with MdPart _ pt _ => pt =? PartPrimSys | _ => false end in
      if prim && a_has_primary a then (a, Err EPrimaryExists)
      else match di_fail di with
           | Some _ => (a, Err EReader)
           | None =>
               if (128 <? length (di_name di))%nat then (a, Err ENameTooLarge)
               else match new_extra sha256 (d_extra slot) (di_md di) (di_content di) with
                    | inr e => (a, Err e)
                    | inl extra =>
                        let t' := match di_time di with
                                  | Some z => if z =? zero_time then t else z
                                  | None => t
                                  end in
                        let d := mkD (di_type di) true (Z.of_nat i + 1) (Z.lor (di_group di) group_mask)
                                     (link_raw (di_link di)) 0 (Z.of_nat (length (di_content di))) 0
                                     t' t' 0 0 (pad_to 128 (di_name di)) extra in
                        let arch := match di_md di with
                                    | MdPart _ pt x => if pt =? PartPrimSys then x else ah_arch (as_hdr a)
                                    | _ => ah_arch (as_hdr a)
                                    end in
                        (mkAS (a_set_mtime (a_set_arch (as_hdr a) arch) t)
                              (set_nth i (d, di_content di) (as_slots a)), Ok)
                    end
           end
  end.

(* DeleteObjects: every selected object's slot becomes a free, zeroed slot *)
Definition a_del (sel : selector) (d : rdesc) : bool :=
  d_used d && match sel_eval sel d with SMatch true => true | _ => false end.

Definition a_delete (a : astate) (sel : selector) (o : topt) (now : Z) : astate * result :=
  let t := a_resolve_time (as_hdr a) o now in
  match collect (sel_eval sel) (a_descs a) with
  | inr e => (a, Err e)
  | inl [] => (a, Err ENotFound)
  | inl _ =>
      let prim_gone := existsb (fun d => a_del sel d && is_partition_of_type d PartPrimSys) (a_descs a) in
      let h1 := if prim_gone then a_set_arch (as_hdr a) arch_unknown else as_hdr a in
      (mkAS (a_set_mtime h1 t)
            (map (fun sl => if a_del sel (fst sl) then (zero_desc, []) else sl) (as_slots a)), Ok)
  end.

Definition a_update (a : astate) (i : nat) (f : rdesc -> rdesc) : list (rdesc * list byte) :=
  match nth_error (as_slots a) i with
  | Some (d, c) => set_nth i (f d, c) (as_slots a)
  | None => as_slots a
  end.

(* SetMetadata *)
Definition a_setmeta (a : astate) (id : Z) (md : metadata) (o : topt) (now : Z) : astate * result :=
  let t := a_resolve_time (as_hdr a) o now in
  match find_one (sel_eval (SID id)) (a_descs a) with
  | inr e => (a, Err e)
  | inl (i, d) =>
      match new_extra sha256 (d_extra d) md [] with
      | inr e => (a, Err e)
      | inl extra =>
          (mkAS (a_set_mtime (as_hdr a) t) (a_update a i (fun d => set_extra_mtime d extra t)), Ok)
      end
  end.

(* SetOCIBlobDigest *)
Definition a_setoci (a : astate) (id : Z) (text : list byte) (o : topt) (now : Z) : astate * result :=
  match find_one (sel_eval (SID id)) (a_descs a) with
  | inr e => (a, Err e)
  | inl (i, d) =>
      if negb (is_oci_type (d_type d)) then (a, Err EUnexpectedType)
      else a_setmeta a id (MdRaw text) o now
  end.

(* SetPrimPart *)
Definition a_setprim (a : astate) (id : Z) (o : topt) (now : Z) : astate * result :=
  let t := a_resolve_time (as_hdr a) o now in
  match find_one (sel_eval (SID id)) (a_descs a) with
  | inr e => (a, Err e)
  | inl (i, d) =>
      if negb (d_type d =? DataPartition) then (a, Err ENotPartition)
      else if part_type (d_extra d) =? PartPrimSys then (a, Ok)
      else if negb (part_type (d_extra d) =? PartSystem) then (a, Err ENotSystem)
      else
        let demoted :=
          match find_one (sel_eval (SPartType PartPrimSys)) (a_descs a) with
          | inl (j, _) => inl (mkAS (as_hdr a) (a_update a j (fun dj => with_parttype dj PartSystem t)))
          | inr ENotFound => inl a
          | inr e => inr e
          end in
        match demoted with
        | inr e => (a, Err e)
        | inl a1 =>
            (mkAS (a_set_mtime (a_set_arch (as_hdr a) (part_arch (d_extra d))) t)
                  (a_update a1 i (fun d => with_parttype d PartPrimSys t)), Ok)
        end
  end.

Definition a_step (a : astate) (x : op) : astate * result :=
  match x with
  | OpAdd di o now => a_add a di o now
  | OpDelete sel _ _ o now => a_delete a sel o now      (* zeroing and compaction are invisible here *)
  | OpSetPrim id o now => a_setprim a id o now
  | OpSetMeta id md o now => a_setmeta a id md o now
  | OpSetOCI id text o now => a_setoci a id text o now
  | OpReload => (a, Ok)
  end.

End WithDigest.

(* ---------- the abstraction function ---------- *)

Definition abs_hdr (h : header) : ahdr := mkAH (h_launch h) (h_id h) (h_arch h) (h_ctime h) (h_mtime h).

Definition obj_content (d : rdesc) (st : store) : list byte :=
  if d_used d then nread (Z.to_nat (d_off d)) (Z.to_nat (d_size d)) st else [].

Definition abs (s : state) : astate :=
  mkAS (abs_hdr (m_hdr (s_mem s)))
       (map (fun d => (erase d, obj_content d (f_bytes (s_io s)))) (m_rds (s_mem s))).

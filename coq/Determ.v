(* Determ.v — clock and random-ID independence (C12). *)
From Coq Require Import List ZArith Lia Bool.
From Coq.Init Require Import Byte.
From Sif Require Import Bytes BytesFacts Store Format Image ImageFacts SelectFacts Machine
     Inv InvSet InvDelete InvAdd InvLoad InvCreate Reach.
Import ListNotations.
Local Open Scope Z_scope.

(* ---------- operations: the clock reading is an input ---------- *)

Definition set_now (n : Z) (x : op) : op :=
  match x with
  | OpAdd di o _ => OpAdd di o n
  | OpDelete sel z c o _ => OpDelete sel z c o n
  | OpSetPrim id o _ => OpSetPrim id o n
  | OpSetMeta id md o _ => OpSetMeta id md o n
  | OpSetOCI id t o _ => OpSetOCI id t o n
  | OpReload => OpReload
  end.

Definition topt_of (x : op) : option topt :=
  match x with
  | OpAdd _ o _ | OpDelete _ _ _ o _ | OpSetPrim _ o _ | OpSetMeta _ _ o _ | OpSetOCI _ _ o _ => Some o
  | OpReload => None
  end.

(* the operation carries the deterministic option or an explicit time, or is
   applied to an image that is deterministic at that point *)
Definition clock_free (h : header) (x : op) : Prop :=
  match topt_of x with
  | Some TDefault => is_deterministic h = true
  | _ => True
  end.

Lemma resolve_time_clock_free h o n1 n2 :
  match o with TDefault => is_deterministic h = true | _ => True end ->
  resolve_time h o n1 = resolve_time h o n2.
Proof. destruct o; cbn; intro H; [now rewrite H | reflexivity | reflexivity]. Qed.

Section WithDigest.
Variable sha256 : list byte -> list byte.

Lemma plan_op_clock_free m x n1 n2 :
  clock_free (m_hdr m) x ->
  plan_op sha256 m (set_now n1 x) = plan_op sha256 m (set_now n2 x).
Proof.
  intro H. destruct x; cbn [set_now plan_op]; unfold clock_free in H; cbn [topt_of] in H.
  - unfold plan_add. now rewrite (resolve_time_clock_free (m_hdr m) o n1 n2 H).
  - unfold plan_delete. now rewrite (resolve_time_clock_free (m_hdr m) o n1 n2 H).
  - unfold plan_setprim. now rewrite (resolve_time_clock_free (m_hdr m) o n1 n2 H).
  - unfold plan_setmeta. now rewrite (resolve_time_clock_free (m_hdr m) o n1 n2 H).
  - unfold plan_setoci, plan_setmeta. now rewrite (resolve_time_clock_free (m_hdr m) o n1 n2 H).
  - reflexivity.
Qed.

Lemma step_clock_free s x n1 n2 :
  clock_free (m_hdr (s_mem s)) x ->
  step sha256 s (set_now n1 x) = step sha256 s (set_now n2 x).
Proof.
  intro H. destruct x; cbn [set_now]; try reflexivity;
    unfold step; match goal with |- context [plan_op sha256 ?m (?c _)] => idtac end.
  all: try (pose proof (plan_op_clock_free (s_mem s) _ n1 n2 H) as E; cbn [set_now] in E; now rewrite E).
Qed.

(* a history in which every operation is clock-free in the state it meets *)
Fixpoint clock_free_run (s : state) (ops : list op) : Prop :=
  match ops with
  | [] => True
  | x :: r => clock_free (m_hdr (s_mem s)) x /\ clock_free_run (fst (step sha256 s (set_now 0 x))) r
  end.

(* the same operations, the k-th one performed when the clock reads clk k *)
Fixpoint retime (clk : list Z) (ops : list op) : list op :=
  match ops with
  | [] => []
  | x :: r => set_now (hd 0 clk) x :: retime (tl clk) r
  end.

Theorem run_clock_independent ops : forall s clk1 clk2,
  clock_free_run s ops ->
  run sha256 s (retime clk1 ops) = run sha256 s (retime clk2 ops).
Proof.
  induction ops as [|x r IH]; intros s clk1 clk2 H; cbn [retime run]; [reflexivity|].
  destruct H as [Hx Hr].
  rewrite (step_clock_free s x (hd 0 clk1) 0 Hx), (step_clock_free s x (hd 0 clk2) 0 Hx).
  destruct (step sha256 s (set_now 0 x)) as [s1 res]. cbn [fst] in Hr.
  now rewrite (IH s1 (tl clk1) (tl clk2) Hr).
Qed.

End WithDigest.

(* ---------- creation: clock and random ID are inputs ---------- *)

Definition sets_id (o : copt) : bool :=
  match o with CODeterministic | COWithID _ => true | _ => false end.
Definition sets_time (o : copt) : bool :=
  match o with CODeterministic | COWithTime _ => true | _ => false end.

(* two option records that agree except (possibly) on ID and time *)
Definition agree (ai at_ : bool) (a b : copts) : Prop :=
  co_launch a = co_launch b /\ co_cap a = co_cap b /\ co_dis a = co_dis b /\
  (ai = true -> co_id a = co_id b) /\ (at_ = true -> co_time a = co_time b).

Lemma apply_copt_agree ai at_ a b o :
  agree ai at_ a b -> agree (ai || sets_id o) (at_ || sets_time o) (apply_copt a o) (apply_copt b o).
Proof.
  intros (H1 & H2 & H3 & H4 & H5). destruct o; cbn; unfold agree; cbn;
    rewrite ?orb_true_r, ?orb_false_r; repeat split; auto; congruence.
Qed.

Lemma fold_copt_agree opts : forall ai at_ a b,
  agree ai at_ a b ->
  agree (ai || existsb sets_id opts) (at_ || existsb sets_time opts)
        (fold_left apply_copt opts a) (fold_left apply_copt opts b).
Proof.
  induction opts as [|o r IH]; intros ai at_ a b H; cbn [fold_left existsb].
  - now rewrite !orb_false_r.
  - specialize (IH _ _ _ _ (apply_copt_agree ai at_ a b o H)).
    now rewrite <- !orb_assoc in IH.
Qed.

(* if the options fix the ID and the time (the deterministic option, or both
   an explicit ID and an explicit time), creation does not depend on the clock
   or on the random source *)
Theorem resolve_copts_independent opts now1 rnd1 now2 rnd2 :
  existsb sets_id opts = true -> existsb sets_time opts = true ->
  resolve_copts opts now1 rnd1 = resolve_copts opts now2 rnd2.
Proof.
  intros Hi Ht. unfold resolve_copts.
  pose proof (fold_copt_agree opts false false (mkCO [] rnd1 default_capacity now1 [])
                (mkCO [] rnd2 default_capacity now2 [])) as A.
  rewrite Hi, Ht in A. cbn [orb] in A.
  destruct A as (A1 & A2 & A3 & A4 & A5); [unfold agree; cbn; repeat split; auto; discriminate|].
  specialize (A4 eq_refl). specialize (A5 eq_refl).
  destruct (fold_left apply_copt opts _), (fold_left apply_copt opts _); cbn in *; congruence.
Qed.

(* the deterministic option, not overridden afterwards, gives the nil ID and the zero time *)
Theorem resolve_copts_deterministic pre post now rnd :
  existsb sets_id post = false -> existsb sets_time post = false ->
  co_id (resolve_copts (pre ++ CODeterministic :: post) now rnd) = nil_uuid /\
  co_time (resolve_copts (pre ++ CODeterministic :: post) now rnd) = zero_time.
Proof.
  intros Hi Ht. unfold resolve_copts. rewrite fold_left_app. cbn [fold_left].
  set (c := apply_copt _ CODeterministic).
  assert (G : forall opts a, existsb sets_id opts = false -> existsb sets_time opts = false ->
                co_id (fold_left apply_copt opts a) = co_id a /\
                co_time (fold_left apply_copt opts a) = co_time a).
  { clear. induction opts as [|o r IH]; intros a Hi Ht; cbn in *; [auto|].
    apply orb_false_iff in Hi as [Hi1 Hi2]. apply orb_false_iff in Ht as [Ht1 Ht2].
    destruct (IH (apply_copt a o) Hi2 Ht2) as [E1 E2]. rewrite E1, E2.
    destruct o; cbn in *; try discriminate; auto. }
  destruct (G post c Hi Ht) as [E1 E2]. rewrite E1, E2. unfold c. cbn. auto.
Qed.

(* ---------- deterministic images keep zero times ---------- *)

(* no time is supplied explicitly *)
Definition no_explicit_time (x : op) : Prop :=
  match x with
  | OpAdd di o _ => (o = TDeterministic \/ o = TDefault) /\ (di_time di = None \/ di_time di = Some zero_time)
  | OpDelete _ _ _ o _ | OpSetPrim _ o _ | OpSetMeta _ _ o _ | OpSetOCI _ _ o _ => o = TDeterministic \/ o = TDefault
  | OpReload => True
  end.

(* nil image ID and every time field of the header and of every live object zero *)
Definition zero_times (m : mem) : Prop :=
  is_deterministic (m_hdr m) = true /\
  forall d, In d (m_rds m) -> d_used d = true -> d_ctime d = zero_time /\ d_mtime d = zero_time.

Lemma det_resolve h o now :
  is_deterministic h = true -> o = TDeterministic \/ o = TDefault -> resolve_time h o now = zero_time.
Proof. intros D [-> | ->]; cbn; [reflexivity | now rewrite D]. Qed.

Lemma det_set_mtime h : is_deterministic h = true -> is_deterministic (set_mtime h zero_time) = true.
Proof.
  unfold is_deterministic, set_mtime. cbn. intro H.
  apply andb_true_iff in H as [H _]. rewrite H. reflexivity.
Qed.

Lemma det_hdr h h' :
  is_deterministic h = true -> h_id h' = h_id h -> h_ctime h' = h_ctime h -> h_mtime h' = zero_time ->
  is_deterministic h' = true.
Proof.
  unfold is_deterministic. intros D E1 E2 E3. rewrite E1, E2, E3.
  apply andb_true_iff in D as [D1 _]. rewrite D1. reflexivity.
Qed.

Lemma op_eq_reload x : x = OpReload \/ x <> OpReload.
Proof. destruct x; [right|right|right|right|right|left]; congruence. Qed.

Section WithDigest2.
Variable sha256 : list byte -> list byte.

Lemma plan_keeps_zero_times m x m' r evs :
  zero_times m -> no_explicit_time x -> x <> OpReload ->
  plan_op sha256 m x = (m', r, evs) -> zero_times m'.
Proof.
  intros [D Z] N NR. destruct x; cbn [plan_op no_explicit_time] in *; try congruence.
  - (* add *)
    destruct N as [No Nt]. unfold plan_add. rewrite (det_resolve _ _ now D No).
    destruct (plan_write_object sha256 _ di zero_time m) as [[m1 r1] e1] eqn:P.
    pose proof (write_object_shape sha256 _ _ _ _ _ _ _ P) as Sh. cbv zeta in Sh.
    destruct r1.
    + destruct Sh as (slot & off & extra & _ & _ & _ & _ & _ & _ & _ & M1).
      unfold finish. intros [= <- <- <-]. rewrite M1. cbn [m_hdr m_rds]. split.
      * apply (det_hdr (m_hdr m)); auto.
      * intros d Hin Hu. apply In_set_nth in Hin as [->|Hin]; [|now apply Z].
        unfold new_desc. cbn. destruct Nt as [-> | ->]; cbn; auto.
    + destruct Sh as [-> _]. intros [= <- <- <-]. split; assumption.
  - (* delete *)
    unfold plan_delete. rewrite (det_resolve _ _ now D N).
    destruct (collect (sel_eval sel) (m_rds m)) as [[|y l]|e]; try (intros [= <- <- <-]; split; assumption).
    pose proof (delete_loop_spec sel zero (m_rds m) (m_hdr m) []) as LS.
    destruct (delete_loop sel zero (m_rds m) (m_hdr m) []) as [[h1 rds1] e1].
    destruct LS as (E1 & _ & _ & _ & _ & _ & _ & E8 & E9 & _).
    intros [= <- <- <-]. cbn [m_hdr m_rds]. split.
    + apply (det_hdr (m_hdr m)); auto; destruct compact; cbn; auto.
    + intros d Hin Hu. subst rds1. destruct (in_after_del_used _ _ _ Hin Hu) as [Hin' _]. now apply Z.
  - (* setprim *)
    unfold plan_setprim. rewrite (det_resolve _ _ now D N).
    destruct (find_one (sel_eval (SID id)) (m_rds m)) as [[i d]|e] eqn:F;
      [|intros [= <- <- <-]; split; assumption].
    destruct (negb (d_type d =? DataPartition)); [intros [= <- <- <-]; split; assumption|].
    destruct (part_type (d_extra d) =? PartPrimSys); [intros [= <- <- <-]; split; assumption|].
    destruct (negb (part_type (d_extra d) =? PartSystem)); [intros [= <- <- <-]; split; assumption|].
    pose proof (find_one_used _ _ _ _ F) as [Ni Ui].
    assert (Zd : forall x, In x (m_rds m) -> d_used x = true ->
                 forall pt, d_ctime (with_parttype x pt zero_time) = zero_time /\
                            d_mtime (with_parttype x pt zero_time) = zero_time).
    { intros x Hx Hu pt. destruct (Z x Hx Hu) as [C _]. unfold with_parttype, set_extra_mtime. cbn. auto. }
    destruct (find_one (sel_eval (SPartType PartPrimSys)) (m_rds m)) as [[j dj]|e] eqn:F2.
    + pose proof (find_one_used _ _ _ _ F2) as [Nj Uj].
      intros [= <- <- <-]. cbn [m_hdr m_rds]. split.
      * apply (det_hdr (m_hdr m)); auto.
      * intros x Hin Hu. apply In_set_nth in Hin as [->|Hin].
        -- apply Zd; [eapply nth_error_In; eauto | exact Ui].
        -- apply In_set_nth in Hin as [->|Hin]; [|now apply Z].
           apply Zd; [eapply nth_error_In; eauto | exact Uj].
    + destruct e; try (intros [= <- <- <-]; split; assumption).
      intros [= <- <- <-]. cbn [m_hdr m_rds]. split.
      * apply (det_hdr (m_hdr m)); auto.
      * intros x Hin Hu. apply In_set_nth in Hin as [->|Hin]; [|now apply Z].
        apply Zd; [eapply nth_error_In; eauto | exact Ui].
  - (* setmeta *)
    unfold plan_setmeta. rewrite (det_resolve _ _ now D N).
    destruct (find_one (sel_eval (SID id)) (m_rds m)) as [[i d]|e] eqn:F;
      [|intros [= <- <- <-]; split; assumption].
    destruct (new_extra sha256 (d_extra d) md []); [|intros [= <- <- <-]; split; assumption].
    pose proof (find_one_used _ _ _ _ F) as [Ni Ui].
    unfold finish. intros [= <- <- <-]. cbn [m_hdr m_rds]. split; [now apply det_set_mtime|].
    intros x Hin Hu. apply In_set_nth in Hin as [->|Hin]; [|now apply Z].
    destruct (Z d (nth_error_In _ _ Ni) Ui) as [C _]. unfold set_extra_mtime. cbn. auto.
  - (* setoci *)
    unfold plan_setoci.
    destruct (find_one (sel_eval (SID id)) (m_rds m)) as [[i d]|e] eqn:F;
      [|intros [= <- <- <-]; split; assumption].
    destruct (negb (is_oci_type (d_type d))); [intros [= <- <- <-]; split; assumption|].
    unfold plan_setmeta. rewrite F, (det_resolve _ _ now D N).
    destruct (new_extra sha256 (d_extra d) (MdRaw text) []); [|intros [= <- <- <-]; split; assumption].
    pose proof (find_one_used _ _ _ _ F) as [Ni Ui].
    unfold finish. intros [= <- <- <-]. cbn [m_hdr m_rds]. split; [now apply det_set_mtime|].
    intros x Hin Hu. apply In_set_nth in Hin as [->|Hin]; [|now apply Z].
    destruct (Z d (nth_error_In _ _ Ni) Ui) as [C _]. unfold set_extra_mtime. cbn. auto.
Qed.

Theorem step_keeps_zero_times s x s' r :
  Inv s -> zero_times (s_mem s) -> no_explicit_time x ->
  step sha256 s x = (s', r) -> zero_times (s_mem s').
Proof.
  intros I Zt N St. destruct (op_eq_reload x) as [->|NR].
  - rewrite (reload_identity sha256 s I) in St. inversion St; subst. exact Zt.
  - unfold step in St. destruct x; try congruence;
      (destruct (plan_op sha256 (s_mem s) _) as [[m' r'] evs] eqn:P;
       pose proof (plan_keeps_zero_times _ _ _ _ _ Zt N NR P) as Z';
       unfold exec in St; destruct (run_events (s_backend s) evs (s_io s)) as [io' [|]];
       inversion St; subst; exact Z').
Qed.

End WithDigest2.

(* ---------- explicit times appear where documented ---------- *)

Section WithDigest3.
Variable sha256 : list byte -> list byte.

(* a successful modifying operation stamps the header modification time with
   the requested time and leaves image ID and creation time alone *)
Lemma plan_stamps_header m x m' evs o now :
  topt_of x = Some o -> x = set_now now x ->
  plan_op sha256 m x = (m', Ok, evs) -> evs <> [] ->
  h_mtime (m_hdr m') = resolve_time (m_hdr m) o now /\
  h_ctime (m_hdr m') = h_ctime (m_hdr m) /\ h_id (m_hdr m') = h_id (m_hdr m).
Proof.
  intros To Sn. destruct x; cbn [topt_of set_now] in *; try discriminate;
    injection To as <-; injection Sn as <-; cbn [plan_op].
  - unfold plan_add. destruct (plan_write_object sha256 _ di _ m) as [[m1 r1] e1] eqn:P.
    pose proof (write_object_shape sha256 _ _ _ _ _ _ _ P) as Sh. cbv zeta in Sh.
    destruct r1; [|discriminate].
    destruct Sh as (slot & off & extra & _ & _ & _ & _ & _ & _ & _ & M1).
    unfold finish. intros [= <- <-] _. rewrite M1. cbn. auto.
  - unfold plan_delete.
    destruct (collect (sel_eval sel) (m_rds m)) as [[|y l]|e]; try discriminate.
    pose proof (delete_loop_spec sel zero (m_rds m) (m_hdr m) []) as LS.
    destruct (delete_loop sel zero (m_rds m) (m_hdr m) []) as [[h1 rds1] e1].
    destruct LS as (_ & _ & _ & _ & _ & _ & _ & E8 & E9 & _).
    intros [= <- <-] _. destruct compact; cbn; rewrite E8, E9; auto.
  - unfold plan_setprim.
    destruct (find_one (sel_eval (SID id)) (m_rds m)) as [[i d]|e]; [|discriminate].
    destruct (negb (d_type d =? DataPartition)); [discriminate|].
    destruct (part_type (d_extra d) =? PartPrimSys); [intros [= <- <-] H; congruence|].
    destruct (negb (part_type (d_extra d) =? PartSystem)); [discriminate|].
    destruct (match find_one (sel_eval (SPartType PartPrimSys)) (m_rds m) with
              | inl (j, dj) => _ | inr ENotFound => _ | inr _ => _ end); [|discriminate].
    intros [= <- <-] _. cbn. auto.
  - unfold plan_setmeta.
    destruct (find_one (sel_eval (SID id)) (m_rds m)) as [[i d]|e]; [|discriminate].
    destruct (new_extra sha256 (d_extra d) md []); [|discriminate].
    unfold finish. intros [= <- <-] _. cbn. auto.
  - unfold plan_setoci.
    destruct (find_one (sel_eval (SID id)) (m_rds m)) as [[i d]|e] eqn:F; [|discriminate].
    destruct (negb (is_oci_type (d_type d))); [discriminate|].
    unfold plan_setmeta. rewrite F.
    destruct (new_extra sha256 (d_extra d) (MdRaw text) []); [|discriminate].
    unfold finish. intros [= <- <-] _. cbn. auto.
Qed.

End WithDigest3.

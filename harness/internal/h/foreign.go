package h

import (
	"encoding/binary"
	"math"
	"os"
	"path/filepath"
	"sort"
)

// Images "written by someone else": built with the independent encoder of spec.go.

type ForeignParams struct {
	MaxCap  int
	Ops     int
	Queries int
}

// GenForeignImage builds a well-formed image: any unique ID numbering (slot order unless
// freeIDs), free slots anywhere, leftover bytes in unused slots, objects placed in any order.
func GenForeignImage(r *Rng, maxCap int, freeIDs bool) ([]byte, *imgView) {
	capacity := r.Intn(maxCap + 1)
	descOff := Pick(r, []int64{4096, 4096, 4096, 128, 200, 5000})
	descSize := int64(capacity) * DescSize
	if r.Chance(1, 8) {
		descSize += int64(r.Intn(700))
	}
	dataOff := descOff + descSize
	if r.Chance(1, 3) {
		dataOff += int64(Pick(r, []int{1, 100, 4096, 32768 - 4096 - 48*585}))
		if dataOff < descOff+descSize {
			dataOff = descOff + descSize
		}
	}
	var h SHeader
	copy(h.Launch[:], "#!/usr/bin/env run-singularity\n")
	if r.Chance(1, 3) {
		h.Launch = [32]byte{}
	}
	copy(h.Magic[:], Magic)
	copy(h.Version[:], Version01)
	copy(h.Arch[:], "00\x00")
	if r.Chance(2, 3) {
		for i := range h.ID {
			h.ID[i] = byte(r.U64())
		}
	}
	h.Ctime = Pick(r, []int64{ZeroTime, 0, 1504657553, 1700000000})
	h.Mtime = h.Ctime
	if r.Chance(1, 2) {
		h.Mtime = Pick(r, []int64{ZeroTime, 1504657653, 1700000100})
	}
	h.Total, h.DescOff, h.DescSize, h.DataOff = int64(capacity), descOff, descSize, dataOff

	descs := make([]SDesc, capacity)
	used := make([]bool, capacity)
	var order []int
	for i := range descs {
		used[i] = r.Chance(3, 5)
		if used[i] {
			order = append(order, i)
		}
	}
	// unique IDs
	ids := map[int]uint32{}
	if freeIDs {
		pool := r.Fork()
		seen := map[uint32]bool{}
		for _, i := range order {
			id := uint32(1 + pool.Intn(3*capacity+3))
			for seen[id] {
				id = uint32(1 + pool.Intn(3*capacity+3))
			}
			seen[id] = true
			ids[i] = id
		}
	} else {
		for _, i := range order {
			ids[i] = uint32(i + 1)
		}
	}
	// placement order
	for i := len(order) - 1; i > 0; i-- {
		j := r.Intn(i + 1)
		order[i], order[j] = order[j], order[i]
	}
	v := &imgView{cap: capacity}
	cursor := dataOff
	var blobs []struct {
		off int64
		b   []byte
	}
	havePrim := false
	for _, i := range order {
		var di DInput
		di.Type = Pick(r, AllDataTypes)
		n := Pick(r, sizePoolSmall)
		di.Content = GenContent(r, n)
		if a := int64(Pick(r, []int{1, 1, 2, 16, 512, 4096})); cursor%a != 0 {
			cursor += a - cursor%a
		}
		cursor += int64(r.Intn(3)) * int64(r.Intn(40)) // gaps
		d := SDesc{Type: di.Type, Used: true, UsedByte: 1, ID: ids[i]}
		if r.Chance(1, 20) {
			d.UsedByte = byte(2 + r.Intn(250))
		}
		g := Pick(r, []uint32{0, 1, 1, 2, 3, 0x0fffffff})
		d.Group = g | GroupMask
		di.GroupOpt, di.Group = 2, g
		if g == 0 {
			di.GroupOpt = 1
		}
		switch r.Intn(6) {
		case 0:
			di.Link, di.LinkID = LObject, uint32(1+r.Intn(capacity+1))
			d.Link = di.LinkID
		case 1:
			di.Link, di.LinkID = LGroup, uint32(1+r.Intn(3))
			d.Link = di.LinkID | GroupMask
		}
		d.Off, d.Size = cursor, int64(n)
		d.SizePad = int64(n) + int64(r.Intn(20))
		d.Ctime = Pick(r, []int64{ZeroTime, 1504657553, 1700000000})
		d.Mtime = d.Ctime
		if r.Chance(1, 6) {
			d.UID, d.GID = 1000, 1000
		}
		name, set := genName(r)
		if len(name) > 128 {
			name = name[:128]
		}
		copy(d.Name[:], name)
		di.Name, di.NameSet = name, set
		md, mset := genMeta(r, di.Type, !havePrim)
		if md.Kind == MdPart && md.Pt == 2 {
			if havePrim {
				md.Pt = 1
			} else {
				havePrim = true
				copy(h.Arch[:], ArchBytes(md.Arch))
			}
		}
		if md.Kind == MdRaw && di.Type == DataPartition {
			mset = false // keep the image well formed (no accidental primaries)
		}
		di.Md, di.MdSet = md, mset
		if ex, ok := expectedExtra(di); ok && !(md.Kind == MdRaw && len(md.Raw) > 384) {
			copy(d.Extra[:], ex)
		}
		descs[i] = d
		blobs = append(blobs, struct {
			off int64
			b   []byte
		}{cursor, di.Content})
		cursor += int64(n)
		v.note(di, d.ID)
	}
	end := dataOff
	for _, b := range blobs {
		if e := b.off + int64(len(b.b)); e > end {
			end = e
		}
	}
	h.DataSize = end - dataOff
	if r.Chance(1, 6) {
		h.DataSize += int64(r.Intn(5000)) // declared section larger than needed
	}
	nfree := int64(0)
	for i := range descs {
		if !used[i] {
			nfree++
			if r.Chance(1, 3) { // leftover bytes in an unused slot
				g := GenContent(r, DescSize)
				g[4] = 0
				descs[i] = DecodeDesc(g)
			}
		}
	}
	h.Free = nfree

	size := end
	if t := descOff + descSize; t > size {
		size = t
	}
	if r.Chance(1, 5) {
		size += int64(r.Intn(300)) // trailing bytes after the last object
	}
	img := make([]byte, size)
	if r.Chance(1, 4) { // leftover bytes in gaps
		g := GenContent(r, int(size))
		copy(img, g)
	}
	copy(img, EncodeHeader(h))
	for i, d := range descs {
		copy(img[descOff+int64(i)*DescSize:], EncodeDesc(d))
	}
	for i := descOff + int64(capacity)*DescSize; i < dataOff && i < size; i++ {
		// between table and data: anything
	}
	for _, b := range blobs {
		copy(img[b.off:], b.b)
	}
	sort.Slice(v.ids, func(a, b int) bool { return false })
	return img, v
}

// GenForeignCase: load a foreign image, then run operations and queries on it.
func GenForeignCase(r *Rng, id int, backend string, p ForeignParams) Case {
	freeIDs := r.Chance(1, 4)
	img, v := GenForeignImage(r, p.MaxCap, freeIDs)
	c := Case{ID: id, Backend: backend, LoadBytes: img, ForeignIDs: freeIDs}
	c.InitQueries = GenQueries(r, v, p.Queries)
	gp := GenParams{Backend: backend, Queries: p.Queries}
	n := r.Intn(p.Ops + 1)
	if freeIDs && len(v.ids) > 0 && r.Chance(1, 2) {
		// an image whose IDs do not follow the slots, modified the way a writer would: add, delete
		// the object of the first slot, add twice (whatever the handle remembers about free slots
		// or IDs must hold for such images too)
		small := func() DInput {
			return DInput{Type: DataGeneric, Content: GenContent(r, 1+r.Intn(40)), FailAfter: -1, GroupOpt: r.Intn(2)}
		}
		ops := []Op{
			{Kind: OpAdd, DI: small(), T: genTOpt(r, gp)},
			{Kind: OpDelete, ByID: true, Sel: Selector{Kind: SID, N: int64(v.ids[0])}, T: genTOpt(r, gp)},
			{Kind: OpAdd, DI: small(), T: genTOpt(r, gp)},
			{Kind: OpAdd, DI: small(), T: genTOpt(r, gp)},
			{Kind: OpSetMeta, ID: v.ids[len(v.ids)-1], Md: Meta{Kind: MdRaw, Raw: GenContent(r, 8)}, T: genTOpt(r, gp)},
		}
		for _, op := range ops {
			c.Steps = append(c.Steps, Step{Op: op, Queries: GenQueries(r, v, p.Queries)})
		}
		return c
	}
	for i := 0; i < n; i++ {
		op := GenOp(r, gp, v)
		c.Steps = append(c.Steps, Step{Op: op, Queries: GenQueries(r, v, p.Queries)})
	}
	return c
}

func put64(b []byte, off int, v int64) { binary.LittleEndian.PutUint64(b[off:], uint64(v)) }

// HeaderMutants returns variants of img with one header field replaced by a boundary value.
func HeaderMutants(r *Rng, img []byte) [][]byte {
	var out [][]byte
	mut := func(f func(b []byte)) {
		b := append([]byte(nil), img...)
		f(b)
		out = append(out, b)
	}
	// magic and version: every byte
	for i := 32; i < 45; i++ {
		i := i
		mut(func(b []byte) { b[i] ^= byte(1 << uint(r.Intn(8))) })
		if i >= 42 {
			mut(func(b []byte) { b[i] = Pick(r, []byte{0, '0', '1', '2', 'A', 0xff}) })
		}
	}
	total := int64(binary.LittleEndian.Uint64(img[88:]))
	n := int64(len(img))
	for _, v := range []int64{-1, 0, total - 1, total + 1, 1 << 31, 1 << 40, math.MaxInt64, math.MinInt64, math.MaxInt64/585 + 1, math.MaxInt64 / 585} {
		v := v
		mut(func(b []byte) { put64(b, 88, v) })
	}
	for _, v := range []int64{-1, 0, 584, total*585 - 1, total * 585, total*585 + 1, 1 << 40, math.MaxInt64, math.MinInt64} {
		v := v
		mut(func(b []byte) { put64(b, 104, v) })
	}
	for _, v := range []int64{-1, 0, 1, 127, n - 1, n, n + 1, 1 << 40, math.MaxInt64, math.MinInt64, math.MaxInt64 - 584} {
		v := v
		mut(func(b []byte) { put64(b, 96, v) })
	}
	// pairs: count and size together
	for _, v := range []int64{1 << 40, math.MaxInt64 / 585} {
		v := v
		mut(func(b []byte) { put64(b, 88, v); put64(b, 104, v*585) })
	}
	// truncated files
	for _, k := range []int{0, 1, 127, 128, 129, int(n) / 2, int(n) - 1} {
		if k >= 0 && k < len(img) {
			out = append(out, append([]byte(nil), img[:k]...))
		}
	}
	return out
}

// CorpusImages returns the images shipped with the repository.
func CorpusImages(repo string) (names []string, imgs [][]byte) {
	files, _ := filepath.Glob(filepath.Join(repo, "test", "images", "*.sif"))
	sort.Strings(files)
	for _, f := range files {
		b, err := os.ReadFile(f)
		if err != nil {
			panic(err)
		}
		names = append(names, filepath.Base(f))
		imgs = append(imgs, b)
	}
	return
}

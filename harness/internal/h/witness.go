package h

import (
	"bytes"
	"fmt"
	"strings"

	v1 "github.com/google/go-containerregistry/pkg/v1"
	"github.com/sylabs/sif/v2/pkg/sif"
)

// Witnesses of the known findings (known_findings.json): each replays the committed failing
// input on the real library and reports whether the property still fails on it.

func mustCreate(b *sif.Buffer, capacity int64, dis ...sif.DescriptorInput) *sif.FileImage {
	f, err := sif.CreateContainer(b, sif.OptCreateDeterministic(), sif.OptCreateWithDescriptorCapacity(capacity),
		sif.OptCreateWithDescriptors(dis...), sif.OptCreateWithCloseOnUnload(false))
	if err != nil {
		panic(err)
	}
	return f
}

func mustDI(t sif.DataType, content string, opts ...sif.DescriptorInputOpt) sif.DescriptorInput {
	di, err := sif.NewDescriptorInput(t, strings.NewReader(content), opts...)
	if err != nil {
		panic(err)
	}
	return di
}

// Witness runs the named witness; it returns true when the finding still reproduces.
func Witness(name string) (fails bool, detail string) {
	defer func() {
		if r := recover(); r != nil {
			fails, detail = true, fmt.Sprintf("panic: %v", r)
		}
	}()
	switch name {
	case "F8":
		var b sif.Buffer
		f := mustCreate(&b, 2, mustDI(sif.DataGeneric, "abc"))
		ds, err := f.GetDescriptors(sif.WithDataType(sif.DataDeffile), sif.WithID(0))
		return err == nil, fmt.Sprintf("GetDescriptors(WithDataType(absent), WithID(0)) = %d descriptors, err=%v", len(ds), err)
	case "F7":
		var b sif.Buffer
		f := mustCreate(&b, 2, mustDI(sif.DataPartition, "abc", sif.OptPartitionMetadata(sif.FsSquash, sif.PartPrimSys, "amd64")))
		raw := make([]byte, 11)
		raw[0], raw[4] = 1, 1 // fstype squash, parttype System
		copy(raw[8:], "02\x00")
		if err := f.SetMetadata(1, rawMarshaler(raw), sif.OptSetDeterministic()); err != nil {
			return false, err.Error()
		}
		_, err := f.GetDescriptor(sif.WithPartitionType(sif.PartPrimSys))
		return err != nil && f.PrimaryArch() == "amd64",
			fmt.Sprintf("after raw SetMetadata no primary partition exists (%v) but PrimaryArch()=%s", err, f.PrimaryArch())
	case "F11":
		var b sif.Buffer
		f := mustCreate(&b, 2, mustDI(sif.DataOCIBlob, "abc"))
		err := f.SetOCIBlobDigest(1, v1.Hash{Algorithm: "sha256"})
		return false, fmt.Sprintf("no panic, err=%v", err)
	case "F12":
		var b sif.Buffer
		f := mustCreate(&b, 4, mustDI(sif.DataGeneric, "abc"), mustDI(sif.DataGeneric, "def"))
		err := f.DeleteObjects(BuildSelector(Selector{Kind: SCustom, Custom: CErrOnID, N: 2}))
		g, lerr := sif.LoadContainer(sif.NewBuffer(bytes.Clone(b.Bytes())), sif.OptLoadWithCloseOnUnload(false))
		if lerr != nil {
			return true, lerr.Error()
		}
		return err != nil && f.DescriptorsFree() != g.DescriptorsFree(),
			fmt.Sprintf("DeleteObjects with a selector failing on the 2nd object: err=%v, handle free=%d, file free=%d", err, f.DescriptorsFree(), g.DescriptorsFree())
	case "F4b":
		var b sif.Buffer
		if _, err := sif.CreateContainer(&b, sif.OptCreateDeterministic(), sif.OptCreateWithDescriptorCapacity(0), sif.OptCreateWithCloseOnUnload(false)); err != nil {
			return false, err.Error()
		}
		return b.Len() != 128, fmt.Sprintf("capacity-0 image on sif.Buffer is %d bytes; on a file it is 128", b.Len())
	case "F5":
		// foreign image: slot 0 free, slot 1 holds ID 1
		var b sif.Buffer
		mustCreate(&b, 2, mustDI(sif.DataGeneric, "abc"), mustDI(sif.DataGeneric, "def"))
		img := bytes.Clone(b.Bytes())
		d0 := img[4096 : 4096+585]
		d1 := img[4096+585 : 4096+2*585]
		copy(d0, make([]byte, 585)) // slot 0 unused
		d1[5], d1[6], d1[7], d1[8] = 1, 0, 0, 0
		img[80] = 1 // one free descriptor
		f, err := sif.LoadContainer(sif.NewBuffer(img), sif.OptLoadWithCloseOnUnload(false))
		if err != nil {
			return false, err.Error()
		}
		if err := f.AddObject(mustDI(sif.DataGeneric, "ghi"), sif.OptAddDeterministic()); err != nil {
			return false, err.Error()
		}
		_, err = f.GetDescriptor(sif.WithID(1))
		return err != nil, fmt.Sprintf("after AddObject on a foreign image (slot 0 free, slot 1 = ID 1): GetDescriptor(WithID(1)) -> %v", err)
	}
	return false, "unknown witness " + name
}

package h

import (
	"bytes"
	"crypto"
	"fmt"
	"strings"

	v1 "github.com/google/go-containerregistry/pkg/v1"
	"github.com/sylabs/sif/v2/pkg/sif"
)

// Witnesses of the known findings (known_findings.json): each replays the committed failing
// input on the real library and reports whether the property still fails on it.

func mustCreate(b *sif.Buffer, capacity int64, dis ...sif.DescriptorInput) *sif.FileImage {
	f, err := sif.CreateContainer(b, sif.OptCreateDeterministic(), sif.OptCreateWithDescriptorCapacity(capacity),
		sif.OptCreateWithDescriptors(dis...), sif.OptCreateWithCloseOnUnload(false))
	if err != nil {
		panic(err)
	}
	return f
}

func mustDI(t sif.DataType, content string, opts ...sif.DescriptorInputOpt) sif.DescriptorInput {
	di, err := sif.NewDescriptorInput(t, strings.NewReader(content), opts...)
	if err != nil {
		panic(err)
	}
	return di
}

// Witness runs the named witness; it returns true when the finding still reproduces.
func Witness(name string) (fails bool, detail string) {
	defer func() {
		if r := recover(); r != nil {
			fails, detail = true, fmt.Sprintf("panic: %v", r)
		}
	}()
	switch name {
	case "F8":
		var b sif.Buffer
		f := mustCreate(&b, 2, mustDI(sif.DataGeneric, "abc"))
		ds, err := f.GetDescriptors(sif.WithDataType(sif.DataDeffile), sif.WithID(0))
		return err == nil, fmt.Sprintf("GetDescriptors(WithDataType(absent), WithID(0)) = %d descriptors, err=%v", len(ds), err)
	case "F7":
		var b sif.Buffer
		f := mustCreate(&b, 2, mustDI(sif.DataPartition, "abc", sif.OptPartitionMetadata(sif.FsSquash, sif.PartPrimSys, "amd64")))
		raw := make([]byte, 11)
		raw[0], raw[4] = 1, 1 // fstype squash, parttype System
		copy(raw[8:], "02\x00")
		if err := f.SetMetadata(1, rawMarshaler(raw), sif.OptSetDeterministic()); err != nil {
			return false, err.Error()
		}
		_, err := f.GetDescriptor(sif.WithPartitionType(sif.PartPrimSys))
		return err != nil && f.PrimaryArch() == "amd64",
			fmt.Sprintf("after raw SetMetadata no primary partition exists (%v) but PrimaryArch()=%s", err, f.PrimaryArch())
	case "F11":
		var b sif.Buffer
		f := mustCreate(&b, 2, mustDI(sif.DataOCIBlob, "abc"))
		err := f.SetOCIBlobDigest(1, v1.Hash{Algorithm: "sha256"})
		return false, fmt.Sprintf("no panic, err=%v", err)
	case "F12":
		var b sif.Buffer
		f := mustCreate(&b, 4, mustDI(sif.DataGeneric, "abc"), mustDI(sif.DataGeneric, "def"))
		err := f.DeleteObjects(BuildSelector(Selector{Kind: SCustom, Custom: CErrOnID, N: 2}))
		g, lerr := sif.LoadContainer(sif.NewBuffer(bytes.Clone(b.Bytes())), sif.OptLoadWithCloseOnUnload(false))
		if lerr != nil {
			return true, lerr.Error()
		}
		return err != nil && f.DescriptorsFree() != g.DescriptorsFree(),
			fmt.Sprintf("DeleteObjects with a selector failing on the 2nd object: err=%v, handle free=%d, file free=%d", err, f.DescriptorsFree(), g.DescriptorsFree())
	case "F4b":
		var b sif.Buffer
		if _, err := sif.CreateContainer(&b, sif.OptCreateDeterministic(), sif.OptCreateWithDescriptorCapacity(0), sif.OptCreateWithCloseOnUnload(false)); err != nil {
			return false, err.Error()
		}
		return b.Len() != 128, fmt.Sprintf("capacity-0 image on sif.Buffer is %d bytes; on a file it is 128", b.Len())
	case "F5":
		// foreign image: slot 0 free, slot 1 holds ID 1
		var b sif.Buffer
		mustCreate(&b, 2, mustDI(sif.DataGeneric, "abc"), mustDI(sif.DataGeneric, "def"))
		img := bytes.Clone(b.Bytes())
		d0 := img[4096 : 4096+585]
		d1 := img[4096+585 : 4096+2*585]
		copy(d0, make([]byte, 585)) // slot 0 unused
		d1[5], d1[6], d1[7], d1[8] = 1, 0, 0, 0
		img[80] = 1 // one free descriptor
		f, err := sif.LoadContainer(sif.NewBuffer(img), sif.OptLoadWithCloseOnUnload(false))
		if err != nil {
			return false, err.Error()
		}
		if err := f.AddObject(mustDI(sif.DataGeneric, "ghi"), sif.OptAddDeterministic()); err != nil {
			return false, err.Error()
		}
		_, err = f.GetDescriptor(sif.WithID(1))
		return err != nil, fmt.Sprintf("after AddObject on a foreign image (slot 0 free, slot 1 = ID 1): GetDescriptor(WithID(1)) -> %v", err)
	case "F6", "F9", "F10", "F13":
		return integWitness(name)
	}
	return false, "unknown witness " + name
}

// integWitness replays the recorded integrity findings against the library.
func integWitness(name string) (bool, string) {
	k := LoadKeys("/repo")
	r := NewRng(7)
	switch name {
	case "F6":
		spec := BaseSpec{Scheme: "dsse", DSSEKeys: []string{"ed25519"}, TwoGroups: true}
		b := BuildUnsigned(r, true)
		if err := SignImage(k, b, spec); err != nil {
			return false, err.Error()
		}
		f, err := sif.LoadContainer(b, sif.OptLoadWithCloseOnUnload(false))
		if err != nil {
			return false, err.Error()
		}
		before := VerifyOnHandle(k, f, VOptsFor(spec))
		if err := f.DeleteObjects(sif.WithGroupID(2), sif.OptDeleteDeterministic()); err != nil {
			return false, err.Error()
		}
		obs, _ := RunVerify(k, bytes.Clone(b.Bytes()), VOptsFor(spec))
		return before == nil && obs.Accepted(),
			fmt.Sprintf("two groups signed (verify: %v); after DeleteObjects(WithGroupID(2)) default verification returns %v", before, obs.VerifyErr)
	case "F9":
		b := BuildUnsigned(r, false)
		img := bytes.Clone(b.Bytes())
		sig := ClearSign(k, 0, LegacyPlaintext(crypto.SHA384, GroupData(img, 1), true))
		if err := AddRawSignature(b, sig, 1, 0, crypto.SHA384, k.Entities[0].PrimaryKey.Fingerprint, 0); err != nil {
			return false, err.Error()
		}
		img = bytes.Clone(b.Bytes())
		vo := VOpts{PGPEntities: []int{0}, Legacy: true}
		o1, _ := RunVerify(k, img, vo)
		si, _ := DecodeImage(img)
		// objects 2 and 3 are adjacent in the file: move the last byte of 2 to the front of 3
		a, c := si.Descs[1], si.Descs[2]
		if a.Off+a.Size != c.Off {
			return false, "objects 2 and 3 are not adjacent"
		}
		oa, oc := int(si.H.DescOff)+DescSize, int(si.H.DescOff)+2*DescSize
		putLE(img, oa+25, 8, uint64(a.Size-1))
		putLE(img, oc+17, 8, uint64(c.Off-1))
		putLE(img, oc+25, 8, uint64(c.Size+1))
		o2, _ := RunVerify(k, img, vo)
		return o1.Accepted() && o2.Accepted(),
			fmt.Sprintf("legacy group signature: original verifies (%v); with the last byte of object 2 moved to the front of object 3 it still verifies (%v)", o1.VerifyErr, o2.VerifyErr)
	case "F10":
		spec := BaseSpec{Scheme: "dsse", DSSEKeys: []string{"ed25519"}}
		b := BuildUnsigned(r, false)
		if err := SignImage(k, b, spec); err != nil {
			return false, err.Error()
		}
		img := bytes.Clone(b.Bytes())
		si, _ := DecodeImage(img)
		fp := k.Entities[2].PrimaryKey.Fingerprint
		for j, d := range si.Descs {
			if d.Used && d.Type == DataSignature {
				o := int(si.H.DescOff) + j*DescSize + 201 + 4
				copy(img[o:o+20], fp)
			}
		}
		obs, _ := RunVerify(k, img, VOpts{DSSEKeys: []string{"ed25519"}, PGPEntities: []int{0, 1, 2}})
		listed := len(obs.Any) == 1 && bytes.Equal(obs.Any[0], fp)
		return obs.Accepted() && listed,
			fmt.Sprintf("DSSE signature by ed25519 with entity 2's fingerprint written into its descriptor: Verify=%v, AnySignedBy=%x", obs.VerifyErr, obs.Any)
	case "F13":
		b := BuildUnsigned(r, false)
		f, err := sif.LoadContainer(b, sif.OptLoadWithCloseOnUnload(false))
		if err != nil {
			return false, err.Error()
		}
		c1 := SignConfig{Scheme: "dsse", DSSEKeys: []string{"ed25519"}, Objects: [][]uint32{{1}}}
		c2 := SignConfig{Scheme: "dsse", DSSEKeys: []string{"ed25519"}, Objects: [][]uint32{{2}}}
		if err := SignOnHandle(k, f, c1); err != nil {
			return false, err.Error()
		}
		e1 := VerifyOnHandle(k, f, c1.VOpts())
		if err := SignOnHandle(k, f, c2); err != nil {
			return false, err.Error()
		}
		e2 := VerifyOnHandle(k, f, c1.VOpts())
		return e1 == nil && e2 != nil,
			fmt.Sprintf("object 1 signed: verify object 1 -> %v; after object 2 of the same group is signed separately: verify object 1 -> %v", e1, e2)
	}
	return false, "unknown witness " + name
}

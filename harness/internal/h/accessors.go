package h

import (
	"bytes"
	"crypto"
	"fmt"
	"io"
	"strings"

	"github.com/sylabs/sif/v2/pkg/sif"
)

// AccessorFindings compares every public accessor of a loaded image and of its descriptors with
// the values an independent decoder reads from the same bytes (C01: attributes and content are
// read back exactly; C11: an independent decoder recovers the same header values and objects).
func AccessorFindings(f *sif.FileImage, img *SImage, store []byte) []string {
	var out []string
	bad := func(format string, a ...any) { out = append(out, fmt.Sprintf(format, a...)) }
	trim := func(b []byte) string { return strings.TrimRight(string(b), "\x00") }
	hd := img.H
	if got, want := f.LaunchScript(), trim(hd.Launch[:]); got != want {
		bad("LaunchScript() = %q, header holds %q", got, want)
	}
	if got, want := f.Version(), trim(hd.Version[:]); got != want {
		bad("Version() = %q, header holds %q", got, want)
	}
	wantArch := "unknown"
	for name, code := range ArchCodes {
		if trim(hd.Arch[:]) == code {
			wantArch = name
		}
	}
	if got := f.PrimaryArch(); got != wantArch {
		bad("PrimaryArch() = %q, header holds %q (%s)", got, trim(hd.Arch[:]), wantArch)
	}
	if got, want := f.ID(), uuidString(hd.ID); got != want {
		bad("ID() = %s, header holds %s", got, want)
	}
	for _, c := range []struct {
		name      string
		got, want int64
	}{
		{"CreatedAt", f.CreatedAt().Unix(), hd.Ctime}, {"ModifiedAt", f.ModifiedAt().Unix(), hd.Mtime},
		{"DescriptorsFree", f.DescriptorsFree(), hd.Free}, {"DescriptorsTotal", f.DescriptorsTotal(), hd.Total},
		{"DescriptorsOffset", f.DescriptorsOffset(), hd.DescOff}, {"DescriptorsSize", f.DescriptorsSize(), hd.DescSize},
		{"DataOffset", f.DataOffset(), hd.DataOff}, {"DataSize", f.DataSize(), hd.DataSize},
	} {
		if c.got != c.want {
			bad("%s() = %d, header holds %d", c.name, c.got, c.want)
		}
	}
	if b, err := io.ReadAll(f.GetHeaderIntegrityReader()); err != nil || !bytes.Equal(b, headerStream(hd)) {
		bad("header integrity stream is not launch|magic|version|id (err=%v)", err)
	}
	mins := img.MinIDs()
	var used []SDesc
	for _, d := range img.Descs {
		if d.Used {
			used = append(used, d)
		}
	}
	i := 0
	f.WithDescriptors(func(d sif.Descriptor) bool {
		if i >= len(used) {
			bad("WithDescriptors visits more objects than are in use")
			i++
			return true
		}
		w := used[i]
		i++
		id := w.ID
		if d.ID() != w.ID || int32(d.DataType()) != w.Type || d.GroupID() != w.GroupID() || d.Offset() != w.Off || d.Size() != w.Size ||
			d.CreatedAt().Unix() != w.Ctime || d.ModifiedAt().Unix() != w.Mtime || d.Name() != trim(w.Name[:]) {
			bad("object %d: accessors (id %d type %#x group %d off %d size %d ctime %d mtime %d name %q) differ from the descriptor bytes",
				id, d.ID(), int32(d.DataType()), d.GroupID(), d.Offset(), d.Size(), d.CreatedAt().Unix(), d.ModifiedAt().Unix(), d.Name())
		}
		if lid, isg := d.LinkedID(); lid != w.LinkID() || isg != w.LinkIsGroup() {
			bad("object %d: LinkedID() = %d,%v, descriptor holds %d,%v", id, lid, isg, w.LinkID(), w.LinkIsGroup())
		}
		if w.Size >= 0 && w.Off >= 0 && w.Off+w.Size <= int64(len(store)) && w.Off+w.Size >= w.Off {
			want := store[w.Off : w.Off+w.Size]
			if b, err := d.GetData(); err != nil || !bytes.Equal(b, want) {
				bad("object %d: GetData() does not return the object's bytes (err=%v)", id, err)
			}
			if b, err := io.ReadAll(d.GetReader()); err != nil || !bytes.Equal(b, want) {
				bad("object %d: GetReader() does not yield the object's bytes (err=%v)", id, err)
			}
		}
		if b, err := io.ReadAll(d.GetIntegrityReader()); err != nil || !bytes.Equal(b, descStream(w, w.ID-mins[w.Group])) {
			bad("object %d: descriptor integrity stream differs from type|used|relative id|link|size|ctime|uid|gid|name|extra", id)
		}
		switch w.Type {
		case DataPartition:
			fs, pt, arch, err := d.PartitionMetadata()
			wa := "unknown"
			for name, code := range ArchCodes {
				if trim(w.Extra[8:11]) == code {
					wa = name
				}
			}
			if err != nil || int32(fs) != int32(le32(w.Extra[0:])) || int32(pt) != int32(le32(w.Extra[4:])) || arch != wa {
				bad("object %d: PartitionMetadata() = %v,%v,%q,%v; extra holds fs %d, type %d, arch %s", id, fs, pt, arch, err,
					int32(le32(w.Extra[0:])), int32(le32(w.Extra[4:])), wa)
			}
		case DataSignature:
			ht, fp, err := d.SignatureMetadata()
			wantHT := map[int32]crypto.Hash{1: crypto.SHA256, 2: crypto.SHA384, 3: crypto.SHA512, 4: crypto.BLAKE2s_256, 5: crypto.BLAKE2b_256}[int32(le32(w.Extra[0:]))]
			if wantHT != 0 {
				if err != nil || ht != wantHT || !bytes.Equal(fp, fingerprintOf(w)) {
					bad("object %d: SignatureMetadata() = %v,%x,%v; extra holds hash type %d, fingerprint %x", id, ht, fp, err, le32(w.Extra[0:]), fingerprintOf(w))
				}
			} else if err == nil {
				bad("object %d: SignatureMetadata() accepts hash type %d", id, int32(le32(w.Extra[0:])))
			}
		case DataCryptoMessage:
			ft, mt, err := d.CryptoMessageMetadata()
			if err != nil || int32(ft) != int32(le32(w.Extra[0:])) || int32(mt) != int32(le32(w.Extra[4:])) {
				bad("object %d: CryptoMessageMetadata() = %v,%v,%v; extra holds %d,%d", id, ft, mt, err, int32(le32(w.Extra[0:])), int32(le32(w.Extra[4:])))
			}
		case DataSBOM:
			sf, err := d.SBOMMetadata()
			if err != nil || int32(sf) != int32(le32(w.Extra[0:])) {
				bad("object %d: SBOMMetadata() = %v,%v; extra holds %d", id, sf, err, int32(le32(w.Extra[0:])))
			}
		case DataOCIRootIndex, DataOCIBlob:
			hh, err := d.OCIBlobDigest()
			text := w.DigestText()
			if validDigestText(text) {
				if err != nil || hh.String() != text {
					bad("object %d: OCIBlobDigest() = %v,%v; extra holds %q", id, hh, err, text)
				}
			}
		}
		// accessors of the wrong type refuse
		if w.Type != DataPartition {
			if _, _, _, err := d.PartitionMetadata(); err == nil {
				bad("object %d: PartitionMetadata() succeeds on a non-partition", id)
			}
		}
		if w.Type != DataSignature {
			if _, _, err := d.SignatureMetadata(); err == nil {
				bad("object %d: SignatureMetadata() succeeds on a non-signature", id)
			}
		}
		return false
	})
	if i < len(used) {
		bad("WithDescriptors visits %d objects, %d are in use", i, len(used))
	}
	return out
}

package h

import (
	"fmt"
	"strings"
)

// Coq literal syntax helpers.

func CoqByte(b byte) string { return fmt.Sprintf("x%02x", b) }

func CoqBytes(bs []byte) string {
	var sb strings.Builder
	sb.Grow(len(bs)*4 + 2)
	sb.WriteByte('[')
	for i, b := range bs {
		if i > 0 {
			sb.WriteByte(';')
		}
		sb.WriteString(CoqByte(b))
	}
	sb.WriteByte(']')
	return sb.String()
}

func CoqZ(z int64) string {
	if z < 0 {
		return fmt.Sprintf("(%d)", z)
	}
	return fmt.Sprintf("%d", z)
}

func CoqBool(b bool) string {
	if b {
		return "true"
	}
	return "false"
}

// CoqRLE renders bs as a list of Exec.brun: runs of >= 12 equal bytes become Rep.
func CoqRLE(bs []byte) string {
	const minRun = 12
	var parts []string
	lit := []byte{}
	flush := func() {
		if len(lit) > 0 {
			parts = append(parts, "Lit "+CoqBytes(lit))
			lit = lit[:0]
		}
	}
	for i := 0; i < len(bs); {
		j := i
		for j < len(bs) && bs[j] == bs[i] {
			j++
		}
		if j-i >= minRun {
			flush()
			parts = append(parts, fmt.Sprintf("Rep %s %d%%N", CoqByte(bs[i]), j-i))
		} else {
			lit = append(lit, bs[i:j]...)
		}
		i = j
	}
	flush()
	return "[" + strings.Join(parts, "; ") + "]"
}

func CoqOptRLE(bs []byte, present bool) string {
	if !present {
		return "None"
	}
	return "(Some " + CoqRLE(bs) + ")"
}

func CoqList(items []string) string { return "[" + strings.Join(items, ";\n  ") + "]" }

package h

import (
	"fmt"
	"strings"
)

// Go mirror of the Coq case types (Image.v / Machine.v / Exec.v). Values of these types are what a
// generator produces; they are executed against the real library (impl.go) and printed as Coq
// terms for the model.

const (
	ZeroTime  int64  = -62135596800
	GroupMask uint32 = 0xf0000000
)

// Data types, by number (independent transcription of the SIF v1 specification).
const (
	DataDeffile       = 0x4001
	DataEnvVar        = 0x4002
	DataLabels        = 0x4003
	DataPartition     = 0x4004
	DataSignature     = 0x4005
	DataGenericJSON   = 0x4006
	DataGeneric       = 0x4007
	DataCryptoMessage = 0x4008
	DataSBOM          = 0x4009
	DataOCIRootIndex  = 0x400a
	DataOCIBlob       = 0x400b
)

var AllDataTypes = []int32{
	DataDeffile, DataEnvVar, DataLabels, DataPartition, DataSignature, DataGenericJSON,
	DataGeneric, DataCryptoMessage, DataSBOM, DataOCIRootIndex, DataOCIBlob,
}

// ArchCodes is the SIF v1 architecture table: Go arch name -> two-digit code.
var ArchCodes = map[string]string{
	"386": "01", "amd64": "02", "arm": "03", "arm64": "04", "ppc64": "05", "ppc64le": "06",
	"mips": "07", "mipsle": "08", "mips64": "09", "mips64le": "10", "s390x": "11", "riscv64": "12",
}

var ArchNames = []string{
	"386", "amd64", "arm", "arm64", "ppc64", "ppc64le", "mips", "mipsle", "mips64", "mips64le",
	"s390x", "riscv64",
}

func ArchBytes(goarch string) []byte {
	c, ok := ArchCodes[goarch]
	if !ok {
		c = "00"
	}
	return []byte{c[0], c[1], 0}
}

type TOptKind int

const (
	TDefault TOptKind = iota
	TDeterministic
	TExplicit
)

type TOpt struct {
	Kind TOptKind
	T    int64
}

func (t TOpt) Coq() string {
	switch t.Kind {
	case TDeterministic:
		return "TDeterministic"
	case TExplicit:
		return "(TExplicit " + CoqZ(t.T) + ")"
	}
	return "TDefault"
}

type MdKind int

const (
	MdNone MdKind = iota
	MdPart
	MdRaw
	MdOCI
	MdErr
)

// Meta is the metadata of a descriptor input. For MdRaw, How says which library option delivers
// the bytes ("raw", "signature", "crypto", "sbom"); the model only sees the bytes.
type Meta struct {
	Kind   MdKind
	Fs, Pt int32
	Arch   string // Go arch name (MdPart)
	Raw    []byte
	How    string
	// for How == "signature"
	SigHash int // crypto.Hash number
	SigFP   []byte
	// crypto / sbom
	A, B int32
}

func (m Meta) Coq() string {
	switch m.Kind {
	case MdPart:
		return fmt.Sprintf("(MdPart %s %s %s)", CoqZ(int64(m.Fs)), CoqZ(int64(m.Pt)), CoqBytes(ArchBytes(m.Arch)))
	case MdRaw:
		return "(MdRaw " + CoqBytes(m.Raw) + ")"
	case MdOCI:
		return "MdOCI"
	case MdErr:
		return "MdErr"
	}
	return "MdNone"
}

type LinkKind int

const (
	LNone LinkKind = iota
	LObject
	LGroup
)

type DInput struct {
	Type      int32
	Content   []byte
	FailAfter int // -1: the reader does not fail
	// options passed to the library
	GroupOpt int // 0 = none passed (default group 1), 1 = OptNoGroup, 2 = OptGroupID(Group)
	Group    uint32
	Link     LinkKind
	LinkID   uint32
	AlignSet bool
	Align    int
	Name     string
	NameSet  bool
	Md       Meta
	MdSet    bool // an explicit metadata option is passed
	TimeSet  bool
	Time     int64
}

// EffGroup is the group the object lands in (0 = none).
func (d DInput) EffGroup() uint32 {
	switch d.GroupOpt {
	case 1:
		return 0
	case 2:
		return d.Group
	}
	return 1
}

// EffAlign is the alignment the library applies.
func (d DInput) EffAlign() int {
	if d.AlignSet {
		return d.Align
	}
	if d.Type == DataPartition {
		return 4096
	}
	return 0
}

// EffMd is the metadata the library applies.
func (d DInput) EffMd() Meta {
	if d.MdSet {
		return d.Md
	}
	if d.Type == DataOCIRootIndex || d.Type == DataOCIBlob {
		return Meta{Kind: MdOCI}
	}
	return Meta{Kind: MdNone}
}

func (d DInput) Coq() string {
	fail := "None"
	if d.FailAfter >= 0 {
		fail = fmt.Sprintf("(Some %d%%nat)", d.FailAfter)
	}
	link := "LNone"
	switch d.Link {
	case LObject:
		link = "(LObject " + CoqZ(int64(d.LinkID)) + ")"
	case LGroup:
		link = "(LGroup " + CoqZ(int64(d.LinkID)) + ")"
	}
	tm := "None"
	if d.TimeSet {
		tm = "(Some " + CoqZ(d.Time) + ")"
	}
	name := ""
	if d.NameSet {
		name = d.Name
	}
	return fmt.Sprintf("(mkDI %d (expand %s) %s %d %s %s %s %s %s)",
		d.Type, CoqRLE(d.Content), fail, d.EffGroup(), link, CoqZ(int64(d.EffAlign())),
		CoqBytes([]byte(name)), d.EffMd().Coq(), tm)
}

type SelKind int

const (
	SType SelKind = iota
	SID
	SNoGroup
	SGroup
	SLinkedID
	SLinkedGroup
	SPartType
	SOCIDigest
	SCustom
)

type CustomKind int

const (
	CTrue CustomKind = iota
	CFalse
	CSizeGe
	CNameNonEmpty
	CErrOnID
)

type Selector struct {
	Kind   SelKind
	N      int64 // type / id / group / parttype / custom argument
	Alg    string
	Hex    string
	Custom CustomKind
}

func (s Selector) Coq() string {
	switch s.Kind {
	case SType:
		return "(SType " + CoqZ(s.N) + ")"
	case SID:
		return "(SID " + CoqZ(s.N) + ")"
	case SNoGroup:
		return "SNoGroup"
	case SGroup:
		return "(SGroup " + CoqZ(s.N) + ")"
	case SLinkedID:
		return "(SLinkedID " + CoqZ(s.N) + ")"
	case SLinkedGroup:
		return "(SLinkedGroup " + CoqZ(s.N) + ")"
	case SPartType:
		return "(SPartType " + CoqZ(s.N) + ")"
	case SOCIDigest:
		return "(SOCIDigest " + CoqBytes([]byte(s.Alg+":"+s.Hex)) + ")"
	}
	switch s.Custom {
	case CFalse:
		return "(SCustom CFalse)"
	case CSizeGe:
		return "(SCustom (CSizeGe " + CoqZ(s.N) + "))"
	case CNameNonEmpty:
		return "(SCustom CNameNonEmpty)"
	case CErrOnID:
		return "(SCustom (CErrOnID " + CoqZ(s.N) + "))"
	}
	return "(SCustom CTrue)"
}

type OpKind int

const (
	OpAdd OpKind = iota
	OpDelete
	OpSetPrim
	OpSetMeta
	OpSetOCI
	OpReload
)

type Op struct {
	Kind                OpKind
	DI                  DInput
	Sel                 Selector
	ByID                bool // delete through DeleteObject(id)
	Zero                bool
	Compact             bool
	ZeroSet, CompactSet bool
	ID                  uint32
	Md                  Meta
	Alg                 string
	Hex                 string
	T                   TOpt
	Now                 int64 // the clock reading the implementation used (filled in by the executor)
}

func (o Op) Coq() string {
	switch o.Kind {
	case OpAdd:
		return fmt.Sprintf("OpAdd %s %s %s", o.DI.Coq(), o.T.Coq(), CoqZ(o.Now))
	case OpDelete:
		return fmt.Sprintf("OpDelete %s %s %s %s %s", o.Sel.Coq(), CoqBool(o.Zero), CoqBool(o.Compact), o.T.Coq(), CoqZ(o.Now))
	case OpSetPrim:
		return fmt.Sprintf("OpSetPrim %d %s %s", o.ID, o.T.Coq(), CoqZ(o.Now))
	case OpSetMeta:
		return fmt.Sprintf("OpSetMeta %d %s %s %s", o.ID, o.Md.Coq(), o.T.Coq(), CoqZ(o.Now))
	case OpSetOCI:
		return fmt.Sprintf("OpSetOCI %d %s %s %s", o.ID, CoqBytes([]byte(o.Alg+":"+o.Hex)), o.T.Coq(), CoqZ(o.Now))
	}
	return "OpReload"
}

func (o Op) KindName() string {
	return [...]string{"add", "delete", "setprim", "setmeta", "setoci", "reload"}[o.Kind]
}

// Create options.
type COpts struct {
	LaunchSet bool
	Launch    string
	IDKind    int // 0 random (default), 1 explicit, 2 deterministic option
	ID        [16]byte
	CapSet    bool
	Cap       int64
	TimeKind  int // 0 default (now), 1 explicit, 2 deterministic option
	Time      int64
	DIs       []DInput
	// the order in which the options are passed to the library (a permutation of
	// "det", "launch", "id", "time", "cap", "dis")
	Order []string
	// filled in by the executor: what the implementation used
	EffID   [16]byte
	EffTime int64
	// clock reading and random bytes observed (inputs of the model)
	ObsNow int64
	ObsRnd [16]byte
}

// Expected resolves the options in the order given, independently of the library: the ID and
// time the image must carry, when the options determine them.
func (c COpts) Expected() (idKnown bool, id [16]byte, timeKnown bool, t int64) {
	for _, k := range c.Order {
		switch k {
		case "det":
			if c.IDKind == 2 || c.TimeKind == 2 {
				idKnown, id, timeKnown, t = true, [16]byte{}, true, ZeroTime
			}
		case "id":
			if c.IDKind == 1 {
				idKnown, id = true, c.ID
			}
		case "time":
			if c.TimeKind == 1 {
				timeKnown, t = true, c.Time
			}
		}
	}
	return
}

// OptsCoq renders the options in the order given, as the model's list copt.
func (c COpts) OptsCoq() string {
	var parts []string
	for _, k := range c.Order {
		switch k {
		case "det":
			if c.IDKind == 2 || c.TimeKind == 2 {
				parts = append(parts, "CODeterministic")
			}
		case "launch":
			if c.LaunchSet {
				parts = append(parts, "COWithLaunch "+CoqBytes([]byte(c.Launch)))
			}
		case "id":
			if c.IDKind == 1 {
				parts = append(parts, "COWithID "+CoqBytes(c.ID[:]))
			}
		case "time":
			if c.TimeKind == 1 {
				parts = append(parts, "COWithTime "+CoqZ(c.Time))
			}
		case "cap":
			if c.CapSet {
				parts = append(parts, "COWithCapacity "+CoqZ(c.Cap))
			}
		case "dis":
			if len(c.DIs) > 0 {
				var dis []string
				for _, d := range c.DIs {
					dis = append(dis, d.Coq())
				}
				parts = append(parts, "COWithDescriptors ["+strings.Join(dis, ";\n    ")+"]")
			}
		}
	}
	return "[" + strings.Join(parts, "; ") + "]"
}

func (c COpts) EffCap() int64 {
	if c.CapSet {
		return c.Cap
	}
	return 48
}

func (c COpts) Coq() string {
	var dis []string
	for _, d := range c.DIs {
		dis = append(dis, d.Coq())
	}
	launch := ""
	if c.LaunchSet {
		launch = c.Launch
	}
	return fmt.Sprintf("(mkCO %s %s %s %s [%s])", CoqBytes([]byte(launch)), CoqBytes(c.EffID[:]),
		CoqZ(c.EffCap()), CoqZ(c.EffTime), strings.Join(dis, ";\n    "))
}

// Obs is what the implementation showed after a step.
type Obs struct {
	Res       string // "Ok" or the name of an err constructor
	Hdr       []byte // encoding of the in-memory header
	Rds       []byte // encoding of the in-memory descriptors, concatenated
	MinIDs    [][2]uint32
	Store     []byte
	Pos       int64
	HasPos    bool
	HasMem    bool // a handle exists
	MemIsFile bool // Hdr/Rds equal the corresponding regions of Store
}

func (o Obs) Coq() string {
	res := "Ok"
	if o.Res != "Ok" {
		res = "(Err " + o.Res + ")"
	}
	hdr, rds := "None", "None"
	if o.HasMem && !o.MemIsFile {
		hdr = CoqOptRLE(o.Hdr, true)
		rds = CoqOptRLE(o.Rds, true)
	}
	var mids []string
	for _, kv := range o.MinIDs {
		mids = append(mids, fmt.Sprintf("(%d,%d)", kv[0], kv[1]))
	}
	pos := "None"
	if o.HasPos {
		pos = "(Some " + CoqZ(o.Pos) + ")"
	}
	return fmt.Sprintf("(mkObs %s %s %s [%s] %s %s)", res, hdr, rds, strings.Join(mids, ";"), CoqRLE(o.Store), pos)
}

// Query is a read-only question asked of the handle after a step.
type Query struct {
	Kind string // "many", "one", "data", "meta"
	Sels []Selector
	ID   uint32
	// observed
	Err   string      // "" if none
	IDs   [][2]uint32 // (ID, relative ID)
	Bytes []byte
	// observed by "meta": every typed accessor of the descriptor (coq/Meta.v meta_view)
	Name, Arch, FP, Digest []byte
	Nums                   []int64
	// observed by "header": the accessors of the image header (coq/Meta.v header_view); Arch and Nums too
	Launch, Version, HID []byte
}

func (q Query) Coq() string {
	var sels []string
	for _, s := range q.Sels {
		sels = append(sels, s.Coq())
	}
	var qs string
	switch q.Kind {
	case "many":
		qs = "QMany [" + strings.Join(sels, "; ") + "]"
	case "one":
		qs = "QOne [" + strings.Join(sels, "; ") + "]"
	case "meta":
		qs = fmt.Sprintf("QMeta %d", q.ID)
	case "header":
		qs = "QHeader"
	default:
		qs = fmt.Sprintf("QData %d", q.ID)
	}
	var ob string
	switch {
	case q.Err != "":
		ob = "QErr " + q.Err
	case q.Kind == "header":
		var ns []string
		for _, n := range q.Nums {
			ns = append(ns, CoqZ(n))
		}
		ob = fmt.Sprintf("QHdr %s %s %s %s [%s]", CoqBytes(q.Launch), CoqBytes(q.Version), CoqBytes(q.Arch), CoqBytes(q.HID), strings.Join(ns, ";"))
	case q.Kind == "meta":
		var ns []string
		for _, n := range q.Nums {
			ns = append(ns, CoqZ(n))
		}
		ob = fmt.Sprintf("QView %s [%s] %s %s %s", CoqBytes(q.Name), strings.Join(ns, ";"), CoqBytes(q.Arch), CoqBytes(q.FP), CoqBytes(q.Digest))
	case q.Kind == "data":
		ob = "QBytes " + CoqRLE(q.Bytes)
	default:
		var ids []string
		for _, p := range q.IDs {
			ids = append(ids, fmt.Sprintf("(%d,%d)", p[0], p[1]))
		}
		ob = "QIds [" + strings.Join(ids, ";") + "]"
	}
	return "(" + qs + ", " + ob + ")"
}

func coqQueries(qs []Query) string {
	var parts []string
	for _, q := range qs {
		parts = append(parts, q.Coq())
	}
	return "[" + strings.Join(parts, ";\n     ") + "]"
}

type Step struct {
	Op      Op
	Obs     Obs
	Queries []Query
	Trace   []RecCall // storage calls issued by the step, if recorded
}

type Case struct {
	ID          int
	Backend     string // "buf" or "file"
	Create      *COpts
	LoadBytes   []byte
	InitObs     Obs
	HasHandle   bool
	InitQueries []Query
	Hostile     bool // deliberately malformed input: only outcome classes are compared
	ForeignIDs  bool // loaded image whose live IDs are not slot+1 (known-finding class F5)
	Steps       []Step
	Tags        []string
}

func (c Case) Coq() string {
	be := "BBuf"
	if c.Backend == "file" {
		be = "BFile"
	}
	var init string
	if c.Create != nil {
		init = fmt.Sprintf("(ICreateO %s %s %s)", c.Create.OptsCoq(), CoqZ(c.Create.ObsNow), CoqBytes(c.Create.ObsRnd[:]))
	} else {
		init = "(ILoad " + CoqRLE(c.LoadBytes) + ")"
	}
	var steps []string
	for _, s := range c.Steps {
		steps = append(steps, "("+s.Op.Coq()+",\n    "+s.Obs.Coq()+",\n    "+coqQueries(s.Queries)+")")
	}
	var traces []string
	for _, s := range c.Steps {
		var cs []string
		for _, x := range s.Trace {
			if x.Kind == 3 {
				cs = append(cs, "(3,0)")
			} else {
				cs = append(cs, fmt.Sprintf("(%d,%s)", x.Kind, CoqZ(x.Arg)))
			}
		}
		traces = append(traces, "["+strings.Join(cs, ";")+"]")
	}
	return fmt.Sprintf("mkCase %d %s\n  %s\n  %s %s\n  %s\n  [%s]\n  [%s]", c.ID, be, init, c.InitObs.Coq(), CoqBool(c.HasHandle), coqQueries(c.InitQueries), strings.Join(steps, ";\n   "), strings.Join(traces, "; "))
}

// CasesFile renders a complete Coq file evaluating the model on cs.
func CasesFile(cs []Case) string {
	var sb strings.Builder
	sb.WriteString("From Coq Require Import List ZArith.\nFrom Coq.Init Require Import Byte.\n")
	sb.WriteString("From Sif Require Import Bytes Store Format Image Machine Exec.\nImport ListNotations.\nLocal Open Scope Z_scope.\n")
	sb.WriteString("Definition cases : list hcase := [\n")
	for i, c := range cs {
		if i > 0 {
			sb.WriteString(";\n")
		}
		sb.WriteString(c.Coq())
	}
	sb.WriteString("].\nDefinition M := Eval vm_compute in mismatches cases.\nPrint M.\n")
	return sb.String()
}

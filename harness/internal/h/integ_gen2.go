package h

import (
	"bytes"
	"crypto"
	"encoding/base64"
	"encoding/hex"
	"encoding/json"
	"fmt"
	"sort"

	"github.com/ProtonMail/go-crypto/openpgp/clearsign"
	"github.com/ProtonMail/go-crypto/openpgp/packet"
	"github.com/sigstore/sigstore/pkg/signature"
	"github.com/sigstore/sigstore/pkg/signature/dsse"
	"github.com/sylabs/sif/v2/pkg/integrity"
	"github.com/sylabs/sif/v2/pkg/sif"
)

// ---------------------------------------------------------------------------------------------
// generated multi-group images (C06, C17)

type GroupedInfo struct {
	Groups []uint32 // groups present, ascending
	Desc   string
}

// GenGroupedImage makes an image with 1-4 groups of 1-6 objects of all types (empty ones too),
// interleaved in the table, after a short pre-history that may delete objects.
func GenGroupedImage(r *Rng) (*sif.Buffer, GroupedInfo) {
	b, info, _ := GenGroupedImageH(r)
	return b, info
}

// GenGroupedImageH also returns the handle the history ran on.
func GenGroupedImageH(r *Rng) (*sif.Buffer, GroupedInfo, *sif.FileImage) {
	ng := 1 + r.Intn(4)
	gids := []uint32{1, 2, 3, 4}[:ng]
	if r.Chance(1, 4) {
		gids[ng-1] = Pick(r, []uint32{7, 100, 0x0ffffffe})
	}
	var dis []DInput
	p := GenParams{MaxCap: 32}
	v := &imgView{cap: 32}
	for _, g := range gids {
		for j, n := 0, 1+r.Intn(6); j < n; j++ {
			d := GenDInput(r, p, v, false)
			d.FailAfter = -1
			if d.Type == DataSignature || d.MdSet && d.Md.Kind == MdErr {
				d.Type, d.MdSet, d.Md = DataGeneric, false, Meta{}
			}
			d.GroupOpt, d.Group = 2, g
			d.AlignSet, d.Align = true, Pick(r, []int{0, 1, 2, 8, 64, 512})
			if len(d.Content) > 200 {
				d.Content = d.Content[:200]
			}
			dis = append(dis, d)
		}
	}
	// interleave
	for i := len(dis) - 1; i > 0; i-- {
		j := r.Intn(i + 1)
		dis[i], dis[j] = dis[j], dis[i]
	}
	var b sif.Buffer
	opts := []sif.CreateOpt{sif.OptCreateWithDescriptorCapacity(int64(len(dis) + 32)), sif.OptCreateWithCloseOnUnload(false)}
	det := r.Chance(1, 2)
	if det {
		opts = append(opts, sif.OptCreateDeterministic())
	} else {
		opts = append(opts, sif.OptCreateWithID("de170c43-36ab-44a8-bca9-1ea1a070a274"), sif.OptCreateWithTime(fixedTime()))
	}
	if r.Chance(1, 3) {
		opts = append(opts, sif.OptCreateWithLaunchScript("#!/bin/sh\n"))
	}
	f, err := sif.CreateContainer(&b, opts...)
	if err != nil {
		panic(err)
	}
	added := 0
	for _, d := range dis {
		di, err := BuildDI(d)
		if err != nil {
			continue
		}
		aopt := sif.OptAddWithTime(fixedTime())
		if det {
			aopt = sif.OptAddDeterministic()
		}
		if err := f.AddObject(di, aopt); err == nil {
			added++
		}
	}
	info := GroupedInfo{Desc: fmt.Sprintf("%d groups, %d objects, deterministic=%v", ng, added, det)}
	// pre-history: delete one or two objects (the lowest ID of a group among them)
	for k := r.Intn(3); k > 0 && added > 2; k-- {
		id := uint32(1 + r.Intn(added))
		var grp uint32
		if d, err := f.GetDescriptor(sif.WithID(id)); err == nil {
			grp = d.GroupID()
		}
		topts := []sif.DeleteOpt{sif.OptDeleteZero(r.Chance(1, 2)), sif.OptDeleteCompact(false)}
		if det {
			topts = append(topts, sif.OptDeleteDeterministic())
		} else {
			topts = append(topts, sif.OptDeleteWithTime(fixedTime()))
		}
		if err := f.DeleteObject(id, topts...); err == nil {
			info.Desc += fmt.Sprintf(", deleted %d before signing", id)
			// a new object takes the freed slot, in the same group
			if grp != 0 && r.Chance(1, 2) {
				di, _ := sif.NewDescriptorInput(sif.DataGeneric, bytes.NewReader([]byte("replacement")), sif.OptGroupID(grp), sif.OptObjectAlignment(1))
				aopt := sif.OptAddWithTime(fixedTime())
				if det {
					aopt = sif.OptAddDeterministic()
				}
				if err := f.AddObject(di, aopt); err == nil {
					info.Desc += fmt.Sprintf(", added a new object to group %d in its place", grp)
				}
			}
		}
	}
	seen := map[uint32]bool{}
	f.WithDescriptors(func(d sif.Descriptor) bool {
		if g := d.GroupID(); g != 0 && !seen[g] {
			seen[g] = true
			info.Groups = append(info.Groups, g)
		}
		return false
	})
	sort.Slice(info.Groups, func(i, j int) bool { return info.Groups[i] < info.Groups[j] })
	return &b, info, f
}

// SignConfig is one supported signing configuration.
type SignConfig struct {
	Scheme   string
	DSSEKeys []string
	Entity   int
	Groups   []uint32
	Objects  [][]uint32
	TimeMode int // 0 OptSignWithTime then OptSignDeterministic, 1 OptSignWithTime only, 2 neither, 3 OptSignDeterministic only
	NoSalt   bool // OptSignWithoutPGPSignatureSalt
}

func (c SignConfig) String() string {
	return fmt.Sprintf("%s keys=%v entity=%d groups=%v objects=%v time=%d", c.Scheme, c.DSSEKeys, c.Entity, c.Groups, c.Objects, c.TimeMode)
}

func (c SignConfig) signerOpts(k *Keys) []integrity.SignerOpt {
	s := BaseSpec{Scheme: c.Scheme, DSSEKeys: c.DSSEKeys, Entity: c.Entity, Groups: c.Groups}
	opts := signerOptsT(k, s, c.TimeMode)
	for _, ids := range c.Objects {
		opts = append(opts, integrity.OptSignObjects(ids...))
	}
	if c.NoSalt {
		opts = append(opts, integrity.OptSignWithoutPGPSignatureSalt())
	}
	return opts
}

// VOpts returns the verification request "for what was signed, with the signers' public keys".
func (c SignConfig) VOpts() VOpts {
	vo := VOpts{Groups: c.Groups}
	for _, ids := range c.Objects {
		vo.Objects = append(vo.Objects, ids...)
	}
	if c.Scheme == "pgp" {
		vo.PGPEntities = []int{c.Entity}
	} else {
		vo.DSSEKeys = c.DSSEKeys
	}
	return vo
}

// GenSignConfig draws a configuration for the image in img.
func GenSignConfig(r *Rng, k *Keys, img []byte) SignConfig {
	si, _ := DecodeImage(img)
	byGroup := map[uint32][]uint32{}
	var groups []uint32
	for _, d := range si.Descs {
		if d.Used && d.GroupID() != 0 && d.Type != DataSignature {
			if byGroup[d.GroupID()] == nil {
				groups = append(groups, d.GroupID())
			}
			byGroup[d.GroupID()] = append(byGroup[d.GroupID()], d.ID)
		}
	}
	c := SignConfig{TimeMode: []int{0, 1, 3}[r.Intn(3)]}
	if bytes.Equal(si.H.ID[:], make([]byte, 16)) && si.H.Ctime == ZeroTime && si.H.Mtime == ZeroTime && r.Chance(1, 3) {
		c.TimeMode = 2
	}
	if r.Chance(2, 5) {
		c.Scheme, c.Entity = "pgp", r.Intn(len(k.Entities))
	} else {
		c.Scheme = "dsse"
		for n := 1 + r.Intn(3); n > 0; n-- {
			c.DSSEKeys = appendUniqueStr(c.DSSEKeys, Pick(r, k.Names))
		}
	}
	if len(groups) == 0 {
		return c
	}
	switch r.Intn(3) {
	case 1:
		for _, g := range groups {
			if r.Chance(1, 2) {
				c.Groups = append(c.Groups, g)
			}
		}
		if c.Groups == nil {
			c.Groups = []uint32{Pick(r, groups)}
		}
	case 2:
		for n := 1 + r.Intn(6)/5; n > 0; n-- {
			var ids []uint32
			g := Pick(r, groups)
			for _, id := range byGroup[g] {
				if r.Chance(1, 2) {
					ids = append(ids, id)
				}
			}
			if ids == nil {
				ids = []uint32{Pick(r, byGroup[g])}
			}
			if r.Chance(1, 4) { // objects of several groups in one option
				ids = append(ids, Pick(r, byGroup[Pick(r, groups)]))
			}
			c.Objects = append(c.Objects, ids)
		}
	}
	return c
}

// ---------------------------------------------------------------------------------------------
// transformations that keep the protected view (C06)

// ViewKeeping returns images that present the same protected view of group g's objects:
// relocated object data, the whole group's IDs shifted, the group renamed, unprotected header
// fields changed.
func ViewKeeping(r *Rng, img []byte, g uint32) []Mutation {
	si, err := DecodeImage(img)
	if err != nil {
		return nil
	}
	var ms []Mutation
	doff := func(i int) int { return int(si.H.DescOff) + i*DescSize }
	add := func(what string, f func(b []byte) []byte) {
		ms = append(ms, Mutation{What: what, Img: f(bytes.Clone(img))})
	}
	add("unprotected header fields changed (arch, times, data size)", func(b []byte) []byte {
		copy(b[45:48], "11\x00")
		putLE(b, 64, 8, 12345)
		putLE(b, 72, 8, 67890)
		return b
	})
	add(fmt.Sprintf("data of every object of group %d relocated to the end of the file", g), func(b []byte) []byte {
		for i, d := range si.Descs {
			if d.Used && d.GroupID() == g && d.Size > 0 {
				putLE(b, doff(i)+17, 8, uint64(len(b)))
				b = append(b, img[d.Off:d.Off+d.Size]...)
			}
		}
		return b
	})
	add(fmt.Sprintf("unprotected descriptor fields of group %d changed (mtime, padded size)", g), func(b []byte) []byte {
		for i, d := range si.Descs {
			if d.Used && d.GroupID() == g {
				putLE(b, doff(i)+49, 8, 99)
				putLE(b, doff(i)+33, 8, uint64(d.Size))
			}
		}
		return b
	})
	maxID := uint32(0)
	for _, d := range si.Descs {
		if d.Used && d.ID > maxID {
			maxID = d.ID
		}
	}
	add(fmt.Sprintf("IDs of group %d shifted by %d", g, maxID), func(b []byte) []byte {
		for i, d := range si.Descs {
			if d.Used && d.GroupID() == g {
				putLE(b, doff(i)+5, 4, uint64(d.ID+maxID))
			}
		}
		return b
	})
	ng := uint32(0x0abcdef0)
	add(fmt.Sprintf("group %d renamed to %d", g, ng), func(b []byte) []byte {
		for i, d := range si.Descs {
			if d.Used && d.GroupID() == g {
				putLE(b, doff(i)+9, 4, uint64(GroupMask|ng))
			}
			if d.Used && d.Type == DataSignature && d.LinkIsGroup() && d.LinkID() == g {
				putLE(b, doff(i)+13, 4, uint64(GroupMask|ng))
			}
		}
		return b
	})
	return ms
}

// ---------------------------------------------------------------------------------------------
// hand-made signatures (C07, C16, C17)

// AddRawSignature appends a signature object with the given bytes, link and metadata.
func AddRawSignature(b *sif.Buffer, content []byte, linkGroup, linkObject uint32, ht crypto.Hash, fp []byte, group uint32) error {
	f, err := sif.LoadContainer(b, sif.OptLoadWithCloseOnUnload(false))
	if err != nil {
		return err
	}
	opts := []sif.DescriptorInputOpt{sif.OptSignatureMetadata(ht, fp)}
	if group == 0 {
		opts = append(opts, sif.OptNoGroup())
	} else {
		opts = append(opts, sif.OptGroupID(group))
	}
	if linkGroup != 0 {
		opts = append(opts, sif.OptLinkedGroupID(linkGroup))
	} else if linkObject != 0 {
		opts = append(opts, sif.OptLinkedID(linkObject))
	}
	di, err := sif.NewDescriptorInput(sif.DataSignature, bytes.NewReader(content), opts...)
	if err != nil {
		return err
	}
	return f.AddObject(di, sif.OptAddDeterministic())
}

// ClearSign produces a clear-signed message of plaintext by entity e.
func ClearSign(k *Keys, e int, plaintext []byte) []byte {
	var out bytes.Buffer
	w, err := clearsign.Encode(&out, k.Entities[e].PrivateKey, &packet.Config{Time: fixedTime, DefaultHash: crypto.SHA256})
	if err != nil {
		panic(err)
	}
	w.Write(plaintext)
	w.Close()
	return out.Bytes()
}

// LegacyPlaintext is the message of a legacy signature over data.
func LegacyPlaintext(ht crypto.Hash, data []byte, trailingNL bool) []byte {
	h := ht.New()
	h.Write(data)
	s := "SIFHASH:\n" + hex.EncodeToString(h.Sum(nil))
	if trailingNL {
		s += "\n"
	}
	return []byte(s)
}

// GroupData concatenates the contents of group g's non-signature objects in table order.
func GroupData(img []byte, g uint32) []byte {
	si, _ := DecodeImage(img)
	var out []byte
	for _, d := range si.Descs {
		if d.Used && d.GroupID() == g && d.Type != DataSignature {
			out = append(out, sectionBytes(img, d)...)
		}
	}
	return out
}

// DSSEEnvelope signs payload with the named keys under an arbitrary payload type.
func DSSEEnvelope(k *Keys, names []string, payloadType string, payload []byte) []byte {
	var ss []signature.Signer
	for _, n := range names {
		ss = append(ss, k.Signers[n])
	}
	s := dsse.WrapMultiSigner(payloadType, ss...)
	b, err := s.SignMessage(bytes.NewReader(payload))
	if err != nil {
		panic(err)
	}
	return b
}

// PayloadOf extracts the payload of the DSSE envelope or clear-signed message in c.
func PayloadOf(c []byte) []byte {
	var e envelope
	if json.Unmarshal(c, &e) == nil && e.Payload != "" {
		if p, err := base64.StdEncoding.DecodeString(e.Payload); err == nil {
			return p
		}
	}
	if blk, _ := clearsign.Decode(c); blk != nil {
		return blk.Plaintext
	}
	return nil
}

// ---------------------------------------------------------------------------------------------
// specification of the signer listings (C17)

type taskSpec struct {
	Group  uint32 // group task (or legacy group task)
	Object uint32 // legacy object task
}

// specTasks is the documented task selection: one task per requested group and per requested
// object (each once, ascending); OptVerifyLegacyAll requests every grouped non-signature object;
// with nothing requested, one task per group present.
func specTasks(si *SImage, vo VOpts) ([]taskSpec, bool) {
	legacy := vo.Legacy || vo.LegacyAll
	var ts []taskSpec
	find := func(id uint32) *SDesc {
		for i := range si.Descs {
			if si.Descs[i].Used && si.Descs[i].ID == id {
				return &si.Descs[i]
			}
		}
		return nil
	}
	hasGroup := func(g uint32) bool {
		for _, d := range si.Descs {
			if d.Used && d.GroupID() == g {
				return true
			}
		}
		return false
	}
	var groups, objects []uint32
	for _, g := range vo.Groups {
		groups = appendUniqueU32(groups, g)
	}
	for _, o := range vo.Objects {
		objects = appendUniqueU32(objects, o)
	}
	if vo.LegacyAll {
		for _, d := range si.Descs {
			if d.Used && d.GroupID() != 0 && d.Type != DataSignature {
				objects = appendUniqueU32(objects, d.ID)
			}
		}
	}
	if len(groups) == 0 && len(objects) == 0 {
		for _, d := range si.Descs {
			if d.Used && d.GroupID() != 0 {
				groups = appendUniqueU32(groups, d.GroupID())
			}
		}
		if len(groups) == 0 {
			return nil, false
		}
	}
	sort.Slice(groups, func(i, j int) bool { return groups[i] < groups[j] })
	sort.Slice(objects, func(i, j int) bool { return objects[i] < objects[j] })
	for _, g := range groups {
		if g == 0 || !hasGroup(g) {
			return nil, false
		}
		ts = append(ts, taskSpec{Group: g})
	}
	for _, id := range objects {
		d := find(id)
		if d == nil {
			return nil, false
		}
		if legacy {
			ts = append(ts, taskSpec{Object: id})
		} else {
			if d.GroupID() == 0 {
				return nil, false
			}
			ts = append(ts, taskSpec{Group: d.GroupID()})
		}
	}
	return ts, true
}

func appendUniqueU32(xs []uint32, x uint32) []uint32 {
	for _, y := range xs {
		if y == x {
			return xs
		}
	}
	return append(xs, x)
}

// taskSignatures lists the signature descriptors attached to a task.
func taskSignatures(img []byte, si *SImage, t taskSpec, legacy bool, facts map[string]*SigFacts) []SDesc {
	var out []SDesc
	for _, d := range si.Descs {
		if !d.Used || d.Type != DataSignature {
			continue
		}
		if t.Object != 0 {
			if !d.LinkIsGroup() && d.Link == t.Object {
				out = append(out, d)
			}
			continue
		}
		if d.LinkIsGroup() && d.LinkID() == t.Group {
			f := facts[string(sectionBytes(img, d))]
			if f != nil && f.Legacy == legacy {
				out = append(out, d)
			}
		}
	}
	return out
}

// SpecSignedBy computes the union / intersection of the fingerprints recorded on the signatures
// attached to each selected task, sorted and duplicate-free; ok=false when the selection itself
// is invalid (no such group or object, nothing to select).
func SpecSignedBy(c *VCase) (anyFP, allFP [][]byte, ok bool) {
	si, err := DecodeImage(c.Image)
	if err != nil {
		return nil, nil, false
	}
	facts := map[string]*SigFacts{}
	for i := range c.Sigs {
		facts[string(c.Sigs[i].Content)] = &c.Sigs[i]
	}
	ts, ok := specTasks(si, c.Opts)
	if !ok {
		return nil, nil, false
	}
	count := map[string]int{}
	for _, t := range ts {
		sigs := taskSignatures(c.Image, si, t, c.Opts.Legacy || c.Opts.LegacyAll, facts)
		seen := map[string]bool{}
		for _, s := range sigs {
			if ht := HashTypeOf(s); ht < 1 || ht > 5 {
				return nil, nil, false // the signature metadata cannot be read: the listing fails
			}
			if fp := fingerprintOf(s); fp != nil && !seen[string(fp)] {
				seen[string(fp)] = true
				count[string(fp)]++
			}
		}
	}
	var keys []string
	for k := range count {
		keys = append(keys, k)
	}
	sort.Strings(keys)
	for _, k := range keys {
		anyFP = append(anyFP, []byte(k))
		if count[k] == len(ts) {
			allFP = append(allFP, []byte(k))
		}
	}
	return anyFP, allFP, true
}

func fpsEqual(a, b [][]byte) bool {
	if len(a) != len(b) {
		return false
	}
	for i := range a {
		if !bytes.Equal(a[i], b[i]) {
			return false
		}
	}
	return true
}

// SignedByFindings: C17 for one case.
func SignedByFindings(c *VCase, desc string) []Finding {
	var out []Finding
	add := func(class, format string, a ...any) {
		out = append(out, Finding{Property: "C17", Case: c.ID, Class: class, What: fmt.Sprintf(format, a...), Input: desc})
	}
	if c.Obs.NewErr != [2]int64{} {
		return nil
	}
	anyFP, allFP, ok := SpecSignedBy(c)
	if ok != !c.Obs.AnyErr || ok != !c.Obs.AllErr {
		add("", "signed-by queries: error=%v/%v but the specification says error=%v", c.Obs.AnyErr, c.Obs.AllErr, !ok)
		return out
	}
	if !ok {
		return nil
	}
	if !fpsEqual(anyFP, c.Obs.Any) {
		add("", "AnySignedBy = %x, union of recorded fingerprints = %x", c.Obs.Any, anyFP)
	}
	if !fpsEqual(allFP, c.Obs.All) {
		add("", "AllSignedBy = %x, intersection of recorded fingerprints = %x", c.Obs.All, allFP)
	}
	// after a successful verification every listed fingerprint belongs to a key that really
	// produced a valid signature on one of the tasks
	if c.Obs.VerifyErr == [2]int64{} && !c.Opts.IgnoreErrors {
		si, _ := DecodeImage(c.Image)
		facts := map[string]*SigFacts{}
		for i := range c.Sigs {
			facts[string(c.Sigs[i].Content)] = &c.Sigs[i]
		}
		ts, _ := specTasks(si, c.Opts)
		for _, fp := range c.Obs.Any {
			real, onDSSE := false, false
			for _, t := range ts {
				for _, s := range taskSignatures(c.Image, si, t, c.Opts.Legacy || c.Opts.LegacyAll, facts) {
					f := facts[string(sectionBytes(c.Image, s))]
					if !bytes.Equal(fingerprintOf(s), fp) || f == nil {
						continue
					}
					if f.PGP != nil && bytes.Equal(f.PGP.Entity, fp) {
						real = true
					}
					if f.Kind == 0 {
						onDSSE = true // the known class: a fingerprint on a DSSE signature is not tied to anything
					}
				}
			}
			class := ""
			if onDSSE {
				class = "F10"
			}
			if !real {
				add(class, "verification succeeded and AnySignedBy lists %x, but no key with that fingerprint produced a signature there", fp)
			}
		}
	}
	return out
}

package h

// Finding is a property violation observed directly on the implementation by the oracle
// (differential / property testing; used to validate the model and to find replays, never as the
// proof).
type Finding struct {
	Property string `json:"property"`
	Case     int    `json:"case"`
	Step     int    `json:"step"`
	What     string `json:"what"`
	Class    string `json:"class,omitempty"` // known-finding class, if it falls in one
}

// OracleHistory evaluates the history properties on the implementation's recorded observations.
func OracleHistory(c *Case, dir string, counts map[string]int) []Finding {
	return nil
}

package h

import (
	"bytes"
	"fmt"
	"sort"
	"strings"

	"github.com/sylabs/sif/v2/pkg/sif"
)

// The property oracle: evaluates the properties' predicates directly on what the real library
// did, using the independent decoder of spec.go. This is differential / property testing. It
// proves nothing; it validates the model and finds the concrete failing input (the replay) when a
// proof obligation or the correspondence breaks (DESIGN.md 3.3).

// Finding is a property violation observed on the implementation.
type Finding struct {
	Property string `json:"property"`
	Case     int    `json:"case"`
	Step     int    `json:"step"` // 0 = creation/loading, k = after the k-th operation
	What     string `json:"what"`
	Class    string `json:"class,omitempty"` // known-finding class the input falls in, if any
	Input    string `json:"input,omitempty"`
}

type oracleCtx struct {
	c      *Case
	out    []Finding
	counts map[string]int
}

func (o *oracleCtx) add(prop string, step int, class, format string, a ...any) {
	f := Finding{Property: prop, Case: o.c.ID, Step: step, What: fmt.Sprintf(format, a...), Class: class}
	f.Input = o.c.Describe(step)
	o.out = append(o.out, f)
}

func (o *oracleCtx) tick(name string) { o.counts[name]++ }

// Describe renders the case up to and including step as a replayable description.
func (c *Case) Describe(step int) string {
	s := fmt.Sprintf("backend=%s ", c.Backend)
	if c.Create != nil {
		s += "create " + c.Create.Coq()
	} else {
		s += fmt.Sprintf("load %d bytes", len(c.LoadBytes))
	}
	for i := 0; i < step && i < len(c.Steps); i++ {
		s += "\n  " + c.Steps[i].Op.Coq() + " -> " + c.Steps[i].Obs.Res
	}
	return s
}

func liveByID(img *SImage) map[uint32]int {
	m := map[uint32]int{}
	for i, d := range img.Descs {
		if d.Used {
			m[d.ID] = i
		}
	}
	return m
}

func region(store []byte, d SDesc) ([]byte, bool) {
	if d.Size == 0 {
		return []byte{}, true
	}
	if d.Off < 0 || d.Size < 0 || d.Off+d.Size > int64(len(store)) {
		return nil, false
	}
	return store[d.Off : d.Off+d.Size], true
}

// historyHasRawPartitionMeta: the known-finding class F7 (raw metadata bytes that decode as a
// primary partition are not interpreted by the library).
func (c *Case) hasRawPartitionMeta(upto int) bool {
	raw := func(d DInput) bool {
		return d.Type == DataPartition && d.MdSet && d.Md.Kind == MdRaw
	}
	if c.Create != nil {
		for _, d := range c.Create.DIs {
			if raw(d) {
				return true
			}
		}
	}
	for i := 0; i < upto && i < len(c.Steps); i++ {
		op := c.Steps[i].Op
		if op.Kind == OpAdd && raw(op.DI) {
			return true
		}
		if op.Kind == OpSetMeta && op.Md.Kind == MdRaw {
			return true
		}
	}
	return false
}

func excusedResult(res string) string {
	switch res {
	case "ETruncRange":
		return "F4a"
	case "ECustom":
		return "F12"
	}
	return ""
}

// checkState evaluates the state predicates on one observation.
func (o *oracleCtx) checkState(step int, ob Obs, res string) *SImage {
	if !ob.HasMem {
		return nil
	}
	img, err := DecodeImage(ob.Store)
	if err != nil {
		o.add("C11", step, "", "independent decoder cannot decode the image the library wrote: %v", err)
		return nil
	}
	o.tick("state")
	class := excusedResult(res)

	// C08: the handle is what a fresh load of the bytes gives
	f2, err := sif.LoadContainer(sif.NewBuffer(bytes.Clone(ob.Store)), sif.OptLoadWithCloseOnUnload(false))
	if err != nil {
		o.add("C08", step, class, "the image written cannot be reloaded: %v", err)
	} else {
		if class == "" && !o.c.Hostile && !o.c.ForeignIDs {
			o.tick("accessors")
			for _, w := range AccessorFindings(f2, img, ob.Store) {
				prop := "C01"
				if !strings.HasPrefix(w, "object") {
					prop = "C11"
				}
				o.add(prop, step, "", "%s", w)
				if prop == "C01" && strings.Contains(w, "Metadata() = ") {
					// a typed accessor that disagrees with an independent decoding of the extra
					// record also means the record is not laid out / read as SIF v1 prescribes
					o.add("C11", step, "", "%s", w)
				}
			}
		}
		hb, rds, mids := sif.VerifRaw(f2)
		var rcat []byte
		for _, r := range rds {
			rcat = append(rcat, r...)
		}
		if !bytes.Equal(hb, ob.Hdr) {
			o.add("C08", step, class, "handle header differs from reloaded header (handle %x, reload %x)", diffAt(ob.Hdr, hb), diffAt(hb, ob.Hdr))
		}
		if !bytes.Equal(rcat, ob.Rds) {
			o.add("C08", step, class, "handle descriptors differ from reloaded descriptors at byte %d", firstDiff(rcat, ob.Rds))
		}
		var ml [][2]uint32
		for k, v := range mids {
			ml = append(ml, [2]uint32{k, v})
		}
		sort.Slice(ml, func(i, j int) bool { return ml[i][0] < ml[j][0] })
		if fmt.Sprint(ml) != fmt.Sprint(ob.MinIDs) {
			// compare through what is observable: relative IDs of live objects
			for _, d := range img.Descs {
				if d.Used && lookup(ml, d.Group) != lookup(ob.MinIDs, d.Group) {
					o.add("C08", step, class, "relative ID of object %d differs between handle (min %d) and reload (min %d)", d.ID, lookup(ob.MinIDs, d.Group), lookup(ml, d.Group))
					break
				}
			}
		}
	}

	// C11: the independent decoding of the bytes is what the handle holds, slot by slot
	if len(ob.Rds) == len(img.Descs)*DescSize && !o.c.Hostile {
		for i, d := range img.Descs {
			dn := d
			if dn.UsedByte != 0 {
				dn.UsedByte = 1 // any non-zero "used" byte reads as true
			}
			if !bytes.Equal(EncodeDesc(dn), ob.Rds[i*DescSize:(i+1)*DescSize]) {
				o.add("C11", step, class, "slot %d of the file, decoded independently, is not the descriptor the handle holds (first difference at byte %d of the descriptor)", i,
					firstDiff(EncodeDesc(dn), ob.Rds[i*DescSize:(i+1)*DescSize]))
				break
			}
		}
	}

	// C02: invariants of the abstract image
	ids := map[uint32]bool{}
	unused, prim := int64(0), 0
	var primArch [3]byte
	for _, d := range img.Descs {
		if !d.Used {
			unused++
			continue
		}
		if ids[d.ID] {
			o.add("C02", step, o.classIDs(), "two live objects share ID %d", d.ID)
		}
		ids[d.ID] = true
		if d.IsPrimary() {
			prim++
			copy(primArch[:], d.Extra[8:11])
		}
	}
	if unused != img.H.Free || img.H.Total != int64(len(img.Descs)) {
		o.add("C02", step, "", "free=%d but %d unused of %d", img.H.Free, unused, len(img.Descs))
	}
	f7 := ""
	if o.c.hasRawPartitionMeta(step) {
		f7 = "F7"
	}
	if prim > 1 {
		o.add("C02", step, f7, "%d primary system partitions", prim)
	} else if prim == 1 && img.H.Arch != primArch {
		o.add("C02", step, f7, "header arch %q but primary partition arch %q", img.H.Arch[:2], primArch[:2])
	} else if prim == 0 && string(img.H.Arch[:]) != "00\x00" {
		o.add("C02", step, f7, "header arch %q with no primary partition", img.H.Arch[:2])
	}

	// C03: layout
	if img.H.DescOff < 128 || img.H.DescSize < img.H.Total*DescSize || img.H.DescOff+img.H.DescSize > img.H.DataOff {
		o.add("C03", step, "", "descriptor table [%d,+%d) not between header and data section at %d", img.H.DescOff, img.H.DescSize, img.H.DataOff)
	}
	var live []SDesc
	for _, d := range img.Descs {
		if d.Used {
			live = append(live, d)
		}
	}
	for i, d := range live {
		if d.Off < img.H.DataOff || d.Size < 0 || d.Off+d.Size > img.H.DataOff+img.H.DataSize {
			o.add("C03", step, class, "object %d [%d,+%d) outside the data section [%d,+%d)", d.ID, d.Off, d.Size, img.H.DataOff, img.H.DataSize)
		}
		if d.Size > 0 && d.Off+d.Size > int64(len(ob.Store)) {
			o.add("C03", step, class, "object %d [%d,+%d) beyond the end of the file (%d)", d.ID, d.Off, d.Size, len(ob.Store))
		}
		for _, e := range live[i+1:] {
			if d.Size > 0 && e.Size > 0 && d.Off < e.Off+e.Size && e.Off < d.Off+d.Size {
				o.add("C03", step, "", "objects %d [%d,+%d) and %d [%d,+%d) overlap", d.ID, d.Off, d.Size, e.ID, e.Off, e.Size)
			}
		}
	}
	return img
}

func (o *oracleCtx) classIDs() string {
	if o.c.ForeignIDs {
		return "F5"
	}
	return ""
}

func lookup(m [][2]uint32, k uint32) uint32 {
	for _, kv := range m {
		if kv[0] == k {
			return kv[1]
		}
	}
	return 0
}

func firstDiff(a, b []byte) int {
	n := min(len(a), len(b))
	for i := 0; i < n; i++ {
		if a[i] != b[i] {
			return i
		}
	}
	if len(a) != len(b) {
		return n
	}
	return -1
}

func diffAt(a, b []byte) []byte {
	i := firstDiff(a, b)
	if i < 0 || i >= len(a) {
		return nil
	}
	return a[i:min(len(a), i+8)]
}

// expectedTime is the modification time a successful operation must record.
func expectedTime(pre *SImage, t TOpt, now int64) (int64, bool) {
	switch t.Kind {
	case TDeterministic:
		return ZeroTime, true
	case TExplicit:
		return t.T, true
	}
	if pre != nil && pre.H.ID == [16]byte{} && pre.H.Ctime == ZeroTime && pre.H.Mtime == ZeroTime {
		return ZeroTime, true
	}
	return now, true
}

// checkStep evaluates the transition predicates between two observations.
func (o *oracleCtx) checkStep(step int, op Op, pre, post Obs, preImg, postImg *SImage) {
	if op.Kind == OpReload || preImg == nil || postImg == nil {
		return
	}
	o.tick("transition")
	class := excusedResult(post.Res)
	if op.Kind == OpDelete {
		o.checkDeleteSelection(step, op, post, preImg, postImg)
	}

	if post.Res != "Ok" {
		// C02: a rejected operation changes nothing
		if !bytes.Equal(pre.Store[:HdrSize], post.Store[:HdrSize]) {
			o.add("C02", step, class, "rejected %s (%s) changed the header in the file", op.KindName(), post.Res)
		}
		a, b := tableBytes(pre.Store, preImg), tableBytes(post.Store, postImg)
		if !bytes.Equal(a, b) {
			o.add("C02", step, class, "rejected %s (%s) changed the descriptor table in the file", op.KindName(), post.Res)
		}
		if !bytes.Equal(pre.Hdr, post.Hdr) || !bytes.Equal(pre.Rds, post.Rds) || fmt.Sprint(pre.MinIDs) != fmt.Sprint(post.MinIDs) {
			o.add("C02", step, class, "rejected %s (%s) changed the open handle", op.KindName(), post.Res)
		}
		for _, d := range preImg.Descs {
			if !d.Used {
				continue
			}
			x, ok1 := region(pre.Store, d)
			y, ok2 := region(post.Store, d)
			if ok1 && (!ok2 || !bytes.Equal(x, y)) {
				o.add("C02", step, class, "rejected %s (%s) changed the content of object %d", op.KindName(), post.Res, d.ID)
			}
		}
		return
	}

	// targets of the operation
	target := map[uint32]bool{}
	switch op.Kind {
	case OpSetPrim:
		target[op.ID] = true
		for _, d := range preImg.Descs {
			if d.Used && d.IsPrimary() {
				target[d.ID] = true
			}
		}
	case OpSetMeta, OpSetOCI:
		target[op.ID] = true
	}

	// C03: bystanders are not disturbed; C02: a live object keeps ID, attributes, content.
	// Objects never change slot, so the comparison is by slot.
	postLive := liveByID(postImg)
	for i, d := range preImg.Descs {
		if !d.Used || target[d.ID] {
			continue
		}
		if i >= len(postImg.Descs) || !postImg.Descs[i].Used {
			if op.Kind != OpDelete {
				o.add("C02", step, "", "%s removed object %d", op.KindName(), d.ID)
			}
			continue
		}
		dn, pn := d, postImg.Descs[i]
		dn.UsedByte, pn.UsedByte = 1, 1 // any non-zero "used" byte reads as true and is rewritten as 1
		if !bytes.Equal(EncodeDesc(dn), EncodeDesc(pn)) {
			for _, p := range []string{"C03", "C02"} {
				o.add(p, step, "", "%s changed the descriptor of bystander object %d (slot %d)", op.KindName(), d.ID, i)
			}
		}
		x, ok1 := region(pre.Store, d)
		y, ok2 := region(post.Store, d)
		if ok1 && (!ok2 || !bytes.Equal(x, y)) {
			for _, p := range []string{"C03", "C01", "C02"} {
				o.add(p, step, "", "%s changed the content of bystander object %d (slot %d): it no longer reads back as stored", op.KindName(), d.ID, i)
			}
		}
	}

	// C02/C12: header modification time is the requested one
	if want, ok := expectedTime(preImg, op.T, op.Now); ok && !(op.Kind == OpSetPrim && bytes.Equal(pre.Store, post.Store)) {
		if postImg.H.Mtime != want {
			o.add("C02", step, "", "%s recorded header modification time %d, requested %d", op.KindName(), postImg.H.Mtime, want)
		}
		if postImg.H.Ctime != preImg.H.Ctime || postImg.H.ID != preImg.H.ID || postImg.H.Launch != preImg.H.Launch {
			o.add("C02", step, "", "%s changed creation time, ID or launch script", op.KindName())
		}
	}

	switch op.Kind {
	case OpAdd:
		o.checkAdded(step, op.DI, pre, post, preImg, postImg, op.T, op.Now)
	case OpDelete:
		// C03: zeroing overwrites exactly the deleted objects; compaction ends the file at the
		// last live object
		if op.Zero {
			for _, d := range preImg.Descs {
				if _, still := postLive[d.ID]; d.Used && !still {
					if y, ok := region(post.Store, d); ok && len(bytes.Trim(y, "\x00")) != 0 {
						o.add("C03", step, "", "zeroing delete left data of object %d", d.ID)
					}
				}
			}
		}
		if op.Compact {
			end := postImg.H.DataOff
			for _, d := range postImg.Descs {
				if d.Used && d.Off+d.Size > end {
					end = d.Off + d.Size
				}
			}
			if int64(len(post.Store)) != end {
				o.add("C03", step, "", "after compaction the file ends at %d, last live object ends at %d", len(post.Store), end)
			}
		}
	case OpSetMeta, OpSetOCI, OpSetPrim:
		// content of the target is never touched by a set operation
		for id := range target {
			if i, ok := liveByID(preImg)[id]; ok {
				x, ok1 := region(pre.Store, preImg.Descs[i])
				if j, ok := postLive[id]; ok {
					y, ok2 := region(post.Store, postImg.Descs[j])
					if ok1 && (!ok2 || !bytes.Equal(x, y)) {
						o.add("C02", step, "", "%s changed the content of object %d", op.KindName(), id)
					}
				}
			}
		}
	}
}

func tableBytes(store []byte, img *SImage) []byte {
	a, b := img.H.DescOff, img.H.DescOff+img.H.DescSize
	if a < 0 || b > int64(len(store)) || a > b {
		return nil
	}
	return store[a:b]
}

func expectedExtra(d DInput) ([]byte, bool) {
	md := d.EffMd()
	out := make([]byte, 384)
	switch md.Kind {
	case MdPart:
		b := make([]byte, 11)
		putU32(b[0:], uint32(md.Fs))
		putU32(b[4:], uint32(md.Pt))
		copy(b[8:], ArchBytes(md.Arch))
		copy(out, b)
		return out, true
	case MdRaw:
		copy(out, md.Raw)
		return out, true
	case MdOCI:
		copy(out, "sha256:"+Sha256Hex(d.Content))
		return out, true
	}
	return nil, false
}

func putU32(b []byte, v uint32) {
	b[0], b[1], b[2], b[3] = byte(v), byte(v>>8), byte(v>>16), byte(v>>24)
}

// checkAdded: C01 - the new object is read back exactly (expectation computed independently
// from the descriptor input), C03 - placed at the requested alignment beyond every other object.
func (o *oracleCtx) checkAdded(step int, di DInput, pre, post Obs, preImg, postImg *SImage, t TOpt, now int64) {
	slot := -1
	if preImg != nil {
		for i, d := range preImg.Descs {
			if !d.Used {
				slot = i
				break
			}
		}
	}
	if slot < 0 || slot >= len(postImg.Descs) {
		o.add("C01", step, "", "add succeeded but no free slot existed")
		return
	}
	if o.c.ForeignIDs {
		return // the ID given to the new object is not slot+1-unique in this class (F5)
	}
	o.checkNewObject(step, di, slot, post, postImg, func() int64 {
		w, _ := expectedTime(preImg, t, now)
		return w
	}())
	nd := postImg.Descs[slot]
	for _, d := range preImg.Descs {
		if d.Used && d.Size > 0 && nd.Off < d.Off+d.Size {
			o.add("C03", step, "", "new object %d placed at %d, before the end of live object %d [%d,+%d)", nd.ID, nd.Off, d.ID, d.Off, d.Size)
		}
	}
}

func (o *oracleCtx) checkNewObject(step int, di DInput, slot int, post Obs, postImg *SImage, t int64) {
	o.tick("readback")
	nd := postImg.Descs[slot]
	bad := func(what string, got, want any) {
		o.add("C01", step, "", "added object in slot %d: %s is %v, expected %v", slot, what, got, want)
	}
	if !nd.Used {
		bad("used", nd.Used, true)
		return
	}
	if nd.Type != di.Type {
		bad("type", nd.Type, di.Type)
	}
	if nd.ID != uint32(slot+1) {
		bad("ID", nd.ID, slot+1)
	}
	if nd.Group != di.EffGroup()|GroupMask {
		bad("group", nd.Group, di.EffGroup()|GroupMask)
	}
	wantLink := uint32(0)
	switch di.Link {
	case LObject:
		wantLink = di.LinkID
	case LGroup:
		wantLink = di.LinkID | GroupMask
	}
	if nd.Link != wantLink {
		bad("link", nd.Link, wantLink)
	}
	if nd.Size != int64(len(di.Content)) {
		bad("size", nd.Size, len(di.Content))
	}
	if got, ok := region(post.Store, nd); nd.Size > 0 && (!ok || !bytes.Equal(got, di.Content)) {
		bad("content", fmt.Sprintf("%d bytes differing at %d", len(got), firstDiff(got, di.Content)), "the bytes given")
	}
	name := ""
	if di.NameSet {
		name = di.Name
	}
	var wantName [128]byte
	copy(wantName[:], name)
	if nd.Name != wantName {
		bad("name", nd.NameString(), name)
	}
	wt := t
	if di.TimeSet && di.Time != ZeroTime {
		wt = di.Time
	}
	if nd.Ctime != wt || nd.Mtime != wt {
		bad("times", fmt.Sprint(nd.Ctime, nd.Mtime), wt)
	}
	if nd.UID != 0 || nd.GID != 0 {
		bad("uid/gid", fmt.Sprint(nd.UID, nd.GID), 0)
	}
	if want, ok := expectedExtra(di); ok && !bytes.Equal(nd.Extra[:], want) {
		bad("metadata", fmt.Sprintf("%x...", nd.Extra[:16]), fmt.Sprintf("%x...", want[:16]))
	}
	if a := di.EffAlign(); a > 0 && nd.Off%int64(a) != 0 {
		o.add("C03", step, "", "object %d at offset %d is not aligned to %d", nd.ID, nd.Off, a)
	}
}

// checkCreate: C01 for the creation step.
func (o *oracleCtx) checkCreate(img *SImage) {
	co := o.c.Create
	if co == nil || img == nil {
		return
	}
	launch := ""
	if co.LaunchSet {
		launch = co.Launch
	}
	var wl [32]byte
	copy(wl[:], launch)
	if img.H.Launch != wl {
		o.add("C01", 0, "", "launch script read back as %q, given %q", img.H.Launch[:], launch)
	}
	idKnown, wantID, timeKnown, wantT := co.Expected()
	if idKnown && img.H.ID != wantID {
		for _, p := range []string{"C01", "C12"} {
			o.add(p, 0, "", "image ID read back as %x, options determine %x", img.H.ID, wantID)
		}
	}
	if !idKnown && (img.H.ID[6]>>4 != 4 || img.H.ID[8]>>6 != 2) {
		o.add("C01", 0, "", "default image ID %x is not a random (version 4) UUID", img.H.ID)
	}
	if timeKnown && (img.H.Ctime != wantT || img.H.Mtime != wantT) {
		for _, p := range []string{"C01", "C12"} {
			o.add(p, 0, "", "creation time read back as %d/%d, options determine %d", img.H.Ctime, img.H.Mtime, wantT)
		}
	}
	if img.H.Ctime != img.H.Mtime {
		o.add("C01", 0, "", "creation and modification time differ after creation: %d / %d", img.H.Ctime, img.H.Mtime)
	}
	if img.H.Total != co.EffCap() {
		o.add("C01", 0, "", "capacity %d, requested %d", img.H.Total, co.EffCap())
	}
	for i, di := range co.DIs {
		if i < len(img.Descs) {
			o.checkNewObject(0, di, i, o.c.InitObs, img, co.EffTime)
		}
	}
}

// checkQueries: C13 - recompute every query answer from the independently decoded image.
func (o *oracleCtx) checkQueries(step int, qs []Query, ob Obs, img *SImage) {
	if img == nil {
		return
	}
	mids := img.MinIDs()
	for _, q := range qs {
		o.tick("query")
		if q.Kind == "header" {
			continue // judged by the model (coq/Meta.v header_view) and by AccessorFindings
		}
		sels := q.Sels
		if q.Kind == "data" || q.Kind == "meta" {
			sels = []Selector{{Kind: SID, N: int64(q.ID)}}
		}
		wantErr := ""
		var want [][2]uint32
		var wantDesc []SDesc
		if img.H.Free == img.H.Total {
			wantErr = "ENoObjects"
		} else {
		scan:
			for _, d := range img.Descs {
				if !d.Used {
					continue
				}
				ok := true
				for _, s := range sels {
					m, e := SpecMatch(s, d)
					if e != "" {
						wantErr = e
						break scan
					}
					if !m {
						ok = false
						break
					}
				}
				if ok {
					if q.Kind != "many" && len(want) == 1 {
						wantErr = "EMultiple" // the single-object form stops at the second match
						break scan
					}
					want = append(want, [2]uint32{d.ID, d.ID - mids[d.Group]})
					wantDesc = append(wantDesc, d)
				}
			}
		}
		if wantErr == "" && q.Kind != "many" && len(want) == 0 {
			wantErr = "ENotFound"
		}
		desc := fmt.Sprintf("%s %v", q.Kind, q.Coq())
		// property-level expectation: a zero ID/group anywhere is an error (F8 when the code
		// does not reach it)
		propErr := ""
		if img.H.Free != img.H.Total {
			for _, s := range sels {
				if _, e := SpecMatch(s, SDesc{}); e == "EInvalidObjectID" || e == "EInvalidGroupID" {
					if s.Kind != SCustom {
						propErr = e
					}
				}
			}
		}
		switch {
		case wantErr != "" || q.Err != "":
			if wantErr != q.Err {
				// multiple-found vs an error on a later descriptor: order of discovery
				o.add("C13", step, "", "query %s answered %q, expected %q", desc, q.Err, wantErr)
			}
		case q.Kind == "meta":
			// judged by the model (coq/Meta.v) and, for every descriptor, by AccessorFindings
		case q.Kind == "data":
			got, ok := region(ob.Store, wantDesc[0])
			if !ok || !bytes.Equal(got, q.Bytes) {
				o.add("C01", step, "", "GetData of object %d differs from the stored bytes", q.ID)
			}
		default:
			if fmt.Sprint(want) != fmt.Sprint(q.IDs) {
				o.add("C13", step, "", "query %s returned %v, expected %v", desc, q.IDs, want)
			}
		}
		if propErr != "" && q.Err == "" {
			o.add("C13", step, "F8", "query %s has a zero ID/group but returned a match list, not %s", desc, propErr)
		}
	}
}

// OracleHistory evaluates the history properties on the implementation's recorded observations.
func OracleHistory(c *Case, dir string, counts map[string]int) []Finding {
	o := &oracleCtx{c: c, counts: counts}
	if c.Create == nil && len(c.LoadBytes) >= HdrSize {
		// C11: a file whose magic or version differs from SIF v1 is refused
		o.tick("magic-version")
		h, _ := DecodeHeader(c.LoadBytes)
		if (!bytes.Equal(h.Magic[:], Magic) || !bytes.Equal(h.Version[:], Version01)) && c.HasHandle {
			o.add("C11", 0, "", "image with magic %q version %q was loaded (%d bytes: header %x)", h.Magic[:], h.Version[:], len(c.LoadBytes), c.LoadBytes[:HdrSize])
		}
	}
	if !c.HasHandle || c.Hostile {
		return o.out
	}
	preObs := c.InitObs
	preImg := o.checkState(0, c.InitObs, c.InitObs.Res)
	o.checkCreate(preImg)
	o.checkQueries(0, c.InitQueries, c.InitObs, preImg)
	for i, st := range c.Steps {
		postImg := o.checkState(i+1, st.Obs, st.Obs.Res)
		o.checkStep(i+1, st.Op, preObs, st.Obs, preImg, postImg)
		o.checkQueries(i+1, st.Queries, st.Obs, postImg)
		preObs, preImg = st.Obs, postImg
	}
	return o.out
}

// checkDeleteSelection: C13/C02 - a delete removes exactly the objects its selector picks out
// of the image as it was (recomputed with the independent selector specification), and reports
// "not found" / the selector's own error exactly when that set is empty / undefined.
func (o *oracleCtx) checkDeleteSelection(step int, op Op, post Obs, preImg, postImg *SImage) {
	o.tick("delete-selection")
	var want []int
	selErr := ""
	for i, d := range preImg.Descs {
		if !d.Used {
			continue
		}
		m, e := SpecMatch(op.Sel, d)
		if e != "" {
			selErr = e
			break
		}
		if m {
			want = append(want, i)
		}
	}
	var gone []int
	for i, d := range preImg.Descs {
		if d.Used && (i >= len(postImg.Descs) || !postImg.Descs[i].Used) {
			gone = append(gone, i)
		}
	}
	desc := op.Sel.Coq()
	both := func(f string, a ...any) {
		for _, p := range []string{"C13", "C02"} {
			o.add(p, step, "", f, a...)
		}
	}
	switch {
	case selErr != "":
		if post.Res == "Ok" || post.Res == "ENotFound" {
			both("delete by %s answered %s, the selector reports %s", desc, post.Res, selErr)
		}
	case len(want) == 0:
		if post.Res == "Ok" {
			both("delete by %s succeeded (slots %v removed) although no object matches", desc, gone)
		}
	case post.Res == "ENotFound":
		both("delete by %s answered not-found although slots %v match", desc, want)
	case post.Res == "Ok" && fmt.Sprint(gone) != fmt.Sprint(want):
		both("delete by %s removed slots %v, the selector picks slots %v", desc, gone, want)
	}
}

package h

import (
	"bytes"
	"crypto"
	_ "crypto/sha256" // digest algorithms for the specification-side checks
	_ "crypto/sha512"
	"encoding/binary"
	"fmt"
	"strings"
	"time"

	"github.com/sigstore/sigstore/pkg/signature"
	"github.com/sylabs/sif/v2/pkg/integrity"
	"github.com/sylabs/sif/v2/pkg/sif"
)

// Generation of signed base images and of their mutations, and the specification-side
// (independent) evaluation of the integrity properties.

type BaseSpec struct {
	Scheme    string   // "pgp" or "dsse"
	DSSEKeys  []string // signers (dsse)
	Entity    int      // signing entity (pgp)
	TwoGroups bool
	CoSign    *BaseSpec // a second signing round by another party, if any
	Groups    []uint32  // OptSignGroup (nil = default: all groups)
	Objects   []uint32  // OptSignObjects (nil = none)
}

func (s BaseSpec) String() string {
	d := fmt.Sprintf("%s keys=%v entity=%d twoGroups=%v groups=%v objects=%v", s.Scheme, s.DSSEKeys, s.Entity, s.TwoGroups, s.Groups, s.Objects)
	if s.CoSign != nil {
		d += " cosign{" + s.CoSign.String() + "}"
	}
	return d
}

func fixedTime() time.Time { return time.Unix(1504657553, 0) }

// BuildUnsigned creates the objects of a base image.
func BuildUnsigned(r *Rng, twoGroups bool) *sif.Buffer {
	var b sif.Buffer
	dis := []sif.DescriptorInput{
		mustDI(sif.DataDeffile, "Bootstrap: docker\nFrom: busybox\n", sif.OptObjectName("recipe.def")),
		mustDI(sif.DataPartition, string(GenContent(r, 40+r.Intn(60))),
			sif.OptPartitionMetadata(sif.FsSquash, sif.PartPrimSys, "amd64"), sif.OptObjectAlignment(64), sif.OptObjectName("rootfs")),
		mustDI(sif.DataGenericJSON, `{"k":"v"}`, sif.OptLinkedID(2), sif.OptObjectTime(time.Unix(1600000000, 0)), sif.OptObjectAlignment(1)),
	}
	if twoGroups {
		dis = append(dis,
			// the same content a second time, in each group
			mustDI(sif.DataGeneric, "Bootstrap: docker\nFrom: busybox\n", sif.OptObjectName("copy")),
			mustDI(sif.DataLabels, "A=1\n", sif.OptGroupID(2)),
			mustDI(sif.DataEnvVar, "A=1\n", sif.OptGroupID(2)),
			mustDI(sif.DataOCIBlob, string(GenContent(r, 30)), sif.OptGroupID(2), sif.OptLinkedGroupID(1)),
			mustDI(sif.DataGeneric, "", sif.OptGroupID(2), sif.OptObjectName("empty")),
		)
	}
	_, err := sif.CreateContainer(&b,
		sif.OptCreateWithID("de170c43-36ab-44a8-bca9-1ea1a070a274"), sif.OptCreateWithTime(fixedTime()),
		sif.OptCreateWithLaunchScript("#!/usr/bin/env run-singularity\n"),
		sif.OptCreateWithDescriptorCapacity(20), sif.OptCreateWithDescriptors(dis...), sif.OptCreateWithCloseOnUnload(false))
	if err != nil {
		panic(err)
	}
	return &b
}

func signerOpts(k *Keys, s BaseSpec) []integrity.SignerOpt { return signerOptsT(k, s, 0) }

func signerOptsT(k *Keys, s BaseSpec, timeMode int) []integrity.SignerOpt {
	var opts []integrity.SignerOpt
	switch timeMode {
	case 0:
		opts = []integrity.SignerOpt{integrity.OptSignWithTime(fixedTime), integrity.OptSignDeterministic()}
	case 1:
		opts = []integrity.SignerOpt{integrity.OptSignWithTime(fixedTime)}
	case 3:
		opts = []integrity.SignerOpt{integrity.OptSignDeterministic()}
	}
	if s.Scheme == "pgp" {
		opts = append(opts, integrity.OptSignWithEntity(k.Entities[s.Entity]))
	} else {
		var ss []signature.Signer
		for _, n := range s.DSSEKeys {
			ss = append(ss, k.Signers[n])
		}
		opts = append(opts, integrity.OptSignWithSigner(ss...))
	}
	for _, g := range s.Groups {
		opts = append(opts, integrity.OptSignGroup(g))
	}
	if len(s.Objects) > 0 {
		opts = append(opts, integrity.OptSignObjects(s.Objects...))
	}
	return opts
}

// SignImage signs the image in b according to s (and its co-signing rounds).
func SignImage(k *Keys, b *sif.Buffer, s BaseSpec) error {
	for sp := &s; sp != nil; sp = sp.CoSign {
		f, err := sif.LoadContainer(b, sif.OptLoadWithCloseOnUnload(false))
		if err != nil {
			return err
		}
		sg, err := integrity.NewSigner(f, signerOpts(k, *sp)...)
		if err != nil {
			return err
		}
		if err := sg.Sign(); err != nil {
			return err
		}
	}
	return nil
}

// VOptsFor returns the verification options holding the public keys of everything in s.
func VOptsFor(s BaseSpec) VOpts {
	vo := VOpts{Objects: s.Objects}
	for sp := &s; sp != nil; sp = sp.CoSign {
		if sp.Scheme == "pgp" {
			vo.PGPEntities = appendUniqueInt(vo.PGPEntities, sp.Entity)
		} else {
			for _, n := range sp.DSSEKeys {
				vo.DSSEKeys = appendUniqueStr(vo.DSSEKeys, n)
			}
		}
	}
	return vo
}

func appendUniqueInt(xs []int, x int) []int {
	for _, y := range xs {
		if y == x {
			return xs
		}
	}
	return append(xs, x)
}

func appendUniqueStr(xs []string, x string) []string {
	for _, y := range xs {
		if y == x {
			return xs
		}
	}
	return append(xs, x)
}

// BaseSpecs is the family of base images.
func BaseSpecs() []BaseSpec {
	return []BaseSpec{
		{Scheme: "pgp", Entity: 0},
		{Scheme: "dsse", DSSEKeys: []string{"ed25519"}},
		{Scheme: "dsse", DSSEKeys: []string{"ecdsa"}, TwoGroups: true},
		{Scheme: "dsse", DSSEKeys: []string{"rsa", "ed25519-2"}, TwoGroups: true},
		{Scheme: "pgp", Entity: 1, TwoGroups: true, CoSign: &BaseSpec{Scheme: "dsse", DSSEKeys: []string{"ecdsa-2"}}},
		{Scheme: "pgp", Entity: 0, TwoGroups: true, CoSign: &BaseSpec{Scheme: "pgp", Entity: 2, Groups: []uint32{1}}},
		{Scheme: "dsse", DSSEKeys: []string{"ed25519-3"}, TwoGroups: true, Objects: []uint32{1, 3, 5}},
	}
}

// ---------------------------------------------------------------------------------------------
// mutations

type Mutation struct {
	What     string
	Img      []byte
	MustFail bool   // the property says default verification must now fail
	Class    string // known-finding class of the edit, if any
}

func flip(img []byte, off, bit int) []byte {
	b := bytes.Clone(img)
	b[off] ^= 1 << uint(bit)
	return b
}

type iregion struct {
	name     string
	from, to int
}

// regionsOf lists the interesting byte ranges of an image.
func regionsOf(img []byte) []iregion {
	si, err := DecodeImage(img)
	if err != nil {
		return []iregion{{"all", 0, len(img)}}
	}
	rs := []iregion{
		{"hdr.launch", 0, 32}, {"hdr.magic", 32, 42}, {"hdr.version", 42, 45}, {"hdr.arch", 45, 48},
		{"hdr.id", 48, 64}, {"hdr.times", 64, 80}, {"hdr.counts", 80, 96}, {"hdr.offsets", 96, 128},
	}
	fields := []struct {
		n        string
		off, len int
	}{
		{"type", 0, 4}, {"used", 4, 1}, {"id", 5, 4}, {"group", 9, 4}, {"link", 13, 4}, {"offset", 17, 8},
		{"size", 25, 8}, {"sizepad", 33, 8}, {"ctime", 41, 8}, {"mtime", 49, 8}, {"uid", 57, 8}, {"gid", 65, 8},
		{"name", 73, 128}, {"extra", 201, 384},
	}
	for i, d := range si.Descs {
		base := int(si.H.DescOff) + i*DescSize
		kind := "free"
		if d.Used {
			kind = "obj"
			if d.Type == DataSignature {
				kind = "sig"
			}
		}
		for _, f := range fields {
			if kind == "free" && f.n != "used" && f.n != "id" && f.n != "group" {
				continue
			}
			rs = append(rs, iregion{fmt.Sprintf("desc%d(%s).%s", i, kind, f.n), base + f.off, base + f.off + f.len})
		}
		if d.Used && d.Size > 0 && d.Off >= 0 && d.Off+d.Size <= int64(len(img)) {
			rs = append(rs, iregion{fmt.Sprintf("data%d(%s)", i, kind), int(d.Off), int(d.Off + d.Size)})
		}
	}
	if end := int(si.H.DescOff) + len(si.Descs)*DescSize; end < int(si.H.DataOff) {
		rs = append(rs, iregion{"gap.table-data", end, int(si.H.DataOff)})
	}
	return rs
}

// MultiSite combines a change of signed content with a change to a signature object or its
// descriptor (random multi-site mutations).
func MultiSite(r *Rng, img []byte, n int) []Mutation {
	var content, sigs []iregion
	for _, rg := range regionsOf(img) {
		switch {
		case strings.Contains(rg.name, "(sig)"):
			sigs = append(sigs, rg)
		case strings.Contains(rg.name, "(obj)") || strings.HasPrefix(rg.name, "hdr.launch") || strings.HasPrefix(rg.name, "hdr.id"):
			content = append(content, rg)
		}
	}
	var ms []Mutation
	for k := 0; k < n && len(content) > 0 && len(sigs) > 0; k++ {
		a, b := content[r.Intn(len(content))], sigs[r.Intn(len(sigs))]
		if a.to <= a.from || b.to <= b.from {
			continue
		}
		oa := a.from + r.Intn(a.to-a.from)
		ob := b.from
		if k%2 == 1 {
			ob = b.from + r.Intn(b.to-b.from)
		}
		m := flip(flip(img, oa, r.Intn(8)), ob, r.Intn(8))
		ms = append(ms, Mutation{What: fmt.Sprintf("flip %s byte %d and %s byte %d", a.name, oa, b.name, ob), Img: m})
	}
	return ms
}

// BitFlips samples perRegion single-bit flips in every iregion (all bits when perRegion < 0).
func BitFlips(r *Rng, img []byte, perRegion int) []Mutation {
	var ms []Mutation
	for _, rg := range regionsOf(img) {
		if rg.to > len(img) {
			rg.to = len(img)
		}
		n := (rg.to - rg.from) * 8
		if n <= 0 {
			continue
		}
		if perRegion < 0 || n <= perRegion {
			for i := 0; i < n; i++ {
				ms = append(ms, Mutation{fmt.Sprintf("flip %s byte %d bit %d", rg.name, rg.from+i/8, i%8), flip(img, rg.from+i/8, i%8), false, ""})
			}
			continue
		}
		for j := 0; j < perRegion; j++ {
			i := r.Intn(n)
			ms = append(ms, Mutation{fmt.Sprintf("flip %s byte %d bit %d", rg.name, rg.from+i/8, i%8), flip(img, rg.from+i/8, i%8), false, ""})
		}
	}
	return ms
}

func putLE(b []byte, off, n int, v uint64) {
	for i := 0; i < n; i++ {
		b[off+i] = byte(v >> (8 * uint(i)))
	}
}

// Catalogue: field-level rewrites of every descriptor, swaps, splices, structural edits.
func Catalogue(r *Rng, img []byte) []Mutation {
	si, err := DecodeImage(img)
	if err != nil {
		return nil
	}
	var ms []Mutation
	mut := func(what string, f func(b []byte)) {
		b := bytes.Clone(img)
		f(b)
		if !bytes.Equal(b, img) {
			ms = append(ms, Mutation{what, b, false, ""})
		}
	}
	doff := func(i int) int { return int(si.H.DescOff) + i*DescSize }
	var used []int
	for i, d := range si.Descs {
		if d.Used {
			used = append(used, i)
		}
	}
	for i, d := range si.Descs {
		o := doff(i)
		i := i
		// used flag, ID, group, link, type of every slot including free ones
		mut(fmt.Sprintf("desc%d used:=!used", i), func(b []byte) {
			if d.Used {
				b[o+4] = 0
			} else {
				b[o+4] = 1
			}
		})
		for _, v := range []uint32{0, 1, 2, d.ID + 1, 0xffffffff} {
			v := v
			mut(fmt.Sprintf("desc%d id:=%d", i, v), func(b []byte) { putLE(b, o+5, 4, uint64(v)) })
		}
		for _, v := range []uint32{GroupMask, GroupMask | 1, GroupMask | 2, GroupMask | 3, 1, 0} {
			v := v
			mut(fmt.Sprintf("desc%d group:=%#x", i, v), func(b []byte) { putLE(b, o+9, 4, uint64(v)) })
		}
		for _, v := range []uint32{0, 1, 2, GroupMask | 1, GroupMask | 2, d.Link ^ GroupMask} {
			v := v
			mut(fmt.Sprintf("desc%d link:=%#x", i, v), func(b []byte) { putLE(b, o+13, 4, uint64(v)) })
		}
		for _, v := range []uint32{DataGeneric, DataSignature, DataPartition, 0} {
			v := v
			mut(fmt.Sprintf("desc%d type:=%#x", i, v), func(b []byte) { putLE(b, o, 4, uint64(v)) })
		}
		if !d.Used {
			continue
		}
		for _, v := range []int64{d.Size - 1, d.Size + 1, 0, -1, -1 << 63} {
			v := v
			mut(fmt.Sprintf("desc%d size:=%d", i, v), func(b []byte) { putLE(b, o+25, 8, uint64(v)) })
		}
		mut(fmt.Sprintf("desc%d offset+1", i), func(b []byte) { putLE(b, o+17, 8, uint64(d.Off+1)) })
		mut(fmt.Sprintf("desc%d ctime+1", i), func(b []byte) { putLE(b, o+41, 8, uint64(d.Ctime+1)) })
		mut(fmt.Sprintf("desc%d mtime+1", i), func(b []byte) { putLE(b, o+49, 8, uint64(d.Mtime+1)) })
		mut(fmt.Sprintf("desc%d uid:=1", i), func(b []byte) { putLE(b, o+57, 8, 1) })
		mut(fmt.Sprintf("desc%d gid:=1", i), func(b []byte) { putLE(b, o+65, 8, 1) })
		mut(fmt.Sprintf("desc%d name[0]^=1", i), func(b []byte) { b[o+73] ^= 1 })
		mut(fmt.Sprintf("desc%d name[127]:=x", i), func(b []byte) { b[o+73+127] = 'x' })
		mut(fmt.Sprintf("desc%d extra[0]^=1", i), func(b []byte) { b[o+201] ^= 1 })
		mut(fmt.Sprintf("desc%d extra[383]:=1", i), func(b []byte) { b[o+201+383] = 1 })
		if d.Type == DataSignature {
			// every fingerprint byte position gets a different value
			mut(fmt.Sprintf("desc%d fingerprint[0]^=0x80", i), func(b []byte) { b[o+201+4] ^= 0x80 })
			mut(fmt.Sprintf("desc%d fingerprint[19]^=1", i), func(b []byte) { b[o+201+4+19] ^= 1 })
			mut(fmt.Sprintf("desc%d fingerprint:=0", i), func(b []byte) { copy(b[o+201+4:o+201+24], make([]byte, 20)) })
			mut(fmt.Sprintf("desc%d fingerprint:=random", i), func(b []byte) { copy(b[o+201+4:o+201+24], GenContent(r, 20)) })
			for _, v := range []uint32{0, 1, 2, 3, 4, 6} {
				v := v
				mut(fmt.Sprintf("desc%d hashtype:=%d", i, v), func(b []byte) { putLE(b, o+201, 4, uint64(v)) })
			}
		}
	}
	// swaps between descriptors and splices of one object's bytes into another
	for a := 0; a < len(used); a++ {
		for c := a + 1; c < len(used); c++ {
			x, y := used[a], used[c]
			mut(fmt.Sprintf("swap desc%d <-> desc%d", x, y), func(b []byte) {
				t := bytes.Clone(b[doff(x) : doff(x)+DescSize])
				copy(b[doff(x):], b[doff(y):doff(y)+DescSize])
				copy(b[doff(y):], t)
			})
			mut(fmt.Sprintf("swap offsets desc%d <-> desc%d", x, y), func(b []byte) {
				putLE(b, doff(x)+17, 8, uint64(si.Descs[y].Off))
				putLE(b, doff(y)+17, 8, uint64(si.Descs[x].Off))
			})
			dx, dy := si.Descs[x], si.Descs[y]
			if dx.Size > 0 && dy.Size > 0 {
				n := int(min(dx.Size, dy.Size))
				mut(fmt.Sprintf("splice data desc%d -> desc%d", x, y), func(b []byte) {
					copy(b[dy.Off:dy.Off+int64(n)], img[dx.Off:dx.Off+int64(n)])
				})
			}
			mut(fmt.Sprintf("copy desc%d over desc%d", x, y), func(b []byte) {
				copy(b[doff(y):], img[doff(x):doff(x)+DescSize])
			})
		}
	}
	// duplicate / retarget signature descriptors into a free slot
	free := -1
	for i, d := range si.Descs {
		if !d.Used {
			free = i
			break
		}
	}
	if free >= 0 {
		for _, i := range used {
			i := i
			mut(fmt.Sprintf("duplicate desc%d into free slot %d", i, free), func(b []byte) {
				copy(b[doff(free):], img[doff(i):doff(i)+DescSize])
				putLE(b, doff(free)+5, 4, uint64(free+1))
				putLE(b, 80, 8, uint64(si.H.Free-1))
			})
		}
	}
	if free >= 0 {
		// a second descriptor with the ID of a signed object, in its group, over other bytes
		// (another object's data), with and without the header's free count following
		n := 0
		for _, i := range used {
			for _, j := range used {
				di, dj := si.Descs[i], si.Descs[j]
				if i == j || di.Type == DataSignature || dj.Size == 0 || di.GroupID() == 0 || n >= 4 {
					continue
				}
				n++
				i, dj := i, dj
				for _, fixHeader := range []bool{true, false} {
					fixHeader := fixHeader
					mut(fmt.Sprintf("desc%d copied into free slot %d with the same ID over the data of object %d (header count updated: %v)", i, free, dj.ID, fixHeader), func(b []byte) {
						copy(b[doff(free):], img[doff(i):doff(i)+DescSize])
						putLE(b, doff(free)+17, 8, uint64(dj.Off))
						putLE(b, doff(free)+25, 8, uint64(dj.Size))
						putLE(b, doff(free)+33, 8, uint64(dj.Size))
						if fixHeader {
							putLE(b, 80, 8, uint64(si.H.Free-1))
						}
					})
				}
			}
		}
	}
	// header fields
	for _, hm := range []struct {
		what string
		off  int
	}{{"hdr launch[5]", 5}, {"hdr id[0]", 48}, {"hdr arch[1]", 46}, {"hdr mtime", 72}, {"hdr datasize", 120}} {
		hm := hm
		mut(hm.what+" ^=1", func(b []byte) { b[hm.off] ^= 1 })
	}
	return ms
}

// ContentFlips: one bit of the content of every object (first and last byte), one mutation each.
func ContentFlips(img []byte) []Mutation {
	si, err := DecodeImage(img)
	if err != nil {
		return nil
	}
	var ms []Mutation
	for _, d := range si.Descs {
		if !d.Used || d.Size <= 0 || d.Off < 0 || d.Off+d.Size > int64(len(img)) {
			continue
		}
		for _, o := range []int64{d.Off, d.Off + d.Size - 1} {
			ms = append(ms, Mutation{fmt.Sprintf("content of object %d: flip bit 0 of byte %d", d.ID, o), flip(img, int(o), 0), false, ""})
		}
	}
	return ms
}

// APIEdits: structural edits through the library after signing (C05).
func APIEdits(r *Rng, img []byte) []Mutation {
	var ms []Mutation
	si, _ := DecodeImage(img)
	isObj := func(id uint32) bool {
		for _, d := range si.Descs {
			if d.Used && d.ID == id {
				return d.Type != DataSignature
			}
		}
		return false
	}
	mustFail, class := false, ""
	edit := func(what string, f func(fi *sif.FileImage) error) {
		mf, cl := mustFail, class
		b := sif.NewBuffer(bytes.Clone(img))
		fi, err := sif.LoadContainer(b, sif.OptLoadWithCloseOnUnload(false))
		if err != nil {
			return
		}
		if err := f(fi); err != nil {
			return
		}
		ms = append(ms, Mutation{what, bytes.Clone(b.Bytes()), mf, cl})
	}
	mustFail = true
	edit("add unsigned object to group 1", func(f *sif.FileImage) error {
		return f.AddObject(mustDI(sif.DataGeneric, "new", sif.OptGroupID(1)), sif.OptAddDeterministic())
	})
	edit("add unsigned object to new group 7", func(f *sif.FileImage) error {
		return f.AddObject(mustDI(sif.DataGeneric, "new", sif.OptGroupID(7)), sif.OptAddDeterministic())
	})
	edit("add unsigned object to no group", func(f *sif.FileImage) error {
		return f.AddObject(mustDI(sif.DataGeneric, "new", sif.OptNoGroup()), sif.OptAddDeterministic())
	})
	edit("add two unsigned objects to no group", func(f *sif.FileImage) error {
		if err := f.AddObject(mustDI(sif.DataGeneric, "new", sif.OptNoGroup()), sif.OptAddDeterministic()); err != nil {
			return err
		}
		return f.AddObject(mustDI(sif.DataGenericJSON, "{}", sif.OptNoGroup()), sif.OptAddDeterministic())
	})
	edit("add three unsigned objects to no group", func(f *sif.FileImage) error {
		for i := 0; i < 3; i++ {
			if err := f.AddObject(mustDI(sif.DataGeneric, "x", sif.OptNoGroup()), sif.OptAddDeterministic()); err != nil {
				return err
			}
		}
		return nil
	})
	edit("add empty unsigned object to group 1", func(f *sif.FileImage) error {
		return f.AddObject(mustDI(sif.DataGeneric, "", sif.OptGroupID(1)), sif.OptAddDeterministic())
	})
	edit("add signature-typed object into group 1", func(f *sif.FileImage) error {
		return f.AddObject(mustDI(sif.DataSignature, "not a signature", sif.OptGroupID(1)), sif.OptAddDeterministic())
	})
	edit("add signature-typed object into new group 9", func(f *sif.FileImage) error {
		return f.AddObject(mustDI(sif.DataSignature, "not a signature", sif.OptGroupID(9)), sif.OptAddDeterministic())
	})
	for id := uint32(1); id <= uint32(len(si.Descs)); id++ {
		id := id
		mustFail = isObj(id)
		edit(fmt.Sprintf("delete object %d", id), func(f *sif.FileImage) error {
			return f.DeleteObject(id, sif.OptDeleteDeterministic())
		})
		edit(fmt.Sprintf("delete object %d (zero, compact)", id), func(f *sif.FileImage) error {
			return f.DeleteObject(id, sif.OptDeleteDeterministic(), sif.OptDeleteZero(true), sif.OptDeleteCompact(true))
		})
		edit(fmt.Sprintf("set metadata of object %d", id), func(f *sif.FileImage) error {
			return f.SetMetadata(id, rawMarshaler([]byte{1, 2, 3}), sif.OptSetDeterministic())
		})
	}
	mustFail, class = true, "F6"
	edit("delete whole group 2", func(f *sif.FileImage) error {
		return f.DeleteObjects(sif.WithGroupID(2), sif.OptDeleteDeterministic())
	})
	edit("delete whole group 1", func(f *sif.FileImage) error {
		return f.DeleteObjects(sif.WithGroupID(1), sif.OptDeleteDeterministic())
	})
	class = ""
	edit("delete all signatures", func(f *sif.FileImage) error {
		return f.DeleteObjects(sif.WithDataType(sif.DataSignature), sif.OptDeleteDeterministic())
	})
	return ms
}

// TableEdits: the descriptor-table catalogue of C05 (used flag, ID, group, link, type of every
// slot including free ones; retargeting or duplicating signature descriptors; pairs of edits).
func TableEdits(r *Rng, img []byte, pairs bool) []Mutation {
	si, err := DecodeImage(img)
	if err != nil {
		return nil
	}
	type edit struct {
		what string
		f    func(b []byte)
	}
	var es []edit
	doff := func(i int) int { return int(si.H.DescOff) + i*DescSize }
	free := -1
	for i, d := range si.Descs {
		o := doff(i)
		d := d
		if !d.Used && free < 0 {
			free = i
		}
		es = append(es, edit{fmt.Sprintf("desc%d used:=!used", i), func(b []byte) { b[o+4] ^= 1 }})
		for _, v := range []uint32{0, 1, 2, 3, 7, d.ID + 1, d.ID - 1} {
			v := v
			es = append(es, edit{fmt.Sprintf("desc%d id:=%d", i, v), func(b []byte) { putLE(b, o+5, 4, uint64(v)) }})
		}
		for _, v := range []uint32{GroupMask, GroupMask | 1, GroupMask | 2, GroupMask | 3, 1, 2} {
			v := v
			es = append(es, edit{fmt.Sprintf("desc%d group:=%#x", i, v), func(b []byte) { putLE(b, o+9, 4, uint64(v)) }})
		}
		for _, v := range []uint32{0, 1, 2, GroupMask | 1, GroupMask | 2, GroupMask | 3} {
			v := v
			es = append(es, edit{fmt.Sprintf("desc%d link:=%#x", i, v), func(b []byte) { putLE(b, o+13, 4, uint64(v)) }})
		}
		for _, v := range []uint32{DataGeneric, DataSignature, DataDeffile} {
			v := v
			es = append(es, edit{fmt.Sprintf("desc%d type:=%#x", i, v), func(b []byte) { putLE(b, o, 4, uint64(v)) }})
		}
	}
	if free >= 0 {
		for i, d := range si.Descs {
			if !d.Used || d.Type != DataSignature {
				continue
			}
			i := i
			for _, link := range []uint32{GroupMask | 1, GroupMask | 2, 1} {
				link := link
				es = append(es, edit{fmt.Sprintf("duplicate signature desc%d into slot %d linked to %#x", i, free, link), func(b []byte) {
					copy(b[doff(free):], img[doff(i):doff(i)+DescSize])
					putLE(b, doff(free)+5, 4, uint64(free+1))
					putLE(b, doff(free)+13, 4, uint64(link))
				}})
			}
		}
	}
	for i, a := range si.Descs {
		for j, c := range si.Descs {
			if i != j && a.Used && c.Used && a.Type != DataSignature && c.Type != DataSignature {
				i, j := i, j
				es = append(es, edit{fmt.Sprintf("copy desc%d over desc%d", i, j), func(b []byte) {
					copy(b[doff(j):], img[doff(i):doff(i)+DescSize])
				}})
			}
		}
	}
	var ungroup []func(b []byte)
	for i, d := range si.Descs {
		if d.Used && d.Type != DataSignature {
			o := doff(i)
			ungroup = append(ungroup, func(b []byte) { putLE(b, o+9, 4, uint64(GroupMask)) })
		}
	}
	var ms []Mutation
	apply := func(what string, fs ...func(b []byte)) {
		b := bytes.Clone(img)
		for _, f := range fs {
			f(b)
		}
		if !bytes.Equal(b, img) {
			ms = append(ms, Mutation{What: what, Img: b})
		}
	}
	for _, e := range es {
		apply(e.what, e.f)
	}
	if len(ungroup) >= 2 {
		apply("two objects moved out of every group", ungroup[0], ungroup[1])
		apply("every object moved out of every group", ungroup...)
	}
	np := 150
	if pairs {
		np = 3000
	}
	for k := 0; k < np && len(es) > 1; k++ {
		a, c := es[r.Intn(len(es))], es[r.Intn(len(es))]
		apply(a.what+" + "+c.what, a.f, c.f)
	}
	return ms
}

// ---------------------------------------------------------------------------------------------
// specification side: protected view and default-verification acceptance, computed from the raw
// bytes with the independent decoder and the oracle tables

func headerStream(h SHeader) []byte {
	var b []byte
	b = append(b, h.Launch[:]...)
	b = append(b, h.Magic[:]...)
	b = append(b, h.Version[:]...)
	b = append(b, h.ID[:]...)
	return b
}

func descStream(d SDesc, rel uint32) []byte {
	b := make([]byte, 0, 557)
	b = binary.LittleEndian.AppendUint32(b, uint32(d.Type))
	if d.Used {
		b = append(b, 1)
	} else {
		b = append(b, 0)
	}
	b = binary.LittleEndian.AppendUint32(b, rel)
	b = binary.LittleEndian.AppendUint32(b, d.Link)
	b = binary.LittleEndian.AppendUint64(b, uint64(d.Size))
	b = binary.LittleEndian.AppendUint64(b, uint64(d.Ctime))
	b = binary.LittleEndian.AppendUint64(b, uint64(d.UID))
	b = binary.LittleEndian.AppendUint64(b, uint64(d.GID))
	b = append(b, d.Name[:]...)
	b = append(b, d.Extra[:]...)
	return b
}

var algHash = map[string]crypto.Hash{"sha224": crypto.SHA224, "sha256": crypto.SHA256, "sha384": crypto.SHA384,
	"sha512": crypto.SHA512, "sha512_224": crypto.SHA512_224, "sha512_256": crypto.SHA512_256}

func digestOK(d PDigest, data []byte) bool {
	h, ok := algHash[d.Alg]
	if !ok || !h.Available() {
		return false
	}
	w := h.New()
	w.Write(data)
	return bytes.Equal(w.Sum(nil), d.Val)
}

func groupMin(si *SImage, g uint32) (uint32, bool) {
	min, ok := uint32(0), false
	for _, d := range si.Descs {
		if d.Used && d.GroupID() == g && (!ok || d.ID < min) {
			min, ok = d.ID, true
		}
	}
	return min, ok
}

// SpecDefaultAccept decides, from the property's wording, whether default verification may
// succeed on this image under the key material of the case. reason explains a refusal.
func SpecDefaultAccept(c *VCase) (bool, string) {
	si, err := DecodeImage(c.Image)
	if err != nil {
		return false, "does not decode"
	}
	facts := map[string]*SigFacts{}
	for i := range c.Sigs {
		facts[string(c.Sigs[i].Content)] = &c.Sigs[i]
	}
	groups := map[uint32]bool{}
	nused := 0
	for _, d := range si.Descs {
		if !d.Used {
			continue
		}
		nused++
		if d.GroupID() == 0 {
			if d.Type != DataSignature {
				return false, fmt.Sprintf("object %d is not in any group", d.ID)
			}
			continue
		}
		groups[d.GroupID()] = true
	}
	if nused == 0 || len(groups) == 0 {
		return false, "no grouped objects"
	}
	for g := range groups {
		nsig := 0
		minID, _ := groupMin(si, g)
		for _, s := range si.Descs {
			if !s.Used || s.Type != DataSignature || !s.LinkIsGroup() || s.LinkID() != g {
				continue
			}
			f := facts[string(sectionBytes(c.Image, s))]
			if f == nil || f.Legacy {
				continue
			}
			nsig++
			ht := int(int32(le32(s.Extra[0:])))
			var o *Opened
			switch f.Kind {
			case 0:
				o = f.DSSE[ht]
			case 1:
				o = f.PGP
			}
			if o == nil {
				return false, fmt.Sprintf("signature %d does not open under the supplied keys", s.ID)
			}
			md := c.MDs[string(o.Payload)]
			if md == nil {
				return false, fmt.Sprintf("signature %d: payload does not parse", s.ID)
			}
			if o.Entity != nil && !bytes.Equal(o.Entity, fingerprintOf(s)) {
				return false, fmt.Sprintf("signature %d: descriptor fingerprint is not the signer's", s.ID)
			}
			if !digestOK(md.Header, headerStream(si.H)) {
				return false, fmt.Sprintf("signature %d: header digest", s.ID)
			}
			signed := map[uint32]POMD{}
			for _, om := range md.Objects {
				if _, dup := signed[minID+om.Rel]; !dup {
					signed[minID+om.Rel] = om
				}
			}
			members := 0
			for _, d := range si.Descs {
				if !d.Used || d.GroupID() != g {
					continue
				}
				members++
				om, ok := signed[d.ID]
				if !ok {
					return false, fmt.Sprintf("signature %d does not cover object %d", s.ID, d.ID)
				}
				if !digestOK(om.D, descStream(d, d.ID-minID)) {
					return false, fmt.Sprintf("signature %d: descriptor digest of object %d", s.ID, d.ID)
				}
				if !digestOK(om.O, sectionBytes(c.Image, d)) {
					return false, fmt.Sprintf("signature %d: content digest of object %d", s.ID, d.ID)
				}
			}
			for id := range signed {
				found := false
				for _, d := range si.Descs {
					if d.Used && d.GroupID() == g && d.ID == id {
						found = true
					}
				}
				if !found {
					return false, fmt.Sprintf("signature %d covers object %d which is gone", s.ID, id)
				}
			}
		}
		if nsig == 0 {
			return false, fmt.Sprintf("group %d carries no signature", g)
		}
	}
	return true, ""
}

func fingerprintOf(s SDesc) []byte {
	fp := s.Extra[4:24]
	if len(bytes.Trim(fp, "\x00")) == 0 {
		return nil
	}
	return fp
}

// ProtectedView is what a signature protects of an object: compared between the signed base
// image and a mutant for every object the library reported as verified.
type ProtectedView struct {
	Type                  int32
	Used                  bool
	Rel, Link             uint32
	Size, Ctime, UID, GID int64
	Name                  [128]byte
	Extra                 [384]byte
	Content               string
}

func viewOf(img []byte, si *SImage, d SDesc) ProtectedView {
	m, _ := groupMin(si, d.GroupID())
	return ProtectedView{d.Type, d.Used, d.ID - m, d.Link, d.Size, d.Ctime, d.UID, d.GID, d.Name, d.Extra, string(sectionBytes(img, d))}
}

// TamperFindings: C04 - the mutant verified, so everything reported as verified must have the
// protected view some object of the same group had in the signed base image.
func TamperFindings(base []byte, c *VCase, what string) []Finding {
	if c.Obs.NewErr != [2]int64{} || c.Obs.VerifyErr != [2]int64{} || c.Opts.IgnoreErrors {
		return nil
	}
	bi, err1 := DecodeImage(base)
	mi, err2 := DecodeImage(c.Image)
	if err1 != nil || err2 != nil {
		return nil
	}
	var out []Finding
	add := func(format string, a ...any) {
		out = append(out, Finding{Property: "C04", Case: c.ID, What: fmt.Sprintf(format, a...), Input: what})
	}
	if !bytes.Equal(headerStream(bi.H), headerStream(mi.H)) {
		add("verification accepted an image whose launch script / magic / version / ID differ from the signed one")
	}
	baseViews := map[string]bool{}
	for _, d := range bi.Descs {
		if d.Used {
			baseViews[fmt.Sprintf("%d|%v", d.GroupID(), viewOf(base, bi, d))] = true
		}
	}
	if len(c.Opts.Groups) == 0 && len(c.Opts.Objects) == 0 && !c.Opts.Legacy && !c.Opts.LegacyAll {
		// a default verification that succeeds reports the whole image as verified
		for _, d := range mi.Descs {
			if d.Used && d.Type != DataSignature && !baseViews[fmt.Sprintf("%d|%v", d.GroupID(), viewOf(c.Image, mi, d))] {
				add("default verification succeeded on an image in which object %d does not have the protected view of any signed object", d.ID)
			}
		}
		// ... and what it reports is what was signed, object for object: the protected views
		// of the two images coincide as multisets (nothing signed vanished or was doubled)
		count := map[string]int{}
		for _, d := range bi.Descs {
			if d.Used && d.Type != DataSignature {
				count[fmt.Sprintf("%d|%v", d.GroupID(), viewOf(base, bi, d))]++
			}
		}
		for _, d := range mi.Descs {
			if d.Used && d.Type != DataSignature {
				count[fmt.Sprintf("%d|%v", d.GroupID(), viewOf(c.Image, mi, d))]--
			}
		}
		for _, d := range bi.Descs {
			if d.Used && d.Type != DataSignature && count[fmt.Sprintf("%d|%v", d.GroupID(), viewOf(base, bi, d))] > 0 {
				add("default verification succeeded although the signed object %d (as signed) is no longer in the image", d.ID)
				break
			}
		}
	}
	for _, r := range c.Obs.Results {
		if r.Err != [2]int64{} {
			continue
		}
		for k, id := range r.Verified {
			// the reported object is identified by ID and place (IDs can be duplicated by a rewrite)
			for _, d := range mi.Descs {
				if d.Used && d.ID == id && (k >= len(r.Ranges) || d.Off == r.Ranges[k][0] && d.Size == r.Ranges[k][1]) {
					if !baseViews[fmt.Sprintf("%d|%v", d.GroupID(), viewOf(c.Image, mi, d))] {
						add("object %d reported as verified does not have the protected view of any signed object", id)
					}
					break
				}
			}
		}
	}
	return out
}

func describeMutation(spec BaseSpec, what string) string {
	return strings.TrimSpace("base{" + spec.String() + "} mutation{" + what + "}")
}

package h

import (
	"bytes"
	"encoding/binary"
	"errors"
)

// Independent decoder / encoder of the SIF v1 layout. It shares no code with pkg/sif: field
// positions are the literal numbers of the format specification.

const (
	HdrSize  = 128
	DescSize = 585
)

var Magic = []byte("SIF_MAGIC\x00")
var Version01 = []byte("01\x00")

type SHeader struct {
	Launch                                                          [32]byte
	Magic                                                           [10]byte
	Version                                                         [3]byte
	Arch                                                            [3]byte
	ID                                                              [16]byte
	Ctime, Mtime, Free, Total, DescOff, DescSize, DataOff, DataSize int64
}

type SDesc struct {
	Type                                       int32
	Used                                       bool
	UsedByte                                   byte
	ID, Group, Link                            uint32
	Off, Size, SizePad, Ctime, Mtime, UID, GID int64
	Name                                       [128]byte
	Extra                                      [384]byte
}

func le64(b []byte) int64  { return int64(binary.LittleEndian.Uint64(b)) }
func le32(b []byte) uint32 { return binary.LittleEndian.Uint32(b) }

func DecodeHeader(b []byte) (SHeader, error) {
	var h SHeader
	if len(b) < HdrSize {
		return h, errors.New("short header")
	}
	copy(h.Launch[:], b[0:32])
	copy(h.Magic[:], b[32:42])
	copy(h.Version[:], b[42:45])
	copy(h.Arch[:], b[45:48])
	copy(h.ID[:], b[48:64])
	h.Ctime = le64(b[64:])
	h.Mtime = le64(b[72:])
	h.Free = le64(b[80:])
	h.Total = le64(b[88:])
	h.DescOff = le64(b[96:])
	h.DescSize = le64(b[104:])
	h.DataOff = le64(b[112:])
	h.DataSize = le64(b[120:])
	return h, nil
}

func EncodeHeader(h SHeader) []byte {
	b := make([]byte, HdrSize)
	copy(b[0:], h.Launch[:])
	copy(b[32:], h.Magic[:])
	copy(b[42:], h.Version[:])
	copy(b[45:], h.Arch[:])
	copy(b[48:], h.ID[:])
	for i, v := range []int64{h.Ctime, h.Mtime, h.Free, h.Total, h.DescOff, h.DescSize, h.DataOff, h.DataSize} {
		binary.LittleEndian.PutUint64(b[64+8*i:], uint64(v))
	}
	return b
}

func DecodeDesc(b []byte) SDesc {
	var d SDesc
	d.Type = int32(le32(b[0:]))
	d.UsedByte = b[4]
	d.Used = b[4] != 0
	d.ID = le32(b[5:])
	d.Group = le32(b[9:])
	d.Link = le32(b[13:])
	d.Off = le64(b[17:])
	d.Size = le64(b[25:])
	d.SizePad = le64(b[33:])
	d.Ctime = le64(b[41:])
	d.Mtime = le64(b[49:])
	d.UID = le64(b[57:])
	d.GID = le64(b[65:])
	copy(d.Name[:], b[73:201])
	copy(d.Extra[:], b[201:585])
	return d
}

func EncodeDesc(d SDesc) []byte {
	b := make([]byte, DescSize)
	binary.LittleEndian.PutUint32(b[0:], uint32(d.Type))
	b[4] = d.UsedByte
	if d.Used && d.UsedByte == 0 {
		b[4] = 1
	}
	binary.LittleEndian.PutUint32(b[5:], d.ID)
	binary.LittleEndian.PutUint32(b[9:], d.Group)
	binary.LittleEndian.PutUint32(b[13:], d.Link)
	for i, v := range []int64{d.Off, d.Size, d.SizePad, d.Ctime, d.Mtime, d.UID, d.GID} {
		binary.LittleEndian.PutUint64(b[17+8*i:], uint64(v))
	}
	copy(b[73:], d.Name[:])
	copy(b[201:], d.Extra[:])
	return b
}

// SImage is an independently decoded image.
type SImage struct {
	H     SHeader
	Descs []SDesc
}

// DecodeImage decodes the header and descriptor table out of raw bytes.
func DecodeImage(b []byte) (*SImage, error) {
	h, err := DecodeHeader(b)
	if err != nil {
		return nil, err
	}
	if !bytes.Equal(h.Magic[:], Magic) || !bytes.Equal(h.Version[:], Version01) {
		return nil, errors.New("bad magic/version")
	}
	if h.Total < 0 || h.DescOff < 0 || (h.Total > 0 && h.DescOff+h.Total*DescSize > int64(len(b))) {
		return nil, errors.New("table out of range")
	}
	img := &SImage{H: h}
	for i := int64(0); i < h.Total; i++ {
		o := h.DescOff + i*DescSize
		img.Descs = append(img.Descs, DecodeDesc(b[o:o+DescSize]))
	}
	return img, nil
}

func (d SDesc) GroupID() uint32   { return d.Group &^ GroupMask }
func (d SDesc) LinkIsGroup() bool { return d.Link&GroupMask == GroupMask }
func (d SDesc) LinkID() uint32    { return d.Link &^ GroupMask }
func (d SDesc) NameString() string {
	return string(bytes.TrimRight(d.Name[:], "\x00"))
}
func (d SDesc) PartType() int32 { return int32(le32(d.Extra[4:])) }
func (d SDesc) IsPrimary() bool { return d.Type == DataPartition && d.PartType() == 2 }

// MinIDs recomputes the per-raw-group minimum IDs over in-use descriptors.
func (img *SImage) MinIDs() map[uint32]uint32 {
	m := map[uint32]uint32{}
	for _, d := range img.Descs {
		if !d.Used {
			continue
		}
		if v, ok := m[d.Group]; !ok || d.ID < v {
			m[d.Group] = d.ID
		}
	}
	return m
}

// digestText returns the OCI digest text recorded in extra (up to the first NUL).
func (d SDesc) DigestText() string {
	e := d.Extra[:]
	if i := bytes.IndexByte(e, 0); i >= 0 {
		e = e[:i]
	}
	return string(e)
}

func validDigestText(s string) bool {
	if len(s) != 71 || s[:7] != "sha256:" {
		return false
	}
	for _, c := range s[7:] {
		if !(c >= '0' && c <= '9' || c >= 'a' && c <= 'f') {
			return false
		}
	}
	return true
}

// SpecMatch is the independent meaning of a selector; err is the error class, if any.
func SpecMatch(s Selector, d SDesc) (bool, string) {
	switch s.Kind {
	case SType:
		return int64(d.Type) == s.N, ""
	case SID:
		if s.N == 0 {
			return false, "EInvalidObjectID"
		}
		return int64(d.ID) == s.N, ""
	case SNoGroup:
		return d.GroupID() == 0, ""
	case SGroup:
		if s.N == 0 {
			return false, "EInvalidGroupID"
		}
		return int64(d.GroupID()) == s.N, ""
	case SLinkedID:
		if s.N == 0 {
			return false, "EInvalidObjectID"
		}
		return !d.LinkIsGroup() && int64(d.LinkID()) == s.N, ""
	case SLinkedGroup:
		if s.N == 0 {
			return false, "EInvalidGroupID"
		}
		return d.LinkIsGroup() && int64(d.LinkID()) == s.N, ""
	case SPartType:
		return d.Type == DataPartition && int64(d.PartType()) == s.N, ""
	case SOCIDigest:
		if d.Type != DataOCIBlob && d.Type != DataOCIRootIndex {
			return false, ""
		}
		t := d.DigestText()
		return validDigestText(t) && t == s.Alg+":"+s.Hex, ""
	}
	switch s.Custom {
	case CFalse:
		return false, ""
	case CSizeGe:
		return d.Size >= s.N, ""
	case CNameNonEmpty:
		return d.NameString() != "", ""
	case CErrOnID:
		if int64(d.ID) == s.N {
			return false, "ECustom"
		}
		return true, ""
	}
	return true, ""
}

package h

// Rng is a splitmix64 generator; every random choice of the harness derives from one of these.
type Rng struct{ s uint64 }

func NewRng(seed uint64) *Rng { return &Rng{s: seed} }

func (r *Rng) U64() uint64 {
	r.s += 0x9e3779b97f4a7c15
	z := r.s
	z = (z ^ (z >> 30)) * 0xbf58476d1ce4e5b9
	z = (z ^ (z >> 27)) * 0x94d049bb133111eb
	return z ^ (z >> 31)
}

// Intn returns a value in [0,n).
func (r *Rng) Intn(n int) int {
	if n <= 0 {
		return 0
	}
	return int(r.U64() % uint64(n))
}

// Chance returns true with probability num/den.
func (r *Rng) Chance(num, den int) bool { return r.Intn(den) < num }

// Fork derives an independent generator.
func (r *Rng) Fork() *Rng { return NewRng(r.U64()) }

func Pick[T any](r *Rng, xs []T) T { return xs[r.Intn(len(xs))] }

// Read makes an Rng usable where an io.Reader of random bytes is wanted.
func (r *Rng) Read(p []byte) (int, error) {
	for i := range p {
		p[i] = byte(r.U64())
	}
	return len(p), nil
}

package h

import (
	"bytes"
	"context"
	"crypto"
	"crypto/ecdsa"
	"crypto/ed25519"
	"crypto/elliptic"
	"crypto/sha256"
	"encoding/base64"
	"encoding/hex"
	"encoding/json"
	"errors"
	"fmt"
	"io"
	"math/big"
	"os"
	"path/filepath"
	"sort"
	"strings"
	"time"

	"github.com/ProtonMail/go-crypto/openpgp"
	"github.com/ProtonMail/go-crypto/openpgp/clearsign"
	"github.com/ProtonMail/go-crypto/openpgp/packet"
	"github.com/sigstore/sigstore/pkg/cryptoutils"
	"github.com/sigstore/sigstore/pkg/signature"
	"github.com/sigstore/sigstore/pkg/signature/dsse"
	"github.com/sigstore/sigstore/pkg/signature/options"
	"github.com/sylabs/sif/v2/pkg/integrity"
	"github.com/sylabs/sif/v2/pkg/sif"
)

// ---------------------------------------------------------------------------------------------
// key material

type Keys struct {
	Names     []string // DSSE key names, index = opaque key number in the model
	Signers   map[string]signature.Signer
	Verifiers map[string]signature.Verifier
	Pubs      map[string]crypto.PublicKey
	Entities  []*openpgp.Entity
}

func must[T any](v T, err error) T {
	if err != nil {
		panic(err)
	}
	return v
}

// LoadKeys loads the repository's test keys and generates a few more of each kind.
func LoadKeys(repo string) *Keys {
	k := &Keys{Signers: map[string]signature.Signer{}, Verifiers: map[string]signature.Verifier{}, Pubs: map[string]crypto.PublicKey{}}
	dir := filepath.Join(repo, "test", "keys")
	for _, n := range []string{"rsa", "ecdsa", "ed25519"} {
		s := must(signature.LoadSignerFromPEMFile(filepath.Join(dir, n+"-private.pem"), crypto.SHA256, cryptoutils.SkipPassword))
		pub := must(cryptoutils.UnmarshalPEMToPublicKey(must(os.ReadFile(filepath.Join(dir, n+"-public.pem")))))
		k.add(n, s, pub)
	}
	for i := 2; i <= 3; i++ {
		// derived keys are a fixed function of their index, so that replays use the same keys
		priv := ed25519.NewKeyFromSeed(bytes.Repeat([]byte{byte(i)}, ed25519.SeedSize))
		k.add(fmt.Sprintf("ed25519-%d", i), must(signature.LoadSigner(priv, crypto.SHA256)), priv.Public())
		ek := new(ecdsa.PrivateKey)
		ek.Curve = elliptic.P256()
		ek.D = new(big.Int).SetBytes(bytes.Repeat([]byte{byte(0x40 + i)}, 32))
		ek.X, ek.Y = ek.Curve.ScalarBaseMult(ek.D.Bytes())
		k.add(fmt.Sprintf("ecdsa-%d", i), must(signature.LoadSigner(ek, crypto.SHA256)), &ek.PublicKey)
	}
	f := must(os.Open(filepath.Join(dir, "private.asc")))
	defer f.Close()
	el := must(openpgp.ReadArmoredKeyRing(f))
	k.Entities = append(k.Entities, el[0])
	for i := 0; i < 2; i++ {
		e := must(openpgp.NewEntity(fmt.Sprintf("Verif %d", i), "", fmt.Sprintf("v%d@example.com", i),
			&packet.Config{Algorithm: packet.PubKeyAlgoEdDSA, Rand: NewRng(uint64(1000 + i)), Time: func() time.Time { return time.Unix(1504657553, 0) }}))
		k.Entities = append(k.Entities, e)
	}
	return k
}

func must2[A, B any](a A, b B, err error) (A, B) {
	if err != nil {
		panic(err)
	}
	return a, b
}

func (k *Keys) add(name string, s signature.Signer, pub crypto.PublicKey) {
	k.Names = append(k.Names, name)
	k.Signers[name] = s
	k.Pubs[name] = pub
	k.Verifiers[name] = must(signature.LoadVerifier(pub, crypto.SHA256))
}

// KeyNumber is the opaque number of a public key in the model (-1 if unknown).
func (k *Keys) KeyNumber(pub crypto.PublicKey) int {
	for i, n := range k.Names {
		if eq, ok := k.Pubs[n].(interface{ Equal(crypto.PublicKey) bool }); ok && eq.Equal(pub) {
			return i
		}
	}
	return -1
}

// ---------------------------------------------------------------------------------------------
// verification options and observations

type VOpts struct {
	Groups, Objects []uint32
	Legacy          bool
	LegacyAll       bool
	DSSEKeys        []string // verifiers supplied (nil = none)
	PGPEntities     []int    // entities in the key ring (nil = none)
	IgnoreErrors    bool     // the callback ignores every error
}

func (v VOpts) Coq() string {
	z := func(xs []uint32) string {
		var p []string
		for _, x := range xs {
			p = append(p, fmt.Sprint(x))
		}
		return "[" + strings.Join(p, ";") + "]"
	}
	return fmt.Sprintf("(mkVO %s %s %s %s)", z(v.Groups), z(v.Objects), CoqBool(v.Legacy || v.LegacyAll), CoqBool(v.LegacyAll))
}

type VRes struct {
	Sig      uint32
	Verified []uint32
	Keys     []int
	Entity   []byte
	Err      [2]int64
	SigOff   int64      // file offset of the signature object (IDs may be duplicated in hostile images)
	Ranges   [][2]int64 // offset and size of each verified object
}

type VObsAll struct {
	NewErr, VerifyErr [2]int64
	Results           []VRes
	Any, All          [][]byte
	AnyErr, AllErr    bool
	Altered           bool // the image bytes changed during verification / the queries
}

// IErrCode maps an error of pkg/integrity to the model's (class, id) code (ExecI.ierr_code).
func IErrCode(err error) [2]int64 {
	if err == nil {
		return [2]int64{0, 0}
	}
	var de *integrity.DescriptorIntegrityError
	var oe *integrity.ObjectIntegrityError
	var nf *integrity.SignatureNotFoundError
	var nv *integrity.SignatureNotValidError
	msg := err.Error()
	switch {
	case errors.Is(err, integrity.ErrHeaderIntegrity):
		return [2]int64{12, 0}
	case errors.As(err, &de):
		return [2]int64{13, int64(de.ID)}
	case errors.As(err, &oe):
		return [2]int64{14, int64(oe.ID)}
	case errors.As(err, &nf):
		return [2]int64{4, 0}
	case errors.As(err, &nv):
		return [2]int64{8, 0}
	case errors.Is(err, integrity.ErrNoKeyMaterial):
		return [2]int64{20, 0}
	}
	for _, p := range []struct {
		sub  string
		code int64
	}{
		{"non-signature object not associated with object group", 1},
		{"group not found", 2},
		{"no groups found", 3},
		{"key material not provided for DSSE", 5},
		{"key material not provided for PGP", 6},
		{"signature format not recognized", 7},
		{"fingerprint in descriptor does not correspond", 9},
		{"signed object not found", 11},
		{"object not signed", 10},
		{"hash algorithm unsupported", 15},
		{"digest malformed", 16},
		{"encoding/hex", 16},
		{"minimum ID value invalid", 17},
		{"unexpected group ID", 18},
		{"no objects specified", 19},
	} {
		if strings.Contains(msg, p.sub) {
			return [2]int64{p.code, 0}
		}
	}
	code := map[string]int64{
		"ENoObjects": 1, "ENotFound": 2, "EMultiple": 3, "EInvalidObjectID": 4, "EInvalidGroupID": 5,
		"EUnexpectedType": 6, "ENegOffset": 7, "EBadSize": 8, "EShortData": 9, "ECapacity": 10,
		"EExtraTooLarge": 11, "EAlignOverflow": 12, "EIDOverflow": 13, "ETruncRange": 14,
	}[ErrClass(err)]
	if code == 0 {
		code = 99
	}
	if strings.Contains(msg, "failed to add object") {
		return [2]int64{21, code}
	}
	return [2]int64{100 + code, 0}
}

func verifierOpts(k *Keys, vo VOpts, cb integrity.VerifyCallback) []integrity.VerifierOpt {
	var opts []integrity.VerifierOpt
	for _, g := range vo.Groups {
		opts = append(opts, integrity.OptVerifyGroup(g))
	}
	for _, o := range vo.Objects {
		opts = append(opts, integrity.OptVerifyObject(o))
	}
	if vo.LegacyAll {
		opts = append(opts, integrity.OptVerifyLegacyAll())
	} else if vo.Legacy {
		opts = append(opts, integrity.OptVerifyLegacy())
	}
	if vo.DSSEKeys != nil {
		var vs []signature.Verifier
		for _, n := range vo.DSSEKeys {
			vs = append(vs, k.Verifiers[n])
		}
		if vs == nil {
			vs = []signature.Verifier{}
		}
		opts = append(opts, integrity.OptVerifyWithVerifier(vs...))
	}
	if vo.PGPEntities != nil {
		el := openpgp.EntityList{}
		for _, i := range vo.PGPEntities {
			el = append(el, k.Entities[i])
		}
		opts = append(opts, integrity.OptVerifyWithKeyRing(el))
	}
	if cb != nil {
		opts = append(opts, integrity.OptVerifyCallback(cb))
	}
	return opts
}

// RunVerify runs NewVerifier / Verify / AnySignedBy / AllSignedBy of the real library on img.
func RunVerify(k *Keys, img []byte, vo VOpts) (obs VObsAll, loaded bool) {
	buf := sif.NewBuffer(bytes.Clone(img))
	f, err := sif.LoadContainer(buf, sif.OptLoadWithCloseOnUnload(false))
	if err != nil {
		return obs, false
	}
	defer func() { obs.Altered = !bytes.Equal(buf.Bytes(), img) }()
	cb := func(r integrity.VerifyResult) bool {
		vr := VRes{Sig: r.Signature().ID(), Err: IErrCode(r.Error())}
		vr.SigOff = r.Signature().Offset()
		for _, d := range r.Verified() {
			vr.Verified = append(vr.Verified, d.ID())
			vr.Ranges = append(vr.Ranges, [2]int64{d.Offset(), d.Size()})
		}
		for _, pk := range r.Keys() {
			vr.Keys = append(vr.Keys, k.KeyNumber(pk))
		}
		if e := r.Entity(); e != nil {
			vr.Entity = append([]byte(nil), e.PrimaryKey.Fingerprint...)
		}
		obs.Results = append(obs.Results, vr)
		return vo.IgnoreErrors
	}
	v, err := integrity.NewVerifier(f, verifierOpts(k, vo, cb)...)
	obs.NewErr = IErrCode(err)
	if err != nil {
		return obs, true
	}
	obs.VerifyErr = IErrCode(v.Verify())
	a, err := v.AnySignedBy()
	obs.Any, obs.AnyErr = a, err != nil
	a, err = v.AllSignedBy()
	obs.All, obs.AllErr = a, err != nil
	return obs, true
}

// ---------------------------------------------------------------------------------------------
// the oracle tables: what go-crypto / sigstore / encoding/json say about given bytes, computed
// without going through pkg/integrity

const MediaType = "application/vnd.sylabs.sif-metadata+json"

type SigFacts struct {
	Content []byte
	Kind    int // 0 DSSE, 1 clear-sign, 2 unknown
	Legacy  bool
	DSSE    map[int]*Opened // by descriptor hash type
	PGP     *Opened
}

type Opened struct {
	Payload []byte
	Keys    []int
	Entity  []byte
}

type envelope struct {
	PayloadType string `json:"payloadType"`
	Payload     string `json:"payload"`
	Signatures  []struct {
		KeyID string `json:"keyid"`
		Sig   string `json:"sig"`
	} `json:"signatures"`
}

func classifySig(c []byte) (kind int, legacy bool) {
	kind = 2
	var e envelope
	if err := json.NewDecoder(bytes.NewReader(c)).Decode(&e); err == nil && e.PayloadType == MediaType {
		kind = 0
	}
	blk, _ := clearsign.Decode(c)
	if blk != nil {
		if kind != 0 {
			kind = 1
		}
		legacy = bytes.HasPrefix(blk.Plaintext, []byte("SIFHASH:\n"))
	}
	return kind, legacy
}

type recVerifier struct {
	signature.Verifier
	n    int
	keys *[]int
}

func (r recVerifier) VerifySignature(sig, msg io.Reader, opts ...signature.VerifyOption) error {
	err := r.Verifier.VerifySignature(sig, msg, opts...)
	if err == nil {
		*r.keys = append(*r.keys, r.n)
	}
	return err
}

func hashOfType(ht int32) (crypto.Hash, bool) {
	switch ht {
	case 1:
		return crypto.SHA256, true
	case 2:
		return crypto.SHA384, true
	case 3:
		return crypto.SHA512, true
	case 4:
		return crypto.BLAKE2s_256, true
	case 5:
		return crypto.BLAKE2b_256, true
	}
	return 0, false
}

func openDSSE(k *Keys, names []string, c []byte, ht int32) *Opened {
	h, ok := hashOfType(ht)
	if !ok || names == nil {
		return nil
	}
	var accepted []int
	var vs []signature.Verifier
	for _, n := range names {
		idx := -1
		for i, nn := range k.Names {
			if nn == n {
				idx = i
			}
		}
		vs = append(vs, recVerifier{k.Verifiers[n], idx, &accepted})
	}
	v := dsse.WrapMultiVerifier(MediaType, 1, vs...)
	if err := v.VerifySignature(bytes.NewReader(c), nil, options.WithContext(context.Background()), options.WithHash(h)); err != nil {
		return nil
	}
	var e envelope
	if err := json.Unmarshal(c, &e); err != nil || e.PayloadType != MediaType {
		return nil
	}
	p, err := base64.StdEncoding.DecodeString(e.Payload)
	if err != nil {
		if p, err = base64.URLEncoding.DecodeString(e.Payload); err != nil {
			return nil
		}
	}
	return &Opened{Payload: p, Keys: accepted}
}

func openPGP(k *Keys, ents []int, c []byte) *Opened {
	if ents == nil {
		return nil
	}
	blk, _ := clearsign.Decode(c)
	if blk == nil {
		return nil
	}
	el := openpgp.EntityList{}
	for _, i := range ents {
		el = append(el, k.Entities[i])
	}
	e, err := openpgp.CheckDetachedSignatureAndHash(el, bytes.NewReader(blk.Bytes), blk.ArmoredSignature.Body,
		[]crypto.Hash{crypto.SHA224, crypto.SHA256, crypto.SHA384, crypto.SHA512}, nil)
	if err != nil {
		return nil
	}
	return &Opened{Payload: blk.Plaintext, Entity: append([]byte(nil), e.PrimaryKey.Fingerprint...)}
}

// parsed image metadata
type PDigest struct {
	Alg string
	Val []byte
}
type POMD struct {
	Rel  uint32
	D, O PDigest
}
type PIMD struct {
	Version int64
	Header  PDigest
	Objects []POMD
}

var digestSizes = map[string]int{"sha224": 28, "sha256": 32, "sha384": 48, "sha512": 64, "sha512_224": 28, "sha512_256": 32}
var coqAlg = map[string]string{"sha224": "SHA224", "sha256": "SHA256", "sha384": "SHA384", "sha512": "SHA512", "sha512_224": "SHA512_224", "sha512_256": "SHA512_256"}

type jdigest PDigest

func (d *jdigest) UnmarshalJSON(b []byte) error {
	var s string
	if err := json.Unmarshal(b, &s); err != nil {
		return err
	}
	parts := strings.Split(s, ":")
	if len(parts) != 2 {
		return errors.New("malformed")
	}
	v, err := hex.DecodeString(parts[1])
	if err != nil {
		return err
	}
	n, ok := digestSizes[parts[0]]
	if !ok || n != len(v) {
		return errors.New("unsupported or malformed")
	}
	d.Alg, d.Val = parts[0], v
	return nil
}

// ParseMD parses the signed JSON; ok=false when encoding/json (or a digest) rejects it; rep=false
// when it parses but is not representable in the model (a missing digest).
func ParseMD(p []byte) (md PIMD, ok, rep bool) {
	var j struct {
		Version int64 `json:"version"`
		Header  struct {
			Digest jdigest `json:"digest"`
		} `json:"header"`
		Objects []struct {
			RelativeID       uint32  `json:"relativeId"`
			DescriptorDigest jdigest `json:"descriptorDigest"`
			ObjectDigest     jdigest `json:"objectDigest"`
		} `json:"objects"`
	}
	if err := json.Unmarshal(p, &j); err != nil {
		return md, false, true
	}
	rep = j.Header.Digest.Alg != ""
	md.Version, md.Header = j.Version, PDigest(j.Header.Digest)
	for _, o := range j.Objects {
		if o.DescriptorDigest.Alg == "" || o.ObjectDigest.Alg == "" {
			rep = false
		}
		md.Objects = append(md.Objects, POMD{o.RelativeID, PDigest(o.DescriptorDigest), PDigest(o.ObjectDigest)})
	}
	return md, true, rep
}

func (d PDigest) Coq() string { return fmt.Sprintf("(mkDg %s %s)", coqAlg[d.Alg], CoqBytes(d.Val)) }
func (m PIMD) Coq() string {
	var os []string
	for _, o := range m.Objects {
		os = append(os, fmt.Sprintf("mkOMD %d %s %s", o.Rel, o.D.Coq(), o.O.Coq()))
	}
	return fmt.Sprintf("(mkIMD %d %s [%s])", m.Version, m.Header.Coq(), strings.Join(os, "; "))
}

// sectionBytes: what reading Descriptor.GetReader() to the end yields.
func sectionBytes(img []byte, d SDesc) []byte {
	if d.Size <= 0 || d.Off < 0 || d.Off >= int64(len(img)) {
		return nil
	}
	end := d.Off + d.Size
	if end > int64(len(img)) || end < d.Off {
		end = int64(len(img))
	}
	return img[d.Off:end]
}

// VCase is one verification case with everything the model needs.
type VCase struct {
	ID     int
	Image  []byte
	Opts   VOpts
	Obs    VObsAll
	Sigs   []SigFacts
	MDs    map[string]*PIMD // payload -> parsed (nil = rejected by the parser)
	Tags   []string
	Base   []byte // the image this one is a mutation of, if any
	What   string
	Unrepr bool // something is not representable in the model: the case is dropped from the Coq file
}

// BuildVCase runs the library on img and computes the oracle tables for it.
func BuildVCase(k *Keys, id int, img []byte, vo VOpts, cache map[string]*SigFacts) (*VCase, bool) {
	obs, loaded := RunVerify(k, img, vo)
	if !loaded {
		return nil, false
	}
	c := &VCase{ID: id, Image: img, Opts: vo, Obs: obs, MDs: map[string]*PIMD{}}
	si, err := DecodeImage(img)
	if err != nil {
		return nil, false
	}
	for _, d := range si.Descs {
		if !d.Used || d.Type != DataSignature {
			continue
		}
		content := sectionBytes(img, d)
		ht := int32(le32(d.Extra[0:]))
		key := fmt.Sprintf("%x|%v|%v", sha256.Sum256(content), vo.DSSEKeys, vo.PGPEntities)
		sf, ok := cache[key]
		if !ok {
			sf = &SigFacts{Content: append([]byte(nil), content...), DSSE: map[int]*Opened{}}
			sf.Kind, sf.Legacy = classifySig(content)
			sf.PGP = openPGP(k, vo.PGPEntities, content)
			cache[key] = sf
		}
		for _, h := range []int32{ht, 1} {
			if _, done := sf.DSSE[int(h)]; !done {
				sf.DSSE[int(h)] = openDSSE(k, vo.DSSEKeys, content, h)
			}
		}
		c.Sigs = append(c.Sigs, *sf)
		var payloads [][]byte
		if sf.PGP != nil {
			payloads = append(payloads, sf.PGP.Payload)
		}
		for _, o := range sf.DSSE {
			if o != nil {
				payloads = append(payloads, o.Payload)
			}
		}
		for _, p := range payloads {
			if _, ok := c.MDs[string(p)]; ok {
				continue
			}
			md, ok, rep := ParseMD(p)
			if !rep {
				c.Unrepr = true
			}
			if ok {
				m := md
				c.MDs[string(p)] = &m
			} else {
				c.MDs[string(p)] = nil
			}
		}
	}
	return c, true
}

func coqOptBytesList(xs [][]byte, isErr bool) string {
	if isErr {
		return "None"
	}
	var p []string
	for _, x := range xs {
		p = append(p, CoqBytes(x))
	}
	return "(Some [" + strings.Join(p, "; ") + "])"
}

func coqInts[T int | uint32 | int64](xs []T) string {
	var p []string
	for _, x := range xs {
		p = append(p, CoqZ(int64(x)))
	}
	return "[" + strings.Join(p, ";") + "]"
}

func coqPair(p [2]int64) string { return fmt.Sprintf("(%s,%s)", CoqZ(p[0]), CoqZ(p[1])) }

// interner shares long byte strings between the cases of one file.
type interner struct {
	names map[string]string
	defs  []string
	bases []string // names of interned images, candidates for patches
	raw   map[string][]byte
}

func newInterner() *interner { return &interner{names: map[string]string{}, raw: map[string][]byte{}} }

func (in *interner) ref(b []byte) string {
	if len(b) < 24 {
		return CoqBytes(b)
	}
	if n, ok := in.names[string(b)]; ok {
		return n
	}
	n := fmt.Sprintf("b%d", len(in.names))
	in.names[string(b)] = n
	in.raw[n] = b
	in.defs = append(in.defs, fmt.Sprintf("Definition %s : list byte := Eval vm_compute in expand %s.\n", n, CoqRLE(b)))
	return n
}

// image refers to img as a patch of an already interned image when they differ in few places.
func (in *interner) image(img []byte) string {
	if n, ok := in.names[string(img)]; ok {
		return n
	}
	for _, bn := range in.bases {
		b := in.raw[bn]
		if len(b) != len(img) {
			continue
		}
		first, last, ndiff := -1, -1, 0
		for i := range b {
			if b[i] != img[i] {
				if first < 0 {
					first = i
				}
				last = i
				ndiff++
			}
		}
		if first >= 0 && last-first < 1400 {
			return fmt.Sprintf("(patch %s %d %s)", bn, first, in.ref(img[first:last+1]))
		}
	}
	n := in.ref(img)
	in.bases = append(in.bases, n)
	return n
}

func (c *VCase) Coq(in *interner) string {
	var kinds, legs, dsses, pgps, mds []string
	seen := map[string]bool{}
	for _, s := range c.Sigs {
		k := string(s.Content)
		if seen[k] {
			continue
		}
		seen[k] = true
		key := in.ref(s.Content)
		kinds = append(kinds, fmt.Sprintf("(%s, %d)", key, s.Kind))
		legs = append(legs, fmt.Sprintf("(%s, %s)", key, CoqBool(s.Legacy)))
		var hts []int
		for h := range s.DSSE {
			hts = append(hts, h)
		}
		sort.Ints(hts)
		for _, h := range hts {
			o := s.DSSE[h]
			v := "None"
			if o != nil {
				v = fmt.Sprintf("(Some (%s, %s))", in.ref(o.Payload), coqInts(o.Keys))
			}
			dsses = append(dsses, fmt.Sprintf("(%d, %s, %s)", h, key, v))
		}
		v := "None"
		if s.PGP != nil {
			v = fmt.Sprintf("(Some (%s, %s))", in.ref(s.PGP.Payload), CoqBytes(s.PGP.Entity))
		}
		pgps = append(pgps, fmt.Sprintf("(%s, %s)", key, v))
	}
	var pk []string
	for p := range c.MDs {
		pk = append(pk, p)
	}
	sort.Strings(pk)
	for _, p := range pk {
		v := "None"
		if c.MDs[p] != nil {
			v = "(Some " + c.MDs[p].Coq() + ")"
		}
		mds = append(mds, fmt.Sprintf("(%s, %s)", in.ref([]byte(p)), v))
	}
	var rs []string
	for _, r := range c.Obs.Results {
		ent := "None"
		if r.Entity != nil {
			ent = "(Some " + CoqBytes(r.Entity) + ")"
		}
		rs = append(rs, fmt.Sprintf("mkVObs %d %s %s %s %s", r.Sig, coqInts(r.Verified), coqInts(r.Keys), ent, coqPair(r.Err)))
	}
	return fmt.Sprintf("mkVCase %d %s\n  %s %s %s %s\n  (mkOr [%s]\n    [%s]\n    [%s]\n    [%s]\n    [%s])\n  %s %s [%s]\n  %s %s",
		c.ID, in.image(c.Image), c.Opts.Coq(), CoqBool(len(c.Opts.DSSEKeys) > 0), CoqBool(c.Opts.PGPEntities != nil), CoqBool(c.Opts.IgnoreErrors),
		strings.Join(kinds, ";\n     "), strings.Join(legs, ";\n     "), strings.Join(dsses, ";\n     "),
		strings.Join(pgps, ";\n     "), strings.Join(mds, ";\n     "),
		coqPair(c.Obs.NewErr), coqPair(c.Obs.VerifyErr), strings.Join(rs, "; "),
		coqOptBytesList(c.Obs.Any, c.Obs.AnyErr), coqOptBytesList(c.Obs.All, c.Obs.AllErr))
}

func VCasesFile(cs []*VCase) string {
	in := newInterner()
	var body []string
	for _, c := range cs {
		if c.Unrepr {
			continue
		}
		if c.Base != nil {
			in.image(c.Base)
		}
		body = append(body, c.Coq(in))
	}
	var sb strings.Builder
	sb.WriteString("From Coq Require Import List ZArith.\nFrom Coq.Init Require Import Byte.\n")
	sb.WriteString("From Sif Require Import Bytes Store Format Image Exec Integrity ExecI.\nImport ListNotations.\nLocal Open Scope Z_scope.\n")
	for _, d := range in.defs {
		sb.WriteString(d)
	}
	sb.WriteString("Definition cases : list vcase := [\n")
	sb.WriteString(strings.Join(body, ";\n"))
	sb.WriteString("].\nDefinition M := Eval vm_compute in vmismatches cases.\nPrint M.\n")
	return sb.String()
}

// VerifyOnHandle verifies on an already open handle (no reload).
func VerifyOnHandle(k *Keys, f *sif.FileImage, vo VOpts) error {
	v, err := integrity.NewVerifier(f, verifierOpts(k, vo, nil)...)
	if err != nil {
		return err
	}
	return v.Verify()
}

// SignOnHandle signs with configuration c on an open handle.
func SignOnHandle(k *Keys, f *sif.FileImage, c SignConfig) error {
	s, err := integrity.NewSigner(f, c.signerOpts(k)...)
	if err != nil {
		return err
	}
	return s.Sign()
}

// RealSigners opens the signature bytes with every key the harness has: which keys really
// produced it (DSSE key numbers) or which entity (PGP fingerprint).
func RealSigners(k *Keys, content []byte, ht int32) (keys []int, entity []byte) {
	if o := openDSSE(k, k.Names, content, ht); o != nil {
		keys = o.Keys
	}
	all := make([]int, len(k.Entities))
	for i := range all {
		all[i] = i
	}
	if o := openPGP(k, all, content); o != nil {
		entity = o.Entity
	}
	return keys, entity
}

// KeyIndex returns the model number of a DSSE key name.
func (k *Keys) KeyIndex(name string) int {
	for i, n := range k.Names {
		if n == name {
			return i
		}
	}
	return -1
}

// Accepted reports whether both NewVerifier and Verify returned nil.
func (o VObsAll) Accepted() bool { return o.NewErr == [2]int64{} && o.VerifyErr == [2]int64{} }

// SigDescs lists the used signature descriptors of an image.
func SigDescs(img []byte) []SDesc {
	si, err := DecodeImage(img)
	if err != nil {
		return nil
	}
	var out []SDesc
	for _, d := range si.Descs {
		if d.Used && d.Type == DataSignature {
			out = append(out, d)
		}
	}
	return out
}

// SectionBytes is the content of d in img.
func SectionBytes(img []byte, d SDesc) []byte { return sectionBytes(img, d) }

// HashTypeOf is the hash type field of a signature descriptor.
func HashTypeOf(d SDesc) int32 { return int32(le32(d.Extra[0:])) }

// FingerprintOf is the fingerprint recorded in a signature descriptor (nil when absent).
func FingerprintOf(d SDesc) []byte { return fingerprintOf(d) }

// ---------------------------------------------------------------------------------------------
// signing cases: the model of NewSigner/Sign against the library

type SCase struct {
	ID       int
	Before   []byte
	Cfg      SignConfig
	TimeMode int // 0 deterministic + time, 1 explicit time, 2 default (deterministic images only), 3 deterministic alone
	FP       []byte
	MDs      map[string]*PIMD
	Seal     map[string][2][]byte // payload -> envelope, and the hash type as one byte
	Err      [2]int64
	After    []byte
	Unrepr   bool
}

// RunSign signs a copy of before with cfg and records what the model needs.
func RunSign(k *Keys, id int, before []byte, cfg SignConfig) *SCase {
	c := &SCase{ID: id, Before: before, Cfg: cfg, TimeMode: cfg.TimeMode, MDs: map[string]*PIMD{}, Seal: map[string][2][]byte{}}
	if cfg.Scheme == "pgp" {
		c.FP = k.Entities[cfg.Entity].PrimaryKey.Fingerprint
	}
	b := sif.NewBuffer(bytes.Clone(before))
	f, err := sif.LoadContainer(b, sif.OptLoadWithCloseOnUnload(false))
	if err != nil {
		return nil
	}
	c.Err = IErrCode(SignOnHandle(k, f, cfg))
	c.After = bytes.Clone(b.Bytes())
	known := map[string]bool{}
	for _, d := range SigDescs(before) {
		known[fmt.Sprintf("%d|%d", d.Off, d.Size)] = true
	}
	for _, d := range SigDescs(c.After) {
		if known[fmt.Sprintf("%d|%d", d.Off, d.Size)] {
			continue
		}
		content := sectionBytes(c.After, d)
		p := PayloadOf(content)
		if p == nil {
			c.Unrepr = true
			continue
		}
		if old, dup := c.Seal[string(p)]; dup && !bytes.Equal(old[0], content) {
			c.Unrepr = true // two different envelopes of one payload: not a function of the payload
		}
		c.Seal[string(p)] = [2][]byte{content, {byte(HashTypeOf(d))}}
		md, ok, rep := ParseMD(p)
		if !rep || !ok {
			c.Unrepr = true
			continue
		}
		m := md
		c.MDs[string(p)] = &m
	}
	return c
}

func (c *SCase) Coq(in *interner) string {
	zl := func(xs []uint32) string { return coqInts(xs) }
	var objs []string
	for _, ids := range c.Cfg.Objects {
		objs = append(objs, zl(ids))
	}
	// the options as given; the model resolves them (Sign.sign_topt)
	topt := fmt.Sprintf("(sign_topt true (Some %d))", fixedTime().Unix())
	switch c.TimeMode {
	case 1:
		topt = fmt.Sprintf("(sign_topt false (Some %d))", fixedTime().Unix())
	case 2:
		topt = "(sign_topt false None)"
	case 3:
		topt = "(sign_topt true None)"
	}
	fp := "None"
	if c.FP != nil {
		fp = "(Some " + CoqBytes(c.FP) + ")"
	}
	var mds, seals []string
	var pk []string
	for p := range c.MDs {
		pk = append(pk, p)
	}
	sort.Strings(pk)
	for _, p := range pk {
		mds = append(mds, fmt.Sprintf("(%s, Some %s)", in.ref([]byte(p)), c.MDs[p].Coq()))
		sv := c.Seal[p]
		seals = append(seals, fmt.Sprintf("(%s, (%s, %d))", in.ref([]byte(p)), in.ref(sv[0]), sv[1][0]))
	}
	return fmt.Sprintf("mkSCase %d %s (mkSO %s [%s] %s) 0 %s\n  [%s]\n  [%s]\n  %s %s",
		c.ID, in.image(c.Before), zl(c.Cfg.Groups), strings.Join(objs, "; "), topt, fp,
		strings.Join(mds, ";\n   "), strings.Join(seals, ";\n   "), coqPair(c.Err), in.image(c.After))
}

func SCasesFile(cs []*SCase) string {
	in := newInterner()
	var body []string
	for _, c := range cs {
		if c.Unrepr {
			continue
		}
		body = append(body, c.Coq(in))
	}
	var sb strings.Builder
	sb.WriteString("From Coq Require Import List ZArith.\nFrom Coq.Init Require Import Byte.\n")
	sb.WriteString("From Sif Require Import Bytes Store Format Image Exec Integrity Sign ExecI.\nImport ListNotations.\nLocal Open Scope Z_scope.\n")
	for _, d := range in.defs {
		sb.WriteString(d)
	}
	sb.WriteString("Definition cases : list scase := [\n")
	sb.WriteString(strings.Join(body, ";\n"))
	sb.WriteString("].\nDefinition M := Eval vm_compute in smismatches cases.\nPrint M.\n")
	return sb.String()
}
